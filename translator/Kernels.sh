#!/bin/sh
# Kernels: regenerate coq/Gen/GoKernels.v (one Gallina definition per whitelisted arithmetic kernel of
# pkg/uefi, pkg/intel/metadata/fit, pkg/compression and pkg/amd/manifest -- the whitelist is in
# harness/cmd/translate-kernels/main.go) from the Go SOURCE of the repository.  Run for every property
# by bin/gen-extra.  Fails loudly on any statement or expression shape the translator does not recognise.
set -e
ROOT="$(cd "$(dirname "$0")/.." && pwd)"
REPO="${VERIF_REPO_PATH:-/repo}"
export GOFLAGS=-mod=mod GOPROXY=off GOSUMDB=off GOTOOLCHAIN=local CGO_ENABLED=0
mkdir -p "$ROOT/build/bin" "$ROOT/coq/Gen"
cd "$ROOT/harness"
go build -o "$ROOT/build/bin/translate-kernels" ./cmd/translate-kernels
exec "$ROOT/build/bin/translate-kernels" "$REPO" "$ROOT/coq/Gen/GoKernels.v"
