#!/bin/sh
# C20 depends on the manifest schemas of coq/Gen/ManifestCodecs.v (count widths of every
# generated structure): regenerate them from the Go source exactly as C15 does.
set -e
ROOT="$(cd "$(dirname "$0")/.." && pwd)"
exec "$ROOT/translator/C15.sh"
