#!/bin/sh
# C15: regenerate coq/Gen/ManifestCodecs.v (schemas from the struct declarations and
# tags + IR of the generated method bodies) from the Go source.  Fails loudly on any
# shape the translator does not recognise.
set -e
ROOT="$(cd "$(dirname "$0")/.." && pwd)"
REPO="${VERIF_REPO_PATH:-/repo}"
export GOFLAGS=-mod=mod GOPROXY=off GOSUMDB=off GOTOOLCHAIN=local CGO_ENABLED=0
mkdir -p "$ROOT/build/bin" "$ROOT/coq/Gen"
cd "$ROOT/harness"
go build -o "$ROOT/build/bin/translate-c15" ./cmd/translate-c15
exec "$ROOT/build/bin/translate-c15" "$REPO" "$ROOT/coq/Gen/ManifestCodecs.v"
