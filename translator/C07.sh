#!/bin/sh
# C07: regenerate coq/Gen/JsonFields.v (per uefi node type: the fields and whether they survive
# encoding/json) from the struct declarations of pkg/uefi.  Fails loudly on a struct it cannot find.
set -e
ROOT="$(cd "$(dirname "$0")/.." && pwd)"
REPO="${VERIF_REPO_PATH:-/repo}"
export GOFLAGS=-mod=mod GOPROXY=off GOSUMDB=off GOTOOLCHAIN=local CGO_ENABLED=0
mkdir -p "$ROOT/build/bin" "$ROOT/coq/Gen"
cd "$ROOT/harness"
go build -o "$ROOT/build/bin/translate-c07" ./cmd/translate-c07
exec "$ROOT/build/bin/translate-c07" "$REPO" "$ROOT/coq/Gen/JsonFields.v"
