// Package nvargen generates AMI NVAR stores for embedding into firmware images (a raw file with the
// NVAR GUID inside an FFS volume).  The store grammar is the one of harness/cmd/c10 (full entries with
// inline or indexed GUID, ASCII or UCS-2 names, link chains of data-only entries, extended headers,
// entries that are not live: valid bit clear, data-only entries nobody links to, broken extended
// headers, bare headers; optionally nested stores), restricted to what property C07 calls a well-formed
// directory description: names are valid UTF-8 without path separator or NUL, and live variables of
// one store do not share (GUID, name).
package nvargen

import (
	"fmt"
	"unicode/utf8"

	. "verifharness/common"
)

type entry struct {
	attrs  byte
	guid   []byte
	gidx   int // -1 = inline
	raw    []byte
	data   []byte
	nextTo int // index (layout order) of the next chain member, -1 = none
}

func (e *entry) size() int {
	n := 10 + len(e.data)
	if e.attrs&0x08 == 0 {
		if e.attrs&0x04 != 0 {
			n += 16
		} else {
			n++
		}
		n += len(e.raw)
	}
	return n
}

func (e *entry) bytes(next uint32) []byte {
	var body []byte
	if e.attrs&0x08 == 0 {
		if e.attrs&0x04 != 0 {
			body = append(body, e.guid...)
		} else {
			body = append(body, byte(e.gidx))
		}
		body = append(body, e.raw...)
	}
	body = append(body, e.data...)
	sz := 10 + len(body)
	h := []byte{'N', 'V', 'A', 'R', byte(sz), byte(sz >> 8), byte(next), byte(next >> 8), byte(next >> 16), e.attrs}
	return append(h, body...)
}

// Store is a generated store; Kinds tells what it contains (for the distribution in the evidence).
type Store struct {
	pol     byte
	entries []*entry
	free    int
	table   [][]byte
	Kinds   map[string]int
}

// Bytes serialises the store.
func (s *Store) Bytes() []byte {
	offs := make([]int, len(s.entries)+1)
	for i, e := range s.entries {
		offs[i+1] = offs[i] + e.size()
	}
	var b []byte
	for i, e := range s.entries {
		next := uint32(0xFFFFFF)
		if s.pol == 0 {
			next = 0
		}
		if e.nextTo >= 0 {
			next = uint32(offs[e.nextTo] - offs[i])
		}
		b = append(b, e.bytes(next)...)
	}
	for i := 0; i < s.free; i++ {
		b = append(b, s.pol)
	}
	for i := len(s.table) - 1; i >= 0; i-- {
		b = append(b, s.table[i]...)
	}
	return b
}

var namePool = []string{"Setup", "Boot0000", "A", "PlatformLang", "db", "Ω", "Łódź", "名前"}

// safe names: valid UTF-8, no '/', no NUL, no control characters
func genName(r *Rng, ascii bool, uniq int) (raw []byte) {
	var s string
	if ascii {
		s = namePool[r.Intn(5)]
		if r.Chance(1, 4) {
			s = ""
			for i, n := 0, r.Pick(1, 2, 7, 20); i < n; i++ {
				s += string(rune("ABCXYZabcxyz0189_-. +"[r.Intn(21)]))
			}
		}
		s += fmt.Sprintf("%d", uniq)
		return append([]byte(s), 0)
	}
	runes := []rune(namePool[r.Intn(len(namePool))])
	if r.Chance(1, 4) {
		runes = nil
		for i, n := 0, r.Pick(1, 2, 5, 12); i < n; i++ {
			switch r.Intn(3) {
			case 0:
				runes = append(runes, rune('a'+r.Intn(26)))
			case 1:
				runes = append(runes, rune(0xA1+r.Intn(0x700)))
			default:
				runes = append(runes, rune(0x3041+r.Intn(80)))
			}
		}
	}
	runes = append(runes, []rune(fmt.Sprintf("%d", uniq))...)
	for _, c := range runes {
		raw = append(raw, byte(c), byte(c>>8))
	}
	_ = utf8.RuneLen
	return append(raw, 0, 0)
}

func genData(r *Rng, attrs byte) []byte {
	d := r.Bytes(r.Pick(0, 1, 3, 8, 17, 40))
	if attrs&0x10 != 0 {
		xa := byte(r.Pick(0, 1, 1, 0x10, 0x21, 0xCE))
		ext := []byte{xa}
		if attrs&0x40 == 0 {
			ext = append(ext, r.Bytes(8)...)
			if attrs&0x08 != 0 || r.Chance(1, 3) {
				ext = append(ext, r.Bytes(32)...)
			}
		} else if r.Chance(1, 2) {
			ext = append(ext, r.Bytes(r.Intn(12))...)
		}
		if xa&1 != 0 {
			ext = append(ext, byte(r.Intn(256)))
		}
		l := len(ext) + 2
		d = append(d, append(ext, byte(l), byte(l>>8))...)
	}
	if len(d) > 0 && d[0] == 'N' {
		d[0] = 'M'
	}
	return d
}

// Gen builds a store for erase polarity pol (0xFF or 0); depth > 0 allows variables whose content is
// itself a store.
func Gen(r *Rng, pol byte, depth int) *Store {
	s := &Store{pol: pol, Kinds: map[string]int{}}
	nt := r.Pick(0, 0, 1, 2, 3)
	for i := 0; i < nt; i++ {
		s.table = append(s.table, r.Bytes(16))
	}
	nv := r.Pick(1, 1, 2, 3, 4)
	var chains [][]*entry
	usedIdx := -1
	for v := 0; v < nv; v++ {
		attrs := byte(0x80) | byte(r.Pick(0, 1, 0x20, 0x21, 0x40, 0x41, 0x10, 0x11, 0x50))
		ascii := r.Bool()
		if ascii {
			attrs |= 0x02
		}
		e := &entry{attrs: attrs, gidx: -1, nextTo: -1}
		if nt > 0 && r.Chance(2, 3) {
			e.gidx = r.Intn(nt)
			if e.gidx > usedIdx {
				usedIdx = e.gidx
			}
			e.guid = s.table[e.gidx]
		} else {
			e.attrs |= 0x04
			e.guid = r.Bytes(16)
		}
		e.raw = genName(r, ascii, v)
		e.data = genData(r, e.attrs)
		s.Kinds["full"]++
		if depth > 0 && e.attrs&0x10 == 0 && r.Chance(1, 4) {
			e.data = Gen(r, pol, depth-1).Bytes()
			s.Kinds["nested"]++
		}
		c := []*entry{e}
		for j, k := 0, r.Pick(0, 0, 1, 1, 2); j < k; j++ {
			da := byte(0x88) | (e.attrs & 0x50) | byte(r.Pick(0, 1, 0x20))
			d := &entry{attrs: da, gidx: -1, guid: e.guid, nextTo: -1}
			d.data = genData(r, da)
			c = append(c, d)
			s.Kinds["link"]++
		}
		chains = append(chains, c)
	}
	if nt > 0 && usedIdx < nt-1 {
		if usedIdx >= 0 {
			s.table = s.table[:usedIdx+1]
		} else {
			s.table = nil
			for _, c := range chains {
				if c[0].gidx >= 0 {
					c[0].gidx = -1
					c[0].attrs |= 0x04
				}
			}
		}
	}
	pos := make([]int, len(chains))
	prev := make([]int, len(chains))
	remaining := 0
	for i, c := range chains {
		remaining += len(c)
		prev[i] = -1
	}
	junk := func() {
		switch r.Intn(4) {
		case 0: // valid bit clear
			e := &entry{attrs: byte(r.Intn(128)) | 0x04, gidx: -1, nextTo: -1, guid: r.Bytes(16)}
			e.raw = genName(r, e.attrs&2 != 0, 100+len(s.entries))
			e.data = r.Bytes(r.Intn(20))
			s.entries = append(s.entries, e)
			s.Kinds["cleared"]++
		case 1: // a data-only entry nobody links to: valid bit set, computed type "Invalid link"
			e := &entry{attrs: 0x88, gidx: -1, nextTo: -1}
			e.data = genData(r, e.attrs)
			s.entries = append(s.entries, e)
			s.Kinds["orphan"]++
		case 2: // extended header larger than the body: valid bit set, computed type invalid
			e := &entry{attrs: 0x96, gidx: -1, nextTo: -1, guid: r.Bytes(16)}
			e.raw = genName(r, true, 200+len(s.entries))
			e.data = []byte{1, 0xFF, 0x7F}
			s.entries = append(s.entries, e)
			s.Kinds["badext"]++
		case 3: // a bare header, valid bit clear
			s.entries = append(s.entries, &entry{attrs: 0x08, gidx: -1, nextTo: -1})
			s.Kinds["bare"]++
		}
	}
	for remaining > 0 {
		if r.Chance(1, 4) {
			junk()
		}
		ci := r.Intn(len(chains))
		for pos[ci] >= len(chains[ci]) {
			ci = (ci + 1) % len(chains)
		}
		e := chains[ci][pos[ci]]
		idx := len(s.entries)
		s.entries = append(s.entries, e)
		if prev[ci] >= 0 {
			s.entries[prev[ci]].nextTo = idx
		}
		prev[ci] = idx
		pos[ci]++
		remaining--
	}
	if r.Chance(1, 3) {
		junk()
	}
	s.free = r.Pick(0, 1, 9, 10, 33, 200)
	return s
}
