package editops

// Property oracles on images that are too big for the list-based model: they are built inside the
// worker from a seed (a few small arguments in the case file), edited through the real command
// line path and judged by the independent reader. Implementation side only.

import (
	"encoding/binary"
	"fmt"
	"strings"

	. "verifharness/common"
	"verifharness/uefigen"
)

// p_c02_align <seed>: a volume of 512 KiB+ holding a file whose attributes ask for a data
// alignment of 128 KiB .. 1 MiB through FFS_ATTRIB_DATA_ALIGNMENT_2 (attribute bit 0x02, PI spec
// table: index = bits 3..5, +8 when bit 1 is set), and an edit in front of it that changes sizes.
// The saved image must be valid for the independent reader (which computes the required alignment
// itself) and keep its size.
func PC02Align(args []string) string {
	r := NewRng(UnN(args[0]))
	idx := r.Pick(8, 8, 9, 10) // 128 KiB, 256 KiB, 512 KiB
	attr := byte(0x02 | (idx&7)<<3)
	if r.Bool() {
		attr |= 0x40
	}
	mk := func(i int, n int) *uefigen.File {
		return &uefigen.File{GUID: poolGUID(i), Type: 0xC0, State: 0xF8, Body: r.Bytes(n)}
	}
	front := mk(1, r.Pick(5, 40, 300))
	aligned := &uefigen.File{GUID: poolGUID(2), Type: byte(r.Pick(0xC0, 6)), Attr: attr, State: 0xF8, Body: r.Bytes(r.Pick(16, 100, 5000))}
	if r.Bool() {
		aligned.Type = 7
		aligned.Secs = []*uefigen.Sec{{Type: 0x19, Body: aligned.Body}, {Type: 0x15, Body: ucs2("Aligned")}}
		aligned.Body = nil
	}
	back := mk(3, r.Pick(1, 64))
	v := &uefigen.Vol{FSGUID: uefigen.FFS2, Attrs: 0x800 | 0x4FEFF, Revision: 2, BlockSize: 4096,
		Files: []*uefigen.File{front, aligned, back}, FreeSpace: 2*uefigen.AttrAlign(attr) + 4096*r.Pick(2, 10, 40)}
	if r.Bool() {
		v.FSGUID = uefigen.FFS3
	}
	img, _ := uefigen.EmitVol(v)
	if why := ValidImage(img); why != "" {
		return "harness-error generated-image-invalid " + why
	}
	nf := mk(4, r.Pick(8, 100, 2000))
	var op EOp
	switch r.Intn(5) {
	case 0:
		op = EOp{Kind: "rm", Target: GuidText(front.GUID)}
	case 1:
		op = EOp{Kind: "ins", It: "front", Target: GuidText(front.GUID), Data: EmitFile(nf)}
	case 2:
		op = EOp{Kind: "ins", It: "before", Target: GuidText(aligned.GUID), Data: EmitFile(nf)}
	case 3:
		op = EOp{Kind: "ins", It: "replace", Target: GuidText(front.GUID), Data: EmitFile(nf)}
	default:
		op = EOp{Kind: "ins", It: "after", Target: GuidText(front.GUID), Data: EmitFile(nf)}
	}
	res := RunEdit(img, []EOp{op})
	if strings.HasPrefix(res.Stage, "harness-error") {
		return res.Stage
	}
	if res.Stage != "ok" {
		return "FAIL edit-in-front-of-an-aligned-file-failed " + res.Stage
	}
	if len(res.Out) != len(img) {
		return fmt.Sprintf("FAIL size-changed %x -> %x", len(img), len(res.Out))
	}
	if why := ValidImage(res.Out); why != "" {
		return "FAIL invalid-output " + why
	}
	if why := FFS3Rule(res.Out); why != "" {
		return "FAIL invalid-output " + why
	}
	// the aligned file is still there
	if !strings.Contains(AbsVolume(res.Out), fmt.Sprintf("F(%x,", aligned.GUID[:])) {
		return "FAIL aligned-file-lost"
	}
	return "ok"
}

// p_c03_big <seed>: an FFSv3 volume with a file of 16 MiB or more between two small files;
// remove_pad of the big file leaves the others at their offsets and the image valid and of the
// same size; remove moves the trailing file up and keeps the rest.
func PC03Big(args []string) string {
	r := NewRng(UnN(args[0]))
	extra := r.Pick(0, 1, 8, 4097)
	small := &uefigen.File{GUID: poolGUID(1), Type: 0xC5, State: 0xF8, Body: r.Bytes(40)}
	big := &uefigen.File{GUID: poolGUID(2), Type: 0xC0, State: 0xF8, Body: make([]byte, 0x1000000+extra)}
	for i := 0; i < len(big.Body); i += 4093 {
		big.Body[i] = byte(r.U64())
	}
	trail := &uefigen.File{GUID: poolGUID(3), Type: 0xC6, State: 0xF8, Body: r.Bytes(17)}
	v := &uefigen.Vol{FSGUID: uefigen.FFS3, Attrs: 0x800 | 0x4FEFF, Revision: 2, BlockSize: 4096,
		Files: []*uefigen.File{small, big, trail}, FreeSpace: 4096}
	img, _ := uefigen.EmitVol(v)
	pad := r.Bool()
	res := RunEdit(img, []EOp{{Kind: "rm", Pad: pad, Target: GuidText(big.GUID)}})
	if strings.HasPrefix(res.Stage, "harness-error") {
		return res.Stage
	}
	if res.Stage != "ok" {
		return "FAIL removing-a-large-file-failed " + res.Stage
	}
	if len(res.Out) != len(img) {
		return fmt.Sprintf("FAIL size-changed %x -> %x", len(img), len(res.Out))
	}
	if why := ValidImage(res.Out); why != "" {
		return "FAIL invalid-output " + why
	}
	if why := FFS3Rule(res.Out); why != "" {
		return "FAIL invalid-output " + why
	}
	want := "V[" + AbsFile(small.GUID[:], small.Type, 0, small.Body, 24) + AbsFile(trail.GUID[:], trail.Type, 0, trail.Body, 24) + "]"
	if got := AbsVolume(res.Out); got != want {
		return "FAIL file-sequence want " + clip(want) + " got " + clip(got)
	}
	a, b := FileOffsets(img), FileOffsets(res.Out)
	for key, off := range b {
		if old := a[key]; pad && old != off {
			return fmt.Sprintf("FAIL remove_pad-moved-file %s %x -> %x", key, old, off)
		}
	}
	if !pad {
		// the trailing file follows the first one directly
		k1 := fmt.Sprintf("0/%x/%x#1", small.GUID[:], small.Type)
		k3 := fmt.Sprintf("0/%x/%x#1", trail.GUID[:], trail.Type)
		if b[k3] != up(b[k1]+24+len(small.Body), 8) {
			return fmt.Sprintf("FAIL remove-left-a-gap %x %x", b[k1], b[k3])
		}
	}
	return "ok"
}

// p_c02_shrink <seed>: an FFSv3 volume of 17 MiB+ holding a driver whose sections add up to
// 16 MiB or more (large-file attribute, size field 0xFFFFFF, 32-byte header), and one edit:
//   - replace_pe32 with a small image when the PE32 section is the big one: the file shrinks below
//     16 MiB and must be written in the small form (attribute cleared, 24-bit size, 24-byte header);
//   - replace_pe32 with a small image when a RAW section is the big one: the file stays large;
//   - remove / insert of a neighbour: the big file is re-placed unchanged.
// The saved image keeps its size and is valid for the independent reader, which checks
// large attribute <=> size field 0xFFFFFF <=> 32-byte header by itself; the big file is still
// listed with the expected sections.
func PC02Shrink(args []string) string {
	r := NewRng(UnN(args[0]))
	extra := r.Pick(0, 1, 7, 4097)
	bigBody := make([]byte, 0x1000000+extra)
	for i := 0; i < len(bigBody); i += 4091 {
		bigBody[i] = byte(r.U64())
	}
	copy(bigBody, "MZ")
	small := append([]byte("MZ"), r.Bytes(r.Pick(2, 62, 300))...)
	peBig := r.Chance(2, 3)
	drv := &uefigen.File{GUID: poolGUID(2), Type: 7, State: 0xF8, BigSecs: true}
	if r.Bool() {
		drv.Attr |= 0x40
	}
	if peBig {
		drv.Secs = []*uefigen.Sec{{Type: 0x10, Body: bigBody}, {Type: 0x15, Body: ucs2("BigDriver")}}
	} else {
		drv.Secs = []*uefigen.Sec{{Type: 0x19, Body: bigBody}, {Type: 0x10, Body: append([]byte("MZ"), r.Bytes(20)...)}, {Type: 0x15, Body: ucs2("BigDriver")}}
	}
	front := &uefigen.File{GUID: poolGUID(1), Type: 0xC0, State: 0xF8, Body: r.Bytes(r.Pick(5, 40, 300))}
	back := &uefigen.File{GUID: poolGUID(3), Type: 0xC6, State: 0xF8, Body: r.Bytes(17)}
	v := &uefigen.Vol{FSGUID: uefigen.FFS3, Attrs: 0x800 | 0x4FEFF, Revision: 2, BlockSize: 4096,
		Files: []*uefigen.File{front, drv, back}, FreeSpace: 4096 * r.Pick(1, 3)}
	img, _ := uefigen.EmitVol(v)
	if why := ValidImage(img); why != "" {
		return "harness-error generated-image-invalid " + why
	}
	var op EOp
	shrinks := false
	wantPE := bigBody
	if !peBig {
		wantPE = drv.Secs[1].Body
	}
	switch r.Intn(4) {
	case 0, 1:
		op = EOp{Kind: "pe", Target: GuidText(drv.GUID), Data: small}
		shrinks = peBig
		wantPE = small
	case 2:
		op = EOp{Kind: "rm", Pad: r.Bool(), Target: GuidText(front.GUID)}
	default:
		nf := &uefigen.File{GUID: poolGUID(4), Type: 0xC0, State: 0xF8, Body: r.Bytes(r.Pick(8, 100))}
		op = EOp{Kind: "ins", It: "before", Target: GuidText(drv.GUID), Data: EmitFile(nf)}
	}
	res := RunEdit(img, []EOp{op})
	if strings.HasPrefix(res.Stage, "harness-error") {
		return res.Stage
	}
	if res.Stage != "ok" {
		return "FAIL edit-next-to-or-inside-a-large-file-failed " + res.Stage
	}
	if len(res.Out) != len(img) {
		return fmt.Sprintf("FAIL size-changed %x -> %x", len(img), len(res.Out))
	}
	if why := ValidImage(res.Out); why != "" {
		return "FAIL invalid-output " + why
	}
	if why := FFS3Rule(res.Out); why != "" {
		return "FAIL invalid-output " + why
	}
	// the driver is there, in the form its size asks for, with the expected PE32 section
	found := false
	vi := TopVolumes(res.Out)
	if len(vi) != 1 {
		return "FAIL volume-lost"
	}
	for key, off := range FileOffsets(res.Out) {
		if !strings.HasPrefix(key, fmt.Sprintf("0/%x/", drv.GUID[:])) {
			continue
		}
		found = true
		fb := res.Out[off:]
		large := fb[19]&1 != 0
		if large == shrinks {
			return fmt.Sprintf("FAIL large-attribute=%v after the edit (file shrinks below 16 MiB: %v)", large, shrinks)
		}
		hl := 24
		if large {
			hl = 32
		}
		shl, size, ok := secAt(fb, hl)
		if !ok {
			return "FAIL first-section-unreadable"
		}
		first := fb[hl+shl : hl+size]
		if peBig {
			if fb[hl+3] != 0x10 || string(first) != string(wantPE) {
				return "FAIL pe32-section-content"
			}
		} else if fb[hl+3] != 0x19 || len(first) != len(bigBody) {
			return "FAIL raw-section-lost"
		}
	}
	if !found {
		return "FAIL big-file-lost"
	}
	return "ok"
}

// p_c02_exact <kind> <size> <seed>: the size thresholds of the format, hit exactly. A driver with a
// small PE32 section in a volume with 17 MiB of free space; replace_pe32 with an image chosen so that
//   kind "sec":  the regenerated PE32 section has 4 + |image| = <size> (the 4-byte header with the
//                24-bit size below 0xFFFFFF; the 8-byte header with the 32-bit size from 0xFFFFFF on);
//   kind "file": the rebuilt file has 24 + |sections| = <size> (24-byte header below 0xFFFFFF; the
//                large form with the 64-bit size and the 32-byte header from 0xFFFFFF on).
// The saved image keeps its size and is valid for the independent reader; the driver is read back
// (by the reader's own header decoding) in the form the size asks for, with the image as its PE32
// section.
func PC02Exact(args []string) string {
	kind, size := args[0], int(UnN(args[1]))
	r := NewRng(UnN(args[2]))
	var peLen int
	switch kind {
	case "sec":
		peLen = size - 4
	case "file":
		peLen = size - 24 - 4 // one PE32 section in the small form is the whole file body
	default:
		return "harness-error kind"
	}
	if peLen < 2 || (kind == "file" && peLen+4 >= 0xFFFFFF) {
		return "harness-error size"
	}
	pe := make([]byte, peLen)
	copy(pe, "MZ")
	for i := 2; i < len(pe); i += 4099 {
		pe[i] = byte(r.U64())
	}
	drv := &uefigen.File{GUID: poolGUID(2), Type: byte(r.Pick(7, 9)), State: 0xF8,
		Secs: []*uefigen.Sec{{Type: 0x10, Body: append([]byte("MZ"), r.Bytes(r.Pick(0, 5, 30))...)}}}
	if kind == "sec" && r.Bool() {
		drv.Secs = append(drv.Secs, &uefigen.Sec{Type: 0x15, Body: ucs2("Exact")})
	}
	if r.Bool() {
		drv.Attr |= 0x40
	}
	files := []*uefigen.File{drv}
	if r.Bool() {
		files = append([]*uefigen.File{{GUID: poolGUID(1), Type: 0xC0, State: 0xF8, Body: r.Bytes(r.Pick(3, 40))}}, files...)
	}
	if r.Bool() {
		files = append(files, &uefigen.File{GUID: poolGUID(3), Type: 0xC6, State: 0xF8, Body: r.Bytes(17)})
	}
	v := &uefigen.Vol{FSGUID: uefigen.FFS3, Attrs: 0x800 | 0x4FEFF, Revision: 2, BlockSize: 4096,
		Files: files, FreeSpace: 0x1100000 + 4096*r.Pick(0, 1, 5)}
	if r.Bool() {
		v.FSGUID = uefigen.FFS2 // Assemble switches the volume to FFSv3 when a large file or section appears
	}
	img, _ := uefigen.EmitVol(v)
	if why := ValidImage(img); why != "" {
		return "harness-error generated-image-invalid " + why
	}
	res := RunEdit(img, []EOp{{Kind: "pe", Target: GuidText(drv.GUID), Data: pe}})
	if strings.HasPrefix(res.Stage, "harness-error") {
		return res.Stage
	}
	if res.Stage != "ok" {
		return "FAIL replace_pe32-at-a-size-threshold-failed " + res.Stage
	}
	if len(res.Out) != len(img) {
		return fmt.Sprintf("FAIL size-changed %x -> %x", len(img), len(res.Out))
	}
	if why := ValidImage(res.Out); why != "" {
		return "FAIL invalid-output " + why
	}
	if why := FFS3Rule(res.Out); why != "" {
		return "FAIL invalid-output " + why
	}
	found := false
	for key, off := range FileOffsets(res.Out) {
		if !strings.HasPrefix(key, fmt.Sprintf("0/%x/", drv.GUID[:])) {
			continue
		}
		found = true
		fb := res.Out[off:]
		large := fb[19]&1 != 0
		hl, fsize := 24, le24(fb[20:])
		if large {
			hl, fsize = 32, int(binary.LittleEndian.Uint64(fb[24:]))
		}
		if large != (le24(fb[20:]) == 0xFFFFFF) {
			return "FAIL file-large-attribute-vs-size-field"
		}
		shl, ssize, ok := secAt(fb[:fsize], hl)
		if !ok {
			return "FAIL pe32-section-unreadable"
		}
		if fb[hl+3] != 0x10 || ssize-shl != len(pe) || string(fb[hl+shl:hl+ssize]) != string(pe) {
			return fmt.Sprintf("FAIL pe32-section-content header=%d size=%x want-payload=%x", shl, ssize, len(pe))
		}
		if (shl == 8) != (4+len(pe) >= 0xFFFFFF) {
			return fmt.Sprintf("FAIL section-header-form %d-byte header for 4+payload=%x", shl, 4+len(pe))
		}
		if kind == "file" {
			body := fsize - hl
			if large != (24+body >= 0xFFFFFF) {
				return fmt.Sprintf("FAIL file-header-form large=%v for 24+body=%x", large, 24+body)
			}
			if 24+body != size {
				return fmt.Sprintf("FAIL file-size %x want %x", 24+body, size)
			}
		}
	}
	if !found {
		return "FAIL driver-lost"
	}
	return "ok"
}

// p_c02_ffs3 <seed>: an FFSv2 volume of ~20 MiB holding small files, a driver and a carrier file
// with a nested FFSv2 volume; one edit makes a file with sections reach 16 MiB (replace_pe32 of the
// driver, or the insert of such a file), in front of the carrier or - the mirrored order - behind
// it. The volume now holds a file in the large form, so it has to be saved with the FFSv3 GUID
// whatever comes after that file (Assemble's flag is per volume: the nested volume starts clean and
// hands the enclosing volume's flag back); the nested volume holds no large file and keeps FFSv2.
// Same size, valid for the independent reader (checksums, sizes, layout), FFS3Rule on every volume.
func PC02FFS3(args []string) string {
	r := NewRng(UnN(args[0]))
	bigBefore := r.Chance(2, 3)
	mkSmall := func(i int) *uefigen.File {
		return &uefigen.File{GUID: poolGUID(i), Type: 0xC0, State: 0xF8, Body: r.Bytes(r.Pick(3, 40, 200))}
	}
	inner := &uefigen.Vol{FSGUID: uefigen.FFS2, Attrs: 0x800 | 0x4FEFF, Revision: 2, BlockSize: 64,
		Files: []*uefigen.File{
			{GUID: poolGUID(5), Type: 7, State: 0xF8, Secs: []*uefigen.Sec{{Type: 0x10, Body: []byte("MZin")}, {Type: 0x15, Body: ucs2("Inner")}}},
			mkSmall(6)}, FreeSpace: r.Pick(0, 64, 300)}
	carrier := &uefigen.File{GUID: poolGUID(3), Type: byte(r.Pick(11, 11, 7)), State: 0xF8,
		Secs: []*uefigen.Sec{{Type: 0x17, Vol: inner}}}
	if r.Bool() {
		carrier.Secs = append([]*uefigen.Sec{{Type: 0x19, Body: r.Bytes(5)}}, carrier.Secs...)
	}
	drv := &uefigen.File{GUID: poolGUID(2), Type: 7, State: 0xF8,
		Secs: []*uefigen.Sec{{Type: 0x10, Body: append([]byte("MZ"), r.Bytes(20)...)}, {Type: 0x15, Body: ucs2("Grows")}}}
	if r.Bool() {
		drv.Attr |= 0x40
	}
	front := mkSmall(1)
	var files []*uefigen.File
	if bigBefore {
		files = []*uefigen.File{front, drv, carrier}
	} else {
		files = []*uefigen.File{front, carrier, drv}
	}
	if r.Bool() {
		files = append(files, mkSmall(4))
	}
	v := &uefigen.Vol{FSGUID: uefigen.FFS2, Attrs: 0x800 | 0x4FEFF, Revision: 2, BlockSize: 4096,
		Files: files, FreeSpace: 0x1100000 + 4096*r.Pick(0, 3, 700)}
	img, _ := uefigen.EmitVol(v)
	if why := ValidImage(img); why != "" {
		return "harness-error generated-image-invalid " + why
	}
	big := make([]byte, 0x1000000+r.Pick(0, 1, 9, 4097))
	copy(big, "MZ")
	for i := 2; i < len(big); i += 4093 {
		big[i] = byte(r.U64())
	}
	var op EOp
	if r.Chance(1, 2) {
		op = EOp{Kind: "pe", Target: GuidText(drv.GUID), Data: big}
	} else {
		nf := &uefigen.File{GUID: poolGUID(4 + 3), Type: 9, State: 0xF8, BigSecs: true,
			Secs: []*uefigen.Sec{{Type: 0x10, Body: big}}}
		data := EmitFile(nf)
		if data == nil {
			return "harness-error big-file-not-serialised"
		}
		switch {
		case bigBefore && r.Bool():
			op = EOp{Kind: "ins", It: "front", Target: GuidText(front.GUID), Data: data}
		case bigBefore:
			op = EOp{Kind: "ins", It: []string{"after", "before"}[r.Intn(2)], Target: GuidText(drv.GUID), Data: data}
		default:
			op = EOp{Kind: "ins", It: []string{"after", "end"}[r.Intn(2)], Target: GuidText(carrier.GUID), Data: data}
		}
	}
	res := RunEdit(img, []EOp{op})
	if strings.HasPrefix(res.Stage, "harness-error") {
		return res.Stage
	}
	if res.Stage != "ok" {
		return "FAIL growing-a-file-to-16-MiB-next-to-a-nested-volume-failed " + res.Stage
	}
	if len(res.Out) != len(img) {
		return fmt.Sprintf("FAIL size-changed %x -> %x", len(img), len(res.Out))
	}
	if why := ValidImage(res.Out); why != "" {
		return "FAIL invalid-output " + why
	}
	if why := FFS3Rule(res.Out); why != "" {
		return "FAIL invalid-output " + why
	}
	// the outer volume really holds a large file now and says FFSv3; the nested one still says FFSv2
	if string(res.Out[16:32]) != string(ffs3[:]) {
		return "FAIL outer-volume-not-FFSv3"
	}
	hasLarge := false
	for _, off := range FileOffsets(res.Out) {
		if res.Out[off+19]&1 != 0 {
			hasLarge = true
		}
	}
	if !hasLarge {
		return "FAIL no-large-file-in-the-output"
	}
	abs := AbsVolume(res.Out)
	if !strings.Contains(abs, "S(17,V[") || !strings.Contains(abs, fmt.Sprintf("F(%x,", poolGUID(5))) {
		return "FAIL nested-volume-lost " + clip(abs)
	}
	k := strings.Index(string(res.Out[64:]), "_FVH")
	if k < 0 {
		return "FAIL nested-volume-signature-lost"
	}
	if nv := 64 + k - 40; string(res.Out[nv+16:nv+32]) != string(ffs2[:]) {
		return "FAIL nested-volume-without-large-files-became-FFSv3"
	}
	return "ok"
}
