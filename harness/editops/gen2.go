package editops

// Generators for the operations of property C02 that work on whole volumes: create-fv (a new
// volume in place of inter-volume padding) and repack (the files of a volume packed into one
// compressed nested volume). They run through the property oracle p_c02 only (same size, valid for
// the independent reader, no output file after a failing stage); the model does not have them.

import (
	. "verifharness/common"
	"verifharness/flashops"
	"verifharness/uefigen"
)

// FlashCase puts the image of a case (a BIOS region) into an Intel flash image: trailing padding up
// to whole 4 KiB blocks, then descriptor, ME / raw regions and gaps around it (flashops.Wrap). The
// operations and the expectation stay as they are (they speak about the volumes of the BIOS
// region); the offset of a create-fv becomes absolute. Implementation side only: the edit model
// works on a bare BIOS region.
func FlashCase(r *Rng, c ECase) ECase {
	bios := append([]byte{}, c.Img...)
	if n := (4096 - len(bios)%4096) % 4096; n > 0 {
		pad := r.Bytes(n)
		for i := range pad {
			if pad[i] == '_' || r.Chance(1, 2) {
				pad[i] = 0xFF
			}
		}
		if r.Chance(1, 2) {
			for i := range pad {
				pad[i] = 0xFF
			}
		}
		bios = append(bios, pad...)
	}
	img, off := flashops.Wrap(r, bios)
	c.Img = img
	ops := append([]EOp{}, c.Ops...)
	for i := range ops {
		if ops[i].Kind == "cfv" {
			ops[i].Off += uint64(off)
		}
	}
	c.Ops = ops
	c.Flat = false
	return c
}

// bigPad: padding large enough to hold a volume of whole 4 KiB blocks; erased, or noise without
// a volume signature.
func bigPad(r *Rng) []byte {
	n := 4096*r.Pick(1, 1, 2, 3) + 8*r.Pick(0, 0, 1, 9, 64)
	b := r.Bytes(n)
	for i := range b {
		if b[i] == '_' {
			b[i] = '-'
		}
	}
	if r.Chance(2, 3) {
		for i := range b {
			b[i] = 0xFF
		}
	}
	return b
}

// GenCaseVolOps: an image with at least one big padding and a sequence holding create-fv and/or
// repack, possibly between ordinary edits and followed by an insert into the new volume.
func GenCaseVolOps(r *Rng) ECase {
	reg := GenRegionSpec(r, r.Pick(0, 0, 1), true)
	// big paddings: after a random element, and sometimes in front of everything
	at := 1 + r.Intn(len(reg.Elems))
	el := append([]uefigen.Elem{}, reg.Elems[:at]...)
	el = append(el, uefigen.Elem{Pad: bigPad(r)})
	el = append(el, reg.Elems[at:]...)
	if r.Chance(1, 4) {
		el = append([]uefigen.Elem{{Pad: bigPad(r)}}, el...)
	}
	reg.Elems = el
	img, _ := uefigen.EmitRegion(reg)
	// the byte ranges of the paddings (Vol.Length is filled in by the serialiser)
	type span struct{ off, n int }
	var pads []span
	off := 0
	for _, e := range reg.Elems {
		if e.Vol != nil {
			off += e.Vol.Length
		} else {
			if len(e.Pad) >= 4096 {
				pads = append(pads, span{off, len(e.Pad)})
			}
			off += len(e.Pad)
		}
	}
	var ops []EOp
	touched := map[int]bool{}
	plain := func() {
		o := GenOp(r, reg, 1)
		ops = append(ops, o)
		ApplySpec(reg, o, touched)
	}
	if r.Chance(1, 3) {
		plain()
	}
	switch r.Intn(3) {
	case 0, 1: // create-fv, mostly in a padding that can take it
		p := pads[r.Intn(len(pads))]
		size := uint64(4096 * r.Range(1, p.n/4096))
		room := p.n - int(size)
		o := uint64(p.off + 8*r.Intn(room/8+1))
		switch r.Intn(12) {
		case 0:
			o += uint64(r.Pick(1, 4, 7)) // not 8-aligned
		case 1:
			size += uint64(r.Pick(8, 64, 2048)) // not whole blocks
		case 2:
			o = uint64(p.off + p.n - int(size) + 8) // reaches beyond the padding
		case 3:
			if p.off >= 64 {
				o = uint64(p.off - 64) // starts inside the element in front
			}
		case 4:
			size = uint64(r.Pick(0, 8, 64, 115, 116, 120, 128)) // no room for header, block map and name file
		}
		name := GuidText(volNames[r.Intn(len(volNames))])
		if r.Chance(1, 2) {
			var g [16]byte
			copy(g[:], r.Bytes(16))
			name = GuidText(g)
		}
		ops = append(ops, EOp{Kind: "cfv", Off: o, Size: size, Target: randCase(r, name)})
		for r.Chance(1, 2) {
			saved := Compressed
			Compressed = false
			f := GenFileSpec(r, 0, 0, r.Chance(1, 2))
			Compressed = saved
			ops = append(ops, EOp{Kind: "ins", It: []string{"front", "end", "gfront", "gend"}[r.Intn(4)], Target: randCase(r, name), Spec: f, Data: EmitFile(f)})
		}
	default: // repack a volume named directly or through one of its files
		ops = append(ops, EOp{Kind: "rp", Target: genTarget(r, reg, true, true)})
		if _, vols := present(reg); len(vols) > 0 && r.Chance(1, 3) {
			ops[len(ops)-1].Target = randCase(r, vols[r.Intn(len(vols))])
		}
	}
	if r.Chance(1, 3) {
		plain()
	}
	return ECase{Img: img, Ops: ops, Reg: reg, Comp: RegionHasCompressed(reg)}
}

// RepackEmptyCase: repack of a volume that holds no file, named by its volume name (the one way to
// name it); the new nested volume must be a well-formed volume all the same.
func RepackEmptyCase(r *Rng) ECase {
	name := volNames[r.Intn(len(volNames))]
	v := &uefigen.Vol{FSGUID: uefigen.FFS2, Attrs: 0x800 | uint32(r.Pick(0, 0x4FEFF)), Revision: 2, BlockSize: uint32(r.Pick(8, 64, 256)),
		FreeSpace: r.Pick(100, 300, 600), ExtHeader: true, ExtName: name}
	reg := &uefigen.Region{Elems: []uefigen.Elem{{Vol: v}}}
	if r.Bool() {
		reg.Elems = append(reg.Elems, uefigen.Elem{Vol: GenVolSpec(r, 0, 0, false)})
	}
	img, _ := uefigen.EmitRegion(reg)
	return ECase{Img: img, Ops: []EOp{{Kind: "rp", Target: randCase(r, GuidText(name))}}, Reg: reg}
}

// CreateFvCase: a small region with one padding of a block or more and a create-fv of whole 4 KiB
// blocks (the sizes on which the model of Model/CreateFv.v and the code agree whether or not the
// repair fixes/C02-createfv-whole-blocks.diff is applied): inside the padding at an 8-aligned
// offset, or reaching over its end, or starting in the element in front, or beyond the region.
// Returns the image, offset, size and the 16 name bytes (arguments of the C operation createfv).
func CreateFvCase(r *Rng) (img []byte, off, size uint64, name [16]byte) {
	saved := Compressed
	Compressed = false // no codec tables needed
	reg := GenRegionSpec(r, 0, true)
	Compressed = saved
	n := 4096 + 8*r.Pick(0, 0, 1, 9, 40)
	if r.Chance(1, 8) {
		n += 4096
	}
	pad := make([]byte, n)
	for i := range pad {
		pad[i] = 0xFF
	}
	if r.Chance(1, 3) {
		copy(pad, r.Bytes(n))
		for i := range pad {
			if pad[i] == '_' {
				pad[i] = '-'
			}
		}
	}
	at := 1 + r.Intn(len(reg.Elems))
	el := append([]uefigen.Elem{}, reg.Elems[:at]...)
	el = append(el, uefigen.Elem{Pad: pad})
	reg.Elems = append(el, reg.Elems[at:]...)
	img, _ = uefigen.EmitRegion(reg)
	po := 0
	for _, e := range reg.Elems[:at] {
		if e.Vol != nil {
			po += e.Vol.Length
		} else {
			po += len(e.Pad)
		}
	}
	size = uint64(4096 * r.Range(1, n/4096))
	off = uint64(po + 8*r.Intn((n-int(size))/8+1))
	switch r.Intn(20) {
	case 0:
		off = uint64(po + n - int(size) + 8) // reaches over the end of the padding
	case 1:
		if po >= 64 {
			off = uint64(po - 64) // starts inside the element in front
		}
	case 2:
		off = uint64(len(img)) - size + 8 // beyond the region
	case 3:
		size += 4096 // a block more than the padding holds
	}
	copy(name[:], r.Bytes(16))
	return
}

// ---------- nested volumes in carrier files of any sectioned type ----------

// GenCaseCarrier: the first operation is an insert (after / before / replace, both spellings) whose
// target is a file inside a nested volume, and that volume's FV-image section sits in a file whose
// type is NOT the FV-image file type (a driver, application, core...). Legal, parsed by fiano and
// listed by find: the insert has to happen there as anywhere else. ok=false: the draws gave no such
// image.
func GenCaseCarrier(r *Rng) (ECase, bool) {
	for try := 0; try < 40; try++ {
		reg := GenRegionSpec(r, 1, true)
		var cands []string
		for _, e := range reg.Elems {
			if e.Vol == nil || !isFFS(e.Vol) {
				continue
			}
			for _, f := range e.Vol.Files {
				if f.Type == 11 {
					continue
				}
				for _, s := range f.Secs {
					if s.Vol == nil {
						continue
					}
					for _, g := range s.Vol.Files {
						t := GuidText(g.GUID)
						if len(findSpec(reg, matcherOf(t, false), true, -1)) == 1 {
							cands = append(cands, t)
						}
					}
				}
			}
		}
		if len(cands) == 0 {
			continue
		}
		saved := Compressed
		Compressed = false
		nf := GenFileSpec(r, 0, 0, r.Chance(1, 2))
		Compressed = saved
		it := []string{"after", "before", "replace", "gafter", "gbefore", "after"}[r.Intn(6)]
		o := EOp{Kind: "ins", It: it, Target: randCase(r, cands[r.Intn(len(cands))]), Spec: nf, Data: EmitFile(nf)}
		return caseOn(r, reg, 1, []EOp{o}, r.Pick(0, 0, 1)), true
	}
	return ECase{}, false
}

// ---------- an edit that cannot fit ----------

// GenCaseNoFit: an insert (any position; file or volume target) of a file that is larger than every
// top-level volume of the image: the operation itself succeeds (the target selects exactly one
// thing), assembling fails for lack of space, so save must report the error and write nothing.
// Top-level volumes are never resized.
func GenCaseNoFit(r *Rng) (ECase, bool) {
	for try := 0; try < 40; try++ {
		reg := GenRegionSpec(r, r.Pick(0, 0, 1), true)
		img, _ := uefigen.EmitRegion(reg)
		max := 0
		var files, vols []string
		for _, e := range reg.Elems {
			if e.Vol == nil {
				continue
			}
			if e.Vol.Length > max {
				max = e.Vol.Length
			}
		}
		fs, vs := present(reg)
		for _, t := range fs {
			if len(findSpec(reg, matcherOf(t, false), true, -1)) == 1 {
				files = append(files, t)
			}
		}
		for _, t := range vs {
			if ms := findSpec(reg, matcherOf(t, false), true, -1); len(ms) == 1 && !ms[0].isFile && isFFS(ms[0].vol) {
				vols = append(vols, t)
			}
		}
		if len(files)+len(vols) == 0 || len(img) > 24000 {
			continue
		}
		nf := &uefigen.File{GUID: poolGUID(6), Type: 0xC0, State: validState(), Body: r.Bytes(max + r.Pick(0, 1, 100))}
		var o EOp
		if len(vols) > 0 && (len(files) == 0 || r.Chance(1, 3)) {
			o = EOp{Kind: "ins", It: []string{"front", "end", "gfront", "gend"}[r.Intn(4)], Target: randCase(r, vols[r.Intn(len(vols))])}
		} else {
			o = EOp{Kind: "ins", It: insKinds[r.Intn(len(insKinds)-1)], Target: randCase(r, files[r.Intn(len(files))])}
		}
		o.Spec, o.Data = nf, EmitFile(nf)
		var ops []EOp
		if r.Chance(1, 3) {
			// a read-only visitor first - but not flatten, which empties the tree it walked
			// (Flatten.Run sets Elements / Files / Sections of every listed node to nil), and not
			// dump, which fails without a unique match
			if ro := GenRO(r, reg); ro.RO != "flatten" && ro.RO != "dump" {
				ops = append(ops, ro)
			}
		}
		ops = append(ops, o)
		return ECase{Img: img, Ops: ops, Reg: reg, Comp: RegionHasCompressed(reg)}, true
	}
	return ECase{}, false
}
