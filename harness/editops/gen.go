package editops

// Generators for C02/C03 and the list-level reference semantics of the edits on the generator's
// image specs (uefigen.Region): which file an argument selects, what the volumes' file lists must
// be afterwards. Nothing here calls fiano.

import (
	"encoding/binary"
	"fmt"
	"regexp"
	"strings"

	. "verifharness/common"
	"verifharness/uefigen"
)

// ---------- text forms ----------

// GuidText is the mixed-endian text form of a GUID (first three fields little endian).
func GuidText(g [16]byte) string {
	return fmt.Sprintf("%02X%02X%02X%02X-%02X%02X-%02X%02X-%02X%02X-%02X%02X%02X%02X%02X%02X",
		g[3], g[2], g[1], g[0], g[5], g[4], g[7], g[6], g[8], g[9], g[10], g[11], g[12], g[13], g[14], g[15])
}

func ucs2(s string) []byte {
	var b []byte
	for _, r := range s {
		b = append(b, byte(r), byte(r>>8))
	}
	return append(b, 0, 0)
}

func uiName(s *uefigen.Sec) (string, bool) {
	if s.Type != 0x15 {
		return "", false
	}
	var sb strings.Builder
	for i := 0; i+1 < len(s.Body); i += 2 {
		c := rune(s.Body[i]) | rune(s.Body[i+1])<<8
		if c == 0 && i+2 >= len(s.Body) {
			break
		}
		sb.WriteRune(c)
	}
	return sb.String(), true
}

func ciEq(a, b string) bool { return strings.EqualFold(a, b) }

// ---------- compressed sections of the specs (generator side) ----------

// Enc is the codec oracle (set by the executor: fiano's real encoders, as in C06); an image built
// with it is a fixed point of Save.
var Enc uefigen.Enc

type compInfo struct {
	Kind int
	Kids []*uefigen.Sec
}

// comp remembers the children of the compressed GUID-defined sections the generator built
// (uefigen.Sec itself only carries the compressed payload).
var comp = map[*uefigen.Sec]*compInfo{}

// NewCompressed builds a compressed section (attribute word 1 = processing required) around kids.
func NewCompressed(kind int, kids []*uefigen.Sec) *uefigen.Sec {
	s, err := uefigen.CompressedSec(kind, kids, Enc, nil, 1)
	if err != nil || s == nil {
		return &uefigen.Sec{Type: 0x19, Body: []byte{1}}
	}
	comp[s] = &compInfo{Kind: kind, Kids: kids}
	return s
}

func recompress(s *uefigen.Sec) {
	if ci := comp[s]; ci != nil {
		if c, err := Enc(ci.Kind, uefigen.JoinSecs(ci.Kids)); err == nil {
			s.Body = c
		}
	}
}

// owned calls fn on every section the file owns: its sections and, through compressed sections,
// their children (not the sections of files of a nested volume).
func owned(secs []*uefigen.Sec, fn func(s *uefigen.Sec)) {
	for _, s := range secs {
		fn(s)
		if ci := comp[s]; ci != nil {
			owned(ci.Kids, fn)
		}
	}
}

func hasCompressed(f *uefigen.File) bool {
	r := false
	owned(f.Secs, func(s *uefigen.Sec) {
		if comp[s] != nil {
			r = true
		}
	})
	return r
}

// RegionHasCompressed: does any file of the region hold a compressed section
func RegionHasCompressed(reg *uefigen.Region) bool {
	r := false
	var walk func(v *uefigen.Vol)
	walk = func(v *uefigen.Vol) {
		for _, f := range v.Files {
			if hasCompressed(f) {
				r = true
			}
			for _, s := range f.Secs {
				if s.Vol != nil {
					walk(s.Vol)
				}
			}
		}
	}
	for _, e := range reg.Elems {
		if e.Vol != nil {
			walk(e.Vol)
		}
	}
	return r
}

// ---------- the scope of the end-to-end theorem C02_valid_after_edits_flat ----------

func secFlat(s *uefigen.Sec) bool {
	if s.Vol != nil || s.Type == 0x17 {
		return false // a visible nested volume
	}
	if s.Type == 0x02 && s.GDAttrs&1 != 0 {
		for k := 1; k <= 3; k++ {
			if s.GUID == uefigen.CodecGUID(k) {
				return false // fiano opens and re-compresses it
			}
		}
	}
	return true
}

// FileFlat: every section of the file is a leaf for fiano (no volume image, no opened compressed section).
func FileFlat(f *uefigen.File) bool {
	for _, s := range f.Secs {
		if comp[s] != nil || !secFlat(s) {
			return false
		}
	}
	return true
}

// SpecFlat: the generator's claim that the parsed tree of the region is "flat" in the sense of
// coq/Model/ValidInv.v; the model runner decides it (flat_check) on the bytes. Callers add
// "the image is valid for the reader" (ValidImage) where the generator may break checksums.
func SpecFlat(reg *uefigen.Region) bool {
	for _, e := range reg.Elems {
		if e.Vol == nil {
			continue
		}
		for _, f := range e.Vol.Files {
			if !FileFlat(f) {
				return false
			}
		}
	}
	return true
}

// OpsFlat: the command line parses and every inserted file is flat.
func OpsFlat(ops []EOp) bool {
	for _, o := range ops {
		if o.Bad || (o.Spec != nil && !FileFlat(o.Spec)) {
			return false
		}
	}
	return true
}

// ---------- abstract rendering of a spec (must agree with reader.go's AbsVolume) ----------

func isFFS(v *uefigen.Vol) bool { return v.FSGUID == uefigen.FFS2 || v.FSGUID == uefigen.FFS3 }

func AbsVolSpec(v *uefigen.Vol) string {
	if !isFFS(v) {
		return "V?"
	}
	var sb strings.Builder
	sb.WriteString("V[")
	for _, f := range v.Files {
		if f.IsPad || f.Type == 0xF0 {
			continue
		}
		fmt.Fprintf(&sb, "F(%x,%x,%x)", f.GUID[:], f.Type, f.Attr&^1)
		if f.Secs == nil {
			fmt.Fprintf(&sb, "R(%x)", f.Body)
			continue
		}
		sb.WriteString("{")
		absSecsSpec(&sb, f.Secs)
		sb.WriteString("}")
	}
	sb.WriteString("]")
	return sb.String()
}

func absSecsSpec(sb *strings.Builder, secs []*uefigen.Sec) {
	for _, s := range secs {
		switch {
		case s.Vol != nil:
			fmt.Fprintf(sb, "S(17,%s)", AbsVolSpec(s.Vol))
		case comp[s] != nil:
			// a compressed section is rendered by what it decodes to, not by the compressed bytes
			sb.WriteString("Z(")
			absSecsSpec(sb, comp[s].Kids)
			sb.WriteString(")")
		case s.Type == 0x02:
			var b []byte
			b = append(b, s.GUID[:]...)
			b = binary.LittleEndian.AppendUint16(b, uint16(24+len(s.GDExtra)))
			b = binary.LittleEndian.AppendUint16(b, s.GDAttrs)
			b = append(b, s.GDExtra...)
			b = append(b, s.Body...)
			fmt.Fprintf(sb, "S(2,%x)", b)
		default:
			fmt.Fprintf(sb, "S(%x,%x)", s.Type, s.Body)
		}
	}
}

func AbsRegionSpec(reg *uefigen.Region) string {
	var parts []string
	for _, e := range reg.Elems {
		if e.Vol != nil {
			parts = append(parts, AbsVolSpec(e.Vol))
		}
	}
	return strings.Join(parts, "|")
}

// ---------- reference semantics on specs ----------

type specMatch struct {
	vol    *uefigen.Vol // a matched volume (file == nil), or the volume holding the matched file
	file   *uefigen.File
	idx    int
	top    int // index of the enclosing top-level volume
	isFile bool
}

// findSpec lists what a text selects: volumes by name (fvp), files by GUID text or by the name of
// a UI section they own; or (byType >= 0) files of that type.
// Matcher of an operation's argument: a literal is compared case-insensitively, a pattern must
// match the whole text (Go regexp on `(?i)^(?:r)$`, evaluated here and nowhere in fiano).
func matcherOf(target string, re bool) func(string) bool {
	if !re {
		return func(t string) bool { return ciEq(t, target) }
	}
	rx, err := regexp.Compile("(?i)^(?:" + target + ")$")
	if err != nil {
		return func(string) bool { return false }
	}
	return rx.MatchString
}

func findSpec(reg *uefigen.Region, match func(string) bool, fvp bool, byType int) []specMatch {
	var ms []specMatch
	var walk func(v *uefigen.Vol, top int)
	walk = func(v *uefigen.Vol, top int) {
		if fvp && byType < 0 {
			name := [16]byte{}
			if v.ExtHeader {
				name = v.ExtName
			}
			if match(GuidText(name)) {
				ms = append(ms, specMatch{vol: v, top: top})
			}
		}
		if !isFFS(v) {
			return
		}
		for i, f := range v.Files {
			hit := false
			if byType >= 0 {
				hit = int(f.Type) == byType
			} else {
				hit = match(GuidText(f.GUID))
				owned(f.Secs, func(s *uefigen.Sec) {
					if n, ok := uiName(s); ok && match(n) {
						hit = true
					}
				})
			}
			if hit {
				ms = append(ms, specMatch{vol: v, file: f, idx: i, top: top, isFile: true})
			}
			for _, s := range f.Secs {
				if s.Vol != nil {
					walk(s.Vol, top)
				}
			}
		}
	}
	top := 0
	for _, e := range reg.Elems {
		if e.Vol != nil {
			walk(e.Vol, top)
			top++
		}
	}
	return ms
}

func insertAt(fs []*uefigen.File, i int, f *uefigen.File) []*uefigen.File {
	out := append([]*uefigen.File{}, fs[:i]...)
	out = append(out, f)
	return append(out, fs[i:]...)
}

// ApplySpec performs one operation on the spec; false = the operation must fail.
func ApplySpec(reg *uefigen.Region, o EOp, touched map[int]bool) bool {
	switch o.Kind {
	case "ro":
		return true
	case "ins":
		it := strings.TrimPrefix(o.It, "g")
		var ms []specMatch
		if it == "dxe" {
			ms = findSpec(reg, nil, false, 5)
		} else {
			ms = findSpec(reg, matcherOf(o.Target, o.Re), true, -1)
		}
		if len(ms) != 1 {
			return false
		}
		m := ms[0]
		if !m.isFile {
			switch it {
			case "front":
				m.vol.Files = insertAt(m.vol.Files, 0, o.Spec)
			case "end":
				m.vol.Files = insertAt(m.vol.Files, len(m.vol.Files), o.Spec)
			default:
				return false
			}
			touched[m.top] = true
			return true
		}
		v := m.vol
		switch it {
		case "front":
			v.Files = insertAt(v.Files, 0, o.Spec)
		case "end", "dxe":
			v.Files = insertAt(v.Files, len(v.Files), o.Spec)
		case "after":
			v.Files = insertAt(v.Files, m.idx+1, o.Spec)
		case "before":
			v.Files = insertAt(v.Files, m.idx, o.Spec)
		case "replace":
			fs := append([]*uefigen.File{}, v.Files...)
			fs[m.idx] = o.Spec
			v.Files = fs
		}
		touched[m.top] = true
		return true
	case "rm":
		drop := map[*uefigen.File]bool{}
		for _, m := range findSpec(reg, matcherOf(o.Target, o.Re), false, -1) {
			drop[m.file] = true
		}
		var walk func(v *uefigen.Vol, top int)
		walk = func(v *uefigen.Vol, top int) {
			var keep []*uefigen.File
			for _, f := range v.Files {
				if drop[f] {
					touched[top] = true
					continue
				}
				keep = append(keep, f)
				for _, s := range f.Secs {
					if s.Vol != nil {
						walk(s.Vol, top)
					}
				}
			}
			v.Files = keep
		}
		top := 0
		for _, e := range reg.Elems {
			if e.Vol != nil {
				walk(e.Vol, top)
				top++
			}
		}
		return true
	case "pe":
		if len(o.Data) < 2 || o.Data[0] != 'M' || o.Data[1] != 'Z' {
			return false
		}
		ms := findSpec(reg, matcherOf(o.Target, o.Re), false, -1)
		if len(ms) != 1 {
			return false
		}
		// every PE32 section the file owns, also inside compressed sections (which are re-encoded)
		owned(ms[0].file.Secs, func(s *uefigen.Sec) {
			if s.Type == 0x10 {
				s.Body = append([]byte{}, o.Data...)
			}
		})
		var fix func(secs []*uefigen.Sec)
		fix = func(secs []*uefigen.Sec) {
			for _, s := range secs {
				if ci := comp[s]; ci != nil {
					fix(ci.Kids)
					recompress(s)
				}
			}
		}
		fix(ms[0].file.Secs)
		touched[ms[0].top] = true
		return true
	}
	return false
}

// AnyBad: a file to insert that does not parse makes ParseCLI fail before anything else happens.
func AnyBad(ops []EOp) bool {
	for _, o := range ops {
		if o.Bad {
			return true
		}
	}
	return false
}

// Expectation of a sequence: "E<k>" or the hex of the abstract lists, and the touched volumes.
func Expect(reg *uefigen.Region, ops []EOp) (string, string) {
	touched := map[int]bool{}
	for k, o := range ops {
		if !ApplySpec(reg, o, touched) {
			return fmt.Sprintf("E%d", k), "-"
		}
	}
	return expectOf(reg, touched)
}

func expectOf(reg *uefigen.Region, touched map[int]bool) (string, string) {
	var t []string
	for i := 0; i < 64; i++ {
		if touched[i] {
			t = append(t, N(uint64(i)))
		}
	}
	ts := "-"
	if len(t) > 0 {
		ts = strings.Join(t, ",")
	}
	return H([]byte(AbsRegionSpec(reg))), ts
}

// ---------- image and operation generators ----------

func poolGUID(i int) [16]byte {
	var g [16]byte
	g[0] = byte(i)
	g[5] = 0xAB
	g[15] = 0x77
	return g
}

// names that are prefixes, suffixes and infixes of each other (selection must be by the whole name)
var namePool = []string{"Shell", "ShellFull", "Fat", "EnhancedFat", "AShellB", "DxeCore", "Setup9", "b_2"}
var volNames = [][16]byte{{0xA1, 2, 3, 4, 5, 6, 7, 8, 9, 10, 11, 12, 13, 14, 15, 0xEE}, {0xB2, 9, 9, 9, 9, 9, 9, 9, 9, 9, 9, 9, 9, 9, 9, 0xDD}}

func smallBody(r *Rng) []byte { return r.Bytes(r.Pick(0, 1, 4, 5, 16, 33)) }

func peBody(r *Rng) []byte { return append([]byte("MZ"), r.Bytes(r.Pick(0, 2, 6, 30))...) }

// Erase polarity of the region being generated (set by GenRegionSpec, read by GenVolSpec and
// GenFileSpec). Pol0 regions in 40 get erase polarity 0 (volume attribute bit 0x800 clear: free
// space, alignment gaps and pad files are zeros, file states are not inverted). All volumes of a
// region, nested ones included, share it - fiano refuses an image with two polarities - except in
// the rare "mixed" regions, which must fail to parse.
//
// Pol0 is 0 (off) by default: fiano at the pinned commit cannot parse a volume of erase polarity 0
// that has any free space (NewFile recognises free space only by the size field FF FF FF; erased
// zeros read as a file of size 0, "File size too small"), and the model, written as the code is,
// refuses them likewise. With Pol0 > 0 almost every such case ends in err-parse. The switch is
// kept for the day the parser honours the polarity.
var (
	Pol0     = 0
	curPol0  bool
	curMixed bool
)

func polAttr() uint32 {
	if curPol0 {
		return 0
	}
	return 0x800
}

func validState() byte {
	if curPol0 {
		return 0x07
	}
	return 0xF8
}

// GenFileSpec makes a file over the small GUID / name pools.
func GenFileSpec(r *Rng, depth, maxDepth int, aligned bool) *uefigen.File {
	f := &uefigen.File{State: validState()}
	if r.Chance(3, 4) {
		f.GUID = poolGUID(1 + r.Intn(5))
	} else {
		copy(f.GUID[:], r.Bytes(16))
	}
	if aligned && r.Chance(1, 4) {
		f.Attr |= byte(r.Pick(1, 1, 2, 3)) << 3
	}
	if r.Chance(1, 2) {
		f.Attr |= 0x40
	}
	if r.Chance(1, 3) {
		f.Type = byte(r.Pick(1, 6, 6, 0xC0))
		f.Body = smallBody(r)
		return f
	}
	f.Type = byte(r.Pick(7, 7, 9, 5, 4, 7, 9))
	nested := depth < maxDepth && r.Chance(1, 4)
	if nested && f.GUID[0]%3 != 0 {
		// mostly the FV-image file type; otherwise the volume-image section sits in a driver,
		// application or core file (legal; fiano parses it and Find lists its files). Decided by a
		// byte that is drawn anyway, so that the random stream of the other draws is unchanged
		f.Type = 11
	}
	n := r.Range(1, 3)
	f.Secs = []*uefigen.Sec{}
	for i := 0; i < n; i++ {
		s := &uefigen.Sec{}
		switch k := r.Intn(8); {
		case k <= 2:
			s.Type, s.Body = 0x10, peBody(r)
		case k == 3:
			s.Type, s.Body = 0x19, smallBody(r)
		case k == 4 || k == 5:
			s.Type, s.Body = 0x15, ucs2(namePool[r.Intn(len(namePool))])
		case k == 6:
			s.Type = 0x02
			copy(s.GUID[:], r.Bytes(16))
			s.GDAttrs = uint16(r.Pick(0, 2))
			s.Body = smallBody(r)
		default:
			s.Type, s.Body = 0x12, smallBody(r)
		}
		f.Secs = append(f.Secs, s)
	}
	if nested {
		f.Secs = append(f.Secs, &uefigen.Sec{Type: 0x17, Vol: GenVolSpec(r, depth+1, maxDepth, false)})
	}
	if Compressed && Enc != nil && r.Chance(1, 4) {
		f.Secs = append(f.Secs, genCompressed(r))
	}
	return f
}

// Compressed switches the generation of compressed sections on (off for files to insert: the model
// would need their decoding at ParseCLI time).
var Compressed = true

// PadTexts: the GUID texts a pad file can have (erase polarity 0xFF or 0x00, sixteen times).
var PadTexts = []string{"FFFFFFFF-FFFF-FFFF-FFFF-FFFFFFFFFFFF", "00000000-0000-0000-0000-000000000000"}

// MatchesPad: the pattern (or literal) selects pad files wherever there are any. The image spec
// does not know the pad files (the layout and Assemble insert and drop them), so the spec-side
// reference semantics (Expect, touched volumes, match counts) cannot be used for such an operation.
func MatchesPad(o EOp) bool {
	if o.Kind == "ro" || (o.Kind == "ins" && o.It == "dxe") {
		return false
	}
	return matcherOf(o.Target, o.Re)(PadTexts[0])
}

// LargeSectioned switches on files WITH sections written in the FFSv3 large form (attribute bit 0,
// size field 0xFFFFFF, 64-bit size, 32-byte header) although smaller than 16 MiB. Every save
// rewrites such a file in the small form, also in volumes no operation names: the byte-level
// expectations of p_c03 ("bytes outside the named volumes", "remove_pad keeps offsets") do not
// apply to them, so the C03 executor uses them for the model correspondence only.
var LargeSectioned = false

// Patterns switches regular-expression arguments on for remove / remove_pad / replace_pe32.
var Patterns = true

// genCompressed: an LZMA or ZLIB section around 3..5 leaf sections whose sizes are mostly not
// multiples of 4 (so that every inner padding matters), among them PE32 and UI sections.
func genCompressed(r *Rng) *uefigen.Sec {
	n := r.Range(3, 5)
	var kids []*uefigen.Sec
	for i := 0; i < n; i++ {
		k := &uefigen.Sec{}
		switch r.Intn(5) {
		case 0:
			k.Type, k.Body = 0x10, append([]byte("MZ"), r.Bytes(r.Pick(0, 1, 3, 7))...)
		case 1:
			k.Type, k.Body = 0x15, ucs2(namePool[r.Intn(len(namePool))])
		default:
			k.Type, k.Body = byte(r.Pick(0x19, 0x12, 0x19)), r.Bytes(r.Pick(1, 1, 2, 3, 4, 5, 9))
		}
		kids = append(kids, k)
	}
	return NewCompressed(r.Pick(1, 3, 3), kids)
}

func GenVolSpec(r *Rng, depth, maxDepth int, aligned bool) *uefigen.Vol {
	v := &uefigen.Vol{FSGUID: uefigen.FFS2, Attrs: polAttr() | uint32(r.Pick(0, 0x4FEFF, 0x3))&^0x800, Revision: 2}
	if r.Chance(1, 3) {
		v.FSGUID = uefigen.FFS3
	}
	v.BlockSize = uint32(r.Pick(8, 64, 64, 256))
	if depth > 0 {
		v.BlockSize = uint32(r.Pick(8, 16, 64))
	}
	if r.Chance(1, 5) {
		// a block map with two or three entries (nested volumes included: when such a volume grows,
		// only the first entry is resized and the map must still add up to the length)
		for i, n := 0, r.Pick(1, 1, 2); i < n; i++ {
			v.ExtraBlocks = append(v.ExtraBlocks, [2]uint32{uint32(r.Pick(1, 1, 2, 3)), uint32(r.Pick(8, 16, 64))})
		}
	}
	if r.Chance(1, 3) {
		v.ExtHeader = true
		v.ExtName = volNames[r.Intn(len(volNames))]
		v.ExtData = r.Bytes(r.Pick(0, 4))
	}
	n := r.Pick(0, 1, 1, 2, 2, 3, 4)
	for i := 0; i < n; i++ {
		v.Files = append(v.Files, GenFileSpec(r, depth, maxDepth, aligned))
	}
	if v.FSGUID == uefigen.FFS3 {
		// opaque files in the FFSv3 large form (size field 0xFFFFFF + 64-bit size) although small
		for _, f := range v.Files {
			if f.Secs == nil && r.Chance(1, 2) {
				f.LargeForm = true
			} else if LargeSectioned && f.Secs != nil && r.Chance(1, 3) {
				// a file with sections in the large form although small (legal FFSv3): Assemble
				// rebuilds it, SetSize must clear the large attribute with the header
				f.LargeForm = true
			}
		}
	}
	v.FreeSpace = r.Pick(0, 8, 24, 64, 100, 300, 300, 600)
	if depth == 0 && r.Chance(1, 12) { // a file system fiano does not parse
		copy(v.FSGUID[:], r.Bytes(16))
		v.Files = nil
		v.ExtHeader = false
	}
	return v
}

func genPad(r *Rng) []byte {
	b := r.Bytes(8 * r.Range(1, 6))
	for i := range b {
		if b[i] == '_' {
			b[i] = '-'
		}
	}
	if r.Chance(1, 2) {
		for i := range b {
			b[i] = 0xFF
		}
	}
	return b
}

func GenRegionSpec(r *Rng, maxDepth int, aligned bool) *uefigen.Region {
	reg := &uefigen.Region{}
	curPol0 = Pol0 > 0 && r.Chance(Pol0, 40)
	curMixed = false
	n := r.Pick(1, 1, 2, 2, 3)
	mixAt := -1
	if Pol0 > 0 && n > 1 && r.Chance(1, 40) {
		mixAt = 1 + r.Intn(n-1) // this volume and the following ones have the other polarity
	}
	for i := 0; i < n; i++ {
		if r.Chance(1, 3) {
			reg.Elems = append(reg.Elems, uefigen.Elem{Pad: genPad(r)})
		}
		if i == mixAt {
			curPol0 = !curPol0
			curMixed = true
		}
		reg.Elems = append(reg.Elems, uefigen.Elem{Vol: GenVolSpec(r, 0, maxDepth, aligned)})
	}
	if r.Chance(1, 3) {
		reg.Elems = append(reg.Elems, uefigen.Elem{Pad: genPad(r)})
	}
	return reg
}

// EmitFile serialises one file with uefigen's reference serialiser (a volume holding just it).
func EmitFile(f *uefigen.File) []byte {
	v := &uefigen.Vol{FSGUID: uefigen.FFS2, Attrs: 0x800, Revision: 2, BlockSize: 8, Files: []*uefigen.File{f}}
	b, _ := uefigen.EmitVol(v)
	off := 72
	for {
		hl, size, free := fileAt(b, off, 0xFF)
		if free || size < hl || off+size > len(b) {
			return nil
		}
		if b[off+18] == 0xF0 && f.Type != 0xF0 { // the alignment pad in front of it
			off = up(off+size, 8)
			continue
		}
		return append([]byte{}, b[off:off+size]...)
	}
}

func randCase(r *Rng, s string) string {
	switch r.Intn(3) {
	case 0:
		return strings.ToLower(s)
	case 1:
		return strings.ToUpper(s)
	}
	return s
}

// present collects the texts that select something in the spec: file GUIDs, UI names, volume names.
func present(reg *uefigen.Region) (files, vols []string) {
	var walk func(v *uefigen.Vol)
	walk = func(v *uefigen.Vol) {
		if v.ExtHeader {
			vols = append(vols, GuidText(v.ExtName))
		}
		for _, f := range v.Files {
			files = append(files, GuidText(f.GUID))
			owned(f.Secs, func(s *uefigen.Sec) {
				if n, ok := uiName(s); ok {
					files = append(files, n)
				}
			})
			for _, s := range f.Secs {
				if s.Vol != nil {
					walk(s.Vol)
				}
			}
		}
	}
	for _, e := range reg.Elems {
		if e.Vol != nil {
			walk(e.Vol)
		}
	}
	return
}

// decoyTexts: "NoSuchName" and the texts of GUIDs that the image holds in places that are not names
// (file-system GUIDs of the volumes, GUIDs of GUID-defined sections), unless a file or a volume of
// the image happens to carry that very text as its name.
func decoyTexts(reg *uefigen.Region) []string {
	out := []string{"NoSuchName"}
	files, vols := present(reg)
	named := map[string]bool{GuidText([16]byte{}): true} // FVName of a volume without extended header
	for _, t := range append(files, vols...) {
		named[strings.ToUpper(t)] = true
	}
	add := func(g [16]byte) {
		if t := GuidText(g); !named[t] {
			out = append(out, t)
		}
	}
	var walk func(v *uefigen.Vol)
	walk = func(v *uefigen.Vol) {
		add(v.FSGUID)
		for _, f := range v.Files {
			owned(f.Secs, func(s *uefigen.Sec) {
				if s.Type == 0x02 {
					add(s.GUID)
				}
			})
			for _, s := range f.Secs {
				if s.Vol != nil {
					walk(s.Vol)
				}
			}
		}
	}
	for _, e := range reg.Elems {
		if e.Vol != nil {
			walk(e.Vol)
		}
	}
	return out
}

// genTarget picks what an operation names: mostly something the image has (when [unique], a text
// that selects exactly one thing, if there is one), else pool GUIDs and names that may be absent or
// ambiguous; in arbitrary letter case.
func genTarget(r *Rng, reg *uefigen.Region, forInsert, unique bool) string {
	files, vols := present(reg)
	if unique && r.Chance(4, 5) {
		var u []string
		for _, t := range files {
			if len(findSpec(reg, matcherOf(t, false), forInsert, -1)) == 1 {
				u = append(u, t)
			}
		}
		if len(u) > 0 {
			return randCase(r, u[r.Intn(len(u))])
		}
	}
	switch k := r.Intn(12); {
	case k <= 6 && len(files) > 0:
		return randCase(r, files[r.Intn(len(files))])
	case k == 7 && forInsert && len(vols) > 0:
		return randCase(r, vols[r.Intn(len(vols))])
	case k == 8:
		return randCase(r, namePool[r.Intn(len(namePool))])
	case k == 9:
		// texts that name nothing: an absent name, and GUID texts that do occur in the image but
		// are not the name of a file or of a volume (the file-system GUID of the volume headers,
		// the GUID of a GUID-defined section); selecting by them must fail
		return randCase(r, decoyTexts(reg)[r.Intn(len(decoyTexts(reg)))])
	case k == 10 && forInsert:
		return randCase(r, GuidText(volNames[r.Intn(len(volNames))]))
	}
	return randCase(r, GuidText(poolGUID(1+r.Intn(6))))
}

// genPattern builds a regular expression with metacharacters over the texts of the image: an
// alternation of two texts, a prefix with ".*", or a group with an alternation in front of a
// common tail. None of them matches the empty text (every non-UI section has an empty name).
func genPattern(r *Rng, reg *uefigen.Region, withVols bool) (string, []string) {
	files, vols := present(reg)
	if withVols {
		files = append(files, vols...)
	}
	pick := func() string {
		if len(files) > 0 && r.Chance(3, 4) {
			return files[r.Intn(len(files))]
		}
		return namePool[r.Intn(len(namePool))]
	}
	var pat string
	switch r.Intn(4) {
	case 0, 1:
		pat = pick() + "|" + pick()
	case 2:
		t := pick()
		pat = t[:1+r.Intn(len(t))] + ".*"
	default:
		t := pick()
		k := 1 + r.Intn(len(t))
		pat = "(" + t[:k] + "|Zz)" + t[k:]
	}
	pat = randCase(r, pat)
	m := matcherOf(pat, true)
	if m("") {
		return GuidText(poolGUID(1)), nil
	}
	seen := map[string]bool{}
	var set []string
	// pad files (inserted by the layout, by Assemble, by remove_pad) are files too: their GUID is
	// the erase polarity sixteen times
	cands := append(append([]string{}, files...), PadTexts...)
	if withVols {
		// FVName of a volume without an extended header is the zero GUID
		cands = append(cands, GuidText([16]byte{}))
	}
	for _, t := range cands {
		if m(t) && !seen[t] {
			seen[t] = true
			set = append(set, t)
		}
	}
	return pat, set
}

var insKinds = []string{"front", "end", "after", "before", "replace", "front", "end", "after", "before", "replace",
	"gfront", "gend", "gafter", "gbefore", "dxe"}

func GenOp(r *Rng, reg *uefigen.Region, maxDepth int) EOp {
	switch k := r.Intn(10); {
	case k <= 3:
		saved := Compressed
		Compressed = false
		f := GenFileSpec(r, 0, maxDepth, r.Chance(1, 2))
		Compressed = saved
		o := EOp{Kind: "ins", It: insKinds[r.Intn(len(insKinds))], Target: genTarget(r, reg, true, true), Spec: f, Data: EmitFile(f)}
		if o.It == "dxe" {
			o.Target = ""
		} else if r.Chance(1, 8) {
			// a GUID text the image holds in a place that is not a name (the insert family also
			// looks at volumes: the file-system GUID of a volume header is not its name)
			d := decoyTexts(reg)
			o.Target = randCase(r, d[r.Intn(len(d))])
		} else if Patterns && r.Chance(1, 5) {
			// the insert family selects with FindFileFVPredicate: file GUIDs, UI names, volume names
			o.Target, o.Match = genPattern(r, reg, true)
			o.Re = o.Match != nil || strings.ContainsAny(o.Target, "|.(")
		}
		if r.Chance(1, 25) && len(o.Data) > 30 {
			// a file that NewFile rejects at ParseCLI time: cut inside its body
			o.Data = o.Data[:24+r.Intn(len(o.Data)-24)]
			o.Bad = true
		}
		return o
	case k <= 6:
		if Patterns && r.Chance(1, 4) {
			pat, set := genPattern(r, reg, false)
			return EOp{Kind: "rm", Pad: r.Chance(2, 5), Target: pat, Re: set != nil || strings.ContainsAny(pat, "|.("), Match: set}
		}
		return EOp{Kind: "rm", Pad: r.Chance(2, 5), Target: genTarget(r, reg, false, false)}
	default:
		pe := peBody(r)
		if r.Chance(1, 10) {
			pe = r.Bytes(r.Pick(0, 1, 5))
		}
		if Patterns && r.Chance(1, 5) {
			pat, set := genPattern(r, reg, false)
			return EOp{Kind: "pe", Target: pat, Re: set != nil || strings.ContainsAny(pat, "|.("), Match: set, Data: pe}
		}
		return EOp{Kind: "pe", Target: genTarget(r, reg, false, true), Data: pe}
	}
}

var roKinds = []string{"find", "json", "table", "count", "validate", "cat", "dump", "comment", "flatten", "layout-table-full"}

func GenRO(r *Rng, reg *uefigen.Region) EOp {
	k := roKinds[r.Intn(len(roKinds))]
	return EOp{Kind: "ro", RO: k, Target: genTarget(r, reg, false, k == "dump")}
}

// ECase is one generated image with an operation sequence and its expectation.
type ECase struct {
	Img     []byte
	Ops     []EOp
	Expect  string
	Touched string
	Reg     *uefigen.Region // the spec after the edits (generator side only)
	Comp    bool            // the image holds compressed sections: the model needs codec tables
	Flat    bool            // image and operations are in the scope of C02_valid_after_edits_flat
	PadPat  bool            // an operation's pattern selects pad files: no spec-side expectation
	Mixed   bool            // volumes of both erase polarities: fiano must refuse to parse the image
}

// LastMixed: the region GenRegionSpec built last holds volumes of both erase polarities.
func LastMixed() bool { return curMixed }

func GenCase(r *Rng, maxDepth int, nops int) ECase {
	reg := GenRegionSpec(r, maxDepth, true)
	return caseOn(r, reg, maxDepth, nil, nops)
}

// caseOn: the operations [first] (chosen by the caller on the spec as generated), then [nops]
// random ones, on the region spec [reg]; expectation by the reference semantics on the spec.
func caseOn(r *Rng, reg *uefigen.Region, maxDepth int, first []EOp, nops int) ECase {
	mixed := curMixed
	img, _ := uefigen.EmitRegion(reg)
	hasComp := RegionHasCompressed(reg)
	flat := SpecFlat(reg) // of the image as generated: the edits below change the spec
	var ops []EOp
	touched := map[int]bool{}
	errAt := -1
	for i := 0; i < len(first)+nops; i++ {
		// the next operation is chosen on the spec as edited so far
		var o EOp
		if i < len(first) {
			o = first[i]
		} else {
			o = GenOp(r, reg, maxDepth)
		}
		ops = append(ops, o)
		if errAt < 0 && !ApplySpec(reg, o, touched) {
			errAt = i
		}
	}
	c := ECase{Img: img, Ops: ops, Reg: reg, Comp: hasComp, Flat: flat && OpsFlat(ops) && !mixed, Mixed: mixed}
	for _, o := range ops {
		c.PadPat = c.PadPat || MatchesPad(o)
	}
	if AnyBad(ops) {
		c.Expect, c.Touched = "C", "-"
	} else if errAt >= 0 {
		c.Expect, c.Touched = fmt.Sprintf("E%d", errAt), "-"
	} else {
		c.Expect, c.Touched = expectOf(reg, touched)
	}
	return c
}

// Exhaustive enumerates every operation sequence of length <= maxLen over a fixed alphabet on
// tiny images (two volumes, files from a two-GUID pool with a duplicate across volumes).
func Exhaustive(maxLen int, visit func(c ECase)) {
	mk := func(which int) *uefigen.Region {
		a := func() *uefigen.File {
			return &uefigen.File{GUID: poolGUID(1), Type: 7, State: 0xF8, Attr: 0x40,
				Secs: []*uefigen.Sec{{Type: 0x10, Body: []byte("MZab")}, {Type: 0x15, Body: ucs2("Shell")}}}
		}
		b := func() *uefigen.File {
			return &uefigen.File{GUID: poolGUID(2), Type: 6, State: 0xF8, Body: []byte{1, 2, 3, 4, 5}}
		}
		c := func() *uefigen.File {
			return &uefigen.File{GUID: poolGUID(3), Type: 9, State: 0xF8, Attr: 1 << 3,
				Secs: []*uefigen.Sec{{Type: 0x19, Body: []byte{9, 9}}, {Type: 0x15, Body: ucs2("ShellFull")}}}
		}
		v0 := &uefigen.Vol{FSGUID: uefigen.FFS2, Attrs: 0x800, Revision: 2, BlockSize: 64, FreeSpace: 100}
		v1 := &uefigen.Vol{FSGUID: uefigen.FFS2, Attrs: 0x4FEFF, Revision: 2, BlockSize: 64, FreeSpace: 24,
			ExtHeader: true, ExtName: volNames[0]}
		switch which {
		case 0:
			v0.Files = []*uefigen.File{a(), b()}
			v1.Files = []*uefigen.File{c()}
		case 1:
			v0.Files = []*uefigen.File{a()}
			// an FFSv3 volume whose PEIM is written in the large form (size field 0xFFFFFF)
			v1.FSGUID = uefigen.FFS3
			lb := b()
			lb.LargeForm = true
			v1.Files = []*uefigen.File{lb, a()}
		default:
			v0.Files = []*uefigen.File{c(), b(), a()}
			v1.Files = nil
			v1.FreeSpace = 300
		}
		return &uefigen.Region{Elems: []uefigen.Elem{{Vol: v0}, {Pad: []byte{1, 2, 3, 4, 5, 6, 7, 8}}, {Vol: v1}}}
	}
	newFile := func() *uefigen.File {
		return &uefigen.File{GUID: poolGUID(4), Type: 7, State: 0xF8, Attr: 2 << 3,
			Secs: []*uefigen.Sec{{Type: 0x10, Body: []byte("MZnew")}}}
	}
	g1, g2, g3 := GuidText(poolGUID(1)), GuidText(poolGUID(2)), GuidText(poolGUID(3))
	alphabet := func() []EOp {
		ins := func(it, target string) EOp {
			f := newFile()
			return EOp{Kind: "ins", It: it, Target: target, Spec: f, Data: EmitFile(f)}
		}
		return []EOp{
			{Kind: "rm", Target: g1}, {Kind: "rm", Target: g2}, {Kind: "rm", Target: g3},
			{Kind: "rm", Pad: true, Target: g1}, {Kind: "rm", Pad: true, Target: "shell"},
			ins("after", g3), ins("before", g2), ins("front", GuidText(volNames[0])), ins("end", "SHELL"),
			ins("replace", g2), ins("gend", GuidText(poolGUID(4))),
			{Kind: "pe", Target: g1, Data: []byte("MZxyz12")}, {Kind: "pe", Target: g3, Data: []byte("MZ")},
			{Kind: "rm", Target: "Shell|Fat", Re: true}, {Kind: "rm", Pad: true, Target: "Sh.*", Re: true},
			// the file-system GUID of the volume headers is not the name of anything: must fail
			ins("front", GuidText(uefigen.FFS2)),
		}
	}
	n := len(alphabet())
	var rec func(which int, seq []int)
	rec = func(which int, seq []int) {
		if len(seq) > 0 {
			reg := mk(which)
			img, _ := uefigen.EmitRegion(reg)
			flat := SpecFlat(reg)
			al := alphabet()
			var ops []EOp
			touched := map[int]bool{}
			errAt := -1
			for k, i := range seq {
				o := al[i]
				if o.Re { // the texts the pattern matches in full, on the spec as edited so far
					o.Match = FullMatches(reg, o.Target)
				}
				ops = append(ops, o)
				if errAt < 0 && !ApplySpec(reg, o, touched) {
					errAt = k
				}
			}
			c := ECase{Img: img, Ops: ops, Flat: flat && OpsFlat(ops)}
			if errAt >= 0 {
				c.Expect, c.Touched = fmt.Sprintf("E%d", errAt), "-"
			} else {
				c.Expect, c.Touched = expectOf(reg, touched)
			}
			visit(c)
		}
		if len(seq) == maxLen {
			return
		}
		for i := 0; i < n; i++ {
			rec(which, append(append([]int{}, seq...), i))
		}
	}
	for which := 0; which < 3; which++ {
		rec(which, nil)
	}
}

func asciiOnly(s string) bool {
	for i := 0; i < len(s); i++ {
		if s[i] >= 0x80 {
			return false
		}
	}
	return true
}

// GenCaseGrammar draws the image from the general reference grammar of uefigen (all section kinds,
// arbitrary names and checksums); used for the model correspondence only. Selection texts stay
// ASCII (the model's case folding is ASCII).
func GenCaseGrammar(r *Rng, nops int) ECase {
	o := uefigen.Opts{MaxDepth: r.Pick(0, 0, 1), Strings: true, Alignments: r.Chance(2, 3), BigBodies: false}
	curPol0, curMixed = false, false // the general grammar has erase polarity 0xFF only
	reg := uefigen.GenRegion(r, o)
	img, _ := uefigen.EmitRegion(reg)
	flat := SpecFlat(reg)
	var ops []EOp
	touched := map[int]bool{}
	for i := 0; i < nops; i++ {
		op := GenOp(r, reg, 0)
		if !asciiOnly(op.Target) {
			op.Target = GuidText(poolGUID(1 + r.Intn(6)))
			op.Re, op.Match = false, nil
		}
		ops = append(ops, op)
		ApplySpec(reg, op, touched)
	}
	// the general grammar allows opaque files with arbitrary checksums: such an image is not valid
	return ECase{Img: img, Ops: ops, Flat: flat && OpsFlat(ops) && ValidImage(img) == ""}
}

// FindExpect: the files a pattern selects (GUIDs, as "F:<guid>;" entries sorted), by full match on
// the spec.
func FindExpect(reg *uefigen.Region, img []byte, pat string) string {
	var es []string
	m := matcherOf(pat, true)
	for _, x := range findSpec(reg, m, false, -1) {
		if x.isFile {
			es = append(es, "F:"+H(x.file.GUID[:])+";")
		}
	}
	// the pad files of the image (not in the spec), read back by the independent reader
	for _, g := range PadFileGUIDs(img) {
		if m(GuidText(g)) {
			es = append(es, "F:"+H(g[:])+";")
		}
	}
	sortStrings(es)
	return strings.Join(es, "")
}

func sortStrings(a []string) {
	for i := 1; i < len(a); i++ {
		for j := i; j > 0 && a[j] < a[j-1]; j-- {
			a[j], a[j-1] = a[j-1], a[j]
		}
	}
}

// GenPatternFor exposes genPattern to the executors.
func GenPatternFor(r *Rng, reg *uefigen.Region) (string, []string) { return genPattern(r, reg, false) }

// FullMatches: the texts of the spec (file GUID texts, UI names) that the pattern matches in full.
func FullMatches(reg *uefigen.Region, pat string) []string {
	files, _ := present(reg)
	files = append(files, PadTexts...)
	m := matcherOf(pat, true)
	seen := map[string]bool{}
	var set []string
	for _, t := range files {
		if m(t) && !seen[t] {
			seen[t] = true
			set = append(set, t)
		}
	}
	return set
}
