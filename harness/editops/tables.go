package editops

// Codec tables for the model. The compression codecs are an oracle of the model (DESIGN section 3):
// the executor's generator runs the implementation's own Parse / operations / Assemble on the case
// in the generator process and records every (codec, input, output) pair that was decoded or
// encoded, plus the decoding of every payload the saved image holds (for the reader). The model
// runner looks its dec/enc calls up in these tables; a miss is reported, never skipped.

import (
	"os"
	"path/filepath"

	"github.com/linuxboot/fiano/pkg/compression"
	"github.com/linuxboot/fiano/pkg/guid"
	"github.com/linuxboot/fiano/pkg/uefi"
	"github.com/linuxboot/fiano/pkg/visitors"
	. "verifharness/common"
	"verifharness/uefigen"
	"verifharness/uefiops"
)

// TLine is one table entry: dir = "dec" | "enc".
type TLine struct{ Dir, Kind, In, Out string }

func kindOf(g guid.GUID) int {
	for k := 1; k <= 3; k++ {
		if uefigen.CodecGUID(k) == [16]byte(g) {
			return k
		}
	}
	return 0
}

// FianoEnc is the codec oracle for the generators: fiano's real encoders by model codec kind.
func FianoEnc(kind int, plain []byte) ([]byte, error) {
	g := guid.GUID(uefigen.CodecGUID(kind))
	return compression.CompressorFromGUID(&g).Encode(plain)
}

func walkSecs(f uefi.Firmware, fn func(s *uefi.Section)) {
	switch n := f.(type) {
	case *uefi.BIOSRegion:
		for _, e := range n.Elements {
			walkSecs(e.Value, fn)
		}
	case *uefi.FirmwareVolume:
		for _, x := range n.Files {
			walkSecs(x, fn)
		}
	case *uefi.File:
		for _, x := range n.Sections {
			walkSecs(x, fn)
		}
	case *uefi.Section:
		fn(n)
		for _, x := range n.Encapsulated {
			walkSecs(x.Value, fn)
		}
	}
}

func gdOf(s *uefi.Section) *uefi.SectionGUIDDefined {
	if s.Header.Type != uefi.SectionTypeGUIDDefined || s.TypeSpecific == nil {
		return nil
	}
	gd, _ := s.TypeSpecific.Header.(*uefi.SectionGUIDDefined)
	return gd
}

func join4Typed(kids []*uefi.TypedFirmware) []byte {
	var out []byte
	for _, k := range kids {
		for len(out)%4 != 0 {
			out = append(out, 0)
		}
		out = append(out, k.Value.Buf()...)
	}
	return out
}

// CodecTables runs the case on the implementation in this process and returns the table lines.
func CodecTables(img []byte, ops []EOp) (tl []TLine) {
	defer func() { _ = recover() }()
	seen := map[string]bool{}
	add := func(t TLine) {
		k := t.Dir + t.Kind + t.In
		if !seen[k] {
			seen[k] = true
			tl = append(tl, t)
		}
	}
	decAll := func(root uefi.Firmware) {
		walkSecs(root, func(s *uefi.Section) {
			gd := gdOf(s)
			if gd == nil || gd.Attributes&1 == 0 {
				return
			}
			k := kindOf(gd.GUID)
			if k == 0 || int(gd.DataOffset) > len(s.Buf()) {
				return
			}
			payload := s.Buf()[gd.DataOffset:]
			plain, err := compression.CompressorFromGUID(&gd.GUID).Decode(append([]byte{}, payload...))
			o := "err"
			if err == nil {
				o = H(plain)
			}
			add(TLine{"dec", N(uint64(k)), H(payload), o})
		})
	}
	dir, err := os.MkdirTemp("", "verif-tab-")
	if err != nil {
		return nil
	}
	defer os.RemoveAll(dir)
	var cli []string
	for k, o := range ops {
		a, err := o.cli(dir, k)
		if err != nil {
			return nil
		}
		cli = append(cli, a...)
	}
	// the generator's own stdout must stay clean: the visitors print to os.Stdout
	saved := os.Stdout
	if dn, err := os.OpenFile(os.DevNull, os.O_WRONLY, 0); err == nil {
		os.Stdout = dn
		defer func() { os.Stdout = saved; dn.Close() }()
	}
	uefiops.Reset()
	vs, err := visitors.ParseCLI(cli)
	if err != nil {
		return tl
	}
	root, err := uefi.Parse(append([]byte{}, img...))
	if err != nil {
		return tl
	}
	decAll(root)
	for k := range vs {
		if err := visitors.ExecuteCLI(root, vs[k:k+1]); err != nil {
			return tl
		}
	}
	asmErr := (&visitors.Assemble{}).Run(root)
	// every section whose payload is the encoding of its children as they are now (when Assemble
	// stopped with an error - out of space - that holds of the sections it had reached, and of the
	// untouched ones): verified by decoding
	walkSecs(root, func(s *uefi.Section) {
		gd := gdOf(s)
		if gd == nil || gd.Attributes&1 == 0 || len(s.Encapsulated) == 0 {
			return
		}
		k := kindOf(gd.GUID)
		if k == 0 || int(gd.DataOffset) > len(s.Buf()) {
			return
		}
		data := join4Typed(s.Encapsulated)
		payload := s.Buf()[gd.DataOffset:]
		if plain, err := compression.CompressorFromGUID(&gd.GUID).Decode(append([]byte{}, payload...)); err == nil && string(plain) == string(data) {
			add(TLine{"enc", N(uint64(k)), H(data), H(payload)})
			add(TLine{"dec", N(uint64(k)), H(payload), H(plain)})
		}
	})
	if asmErr != nil {
		return tl
	}
	// what the saved image decodes to (the reader of the model opens compressed sections)
	uefiops.Reset()
	if out, err := uefi.Parse(append([]byte{}, root.Buf()...)); err == nil {
		decAll(out)
	}
	_ = filepath.Join
	return tl
}
