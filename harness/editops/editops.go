// Package editops holds what the executors of C02 and C03 share: running edit operations
// through the real command-line path of utk (visitors.ParseCLI, uefi.Parse, visitors.ExecuteCLI,
// save), an independent reader of firmware images written from the property text (validity for
// C02, abstract file lists for C03), the list-level reference semantics of the edits on the
// generator's image specs, and the generators.
package editops

import (
	"bytes"
	"encoding/hex"
	"fmt"
	"os"
	"path/filepath"
	"strings"

	"github.com/linuxboot/fiano/pkg/guid"
	"github.com/linuxboot/fiano/pkg/uefi"
	"github.com/linuxboot/fiano/pkg/visitors"
	. "verifharness/common"
	"verifharness/uefigen"
	"verifharness/uefiops"
)

// ---------- operations ----------

// EOp is one command-line operation. Token() is its case-file form (see ocaml/common/editrun.ml).
type EOp struct {
	Kind   string // ins rm pe ro; implementation-side only (never given to the model): rp cfv
	It     string // ins: front end after before dxe replace gfront gend gafter gbefore
	Pad    bool   // rm: remove_pad
	Target string // GUID text, UI name or volume name
	Data   []byte // ins: serialised file; pe: new PE32 body
	RO     string // ro: visitor name

	// Re: Target is a regular expression (rm, pe, ro only); Match = the texts (file GUID texts, UI
	// names) of the image that it matches IN FULL, computed by the generator with Go's regexp
	// on `(?i)^(?:r)$`, independently of fiano's predicate builders. The model gets Match.
	Re    bool
	Match []string

	// cfv (create-fv <offset> <size> <name>): Off, Size; Target = the GUID text of the volume name.
	// rp (repack <target>): Target. Both are exercised through the property oracles only (p_c02).
	Off, Size uint64

	Spec *uefigen.File // ins: the generator's spec of Data (not part of the token)
	Bad  bool          // ins: Data was cut so that NewFile rejects it (generator side only)
}

func (o EOp) Token() string {
	switch o.Kind {
	case "ins":
		if o.Re {
			return "insx:" + o.It + ":" + H([]byte(o.Target)) + ":" + setField(o.Match) + ":" + H(o.Data)
		}
		return "ins:" + o.It + ":" + H([]byte(o.Target)) + ":" + H(o.Data)
	case "rm":
		p := "0"
		if o.Pad {
			p = "1"
		}
		if o.Re {
			return "rmx:" + p + ":" + H([]byte(o.Target)) + ":" + setField(o.Match)
		}
		return "rm:" + p + ":" + H([]byte(o.Target))
	case "pe":
		if o.Re {
			return "pex:" + H([]byte(o.Target)) + ":" + setField(o.Match) + ":" + H(o.Data)
		}
		return "pe:" + H([]byte(o.Target)) + ":" + H(o.Data)
	case "rp":
		return "rp:" + H([]byte(o.Target))
	case "cfv":
		return "cfv:" + N(o.Off) + ":" + N(o.Size) + ":" + H([]byte(o.Target))
	default:
		return "ro:" + o.RO + ":" + H([]byte(o.Target))
	}
}

func setField(m []string) string {
	if len(m) == 0 {
		return "-"
	}
	var hs []string
	for _, x := range m {
		hs = append(hs, H([]byte(x)))
	}
	return strings.Join(hs, ",")
}

func unSetField(f string) []string {
	if f == "-" || f == "" {
		return nil
	}
	var out []string
	for _, h := range strings.Split(f, ",") {
		out = append(out, string(UnH(h)))
	}
	return out
}

func ParseToken(t string) (EOp, bool) {
	f := strings.Split(t, ":")
	switch {
	case len(f) == 5 && f[0] == "insx":
		return EOp{Kind: "ins", It: f[1], Target: string(UnH(f[2])), Re: true, Match: unSetField(f[3]), Data: UnH(f[4])}, true
	case len(f) == 4 && f[0] == "rmx":
		return EOp{Kind: "rm", Pad: f[1] == "1", Target: string(UnH(f[2])), Re: true, Match: unSetField(f[3])}, true
	case len(f) == 4 && f[0] == "pex":
		return EOp{Kind: "pe", Target: string(UnH(f[1])), Re: true, Match: unSetField(f[2]), Data: UnH(f[3])}, true
	case len(f) == 4 && f[0] == "ins":
		return EOp{Kind: "ins", It: f[1], Target: string(UnH(f[2])), Data: UnH(f[3])}, true
	case len(f) == 3 && f[0] == "rm":
		return EOp{Kind: "rm", Pad: f[1] == "1", Target: string(UnH(f[2]))}, true
	case len(f) == 3 && f[0] == "pe":
		return EOp{Kind: "pe", Target: string(UnH(f[1])), Data: UnH(f[2])}, true
	case len(f) == 2 && f[0] == "rp":
		return EOp{Kind: "rp", Target: string(UnH(f[1]))}, true
	case len(f) == 4 && f[0] == "cfv":
		return EOp{Kind: "cfv", Off: UnN(f[1]), Size: UnN(f[2]), Target: string(UnH(f[3]))}, true
	case len(f) == 3 && f[0] == "ro":
		return EOp{Kind: "ro", RO: f[1], Target: string(UnH(f[2]))}, true
	}
	return EOp{}, false
}

func ParseTokens(ts []string) ([]EOp, bool) {
	var ops []EOp
	for _, t := range ts {
		o, ok := ParseToken(t)
		if !ok {
			return nil, false
		}
		ops = append(ops, o)
	}
	return ops, true
}

func Tokens(ops []EOp) []string {
	var ts []string
	for _, o := range ops {
		ts = append(ts, o.Token())
	}
	return ts
}

// cli returns the utk arguments of the operation; files it needs are written into dir.
func (o EOp) cli(dir string, k int) ([]string, error) {
	switch o.Kind {
	case "ins":
		p := filepath.Join(dir, fmt.Sprintf("ins%d.ffs", k))
		if err := os.WriteFile(p, o.Data, 0o600); err != nil {
			return nil, err
		}
		switch o.It {
		case "front":
			return []string{"insert_front", o.Target, p}, nil
		case "end":
			return []string{"insert_end", o.Target, p}, nil
		case "after":
			return []string{"insert_after", o.Target, p}, nil
		case "before":
			return []string{"insert_before", o.Target, p}, nil
		case "dxe":
			return []string{"insert_dxe", p}, nil
		case "replace":
			return []string{"replace_ffs", o.Target, p}, nil
		case "gfront", "gend", "gafter", "gbefore":
			return []string{"insert", "file", p, o.It[1:], o.Target}, nil
		}
	case "rm":
		if o.Pad {
			return []string{"remove_pad", o.Target}, nil
		}
		return []string{"remove", o.Target}, nil
	case "pe":
		p := filepath.Join(dir, fmt.Sprintf("pe%d.bin", k))
		if err := os.WriteFile(p, o.Data, 0o600); err != nil {
			return nil, err
		}
		return []string{"replace_pe32", o.Target, p}, nil
	case "rp":
		return []string{"repack", o.Target}, nil
	case "cfv":
		return []string{"create-fv", fmt.Sprintf("%#x", o.Off), fmt.Sprintf("%d", o.Size), o.Target}, nil
	case "ro":
		switch o.RO {
		case "find", "cat", "comment":
			return []string{o.RO, o.Target}, nil
		case "dump":
			return []string{"dump", o.Target, filepath.Join(dir, fmt.Sprintf("dump%d.bin", k))}, nil
		case "json", "table", "count", "validate", "flatten", "layout-table-full":
			return []string{o.RO}, nil
		}
	}
	return nil, fmt.Errorf("bad op %v", o)
}

// Result of one run of the command line.
type Result struct {
	Stage    string // "ok", "err-cli", "err-parse", "err-op <k>", "err-save", "harness-error ..."
	Out      []byte // bytes of the saved file when Stage == "ok"
	Leftover bool   // an output file exists although the run failed
}

// RunEdit does what `utk <image> <ops...> save <out>` does (pkg/utk Run): ParseCLI first, then
// uefi.Parse, then the visitors in order through ExecuteCLI, the last one being save.
func RunEdit(img []byte, ops []EOp) Result {
	dir, err := os.MkdirTemp("", "verif-edit-")
	if err != nil {
		return Result{Stage: "harness-error tmpdir"}
	}
	defer os.RemoveAll(dir)
	var cli []string
	for k, o := range ops {
		a, err := o.cli(dir, k)
		if err != nil {
			return Result{Stage: "harness-error " + err.Error()}
		}
		cli = append(cli, a...)
	}
	outPath := filepath.Join(dir, "out.rom")
	cli = append(cli, "save", outPath)
	exists := func() bool { _, e := os.Stat(outPath); return e == nil }

	uefiops.Reset()
	vs, err := visitors.ParseCLI(cli)
	if err != nil {
		return Result{Stage: "err-cli", Leftover: exists()}
	}
	if len(vs) != len(ops)+1 {
		return Result{Stage: "harness-error visitor-count"}
	}
	root, err := uefi.Parse(append([]byte{}, img...))
	if err != nil {
		return Result{Stage: "err-parse", Leftover: exists()}
	}
	for k := 0; k < len(ops); k++ {
		if err := visitors.ExecuteCLI(root, vs[k:k+1]); err != nil {
			return Result{Stage: fmt.Sprintf("err-op %d", k), Leftover: exists()}
		}
	}
	if err := visitors.ExecuteCLI(root, vs[len(ops):]); err != nil {
		return Result{Stage: "err-save", Leftover: exists()}
	}
	out, err := os.ReadFile(outPath)
	if err != nil {
		return Result{Stage: "harness-error no-output-after-save"}
	}
	return Result{Stage: "ok", Out: out}
}

// ---------- executor operations evaluated by the model too ----------

// edit <img> <op>... -> "ok <bytes>" | "err-cli" | "err-parse" | "err-op <k>" | "err-save"
func OpEdit(args []string) string {
	ops, ok := ParseTokens(args[1:])
	if !ok {
		return "harness-error bad-op-token"
	}
	r := RunEdit(UnH(args[0]), ops)
	if r.Stage == "ok" {
		return "ok " + H(r.Out)
	}
	return r.Stage
}

// editvalid <img> <op>... -> "ok <0|1>" (verdict of the independent reader on the saved bytes) or
// the failing stage; the model side applies Model/Valid.v to the model's bytes
func OpEditValid(args []string) string {
	ops, ok := ParseTokens(args[1:])
	if !ok {
		return "harness-error bad-op-token"
	}
	r := RunEdit(UnH(args[0]), ops)
	if r.Stage != "ok" {
		return r.Stage
	}
	if ValidImage(r.Out) == "" {
		return "ok 1"
	}
	return "ok 0"
}

// find <img> <fvp 0|1> <text> -> "ok F:<guid>;V:<name>;..." (Find.Matches in order)
func OpFind(args []string) string {
	uefiops.Reset()
	root, err := uefi.Parse(UnH(args[0]))
	if err != nil {
		return "err-parse"
	}
	var pred visitors.FindPredicate
	if args[1] == "1" {
		pred, err = visitors.FindFileFVPredicate(string(UnH(args[2])))
	} else {
		pred, err = visitors.FindFilePredicate(string(UnH(args[2])))
	}
	if err != nil {
		return "harness-error regexp"
	}
	f := &visitors.Find{Predicate: pred}
	if err := f.Run(root); err != nil {
		return "err-find"
	}
	var sb strings.Builder
	for _, m := range f.Matches {
		switch n := m.(type) {
		case *uefi.File:
			sb.WriteString("F:" + H(n.Header.GUID[:]) + ";")
		case *uefi.FirmwareVolume:
			sb.WriteString("V:" + H(n.FVName[:]) + ";")
		default:
			sb.WriteString("?;")
		}
	}
	return "ok " + sb.String()
}

func findFiles(img []byte, pattern string) (string, bool) {
	uefiops.Reset()
	root, err := uefi.Parse(img)
	if err != nil {
		return "err-parse", false
	}
	pred, err := visitors.FindFilePredicate(pattern)
	if err != nil {
		return "harness-error regexp", false
	}
	f := &visitors.Find{Predicate: pred}
	if err := f.Run(root); err != nil {
		return "err-find", false
	}
	var sb strings.Builder
	for _, m := range f.Matches {
		switch n := m.(type) {
		case *uefi.File:
			sb.WriteString("F:" + H(n.Header.GUID[:]) + ";")
		case *uefi.FirmwareVolume:
			sb.WriteString("V:" + H(n.FVName[:]) + ";")
		default:
			sb.WriteString("?;")
		}
	}
	return sb.String(), true
}

// findx <img> <pattern> <set> -> Find.Matches of FindFilePredicate(pattern), in order; the model
// selects by <set>, the texts the pattern matches in full
func OpFindX(args []string) string {
	s, ok := findFiles(UnH(args[0]), string(UnH(args[1])))
	if !ok {
		return s
	}
	return "ok " + s
}

// p_find_full <img> <pattern> <expected>: the files FindFilePredicate(pattern) selects are exactly
// those whose GUID text or UI name the pattern matches in full (<expected> = their GUIDs in tree
// order, computed on the generator's spec with an independent regexp evaluation)
func PFindFull(args []string) string {
	s, ok := findFiles(UnH(args[0]), string(UnH(args[1])))
	if !ok {
		return "FAIL " + s
	}
	got := strings.Split(strings.TrimSuffix(s, ";"), ";")
	if s == "" {
		got = nil
	}
	for i := range got {
		got[i] += ";"
	}
	sortStrings(got)
	if g := strings.Join(got, ""); g != string(UnH(args[2])) {
		return "FAIL pattern-selects-other-than-full-matches want " + clip(string(UnH(args[2]))) + " got " + clip(g)
	}
	return "ok"
}

// createfv <img> <off> <size> <name: 16 bytes> -> as edit: `utk <img> create-fv <off> <size> <name text> save`;
// the model side is Model/CreateFv.v (create_fv_region) between parse_bios and asm_bios
func OpCreateFv(args []string) string {
	var g [16]byte
	copy(g[:], UnH(args[3]))
	r := RunEdit(UnH(args[0]), []EOp{{Kind: "cfv", Off: UnN(args[1]), Size: UnN(args[2]), Target: GuidText(g)}})
	if r.Stage == "ok" {
		return "ok " + H(r.Out)
	}
	return r.Stage
}

// valid <img> -> "ok 1" | "ok 0": the Go rendering of the independent reader, compared with the
// Coq rendering (Model/Valid.v)
func OpValid(args []string) string {
	if ValidImage(UnH(args[0])) == "" {
		return "ok 1"
	}
	return "ok 0"
}

// guidstr <16 bytes> -> "ok <text>"
func OpGuidStr(args []string) string {
	b := UnH(args[0])
	if len(b) != 16 {
		return "harness-error guid-length"
	}
	var g guid.GUID
	copy(g[:], b)
	return "ok " + H([]byte(g.String()))
}

// guidparse <text> -> "ok <16 bytes>" | "err"
func OpGuidParse(args []string) string {
	g, err := guid.Parse(string(UnH(args[0])))
	if err != nil {
		return "err"
	}
	return "ok " + H(g[:])
}

// ---------- property oracles ----------

// p_c02 <img> <op>...: the saved image is valid for the independent reader and has the input's
// size; a failed run leaves no output file. Hypothesis: the input is valid (else skip).
func PC02(args []string) string {
	img := UnH(args[0])
	ops, ok := ParseTokens(args[1:])
	if !ok {
		return "harness-error bad-op-token"
	}
	// a flash image: the BIOS region is judged by the reader, the descriptor by FlashRegionsOK
	lo, hi, flash := BiosRange(img)
	if ValidImage(img[lo:hi]) != "" || (flash && FlashRegionsOK(img) != "") {
		return "skip"
	}
	r, pan := runEditCatch(img, ops)
	if pan != nil {
		for _, o := range ops {
			// known defect (fixes/C02-createfv-whole-blocks.diff): a create-fv size below the 116
			// bytes of header, block map and name file makes 'Length - DataOffset' wrap (makeslice)
			if o.Kind == "cfv" && o.Size < 116 {
				return "FAIL create-fv-size-not-whole-blocks panic"
			}
		}
		panic(pan)
	}
	if strings.HasPrefix(r.Stage, "harness-error") {
		return r.Stage
	}
	if flash {
		if why := flashVsBare(img, lo, hi, ops, r); why != "" {
			return why
		}
	}
	if r.Stage != "ok" {
		if r.Leftover {
			return "FAIL output-file-written-although-" + strings.ReplaceAll(r.Stage, " ", "-")
		}
		return "ok"
	}
	if len(r.Out) != len(img) {
		return fmt.Sprintf("FAIL size-changed %x -> %x", len(img), len(r.Out))
	}
	if flash {
		// the regions the saved descriptor declares still tile the flash; none of the operations of
		// this executor moves the BIOS region
		if why := FlashRegionsOK(r.Out); why != "" {
			return "FAIL invalid-output descriptor: " + why
		}
		if l2, h2, _ := BiosRange(r.Out); l2 != lo || h2 != hi {
			return fmt.Sprintf("FAIL invalid-output descriptor: bios region moved %x..%x -> %x..%x", lo, hi, l2, h2)
		}
	}
	if why := ValidImage(r.Out[lo:hi]); why != "" {
		for _, o := range ops {
			// known defect (fixes/C02-createfv-whole-blocks.diff): create-fv accepts a size that is not
			// a multiple of its 4 KiB block size and writes Length = size next to a block map of
			// size/4096 blocks
			if o.Kind == "cfv" && o.Size%4096 != 0 && why == fmt.Sprintf("volume@%x: length-vs-block-map", o.Off-uint64(lo)) {
				return "FAIL create-fv-size-not-whole-blocks invalid-output " + why
			}
			// known defect (fixes/C02-repack-empty-volume.diff): repack of a volume without files (it
			// can only be named by its volume name) writes a nested volume that is its 72-byte header
			// alone, with a block count of 0
			if o.Kind == "rp" && strings.HasSuffix(why, "nested length-vs-block-map") && HeaderOnlyNestedVolume(r.Out[lo:hi]) {
				return "FAIL repack-of-a-volume-without-files invalid-output " + why
			}
		}
		return "FAIL invalid-output " + why
	}
	// large files need the FFSv3 file-system GUID on their volume (when the input obeys the rule)
	if FFS3Rule(img[lo:hi]) == "" {
		if why := FFS3Rule(r.Out[lo:hi]); why != "" {
			for _, o := range ops {
				// fixed in /repo 00d5e98 (fixes/C02-repack-keeps-ffsv3.diff), tag kept so that a regression
				// is recognised: repack always gave the new
				// nested volume the FFSv2 GUID; the files of an FFSv3 volume move into it as they are,
				// so files in the large form ended up in a volume that says FFSv2
				if o.Kind == "rp" && strings.Contains(why, "compressed nested file@") {
					return "FAIL repack-of-an-ffsv3-volume-into-an-ffsv2-volume invalid-output " + why
				}
			}
			return "FAIL invalid-output " + why
		}
	}
	return "ok"
}

// flashVsBare: the descriptor around the BIOS region changes nothing of what the operations do to
// it: the run on the flash image ends at the same stage as the run on the bare BIOS region, and when
// both save, the saved region is the same. (In particular an edit that cannot fit fails on both.)
func flashVsBare(img []byte, lo, hi int, ops []EOp, r Result) string {
	bare := append([]EOp{}, ops...)
	for i := range bare {
		if bare[i].Kind == "cfv" {
			if bare[i].Off < uint64(lo) {
				return ""
			}
			bare[i].Off -= uint64(lo)
		}
	}
	rb, pan := runEditCatch(append([]byte{}, img[lo:hi]...), bare)
	if pan != nil || strings.HasPrefix(rb.Stage, "harness-error") {
		return ""
	}
	if rb.Stage != r.Stage {
		return "FAIL flash-image-run-ends-with-" + strings.ReplaceAll(r.Stage, " ", "-") + "-but-its-bios-region-alone-with-" + strings.ReplaceAll(rb.Stage, " ", "-")
	}
	if r.Stage == "ok" && len(r.Out) == len(img) && string(r.Out[lo:hi]) != string(rb.Out) {
		return "FAIL flash-image-saves-another-bios-region-than-the-bare-run"
	}
	return ""
}

// p_c02_nofit <img> <op>...: the inserted file is larger than every top-level volume and its target
// selects exactly one thing, so the operations succeed, assembling runs out of space, save reports
// the error and writes no output file - on a bare BIOS region and inside a flash image alike.
func PC02NoFit(args []string) string {
	img := UnH(args[0])
	ops, ok := ParseTokens(args[1:])
	if !ok {
		return "harness-error bad-op-token"
	}
	lo, hi, flash := BiosRange(img)
	if ValidImage(img[lo:hi]) != "" || (flash && FlashRegionsOK(img) != "") {
		return "skip"
	}
	r := RunEdit(img, ops)
	if strings.HasPrefix(r.Stage, "harness-error") {
		return r.Stage
	}
	if r.Leftover {
		return "FAIL output-file-written-although-the-edit-cannot-fit stage=" + strings.ReplaceAll(r.Stage, " ", "-")
	}
	if r.Stage != "err-save" {
		return "FAIL edit-that-cannot-fit-ends-with-" + strings.ReplaceAll(r.Stage, " ", "-") + "-instead-of-an-out-of-space-error-at-save"
	}
	return "ok"
}

func runEditCatch(img []byte, ops []EOp) (r Result, pan interface{}) {
	defer func() { pan = recover() }()
	return RunEdit(img, ops), nil
}

// p_c03 <img> <expect> <touched> <op>...
//
//	expect  = "E<k>" : the k-th operation must fail (target missing or ambiguous, wrong kind)
//	        | hex of the abstract file lists of the top-level volumes after the edits
//	touched = comma separated indices of the top-level volumes the edits name ("-" for none)
func PC03(args []string) string {
	img := UnH(args[0])
	expect := args[1]
	ops, ok := ParseTokens(args[3:])
	if !ok {
		return "harness-error bad-op-token"
	}
	r := RunEdit(img, ops)
	if strings.HasPrefix(r.Stage, "harness-error") {
		return r.Stage
	}
	if expect == "C" {
		if r.Stage == "err-cli" && !r.Leftover {
			return "ok"
		}
		return "FAIL expected-cli-error got " + r.Stage
	}
	if strings.HasPrefix(expect, "E") {
		if r.Stage == "err-op "+expect[1:] {
			if r.Leftover {
				return "FAIL output-file-written-on-error"
			}
			return "ok"
		}
		return "FAIL expected-error-at-op-" + expect[1:] + " got " + r.Stage
	}
	if r.Stage == "err-save" {
		// the result does not fit (or cannot be assembled): nothing was written, nothing to compare
		if r.Leftover {
			return "FAIL output-file-written-on-error"
		}
		if len(ops) > 0 && allPad(ops) {
			// remove_pad keeps every size: it cannot run out of space
			return "FAIL remove_pad-only-sequence-does-not-save"
		}
		return "ok"
	}
	if r.Stage != "ok" {
		return "FAIL unexpected-" + strings.ReplaceAll(r.Stage, " ", "-")
	}
	if len(r.Out) != len(img) {
		return fmt.Sprintf("FAIL size-changed %x -> %x", len(img), len(r.Out))
	}
	touched := map[int]bool{}
	if args[2] != "-" {
		for _, s := range strings.Split(args[2], ",") {
			touched[int(UnN(s))] = true
		}
	}
	// every byte outside the named volumes is the input's (for a flash image: also the descriptor
	// and every other region; the volumes are those of the BIOS region)
	lo, hi, _ := BiosRange(img)
	inVols := TopVolumes(img[lo:hi])
	covered := make([]bool, len(img))
	for i, v := range inVols {
		if touched[i] {
			for j := lo + v.Off; j < lo+v.Off+v.Len && j < len(img); j++ {
				covered[j] = true
			}
		}
	}
	for j := range img {
		if !covered[j] && img[j] != r.Out[j] {
			return fmt.Sprintf("FAIL byte-outside-target-changed at %x", j)
		}
	}
	// the expected file sequences
	want := string(UnH(expect))
	outVols := TopVolumes(r.Out[lo:hi])
	var got []string
	for _, v := range outVols {
		got = append(got, AbsVolume(r.Out[lo+v.Off:lo+v.Off+v.Len]))
	}
	if g := strings.Join(got, "|"); g != want {
		tag := ""
		if strings.Contains(want, "V[]") {
			tag = " (edit-empties-a-volume)"
		}
		return "FAIL file-sequence" + tag + " want " + clip(want) + " got " + clip(g)
	}
	// remove_pad only: every other file stays at its offset
	if len(ops) > 0 && allPad(ops) {
		// (per GUID and type: a volume may hold duplicates, and when remove_pad turns the first of
		// them into a pad file the second one is the first that is left - every file that is left
		// must stand where a file of its GUID and type stood)
		a, b := FileOffsetSets(img[lo:hi]), FileOffsetSets(r.Out[lo:hi])
		for key, offs := range b {
			olds, ok := a[key]
			if !ok {
				continue
			}
			for _, off := range offs {
				found := false
				for _, o := range olds {
					found = found || o == off
				}
				if !found {
					return fmt.Sprintf("FAIL remove_pad-moved-file %s %x -> %x", key, olds, off)
				}
			}
		}
	}
	return "ok"
}

func allPad(ops []EOp) bool {
	for _, o := range ops {
		if !(o.Kind == "rm" && o.Pad) {
			return false
		}
	}
	return true
}

func clip(s string) string {
	if len(s) > 160 {
		return s[:160] + "..."
	}
	return s
}

// p_c03_ro <img> <op>...: dropping the read-only operations does not change what save writes
func PC03RO(args []string) string {
	img := UnH(args[0])
	ops, ok := ParseTokens(args[1:])
	if !ok {
		return "harness-error bad-op-token"
	}
	var plain []EOp
	for _, o := range ops {
		if o.Kind != "ro" {
			plain = append(plain, o)
		}
	}
	a := RunEdit(img, ops)
	if strings.HasPrefix(a.Stage, "harness-error") {
		return a.Stage
	}
	if a.Stage != "ok" {
		// a read-only operation may itself fail (dump without a unique match): nothing is written
		if a.Leftover {
			return "FAIL output-file-written-on-error"
		}
		return "skip"
	}
	b := RunEdit(img, plain)
	if b.Stage != "ok" {
		return "FAIL edits-alone-fail " + b.Stage
	}
	if !bytes.Equal(a.Out, b.Out) {
		return "FAIL read-only-operation-changed-the-saved-image"
	}
	return "ok"
}

// p_guid <16 bytes>: Parse(String(g)) == g, also for the lower-case spelling
func PGuid(args []string) string {
	b := UnH(args[0])
	if len(b) != 16 {
		return "skip"
	}
	var g guid.GUID
	copy(g[:], b)
	s := g.String()
	for _, t := range []string{s, strings.ToLower(s)} {
		p, err := guid.Parse(t)
		if err != nil || *p != g {
			return "FAIL guid-text-round-trip " + hex.EncodeToString(b) + " " + s
		}
	}
	return "ok"
}

// OpFlat: the generator claims that image and operations satisfy the hypothesis of the proved
// end-to-end theorem (C02_valid_after_edits_flat); the model decides it with the extracted
// boolean flat_check, so a wrong claim is a mismatch.
func OpFlat(args []string) string { return "flat" }

func RegisterAll() {
	uefiops.RegisterAll()
	for k, v := range map[string]Op{
		"flat": OpFlat, "createfv": OpCreateFv,
		"edit": OpEdit, "editvalid": OpEditValid, "find": OpFind, "findx": OpFindX, "p_find_full": PFindFull, "valid": OpValid, "guidstr": OpGuidStr, "guidparse": OpGuidParse,
		"p_c02": PC02, "p_c03": PC03, "p_c02_align": PC02Align, "p_c02_shrink": PC02Shrink, "p_c02_exact": PC02Exact, "p_c02_nofit": PC02NoFit, "p_c02_ffs3": PC02FFS3, "p_c03_big": PC03Big, "p_c03_ro": PC03RO, "p_guid": PGuid,
	} {
		Register(k, v)
	}
}
