package editops

// An independent reader of firmware images, written from the property text and the UEFI PI layout
// (volume header, block map, FFS file header, section header). It does not call fiano.
// The same rules are written in Coq as Model/Valid.v (valid_image); the executor operation
// `valid` compares the two verdicts.

import (
	"bytes"
	"compress/zlib"
	"encoding/binary"
	"fmt"
	"io"
	"strings"

	"github.com/ulikunitz/xz/lzma"
)

// GUIDs of the compressed GUID-defined sections this reader opens (UEFI PI / EDK2: LZMA custom
// decompress, and the ZLIB variant with its 256-byte section header). LZMA+x86 and Brotli payloads
// are not opened.
var lzmaGUID = [16]byte{0x98, 0x58, 0x4e, 0xee, 0x14, 0x39, 0x59, 0x42, 0x9d, 0x6e, 0xdc, 0x7b, 0xd7, 0x94, 0x03, 0xcf}
var zlibGUID = [16]byte{0xf5, 0x33, 0x32, 0xce, 0xd6, 0x2c, 0x87, 0x4d, 0x91, 0x52, 0x4a, 0x23, 0x8b, 0xb6, 0xd1, 0xc4}

// decodePayload: (plain, opened, ok). opened=false: not a payload this reader opens.
func decodePayload(g [16]byte, payload []byte) ([]byte, bool, bool) {
	switch g {
	case lzmaGUID:
		r, err := lzma.NewReader(bytes.NewReader(payload))
		if err != nil {
			return nil, true, false
		}
		p, err := io.ReadAll(r)
		return p, true, err == nil
	case zlibGUID:
		if len(payload) < 256 {
			return nil, true, false
		}
		r, err := zlib.NewReader(bytes.NewReader(payload[256:]))
		if err != nil {
			return nil, true, false
		}
		p, err := io.ReadAll(r)
		return p, true, err == nil
	}
	return nil, false, false
}

// compressedAt: the section at off of fb (header length hl, size) is a GUID-defined section with
// the processing-required bit and a codec this reader opens; returns the decoded sections.
func compressedAt(fb []byte, off, hl, size int) (plain []byte, opened bool, why string) {
	if fb[off+3] != 0x02 {
		return nil, false, ""
	}
	if size < hl+20 {
		return nil, true, "guid-defined-header"
	}
	var g [16]byte
	copy(g[:], fb[off+hl:off+hl+16])
	doff := int(binary.LittleEndian.Uint16(fb[off+hl+16:]))
	attrs := binary.LittleEndian.Uint16(fb[off+hl+18:])
	if attrs&1 == 0 || (g != lzmaGUID && g != zlibGUID) {
		return nil, false, ""
	}
	if doff > size {
		return nil, true, "guid-defined-data-offset"
	}
	p, _, ok := decodePayload(g, fb[off+doff:off+size])
	if !ok {
		return nil, true, "payload-does-not-decode"
	}
	return p, true, ""
}

var ffs2 = [16]byte{0x78, 0xe5, 0x8c, 0x8c, 0x3d, 0x8a, 0x1c, 0x4f, 0x99, 0x35, 0x89, 0x61, 0x85, 0xc3, 0x2d, 0xd3}
var ffs3 = [16]byte{0x7a, 0xc0, 0x73, 0x54, 0xcb, 0x3d, 0xca, 0x4d, 0xbd, 0x6f, 0x1e, 0x96, 0x89, 0xe7, 0x34, 0x9a}

var fileAlignments = []int{1, 16, 128, 512, 1024, 4096, 32768, 65536, 131072, 262144, 524288, 1048576,
	2097152, 4194304, 8388608, 16777216}

// file types whose body is a sequence of sections
func sectioned(t byte) bool {
	switch t {
	case 2, 3, 4, 5, 7, 8, 9, 10, 11, 12, 13, 14, 15:
		return true
	}
	return false
}

func attrAlign(a byte) int { return fileAlignments[int(a&0x38)>>3|int(a&0x02)<<2] }

func up(v, b int) int { return (v + b - 1) / b * b }

func le24(b []byte) int { return int(b[0]) | int(b[1])<<8 | int(b[2])<<16 }

func allEq(b []byte, v byte) bool {
	for _, x := range b {
		if x != v {
			return false
		}
	}
	return true
}

func s8(b []byte) byte {
	var s byte
	for _, x := range b {
		s += x
	}
	return s
}

func s16(b []byte) uint16 {
	var s uint16
	for i := 0; i+1 < len(b); i += 2 {
		s += uint16(b[i]) | uint16(b[i+1])<<8
	}
	return s
}

const maxDepth = 64

// ValidImage returns "" when the BIOS region b satisfies every container rule, else the first
// violated rule.
func ValidImage(b []byte) string {
	off := 0
	for off+44 <= len(b) {
		if string(b[off+40:off+44]) == "_FVH" {
			if why := validFV(b[off:], false, maxDepth); why != "" {
				return fmt.Sprintf("volume@%x: %s", off, why)
			}
			off += int(binary.LittleEndian.Uint64(b[off+32:]))
		} else {
			off += 8
		}
	}
	return ""
}

// volume header fields needed to walk a volume
type volInfo struct {
	length, hdrLen, dataOff int
	pol                     byte
	ffs                     bool
}

func volHeader(v []byte) (volInfo, string) {
	var vi volInfo
	if len(v) < 64 {
		return vi, "shorter-than-a-header"
	}
	if string(v[40:44]) != "_FVH" {
		return vi, "signature"
	}
	l := binary.LittleEndian.Uint64(v[32:])
	if l < 64 || l > uint64(len(v)) {
		return vi, "length-field-vs-bytes-present"
	}
	vi.length = int(l)
	vi.hdrLen = int(binary.LittleEndian.Uint16(v[48:]))
	if vi.hdrLen < 64 || vi.hdrLen > vi.length || vi.hdrLen%2 != 0 {
		return vi, "header-length"
	}
	eho := int(binary.LittleEndian.Uint16(v[52:]))
	d := vi.hdrLen
	if eho != 0 {
		if eho < vi.hdrLen || eho+20 > vi.length {
			return vi, "extended-header-offset"
		}
		d = eho + int(binary.LittleEndian.Uint32(v[eho+16:]))
	}
	vi.dataOff = up(d, 8)
	if binary.LittleEndian.Uint32(v[44:])&0x800 != 0 {
		vi.pol = 0xFF
	}
	var g [16]byte
	copy(g[:], v[16:32])
	vi.ffs = g == ffs2 || g == ffs3
	return vi, ""
}

func validFV(v []byte, exact bool, depth int) string {
	if depth == 0 {
		return "nesting-too-deep"
	}
	vi, why := volHeader(v)
	if why != "" {
		return why
	}
	if exact && len(v) != vi.length {
		return "nested-volume-length-vs-section-body"
	}
	if s16(v[:vi.hdrLen]) != 0 {
		return "header-checksum"
	}
	// block map
	total := 0
	p := 56
	for {
		if p+8 > len(v) {
			return "block-map-unterminated"
		}
		c := int(binary.LittleEndian.Uint32(v[p:]))
		s := int(binary.LittleEndian.Uint32(v[p+4:]))
		p += 8
		if c == 0 && s == 0 {
			break
		}
		if c*s > 1<<40 || total > 1<<40 {
			return "length-vs-block-map"
		}
		total += c * s
	}
	if total != vi.length {
		return "length-vs-block-map"
	}
	if p > vi.hdrLen {
		return "block-map-beyond-header"
	}
	if !vi.ffs {
		return ""
	}
	if vi.dataOff > vi.length {
		return "data-offset"
	}
	return validFiles(v[:vi.length], vi, depth)
}

// fileAt reads the header of the file at off of volume v: header length, announced size; ok=false
// when only free space follows.
func fileAt(v []byte, off int, pol byte) (hl, size int, free bool) {
	if off+24 > len(v) || allEq(v[off:off+24], pol) {
		return 0, 0, true
	}
	hl = 24
	if v[off+19]&1 != 0 {
		hl = 32
	}
	if off+hl > len(v) {
		return hl, -1, false
	}
	if hl == 32 {
		u := binary.LittleEndian.Uint64(v[off+24:])
		if u > 1<<40 {
			return hl, -1, false
		}
		size = int(u)
	} else {
		size = le24(v[off+20:])
	}
	return hl, size, false
}

func validFiles(v []byte, vi volInfo, depth int) string {
	off := vi.dataOff
	for {
		hl, size, free := fileAt(v, off, vi.pol)
		if free {
			if off < len(v) && !allEq(v[off:], vi.pol) {
				return fmt.Sprintf("free-space-not-erased@%x", off)
			}
			return ""
		}
		if size < hl || off+size > len(v) {
			return fmt.Sprintf("file@%x: size-field", off)
		}
		fb := v[off : off+size]
		if why := validFile(fb, depth); why != "" {
			return fmt.Sprintf("file@%x: %s", off, why)
		}
		if (off+hl)%attrAlign(fb[19]) != 0 {
			return fmt.Sprintf("file@%x: data-alignment", off)
		}
		off = up(off+size, 8)
	}
}

func validFile(fb []byte, depth int) string {
	attr := fb[19]
	large := attr&1 != 0
	hl := 24
	if large {
		hl = 32
	}
	if large != (le24(fb[20:]) == 0xFFFFFF) {
		return "large-attribute-vs-size-field"
	}
	if s8(fb[:hl])-fb[17]-fb[23] != 0 {
		return "header-checksum"
	}
	if attr&0x40 != 0 {
		if s8(fb[hl:])+fb[17] != 0 {
			return "body-checksum"
		}
	} else if fb[17] != 0xAA {
		return "body-checksum-constant"
	}
	if sectioned(fb[18]) {
		return validSections(fb, hl, depth)
	}
	return ""
}

// secAt reads the section header at off of file fb.
func secAt(fb []byte, off int) (hl, size int, ok bool) {
	if off+4 > len(fb) {
		return 0, 0, false
	}
	size = le24(fb[off:])
	hl = 4
	if size == 0xFFFFFF {
		if off+8 > len(fb) {
			return 0, 0, false
		}
		size = int(binary.LittleEndian.Uint32(fb[off+4:]))
		hl = 8
	}
	if size < hl || off+size > len(fb) {
		return 0, 0, false
	}
	return hl, size, true
}

func validSections(fb []byte, off int, depth int) string {
	for off < len(fb) {
		hl, size, ok := secAt(fb, off)
		if !ok {
			return fmt.Sprintf("section@%x: size-field", off)
		}
		if fb[off+3] == 0x17 {
			if why := validFV(fb[off+hl:off+size], true, depth-1); why != "" {
				return fmt.Sprintf("section@%x: nested %s", off, why)
			}
		}
		// the sections inside a compressed section count as well
		if plain, opened, why := compressedAt(fb, off, hl, size); opened {
			if why != "" {
				return fmt.Sprintf("section@%x: %s", off, why)
			}
			if depth <= 1 {
				return "nesting-too-deep"
			}
			if why := validSections(plain, 0, depth-1); why != "" {
				return fmt.Sprintf("section@%x: inside the compressed section: %s", off, why)
			}
		}
		off = up(off+size, 4)
	}
	return ""
}

// ---------- abstract view (property C03) ----------

type TopVol struct{ Off, Len int }

// TopVolumes lists the byte ranges of the volumes of a BIOS region.
func TopVolumes(b []byte) []TopVol {
	var vs []TopVol
	off := 0
	for off+44 <= len(b) {
		if string(b[off+40:off+44]) == "_FVH" {
			l := int(binary.LittleEndian.Uint64(b[off+32:]))
			if l < 64 || off+l > len(b) {
				break
			}
			vs = append(vs, TopVol{off, l})
			off += l
		} else {
			off += 8
		}
	}
	return vs
}

// AbsVolume renders a volume as the ordered list of its files (pad files dropped):
//
//	V[F(guid,type,attr){S(type,body)...} F(guid,type,attr)R(body) ...]
//
// a firmware-volume-image section is rendered as its nested volume. Volumes of other file
// systems are V?.
func AbsVolume(v []byte) string {
	vi, why := volHeader(v)
	if why != "" {
		return "V!" + why
	}
	if !vi.ffs {
		return "V?"
	}
	v = v[:vi.length]
	var sb strings.Builder
	sb.WriteString("V[")
	off := vi.dataOff
	for {
		hl, size, free := fileAt(v, off, vi.pol)
		if free {
			break
		}
		if size < hl || off+size > len(v) {
			sb.WriteString("!bad-file")
			break
		}
		fb := v[off : off+size]
		if fb[18] != 0xF0 {
			sb.WriteString(AbsFile(fb[:16], fb[18], fb[19], fb[hl:], hl))
		}
		off = up(off+size, 8)
	}
	sb.WriteString("]")
	return sb.String()
}

// AbsFile renders one file; body is what follows the header, hl the header length (section
// offsets are relative to the file).
func AbsFile(g []byte, typ, attr byte, body []byte, hl int) string {
	var sb strings.Builder
	fmt.Fprintf(&sb, "F(%x,%x,%x)", g, typ, attr&^1)
	if !sectioned(typ) {
		fmt.Fprintf(&sb, "R(%x)", body)
		return sb.String()
	}
	fb := append(make([]byte, hl), body...)
	sb.WriteString("{")
	absSections(&sb, fb, hl)
	sb.WriteString("}")
	return sb.String()
}

func absSections(sb *strings.Builder, fb []byte, off int) {
	for off < len(fb) {
		shl, size, ok := secAt(fb, off)
		if !ok {
			sb.WriteString("!bad-section")
			return
		}
		if plain, opened, why := compressedAt(fb, off, shl, size); opened && why == "" {
			sb.WriteString("Z(")
			absSections(sb, plain, 0)
			sb.WriteString(")")
		} else if fb[off+3] == 0x17 {
			fmt.Fprintf(sb, "S(17,%s)", AbsVolume(fb[off+shl:off+size]))
		} else {
			fmt.Fprintf(sb, "S(%x,%x)", fb[off+3], fb[off+shl:off+size])
		}
		off = up(off+size, 4)
	}
}

// FFS3Rule: a file in the large form (attribute bit 0, 64-bit size, 32-byte header) exists only in
// the FFSv3 file system: a volume that carries the FFSv2 GUID must not hold one. Every volume of
// the image is looked at (top-level, in FV-image sections, inside opened compressed sections).
// "" when the rule holds. This rule is not part of ValidImage / Model/Valid.v's valid_image (the
// two renderings of the reader are compared with each other); the oracles apply it next to them.
func FFS3Rule(b []byte) string {
	why := ""
	var vol func(v []byte, where string)
	var secs func(fb []byte, off int, where string)
	secs = func(fb []byte, off int, where string) {
		for off < len(fb) && why == "" {
			shl, size, ok := secAt(fb, off)
			if !ok {
				return
			}
			if plain, opened, w := compressedAt(fb, off, shl, size); opened && w == "" {
				secs(plain, 0, where+" compressed")
			} else if fb[off+3] == 0x17 {
				vol(fb[off+shl:off+size], where+" nested")
			}
			off = up(off+size, 4)
		}
	}
	vol = func(v []byte, where string) {
		vi, w := volHeader(v)
		if w != "" || !vi.ffs {
			return
		}
		v = v[:vi.length]
		var g [16]byte
		copy(g[:], v[16:32])
		off := vi.dataOff
		for why == "" {
			hl, size, free := fileAt(v, off, vi.pol)
			if free || size < hl || off+size > len(v) {
				return
			}
			fb := v[off : off+size]
			if fb[19]&1 != 0 && g == ffs2 {
				why = fmt.Sprintf("%s file@%x: large-file-in-a-volume-with-the-FFSv2-GUID", where, off)
				return
			}
			if sectioned(fb[18]) {
				secs(fb, hl, fmt.Sprintf("%s file@%x:", where, off))
			}
			off = up(off+size, 8)
		}
	}
	for _, tv := range TopVolumes(b) {
		vol(b[tv.Off:tv.Off+tv.Len], fmt.Sprintf("volume@%x:", tv.Off))
	}
	return why
}

// PadFileGUIDs lists the GUID of every pad file (type 0xF0) of the image, the way a tree walk meets
// them: top-level volumes, volumes in FV-image sections, sections of opened compressed sections.
// Pad files are not part of the generator's image spec (the layout inserts them), but they are
// files: a pattern that matches their GUID text selects them.
func PadFileGUIDs(b []byte) [][16]byte {
	var out [][16]byte
	var vol func(v []byte)
	var secs func(fb []byte, off int)
	secs = func(fb []byte, off int) {
		for off < len(fb) {
			shl, size, ok := secAt(fb, off)
			if !ok {
				return
			}
			if plain, opened, why := compressedAt(fb, off, shl, size); opened && why == "" {
				secs(plain, 0)
			} else if fb[off+3] == 0x17 {
				vol(fb[off+shl : off+size])
			}
			off = up(off+size, 4)
		}
	}
	vol = func(v []byte) {
		vi, why := volHeader(v)
		if why != "" || !vi.ffs {
			return
		}
		v = v[:vi.length]
		off := vi.dataOff
		for {
			hl, size, free := fileAt(v, off, vi.pol)
			if free || size < hl || off+size > len(v) {
				return
			}
			fb := v[off : off+size]
			if fb[18] == 0xF0 {
				var g [16]byte
				copy(g[:], fb[:16])
				out = append(out, g)
			} else if sectioned(fb[18]) {
				secs(fb, hl)
			}
			off = up(off+size, 8)
		}
	}
	for _, tv := range TopVolumes(b) {
		vol(b[tv.Off : tv.Off+tv.Len])
	}
	return out
}

// FileOffsets maps "volumeindex/guid/type#occurrence" of every non-pad file of the top-level
// volumes to its offset in the image.
func FileOffsets(b []byte) map[string]int {
	m := map[string]int{}
	for i, tv := range TopVolumes(b) {
		v := b[tv.Off : tv.Off+tv.Len]
		vi, why := volHeader(v)
		if why != "" || !vi.ffs {
			continue
		}
		seen := map[string]int{}
		off := vi.dataOff
		for {
			hl, size, free := fileAt(v, off, vi.pol)
			if free || size < hl || off+size > len(v) {
				break
			}
			if v[off+18] != 0xF0 {
				k := fmt.Sprintf("%d/%x/%x", i, v[off:off+16], v[off+18])
				seen[k]++
				m[fmt.Sprintf("%s#%d", k, seen[k])] = tv.Off + off
			}
			off = up(off+size, 8)
		}
	}
	return m
}

// HeaderOnlyNestedVolume: the image holds a nested FFS volume (FV-image section, also inside an
// opened compressed section) that consists of its header alone - Length equals HeaderLength - while
// its first block-map entry counts 0 blocks (the shape of the known repack defect, see PC02).
func HeaderOnlyNestedVolume(b []byte) bool {
	found := false
	var vol func(v []byte, nested bool)
	var secs func(fb []byte, off int)
	secs = func(fb []byte, off int) {
		for off < len(fb) {
			shl, size, ok := secAt(fb, off)
			if !ok {
				return
			}
			if plain, opened, why := compressedAt(fb, off, shl, size); opened && why == "" {
				secs(plain, 0)
			} else if fb[off+3] == 0x17 {
				vol(fb[off+shl:off+size], true)
			}
			off = up(off+size, 4)
		}
	}
	vol = func(v []byte, nested bool) {
		vi, why := volHeader(v)
		if why != "" || !vi.ffs {
			return
		}
		if nested && vi.length == vi.hdrLen && binary.LittleEndian.Uint32(v[56:]) == 0 {
			found = true
		}
		v = v[:vi.length]
		off := vi.dataOff
		for {
			hl, size, free := fileAt(v, off, vi.pol)
			if free || size < hl || off+size > len(v) {
				break
			}
			if fb := v[off : off+size]; sectioned(fb[18]) {
				secs(fb, hl)
			}
			off = up(off+size, 8)
		}
	}
	for _, tv := range TopVolumes(b) {
		vol(b[tv.Off:tv.Off+tv.Len], false)
	}
	return found
}

// ---------- flash images (descriptor in front of the regions) ----------

// BiosRange locates the BIOS region of an image: for an Intel flash image (descriptor signature
// 5A A5 F0 0F at offset 16 or 0) the byte range that slot 0 of the region section declares, decoded
// here from the descriptor map (FLMAP0.FRBA) and the region section without fiano; for any other
// image (a bare BIOS region) the whole image.
func BiosRange(b []byte) (lo, hi int, flash bool) {
	sig := []byte{0x5a, 0xa5, 0xf0, 0x0f}
	at := -1
	if len(b) >= 20 && bytes.Equal(b[16:20], sig) {
		at = 16
	} else if len(b) >= 4 && bytes.Equal(b[:4], sig) {
		at = 0
	}
	if at < 0 || len(b) < 4096 {
		return 0, len(b), false
	}
	rs := int(b[at+4+2]) * 16 // FLMAP0 bits 16..23: region section base, in 16-byte units
	if rs+8 > 4096 {
		return 0, len(b), false
	}
	base := int(binary.LittleEndian.Uint16(b[rs+4:]))
	limit := int(binary.LittleEndian.Uint16(b[rs+6:]))
	lo, hi = base*4096, (limit+1)*4096
	if base > limit || hi > len(b) {
		return 0, len(b), false
	}
	return lo, hi, true
}

// FlashRegionsOK: the regions the descriptor of a flash image declares (slots with base <= limit)
// lie inside the image behind the descriptor block and do not overlap ("descriptor regions tiling
// the flash": together with the gaps between them they account for every block once).
func FlashRegionsOK(b []byte) string {
	_, _, flash := BiosRange(b)
	if !flash {
		return "no-descriptor"
	}
	at := 16
	if !bytes.Equal(b[16:20], []byte{0x5a, 0xa5, 0xf0, 0x0f}) {
		at = 0
	}
	rs := int(b[at+4+2]) * 16
	// older descriptors say how many regions they declare (FLMAP0.NR, 0 = all slots count); slots
	// from that index on are not regions even when they look like one
	nr := int(b[at+4+3])
	type span struct{ lo, hi int }
	var sp []span
	for i := 0; i < 15 && rs+8+4*i <= 4096; i++ {
		if nr != 0 && i >= nr {
			break
		}
		base := int(binary.LittleEndian.Uint16(b[rs+4+4*i:]))
		limit := int(binary.LittleEndian.Uint16(b[rs+6+4*i:]))
		if base > limit || (base == 0 && limit == 0) || base == 0xFFFF {
			continue // unused slot
		}
		s := span{base * 4096, (limit + 1) * 4096}
		if s.lo < 4096 || s.hi > len(b) {
			return fmt.Sprintf("region %d outside the flash", i)
		}
		for _, o := range sp {
			if s.lo < o.hi && o.lo < s.hi {
				return fmt.Sprintf("region %d overlaps another region", i)
			}
		}
		sp = append(sp, s)
	}
	return ""
}

// FileOffsetSets maps "volumeindex/guid/type" to the offsets (in the image) of the non-pad files of
// the top-level volumes that carry this GUID and type - several when a volume holds duplicates.
func FileOffsetSets(b []byte) map[string][]int {
	m := map[string][]int{}
	for k, off := range FileOffsets(b) {
		key := k[:strings.LastIndexByte(k, '#')]
		m[key] = append(m[key], off)
	}
	return m
}
