module verifharness

go 1.21

require github.com/linuxboot/fiano v0.0.0

replace github.com/linuxboot/fiano => /repo
