module verifharness

go 1.21

require (
	github.com/klauspost/compress v1.13.6
	github.com/linuxboot/fiano v0.0.0
	github.com/tjfoc/gmsm v1.4.1
	github.com/ulikunitz/xz v0.5.11
)

require (
	github.com/dustin/go-humanize v1.0.0 // indirect
	github.com/hashicorp/errwrap v1.0.0 // indirect
	github.com/hashicorp/go-multierror v1.1.1 // indirect
	github.com/jedib0t/go-pretty/v6 v6.4.6 // indirect
	github.com/jessevdk/go-flags v1.5.0 // indirect
	github.com/mattn/go-runewidth v0.0.13 // indirect
	github.com/pierrec/lz4 v2.6.1+incompatible // indirect
	github.com/rivo/uniseg v0.2.0 // indirect
	github.com/xaionaro-go/bytesextra v0.0.0-20220103144954-846e454ddea9 // indirect
	golang.org/x/sys v0.4.0 // indirect
	golang.org/x/text v0.6.0 // indirect
)

replace github.com/linuxboot/fiano => /repo
