// Package uefiops holds the executor operations shared by the UEFI properties:
// running uefi.Parse / visitors on the real code and printing tree observables in the
// canonical form that the extracted model prints too.
package uefiops

import (
	"bytes"
	"fmt"
	"io"
	"os"
	"path/filepath"
	"strings"

	"github.com/linuxboot/fiano/pkg/uefi"
	"github.com/linuxboot/fiano/pkg/visitors"
	. "verifharness/common"
	"verifharness/uefigen"
)

func Reset() {
	uefi.Attributes = uefi.ROMAttributes{ErasePolarity: 0xF0}
	uefi.ReadOnly = false
	uefi.DisableDecompression = false
}

func fnv(b []byte) uint32 {
	h := uint32(2166136261)
	for _, x := range b {
		h ^= uint32(x)
		h *= 16777619
	}
	return h
}

// Observe prints the tree in preorder. Every node: kind, key header fields, len(buf), fnv(buf).
func Observe(f uefi.Firmware, sb *strings.Builder) {
	switch n := f.(type) {
	case *uefi.BIOSRegion:
		fmt.Fprintf(sb, "R:%x:%x;", n.Length, len(n.Elements))
		for _, e := range n.Elements {
			Observe(e.Value, sb)
		}
	case *uefi.BIOSPadding:
		fmt.Fprintf(sb, "P:%x:%x:%x;", n.Offset, len(n.Buf()), fnv(n.Buf()))
	case *uefi.FirmwareVolume:
		fmt.Fprintf(sb, "V:%x:%x:%x:%x:%x:%x:%x;", n.FVOffset, n.Length, n.DataOffset, len(n.Files), len(n.Blocks), len(n.Buf()), fnv(n.Buf()))
		for _, x := range n.Files {
			Observe(x, sb)
		}
	case *uefi.File:
		fmt.Fprintf(sb, "F:%x:%x:%x:%x:%x:%x:%x:%x;", uint8(n.Header.Type), uint8(n.Header.Attributes), n.Header.ExtendedSize, uint8(n.Header.State), n.DataOffset, len(n.Sections), len(n.Buf()), fnv(n.Buf()))
		for _, x := range n.Sections {
			Observe(x, sb)
		}
	case *uefi.Section:
		fmt.Fprintf(sb, "S:%x:%x:%x:%x:%x;", uint8(n.Header.Type), n.Header.ExtendedSize, len(n.Encapsulated), len(n.Buf()), fnv(n.Buf()))
		for _, x := range n.Encapsulated {
			Observe(x.Value, sb)
		}
	default:
		fmt.Fprintf(sb, "?:%T;", f)
	}
}

func parseRegion(img []byte) (uefi.Firmware, error) {
	Reset()
	// a bare BIOS region: what uefi.Parse does for images without a flash descriptor
	return uefi.Parse(img)
}

// parse <img> -> "ok <tree>" | "err"
func OpParse(args []string) string {
	root, err := parseRegion(UnH(args[0]))
	if err != nil {
		return "err"
	}
	var sb strings.Builder
	Observe(root, &sb)
	return "ok " + sb.String()
}

// save <img> -> "ok <bytes>" | "err" (parse error) | "err-asm"
func OpSave(args []string) string {
	root, err := parseRegion(UnH(args[0]))
	if err != nil {
		return "err"
	}
	a := &visitors.Assemble{}
	if err := a.Run(root); err != nil {
		return "err-asm"
	}
	return "ok " + H(root.Buf())
}

// saveclass <img> -> "ok" | "err" | "err-asm": outcome class only (hostile inputs)
func OpSaveClass(args []string) string {
	r := OpSave(args)
	if strings.HasPrefix(r, "ok") {
		return "ok"
	}
	return r
}

// ---- property oracles on the implementation ----

// C01: Save(Parse(x)) == x
func PSaveIdentity(args []string) string {
	img := UnH(args[0])
	root, err := parseRegion(img)
	if err != nil {
		return "FAIL parse-error " + err.Error()
	}
	a := &visitors.Assemble{}
	if err := a.Run(root); err != nil {
		return "FAIL assemble-error " + err.Error()
	}
	out := root.Buf()
	if !bytes.Equal(out, img) {
		i := 0
		for i < len(out) && i < len(img) && out[i] == img[i] {
			i++
		}
		return fmt.Sprintf("FAIL differs-at %x len %x vs %x", i, len(out), len(img))
	}
	return "ok"
}

// C04: the tree partitions the input
func checkInside(parent []byte, off uint64, child []byte, what string) string {
	if off+uint64(len(child)) > uint64(len(parent)) {
		return "FAIL " + what + "-outside-parent"
	}
	if !bytes.Equal(parent[off:off+uint64(len(child))], child) {
		return "FAIL " + what + "-bytes-differ"
	}
	return ""
}

func checkFV(fv *uefi.FirmwareVolume) string {
	vb := fv.Buf()
	if uint64(len(vb)) != fv.Length {
		return "FAIL fv-buf-length"
	}
	if len(vb) >= 56 {
		if le64(vb[32:]) != fv.Length || le16(vb[48:]) != uint64(fv.HeaderLen) || le32(vb[44:]) != uint64(fv.Attributes) {
			return "FAIL fv-fields"
		}
	}
	// files: consecutive at 8-aligned offsets from DataOffset
	off := fv.DataOffset
	for _, f := range fv.Files {
		off = (off + 7) &^ 7
		if r := checkInside(vb, off, f.Buf(), "file"); r != "" {
			return r
		}
		if r := checkFile(f); r != "" {
			return r
		}
		off += uint64(len(f.Buf()))
	}
	return ""
}

func le16(b []byte) uint64 { return uint64(b[0]) | uint64(b[1])<<8 }
func le32(b []byte) uint64 { return le16(b) | le16(b[2:])<<16 }
func le64(b []byte) uint64 { return le32(b) | le32(b[4:])<<32 }

func checkFile(f *uefi.File) string {
	fb := f.Buf()
	if uint64(len(fb)) != f.Header.ExtendedSize {
		return "FAIL file-buf-length"
	}
	if len(fb) >= 24 {
		if fb[18] != byte(f.Header.Type) || fb[19] != byte(f.Header.Attributes) || fb[23] != byte(f.Header.State) ||
			!bytes.Equal(fb[:16], f.Header.GUID[:]) || fb[16] != f.Header.Checksum.Header || fb[17] != f.Header.Checksum.File {
			return "FAIL file-fields"
		}
	}
	off := f.DataOffset
	for _, s := range f.Sections {
		off = (off + 3) &^ 3
		if r := checkInside(fb, off, s.Buf(), "section"); r != "" {
			return r
		}
		if r := checkSection(s); r != "" {
			return r
		}
		off += uint64(len(s.Buf()))
	}
	return ""
}

func checkSection(s *uefi.Section) string {
	sb := s.Buf()
	if uint64(len(sb)) != uint64(s.Header.ExtendedSize) {
		return "FAIL section-buf-length"
	}
	if len(sb) >= 4 && sb[3] != byte(s.Header.Type) {
		return "FAIL section-fields"
	}
	if s.Header.Type == uefi.SectionTypeGUIDDefined && s.TypeSpecific != nil {
		gd := s.TypeSpecific.Header.(*uefi.SectionGUIDDefined)
		hl := 4
		if s.Header.Size == [3]uint8{0xFF, 0xFF, 0xFF} {
			hl = 8
		}
		if len(sb) < hl+20 || !bytes.Equal(sb[hl:hl+16], gd.GUID[:]) || le16(sb[hl+16:]) != uint64(gd.DataOffset) || le16(sb[hl+18:]) != uint64(gd.Attributes) {
			return "FAIL section-gd-fields-not-from-node-bytes"
		}
	}
	if s.Header.Type == uefi.SectionTypeFirmwareVolumeImage {
		for _, e := range s.Encapsulated {
			if fv, ok := e.Value.(*uefi.FirmwareVolume); ok {
				hl := uint64(len(sb)) - 0
				_ = hl
				// the nested volume is the section body from the header on
				h := uint64(4)
				if s.Header.Size == [3]uint8{0xFF, 0xFF, 0xFF} {
					h = 8
				}
				if r := checkInside(sb, h, fv.Buf(), "nested-fv"); r != "" {
					return r
				}
				if r := checkFV(fv); r != "" {
					return r
				}
			}
		}
	}
	return ""
}

func PPartition(args []string) string {
	img := UnH(args[0])
	orig := append([]byte{}, img...)
	root, err := parseRegion(img)
	if err != nil {
		return "skip"
	}
	if !bytes.Equal(img, orig) {
		return "FAIL caller-buffer-modified"
	}
	br, ok := root.(*uefi.BIOSRegion)
	if !ok {
		return "skip"
	}
	// elements concatenate to the region
	var cat []byte
	off := uint64(0)
	for _, e := range br.Elements {
		switch n := e.Value.(type) {
		case *uefi.BIOSPadding:
			if n.Offset != off {
				return "FAIL padding-offset"
			}
		case *uefi.FirmwareVolume:
			if n.FVOffset != off {
				return "FAIL fv-offset"
			}
			if r := checkFV(n); r != "" {
				return r
			}
		}
		cat = append(cat, e.Value.Buf()...)
		off += uint64(len(e.Value.Buf()))
	}
	if !bytes.Equal(cat, img) {
		return "FAIL elements-do-not-tile-region"
	}
	// read-only mode gives the same tree
	var a, b strings.Builder
	Observe(root, &a)
	Reset()
	uefi.ReadOnly = true
	root2, err2 := uefi.Parse(img)
	uefi.ReadOnly = false
	if err2 != nil {
		return "FAIL readonly-parse-error"
	}
	Observe(root2, &b)
	if a.String() != b.String() {
		return "FAIL readonly-tree-differs"
	}
	if !bytes.Equal(img, orig) {
		return "FAIL caller-buffer-modified-readonly"
	}
	return "ok"
}

// C05: total — any outcome but a panic/hang/crash is fine (those are caught by the worker).
// Every parser entry point of pkg/uefi is tried on the bytes, and every tree walk on a tree
// that parsing accepted.
func PTotal(args []string) string {
	img := UnH(args[0])
	Reset()
	_, _ = uefi.NewSection(img, 0)
	Reset()
	_, _ = uefi.NewFile(img)
	Reset()
	_, _ = uefi.NewFirmwareVolume(img, 0, true)
	Reset()
	_, _ = uefi.NewNVarStore(img)
	Reset()
	_, _ = uefi.NewMEFPT(img)
	Reset()
	_, _ = uefi.NewMERegion(img, &uefi.FlashRegion{}, uefi.RegionTypeME)
	Reset()
	if len(img) <= 1<<20 {
		_, _ = uefi.NewFlashImage(img)
	}
	root, err := parseRegion(img)
	if err != nil {
		return "ok"
	}
	_ = (&visitors.Validate{}).Run(root)
	_ = (&visitors.JSON{W: io.Discard}).Run(root)
	_ = (&visitors.Table{}).Run(root)
	if len(args) > 1 && args[1] == "x" {
		dir, err := os.MkdirTemp("", "verif-c05-")
		if err != nil {
			return "harness-error tmpdir"
		}
		defer os.RemoveAll(dir)
		var idx uint64
		_ = (&visitors.Extract{BasePath: filepath.Join(dir, "x"), DirPath: ".", Index: &idx}).Run(root)
	}
	_ = (&visitors.Assemble{}).Run(root)
	return "ok"
}

// PBigIdentity builds, inside the worker, a volume holding a file of 16 MiB or more (extended
// header, FFSv3) with the given alignment attribute, a small neighbour before and optionally after
// it, and free space; then checks Save(Parse(x)) == x. args: seed, attr (hex), extra body bytes
// beyond 16 MiB, trailing file (0/1), optionally the sectioned mode (1/2) and a bit set saying where
// files carrying a nested FFSv2 volume are placed around the big file.
func PBigIdentity(args []string) string {
	r := NewRng(UnN(args[0]))
	attr := byte(UnN(args[1]))
	extra := int(UnN(args[2]))
	trailing := UnN(args[3]) != 0
	v := &uefigen.Vol{FSGUID: uefigen.FFS3, Attrs: 0x800 | 0x4FEFF, Revision: 2, BlockSize: 4096}
	small := &uefigen.File{GUID: uefigen.GenGUID(r), Type: 0xC5, State: 0xF8, Body: r.Bytes(40)}
	big := &uefigen.File{GUID: uefigen.GenGUID(r), Type: 6, Attr: attr, State: 0xF8, Body: make([]byte, 0x1000000+extra)}
	for i := 0; i < len(big.Body); i += 4093 {
		big.Body[i] = byte(r.U64())
	}
	if len(args) > 4 && UnN(args[4]) != 0 {
		// the big file is one that fiano rebuilds from its sections: two RAW sections of 8 MiB each
		// (mode 1) or one RAW section of 16 MiB with an extended section header (mode 2)
		mode := UnN(args[4])
		body := big.Body
		big.Body, big.Type, big.BigSecs = nil, 7, true
		if mode == 1 {
			h := len(body)/2 + 1 // odd size: padding between the sections
			big.Secs = []*uefigen.Sec{{Type: 0x19, Body: body[:h]}, {Type: 0x19, Body: body[h:]}}
		} else {
			big.Secs = []*uefigen.Sec{{Type: 0x19, Body: body}, {Type: 0x15, Body: []byte{'B', 0, 0, 0}}}
		}
	}
	v.Files = []*uefigen.File{small, big}
	if len(args) > 5 && UnN(args[5]) != 0 {
		// nested FFSv2 volumes (FV-image section of a volume-image file) before (bit 1) and/or after
		// (bit 0) the big file: the 'file of 16 MiB and more was rebuilt' state of the assembler must
		// stay with the volume that holds the big file
		nest := UnN(args[5])
		mk := func() *uefigen.File {
			in := &uefigen.Vol{FSGUID: uefigen.FFS2, Attrs: 0x800 | 0x4FEFF, Revision: 2, BlockSize: 64, FreeSpace: 24}
			in.Files = []*uefigen.File{{GUID: uefigen.GenGUID(r), Type: 0xC7, State: 0xF8, Body: r.Bytes(21)}}
			return &uefigen.File{GUID: uefigen.GenGUID(r), Type: 0x0B, State: 0xF8, Secs: []*uefigen.Sec{{Type: 0x17, Vol: in}}}
		}
		if nest&2 != 0 {
			v.Files = []*uefigen.File{small, mk(), big}
		}
		if nest&1 != 0 {
			v.Files = append(v.Files, mk())
		}
	}
	if trailing {
		v.Files = append(v.Files, &uefigen.File{GUID: uefigen.GenGUID(r), Type: 0xC6, State: 0xF8, Body: r.Bytes(17)})
	}
	v.FreeSpace = 4096
	img, _ := uefigen.EmitVol(v)
	return PSaveIdentity([]string{H(img)})
}

func RegisterAll() {
	common := map[string]Op{
		"parse": OpParse, "save": OpSave, "saveclass": OpSaveClass,
		"p_save_identity": PSaveIdentity, "p_partition": PPartition, "p_total": PTotal,
		"p_big_identity": PBigIdentity,
	}
	for k, v := range common {
		Register(k, v)
	}
}
