package uefigen

import (
	"archive/tar"
	"io"
	"os"
	"sort"

	"github.com/ulikunitz/xz"
)

// HistoricalCorpus returns the inputs of pkg/uefi/testdata/fuzz_in.txz (sorted by name),
// keeping only those of at most maxLen bytes.
func HistoricalCorpus(repo string, maxLen int) [][]byte {
	f, err := os.Open(repo + "/pkg/uefi/testdata/fuzz_in.txz")
	if err != nil {
		return nil
	}
	defer f.Close()
	xr, err := xz.NewReader(f)
	if err != nil {
		return nil
	}
	tr := tar.NewReader(xr)
	type ent struct {
		name string
		data []byte
	}
	var all []ent
	for {
		h, err := tr.Next()
		if err != nil {
			break
		}
		if h.Typeflag != tar.TypeReg || int(h.Size) > maxLen {
			continue
		}
		b, err := io.ReadAll(tr)
		if err != nil {
			break
		}
		all = append(all, ent{h.Name, b})
	}
	sort.Slice(all, func(i, j int) bool { return all[i].name < all[j].name })
	out := make([][]byte, len(all))
	for i, e := range all {
		out[i] = e.data
	}
	return out
}
