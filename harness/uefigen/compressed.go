// compressed.go — extension of the reference image grammar for property C06: GUID-defined
// sections whose payload is the compressed serialisation of encapsulated sections (leaf
// sections, further compressed sections, FV-image sections holding nested volumes).
// The codecs are passed in by the caller (the executor uses fiano's real encoders), so this
// package stays independent of the code under test.
package uefigen

import (
	. "verifharness/common"
)

// GUIDs of the compressed GUID-defined sections fiano understands, by model codec kind.
var (
	LZMAGUID    = [16]byte{0x98, 0x58, 0x4e, 0xee, 0x14, 0x39, 0x59, 0x42, 0x9d, 0x6e, 0xdc, 0x7b, 0xd7, 0x94, 0x03, 0xcf}
	LZMAX86GUID = [16]byte{0xbd, 0xe6, 0x2a, 0xd4, 0x52, 0x13, 0xfb, 0x4b, 0x90, 0x9a, 0xca, 0x72, 0xa6, 0xea, 0xe8, 0x89}
	ZLIBGUID    = [16]byte{0xf5, 0x33, 0x32, 0xce, 0xd6, 0x2c, 0x87, 0x4d, 0x91, 0x52, 0x4a, 0x23, 0x8b, 0xb6, 0xd1, 0xc4}
)

// CodecGUID maps the model's codec kind (1 LZMA, 2 LZMAX86, 3 ZLIB) to the section GUID.
func CodecGUID(kind int) [16]byte {
	switch kind {
	case 1:
		return LZMAGUID
	case 2:
		return LZMAX86GUID
	default:
		return ZLIBGUID
	}
}

// Enc compresses plain with the codec of the given kind.
type Enc func(kind int, plain []byte) ([]byte, error)

// JoinSecs is the encapsulated form of a section list: each section at a 4-byte boundary,
// zero padding in between, none after the last.
func JoinSecs(secs []*Sec) []byte {
	e := &emitter{}
	var out []byte
	for _, s := range secs {
		for len(out)%4 != 0 {
			out = append(out, 0)
		}
		out = append(out, e.sec(s, 0)...)
	}
	return out
}

// CompressedSec builds the GUID-defined section whose payload is enc(kind, JoinSecs(kids)), with the
// given attribute word (bit 0 = "processing required": set -> fiano decodes the payload, whatever
// the other bits are; clear -> the section is an opaque leaf although it carries a codec GUID).
// extra > 0 puts that many bytes between the 24-byte header and the payload (DataOffset = 24+extra).
func CompressedSec(kind int, kids []*Sec, enc Enc, extra []byte, attrs uint16) (*Sec, error) {
	plain := JoinSecs(kids)
	c, err := enc(kind, plain)
	if err != nil {
		return nil, err
	}
	return &Sec{Type: 0x02, GUID: CodecGUID(kind), GDAttrs: attrs, GDExtra: extra, Body: c}, nil
}

// DecodedAttrs are attribute words with the processing-required bit set (AUTH_STATUS_VALID and
// reserved bits in all combinations that matter); OpaqueAttrs have it clear.
var (
	DecodedAttrs = []int{0x0001, 0x0001, 0x0003, 0x0003, 0x0101, 0x8001, 0x0005, 0xFFFF}
	OpaqueAttrs  = []int{0x0000, 0x0002, 0x0100, 0xFFFE}
)

// COpts steers the C06 generator.
type COpts struct {
	Depth     int   // levels of volumes nested inside compressed sections (0..3)
	Kinds     []int // codec kinds to draw from
	Enc       Enc
	DataOff   bool // allow DataOffset > 24 on compressed sections
	PlainNest bool // also nest volumes in uncompressed FV-image sections
	Opaque    bool // sometimes clear the processing-required bit of a compressed section (opaque leaf)
	// The following were added by the C06 coverage audit; all default to the old behaviour (no extra
	// draws from the generator's stream when they are off).
	Corrupt  bool // sometimes a compressed section whose payload does not decode (truncated stream): stays an opaque leaf
	Siblings bool // two compressed sections in one file, a compressed section with no content, a nested volume inside two
	// levels of compression, two files with nested volumes in one volume
	LargeForm bool // sectioned files in the FFSv3 large form (32-byte header below 16 MiB) inside FFS3 volumes
	HdrBytes  bool // volume headers with a non-zero 16-byte vector, a reserved byte, erased bytes before the
	// extended header; file states other than 0xF8
}

// Target names a file inside a nested volume (for the edit oracle).
type Target struct {
	GUID  [16]byte
	Level int // 1 = volume nested once, ...
}

type cgen struct {
	r       *Rng
	o       COpts
	err     error
	targets []Target
	all     []Target // every file built from sections, level 0 included
	nseq    uint32
}

func (g *cgen) guid() [16]byte {
	var x [16]byte
	copy(x[:], g.r.Bytes(16))
	// unique by construction: a sequence number in the middle
	g.nseq++
	x[6], x[7], x[8] = byte(g.nseq), byte(g.nseq>>8), 0xC6
	return x
}

func (g *cgen) bodyBytes() []byte {
	r := g.r
	n := r.Pick(0, 1, 3, 4, 5, 16, 33, 64, 100)
	b := r.Bytes(n)
	switch r.Intn(4) {
	case 0: // compressible
		for i := range b {
			b[i] = byte(i % 7)
		}
	case 1: // looks like x86 code with relative calls, so that the BCJ filter has work to do
		for i := 0; i+5 <= len(b); i += 5 {
			b[i] = byte(r.Pick(0xE8, 0xE9))
			b[i+4] = byte(r.Pick(0x00, 0xFF))
		}
	}
	return b
}

func (g *cgen) leaf() *Sec {
	r := g.r
	s := &Sec{}
	switch r.Intn(10) {
	case 0:
		s.Type = 0x15
		s.Body = ucs2(genName(r))
	case 1:
		s.Type = 0x14
		s.Body = append([]byte{byte(r.Intn(256)), byte(r.Intn(256))}, ucs2(genName(r))...)
	case 2:
		s.Type = byte(r.Pick(0x13, 0x1b, 0x1c))
		s.Body = genDepex(r)
	case 3: // GUID-defined, not decoded: opaque leaf
		s.Type = 0x02
		s.GUID = GenGUID(r)
		s.GDAttrs = uint16(r.Pick(0, 1, 2, 3))
		if r.Chance(1, 3) {
			s.GDExtra = r.Bytes(r.Pick(4, 8))
		}
		s.Body = g.bodyBytes()
	case 4:
		s.Type = byte(r.Pick(0x18, 0x01, 0x03, 0x16))
		s.Body = append(r.Bytes(16), g.bodyBytes()...)
	case 5:
		s.Type = byte(r.Pick(0x1a, 0x40, 0xff))
		s.Body = g.bodyBytes()
	default:
		s.Type = byte(r.Pick(0x10, 0x11, 0x12, 0x19, 0x19))
		s.Body = g.bodyBytes()
	}
	return s
}

func (g *cgen) leaves(lo, hi int) []*Sec {
	n := g.r.Range(lo, hi)
	var out []*Sec
	for i := 0; i < n; i++ {
		out = append(out, g.leaf())
	}
	return out
}

func (g *cgen) compressed(kids []*Sec) *Sec {
	kind := g.o.Kinds[g.r.Intn(len(g.o.Kinds))]
	var extra []byte
	if g.o.DataOff && g.r.Chance(1, 8) {
		extra = g.r.Bytes(g.r.Pick(4, 8))
	}
	attrs := uint16(DecodedAttrs[g.r.Intn(len(DecodedAttrs))])
	if g.o.Opaque && g.r.Chance(1, 10) {
		// a codec GUID without the processing-required bit: not decoded, kept byte for byte
		attrs = uint16(OpaqueAttrs[g.r.Intn(len(OpaqueAttrs))])
	}
	s, err := CompressedSec(kind, kids, g.o.Enc, extra, attrs)
	if err != nil {
		g.err = err
		return &Sec{Type: 0x19}
	}
	if g.o.Corrupt && !hasVol(kids) && g.r.Chance(1, 10) {
		// the end of the stream is missing: the decoder reports an error (after delivering part of the
		// data), fiano logs it and keeps the section as an opaque leaf
		if cut := g.r.Pick(1, 2, 5, 9); cut < len(s.Body) {
			s.Body = s.Body[:len(s.Body)-cut]
		}
	}
	return s
}

func hasVol(kids []*Sec) bool {
	for _, k := range kids {
		if k.Vol != nil {
			return true
		}
	}
	return false
}

// secs returns the section list of a file at nesting level `level`; when `nest` is set one of the
// sections carries a nested volume (through a compressed section, or plainly).
func (g *cgen) secs(level int, nest bool) []*Sec {
	r := g.r
	var out []*Sec
	if r.Chance(1, 3) {
		out = append(out, g.leaf())
	}
	if nest {
		inner := &Sec{Type: 0x17, Vol: g.vol(level + 1)}
		if g.o.PlainNest && r.Chance(1, 5) {
			out = append(out, inner)
		} else {
			kids := []*Sec{}
			if r.Chance(1, 4) {
				kids = append(kids, g.leaf())
			}
			kids = append(kids, inner)
			if r.Chance(1, 4) {
				kids = append(kids, g.leaf())
			}
			if g.o.Siblings && r.Chance(1, 5) {
				// the volume sits below two levels of compression
				kids = append(g.leaves(0, 1), g.compressed(kids))
			}
			out = append(out, g.compressed(kids))
		}
	} else {
		k := r.Intn(5)
		if g.o.Siblings && r.Chance(1, 6) {
			k = 5 + r.Intn(2)
		}
		switch k {
		case 5: // two compressed sections side by side (both are re-encoded by one Assemble run)
			out = append(out, g.compressed(g.leaves(1, 2)))
			if r.Chance(1, 2) {
				out = append(out, g.leaf())
			}
			out = append(out, g.compressed(g.leaves(1, 3)))
		case 6: // a compressed section without content: decodes to nothing, stays a leaf
			out = append(out, g.compressed(nil), g.leaf())
		case 0: // compressed inside compressed
			innerC := g.compressed(g.leaves(1, 2))
			kids := append(g.leaves(0, 1), innerC)
			kids = append(kids, g.leaves(0, 1)...)
			out = append(out, g.compressed(kids))
		case 1: // no compression in this file
			out = append(out, g.leaves(1, 2)...)
		default:
			out = append(out, g.compressed(g.leaves(1, 3)))
		}
	}
	if r.Chance(1, 3) {
		out = append(out, g.leaf())
	}
	return out
}

func (g *cgen) file(level int, nest bool) *File {
	r := g.r
	f := &File{GUID: g.guid(), State: 0xF8}
	if r.Chance(1, 4) {
		f.Attr |= byte(r.Pick(1, 2)) << 3 // 16- or 128-byte data alignment
	}
	if r.Chance(1, 2) {
		f.Attr |= 0x40
	}
	if !nest && r.Chance(1, 5) {
		f.Type = byte(r.Pick(1, 6, 0xC0))
		f.Body = g.bodyBytes()
		return f
	}
	f.Type = byte(sectionedTypes[r.Intn(len(sectionedTypes))])
	if nest {
		f.Type = 0x0B
	}
	f.Secs = g.secs(level, nest)
	if g.o.HdrBytes && r.Chance(1, 8) {
		f.State = byte(r.Pick(0xF0, 0xF8))
	}
	if level > 0 {
		g.targets = append(g.targets, Target{f.GUID, level})
	}
	g.all = append(g.all, Target{f.GUID, level})
	return f
}

func (g *cgen) vol(level int) *Vol {
	r := g.r
	v := &Vol{FSGUID: FFS2, Attrs: 0x800 | uint32(r.Pick(0, 0x4FEFF, 0x3)), Revision: 2}
	if r.Chance(1, 4) {
		v.FSGUID = FFS3
	}
	if level == 0 {
		v.BlockSize = uint32(r.Pick(64, 256, 4096))
		v.FreeSpace = r.Pick(600, 900, 1500)
	} else {
		v.BlockSize = uint32(r.Pick(8, 16, 64, 512))
		v.FreeSpace = r.Pick(0, 0, 8, 24, 100)
	}
	if r.Chance(1, 5) { // further block-map entries (the first entry is the one Assemble resizes)
		for i := r.Range(1, 2); i > 0; i-- {
			v.ExtraBlocks = append(v.ExtraBlocks, [2]uint32{uint32(r.Range(1, 2)), uint32(r.Pick(8, 16, 64))})
		}
	}
	if r.Chance(1, 5) {
		v.ExtHeader = true
		copy(v.ExtName[:], r.Bytes(16))
		v.ExtData = r.Bytes(r.Pick(0, 4, 12))
	}
	if g.o.HdrBytes {
		if r.Chance(1, 3) {
			copy(v.Zero[:], r.Bytes(16))
		}
		if r.Chance(1, 4) {
			v.Reserved = byte(r.Intn(256))
		}
		if v.ExtHeader {
			v.ExtPre = r.Pick(0, 0, 8, 24)
		}
	}
	n := r.Pick(1, 2, 2, 3)
	nestAt, nestAt2 := -1, -1
	if level < g.o.Depth {
		nestAt = r.Intn(n)
		if g.o.Siblings && level < 2 && n > 1 && r.Chance(1, 4) {
			nestAt2 = (nestAt + 1 + r.Intn(n-1)) % n // a second file with a nested volume
		}
	}
	for i := 0; i < n; i++ {
		f := g.file(level, i == nestAt || i == nestAt2)
		if g.o.LargeForm && v.FSGUID == FFS3 && f.Secs != nil && r.Chance(1, 4) {
			f.LargeForm = true
		}
		v.Files = append(v.Files, f)
	}
	return v
}

// GenCompRegion generates a BIOS region whose first volume nests o.Depth further volumes inside
// compressed sections. It returns the files that live in nested volumes.
func GenCompRegion(r *Rng, o COpts) (*Region, []Target, error) {
	reg, targets, _, err := GenCompRegionAll(r, o)
	return reg, targets, err
}

// GenCompRegionAll is GenCompRegion that also returns every file built from sections (level 0 = the
// top-level volume), for oracles that pick a file anywhere in the image.
func GenCompRegionAll(r *Rng, o COpts) (*Region, []Target, []Target, error) {
	g := &cgen{r: r, o: o}
	reg := &Region{}
	if r.Chance(1, 3) {
		reg.Elems = append(reg.Elems, Elem{Pad: genPad(r, 8*r.Range(1, 6))})
	}
	reg.Elems = append(reg.Elems, Elem{Vol: g.vol(0)})
	if r.Chance(1, 4) {
		reg.Elems = append(reg.Elems, Elem{Pad: genPad(r, 8*r.Range(1, 6))})
	}
	return reg, g.targets, g.all, g.err
}

// NewFileBytes serialises a small free-standing file (for insertion edits).
func NewFileBytes(r *Rng, guid [16]byte) []byte {
	f := &File{GUID: guid, Type: 0x07, State: 0xF8, Attr: 0x40}
	f.Secs = []*Sec{{Type: 0x19, Body: r.Bytes(r.Pick(1, 13, 40, 200))}, {Type: 0x15, Body: ucs2(genName(r))}}
	e := &emitter{}
	return e.file(f, 0)
}
