// Package uefigen is the reference image grammar of the UEFI properties (C01–C07, C09):
// an abstract description of sections, files, volumes and BIOS regions, a reference
// serialiser written independently of fiano's own assembler, a random generator over
// the grammar, and the field map used for boundary-value mutants.
package uefigen

import (
	"encoding/binary"

	. "verifharness/common"
)

// ---------- abstract specs ----------

type Sec struct {
	Type    byte
	Body    []byte // leaf payload (after the common header); for GUID-defined: after the 20-byte header
	GUID    [16]byte
	GDAttrs uint16
	GDExtra []byte // bytes between the GUID-defined header and the payload (DataOffset > 24)
	Vol     *Vol   // FV image section
	Ext     bool   // leaf section written with the extended common header (size field 0xFFFFFF + 32-bit size)
	               // although it is smaller than 16 MiB; fiano keeps leaf sections as they are
	// ExtAny: the same header form on a section of ANY kind the parser honours it for (FV-image,
	// GUID-defined, UI, version, dependency expression, ...). Legal, but fiano regenerates those sections
	// with the short header, so such images are outside the C01 grammar (SpecString: ok=false); used by
	// the parse-only properties (C04, C05, C09). Opt-in: only Diversify sets it.
	ExtAny bool
}

type File struct {
	GUID    [16]byte
	Type    byte
	Attr    byte // alignment bits, checksum bit; large bit is derived
	State   byte
	Body    []byte // opaque body when Secs == nil
	Secs    []*Sec
	BadSums bool // opaque files may carry arbitrary checksums
	// LargeForm: a file written in the FFSv3 large form (size field 0xFFFFFF, 64-bit size, 32-byte
	// header, attribute bit 0) although it is smaller than 16 MiB. fiano keeps an opaque file as it is
	// and rewrites a file with sections in the small form when it saves. (Sectioned large-form files are
	// outside the C01 grammar: SpecString returns ok=false for them.)
	LargeForm bool
	// BigSecs: the sections add up to 16 MiB or more (the file then has a 32-byte header); set by the
	// caller, only used for the data alignment computation of the volume layout
	BigSecs bool
	IsPad   bool
}

type Vol struct {
	Zero      [16]byte
	FSGUID    [16]byte
	Attrs     uint32
	Revision  byte
	Reserved  byte
	BlockSize uint32
	Blocks    uint32 // Length = BlockSize*Blocks (computed when 0)
	ExtHeader bool
	// ExtraBlocks: block-map entries after the first one (each a run of equal-sized blocks); the first
	// entry's count is chosen so that the map still adds up to the volume length
	ExtraBlocks [][2]uint32
	ExtName   [16]byte
	ExtData   []byte // extra bytes of the extended header after the 20 fixed ones
	ExtPre    int    // erased bytes between the header and the extended header (real volumes have them)
	Files     []*File
	FreeSpace int // bytes of erased free space after the last file (before rounding to blocks)
	Length    int // filled by Emit
}

type Elem struct {
	Pad []byte
	Vol *Vol
}

type Region struct{ Elems []Elem }

// Field describes one header field of an emitted image (for boundary mutants).
type Field struct {
	Name  string
	Off   int
	Width int
	// Remaining is the number of bytes from Off to the end of the enclosing container,
	// HdrSize the size of the header the field belongs to.
	Remaining int
	HdrSize   int
}

var (
	FFS2 = [16]byte{0x78, 0xe5, 0x8c, 0x8c, 0x3d, 0x8a, 0x1c, 0x4f, 0x99, 0x35, 0x89, 0x61, 0x85, 0xc3, 0x2d, 0xd3}
	FFS3 = [16]byte{0x7a, 0xc0, 0x73, 0x54, 0xcb, 0x3d, 0xca, 0x4d, 0xbd, 0x6f, 0x1e, 0x96, 0x89, 0xe7, 0x34, 0x9a}
)

var alignments = []int{1, 16, 128, 512, 1024, 4096, 32768, 65536, 131072, 262144, 524288, 1048576,
	2097152, 4194304, 8388608, 16777216}

func AttrAlign(a byte) int {
	v := (a&0x38)>>3 | (a&0x02)<<2
	return alignments[v]
}

func align(v, b int) int { return (v + b - 1) / b * b }

func sum8(b []byte) byte {
	var s byte
	for _, x := range b {
		s += x
	}
	return s
}

func sum16(b []byte) uint16 {
	var s uint16
	for i := 0; i+1 < len(b); i += 2 {
		s += uint16(b[i]) | uint16(b[i+1])<<8
	}
	return s
}

// ---------- serialiser ----------

type emitter struct {
	fields []Field
}

func put3(b []byte, v int) { b[0], b[1], b[2] = byte(v), byte(v>>8), byte(v>>16) }

// EmitSec returns the bytes of a section (common header + body), without trailing padding.
func (e *emitter) sec(s *Sec, base int) []byte {
	var body []byte
	hdr := 4 // common header length (for the offsets of the field map)
	if s.ExtAny && extHonoured(s.Type) {
		hdr = 8
	}
	switch {
	case s.Vol != nil:
		body = e.vol(s.Vol, base+hdr)
	case s.Type == 0x02:
		doff := 20 + hdr + len(s.GDExtra)
		body = append(body, s.GUID[:]...)
		body = binary.LittleEndian.AppendUint16(body, uint16(doff))
		body = binary.LittleEndian.AppendUint16(body, s.GDAttrs)
		body = append(body, s.GDExtra...)
		body = append(body, s.Body...)
	default:
		body = s.Body
	}
	n := 4 + len(body)
	out := make([]byte, 4, n+4)
	put3(out, n)
	out[3] = s.Type
	if n >= 0xFFFFFF || (s.Ext && s.Vol == nil && isLeafType(s.Type)) || hdr == 8 { // extended section header: 0xFFFFFF, type, 32-bit size
		n += 4
		put3(out, 0xFFFFFF)
		out = binary.LittleEndian.AppendUint32(out, uint32(n))
	}
	out = append(out, body...)
	e.fields = append(e.fields, Field{"sec.size", base, 3, n, 4}, Field{"sec.type", base + 3, 1, n - 3, 4})
	if s.Type == 0x02 {
		e.fields = append(e.fields, Field{"sec.gd.dataoff", base + hdr + 16, 2, n - hdr - 16, 24},
			Field{"sec.gd.attrs", base + hdr + 18, 2, n - hdr - 18, 24})
	}
	return out
}

func (e *emitter) file(f *File, base int) []byte {
	var body []byte
	if f.Secs != nil {
		shl := 24 // header length assumed for the field map of the sections
		if f.LargeForm {
			shl = 32
		}
		for _, s := range f.Secs {
			for len(body)%4 != 0 {
				body = append(body, 0)
			}
			body = append(body, e.sec(s, base+shl+len(body))...)
		}
	} else {
		body = f.Body
	}
	hl := 24
	size := hl + len(body)
	large := size >= 0xFFFFFF || f.LargeForm
	attr := f.Attr &^ 1
	if large {
		hl = 32
		size = hl + len(body)
		attr |= 1
	}
	h := make([]byte, hl)
	copy(h, f.GUID[:])
	h[18] = f.Type
	h[19] = attr
	if large {
		put3(h[20:], 0xFFFFFF)
		binary.LittleEndian.PutUint64(h[24:], uint64(size))
	} else {
		put3(h[20:], size)
	}
	h[23] = f.State
	// header checksum over the header with State and IntegrityCheck.File taken as zero
	h[16], h[17] = 0, 0
	st := h[23]
	h[23] = 0
	h[16] = 0 - sum8(h)
	h[23] = st
	if attr&0x40 != 0 {
		h[17] = 0 - sum8(body)
	} else {
		h[17] = 0xAA
	}
	if f.BadSums && f.Secs == nil {
		h[16] ^= 0x5A
		h[17] ^= 0x33
	}
	e.fields = append(e.fields,
		Field{"file.guid0", base, 1, size, hl}, Field{"file.ckh", base + 16, 1, size - 16, hl},
		Field{"file.ckf", base + 17, 1, size - 17, hl}, Field{"file.type", base + 18, 1, size - 18, hl},
		Field{"file.attr", base + 19, 1, size - 19, hl}, Field{"file.size", base + 20, 3, size - 20, hl},
		Field{"file.state", base + 23, 1, size - 23, hl})
	if large {
		e.fields = append(e.fields, Field{"file.extsize", base + 24, 8, size - 24, hl})
	}
	return append(h, body...)
}

// PadFile builds the pad file fiano's CreatePadFile would build for erase polarity 0xFF.
func PadFile(size int) []byte { return PadFilePol(size, 0xFF) }

// PadFilePol builds a pad file for erase polarity pol (0xFF or 0x00): GUID and body are erased
// bytes, the state is "data valid" (bits 0..2) in the sense of the polarity.
func PadFilePol(size int, pol byte) []byte {
	f := &File{Type: 0xF0, State: 0x07 ^ pol, Body: nil}
	for i := range f.GUID {
		f.GUID[i] = pol
	}
	hl := 24
	if size >= 0xFFFFFF {
		hl = 32
	}
	f.Body = make([]byte, size-hl)
	for i := range f.Body {
		f.Body[i] = pol
	}
	e := &emitter{}
	return e.file(f, 0)
}

func (e *emitter) vol(v *Vol, base int) []byte {
	pol := byte(0)
	if v.Attrs&0x800 != 0 {
		pol = 0xFF
	}
	hdrLen := 56 + 16 + 8*len(v.ExtraBlocks) // block entries + terminator
	out := make([]byte, hdrLen)
	copy(out, v.Zero[:])
	copy(out[16:], v.FSGUID[:])
	binary.LittleEndian.PutUint32(out[40:], 0x4856465F) // _FVH
	binary.LittleEndian.PutUint32(out[44:], v.Attrs)
	binary.LittleEndian.PutUint16(out[48:], uint16(hdrLen))
	out[54] = v.Reserved
	out[55] = v.Revision
	if v.ExtHeader {
		for i := 0; i < v.ExtPre; i++ {
			out = append(out, pol)
		}
		eo := hdrLen + v.ExtPre
		binary.LittleEndian.PutUint16(out[52:], uint16(eo))
		out = append(out, v.ExtName[:]...)
		out = binary.LittleEndian.AppendUint32(out, uint32(20+len(v.ExtData)))
		out = append(out, v.ExtData...)
		e.fields = append(e.fields, Field{"fv.ext.size", base + eo + 16, 4, 0, 20})
	}
	for len(out)%8 != 0 {
		out = append(out, pol)
	}
	for _, f := range v.Files {
		for len(out)%8 != 0 {
			out = append(out, pol)
		}
		hl := 24
		// large files: header is 32 bytes
		if f.Secs == nil && (24+len(f.Body) >= 0xFFFFFF || f.LargeForm) {
			hl = 32
		}
		if f.Secs != nil && (f.BigSecs || f.LargeForm) {
			hl = 32
		}
		if a := AttrAlign(f.Attr); a != 1 {
			dataOff := align(len(out)+hl, a)
			start := dataOff - hl
			if gap := start - len(out); gap >= 8 && gap < 24 {
				dataOff = align(dataOff+1, a)
				start = dataOff - hl
			}
			if start != len(out) {
				out = append(out, PadFilePol(start-len(out), pol)...)
			}
		}
		out = append(out, e.file(f, base+len(out))...)
	}
	used := align(len(out), 8)
	for len(out) < used+v.FreeSpace {
		out = append(out, pol)
	}
	bs := int(v.BlockSize)
	if bs == 0 {
		bs = 64
	}
	extra := 0
	for _, b := range v.ExtraBlocks {
		extra += int(b[0]) * int(b[1])
	}
	// the first entry covers what the further entries do not (at least one block)
	length := extra + align(max(len(out)-extra, bs), bs)
	if v.Blocks != 0 && int(v.Blocks)*bs >= len(out) && len(v.ExtraBlocks) == 0 {
		length = int(v.Blocks) * bs
	}
	for len(out) < length {
		out = append(out, pol)
	}
	v.Length = length
	binary.LittleEndian.PutUint64(out[32:], uint64(length))
	binary.LittleEndian.PutUint32(out[56:], uint32((length-extra)/bs))
	binary.LittleEndian.PutUint32(out[60:], uint32(bs))
	for i, b := range v.ExtraBlocks {
		binary.LittleEndian.PutUint32(out[64+8*i:], b[0])
		binary.LittleEndian.PutUint32(out[68+8*i:], b[1])
	}
	binary.LittleEndian.PutUint16(out[50:], 0)
	binary.LittleEndian.PutUint16(out[50:], 0-sum16(out[:hdrLen]))
	e.fields = append(e.fields,
		Field{"fv.length", base + 32, 8, length - 32, hdrLen}, Field{"fv.attrs", base + 44, 4, length - 44, hdrLen},
		Field{"fv.hdrlen", base + 48, 2, length - 48, hdrLen}, Field{"fv.cksum", base + 50, 2, length - 50, hdrLen},
		Field{"fv.exthdroff", base + 52, 2, length - 52, hdrLen}, Field{"fv.blk.count", base + 56, 4, length - 56, hdrLen},
		Field{"fv.blk.size", base + 60, 4, length - 60, hdrLen}, Field{"fv.blk.term", base + hdrLen - 8, 8, length - hdrLen + 8, hdrLen},
		Field{"fv.guid0", base + 16, 1, length - 16, hdrLen})
	return out
}

// EmitRegion serialises a BIOS region and returns its bytes and field map.
func EmitRegion(r *Region) ([]byte, []Field) {
	e := &emitter{}
	var out []byte
	for _, el := range r.Elems {
		if el.Vol != nil {
			out = append(out, e.vol(el.Vol, len(out))...)
		} else {
			out = append(out, el.Pad...)
		}
	}
	return out, e.fields
}

// EmitVol serialises a single volume.
func EmitVol(v *Vol) ([]byte, []Field) {
	e := &emitter{}
	b := e.vol(v, 0)
	return b, e.fields
}

// ---------- random generation ----------

type Opts struct {
	MaxDepth   int  // nesting of FV-image sections
	Strings    bool // UI / version / depex sections (regenerated from parsed fields on save)
	Alignments bool
	BigBodies  bool
	LargeSecs  bool // some leaf sections in the extended-header form (opt-in: C01)
}

func ucs2(s string) []byte {
	var b []byte
	for _, r := range s {
		b = append(b, byte(r), byte(r>>8))
	}
	return append(b, 0, 0)
}

func genName(r *Rng) string {
	n := r.Range(1, 10)
	rs := make([]rune, n)
	for i := range rs {
		switch r.Intn(8) {
		case 0:
			rs[i] = rune(0x100 + r.Intn(0x400)) // BMP, two UTF-8 bytes
		case 1:
			rs[i] = rune(0x3041 + r.Intn(80)) // three UTF-8 bytes
		default:
			rs[i] = rune('A' + r.Intn(26))
		}
	}
	return string(rs)
}

func genDepex(r *Rng) []byte {
	var b []byte
	n := r.Intn(5)
	for i := 0; i < n; i++ {
		op := byte(r.Pick(0, 1, 2, 3, 4, 5, 6, 7, 9))
		b = append(b, op)
		if op <= 2 {
			b = append(b, r.Bytes(16)...)
		}
	}
	return append(b, 8)
}

func GenGUID(r *Rng) [16]byte {
	var g [16]byte
	copy(g[:], r.Bytes(16))
	if r.Chance(1, 3) { // small pool so that duplicates and matches happen
		g = [16]byte{}
		g[0] = byte(1 + r.Intn(6))
		g[15] = 0x77
	}
	return g
}

func body(r *Rng, o Opts) []byte {
	n := r.Pick(0, 1, 3, 4, 5, 16, 33, 100)
	if o.BigBodies && r.Chance(1, 6) {
		n = 500 + r.Intn(1500)
	}
	b := r.Bytes(n)
	if r.Chance(1, 4) {
		for i := range b {
			b[i] = 0xFF
		}
	}
	return b
}

func GenSec(r *Rng, o Opts, depth int) *Sec {
	s := &Sec{}
	k := r.Intn(12)
	switch {
	case k == 0 && o.Strings:
		s.Type = 0x15
		s.Body = ucs2(genName(r))
	case k == 1 && o.Strings:
		s.Type = 0x14
		s.Body = append([]byte{byte(r.Intn(256)), byte(r.Intn(256))}, ucs2(genName(r))...)
	case k == 2 && o.Strings:
		s.Type = byte(r.Pick(0x13, 0x1b, 0x1c))
		s.Body = genDepex(r)
	case k == 3 && depth < o.MaxDepth:
		s.Type = 0x17
		s.Vol = GenVol(r, o, depth+1)
	case k == 4: // GUID-defined, unknown GUID or no processing required: opaque
		s.Type = 0x02
		s.GUID = GenGUID(r)
		s.GDAttrs = uint16(r.Pick(0, 1, 2, 3))
		if r.Chance(1, 3) {
			s.GDExtra = r.Bytes(r.Pick(4, 8))
		}
		s.Body = body(r, o)
	case k == 5:
		s.Type = byte(r.Pick(0x18, 0x01, 0x03, 0x16))
		s.Body = append(r.Bytes(16), body(r, o)...)
	case k == 6: // unknown section type
		s.Type = byte(r.Pick(0x1a, 0x40, 0xff))
		s.Body = body(r, o)
	default:
		s.Type = byte(r.Pick(0x10, 0x11, 0x12, 0x19, 0x19))
		s.Body = body(r, o)
		if o.LargeSecs && r.Chance(1, 6) {
			s.Ext = true
		}
	}
	return s
}

// extHonoured: the section types for which fiano's parser reads the extended common header
func extHonoured(t byte) bool {
	switch t {
	case 0x00, 0x01, 0x02, 0x03, 0x10, 0x11, 0x12, 0x13, 0x14, 0x15, 0x16, 0x17, 0x18, 0x19, 0x1b, 0x1c:
		return true
	}
	return false
}

// isLeafType: section types that fiano neither interprets nor regenerates and that may use the
// extended common header (the parser only honours it for the types it knows)
func isLeafType(t byte) bool {
	switch t {
	case 0x10, 0x11, 0x12, 0x19, 0x18, 0x01, 0x03, 0x16:
		return true
	}
	return false
}

var sectionedTypes = []int{2, 3, 4, 5, 7, 8, 9, 10, 11, 12, 13, 14, 15}

func GenFile(r *Rng, o Opts, depth int) *File {
	f := &File{GUID: GenGUID(r), State: byte(r.Pick(0xF8, 0xF8, 0xF8, 0xF0, 0x07))}
	if o.Alignments && r.Chance(1, 3) {
		// alignment index 1..4 (16..1024), via bits 3-5 and the extended bit 1
		f.Attr |= byte(r.Pick(1, 2, 3, 4)) << 3
	}
	if r.Chance(1, 2) {
		f.Attr |= 0x40
	}
	if r.Chance(1, 8) {
		f.Attr |= 0x04 // a reserved attribute bit
	}
	if r.Chance(2, 5) {
		f.Type = byte(r.Pick(1, 6, 6, 0xC0, 0xE5, 0xF5))
		f.Body = body(r, o)
		f.BadSums = r.Chance(1, 6)
		return f
	}
	f.Type = byte(sectionedTypes[r.Intn(len(sectionedTypes))])
	if depth < o.MaxDepth && r.Chance(1, 4) {
		f.Type = 11
	}
	n := r.Range(1, 4)
	f.Secs = []*Sec{}
	for i := 0; i < n; i++ {
		f.Secs = append(f.Secs, GenSec(r, o, depth))
	}
	return f
}

func GenVol(r *Rng, o Opts, depth int) *Vol {
	v := &Vol{FSGUID: FFS2, Attrs: 0x800 | uint32(r.Pick(0, 0x4FEFF, 0x3, 0xFFFF07FF)), Revision: byte(r.Pick(1, 2))}
	v.Attrs |= 0x800
	if r.Chance(1, 4) {
		v.FSGUID = FFS3
	}
	copy(v.Zero[:], r.Bytes(16))
	if r.Chance(1, 2) {
		v.Zero = [16]byte{}
	}
	v.BlockSize = uint32(r.Pick(8, 64, 64, 256, 4096))
	if depth > 0 {
		v.BlockSize = uint32(r.Pick(8, 16, 64))
	}
	if r.Chance(1, 6) { // a block map with several entries
		for i, n := 0, r.Pick(1, 1, 2); i < n; i++ {
			v.ExtraBlocks = append(v.ExtraBlocks, [2]uint32{uint32(r.Pick(1, 1, 2, 3)), uint32(r.Pick(8, 16, 64))})
		}
	}
	if r.Chance(1, 4) {
		v.ExtHeader = true
		copy(v.ExtName[:], r.Bytes(16))
		v.ExtData = r.Bytes(r.Pick(0, 4, 12))
		v.ExtPre = r.Pick(0, 0, 8, 24)
	}
	n := r.Pick(0, 1, 1, 2, 3, 5)
	for i := 0; i < n; i++ {
		v.Files = append(v.Files, GenFile(r, o, depth))
	}
	if v.FSGUID == FFS3 {
		for _, f := range v.Files {
			if f.Secs == nil && !f.IsPad && r.Chance(1, 5) {
				f.LargeForm = true
			}
		}
	}
	v.FreeSpace = r.Pick(0, 0, 8, 24, 100, 300)
	if r.Chance(1, 10) { // a volume that fiano does not parse beyond the header
		copy(v.FSGUID[:], r.Bytes(16))
		v.Files = nil
	}
	return v
}

// padding between volumes must not contain "_FVH" at an offset fiano would recognise
func genPad(r *Rng, n int) []byte {
	b := r.Bytes(n)
	for i := range b {
		if b[i] == '_' {
			b[i] = '-'
		}
	}
	if r.Chance(1, 2) {
		for i := range b {
			b[i] = 0xFF
		}
	}
	return b
}

func GenRegion(r *Rng, o Opts) *Region {
	reg := &Region{}
	n := r.Pick(1, 1, 2, 3)
	for i := 0; i < n; i++ {
		if r.Chance(1, 2) {
			reg.Elems = append(reg.Elems, Elem{Pad: genPad(r, 8*r.Range(1, 12))})
		}
		reg.Elems = append(reg.Elems, Elem{Vol: GenVol(r, o, 0)})
	}
	if r.Chance(1, 3) {
		reg.Elems = append(reg.Elems, Elem{Pad: genPad(r, 8*r.Range(1, 12))})
	}
	return reg
}

// BoundaryValues returns the substitution values of property C05/C20 for a field.
func BoundaryValues(f Field) []uint64 {
	max := uint64(1)<<(8*uint(f.Width)) - 1
	if f.Width == 8 {
		max = ^uint64(0)
	}
	vals := []uint64{0, 1, uint64(f.HdrSize), uint64(f.HdrSize) + 1, max, max - 1}
	// counts and sizes that make "n * element size" wrap around in 32 or 64 bits
	if f.Width == 4 {
		vals = append(vals, 1<<24, 1<<27, 1<<27+1, 1<<28, 1<<31, 1<<31+1)
	}
	if f.Width == 8 {
		vals = append(vals, 1<<32, 1<<32+1, 1<<59, 1<<63)
	}
	if f.HdrSize > 0 {
		vals = append(vals, uint64(f.HdrSize)-1)
	}
	if f.Remaining > 0 {
		vals = append(vals, uint64(f.Remaining), uint64(f.Remaining)+1, uint64(f.Remaining)-1)
	}
	return vals
}

// Mutate writes value v into field f of a copy of img.
func Mutate(img []byte, f Field, v uint64) []byte {
	out := append([]byte{}, img...)
	for i := 0; i < f.Width && f.Off+i < len(out); i++ {
		out[f.Off+i] = byte(v >> (8 * uint(i)))
	}
	return out
}

// GenMEFPT builds an ME flash partition table ("$FPT" signature at offset 16, count, 24 more header
// bytes, then 32-byte entries) followed by some payload, and the field map of its header.
func GenMEFPT(r *Rng, n int) ([]byte, []Field) {
	b := make([]byte, 16)
	for i := range b {
		b[i] = byte(r.Intn(0x20)) // never '$'
	}
	b = append(b, '$', 'F', 'P', 'T')
	b = binary.LittleEndian.AppendUint32(b, uint32(n))
	b = append(b, r.Bytes(24)...)
	for i := 0; i < n; i++ {
		e := make([]byte, 32)
		copy(e, []byte{byte('A' + i%26), 'B', 'C', 0})
		binary.LittleEndian.PutUint32(e[8:], uint32(0x1000*(i+1)))
		binary.LittleEndian.PutUint32(e[12:], uint32(0x800))
		binary.LittleEndian.PutUint32(e[28:], uint32(r.Intn(6)))
		b = append(b, e...)
	}
	b = append(b, r.Bytes(r.Pick(0, 7, 32, 100))...)
	total := len(b)
	fields := []Field{{"mefpt.count", 20, 4, total - 20, 48}, {"mefpt.sig", 16, 4, total - 16, 48}}
	if n > 0 {
		fields = append(fields, Field{"mefpt.e0.offset", 48 + 8, 4, total - 56, 32}, Field{"mefpt.e0.length", 48 + 12, 4, total - 60, 32})
	}
	return b, fields
}
