package uefigen

import (
	"encoding/binary"
	"fmt"
	"strings"

	. "verifharness/common"
)

// SpecString renders a generated region as a term of the Coq grammar datatype
// (coq/Model/FfsGrammar.v: emit_region / wfb_region), so that the model runner can (a) re-serialise
// it with the proved reference serialiser and compare with the bytes this package emitted and
// (b) evaluate the decidable well-formedness check: together they establish that the generated
// image lies in the domain of theorem C01_save_identity. ok=false: the image uses a feature
// outside the proved grammar (a volume fiano does not parse, a file of 16 MiB or more, …).
func SpecString(r *Region) (string, bool) {
	var sb strings.Builder
	type pair struct {
		pad []byte
		vol *Vol
	}
	var pairs []pair
	var pend []byte
	for _, e := range r.Elems {
		if e.Vol == nil {
			pend = append(pend, e.Pad...)
			continue
		}
		pairs = append(pairs, pair{pend, e.Vol})
		pend = nil
	}
	fmt.Fprintf(&sb, "R %x", len(pairs))
	for _, p := range pairs {
		sb.WriteString(" " + H(p.pad))
		if !specVol(&sb, p.vol) {
			return "", false
		}
	}
	sb.WriteString(" " + H(pend))
	return sb.String(), true
}

func specVol(sb *strings.Builder, v *Vol) bool {
	if v.FSGUID != FFS2 && v.FSGUID != FFS3 {
		return false
	}
	img, _ := EmitVol(v)
	length := binary.LittleEndian.Uint64(img[32:])
	count := binary.LittleEndian.Uint32(img[56:])
	bsize := binary.LittleEndian.Uint32(img[60:])
	// the file list as laid out, including the pad files the layout inserted
	type item struct {
		f   *File
		pad int
	}
	var items []item
	hl := 72 + 8*len(v.ExtraBlocks)
	off := hl
	more := fmt.Sprintf("M %x", len(v.ExtraBlocks))
	for _, b := range v.ExtraBlocks {
		more += fmt.Sprintf(" %x %x", b[0], b[1])
	}
	xh := "N"
	if v.ExtHeader {
		end := hl + v.ExtPre + 20 + len(v.ExtData)
		off = align(end, 8)
		xh = fmt.Sprintf("X %s %s %s %s", H(img[hl:hl+v.ExtPre]), H(v.ExtName[:]), H(v.ExtData), H(img[end:off]))
	}
	for _, f := range v.Files {
		off = align(off, 8)
		hl := 24
		if f.LargeForm {
			hl = 32
		}
		if a := AttrAlign(f.Attr); a != 1 {
			dataOff := align(off+hl, a)
			start := dataOff - hl
			if gap := start - off; gap >= 8 && gap < 24 {
				dataOff = align(dataOff+1, a)
				start = dataOff - hl
			}
			if start != off {
				items = append(items, item{nil, start - off})
				off = start
			}
		}
		items = append(items, item{f, 0})
		e := &emitter{}
		off += len(e.file(f, 0))
	}
	fmt.Fprintf(sb, " V %s %s %x %x %x %x %x %x %s %s %x", H(v.Zero[:]), H(v.FSGUID[:]), v.Attrs, v.Reserved, v.Revision, count, bsize, length, more, xh, len(items))
	for _, it := range items {
		if it.f == nil {
			pf := PadFile(it.pad)
			fmt.Fprintf(sb, " FO %s %x %x %x %x %x %s", H(pf[:16]), pf[16], pf[17], pf[18], pf[19], pf[23], H(pf[24:]))
			continue
		}
		f := it.f
		if f.Secs == nil {
			e := &emitter{}
			fb := e.file(f, 0)
			if len(fb) >= 0xFFFFFF {
				return false
			}
			tag := "FO"
			if f.LargeForm {
				tag = "FL"
			}
			fmt.Fprintf(sb, " %s %s %x %x %x %x %x %s", tag, H(f.GUID[:]), fb[16], fb[17], f.Type, fb[19], f.State, H(f.Body))
			continue
		}
		if f.LargeForm {
			return false // a sectioned file in the large form is outside the C01 grammar
		}
		fmt.Fprintf(sb, " FS %s %x %x %x %x", H(f.GUID[:]), f.Type, f.Attr&^1, f.State, len(f.Secs))
		for _, s := range f.Secs {
			if !specSec(sb, s) {
				return false
			}
		}
	}
	return true
}

func specSec(sb *strings.Builder, s *Sec) bool {
	if s.ExtAny && !(s.Vol == nil && isLeafType(s.Type)) {
		return false // extended header on a section fiano regenerates in the short form: not an identity
	}
	switch {
	case s.Vol != nil:
		sb.WriteString(" SF")
		return specVol(sb, s.Vol)
	case s.Type == 0x02:
		fmt.Fprintf(sb, " SG %s %x %s %s", H(s.GUID[:]), s.GDAttrs, H(s.GDExtra), H(s.Body))
	case s.Type == 0x15:
		fmt.Fprintf(sb, " SU %s", H(s.Body))
	case s.Type == 0x14:
		if len(s.Body) < 2 {
			return false
		}
		fmt.Fprintf(sb, " SV %x %s", binary.LittleEndian.Uint16(s.Body), H(s.Body[2:]))
	case s.Type == 0x13 || s.Type == 0x1b || s.Type == 0x1c:
		// opcode list up to END
		var ops []string
		b := s.Body
		for len(b) > 0 && b[0] != 8 {
			if b[0] <= 2 {
				if len(b) < 17 {
					return false
				}
				ops = append(ops, fmt.Sprintf("%x %s", b[0], H(b[1:17])))
				b = b[17:]
			} else {
				ops = append(ops, fmt.Sprintf("%x -", b[0]))
				b = b[1:]
			}
		}
		if len(b) != 1 {
			return false
		}
		fmt.Fprintf(sb, " SD %x %x", s.Type, len(ops))
		for _, o := range ops {
			sb.WriteString(" " + o)
		}
	default:
		if (s.Ext || s.ExtAny) && isLeafType(s.Type) {
			fmt.Fprintf(sb, " SX %x %s", s.Type, H(s.Body))
		} else {
			fmt.Fprintf(sb, " SL %x %s", s.Type, H(s.Body))
		}
	}
	return true
}
