// diversify.go — opt-in extra diversity for generated specs, applied as a POST-PASS with its own
// random stream, so that GenRegion/GenVol/GenFile/GenSec keep producing exactly what they produced
// before for every caller that does not ask for it (coverage audit of C01/C04/C05/C09: header fields
// that were always the same value, header forms never generated, GUID classes never drawn).
package uefigen

import (
	"bytes"

	. "verifharness/common"
)

// DivOpts selects the features Diversify may switch on. Every feature keeps the image well-formed
// for fiano's parser; the comments say which of them leave the C01 grammar (SpecString ok=false).
type DivOpts struct {
	// Reserved: the Reserved byte of the volume header (offset 54) takes non-zero values. fiano does not
	// interpret it and must keep it (C01: "reserved header bits"). Inside the C01 grammar.
	Reserved bool
	// AttrHigh: file attribute bit 0x80 (reserved by the PI specification) on some files. Inside the
	// C01 grammar (any attribute byte).
	AttrHigh bool
	// EmptyStrings: USER_INTERFACE sections with the empty name and VERSION sections with the empty
	// version string (terminator only). Inside the C01 grammar.
	EmptyStrings bool
	// OpaqueCodec: GUID-defined sections that carry the GUID of a codec fiano knows (LZMA, LZMA+x86,
	// ZLIB, Brotli) WITHOUT the processing-required attribute: opaque leaves, kept verbatim. Inside the
	// C01 grammar.
	OpaqueCodec bool
	// PadFiles: some opaque files become files of type EFI_FV_FILETYPE_FFS_PAD (0xF0) that are NOT what
	// CreatePadFile would write: their own GUID, a body that is not erased, attribute bits, any state.
	// fiano keeps a pad file of the input as the opaque file it is. Inside the C01 grammar (FOpaque).
	PadFiles bool
	// EmptySectioned: some opaque files become header-only files (empty body) of a file type whose
	// sections fiano parses; with no section to rebuild them from they are kept verbatim, whatever
	// their checksums and header form. Inside the C01 grammar (FOpaque / FOpaqueL with body = []).
	EmptySectioned bool
	// ExtAny: sections of any kind the parser honours it for are written with the extended common
	// header (size field 0xFFFFFF + 32-bit size) although small. OUTSIDE the C01 grammar for the kinds
	// fiano regenerates (FV image, UI, version, dependency expression); for parse-only properties.
	ExtAny bool
	// KnownFS: volumes without files take a file-system GUID that uefi.FVGUIDs knows but fiano does not
	// parse (FFS1, NVRAM_EVSA, NVRAM_NVAR, NVRAM_EVSA2, APPLE_BOOT, PFH1, PFH2). Outside the C01
	// grammar as every volume fiano does not parse (SpecString ok=false), still saved verbatim.
	KnownFS bool
}

// the GUIDs of uefi.FVGUIDs other than FFS2/FFS3, in their on-disk (mixed-endian) byte order; written
// out here so that the package stays independent of the code under test
var KnownUnparsedFS = [][16]byte{
	guidBytes("7a9354d9-0468-444a-81ce-0bf617d890df"), // FFS1
	guidBytes("fff12b8d-7696-4c8b-a985-2747075b4f50"), // NVRAM_EVSA
	guidBytes("cef5b9a3-476d-497f-9fdc-e98143e0422c"), // NVRAM_NVAR
	guidBytes("00504624-8a59-4eeb-bd0f-6b36e96128e0"), // NVRAM_EVSA2
	guidBytes("04adeead-61ff-4d31-b6ba-64f8bf901f5a"), // APPLE_BOOT
	guidBytes("16b45da2-7d70-4aea-a58d-760e9ecb841d"), // PFH1
	guidBytes("e360bdba-c3ce-46be-8f37-b231e5cb9f35"), // PFH2
}

// BrotliGUID: the fourth codec GUID of pkg/compression (3D532050-5CDA-4FD0-879E-0F7F630D5AFB)
var BrotliGUID = guidBytes("3d532050-5cda-4fd0-879e-0f7f630d5afb")

func hexv(c byte) byte {
	switch {
	case c >= '0' && c <= '9':
		return c - '0'
	case c >= 'a' && c <= 'f':
		return c - 'a' + 10
	}
	return c - 'A' + 10
}

// guidBytes: text form -> bytes (first three groups little-endian, the rest in order)
func guidBytes(s string) [16]byte {
	var raw []byte
	for i := 0; i+1 < len(s); {
		if s[i] == '-' {
			i++
			continue
		}
		raw = append(raw, hexv(s[i])<<4|hexv(s[i+1]))
		i += 2
	}
	var g [16]byte
	copy(g[:], raw)
	g[0], g[1], g[2], g[3] = raw[3], raw[2], raw[1], raw[0]
	g[4], g[5] = raw[5], raw[4]
	g[6], g[7] = raw[7], raw[6]
	return g
}

// Diversify applies the selected features to a generated region, drawing from r only.
func Diversify(reg *Region, r *Rng, o DivOpts) {
	for _, e := range reg.Elems {
		if e.Vol != nil {
			DiversifyVol(e.Vol, r, o)
		}
	}
}

// DiversifyVol is Diversify for one volume (and everything nested in it).
func DiversifyVol(v *Vol, r *Rng, o DivOpts) {
	if o.Reserved && r.Chance(2, 3) {
		v.Reserved = byte(r.Pick(0x01, 0x80, 0xFF, 0x5A, 1+r.Intn(255)))
	}
	if o.KnownFS && len(v.Files) == 0 && r.Chance(2, 3) {
		v.FSGUID = KnownUnparsedFS[r.Intn(len(KnownUnparsedFS))]
	}
	for _, f := range v.Files {
		if o.AttrHigh && r.Chance(1, 3) {
			f.Attr |= 0x80
		}
		if o.PadFiles && f.Secs == nil && !f.IsPad && r.Chance(1, 4) {
			f.Type = 0xF0
			if r.Chance(1, 3) { // looks like a real pad file except for one thing
				for i := range f.GUID {
					f.GUID[i] = 0xFF
				}
			}
		} else if o.EmptySectioned && f.Secs == nil && !f.IsPad && r.Chance(1, 4) {
			f.Type = byte(sectionedTypes[r.Intn(len(sectionedTypes))])
			f.Body = nil
			f.BadSums = r.Chance(1, 2)
		}
		for _, s := range f.Secs {
			diversifySec(s, r, o)
		}
	}
}

func diversifySec(s *Sec, r *Rng, o DivOpts) {
	if s.Vol != nil {
		DiversifyVol(s.Vol, r, o)
	}
	if o.EmptyStrings && r.Chance(1, 4) {
		switch s.Type {
		case 0x15:
			s.Body = []byte{0, 0}
		case 0x14:
			if len(s.Body) >= 2 {
				s.Body = []byte{s.Body[0], s.Body[1], 0, 0}
			}
		}
	}
	if o.OpaqueCodec && s.Type == 0x02 && s.Vol == nil && r.Chance(1, 2) {
		switch r.Intn(4) {
		case 0:
			s.GUID = LZMAGUID
		case 1:
			s.GUID = LZMAX86GUID
		case 2:
			s.GUID = ZLIBGUID
		default:
			s.GUID = BrotliGUID
		}
		s.GDAttrs &^= 1 // never "processing required": the section stays an opaque leaf
	}
	if o.ExtAny && extHonoured(s.Type) && r.Chance(1, 3) {
		s.ExtAny = true
	}
}

// ---------- compressed sections for the parse-only properties (C04, C05) ----------
//
// The encoder is passed in (the executor uses fiano's encoders to BUILD inputs; the properties are
// about parsing). The plain text handed to the model as its codec table is what was compressed here,
// not what fiano decodes.

// CodecLine is one entry of the codec table of the model: Payload decodes to Plain with codec Kind.
type CodecLine struct {
	Kind           int
	Payload, Plain []byte
}

type compGen struct {
	r     *Rng
	lines []CodecLine
	div   DivOpts
	enc   Enc
}

func (g *compGen) leaf(depth int) *Sec {
	s := GenSec(g.r, Opts{MaxDepth: depth, Strings: true}, 0)
	if s.Vol != nil {
		DiversifyVol(s.Vol, g.r, g.div)
	} else if g.div.ExtAny && g.r.Chance(1, 4) {
		s.ExtAny = true
	}
	return s
}

// compressed returns a GUID-defined section (processing required) around 1..4 sections: leaves with
// mostly odd sizes (so that the 4-byte alignment between the encapsulated sections matters), sometimes
// a further compressed section, sometimes an FV-image section with a small nested volume.
// hostile > 0: the plain text is damaged before compression (a size field, trailing bytes).
func (g *compGen) compressed(level int, hostile int) *Sec {
	r := g.r
	var kids []*Sec
	n := r.Range(1, 4)
	for i := 0; i < n; i++ {
		switch {
		case hostile != 0 && i == 0:
			// the section whose size field gets damaged is a leaf: a damaged compressed section would have
			// another payload than the one the codec table of the model holds
			kids = append(kids, g.leaf(0))
		case level < 2 && r.Chance(1, 5):
			kids = append(kids, g.compressed(level+1, 0))
		case level < 1 && r.Chance(1, 5):
			kids = append(kids, g.leaf(1))
		default:
			kids = append(kids, g.leaf(0))
		}
	}
	kind := r.Pick(1, 2, 3, 3)
	plain := JoinSecs(kids)
	switch hostile {
	case 1: // the first encapsulated section claims one byte more / fewer
		if len(plain) >= 4 && plain[0] != 0xFF {
			plain = append([]byte{}, plain...)
			plain[0] += byte(r.Pick(1, 0xFF, 3, 4))
		}
	case 2: // stray bytes after the last section
		plain = append(append([]byte{}, plain...), r.Bytes(r.Pick(1, 2, 3, 4, 5))...)
	case 3: // a size beyond the payload
		if len(plain) >= 4 {
			plain = append([]byte{}, plain...)
			plain[1] = byte(r.Pick(0x10, 0xFF))
		}
	}
	c, err := g.enc(kind, plain)
	if err != nil {
		return g.leaf(0)
	}
	g.lines = append(g.lines, CodecLine{kind, c, plain})
	var extra []byte
	if r.Chance(1, 4) {
		extra = r.Bytes(r.Pick(1, 4, 8))
	}
	s := &Sec{Type: 0x02, GUID: CodecGUID(kind), GDAttrs: uint16(r.Pick(DecodedAttrs...)), GDExtra: extra, Body: c}
	if g.div.ExtAny && r.Chance(1, 4) {
		s.ExtAny = true
	}
	return s
}

// GenCompImage: a region whose volume holds files with compressed sections between plain ones, and the
// codec table entries (payload -> the plain text that was compressed) of every compressed section in it.
func GenCompImage(r *Rng, enc Enc, hostile int) ([]byte, []Field, []CodecLine) {
	g := &compGen{r: r, enc: enc, div: DivOpts{ExtAny: r.Chance(1, 2), Reserved: true, AttrHigh: true}}
	v := &Vol{FSGUID: FFS2, Attrs: 0x4FEFF, Revision: 2, BlockSize: 64, FreeSpace: r.Pick(0, 8, 100)}
	if r.Chance(1, 3) {
		v.FSGUID = FFS3
	}
	nf := r.Range(1, 3)
	hf := r.Intn(nf)
	for i := 0; i < nf; i++ {
		f := &File{GUID: GenGUID(r), Type: byte(r.Pick(2, 7, 9, 11)), State: 0xF8, Attr: byte(r.Pick(0, 0x40))}
		ns := r.Range(1, 3)
		cs := r.Intn(ns)
		for k := 0; k < ns; k++ {
			if k == cs {
				h := 0
				if i == hf {
					h = hostile
				}
				f.Secs = append(f.Secs, g.compressed(0, h))
			} else {
				f.Secs = append(f.Secs, g.leaf(0))
			}
		}
		v.Files = append(v.Files, f)
	}
	reg := &Region{Elems: []Elem{{Vol: v}}}
	if r.Chance(1, 3) {
		reg.Elems = append(reg.Elems, Elem{Pad: bytes.Repeat([]byte{0xFF}, 8*r.Range(1, 4))})
	}
	img, fields := EmitRegion(reg)
	return img, fields, g.lines
}
