// c15: executor and generator for property C15 (Boot Guard / CBnT manifests).
//
// Values travel as a flat description that follows the declaration order of the
// Go struct (the same order as the schema the translator extracts): integers in
// hex, byte arrays / blobs as hex strings ("-" = empty), lists as a count
// followed by the items, optional (pointer) elements as 0 / 1 + element.
package main

import (
	"bytes"
	"encoding/binary"
	"fmt"
	"io"
	"reflect"
	"strconv"
	"strings"
	"testing/iotest"

	"github.com/linuxboot/fiano/pkg/intel/metadata/bg"
	"github.com/linuxboot/fiano/pkg/intel/metadata/bg/bgbootpolicy"
	"github.com/linuxboot/fiano/pkg/intel/metadata/bg/bgkey"
	"github.com/linuxboot/fiano/pkg/intel/metadata/cbnt"
	"github.com/linuxboot/fiano/pkg/intel/metadata/cbnt/cbntbootpolicy"
	"github.com/linuxboot/fiano/pkg/intel/metadata/cbnt/cbntkey"
	. "verifharness/common"
)

type codec interface {
	ReadFrom(io.Reader) (int64, error)
	WriteTo(io.Writer) (int64, error)
	TotalSize() uint64
}

// the 33 structures with a generated codec; names as the translator derives them
var registry = []struct {
	name string
	zero interface{}
}{
	{"bg_HashStructure", bg.HashStructure{}},
	{"bg_HashStructureFill", bg.HashStructureFill{}},
	{"bg_Key", bg.Key{}},
	{"bg_Signature", bg.Signature{}},
	{"bg_KeySignature", bg.KeySignature{}},
	{"bg_StructInfo", bg.StructInfo{}},
	{"bg_bgbootpolicy_BPMH", bgbootpolicy.BPMH{}},
	{"bg_bgbootpolicy_IBBSegment", bgbootpolicy.IBBSegment{}},
	{"bg_bgbootpolicy_SE", bgbootpolicy.SE{}},
	{"bg_bgbootpolicy_PM", bgbootpolicy.PM{}},
	{"bg_bgbootpolicy_Signature", bgbootpolicy.Signature{}},
	{"bg_bgbootpolicy_Manifest", bgbootpolicy.Manifest{}},
	{"bg_bgkey_Manifest", bgkey.Manifest{}},
	{"cbnt_ChipsetACModuleInformation", cbnt.ChipsetACModuleInformation{}},
	{"cbnt_ChipsetACModuleInformationV5", cbnt.ChipsetACModuleInformationV5{}},
	{"cbnt_HashStructure", cbnt.HashStructure{}},
	{"cbnt_HashList", cbnt.HashList{}},
	{"cbnt_Key", cbnt.Key{}},
	{"cbnt_Signature", cbnt.Signature{}},
	{"cbnt_KeySignature", cbnt.KeySignature{}},
	{"cbnt_StructInfo", cbnt.StructInfo{}},
	{"cbnt_TPMInfoList", cbnt.TPMInfoList{}},
	{"cbnt_cbntbootpolicy_BPMH", cbntbootpolicy.BPMH{}},
	{"cbnt_cbntbootpolicy_IBBSegment", cbntbootpolicy.IBBSegment{}},
	{"cbnt_cbntbootpolicy_SE", cbntbootpolicy.SE{}},
	{"cbnt_cbntbootpolicy_TXT", cbntbootpolicy.TXT{}},
	{"cbnt_cbntbootpolicy_Reserved", cbntbootpolicy.Reserved{}},
	{"cbnt_cbntbootpolicy_PCD", cbntbootpolicy.PCD{}},
	{"cbnt_cbntbootpolicy_PM", cbntbootpolicy.PM{}},
	{"cbnt_cbntbootpolicy_Signature", cbntbootpolicy.Signature{}},
	{"cbnt_cbntbootpolicy_Manifest", cbntbootpolicy.Manifest{}},
	{"cbnt_cbntkey_Hash", cbntkey.Hash{}},
	{"cbnt_cbntkey_Manifest", cbntkey.Manifest{}},
}

func typeOf(name string) reflect.Type {
	for _, e := range registry {
		if e.name == name {
			return reflect.TypeOf(e.zero)
		}
	}
	panic("unknown structure " + name)
}

func isUint(k reflect.Kind) bool {
	return k == reflect.Uint8 || k == reflect.Uint16 || k == reflect.Uint32 || k == reflect.Uint64
}

// an element is a struct with a field named StructInfo
func isElement(t reflect.Type) bool {
	if t.Kind() != reflect.Struct {
		return false
	}
	_, ok := t.FieldByName("StructInfo")
	return ok && t.Name() != "StructInfo"
}

// ---------- value <-> description ----------

func ser(v reflect.Value, out *[]string) {
	switch v.Kind() {
	case reflect.Uint8, reflect.Uint16, reflect.Uint32, reflect.Uint64:
		*out = append(*out, N(v.Uint()))
	case reflect.Array:
		b := make([]byte, v.Len())
		for i := range b {
			b[i] = byte(v.Index(i).Uint())
		}
		*out = append(*out, H(b))
	case reflect.Slice:
		if v.Type().Elem().Kind() == reflect.Uint8 && v.Type().Elem().Name() == "uint8" {
			*out = append(*out, H(v.Bytes()))
			return
		}
		*out = append(*out, N(uint64(v.Len())))
		for i := 0; i < v.Len(); i++ {
			ser(v.Index(i), out)
		}
	case reflect.Ptr:
		if v.IsNil() {
			*out = append(*out, "0")
		} else {
			*out = append(*out, "1")
			ser(v.Elem(), out)
		}
	case reflect.Struct:
		for i := 0; i < v.NumField(); i++ {
			ser(v.Field(i), out)
		}
	default:
		panic("ser: unsupported kind " + v.Kind().String())
	}
}

func serStr(p interface{}) string {
	var out []string
	ser(reflect.ValueOf(p).Elem(), &out)
	return strings.Join(out, " ")
}

func deser(v reflect.Value, toks *[]string) {
	next := func() string {
		if len(*toks) == 0 {
			panic("value description too short")
		}
		t := (*toks)[0]
		*toks = (*toks)[1:]
		return t
	}
	switch v.Kind() {
	case reflect.Uint8, reflect.Uint16, reflect.Uint32, reflect.Uint64:
		v.SetUint(UnN(next()))
	case reflect.Array:
		b := UnH(next())
		for i := 0; i < v.Len() && i < len(b); i++ {
			v.Index(i).SetUint(uint64(b[i]))
		}
	case reflect.Slice:
		if v.Type().Elem().Kind() == reflect.Uint8 && v.Type().Elem().Name() == "uint8" {
			v.SetBytes(UnH(next()))
			return
		}
		n := int(UnN(next()))
		s := reflect.MakeSlice(v.Type(), n, n)
		for i := 0; i < n; i++ {
			deser(s.Index(i), toks)
		}
		v.Set(s)
	case reflect.Ptr:
		if next() == "0" {
			return
		}
		p := reflect.New(v.Type().Elem())
		deser(p.Elem(), toks)
		v.Set(p)
	case reflect.Struct:
		for i := 0; i < v.NumField(); i++ {
			deser(v.Field(i), toks)
		}
	default:
		panic("deser: unsupported kind")
	}
}

func build(name, desc string) reflect.Value {
	p := reflect.New(typeOf(name))
	toks := strings.Fields(desc)
	deser(p.Elem(), &toks)
	if len(toks) != 0 {
		panic("value description too long")
	}
	return p
}

// ---------- reference encoder driven by the declarations and tags ----------

func cwBytes(tag reflect.StructTag) int {
	switch tag.Get("countType") {
	case "", "uint16":
		return 2
	case "uint8":
		return 1
	case "uint32":
		return 4
	case "uint64":
		return 8
	}
	panic("countType")
}

func putLE(out *[]byte, v uint64, w int) {
	for i := 0; i < w; i++ {
		*out = append(*out, byte(v>>(8*uint(i))))
	}
}

type fieldPos struct {
	name      string
	off, size int
}

func refField(v reflect.Value, tag reflect.StructTag, out *[]byte) {
	switch v.Kind() {
	case reflect.Uint8, reflect.Uint16, reflect.Uint32, reflect.Uint64:
		putLE(out, v.Uint(), int(v.Type().Size()))
	case reflect.Array:
		for i := 0; i < v.Len(); i++ {
			*out = append(*out, byte(v.Index(i).Uint()))
		}
	case reflect.Slice:
		et := v.Type().Elem()
		if et.Kind() == reflect.Uint8 && et.Name() == "uint8" {
			if tag.Get("countValue") == "" {
				putLE(out, uint64(v.Len()), cwBytes(tag))
			}
			*out = append(*out, v.Bytes()...)
			return
		}
		if !isElement(et) {
			putLE(out, uint64(v.Len()), cwBytes(tag))
		}
		for i := 0; i < v.Len(); i++ {
			refField(v.Index(i), "", out)
		}
	case reflect.Ptr:
		if !v.IsNil() {
			refField(v.Elem(), "", out)
		}
	case reflect.Struct:
		refStruct(v, out)
	default:
		panic("refField kind")
	}
}

func refStruct(v reflect.Value, out *[]byte) []fieldPos {
	var pos []fieldPos
	base := len(*out)
	for i := 0; i < v.NumField(); i++ {
		st := len(*out)
		refField(v.Field(i), v.Type().Field(i).Tag, out)
		pos = append(pos, fieldPos{v.Type().Field(i).Name, st - base, len(*out) - st})
	}
	return pos
}

// ---------- hypotheses of the round trip, evaluated on the Go value ----------

func wmax(w int) uint64 {
	if w >= 8 {
		return ^uint64(0)
	}
	return uint64(1) << (8 * uint(w))
}

// expected length of a countValue blob, from the fields of its struct
func countValueLen(st reflect.Value) (uint64, bool) {
	t := st.Type()
	switch t.PkgPath() + "." + t.Name() {
	case "github.com/linuxboot/fiano/pkg/intel/metadata/cbnt.Key":
		alg, ks := st.FieldByName("KeyAlg").Uint(), st.FieldByName("KeySize").Uint()
		switch alg {
		case 0x1:
			return (ks >> 3) + 4, true
		case 0x23, 0x1b:
			return (ks >> 3) * 2, true
		}
		return 65535, true
	case "github.com/linuxboot/fiano/pkg/intel/metadata/bg.Key":
		alg, ks := st.FieldByName("KeyAlg").Uint(), st.FieldByName("KeySize").Uint()
		if alg == 0x1 {
			return (ks >> 3) + 4, true
		}
		return 65535, true
	case "github.com/linuxboot/fiano/pkg/intel/metadata/cbnt.Signature":
		// an RSA signature is as wide as the key; an ECDSA or SM2 signature is the pair (R, S) of
		// two values as wide as the key (document #575623; this is also what Signature.SetSignature
		// stores and what Signature.SignatureData demands: 64 or 96 bytes for KeySize 256 / 384)
		n := st.FieldByName("KeySize").Uint() >> 3
		switch st.FieldByName("SigScheme").Uint() {
		case 0x18, 0x1b:
			return n * 2, true
		}
		return n, true
	case "github.com/linuxboot/fiano/pkg/intel/metadata/bg.Signature":
		return st.FieldByName("KeySize").Uint() >> 3, true
	case "github.com/linuxboot/fiano/pkg/intel/metadata/bg.HashStructureFill":
		switch st.FieldByName("HashAlg").Uint() {
		case 0x10, 0x0, 0xb:
			return 34, true
		case 0x4:
			return 22, true
		}
		return 2, true
	}
	return 0, false
}

func idOfElement(t reflect.Type) string {
	f, _ := t.FieldByName("StructInfo")
	return f.Tag.Get("id")
}

func wfValue(v reflect.Value, tag reflect.StructTag, parent reflect.Value) bool {
	switch v.Kind() {
	case reflect.Slice:
		et := v.Type().Elem()
		if et.Kind() == reflect.Uint8 && et.Name() == "uint8" {
			if tag.Get("countValue") != "" {
				want, ok := countValueLen(parent)
				if !ok {
					panic("no countValue rule for " + parent.Type().String())
				}
				return uint64(v.Len()) == want
			}
			return uint64(v.Len()) < wmax(cwBytes(tag))
		}
		if !isElement(et) && uint64(v.Len()) >= wmax(cwBytes(tag)) {
			return false
		}
		for i := 0; i < v.Len(); i++ {
			if !wfValue(v.Index(i), "", v) {
				return false
			}
		}
	case reflect.Ptr:
		if !v.IsNil() {
			return wfValue(v.Elem(), "", v)
		}
	case reflect.Struct:
		for i := 0; i < v.NumField(); i++ {
			if !wfValue(v.Field(i), v.Type().Field(i).Tag, v) {
				return false
			}
		}
	}
	return true
}

func isContainer(t reflect.Type) bool {
	for i := 0; i < t.NumField(); i++ {
		ft := t.Field(i).Type
		if ft.Kind() == reflect.Ptr || ft.Kind() == reflect.Slice {
			ft = ft.Elem()
		}
		if isElement(ft) {
			return true
		}
	}
	return false
}

// container: every element carries its own structure ID
func idsOK(v reflect.Value) bool {
	chk := func(e reflect.Value) bool {
		id := e.FieldByName("StructInfo").FieldByName("ID")
		want := idOfElement(e.Type())
		for i := 0; i < 8; i++ {
			if byte(id.Index(i).Uint()) != want[i] {
				return false
			}
		}
		return true
	}
	for i := 0; i < v.NumField(); i++ {
		f := v.Field(i)
		switch f.Kind() {
		case reflect.Struct:
			if !chk(f) {
				return false
			}
		case reflect.Ptr:
			if !f.IsNil() && !chk(f.Elem()) {
				return false
			}
		case reflect.Slice:
			for k := 0; k < f.Len(); k++ {
				if !chk(f.Index(k)) {
					return false
				}
			}
		}
	}
	return true
}

func wfTop(p reflect.Value) bool {
	v := p.Elem()
	if !wfValue(v, "", reflect.Value{}) {
		return false
	}
	if isContainer(v.Type()) {
		return idsOK(v)
	}
	return true
}

// ---------- C operations ----------

func opEnc(args []string) string {
	p := build(args[0], args[1])
	var buf bytes.Buffer
	n, err := p.Interface().(codec).WriteTo(&buf)
	if err != nil {
		return "err"
	}
	return "ok " + I(n) + " " + H(buf.Bytes()) + " " + serStr(p.Interface())
}

func opDec(args []string) string {
	p := reflect.New(typeOf(args[0]))
	b := UnH(args[1])
	rd := bytes.NewReader(b)
	n, err := p.Interface().(codec).ReadFrom(rd)
	if err != nil {
		return "err"
	}
	return "ok " + I(n) + " " + N(uint64(len(b)-rd.Len())) + " " + serStr(p.Interface())
}

func opSize(args []string) string {
	p := build(args[0], args[1])
	return "ok " + N(p.Interface().(codec).TotalSize())
}

func callU64(p reflect.Value, name string) (uint64, bool) {
	m := p.MethodByName(name)
	if !m.IsValid() {
		return 0, false
	}
	return m.Call(nil)[0].Uint(), true
}

func opOffs(args []string) string {
	p := build(args[0], args[1])
	t := p.Elem().Type()
	parts := []string{"ok"}
	for i := 0; i < t.NumField(); i++ {
		o, ok1 := callU64(p, t.Field(i).Name+"Offset")
		s, ok2 := callU64(p, t.Field(i).Name+"TotalSize")
		if !ok1 || !ok2 {
			return "harness-error no accessor for " + t.Field(i).Name
		}
		parts = append(parts, N(o)+":"+N(s))
	}
	return strings.Join(parts, " ")
}

func opWf(args []string) string {
	if wfTop(build(args[0], args[1])) {
		return "ok 1"
	}
	return "ok 0"
}

// ---------- P oracles (implementation only) ----------

func write(p reflect.Value) ([]byte, int64, error) {
	var buf bytes.Buffer
	n, err := p.Interface().(codec).WriteTo(&buf)
	return buf.Bytes(), n, err
}

// write/read/write on a well-formed value
func pRoundTrip(args []string) string {
	name := args[0]
	p := build(name, args[1])
	if !wfTop(p) {
		return "skip"
	}
	trailer := UnH(args[2])
	cont := isContainer(p.Elem().Type())
	if cont {
		trailer = nil
	}
	b1, n1, err := write(p)
	if err != nil {
		return "FAIL write-error " + name
	}
	if n1 != int64(len(b1)) {
		return fmt.Sprintf("FAIL write-count %s returned=%d produced=%d", name, n1, len(b1))
	}
	if p.Interface().(codec).TotalSize() != uint64(len(b1)) {
		return fmt.Sprintf("FAIL totalsize %s TotalSize=%d produced=%d", name, p.Interface().(codec).TotalSize(), len(b1))
	}
	q := reflect.New(p.Elem().Type())
	in := append(append([]byte{}, b1...), trailer...)
	rd := bytes.NewReader(in)
	n2, err := q.Interface().(codec).ReadFrom(rd)
	if err != nil {
		return "FAIL read-error " + name + ": " + strings.ReplaceAll(err.Error(), "\t", " ")
	}
	consumed := len(in) - rd.Len()
	if consumed != len(b1) || n2 != int64(consumed) {
		return fmt.Sprintf("FAIL read-count %s returned=%d consumed=%d written=%d", name, n2, consumed, len(b1))
	}
	if serStr(q.Interface()) != serStr(p.Interface()) {
		return "FAIL value-differs " + name
	}
	if ts := q.Interface().(codec).TotalSize(); ts != uint64(n2) {
		return fmt.Sprintf("FAIL read-totalsize %s returned=%d TotalSize-of-value-read=%d", name, n2, ts)
	}
	// the same through a reader that delivers one byte per Read call (any io.Reader may do that)
	if len(in) <= 70000 {
		q1 := reflect.New(p.Elem().Type())
		n4, err := q1.Interface().(codec).ReadFrom(iotest.OneByteReader(bytes.NewReader(in)))
		if err != nil {
			return "FAIL read-error-bytewise " + name + ": " + strings.ReplaceAll(err.Error(), "\t", " ")
		}
		if n4 != n2 || serStr(q1.Interface()) != serStr(q.Interface()) {
			return fmt.Sprintf("FAIL read-bytewise-differs %s returned=%d (whole input at once: %d)", name, n4, n2)
		}
	}
	b2, n3, err := write(q)
	if err != nil || n3 != int64(len(b2)) {
		return "FAIL rewrite-error " + name
	}
	if !bytes.Equal(b1, b2) {
		return "FAIL rewrite-differs " + name
	}
	return "ok"
}

func checkLayout(p reflect.Value, path string) string {
	v := p.Elem()
	var ref []byte
	pos := refStruct(v, &ref)
	if uint64(len(ref)) != p.Interface().(codec).TotalSize() {
		return fmt.Sprintf("FAIL totalsize %s", path)
	}
	for _, fp := range pos {
		o, ok1 := callU64(p, fp.name+"Offset")
		s, ok2 := callU64(p, fp.name+"TotalSize")
		if !ok1 || !ok2 {
			return "FAIL no-accessor " + path + "." + fp.name
		}
		if o != uint64(fp.off) {
			return fmt.Sprintf("FAIL offset %s.%s accessor=%d position=%d", path, fp.name, o, fp.off)
		}
		if s != uint64(fp.size) {
			return fmt.Sprintf("FAIL fieldsize %s.%s accessor=%d length=%d", path, fp.name, s, fp.size)
		}
	}
	// sub-structures
	for i := 0; i < v.NumField(); i++ {
		f := v.Field(i)
		nm := path + "." + v.Type().Field(i).Name
		switch f.Kind() {
		case reflect.Struct:
			if r := checkLayout(f.Addr(), nm); r != "" {
				return r
			}
		case reflect.Ptr:
			if !f.IsNil() {
				if r := checkLayout(f, nm); r != "" {
					return r
				}
			}
		case reflect.Slice:
			if f.Type().Elem().Kind() == reflect.Struct {
				for k := 0; k < f.Len(); k++ {
					if r := checkLayout(f.Index(k).Addr(), nm); r != "" {
						return r
					}
				}
			}
		}
	}
	return ""
}

func fieldAt(pos []fieldPos, name string) int {
	for _, fp := range pos {
		if fp.name == name {
			return fp.off
		}
	}
	return -1
}

// value of a tag expression of the shapes the declarations use: N | [uintW(][s.]TotalSize()[)] |
// [uintW(][s.]<F>Offset()[)]; evaluated on the reference layout of the structure, never by calling
// the code under test.  Anything else (rehashedBPMH()): no demand.
func evalTag(expr string, refLen int, pos []fieldPos) (uint64, bool) {
	e := strings.TrimSpace(expr)
	if n, err := strconv.ParseUint(e, 0, 64); err == nil {
		return n, true
	}
	conv := uint64(0)
	for _, c := range []struct {
		pre  string
		bits uint
	}{{"uint8(", 8}, {"uint16(", 16}, {"uint32(", 32}, {"uint64(", 64}} {
		if strings.HasPrefix(e, c.pre) && strings.HasSuffix(e, ")") {
			e = e[len(c.pre) : len(e)-1]
			conv = uint64(c.bits)
			break
		}
	}
	e = strings.TrimPrefix(e, "s.")
	var v uint64
	switch {
	case e == "TotalSize()":
		v = uint64(refLen)
	case strings.HasSuffix(e, "Offset()"):
		at := fieldAt(pos, strings.TrimSuffix(e, "Offset()"))
		if at < 0 {
			return 0, false
		}
		v = uint64(at)
	default:
		return 0, false
	}
	// a size or offset that the conversion in the tag would truncate: what a writer should do
	// with a value its field cannot hold (wrap, saturate, refuse) is not something the
	// declaration prescribes -- no demand
	if conv != 0 && conv < 64 && v > uint64(1)<<conv-1 {
		return 0, false
	}
	return v, true
}

// after WriteTo: every field whose tag prescribes its written value (StructInfo: var0 -> Variable0,
// var1 -> ElementSize; rehashValue on an integer field) holds that value, computed here on the
// reference layout of the enclosing structure; demanded only where that value fits the field
func checkStored(v reflect.Value, path string) string {
	t := v.Type()
	var ref []byte
	pos := refStruct(v, &ref)
	demand := func(f reflect.Value, what, expr string) string {
		if expr == "" || !isUint(f.Kind()) {
			return ""
		}
		want, ok := evalTag(expr, len(ref), pos)
		if !ok {
			return ""
		}
		if w := f.Type().Size(); w < 8 && want > uint64(1)<<(8*uint(w))-1 {
			return "" // does not fit the field: no demand (see evalTag)
		}
		if f.Uint() != want {
			return fmt.Sprintf("FAIL stored-value %s.%s written=%d prescribed(%s)=%d", path, what, f.Uint(), expr, want)
		}
		return ""
	}
	for i := 0; i < v.NumField(); i++ {
		f := v.Field(i)
		sf := t.Field(i)
		nm := path + "." + sf.Name
		if sf.Name == "StructInfo" && f.Kind() == reflect.Struct {
			if x := f.FieldByName("Variable0"); x.IsValid() {
				if r := demand(x, "StructInfo.Variable0", sf.Tag.Get("var0")); r != "" {
					return r
				}
			}
			if x := f.FieldByName("ElementSize"); x.IsValid() {
				if r := demand(x, "StructInfo.ElementSize", sf.Tag.Get("var1")); r != "" {
					return r
				}
			}
		}
		if r := demand(f, sf.Name, sf.Tag.Get("rehashValue")); r != "" {
			return r
		}
		switch f.Kind() {
		case reflect.Struct:
			if r := checkStored(f, nm); r != "" {
				return r
			}
		case reflect.Ptr:
			if !f.IsNil() {
				if r := checkStored(f.Elem(), nm); r != "" {
					return r
				}
			}
		case reflect.Slice:
			if f.Type().Elem().Kind() == reflect.Struct {
				for k := 0; k < f.Len(); k++ {
					if r := checkStored(f.Index(k), fmt.Sprintf("%s[%d]", nm, k)); r != "" {
						return r
					}
				}
			}
		}
	}
	return ""
}

// the output of WriteTo is the layout the declaration prescribes; every
// <F>Offset()/<F>TotalSize() is the position/length of F in it; the stored
// signature offsets point at the key-and-signature structure
func pLayout(args []string) string {
	name := args[0]
	p := build(name, args[1])
	if !wfTop(p) {
		return "skip"
	}
	b1, _, err := write(p) // rehashes p
	if err != nil {
		return "FAIL write-error " + name
	}
	var ref []byte
	refStruct(p.Elem(), &ref)
	if !bytes.Equal(ref, b1) {
		return "FAIL layout " + name
	}
	if r := checkLayout(p, name); r != "" {
		return r
	}
	// the same accessors on the value obtained by reading the output
	q := reflect.New(p.Elem().Type())
	if _, err := q.Interface().(codec).ReadFrom(bytes.NewReader(b1)); err == nil && serStr(q.Interface()) == serStr(p.Interface()) {
		if r := checkLayout(q, name+"(read back)"); r != "" {
			return r
		}
	}
	// values the field tags prescribe for the output (var0, var1, rehashValue)
	if r := checkStored(p.Elem(), name); r != "" {
		return r
	}
	readKS := func(off uint64, want interface{}) string {
		if off > uint64(len(b1)) {
			return "FAIL sigoffset-outside " + name
		}
		q := reflect.New(reflect.TypeOf(want).Elem())
		if _, err := q.Interface().(codec).ReadFrom(bytes.NewReader(b1[off:])); err != nil {
			return "FAIL sigoffset-not-a-keysignature " + name
		}
		if serStr(q.Interface()) != serStr(want) {
			return "FAIL sigoffset-wrong-structure " + name
		}
		return ""
	}
	// position of the key-and-signature structure in the reference layout; the stored offset is a
	// uint16, so the clause can only be demanded when that position fits
	switch m := p.Interface().(type) {
	case *cbntkey.Manifest:
		var tmp []byte
		at := fieldAt(refStruct(p.Elem(), &tmp), "KeyAndSignature")
		if at >= 0 && at < 65536 {
			if uint64(m.KeyManifestSignatureOffset) != uint64(at) {
				return fmt.Sprintf("FAIL sigoffset-position %s stored=%d key-and-signature-at=%d", name, m.KeyManifestSignatureOffset, at)
			}
			if uint64(m.KeyManifestSignatureOffset) != m.KeyAndSignatureOffset() {
				return "FAIL sigoffset-accessor " + name
			}
			if r := readKS(uint64(m.KeyManifestSignatureOffset), &m.KeyAndSignature); r != "" {
				return r
			}
		}
	case *cbntbootpolicy.Manifest:
		var tmp []byte
		at := fieldAt(refStruct(p.Elem(), &tmp), "PMSE")
		var tmp2 []byte
		in := fieldAt(refStruct(reflect.ValueOf(&m.PMSE).Elem(), &tmp2), "KeySignature")
		if at >= 0 && in >= 0 && at+in < 65536 {
			if uint64(m.BPMH.KeySignatureOffset) != uint64(at+in) {
				return fmt.Sprintf("FAIL sigoffset-position %s stored=%d key-and-signature-at=%d", name, m.BPMH.KeySignatureOffset, at+in)
			}
			if r := readKS(uint64(m.BPMH.KeySignatureOffset), &m.PMSE.KeySignature); r != "" {
				return r
			}
		}
	}
	return "ok"
}

// ---------- generator ----------

func genUint(r *Rng, bits int) uint64 {
	max := ^uint64(0)
	if bits < 64 {
		max = uint64(1)<<uint(bits) - 1
	}
	switch r.Intn(6) {
	case 0:
		return 0
	case 1:
		return max
	case 2:
		return uint64(r.Intn(256)) & max
	}
	return r.U64() & max
}

// genStrict: values well formed by construction (count values always fixed up, every element with
// its own structure ID, no blob or list beyond its count type); used by the targeted families
var genStrict bool

func genBlobLen(r *Rng, cw int) int {
	if r.Chance(1, 400) && !genStrict {
		if cw == 1 {
			return r.Pick(255, 256)
		}
		return r.Pick(65535, 65536)
	}
	return r.Pick(0, 0, 1, 2, 5, 20, 32, 48, 64, 260)
}

var keySizes = []int{256, 384, 1024, 2048, 3072, 0, 8, 65528, 65535, 2055, 4096}

// algorithm identifiers (TPM_ALG_*) as the manifests use them
var hashAlgs = []int{0x4, 0xb, 0xc, 0xd, 0x12, 0x10}
var hashLens = map[int]int{0x4: 20, 0xb: 32, 0xc: 48, 0xd: 64, 0x12: 32, 0x10: 0}

func fixCountValues(r *Rng, v reflect.Value) {
	t := v.Type()
	full := t.PkgPath() + "." + t.Name()
	setData := func(field string) {
		n, _ := countValueLen(v)
		if n > 70000 {
			n = 0
		}
		v.FieldByName(field).SetBytes(r.Bytes(int(n)))
	}
	switch {
	case strings.HasSuffix(full, "/cbnt.Key"), strings.HasSuffix(full, "/bg.Key"):
		alg := []int{1, 1, 1, 0x23, 0x1b}
		if strings.HasSuffix(full, "/bg.Key") {
			alg = []int{1}
		}
		a := alg[r.Intn(len(alg))]
		if r.Chance(1, 60) && !genStrict {
			a = r.Pick(0, 0x10, 0xffff) // unknown algorithm: 65535 bytes expected
		}
		v.FieldByName("KeyAlg").SetUint(uint64(a))
		ks := keySizes[r.Intn(len(keySizes))]
		if r.Bool() { // a size that goes with the algorithm
			switch a {
			case 1:
				ks = r.Pick(1024, 2048, 3072, 4096)
			case 0x23:
				ks = r.Pick(256, 384)
			case 0x1b:
				ks = 256
			}
		}
		v.FieldByName("KeySize").SetUint(uint64(ks))
		setData("Data")
	case strings.HasSuffix(full, "/cbnt.Signature"), strings.HasSuffix(full, "/bg.Signature"):
		ks := keySizes[r.Intn(len(keySizes))]
		// signature scheme and hash algorithm: the defined identifiers, now and then anything
		scheme := r.Pick(0x14, 0x16, 0x14, 0x16, 0x18, 0x1b)
		if strings.HasSuffix(full, "/bg.Signature") {
			scheme = r.Pick(0x14, 0x16)
		}
		if scheme == 0x18 && r.Chance(3, 4) {
			ks = r.Pick(256, 384)
		}
		if scheme == 0x1b && r.Chance(3, 4) {
			ks = 256
		}
		if !r.Chance(1, 8) {
			v.FieldByName("SigScheme").SetUint(uint64(scheme))
		}
		if !r.Chance(1, 8) {
			v.FieldByName("HashAlg").SetUint(uint64(hashAlgs[r.Intn(len(hashAlgs))]))
		}
		v.FieldByName("KeySize").SetUint(uint64(ks))
		setData("Data")
	case strings.HasSuffix(full, "/cbnt.HashStructure"), strings.HasSuffix(full, "/bg.HashStructure"):
		// half of the digests: a defined hash algorithm with a digest of its length
		if r.Bool() {
			a := hashAlgs[r.Intn(len(hashAlgs))]
			v.FieldByName("HashAlg").SetUint(uint64(a))
			v.FieldByName("HashBuffer").SetBytes(r.Bytes(hashLens[a]))
		}
	case strings.HasSuffix(full, "/bg.HashStructureFill"):
		v.FieldByName("HashAlg").SetUint(uint64(r.Pick(0, 0x10, 0xb, 0xb, 0x4, 0x4, 0xc, 0xffff)))
		setData("HashBuffer")
	}
}

func genValue(r *Rng, v reflect.Value, tag reflect.StructTag, depth int) {
	switch v.Kind() {
	case reflect.Uint8, reflect.Uint16, reflect.Uint32, reflect.Uint64:
		v.SetUint(genUint(r, int(v.Type().Size())*8))
	case reflect.Array:
		for i := 0; i < v.Len(); i++ {
			v.Index(i).SetUint(uint64(r.Intn(256)))
		}
	case reflect.Slice:
		et := v.Type().Elem()
		if et.Kind() == reflect.Uint8 && et.Name() == "uint8" {
			v.SetBytes(r.Bytes(genBlobLen(r, cwBytes(tag))))
			return
		}
		n := r.Pick(0, 1, 1, 2, 3)
		if r.Chance(1, 150) && !isElement(et) && !genStrict {
			if cwBytes(tag) == 1 {
				n = r.Pick(255, 256)
			} else if et.Kind() != reflect.Struct {
				n = r.Pick(65535, 65536)
			}
		}
		s := reflect.MakeSlice(v.Type(), n, n)
		for i := 0; i < n; i++ {
			genValue(r, s.Index(i), "", depth+1)
		}
		v.Set(s)
	case reflect.Ptr:
		if r.Bool() {
			p := reflect.New(v.Type().Elem())
			genValue(r, p.Elem(), "", depth+1)
			v.Set(p)
		}
	case reflect.Struct:
		for i := 0; i < v.NumField(); i++ {
			genValue(r, v.Field(i), v.Type().Field(i).Tag, depth+1)
		}
		if !r.Chance(1, 12) || genStrict {
			fixCountValues(r, v)
		}
		if isElement(v.Type()) && (!r.Chance(1, 25) || genStrict) {
			id := idOfElement(v.Type())
			f := v.FieldByName("StructInfo").FieldByName("ID")
			for i := 0; i < 8 && i < len(id); i++ {
				f.Index(i).SetUint(uint64(id[i]))
			}
		}
	}
}

func mutate(r *Rng, b []byte) []byte {
	b = append([]byte{}, b...)
	switch r.Intn(7) {
	case 0: // truncate
		if len(b) > 0 {
			b = b[:r.Intn(len(b))]
		}
	case 1: // flip one byte
		if len(b) > 0 {
			b[r.Intn(len(b))] ^= byte(1 << uint(r.Intn(8)))
		}
	case 2: // boundary value in a 16-bit window (counts, sizes)
		if len(b) > 1 {
			i := r.Intn(len(b) - 1)
			x := r.Pick(0, 1, 0xffff, len(b)-i, len(b)-i-2, len(b)-i-1)
			b[i], b[i+1] = byte(x), byte(x>>8)
		}
	case 3: // trailing bytes
		b = append(b, r.Bytes(r.Range(1, 20))...)
	case 4: // random bytes
		b = r.Bytes(r.Intn(80))
	case 5: // zero one byte
		if len(b) > 0 {
			b[r.Intn(len(b))] = 0
		}
	case 6: // duplicate the tail (elements out of order / repeated)
		if len(b) > 12 {
			i := r.Intn(len(b) - 12)
			b = append(b, b[i:]...)
		}
	}
	return b
}

// WriteTo inside the generator process: a panic of the code under test must not take the
// generator down (the same value is judged in the worker, where a panic is an observation)
func safeWrite(p reflect.Value) (b []byte, err error) {
	defer func() {
		if x := recover(); x != nil {
			b, err = nil, fmt.Errorf("panic: %v", x)
		}
	}()
	b, _, err = write(p)
	return
}

func strictValue(r *Rng, t reflect.Type) reflect.Value {
	old := genStrict
	genStrict = true
	defer func() { genStrict = old }()
	p := reflect.New(t)
	genValue(r, p.Elem(), "", 0)
	return p
}

// every structure of type <pkg>.KeySignature inside v gets the given algorithm choice
func setAlgs(r *Rng, v reflect.Value, keyAlg, keyBits, scheme, hashAlg int) {
	switch v.Kind() {
	case reflect.Ptr:
		if !v.IsNil() {
			setAlgs(r, v.Elem(), keyAlg, keyBits, scheme, hashAlg)
		}
	case reflect.Slice:
		if v.Type().Elem().Kind() == reflect.Struct {
			for i := 0; i < v.Len(); i++ {
				setAlgs(r, v.Index(i), keyAlg, keyBits, scheme, hashAlg)
			}
		}
	case reflect.Struct:
		if v.Type().Name() == "KeySignature" {
			v.FieldByName("Version").SetUint(0x10)
			k, sg := v.FieldByName("Key"), v.FieldByName("Signature")
			k.FieldByName("KeyAlg").SetUint(uint64(keyAlg))
			k.FieldByName("Version").SetUint(0x10)
			k.FieldByName("KeySize").SetUint(uint64(keyBits))
			n, _ := countValueLen(k)
			k.FieldByName("Data").SetBytes(r.Bytes(int(n)))
			sg.FieldByName("SigScheme").SetUint(uint64(scheme))
			sg.FieldByName("Version").SetUint(0x10)
			sg.FieldByName("KeySize").SetUint(uint64(keyBits))
			sg.FieldByName("HashAlg").SetUint(uint64(hashAlg))
			n, _ = countValueLen(sg)
			sg.FieldByName("Data").SetBytes(r.Bytes(int(n)))
			return
		}
		for i := 0; i < v.NumField(); i++ {
			setAlgs(r, v.Field(i), keyAlg, keyBits, scheme, hashAlg)
		}
	}
}

type algChoice struct{ keyAlg, keyBits, scheme int }

var cbntAlgChoices = []algChoice{
	{1, 1024, 0x14}, {1, 2048, 0x14}, {1, 3072, 0x14}, {1, 4096, 0x14},
	{1, 1024, 0x16}, {1, 2048, 0x16}, {1, 3072, 0x16}, {1, 4096, 0x16},
	{0x23, 256, 0x18}, {0x23, 384, 0x18}, {0x1b, 256, 0x1b},
}
var bgAlgChoices = []algChoice{{1, 1024, 0x14}, {1, 2048, 0x14}, {1, 3072, 0x14}, {1, 2048, 0x16}, {1, 3072, 0x16}}

func regType(name string) reflect.Type { return typeOf(name) }

// a structure of the named type, well formed, whose blob / list <path> has n entries
func sized(r *Rng, name string, n int, path ...string) reflect.Value {
	p := strictValue(r, regType(name))
	v := p.Elem()
	for _, f := range path[:len(path)-1] {
		v = v.FieldByName(f)
		if v.Kind() == reflect.Ptr {
			if v.IsNil() {
				v.Set(strictValue(r, v.Type().Elem()))
			}
			v = v.Elem()
		}
	}
	f := v.FieldByName(path[len(path)-1])
	et := f.Type().Elem()
	if et.Kind() == reflect.Uint8 && et.Name() == "uint8" {
		f.SetBytes(r.Bytes(n))
		return p
	}
	s := reflect.MakeSlice(f.Type(), n, n)
	old := genStrict
	genStrict = true
	for i := 0; i < n; i++ {
		genValue(r, s.Index(i), "", 1)
	}
	genStrict = old
	f.Set(s)
	return p
}

// position of the key-and-signature structure in the reference layout of a CBnT manifest
func ksPosition(p reflect.Value) int {
	var tmp []byte
	switch m := p.Interface().(type) {
	case *cbntkey.Manifest:
		return fieldAt(refStruct(p.Elem(), &tmp), "KeyAndSignature")
	case *cbntbootpolicy.Manifest:
		at := fieldAt(refStruct(p.Elem(), &tmp), "PMSE")
		var tmp2 []byte
		return at + fieldAt(refStruct(reflect.ValueOf(&m.PMSE).Elem(), &tmp2), "KeySignature")
	}
	return -1
}

// the targeted families: implementation-side oracles only (the values are well formed by construction)
func genFamilies(r *Rng, tier string, emit Emit) {
	emitP := func(name string, p reflect.Value, rr *Rng) {
		desc := serStr(p.Interface())
		emit("P", "p_roundtrip", name, desc, H(rr.Bytes(rr.Pick(0, 1, 7, 30))))
		emit("P", "p_layout", name, desc)
	}
	reps := 1
	if tier == "thorough" {
		reps = 12
	}
	// (a) containers: every combination of the optional elements x 0 / 1 / 2 list elements
	for rep := 0; rep < reps; rep++ {
		for ci, name := range []string{"cbnt_cbntbootpolicy_Manifest", "bg_bgbootpolicy_Manifest"} {
			t := regType(name)
			var opt, lists []int
			for i := 0; i < t.NumField(); i++ {
				switch t.Field(i).Type.Kind() {
				case reflect.Ptr:
					opt = append(opt, i)
				case reflect.Slice:
					lists = append(lists, i)
				}
			}
			for mask := 0; mask < 1<<uint(len(opt)); mask++ {
				for n := 0; n <= 2; n++ {
					rr := r.Fork(uint64(0xA000000 + rep*100000 + ci*10000 + mask*10 + n))
					p := strictValue(rr, t)
					for k, i := range opt {
						f := p.Elem().Field(i)
						if mask>>uint(k)&1 == 1 {
							f.Set(strictValue(rr, f.Type().Elem()))
						} else {
							f.Set(reflect.Zero(f.Type()))
						}
					}
					for _, i := range lists {
						f := p.Elem().Field(i)
						s := reflect.MakeSlice(f.Type(), n, n)
						for k := 0; k < n; k++ {
							s.Index(k).Set(strictValue(rr, f.Type().Elem()).Elem())
						}
						f.Set(s)
					}
					emitP(name, p, rr)
				}
			}
		}
	}
	// (d) the element dispatch loop of the containers (order, multiplicity, missing and unknown
	// elements): the written manifest cut into its elements along the reference layout, then one
	// element repeated in place / two neighbours swapped / one dropped / an unknown header
	// inserted / an element appended again; judged by the correspondence with the model
	for rep := 0; rep < reps; rep++ {
		for ci, name := range []string{"cbnt_cbntbootpolicy_Manifest", "bg_bgbootpolicy_Manifest"} {
			rr := r.Fork(uint64(0xD000000 + rep*100 + ci))
			p := strictValue(rr, regType(name))
			if rep%2 == 0 { // every element present, two list elements
				for i := 0; i < p.Elem().NumField(); i++ {
					f := p.Elem().Field(i)
					switch f.Kind() {
					case reflect.Ptr:
						if f.IsNil() {
							f.Set(strictValue(rr, f.Type().Elem()))
						}
					case reflect.Slice:
						sl := reflect.MakeSlice(f.Type(), 2, 2)
						for k := 0; k < 2; k++ {
							sl.Index(k).Set(strictValue(rr, f.Type().Elem()).Elem())
						}
						f.Set(sl)
					}
				}
			}
			setAlgs(rr, p.Elem(), 1, 1024, 0x14, 0xb) // a small key-and-signature structure
			b, err := safeWrite(p)
			if err != nil {
				continue
			}
			var ref []byte
			pos := refStruct(p.Elem(), &ref)
			if !bytes.Equal(ref, b) || len(b) > 6000 {
				continue
			}
			var chunks [][]byte
			for i, fp := range pos {
				f := p.Elem().Field(i)
				if f.Kind() == reflect.Slice {
					off := fp.off
					for k := 0; k < f.Len(); k++ {
						var tmp []byte
						refStruct(f.Index(k), &tmp)
						chunks = append(chunks, b[off:off+len(tmp)])
						off += len(tmp)
					}
				} else if fp.size > 0 {
					chunks = append(chunks, b[fp.off:fp.off+fp.size])
				}
			}
			join := func(cs ...[]byte) []byte {
				var out []byte
				for _, c := range cs {
					out = append(out, c...)
				}
				return out
			}
			seq := func(idx ...int) []byte {
				var out []byte
				for _, i := range idx {
					out = append(out, chunks[i]...)
				}
				return out
			}
			n := len(chunks)
			all := make([]int, n)
			for i := range all {
				all[i] = i
			}
			emit("C", "dec", name, H(seq(all...)))
			for k := 0; k < n; k++ {
				dup := append(append(append([]int{}, all[:k+1]...), k), all[k+1:]...)
				emit("C", "dec", name, H(seq(dup...)))
				drop := append(append([]int{}, all[:k]...), all[k+1:]...)
				emit("C", "dec", name, H(seq(drop...)))
				again := append(append([]int{}, all...), k)
				emit("C", "dec", name, H(seq(again...)))
				if k+1 < n {
					sw := append([]int{}, all...)
					sw[k], sw[k+1] = sw[k+1], sw[k]
					emit("C", "dec", name, H(seq(sw...)))
				}
				unk := append([]byte("__XYZW__"[:8]), rr.Bytes(4)...)
				emit("C", "dec", name, H(join(seq(all[:k]...), unk, seq(all[k:]...))))
			}
			emit("C", "dec", name, H(join(seq(all...), append([]byte("__XYZW__"[:8]), rr.Bytes(4)...))))
		}
	}
	// (b) key algorithm x key size x signature scheme x hash algorithm, in every structure that
	// holds a key-and-signature structure
	for rep := 0; rep < reps; rep++ {
		for fi, fam := range []struct {
			names   []string
			choices []algChoice
		}{
			{[]string{"cbnt_KeySignature", "cbnt_cbntbootpolicy_Signature", "cbnt_cbntkey_Manifest", "cbnt_cbntbootpolicy_Manifest"}, cbntAlgChoices},
			{[]string{"bg_KeySignature", "bg_bgbootpolicy_Signature", "bg_bgkey_Manifest", "bg_bgbootpolicy_Manifest"}, bgAlgChoices},
		} {
			for ni, name := range fam.names {
				for ai, a := range fam.choices {
					rr := r.Fork(uint64(0xB000000 + rep*100000 + fi*10000 + ni*1000 + ai))
					p := strictValue(rr, regType(name))
					h := hashAlgs[(ai+ni+rep)%5]
					if fi == 1 {
						h = []int{0x4, 0xb}[(ai+ni+rep)%2]
					}
					setAlgs(rr, p.Elem(), a.keyAlg, a.keyBits, a.scheme, h)
					emitP(name, p, rr)
				}
			}
		}
	}
	// (c) sizes and counts at the limits of their 8- and 16-bit count / size / offset fields
	type bcase struct {
		name string
		n    int
		path []string
	}
	var bc []bcase
	add := func(name string, path []string, ns ...int) {
		for _, n := range ns {
			bc = append(bc, bcase{name, n, path})
		}
	}
	// element size fields: header 12 + reserved 2 + size prefix 2 + data
	add("cbnt_cbntbootpolicy_PM", []string{"Data"}, 65519, 65520, 65535)
	add("cbnt_cbntbootpolicy_PCD", []string{"Data"}, 65519, 65520)
	add("bg_bgbootpolicy_PM", []string{"Data"}, 65535)
	add("cbnt_HashStructure", []string{"HashBuffer"}, 255, 256, 65535)
	add("bg_HashStructure", []string{"HashBuffer"}, 65535)
	add("cbnt_HashList", []string{"List"}, 255, 256, 300)
	add("cbnt_cbntbootpolicy_SE", []string{"IBBSegments"}, 254, 255)
	add("bg_bgbootpolicy_SE", []string{"IBBSegments"}, 255)
	add("cbnt_TPMInfoList", []string{"Algorithms"}, 255, 256, 65535)
	add("cbnt_cbntkey_Manifest", []string{"Hash"}, 255, 256)
	add("cbnt_cbntbootpolicy_SE", []string{"DigestList", "List"}, 256)
	add("cbnt_cbntbootpolicy_TXT", []string{"DigestList", "List"}, 256)
	if tier == "thorough" {
		for k := 0; k < 60; k++ {
			rr := r.Fork(uint64(0xC800000 + k))
			add("cbnt_cbntbootpolicy_PM", []string{"Data"}, 65535-rr.Intn(40))
			add("cbnt_cbntbootpolicy_PCD", []string{"Data"}, 65535-rr.Intn(40))
			add("cbnt_HashStructure", []string{"HashBuffer"}, rr.Pick(254, 255, 256, 257, 65534, 65535))
			add("cbnt_TPMInfoList", []string{"Algorithms"}, rr.Pick(254, 257, 32767, 32768, 65534))
			add("cbnt_cbntbootpolicy_SE", []string{"IBBSegments"}, rr.Pick(127, 128, 253, 255))
		}
	}
	for k, c := range bc {
		rr := r.Fork(uint64(0xC000000 + k))
		emitP(c.name, sized(rr, c.name, c.n, c.path...), rr)
	}
	// a hash list whose size field wraps (two digests of 40000 bytes)
	{
		rr := r.Fork(0xC100000)
		p := sized(rr, "cbnt_HashList", 2, "List")
		l := p.Elem().FieldByName("List")
		for i := 0; i < 2; i++ {
			l.Index(i).FieldByName("HashBuffer").SetBytes(rr.Bytes(40000))
		}
		emitP("cbnt_HashList", p, rr)
	}
	// stored signature offsets just below, at and above the largest value a uint16 holds:
	// the manifest is padded (KM: one digest; BPM: the platform manufacturer data) so that the
	// key-and-signature structure lands on the wanted position
	targets := []int{65535, 65536, 65534, 65537}
	if tier == "thorough" {
		for k := 0; k < 40; k++ {
			targets = append(targets, 65536-20+k)
		}
	}
	for k, target := range targets {
		for ni, name := range []string{"cbnt_cbntkey_Manifest", "cbnt_cbntbootpolicy_Manifest"} {
			rr := r.Fork(uint64(0xC200000 + k*10 + ni))
			var p reflect.Value
			var pad reflect.Value
			if ni == 0 {
				p = sized(rr, name, 1, "Hash")
				pad = p.Elem().FieldByName("Hash").Index(0).FieldByName("Digest").FieldByName("HashBuffer")
			} else {
				p = sized(rr, name, 0, "PME", "Data")
				// keep the other elements small
				p.Elem().FieldByName("SE").Set(reflect.Zero(p.Elem().FieldByName("SE").Type()))
				p.Elem().FieldByName("PCDE").Set(reflect.Zero(p.Elem().FieldByName("PCDE").Type()))
				pad = p.Elem().FieldByName("PME").Elem().FieldByName("Data")
			}
			pad.SetBytes(nil)
			at := ksPosition(p)
			if at < 0 || target-at < 0 || target-at > 65535 {
				continue
			}
			pad.SetBytes(rr.Bytes(target - at))
			if ksPosition(p) != target {
				continue
			}
			emitP(name, p, rr)
		}
	}
}

func gen(r *Rng, tier string, emit Emit) {
	rounds := 9
	if tier == "thorough" {
		rounds = 250
	}
	for it := 0; it < rounds; it++ {
		for ti, e := range registry {
			rr := r.Fork(uint64(it*100 + ti))
			p := reflect.New(reflect.TypeOf(e.zero))
			genValue(rr, p.Elem(), "", 0)
			desc := serStr(p.Interface())
			emit("C", "wf", e.name, desc)
			emit("P", "p_roundtrip", e.name, desc, H(rr.Bytes(rr.Pick(0, 1, 7, 30))))
			emit("P", "p_layout", e.name, desc)
			emit("C", "enc", e.name, desc)
			emit("C", "size", e.name, desc)
			emit("C", "offs", e.name, desc)
			b, err := safeWrite(p)
			if err != nil {
				continue
			}
			if len(b) > 20000 && !rr.Chance(1, 4) {
				continue // keep the huge ones rare in the decode stream
			}
			emit("C", "dec", e.name, H(append(append([]byte{}, b...), rr.Bytes(rr.Pick(0, 0, 3, 11, 12, 40))...)))
			emit("C", "dec", e.name, H(mutate(rr, b)))
			emit("C", "dec", e.name, H(mutate(rr, b)))
		}
	}
	genFamilies(r.Fork(0xC15A), tier, emit)
}

var _ = binary.LittleEndian
var _ = strconv.Itoa

func main() {
	Register("enc", opEnc)
	Register("dec", opDec)
	Register("size", opSize)
	Register("offs", opOffs)
	Register("wf", opWf)
	Register("p_roundtrip", pRoundTrip)
	Register("p_layout", pLayout)
	Main(gen)
}
