// c15: executor and generator for property C15 (Boot Guard / CBnT manifests).
//
// Values travel as a flat description that follows the declaration order of the
// Go struct (the same order as the schema the translator extracts): integers in
// hex, byte arrays / blobs as hex strings ("-" = empty), lists as a count
// followed by the items, optional (pointer) elements as 0 / 1 + element.
package main

import (
	"bytes"
	"encoding/binary"
	"fmt"
	"io"
	"reflect"
	"strconv"
	"strings"

	"github.com/linuxboot/fiano/pkg/intel/metadata/bg"
	"github.com/linuxboot/fiano/pkg/intel/metadata/bg/bgbootpolicy"
	"github.com/linuxboot/fiano/pkg/intel/metadata/bg/bgkey"
	"github.com/linuxboot/fiano/pkg/intel/metadata/cbnt"
	"github.com/linuxboot/fiano/pkg/intel/metadata/cbnt/cbntbootpolicy"
	"github.com/linuxboot/fiano/pkg/intel/metadata/cbnt/cbntkey"
	. "verifharness/common"
)

type codec interface {
	ReadFrom(io.Reader) (int64, error)
	WriteTo(io.Writer) (int64, error)
	TotalSize() uint64
}

// the 33 structures with a generated codec; names as the translator derives them
var registry = []struct {
	name string
	zero interface{}
}{
	{"bg_HashStructure", bg.HashStructure{}},
	{"bg_HashStructureFill", bg.HashStructureFill{}},
	{"bg_Key", bg.Key{}},
	{"bg_Signature", bg.Signature{}},
	{"bg_KeySignature", bg.KeySignature{}},
	{"bg_StructInfo", bg.StructInfo{}},
	{"bg_bgbootpolicy_BPMH", bgbootpolicy.BPMH{}},
	{"bg_bgbootpolicy_IBBSegment", bgbootpolicy.IBBSegment{}},
	{"bg_bgbootpolicy_SE", bgbootpolicy.SE{}},
	{"bg_bgbootpolicy_PM", bgbootpolicy.PM{}},
	{"bg_bgbootpolicy_Signature", bgbootpolicy.Signature{}},
	{"bg_bgbootpolicy_Manifest", bgbootpolicy.Manifest{}},
	{"bg_bgkey_Manifest", bgkey.Manifest{}},
	{"cbnt_ChipsetACModuleInformation", cbnt.ChipsetACModuleInformation{}},
	{"cbnt_ChipsetACModuleInformationV5", cbnt.ChipsetACModuleInformationV5{}},
	{"cbnt_HashStructure", cbnt.HashStructure{}},
	{"cbnt_HashList", cbnt.HashList{}},
	{"cbnt_Key", cbnt.Key{}},
	{"cbnt_Signature", cbnt.Signature{}},
	{"cbnt_KeySignature", cbnt.KeySignature{}},
	{"cbnt_StructInfo", cbnt.StructInfo{}},
	{"cbnt_TPMInfoList", cbnt.TPMInfoList{}},
	{"cbnt_cbntbootpolicy_BPMH", cbntbootpolicy.BPMH{}},
	{"cbnt_cbntbootpolicy_IBBSegment", cbntbootpolicy.IBBSegment{}},
	{"cbnt_cbntbootpolicy_SE", cbntbootpolicy.SE{}},
	{"cbnt_cbntbootpolicy_TXT", cbntbootpolicy.TXT{}},
	{"cbnt_cbntbootpolicy_Reserved", cbntbootpolicy.Reserved{}},
	{"cbnt_cbntbootpolicy_PCD", cbntbootpolicy.PCD{}},
	{"cbnt_cbntbootpolicy_PM", cbntbootpolicy.PM{}},
	{"cbnt_cbntbootpolicy_Signature", cbntbootpolicy.Signature{}},
	{"cbnt_cbntbootpolicy_Manifest", cbntbootpolicy.Manifest{}},
	{"cbnt_cbntkey_Hash", cbntkey.Hash{}},
	{"cbnt_cbntkey_Manifest", cbntkey.Manifest{}},
}

func typeOf(name string) reflect.Type {
	for _, e := range registry {
		if e.name == name {
			return reflect.TypeOf(e.zero)
		}
	}
	panic("unknown structure " + name)
}

func isUint(k reflect.Kind) bool {
	return k == reflect.Uint8 || k == reflect.Uint16 || k == reflect.Uint32 || k == reflect.Uint64
}

// an element is a struct with a field named StructInfo
func isElement(t reflect.Type) bool {
	if t.Kind() != reflect.Struct {
		return false
	}
	_, ok := t.FieldByName("StructInfo")
	return ok && t.Name() != "StructInfo"
}

// ---------- value <-> description ----------

func ser(v reflect.Value, out *[]string) {
	switch v.Kind() {
	case reflect.Uint8, reflect.Uint16, reflect.Uint32, reflect.Uint64:
		*out = append(*out, N(v.Uint()))
	case reflect.Array:
		b := make([]byte, v.Len())
		for i := range b {
			b[i] = byte(v.Index(i).Uint())
		}
		*out = append(*out, H(b))
	case reflect.Slice:
		if v.Type().Elem().Kind() == reflect.Uint8 && v.Type().Elem().Name() == "uint8" {
			*out = append(*out, H(v.Bytes()))
			return
		}
		*out = append(*out, N(uint64(v.Len())))
		for i := 0; i < v.Len(); i++ {
			ser(v.Index(i), out)
		}
	case reflect.Ptr:
		if v.IsNil() {
			*out = append(*out, "0")
		} else {
			*out = append(*out, "1")
			ser(v.Elem(), out)
		}
	case reflect.Struct:
		for i := 0; i < v.NumField(); i++ {
			ser(v.Field(i), out)
		}
	default:
		panic("ser: unsupported kind " + v.Kind().String())
	}
}

func serStr(p interface{}) string {
	var out []string
	ser(reflect.ValueOf(p).Elem(), &out)
	return strings.Join(out, " ")
}

func deser(v reflect.Value, toks *[]string) {
	next := func() string {
		if len(*toks) == 0 {
			panic("value description too short")
		}
		t := (*toks)[0]
		*toks = (*toks)[1:]
		return t
	}
	switch v.Kind() {
	case reflect.Uint8, reflect.Uint16, reflect.Uint32, reflect.Uint64:
		v.SetUint(UnN(next()))
	case reflect.Array:
		b := UnH(next())
		for i := 0; i < v.Len() && i < len(b); i++ {
			v.Index(i).SetUint(uint64(b[i]))
		}
	case reflect.Slice:
		if v.Type().Elem().Kind() == reflect.Uint8 && v.Type().Elem().Name() == "uint8" {
			v.SetBytes(UnH(next()))
			return
		}
		n := int(UnN(next()))
		s := reflect.MakeSlice(v.Type(), n, n)
		for i := 0; i < n; i++ {
			deser(s.Index(i), toks)
		}
		v.Set(s)
	case reflect.Ptr:
		if next() == "0" {
			return
		}
		p := reflect.New(v.Type().Elem())
		deser(p.Elem(), toks)
		v.Set(p)
	case reflect.Struct:
		for i := 0; i < v.NumField(); i++ {
			deser(v.Field(i), toks)
		}
	default:
		panic("deser: unsupported kind")
	}
}

func build(name, desc string) reflect.Value {
	p := reflect.New(typeOf(name))
	toks := strings.Fields(desc)
	deser(p.Elem(), &toks)
	if len(toks) != 0 {
		panic("value description too long")
	}
	return p
}

// ---------- reference encoder driven by the declarations and tags ----------

func cwBytes(tag reflect.StructTag) int {
	switch tag.Get("countType") {
	case "", "uint16":
		return 2
	case "uint8":
		return 1
	case "uint32":
		return 4
	case "uint64":
		return 8
	}
	panic("countType")
}

func putLE(out *[]byte, v uint64, w int) {
	for i := 0; i < w; i++ {
		*out = append(*out, byte(v>>(8*uint(i))))
	}
}

type fieldPos struct {
	name      string
	off, size int
}

func refField(v reflect.Value, tag reflect.StructTag, out *[]byte) {
	switch v.Kind() {
	case reflect.Uint8, reflect.Uint16, reflect.Uint32, reflect.Uint64:
		putLE(out, v.Uint(), int(v.Type().Size()))
	case reflect.Array:
		for i := 0; i < v.Len(); i++ {
			*out = append(*out, byte(v.Index(i).Uint()))
		}
	case reflect.Slice:
		et := v.Type().Elem()
		if et.Kind() == reflect.Uint8 && et.Name() == "uint8" {
			if tag.Get("countValue") == "" {
				putLE(out, uint64(v.Len()), cwBytes(tag))
			}
			*out = append(*out, v.Bytes()...)
			return
		}
		if !isElement(et) {
			putLE(out, uint64(v.Len()), cwBytes(tag))
		}
		for i := 0; i < v.Len(); i++ {
			refField(v.Index(i), "", out)
		}
	case reflect.Ptr:
		if !v.IsNil() {
			refField(v.Elem(), "", out)
		}
	case reflect.Struct:
		refStruct(v, out)
	default:
		panic("refField kind")
	}
}

func refStruct(v reflect.Value, out *[]byte) []fieldPos {
	var pos []fieldPos
	base := len(*out)
	for i := 0; i < v.NumField(); i++ {
		st := len(*out)
		refField(v.Field(i), v.Type().Field(i).Tag, out)
		pos = append(pos, fieldPos{v.Type().Field(i).Name, st - base, len(*out) - st})
	}
	return pos
}

// ---------- hypotheses of the round trip, evaluated on the Go value ----------

func wmax(w int) uint64 {
	if w >= 8 {
		return ^uint64(0)
	}
	return uint64(1) << (8 * uint(w))
}

// expected length of a countValue blob, from the fields of its struct
func countValueLen(st reflect.Value) (uint64, bool) {
	t := st.Type()
	switch t.PkgPath() + "." + t.Name() {
	case "github.com/linuxboot/fiano/pkg/intel/metadata/cbnt.Key":
		alg, ks := st.FieldByName("KeyAlg").Uint(), st.FieldByName("KeySize").Uint()
		switch alg {
		case 0x1:
			return (ks >> 3) + 4, true
		case 0x23, 0x1b:
			return (ks >> 3) * 2, true
		}
		return 65535, true
	case "github.com/linuxboot/fiano/pkg/intel/metadata/bg.Key":
		alg, ks := st.FieldByName("KeyAlg").Uint(), st.FieldByName("KeySize").Uint()
		if alg == 0x1 {
			return (ks >> 3) + 4, true
		}
		return 65535, true
	case "github.com/linuxboot/fiano/pkg/intel/metadata/cbnt.Signature", "github.com/linuxboot/fiano/pkg/intel/metadata/bg.Signature":
		return st.FieldByName("KeySize").Uint() >> 3, true
	case "github.com/linuxboot/fiano/pkg/intel/metadata/bg.HashStructureFill":
		switch st.FieldByName("HashAlg").Uint() {
		case 0x10, 0x0, 0xb:
			return 34, true
		case 0x4:
			return 22, true
		}
		return 2, true
	}
	return 0, false
}

func idOfElement(t reflect.Type) string {
	f, _ := t.FieldByName("StructInfo")
	return f.Tag.Get("id")
}

func wfValue(v reflect.Value, tag reflect.StructTag, parent reflect.Value) bool {
	switch v.Kind() {
	case reflect.Slice:
		et := v.Type().Elem()
		if et.Kind() == reflect.Uint8 && et.Name() == "uint8" {
			if tag.Get("countValue") != "" {
				want, ok := countValueLen(parent)
				if !ok {
					panic("no countValue rule for " + parent.Type().String())
				}
				return uint64(v.Len()) == want
			}
			return uint64(v.Len()) < wmax(cwBytes(tag))
		}
		if !isElement(et) && uint64(v.Len()) >= wmax(cwBytes(tag)) {
			return false
		}
		for i := 0; i < v.Len(); i++ {
			if !wfValue(v.Index(i), "", v) {
				return false
			}
		}
	case reflect.Ptr:
		if !v.IsNil() {
			return wfValue(v.Elem(), "", v)
		}
	case reflect.Struct:
		for i := 0; i < v.NumField(); i++ {
			if !wfValue(v.Field(i), v.Type().Field(i).Tag, v) {
				return false
			}
		}
	}
	return true
}

func isContainer(t reflect.Type) bool {
	for i := 0; i < t.NumField(); i++ {
		ft := t.Field(i).Type
		if ft.Kind() == reflect.Ptr || ft.Kind() == reflect.Slice {
			ft = ft.Elem()
		}
		if isElement(ft) {
			return true
		}
	}
	return false
}

// container: every element carries its own structure ID
func idsOK(v reflect.Value) bool {
	chk := func(e reflect.Value) bool {
		id := e.FieldByName("StructInfo").FieldByName("ID")
		want := idOfElement(e.Type())
		for i := 0; i < 8; i++ {
			if byte(id.Index(i).Uint()) != want[i] {
				return false
			}
		}
		return true
	}
	for i := 0; i < v.NumField(); i++ {
		f := v.Field(i)
		switch f.Kind() {
		case reflect.Struct:
			if !chk(f) {
				return false
			}
		case reflect.Ptr:
			if !f.IsNil() && !chk(f.Elem()) {
				return false
			}
		case reflect.Slice:
			for k := 0; k < f.Len(); k++ {
				if !chk(f.Index(k)) {
					return false
				}
			}
		}
	}
	return true
}

func wfTop(p reflect.Value) bool {
	v := p.Elem()
	if !wfValue(v, "", reflect.Value{}) {
		return false
	}
	if isContainer(v.Type()) {
		return idsOK(v)
	}
	return true
}

// ---------- C operations ----------

func opEnc(args []string) string {
	p := build(args[0], args[1])
	var buf bytes.Buffer
	n, err := p.Interface().(codec).WriteTo(&buf)
	if err != nil {
		return "err"
	}
	return "ok " + I(n) + " " + H(buf.Bytes()) + " " + serStr(p.Interface())
}

func opDec(args []string) string {
	p := reflect.New(typeOf(args[0]))
	b := UnH(args[1])
	rd := bytes.NewReader(b)
	n, err := p.Interface().(codec).ReadFrom(rd)
	if err != nil {
		return "err"
	}
	return "ok " + I(n) + " " + N(uint64(len(b)-rd.Len())) + " " + serStr(p.Interface())
}

func opSize(args []string) string {
	p := build(args[0], args[1])
	return "ok " + N(p.Interface().(codec).TotalSize())
}

func callU64(p reflect.Value, name string) (uint64, bool) {
	m := p.MethodByName(name)
	if !m.IsValid() {
		return 0, false
	}
	return m.Call(nil)[0].Uint(), true
}

func opOffs(args []string) string {
	p := build(args[0], args[1])
	t := p.Elem().Type()
	parts := []string{"ok"}
	for i := 0; i < t.NumField(); i++ {
		o, ok1 := callU64(p, t.Field(i).Name+"Offset")
		s, ok2 := callU64(p, t.Field(i).Name+"TotalSize")
		if !ok1 || !ok2 {
			return "harness-error no accessor for " + t.Field(i).Name
		}
		parts = append(parts, N(o)+":"+N(s))
	}
	return strings.Join(parts, " ")
}

func opWf(args []string) string {
	if wfTop(build(args[0], args[1])) {
		return "ok 1"
	}
	return "ok 0"
}

// ---------- P oracles (implementation only) ----------

func write(p reflect.Value) ([]byte, int64, error) {
	var buf bytes.Buffer
	n, err := p.Interface().(codec).WriteTo(&buf)
	return buf.Bytes(), n, err
}

// write/read/write on a well-formed value
func pRoundTrip(args []string) string {
	name := args[0]
	p := build(name, args[1])
	if !wfTop(p) {
		return "skip"
	}
	trailer := UnH(args[2])
	cont := isContainer(p.Elem().Type())
	if cont {
		trailer = nil
	}
	b1, n1, err := write(p)
	if err != nil {
		return "FAIL write-error " + name
	}
	if n1 != int64(len(b1)) {
		return fmt.Sprintf("FAIL write-count %s returned=%d produced=%d", name, n1, len(b1))
	}
	if p.Interface().(codec).TotalSize() != uint64(len(b1)) {
		return fmt.Sprintf("FAIL totalsize %s TotalSize=%d produced=%d", name, p.Interface().(codec).TotalSize(), len(b1))
	}
	q := reflect.New(p.Elem().Type())
	in := append(append([]byte{}, b1...), trailer...)
	rd := bytes.NewReader(in)
	n2, err := q.Interface().(codec).ReadFrom(rd)
	if err != nil {
		return "FAIL read-error " + name + ": " + strings.ReplaceAll(err.Error(), "\t", " ")
	}
	consumed := len(in) - rd.Len()
	if consumed != len(b1) || n2 != int64(consumed) {
		return fmt.Sprintf("FAIL read-count %s returned=%d consumed=%d written=%d", name, n2, consumed, len(b1))
	}
	if serStr(q.Interface()) != serStr(p.Interface()) {
		return "FAIL value-differs " + name
	}
	b2, n3, err := write(q)
	if err != nil || n3 != int64(len(b2)) {
		return "FAIL rewrite-error " + name
	}
	if !bytes.Equal(b1, b2) {
		return "FAIL rewrite-differs " + name
	}
	return "ok"
}

func checkLayout(p reflect.Value, path string) string {
	v := p.Elem()
	var ref []byte
	pos := refStruct(v, &ref)
	if uint64(len(ref)) != p.Interface().(codec).TotalSize() {
		return fmt.Sprintf("FAIL totalsize %s", path)
	}
	for _, fp := range pos {
		o, ok1 := callU64(p, fp.name+"Offset")
		s, ok2 := callU64(p, fp.name+"TotalSize")
		if !ok1 || !ok2 {
			return "FAIL no-accessor " + path + "." + fp.name
		}
		if o != uint64(fp.off) {
			return fmt.Sprintf("FAIL offset %s.%s accessor=%d position=%d", path, fp.name, o, fp.off)
		}
		if s != uint64(fp.size) {
			return fmt.Sprintf("FAIL fieldsize %s.%s accessor=%d length=%d", path, fp.name, s, fp.size)
		}
	}
	// sub-structures
	for i := 0; i < v.NumField(); i++ {
		f := v.Field(i)
		nm := path + "." + v.Type().Field(i).Name
		switch f.Kind() {
		case reflect.Struct:
			if r := checkLayout(f.Addr(), nm); r != "" {
				return r
			}
		case reflect.Ptr:
			if !f.IsNil() {
				if r := checkLayout(f, nm); r != "" {
					return r
				}
			}
		case reflect.Slice:
			if f.Type().Elem().Kind() == reflect.Struct {
				for k := 0; k < f.Len(); k++ {
					if r := checkLayout(f.Index(k).Addr(), nm); r != "" {
						return r
					}
				}
			}
		}
	}
	return ""
}

// the output of WriteTo is the layout the declaration prescribes; every
// <F>Offset()/<F>TotalSize() is the position/length of F in it; the stored
// signature offsets point at the key-and-signature structure
func pLayout(args []string) string {
	name := args[0]
	p := build(name, args[1])
	if !wfTop(p) {
		return "skip"
	}
	b1, _, err := write(p) // rehashes p
	if err != nil {
		return "FAIL write-error " + name
	}
	var ref []byte
	refStruct(p.Elem(), &ref)
	if !bytes.Equal(ref, b1) {
		return "FAIL layout " + name
	}
	if r := checkLayout(p, name); r != "" {
		return r
	}
	readKS := func(off uint64, want interface{}) string {
		if off > uint64(len(b1)) {
			return "FAIL sigoffset-outside " + name
		}
		q := reflect.New(reflect.TypeOf(want).Elem())
		if _, err := q.Interface().(codec).ReadFrom(bytes.NewReader(b1[off:])); err != nil {
			return "FAIL sigoffset-not-a-keysignature " + name
		}
		if serStr(q.Interface()) != serStr(want) {
			return "FAIL sigoffset-wrong-structure " + name
		}
		return ""
	}
	switch m := p.Interface().(type) {
	case *cbntkey.Manifest:
		if len(b1) < 65536 {
			if uint64(m.KeyManifestSignatureOffset) != m.KeyAndSignatureOffset() {
				return "FAIL sigoffset-accessor " + name
			}
			if r := readKS(uint64(m.KeyManifestSignatureOffset), &m.KeyAndSignature); r != "" {
				return r
			}
		}
	case *cbntbootpolicy.Manifest:
		if len(b1) < 65536 {
			if r := readKS(uint64(m.BPMH.KeySignatureOffset), &m.PMSE.KeySignature); r != "" {
				return r
			}
		}
	}
	return "ok"
}

// ---------- generator ----------

func genUint(r *Rng, bits int) uint64 {
	max := ^uint64(0)
	if bits < 64 {
		max = uint64(1)<<uint(bits) - 1
	}
	switch r.Intn(6) {
	case 0:
		return 0
	case 1:
		return max
	case 2:
		return uint64(r.Intn(256)) & max
	}
	return r.U64() & max
}

func genBlobLen(r *Rng, cw int) int {
	if r.Chance(1, 400) {
		if cw == 1 {
			return r.Pick(255, 256)
		}
		return r.Pick(65535, 65536)
	}
	return r.Pick(0, 0, 1, 2, 5, 20, 32, 48, 64, 260)
}

var keySizes = []int{256, 384, 1024, 2048, 3072, 0, 8, 65528, 65535, 2055}

func fixCountValues(r *Rng, v reflect.Value) {
	t := v.Type()
	full := t.PkgPath() + "." + t.Name()
	setData := func(field string) {
		n, _ := countValueLen(v)
		if n > 70000 {
			n = 0
		}
		v.FieldByName(field).SetBytes(r.Bytes(int(n)))
	}
	switch {
	case strings.HasSuffix(full, "/cbnt.Key"), strings.HasSuffix(full, "/bg.Key"):
		alg := []int{1, 1, 1, 0x23, 0x1b}
		if strings.HasSuffix(full, "/bg.Key") {
			alg = []int{1}
		}
		a := alg[r.Intn(len(alg))]
		if r.Chance(1, 60) {
			a = r.Pick(0, 0x10, 0xffff) // unknown algorithm: 65535 bytes expected
		}
		v.FieldByName("KeyAlg").SetUint(uint64(a))
		v.FieldByName("KeySize").SetUint(uint64(keySizes[r.Intn(len(keySizes))]))
		setData("Data")
	case strings.HasSuffix(full, "/cbnt.Signature"), strings.HasSuffix(full, "/bg.Signature"):
		v.FieldByName("KeySize").SetUint(uint64(keySizes[r.Intn(len(keySizes))]))
		setData("Data")
	case strings.HasSuffix(full, "/bg.HashStructureFill"):
		v.FieldByName("HashAlg").SetUint(uint64(r.Pick(0, 0x10, 0xb, 0xb, 0x4, 0x4, 0xc, 0xffff)))
		setData("HashBuffer")
	}
}

func genValue(r *Rng, v reflect.Value, tag reflect.StructTag, depth int) {
	switch v.Kind() {
	case reflect.Uint8, reflect.Uint16, reflect.Uint32, reflect.Uint64:
		v.SetUint(genUint(r, int(v.Type().Size())*8))
	case reflect.Array:
		for i := 0; i < v.Len(); i++ {
			v.Index(i).SetUint(uint64(r.Intn(256)))
		}
	case reflect.Slice:
		et := v.Type().Elem()
		if et.Kind() == reflect.Uint8 && et.Name() == "uint8" {
			v.SetBytes(r.Bytes(genBlobLen(r, cwBytes(tag))))
			return
		}
		n := r.Pick(0, 1, 1, 2, 3)
		if r.Chance(1, 150) && !isElement(et) {
			if cwBytes(tag) == 1 {
				n = r.Pick(255, 256)
			} else if et.Kind() != reflect.Struct {
				n = r.Pick(65535, 65536)
			}
		}
		s := reflect.MakeSlice(v.Type(), n, n)
		for i := 0; i < n; i++ {
			genValue(r, s.Index(i), "", depth+1)
		}
		v.Set(s)
	case reflect.Ptr:
		if r.Bool() {
			p := reflect.New(v.Type().Elem())
			genValue(r, p.Elem(), "", depth+1)
			v.Set(p)
		}
	case reflect.Struct:
		for i := 0; i < v.NumField(); i++ {
			genValue(r, v.Field(i), v.Type().Field(i).Tag, depth+1)
		}
		if !r.Chance(1, 12) {
			fixCountValues(r, v)
		}
		if isElement(v.Type()) && !r.Chance(1, 25) {
			id := idOfElement(v.Type())
			f := v.FieldByName("StructInfo").FieldByName("ID")
			for i := 0; i < 8 && i < len(id); i++ {
				f.Index(i).SetUint(uint64(id[i]))
			}
		}
	}
}

func mutate(r *Rng, b []byte) []byte {
	b = append([]byte{}, b...)
	switch r.Intn(7) {
	case 0: // truncate
		if len(b) > 0 {
			b = b[:r.Intn(len(b))]
		}
	case 1: // flip one byte
		if len(b) > 0 {
			b[r.Intn(len(b))] ^= byte(1 << uint(r.Intn(8)))
		}
	case 2: // boundary value in a 16-bit window (counts, sizes)
		if len(b) > 1 {
			i := r.Intn(len(b) - 1)
			x := r.Pick(0, 1, 0xffff, len(b)-i, len(b)-i-2, len(b)-i-1)
			b[i], b[i+1] = byte(x), byte(x>>8)
		}
	case 3: // trailing bytes
		b = append(b, r.Bytes(r.Range(1, 20))...)
	case 4: // random bytes
		b = r.Bytes(r.Intn(80))
	case 5: // zero one byte
		if len(b) > 0 {
			b[r.Intn(len(b))] = 0
		}
	case 6: // duplicate the tail (elements out of order / repeated)
		if len(b) > 12 {
			i := r.Intn(len(b) - 12)
			b = append(b, b[i:]...)
		}
	}
	return b
}

func gen(r *Rng, tier string, emit Emit) {
	rounds := 9
	if tier == "thorough" {
		rounds = 250
	}
	for it := 0; it < rounds; it++ {
		for ti, e := range registry {
			rr := r.Fork(uint64(it*100 + ti))
			p := reflect.New(reflect.TypeOf(e.zero))
			genValue(rr, p.Elem(), "", 0)
			desc := serStr(p.Interface())
			emit("C", "wf", e.name, desc)
			emit("P", "p_roundtrip", e.name, desc, H(rr.Bytes(rr.Pick(0, 1, 7, 30))))
			emit("P", "p_layout", e.name, desc)
			emit("C", "enc", e.name, desc)
			emit("C", "size", e.name, desc)
			emit("C", "offs", e.name, desc)
			b, _, err := write(p)
			if err != nil {
				continue
			}
			if len(b) > 20000 && !rr.Chance(1, 4) {
				continue // keep the huge ones rare in the decode stream
			}
			emit("C", "dec", e.name, H(append(append([]byte{}, b...), rr.Bytes(rr.Pick(0, 0, 3, 11, 12, 40))...)))
			emit("C", "dec", e.name, H(mutate(rr, b)))
			emit("C", "dec", e.name, H(mutate(rr, b)))
		}
	}
}

var _ = binary.LittleEndian
var _ = strconv.Itoa

func main() {
	Register("enc", opEnc)
	Register("dec", opDec)
	Register("size", opSize)
	Register("offs", opOffs)
	Register("wf", opWf)
	Register("p_roundtrip", pRoundTrip)
	Register("p_layout", pLayout)
	Main(gen)
}
