// c09/audit.go — additions of the coverage audit.
//
//   - "no error for ... any image the tool itself has saved ... all outputs of edit sequences": the
//     oracle p_edit_clean runs generated edit sequences (insert / remove / remove_pad / replace_pe32,
//     harness/editops) through the real command-line path and demands that validate reports nothing on
//     the saved bytes, for every input that itself validates clean and every inserted file with correct
//     checksums. (Before the audit only the save of UNEDITED images was validated.)
//   - header forms and value classes the well-formed generator never produced (uefigen.Diversify):
//     the extended common header on sections of every kind, volumes of the other file systems
//     uefi.FVGUIDs knows (not parsed, header still validated), reserved header bits, empty strings.
package main

import (
	"fmt"

	. "verifharness/common"
	"verifharness/editops"
	"verifharness/uefigen"
)

// fileSumsOK: the serialised file carries the checksums the PI specification asks for (header sum over
// the header without state and body-checksum byte; body sum with attribute 0x40, else 0xAA), computed
// here independently of pkg/uefi.
func fileSumsOK(b []byte) bool {
	if len(b) < 24 {
		return false
	}
	hl := 24
	if b[20] == 0xFF && b[21] == 0xFF && b[22] == 0xFF {
		hl = 32
		if len(b) < 32 || b[19]&1 == 0 {
			return false
		}
	} else if b[19]&1 != 0 {
		return false
	}
	var s byte
	for i := 0; i < hl; i++ {
		if i != 17 && i != 23 {
			s += b[i]
		}
	}
	if s != 0 {
		return false
	}
	if b[19]&0x40 == 0 {
		return b[17] == 0xAA
	}
	var t byte
	for _, x := range b[hl:] {
		t += x
	}
	return t+b[17] == 0
}

// p_edit_clean <img> <op>...: hypotheses - the input validates clean, every file to insert has correct
// checksums, the command line runs through and saves. Then the saved image parses and validate
// reports nothing on it.
func pEditClean(args []string) string {
	img := UnH(args[0])
	ops, ok := editops.ParseTokens(args[1:])
	if !ok {
		return "harness-error bad-op-token"
	}
	if errs, perr := runValidate(img); perr != nil || len(errs) != 0 {
		return "skip"
	}
	for _, o := range ops {
		if o.Kind == "ins" && !fileSumsOK(o.Data) {
			return "skip"
		}
	}
	r := editops.RunEdit(img, ops)
	if r.Stage != "ok" {
		if len(r.Stage) >= 7 && r.Stage[:7] == "harness" {
			return r.Stage
		}
		return "skip"
	}
	errs, perr := runValidate(r.Out)
	if perr != nil {
		return "FAIL edited-image-does-not-parse " + clip(perr.Error())
	}
	if len(errs) != 0 {
		return fmt.Sprintf("FAIL false-alarm-on-edited class=%s n=%d %s", classOf(errs[0]), len(errs), clip(errs[0].Error()))
	}
	return "ok"
}

func genAudit(r *Rng, tier string, emit Emit) {
	n := 200
	if tier == "thorough" {
		n = 4000
	}
	// edit sequences over images of the edit generator (uncompressed: re-compression is C06's matter)
	saved, savedLS := editops.Compressed, editops.LargeSectioned
	editops.Compressed, editops.LargeSectioned = false, true
	for it := 0; it < n; it++ {
		rr := r.Fork(uint64(0xED170000 + it))
		c := editops.GenCase(rr, rr.Pick(0, 0, 1), rr.Range(1, 3))
		if c.Mixed || len(c.Img) > 20000 {
			continue
		}
		emit("P", "p_edit_clean", append([]string{H(c.Img)}, editops.Tokens(c.Ops)...)...)
	}
	editops.Compressed, editops.LargeSectioned = saved, savedLS
}

// diversify: applied to every second well-formed image of the main loop
// (not OpaqueCodec: the single-bit corruptions of body bytes would switch the processing-required bit on
// and the model has no codec table for such bodies)
var divC09 = uefigen.DivOpts{Reserved: true, AttrHigh: true, EmptyStrings: true, ExtAny: true, KnownFS: true}
