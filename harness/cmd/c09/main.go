// c09: validate accepts what is well-formed and flags what is corrupt.
//
//	C validate <img>                       -> "err" (parse failed) | "ok <n> <class>..." (errors reported, in order)
//	P p_no_false_alarm <img>               generated well-formed image: parses and validates clean
//	P p_saved_clean <img>                  Parse -> Assemble -> Parse -> Validate reports nothing
//	P p_detect_built <kind>                 the same on a large image built inside the worker (pad16m)
//	P p_edit_big <size> <0|1>               worker-built 18 MiB FFSv2 volume, replace_pe32 with a payload of <size>
//	                                       bytes (file crosses 16 MiB), save: validate quiet on tree and saved bytes
//	P p_detect <img> <range> <base> <pos> <vals>
//	                                       img validates clean; for every replacement value of byte <pos>
//	                                       (a protected position, <range> = fv-header | file-header | body |
//	                                       bodysum, <base> = offset of the enclosing header): parse fails or
//	                                       validate reports
package main

import (
	"fmt"
	"strings"

	"github.com/linuxboot/fiano/pkg/guid"
	"github.com/linuxboot/fiano/pkg/uefi"
	"github.com/linuxboot/fiano/pkg/visitors"
	. "verifharness/common"
	"verifharness/uefigen"
	"verifharness/uefiops"
)

// message fragment -> class id (first match wins); ids are those of coq/Model/Validate.v
var classTable = [][2]string{
	{"section length too small", "40"},
	{"section size not copied", "41"},
	{"section size mismatch", "42"},
	{"for extended header", "21"},
	{"file length too small", "20"},
	{"using extended header, but large attribute is not set", "22"},
	{"has the large attribute set, but is not using", "23"},
	{"size not copied into extendedsize", "24"},
	{"size mismatch! Size is", "25"},
	{"header checksum failure", "26"},
	{"body checksum failure! Attribute was not set", "27"},
	{"body checksum failure", "28"},
	{"length too small!, buffer is only", "1"},
	{"header length too small", "2"},
	{"buffer smaller than header", "3"},
	{"does not match the block map", "4"},
	{"unknown FV type", "5"},
	{"revision should be 2", "6"},
	{"signature was not _FVH", "7"},
	{"length mismatch!", "8"},
	{"unable to checksum FV header", "9"},
	{"header did not sum to 0", "a"},
	{"free space is not erased", "b"},
	{"no firmware volumes in BIOS Region", "50"},
	{"BIOSRegion is not valid", "51"},
	{"erase polarity mismatch", "52"},
}

func classOf(err error) string {
	msg := err.Error()
	for _, kv := range classTable {
		if strings.Contains(msg, kv[0]) {
			return kv[1]
		}
	}
	return "ff"
}

// runValidate parses and validates; perr != nil: parse failed
func runValidate(img []byte) (errs []error, perr error) {
	uefiops.Reset()
	root, err := uefi.Parse(img)
	if err != nil {
		return nil, err
	}
	v := &visitors.Validate{} // W == nil: errors are collected, no os.Exit
	if err := v.Run(root); err != nil {
		return nil, fmt.Errorf("validate-run-error: %v", err)
	}
	return v.Errors, nil
}

func opValidate(args []string) string {
	errs, perr := runValidate(UnH(args[0]))
	if perr != nil {
		return "err"
	}
	var sb strings.Builder
	fmt.Fprintf(&sb, "ok %x", len(errs))
	for _, e := range errs {
		sb.WriteString(" " + classOf(e))
	}
	return sb.String()
}

func clip(s string) string {
	s = strings.Map(func(r rune) rune {
		if r == '\t' || r == '\n' {
			return ' '
		}
		return r
	}, s)
	if len(s) > 140 {
		s = s[:140]
	}
	return s
}

func pNoFalseAlarm(args []string) string {
	errs, perr := runValidate(UnH(args[0]))
	if perr != nil {
		return "FAIL well-formed-image-does-not-parse " + clip(perr.Error())
	}
	if len(errs) != 0 {
		return fmt.Sprintf("FAIL false-alarm class=%s n=%d %s", classOf(errs[0]), len(errs), clip(errs[0].Error()))
	}
	return "ok"
}

func pSavedClean(args []string) string {
	img := UnH(args[0])
	uefiops.Reset()
	root, err := uefi.Parse(img)
	if err != nil {
		return "skip"
	}
	a := &visitors.Assemble{}
	if err := a.Run(root); err != nil {
		return "skip"
	}
	// the assembled tree itself (what `utk img ... save out validate` sees) ...
	vt := &visitors.Validate{}
	if err := vt.Run(root); err != nil {
		return "FAIL validate-run-error-on-assembled-tree " + clip(err.Error())
	}
	if len(vt.Errors) != 0 {
		return fmt.Sprintf("FAIL false-alarm-on-assembled-tree class=%s n=%d %s", classOf(vt.Errors[0]), len(vt.Errors), clip(vt.Errors[0].Error()))
	}
	// ... and the saved bytes, parsed again
	saved := append([]byte{}, root.Buf()...)
	errs, perr := runValidate(saved)
	if perr != nil {
		return "FAIL saved-image-does-not-parse " + clip(perr.Error())
	}
	if len(errs) != 0 {
		return fmt.Sprintf("FAIL false-alarm-on-saved class=%s n=%d %s", classOf(errs[0]), len(errs), clip(errs[0].Error()))
	}
	return "ok"
}

// isFreeMarker: the file header at base reads as the start of the volume free space
func isFreeMarker(img []byte, base int) bool {
	if base+24 > len(img) {
		return false
	}
	if img[base+20] != 0xFF || img[base+21] != 0xFF || img[base+22] != 0xFF {
		return false
	}
	for k := 24; k < 32; k++ {
		if base+k >= len(img) {
			return true // short erased tail: decided by the parser on the remaining bytes
		}
		if img[base+k] != 0xFF {
			return false
		}
	}
	return true
}

// p_detect_built <kind>: like p_detect on an image too large for a case argument, built here.
// pad16m: a volume holding a pad file of 0xFFFF00 bytes (size bytes 00 FF FF, body all FF) followed
// by a second file; size byte 20 raised to FF turns the pad file's header into the free-space marker.
func pDetectBuilt(args []string) string {
	switch args[0] {
	case "pad16m":
		body := make([]byte, 0xFFFF00-24)
		for i := range body {
			body[i] = 0xFF
		}
		f1 := &uefigen.File{Type: 0xF0, State: 0xF8, Body: body}
		for i := range f1.GUID {
			f1.GUID[i] = 0xFF
		}
		f2 := &uefigen.File{Type: 1, State: 0xF8, Body: []byte{1, 2, 3, 4, 5}} // no checksum attribute: clean for the pinned validate too
		f2.GUID[0] = 0x22
		v := &uefigen.Vol{FSGUID: uefigen.FFS2, Attrs: 0x800 | 0x4FEFF, Revision: 2, BlockSize: 4096, Files: []*uefigen.File{f1, f2}}
		img, fields := uefigen.EmitVol(v)
		base := -1
		for _, f := range fields {
			if f.Name == "file.guid0" {
				base = f.Off
				break
			}
		}
		if base < 0 {
			return "harness-error no-file"
		}
		return detectAt(img, "file-header", base, base+20, []byte{0xFF, 0x01})
	}
	return "harness-error unknown-kind"
}

// p_edit_big <payload size> <trailing file 0/1>: an edit -> save -> parse -> validate case built inside
// the worker: an 18 MiB FFSv2 volume with a driver (PE32 + UI section), optionally a second file behind
// it; replace_pe32 with a payload of the given size (around 16 MiB the file needs the extended header,
// the PE32 section the extended section header and the volume becomes FFSv3), Assemble; validate must be
// quiet on the assembled tree and on the saved bytes parsed again.
func pEditBig(args []string) string {
	size := int(UnN(args[0]))
	var g [16]byte
	copy(g[:], []byte{0x11, 0x22, 0x33, 0x44, 0x55, 0x66, 0x77, 0x88, 0x99, 0xAA, 0xBB, 0xCC, 0xDD, 0xEE, 0xFF, 0x00})
	drv := &uefigen.File{GUID: g, Type: 7, State: 0xF8, Attr: 0x40,
		Secs: []*uefigen.Sec{{Type: 0x10, Body: []byte("MZ-small-payload")}, {Type: 0x19, Body: []byte{1, 2, 3}}}}
	files := []*uefigen.File{drv}
	if len(args) > 1 && args[1] == "1" {
		f2 := &uefigen.File{Type: 1, State: 0xF8, Attr: 0x40, Body: []byte{9, 8, 7, 6, 5}}
		f2.GUID[0] = 0x22
		files = append(files, f2)
	}
	const fvLen = 18 << 20
	v := &uefigen.Vol{FSGUID: uefigen.FFS2, Attrs: 0x800 | 0x4FEFF, Revision: 2, BlockSize: 4096, Blocks: fvLen / 4096, Files: files}
	img, _ := uefigen.EmitVol(v)
	if len(img) != fvLen {
		return "harness-error volume-size"
	}
	if errs, perr := runValidate(img); perr != nil || len(errs) != 0 {
		return "harness-error built-image-not-clean"
	}
	uefiops.Reset()
	root, err := uefi.Parse(img)
	if err != nil {
		return "harness-error parse"
	}
	pe := make([]byte, size)
	copy(pe, "MZ")
	for i := 2; i < len(pe); i++ {
		pe[i] = byte(i * 7)
	}
	gg := guid.GUID(g)
	r := &visitors.ReplacePE32{Predicate: visitors.FindFileGUIDPredicate(gg), NewPE32: pe}
	if err := r.Run(root); err != nil {
		return "FAIL replace-pe32-error " + clip(err.Error())
	}
	if err := (&visitors.Assemble{}).Run(root); err != nil {
		return "skip" // out of space and the like: nothing was saved
	}
	vt := &visitors.Validate{}
	if err := vt.Run(root); err != nil {
		return "FAIL validate-run-error-on-assembled-tree " + clip(err.Error())
	}
	if len(vt.Errors) != 0 {
		return fmt.Sprintf("FAIL false-alarm-on-assembled-tree class=%s n=%d %s", classOf(vt.Errors[0]), len(vt.Errors), clip(vt.Errors[0].Error()))
	}
	saved := append([]byte{}, root.Buf()...)
	if len(saved) != fvLen {
		return fmt.Sprintf("FAIL saved-size %x", len(saved))
	}
	errs, perr := runValidate(saved)
	if perr != nil {
		return "FAIL saved-image-does-not-parse " + clip(perr.Error())
	}
	if len(errs) != 0 {
		return fmt.Sprintf("FAIL false-alarm-on-saved class=%s n=%d %s", classOf(errs[0]), len(errs), clip(errs[0].Error()))
	}
	return "ok"
}

func pDetect(args []string) string {
	img := UnH(args[0])
	rng := args[1]
	base := int(UnN(args[2]))
	pos := int(UnN(args[3]))
	vals := UnH(args[4])
	return detectAt(img, rng, base, pos, vals)
}

func detectAt(img []byte, rng string, base, pos int, vals []byte) string {
	if pos < 0 || pos >= len(img) {
		return "skip"
	}
	errs, perr := runValidate(img)
	if perr != nil || len(errs) != 0 {
		return "skip" // hypothesis: the unaltered image parses and validates clean
	}
	tried := 0
	for _, v := range vals {
		if v == img[pos] {
			continue
		}
		tried++
		m := append([]byte{}, img...)
		m[pos] = v
		errs, perr := runValidate(m)
		if perr != nil || len(errs) > 0 {
			continue
		}
		tag := ""
		if rng == "file-header" && pos-base >= 20 && pos-base <= 22 && isFreeMarker(m, base) {
			tag = " free-marker"
		}
		return fmt.Sprintf("FAIL miss %s%s pos=%x off=%x old=%02x new=%02x", rng, tag, pos, pos-base, img[pos], v)
	}
	if tried == 0 {
		return "skip"
	}
	return "ok"
}

// ---------- generator ----------

// wellFormed makes a generated spec satisfy what validate demands of its input beyond the
// checksums: revision 2, a known file-system GUID, files with correct checksums.
func wellFormedVol(v *uefigen.Vol) {
	v.Revision = 2
	if v.FSGUID != uefigen.FFS2 && v.FSGUID != uefigen.FFS3 {
		v.FSGUID = uefigen.FFS2
	}
	for _, f := range v.Files {
		f.BadSums = false
		for _, s := range f.Secs {
			if s.Vol != nil {
				wellFormedVol(s.Vol)
			}
		}
	}
}

// largeForms turns files of FFSv3 volumes into the large form (32-byte header, size field 0xFFFFFF,
// 64-bit size, attribute bit 0) although they are small: legal FFSv3, kept by fiano for opaque files
// and rewritten in the small form for files with sections. With force, FFSv2 volumes become FFSv3.
func largeForms(r *Rng, v *uefigen.Vol, force bool) {
	if force && v.FSGUID == uefigen.FFS2 {
		v.FSGUID = uefigen.FFS3
	}
	for _, f := range v.Files {
		if v.FSGUID == uefigen.FFS3 && !f.IsPad && r.Chance(1, 2) {
			f.LargeForm = true
		}
		for _, s := range f.Secs {
			if s.Vol != nil {
				largeForms(r, s.Vol, force)
			}
		}
	}
}

// directedLargeForm: one FFSv3 volume with a driver in the large form holding two sections, an opaque
// large-form file and a plain file.
func directedLargeForm() []byte {
	f1 := &uefigen.File{Type: 7, State: 0xF8, Attr: 0x40, LargeForm: true,
		Secs: []*uefigen.Sec{{Type: 0x10, Body: []byte("MZ-large-form")}, {Type: 0x19, Body: []byte{1, 2, 3}}}}
	f1.GUID[0] = 0xA0
	f2 := &uefigen.File{Type: 1, State: 0xF8, LargeForm: true, Body: []byte{9, 8, 7, 6}}
	f2.GUID[0] = 0xA1
	f3 := &uefigen.File{Type: 9, State: 0xF8, Secs: []*uefigen.Sec{{Type: 0x19, Body: []byte{5, 5}}}}
	f3.GUID[0] = 0xA2
	v := &uefigen.Vol{FSGUID: uefigen.FFS3, Attrs: 0x800 | 0x4FEFF, Revision: 2, BlockSize: 64, FreeSpace: 100,
		Files: []*uefigen.File{f1, f2, f3}}
	img, _ := uefigen.EmitVol(v)
	return img
}

func wellFormed(reg *uefigen.Region) {
	for _, e := range reg.Elems {
		if e.Vol != nil {
			wellFormedVol(e.Vol)
		}
	}
}

type prot struct {
	rng  string
	base int
	pos  int
}

// protectedPositions lists the byte positions the property protects, from the field map of the
// reference serialiser.
func protectedPositions(img []byte, fields []uefigen.Field) []prot {
	var out []prot
	for _, f := range fields {
		switch f.Name {
		case "fv.length":
			base := f.Off - 32
			for k := 0; k < f.HdrSize; k++ {
				if k >= 40 && k < 44 {
					continue
				}
				out = append(out, prot{"fv-header", base, base + k})
			}
		case "file.guid0":
			base := f.Off
			hl := f.HdrSize
			size := f.Remaining
			for k := 0; k < 23; k++ {
				if k == 17 {
					out = append(out, prot{"bodysum", base, base + k})
				} else {
					out = append(out, prot{"file-header", base, base + k})
				}
			}
			if hl == 32 {
				for k := 24; k < 32; k++ {
					out = append(out, prot{"file-header", base, base + k})
				}
			}
			if base+19 < len(img) && img[base+19]&0x40 != 0 {
				for k := hl; k < size; k++ {
					out = append(out, prot{"body", base, base + k})
				}
			}
		}
	}
	return out
}

func replacementValues(r *Rng, old byte) string {
	vs := []byte{old ^ 0xFF, old ^ 0x01, old ^ 0x80, 0x00, 0xFF, old + 1, old - 1, byte(r.Intn(256)), byte(r.Intn(256))}
	return H(vs)
}

// bigFreeMarkerImage: a volume with a 0xFFFF-byte raw file whose body starts with eight 0xFF bytes,
// followed by a second file. Changing size byte 22 of the first file from 00 to FF turns its header
// into the free-space marker (DESIGN section 6 #9).
func bigFreeMarkerImage() ([]byte, int) {
	body := make([]byte, 0xFFFF-24)
	for i := range body {
		if i < 8 {
			body[i] = 0xFF
		} else {
			body[i] = byte(i * 7)
		}
	}
	f1 := &uefigen.File{Type: 1, State: 0xF8, Body: body}
	f1.GUID[0] = 0x11
	f2 := &uefigen.File{Type: 1, State: 0xF8, Body: []byte{1, 2, 3, 4, 5}} // no checksum attribute: clean for the pinned validate too
	f2.GUID[0] = 0x22
	v := &uefigen.Vol{FSGUID: uefigen.FFS2, Attrs: 0x800 | 0x4FEFF, Revision: 2, BlockSize: 4096, Files: []*uefigen.File{f1, f2}}
	img, fields := uefigen.EmitVol(v)
	for _, f := range fields {
		if f.Name == "file.guid0" {
			return img, f.Off // first file
		}
	}
	return img, -1
}

func gen(r *Rng, tier string, emit Emit) {
	n := 110
	perImage := 36
	all := false
	if tier == "thorough" {
		n = 900
		perImage = 100
	}
	// directed: the free-marker class (large image: implementation only)
	if img, base := bigFreeMarkerImage(); base >= 0 {
		emit("P", "p_no_false_alarm", H(img))
		emit("P", "p_detect", H(img), "file-header", N(uint64(base)), N(uint64(base+22)), H([]byte{0xFF, 0x01}))
		emit("P", "p_detect", H(img), "file-header", N(uint64(base)), N(uint64(base+21)), H([]byte{0x00, 0xFE}))
	}
	emit("P", "p_detect_built", "pad16m")
	// directed: an edit that makes a sectioned file of an FFSv2 volume cross 16 MiB (worker-built)
	for _, c := range [][2]string{{"10000", "0"}, {"ffffc0", "1"}, {"ffffd3", "0"}, {"1000100", "0"}, {"1000100", "1"}} {
		emit("P", "p_edit_big", c[0], c[1])
	}
	// directed: files in the large form below 16 MiB, with and without sections
	{
		img := directedLargeForm()
		emit("P", "p_no_false_alarm", H(img))
		emit("P", "p_saved_clean", H(img))
		emit("C", "validate", H(img))
		emit("C", "save", H(img))
	}
	for it := 0; it < n; it++ {
		rr := r.Fork(uint64(it))
		o := uefigen.Opts{MaxDepth: rr.Pick(0, 0, 1, 2), Strings: true, Alignments: rr.Chance(1, 2), BigBodies: rr.Chance(1, 6)}
		var img []byte
		var fields []uefigen.Field
		if rr.Chance(1, 4) {
			v := uefigen.GenVol(rr, o, 0)
			wellFormedVol(v)
			largeForms(rr.Fork(0xC09C), v, it%3 == 0)
			if it%2 == 1 {
				uefigen.DiversifyVol(v, rr.Fork(0xD1C09), divC09)
			}
			img, fields = uefigen.EmitVol(v)
		} else {
			reg := uefigen.GenRegion(rr, o)
			wellFormed(reg)
			lr := rr.Fork(0xC09C)
			for _, e := range reg.Elems {
				if e.Vol != nil {
					largeForms(lr, e.Vol, it%3 == 0)
				}
			}
			if it%2 == 1 {
				uefigen.Diversify(reg, rr.Fork(0xD1C09), divC09)
			}
			img, fields = uefigen.EmitRegion(reg)
		}
		if len(img) > 10000 || len(img) == 0 {
			continue
		}
		small := len(img) <= 1200
		emit("P", "p_no_false_alarm", H(img))
		emit("P", "p_saved_clean", H(img))
		emit("C", "validate", H(img))
		if len(img) <= 6000 {
			emit("C", "save", H(img)) // the bytes fiano saves, against the model's assembler
		}
		ps := protectedPositions(img, fields)
		if len(ps) == 0 {
			continue
		}
		count := perImage
		all = tier == "thorough" && small
		if all {
			count = len(ps)
		}
		for k := 0; k < count; k++ {
			p := ps[k%len(ps)]
			if !all {
				p = ps[rr.Intn(len(ps))]
			}
			emit("P", "p_detect", H(img), p.rng, N(uint64(p.base)), N(uint64(p.pos)), replacementValues(rr, img[p.pos]))
			// the model's validate on corrupted images (a few per image)
			if k < 6 || all && k%5 == 0 {
				m := append([]byte{}, img...)
				m[p.pos] ^= byte(1 << uint(rr.Intn(8)))
				emit("C", "validate", H(m))
			}
		}
		// boundary-value mutants of header fields: validate on malformed but often parseable input
		for k := 0; k < 6 && len(fields) > 0; k++ {
			f := fields[rr.Intn(len(fields))]
			vs := uefigen.BoundaryValues(f)
			emit("C", "validate", H(uefigen.Mutate(img, f, vs[rr.Intn(len(vs))])))
		}
		// the unrestricted grammar (revision 1, unknown GUIDs, bad checksums): validate must agree with the model
		if rr.Chance(1, 2) {
			reg := uefigen.GenRegion(rr, o)
			raw, _ := uefigen.EmitRegion(reg)
			if len(raw) <= 10000 && len(raw) > 0 {
				emit("C", "validate", H(raw))
			}
		}
	}
	genAudit(r.Fork(0xA0D1709), tier, emit)
	// seed-dependent payload sizes around the limit (drawn last: the streams above are not shifted)
	emit("P", "p_edit_big", N(uint64(0xFFFFD0+r.Intn(0x40))), "1")
	emit("P", "p_edit_big", N(uint64(0x1000000+r.Intn(0x10000))), N(uint64(r.Intn(2))))
}

func main() {
	uefiops.RegisterAll()
	Register("validate", opValidate)
	Register("p_no_false_alarm", pNoFalseAlarm)
	Register("p_saved_clean", pSavedClean)
	Register("p_detect", pDetect)
	Register("p_detect_built", pDetectBuilt)
	Register("p_edit_big", pEditBig)
	Register("p_edit_clean", pEditClean)
	Main(gen)
}
