// c13: executor and generator for property C13 (pkg/fmap).
package main

import (
	"bytes"
	"encoding/json"
	"errors"
	"hash"
	"io"
	"strings"
	"unicode/utf8"

	"github.com/linuxboot/fiano/pkg/fmap"
	. "verifharness/common"
)

// memFile is an in-memory io.WriteSeeker / io.WriterAt that grows like a file.
type memFile struct {
	b   []byte
	pos int64
}

func (m *memFile) grow(n int64) {
	if int64(len(m.b)) < n {
		m.b = append(m.b, make([]byte, n-int64(len(m.b)))...)
	}
}
func (m *memFile) Write(p []byte) (int, error) {
	m.grow(m.pos + int64(len(p)))
	copy(m.b[m.pos:], p)
	m.pos += int64(len(p))
	return len(p), nil
}
func (m *memFile) Seek(off int64, whence int) (int64, error) {
	switch whence {
	case io.SeekStart:
		m.pos = off
	case io.SeekCurrent:
		m.pos += off
	case io.SeekEnd:
		m.pos = int64(len(m.b)) + off
	}
	if m.pos < 0 {
		return 0, errors.New("negative seek")
	}
	return m.pos, nil
}
func (m *memFile) WriteAt(p []byte, off int64) (int, error) {
	if off < 0 {
		return 0, errors.New("negative offset")
	}
	m.grow(off + int64(len(p)))
	copy(m.b[off:], p)
	return len(p), nil
}

// catHash is a hash.Hash that records the byte stream it is fed.
type catHash struct{ b []byte }

func (c *catHash) Write(p []byte) (int, error) { c.b = append(c.b, p...); return len(p), nil }
func (c *catHash) Sum(b []byte) []byte         { return append(b, c.b...) }
func (c *catHash) Reset()                      { c.b = nil }
func (c *catHash) Size() int                   { return len(c.b) }
func (c *catHash) BlockSize() int              { return 1 }

var _ hash.Hash = (*catHash)(nil)

var errTable = [][2]string{
	{"unexpected EOF while parsing fmap", "1"},
	{"cannot find FMAP signature", "2"},
	{"found multiple fmap", "3"},
	{"out of range", "4"},
	{"too large", "5"},
	{"EOF", "1"},
}

// map <-> args: sig vmaj vmin base size name nareas count {off size name flags}
func mapArgs(m *fmap.FMap) []string {
	a := []string{H(m.Signature[:]), N(uint64(m.VerMajor)), N(uint64(m.VerMinor)), N(m.Base),
		N(uint64(m.Size)), H(m.Name.Value[:]), N(uint64(m.NAreas)), N(uint64(len(m.Areas)))}
	for _, ar := range m.Areas {
		a = append(a, N(uint64(ar.Offset)), N(uint64(ar.Size)), H(ar.Name.Value[:]), N(uint64(ar.Flags)))
	}
	return a
}

func argsMap(a []string) (*fmap.FMap, []string) {
	m := &fmap.FMap{}
	copy(m.Signature[:], UnH(a[0]))
	m.VerMajor = uint8(UnN(a[1]))
	m.VerMinor = uint8(UnN(a[2]))
	m.Base = UnN(a[3])
	m.Size = uint32(UnN(a[4]))
	copy(m.Name.Value[:], UnH(a[5]))
	m.NAreas = uint16(UnN(a[6]))
	n := int(UnN(a[7]))
	a = a[8:]
	// a nil slice and an empty slice behave alike for everything we call
	for i := 0; i < n; i++ {
		var ar fmap.Area
		ar.Offset = uint32(UnN(a[0]))
		ar.Size = uint32(UnN(a[1]))
		copy(ar.Name.Value[:], UnH(a[2]))
		ar.Flags = uint16(UnN(a[3]))
		m.Areas = append(m.Areas, ar)
		a = a[4:]
	}
	return m, a
}

func obsMap(m *fmap.FMap, md *fmap.Metadata) string {
	return "ok " + N(md.Start) + " " + strings.Join(mapArgs(m), " ")
}

func opRead(args []string) string {
	m, md, err := fmap.Read(bytes.NewReader(UnH(args[0])))
	if err != nil {
		return ErrClass(err, errTable)
	}
	return obsMap(m, md)
}

func opWrite(args []string) string {
	img := UnH(args[0])
	m, rest := argsMap(args[1:])
	start := UnN(rest[0])
	f := &memFile{b: append([]byte{}, img...)}
	if err := fmap.Write(f, m, &fmap.Metadata{Start: start}); err != nil {
		return ErrClass(err, errTable)
	}
	return "ok " + H(f.b)
}

// jsonSchema is the JSON document of `fmap jget` / `fmap jput` (cmds/fmap/fmap.go).
type jsonSchema struct {
	FMap     *fmap.FMap
	Metadata *fmap.Metadata
}

// jsonRoundTrip does what `fmap jget J IMG; fmap jput J IMG` does: read, marshal, unmarshal, write.
func jsonRoundTrip(img []byte) ([]byte, *fmap.FMap, error) {
	m, md, err := fmap.Read(bytes.NewReader(img))
	if err != nil {
		return nil, nil, err
	}
	data, err := json.MarshalIndent(jsonSchema{m, md}, "", "\t")
	if err != nil {
		return nil, m, errors.New("json: " + err.Error())
	}
	j := jsonSchema{}
	if err := json.Unmarshal(data, &j); err != nil {
		return nil, m, errors.New("json: " + err.Error())
	}
	f := &memFile{b: append([]byte{}, img...)}
	if err := fmap.Write(f, j.FMap, j.Metadata); err != nil {
		return nil, m, err
	}
	return f.b, m, nil
}

func opJSONRT(args []string) string {
	out, _, err := jsonRoundTrip(UnH(args[0]))
	if err != nil {
		if strings.HasPrefix(err.Error(), "json: ") {
			return "err 6"
		}
		return ErrClass(err, errTable)
	}
	return "ok " + H(out)
}

// jget + jput leaves the image unchanged
func pJSONID(args []string) string {
	img := UnH(args[0])
	out, m, err := jsonRoundTrip(img)
	if m == nil {
		return "skip"
	}
	valid := utf8.Valid([]byte(m.Name.String()))
	for i := range m.Areas {
		valid = valid && utf8.Valid([]byte(m.Areas[i].Name.String()))
	}
	tag := ""
	if !valid {
		tag = "non-utf8-name "
	}
	if err != nil {
		return "FAIL " + tag + "json-roundtrip-error"
	}
	if !bytes.Equal(out, img) {
		return "FAIL " + tag + "image-changed-by-jget-jput"
	}
	return "ok"
}

func opReadArea(args []string) string {
	img := UnH(args[0])
	m, rest := argsMap(args[1:])
	i := int(UnI(rest[0]))
	b, err := m.ReadArea(bytes.NewReader(img), i)
	if err != nil {
		return ErrClass(err, errTable)
	}
	return "ok " + H(b)
}

func opWriteArea(args []string) string {
	img := UnH(args[0])
	m, rest := argsMap(args[1:])
	i := int(UnI(rest[0]))
	data := UnH(rest[1])
	f := &memFile{b: append([]byte{}, img...)}
	if err := m.WriteArea(f, i, data); err != nil {
		return ErrClass(err, errTable)
	}
	return "ok " + H(f.b)
}

func opChecksum(args []string) string {
	img := UnH(args[0])
	m, _ := argsMap(args[1:])
	h := &catHash{}
	s, err := m.Checksum(bytes.NewReader(img), h)
	if err != nil {
		return ErrClass(err, errTable)
	}
	return "ok " + H(s)
}

// ---- property oracles on the implementation (inputs satisfy the theorem's
// hypotheses by construction; see the generator) ----

func mapsEqual(a, b *fmap.FMap) bool {
	return strings.Join(mapArgs(a), " ") == strings.Join(mapArgs(b), " ")
}

// Write then Read returns the same map and offset; writing it again changes nothing.
func pWriteRead(args []string) string {
	img := UnH(args[0])
	m, rest := argsMap(args[1:])
	start := UnN(rest[0])
	f := &memFile{b: append([]byte{}, img...)}
	if err := fmap.Write(f, m, &fmap.Metadata{Start: start}); err != nil {
		return "FAIL write-error " + err.Error()
	}
	got, md, err := fmap.Read(bytes.NewReader(f.b))
	if err != nil {
		return "FAIL read-after-write: " + err.Error()
	}
	if md.Start != start {
		return "FAIL start " + N(md.Start)
	}
	if !mapsEqual(got, m) {
		return "FAIL map-differs"
	}
	g := &memFile{b: append([]byte{}, f.b...)}
	if err := fmap.Write(g, got, md); err != nil {
		return "FAIL rewrite-error"
	}
	if !bytes.Equal(g.b, f.b) {
		return "FAIL rewrite-changed-image"
	}
	return "ok"
}

// Read then Write leaves the image unchanged (any image on which Read succeeds).
func pReadWriteID(args []string) string {
	img := UnH(args[0])
	m, md, err := fmap.Read(bytes.NewReader(img))
	if err != nil {
		return "skip"
	}
	if int(m.NAreas) != len(m.Areas) {
		return "FAIL partial-map"
	}
	f := &memFile{b: append([]byte{}, img...)}
	if err := fmap.Write(f, m, md); err != nil {
		return "FAIL write-error"
	}
	if !bytes.Equal(f.b, img) {
		return "FAIL image-changed"
	}
	return "ok"
}

// areas: read exact, write confined / refused, checksum = static areas in order
func pAreas(args []string) string {
	img := UnH(args[0])
	m, rest := argsMap(args[1:])
	data := UnH(rest[0])
	var stream []byte
	for i, a := range m.Areas {
		inside := uint64(a.Offset)+uint64(a.Size) <= uint64(len(img))
		b, err := m.ReadArea(bytes.NewReader(img), i)
		if int(a.Offset) == len(img) && a.Size == 0 {
			// bytes.Reader.ReadAt reports io.EOF for an empty read at the very end; either answer is fine
		} else if inside {
			if err != nil {
				return "FAIL readarea-error " + N(uint64(i))
			}
			if !bytes.Equal(b, img[a.Offset:a.Offset+a.Size]) {
				return "FAIL readarea-bytes " + N(uint64(i))
			}
		} else if err == nil {
			return "FAIL readarea-outside-no-error " + N(uint64(i))
		}
		if a.Flags&fmap.FmapAreaStatic != 0 && inside {
			stream = append(stream, img[a.Offset:a.Offset+a.Size]...)
		}
		// write
		f := &memFile{b: append([]byte{}, img...)}
		err = m.WriteArea(f, i, data)
		if uint64(len(data)) > uint64(a.Size) {
			if err == nil {
				return "FAIL writearea-accepted-large " + N(uint64(i))
			}
			if !bytes.Equal(f.b, img) {
				return "FAIL writearea-refused-but-changed " + N(uint64(i))
			}
		} else {
			if err != nil {
				return "FAIL writearea-error " + N(uint64(i))
			}
			if uint64(a.Offset)+uint64(len(data)) <= uint64(len(img)) {
				if len(f.b) != len(img) {
					return "FAIL writearea-length " + N(uint64(i))
				}
				for k := range img {
					in := uint64(k) >= uint64(a.Offset) && uint64(k) < uint64(a.Offset)+uint64(len(data))
					if in && f.b[k] != data[uint64(k)-uint64(a.Offset)] {
						return "FAIL writearea-data " + N(uint64(i))
					}
					if !in && f.b[k] != img[k] {
						return "FAIL writearea-outside " + N(uint64(i))
					}
				}
			}
		}
	}
	allInside := true
	for _, a := range m.Areas {
		if a.Flags&fmap.FmapAreaStatic != 0 && (uint64(a.Offset)+uint64(a.Size) > uint64(len(img)) || int(a.Offset) == len(img)) {
			allInside = false
		}
	}
	h := &catHash{}
	s, err := m.Checksum(bytes.NewReader(img), h)
	if allInside {
		if err != nil {
			return "FAIL checksum-error"
		}
		if !bytes.Equal(s, stream) {
			return "FAIL checksum-stream"
		}
	} else if err == nil {
		return "FAIL checksum-outside-no-error"
	}
	return "ok"
}

// ---- generators ----

func filler(r *Rng, n int) []byte {
	b := r.Bytes(n)
	mode := r.Intn(3)
	for i := range b {
		switch mode {
		case 0:
			b[i] = 0xFF
		case 1:
			b[i] &= 0x0F
		}
		if b[i] == 0x5F {
			b[i] = 0x60
		}
	}
	return b
}

func name32(r *Rng, needNul bool) [32]uint8 {
	var v [32]uint8
	n := r.Pick(0, 1, 5, 16, 31, 32)
	if needNul && n == 32 {
		n = 31
	}
	for i := 0; i < n; i++ {
		c := byte('A' + r.Intn(26))
		v[i] = c
	}
	if !needNul && r.Chance(1, 4) {
		for i := range v {
			v[i] = byte(1 + r.Intn(0x5E))
		}
	}
	return v
}

func genMap(r *Rng, imgLen int) *fmap.FMap {
	m := &fmap.FMap{}
	copy(m.Signature[:], fmap.Signature)
	m.VerMajor = 1
	m.VerMinor = uint8(r.Intn(256))
	m.Base = r.U64()
	if r.Chance(1, 3) {
		m.Base = 0xFFFFFFFF_FFFFFFFF - uint64(r.Intn(4))
	}
	m.Size = uint32(1 + r.Intn(1<<20))
	if r.Chance(1, 4) {
		m.Size = 0xFFFFFFFF
	}
	m.Name.Value = name32(r, true)
	n := r.Pick(0, 0, 1, 2, 3, 5, 8)
	if r.Chance(1, 20) {
		n = 30 + r.Intn(20)
	}
	for i := 0; i < n; i++ {
		var a fmap.Area
		sz := r.Intn(40)
		off := 0
		if imgLen > sz {
			off = r.Intn(imgLen - sz + 1)
		}
		if r.Chance(1, 8) {
			off = imgLen - sz/2 // straddles the end
			if off < 0 {
				off = 0
			}
		}
		if r.Chance(1, 30) {
			off = imgLen + r.Intn(50) // entirely past the end
		}
		a.Offset, a.Size = uint32(off), uint32(sz)
		a.Name.Value = name32(r, false)
		a.Flags = uint16(r.Pick(0, 1, 1, 2, 3, 4, 7, 0xFFFF, 0x8001, 0xFFFE))
		m.Areas = append(m.Areas, a)
	}
	m.NAreas = uint16(len(m.Areas))
	return m
}

func encMap(m *fmap.FMap) []byte {
	f := &memFile{}
	_ = fmap.Write(f, m, &fmap.Metadata{})
	return f.b
}

func gen(r *Rng, tier string, emit Emit) {
	n := 400
	if tier == "thorough" {
		n = 12000
	}
	sig := fmap.Signature
	for it := 0; it < n; it++ {
		rr := r.Fork(uint64(it))
		imgLen := rr.Pick(0, 7, 8, 55, 56, 57, 100, 300, 700, 1500)
		if imgLen >= 100 {
			imgLen += rr.Intn(64)
		}
		img := filler(rr, imgLen)
		m := genMap(rr, imgLen)
		enc := encMap(m)
		start := 0
		if imgLen > len(enc) {
			start = rr.Intn(imgLen - len(enc) + 1)
		} else if rr.Bool() {
			start = rr.Intn(imgLen + 20) // write extends the image
		}
		// P: write then read, decoys that are invalid by construction
		pimg := append([]byte{}, img...)
		switch rr.Intn(6) {
		case 0: // partial signature glued in front of the map
			k := rr.Range(1, 7)
			if start >= k && start <= len(pimg) {
				copy(pimg[start-k:start], sig[:k])
			}
		case 1: // full decoy with bad major version, well before the map
			if start >= 130 {
				p := rr.Intn(start - 120)
				copy(pimg[p:], sig)
				pimg[p+8] = byte(rr.Pick(0, 2, 255))
			}
		case 2: // signature too close to the end to hold a header
			k := rr.Range(8, 55)
			if start+len(enc)+64+k <= len(pimg) {
				copy(pimg[len(pimg)-k:], sig)
				if k > 8 {
					pimg[len(pimg)-k+8] = 1
				}
			}
		case 3: // decoy with size 0 after the map
			p := start + len(enc) + 10
			if p+56 <= len(pimg) {
				copy(pimg[p:], sig)
				pimg[p+8] = 1
				copy(pimg[p+18:p+22], []byte{0, 0, 0, 0})
			}
		case 4: // decoy with a name that has no NUL, after the map
			p := start + len(enc) + 3
			if p+56 <= len(pimg) {
				copy(pimg[p:], sig)
				pimg[p+8] = 1
				pimg[p+18] = 1
				for i := 22; i < 54; i++ {
					pimg[p+i] = 'x'
				}
			}
		}
		emit("P", "p_write_read", append(append([]string{H(pimg)}, mapArgs(m)...), N(uint64(start)))...)
		// C: write, then read of the result
		emit("C", "write", append(append([]string{H(pimg)}, mapArgs(m)...), N(uint64(start)))...)
		f := &memFile{b: append([]byte{}, pimg...)}
		_ = fmap.Write(f, m, &fmap.Metadata{Start: uint64(start)})
		written := f.b
		emit("C", "read", H(written))
		emit("P", "p_read_write_id", H(written))
		emit("C", "jsonrt", H(written))
		emit("P", "p_json_id", H(written))
		if rr.Chance(1, 12) && len(m.Areas) > 0 {
			// names that are not 7-bit: valid UTF-8 must survive; bytes that are not valid UTF-8 do not
			// (KNOWN FINDING, known_findings.txt)
			m3 := *m
			m3.Areas = append([]fmap.Area{}, m.Areas...)
			k := rr.Intn(len(m3.Areas))
			var nm [32]uint8
			if rr.Bool() {
				copy(nm[:], "h\xc3\xa9llo-\xe2\x82\xac-\xf0\x9f\x98\x80")
			} else {
				copy(nm[:], []byte{'A', byte(0x80 + rr.Intn(0x80)), 'B'})
			}
			m3.Areas[k].Name.Value = nm
			g := &memFile{b: append([]byte{}, pimg...)}
			_ = fmap.Write(g, &m3, &fmap.Metadata{Start: uint64(start)})
			emit("P", "p_json_id", H(g.b))
		}

		// malformed / adversarial reads
		bad := append([]byte{}, written...)
		switch rr.Intn(8) {
		case 0: // second valid map -> multiple
			bad = append(bad, filler(rr, rr.Intn(30))...)
			bad = append(bad, encMap(genMap(rr, len(bad)))...)
		case 1: // truncate inside header or areas
			if len(bad) > start {
				bad = bad[:start+rr.Intn(len(bad)-start)]
			}
		case 2: // flip a header byte
			if start+56 <= len(bad) {
				bad[start+rr.Intn(56)] ^= byte(1 << uint(rr.Intn(8)))
			}
		case 3: // NAreas boundary values
			if start+56 <= len(bad) {
				v := rr.Pick(0, 1, 0xFFFF, int(m.NAreas)+1, int(m.NAreas)-1)
				bad[start+54], bad[start+55] = byte(v), byte(v>>8)
			}
		case 4: // signature in the last bytes
			k := rr.Range(1, 60)
			bad = append(bad, sig...)
			bad = append(bad, filler(rr, k)...)
			if rr.Bool() && k > 1 {
				bad[len(bad)-k] = 1
			}
		case 5: // overlapping signatures "__FMAP__FMAP__"
			bad = append(append(append([]byte{}, sig[:6]...), enc...), filler(rr, 5)...)
		case 6: // random garbage
			bad = rr.Bytes(rr.Intn(200))
		case 7: // only signatures
			bad = bytes.Repeat(sig, rr.Range(1, 9))
			bad = append(bad, 1)
		}
		emit("C", "read", H(bad))
		emit("P", "p_read_write_id", H(bad))

		// areas
		m2 := genMap(rr, len(img))
		data := rr.Bytes(rr.Pick(0, 1, 5, 20, 39, 40, 41))
		emit("P", "p_areas", append(append([]string{H(img)}, mapArgs(m2)...), H(data))...)
		if rr.Chance(1, 5) { // NAreas out of step with len(Areas)
			m2.NAreas = uint16(int(m2.NAreas) + rr.Pick(-1, 1, 3))
		}
		idx := rr.Range(-1, len(m2.Areas)+1)
		emit("C", "readarea", append(append([]string{H(img)}, mapArgs(m2)...), I(int64(idx)))...)
		emit("C", "writearea", append(append([]string{H(img)}, mapArgs(m2)...), I(int64(idx)), H(data))...)
		emit("C", "checksum", append([]string{H(img)}, mapArgs(m2)...)...)
	}
}

func main() {
	Register("read", opRead)
	Register("write", opWrite)
	Register("readarea", opReadArea)
	Register("writearea", opWriteArea)
	Register("checksum", opChecksum)
	Register("jsonrt", opJSONRT)
	Register("p_json_id", pJSONID)
	Register("p_write_read", pWriteRead)
	Register("p_read_write_id", pReadWriteID)
	Register("p_areas", pAreas)
	Main(gen)
}
