// c13: executor and generator for property C13 (pkg/fmap).
package main

import (
	"bytes"
	"crypto/md5"
	"crypto/sha1"
	"crypto/sha256"
	"encoding/hex"
	"encoding/json"
	"errors"
	"hash"
	"io"
	"os"
	"os/exec"
	"path/filepath"
	"strconv"
	"strings"
	"unicode/utf8"

	"github.com/linuxboot/fiano/pkg/fmap"
	. "verifharness/common"
)

// memFile is an in-memory io.WriteSeeker / io.WriterAt that grows like a file.
type memFile struct {
	b   []byte
	pos int64
}

func (m *memFile) grow(n int64) {
	if int64(len(m.b)) < n {
		m.b = append(m.b, make([]byte, n-int64(len(m.b)))...)
	}
}
func (m *memFile) Write(p []byte) (int, error) {
	m.grow(m.pos + int64(len(p)))
	copy(m.b[m.pos:], p)
	m.pos += int64(len(p))
	return len(p), nil
}
func (m *memFile) Seek(off int64, whence int) (int64, error) {
	switch whence {
	case io.SeekStart:
		m.pos = off
	case io.SeekCurrent:
		m.pos += off
	case io.SeekEnd:
		m.pos = int64(len(m.b)) + off
	}
	if m.pos < 0 {
		return 0, errors.New("negative seek")
	}
	return m.pos, nil
}
func (m *memFile) WriteAt(p []byte, off int64) (int, error) {
	if off < 0 {
		return 0, errors.New("negative offset")
	}
	m.grow(off + int64(len(p)))
	copy(m.b[off:], p)
	return len(p), nil
}

// catHash is a hash.Hash that records the byte stream it is fed.
type catHash struct{ b []byte }

func (c *catHash) Write(p []byte) (int, error) { c.b = append(c.b, p...); return len(p), nil }
func (c *catHash) Sum(b []byte) []byte         { return append(b, c.b...) }
func (c *catHash) Reset()                      { c.b = nil }
func (c *catHash) Size() int                   { return len(c.b) }
func (c *catHash) BlockSize() int              { return 1 }

var _ hash.Hash = (*catHash)(nil)

// newFile is the in-memory file the code under test writes to. The file position is NOT at the start
// (a caller may hand fmap.Write a file it has already read from or written to): Metadata.Start is an
// absolute offset, so the result must not depend on it.
func newFile(img []byte) *memFile {
	return &memFile{b: append([]byte{}, img...), pos: int64((len(img)*7 + 3) % (len(img) + 5))}
}

var errTable = [][2]string{
	{"unexpected EOF while parsing fmap", "1"},
	{"cannot find FMAP signature", "2"},
	{"found multiple fmap", "3"},
	{"out of range", "4"},
	{"too large", "5"},
	{"EOF", "1"},
}

// map <-> args: sig vmaj vmin base size name nareas count {off size name flags}
func mapArgs(m *fmap.FMap) []string {
	a := []string{H(m.Signature[:]), N(uint64(m.VerMajor)), N(uint64(m.VerMinor)), N(m.Base),
		N(uint64(m.Size)), H(m.Name.Value[:]), N(uint64(m.NAreas)), N(uint64(len(m.Areas)))}
	for _, ar := range m.Areas {
		a = append(a, N(uint64(ar.Offset)), N(uint64(ar.Size)), H(ar.Name.Value[:]), N(uint64(ar.Flags)))
	}
	return a
}

func argsMap(a []string) (*fmap.FMap, []string) {
	m := &fmap.FMap{}
	copy(m.Signature[:], UnH(a[0]))
	m.VerMajor = uint8(UnN(a[1]))
	m.VerMinor = uint8(UnN(a[2]))
	m.Base = UnN(a[3])
	m.Size = uint32(UnN(a[4]))
	copy(m.Name.Value[:], UnH(a[5]))
	m.NAreas = uint16(UnN(a[6]))
	n := int(UnN(a[7]))
	a = a[8:]
	// a nil slice and an empty slice behave alike for everything we call
	for i := 0; i < n; i++ {
		var ar fmap.Area
		ar.Offset = uint32(UnN(a[0]))
		ar.Size = uint32(UnN(a[1]))
		copy(ar.Name.Value[:], UnH(a[2]))
		ar.Flags = uint16(UnN(a[3]))
		m.Areas = append(m.Areas, ar)
		a = a[4:]
	}
	return m, a
}

func obsMap(m *fmap.FMap, md *fmap.Metadata) string {
	return "ok " + N(md.Start) + " " + strings.Join(mapArgs(m), " ")
}

func opRead(args []string) string {
	m, md, err := fmap.Read(bytes.NewReader(UnH(args[0])))
	if err != nil {
		return ErrClass(err, errTable)
	}
	return obsMap(m, md)
}

func opWrite(args []string) string {
	img := UnH(args[0])
	m, rest := argsMap(args[1:])
	start := UnN(rest[0])
	f := newFile(img)
	if err := fmap.Write(f, m, &fmap.Metadata{Start: start}); err != nil {
		return ErrClass(err, errTable)
	}
	return "ok " + H(f.b)
}

// jsonSchema is the JSON document of `fmap jget` / `fmap jput` (cmds/fmap/fmap.go).
type jsonSchema struct {
	FMap     *fmap.FMap
	Metadata *fmap.Metadata
}

// jsonRoundTrip does what `fmap jget J IMG; fmap jput J IMG` does: read, marshal, unmarshal, write.
func jsonRoundTrip(img []byte) ([]byte, *fmap.FMap, error) {
	m, md, err := fmap.Read(bytes.NewReader(img))
	if err != nil {
		return nil, nil, err
	}
	data, err := json.MarshalIndent(jsonSchema{m, md}, "", "\t")
	if err != nil {
		return nil, m, errors.New("json: " + err.Error())
	}
	j := jsonSchema{}
	if err := json.Unmarshal(data, &j); err != nil {
		return nil, m, errors.New("json: " + err.Error())
	}
	f := newFile(img)
	if err := fmap.Write(f, j.FMap, j.Metadata); err != nil {
		return nil, m, err
	}
	return f.b, m, nil
}

func opJSONRT(args []string) string {
	out, _, err := jsonRoundTrip(UnH(args[0]))
	if err != nil {
		if strings.HasPrefix(err.Error(), "json: ") {
			return "err 6"
		}
		return ErrClass(err, errTable)
	}
	return "ok " + H(out)
}

// jget + jput leaves the image unchanged
func pJSONID(args []string) string {
	img := UnH(args[0])
	out, m, err := jsonRoundTrip(img)
	if m == nil {
		return "skip"
	}
	valid := utf8.Valid([]byte(m.Name.String()))
	for i := range m.Areas {
		valid = valid && utf8.Valid([]byte(m.Areas[i].Name.String()))
	}
	tag := ""
	if !valid {
		tag = "non-utf8-name "
	}
	if err != nil {
		return "FAIL " + tag + "json-roundtrip-error"
	}
	if !bytes.Equal(out, img) {
		return "FAIL " + tag + "image-changed-by-jget-jput"
	}
	return "ok"
}

func opReadArea(args []string) string {
	img := UnH(args[0])
	m, rest := argsMap(args[1:])
	i := int(UnI(rest[0]))
	b, err := m.ReadArea(bytes.NewReader(img), i)
	if err != nil {
		return ErrClass(err, errTable)
	}
	return "ok " + H(b)
}

func opWriteArea(args []string) string {
	img := UnH(args[0])
	m, rest := argsMap(args[1:])
	i := int(UnI(rest[0]))
	data := UnH(rest[1])
	f := &memFile{b: append([]byte{}, img...)}
	if err := m.WriteArea(f, i, data); err != nil {
		return ErrClass(err, errTable)
	}
	return "ok " + H(f.b)
}

func opChecksum(args []string) string {
	img := UnH(args[0])
	m, _ := argsMap(args[1:])
	h := &catHash{}
	s, err := m.Checksum(bytes.NewReader(img), h)
	if err != nil {
		return ErrClass(err, errTable)
	}
	return "ok " + H(s)
}

// ---- property oracles on the implementation (inputs satisfy the theorem's
// hypotheses by construction; see the generator) ----

func mapsEqual(a, b *fmap.FMap) bool {
	return strings.Join(mapArgs(a), " ") == strings.Join(mapArgs(b), " ")
}

// Write then Read returns the same map and offset; writing it again changes nothing.
func pWriteRead(args []string) string {
	img := UnH(args[0])
	m, rest := argsMap(args[1:])
	start := UnN(rest[0])
	f := newFile(img)
	if err := fmap.Write(f, m, &fmap.Metadata{Start: start}); err != nil {
		return "FAIL write-error " + err.Error()
	}
	// the written bytes are the flash-map layout (little-endian, packed) at Start and nothing else moved
	if want := refWriteAt(img, int(start), refEnc(m)); !bytes.Equal(f.b, want) {
		return "FAIL write-layout-or-confinement"
	}
	got, md, err := fmap.Read(bytes.NewReader(f.b))
	if err != nil {
		return "FAIL read-after-write: " + err.Error()
	}
	if md.Start != start {
		return "FAIL start " + N(md.Start)
	}
	if !mapsEqual(got, m) {
		return "FAIL map-differs"
	}
	g := newFile(f.b)
	if err := fmap.Write(g, got, md); err != nil {
		return "FAIL rewrite-error"
	}
	if !bytes.Equal(g.b, f.b) {
		return "FAIL rewrite-changed-image"
	}
	return "ok"
}

// Read then Write leaves the image unchanged (any image on which Read succeeds).
func pReadWriteID(args []string) string {
	img := UnH(args[0])
	m, md, err := fmap.Read(bytes.NewReader(img))
	if err != nil {
		return "skip"
	}
	if int(m.NAreas) != len(m.Areas) {
		return "FAIL partial-map"
	}
	f := newFile(img)
	if err := fmap.Write(f, m, md); err != nil {
		return "FAIL write-error"
	}
	if !bytes.Equal(f.b, img) {
		return "FAIL image-changed"
	}
	return "ok"
}

// areas: read exact, write confined / refused, checksum = static areas in order
func pAreas(args []string) string {
	img := UnH(args[0])
	m, rest := argsMap(args[1:])
	data := UnH(rest[0])
	var stream []byte
	for i, a := range m.Areas {
		inside := uint64(a.Offset)+uint64(a.Size) <= uint64(len(img))
		b, err := m.ReadArea(bytes.NewReader(img), i)
		if int(a.Offset) == len(img) && a.Size == 0 {
			// bytes.Reader.ReadAt reports io.EOF for an empty read at the very end; either answer is fine
		} else if inside {
			if err != nil {
				return "FAIL readarea-error " + N(uint64(i))
			}
			if !bytes.Equal(b, img[a.Offset:a.Offset+a.Size]) {
				return "FAIL readarea-bytes " + N(uint64(i))
			}
		} else if err == nil {
			return "FAIL readarea-outside-no-error " + N(uint64(i))
		}
		if a.Flags&fmap.FmapAreaStatic != 0 && inside {
			stream = append(stream, img[a.Offset:a.Offset+a.Size]...)
		}
		// write (an area far beyond the image would make the in-memory file grow to its offset: read side only)
		if uint64(a.Offset) > uint64(len(img))+1<<16 {
			continue
		}
		f := &memFile{b: append([]byte{}, img...)}
		err = m.WriteArea(f, i, data)
		if uint64(len(data)) > uint64(a.Size) {
			if err == nil {
				return "FAIL writearea-accepted-large " + N(uint64(i))
			}
			if !bytes.Equal(f.b, img) {
				return "FAIL writearea-refused-but-changed " + N(uint64(i))
			}
		} else {
			if err != nil {
				return "FAIL writearea-error " + N(uint64(i))
			}
			if uint64(a.Offset)+uint64(len(data)) <= uint64(len(img)) {
				if len(f.b) != len(img) {
					return "FAIL writearea-length " + N(uint64(i))
				}
				for k := range img {
					in := uint64(k) >= uint64(a.Offset) && uint64(k) < uint64(a.Offset)+uint64(len(data))
					if in && f.b[k] != data[uint64(k)-uint64(a.Offset)] {
						return "FAIL writearea-data " + N(uint64(i))
					}
					if !in && f.b[k] != img[k] {
						return "FAIL writearea-outside " + N(uint64(i))
					}
				}
			}
		}
	}
	// an index that names no area: refused by both calls, nothing read, nothing written
	if int(m.NAreas) == len(m.Areas) {
		for _, i := range []int{-1, len(m.Areas), len(m.Areas) + 1, 1 << 16, -1 << 31} {
			if b, err := m.ReadArea(bytes.NewReader(img), i); err == nil {
				return "FAIL readarea-no-such-area " + I(int64(i)) + " " + N(uint64(len(b)))
			}
			f := &memFile{b: append([]byte{}, img...)}
			if err := m.WriteArea(f, i, data); err == nil {
				return "FAIL writearea-no-such-area " + I(int64(i))
			}
			if !bytes.Equal(f.b, img) {
				return "FAIL writearea-no-such-area-but-changed " + I(int64(i))
			}
		}
	}
	allInside := true
	for _, a := range m.Areas {
		if a.Flags&fmap.FmapAreaStatic != 0 && (uint64(a.Offset)+uint64(a.Size) > uint64(len(img)) || int(a.Offset) == len(img)) {
			allInside = false
		}
	}
	h := &catHash{}
	s, err := m.Checksum(bytes.NewReader(img), h)
	if allInside {
		if err != nil {
			return "FAIL checksum-error"
		}
		if !bytes.Equal(s, stream) {
			return "FAIL checksum-stream"
		}
	} else if err == nil {
		return "FAIL checksum-outside-no-error"
	}
	return "ok"
}

// ---- an independent reading of the flash-map format (no encoding/binary, no fmap code) ----

func le(b []byte) uint64 {
	var v uint64
	for i := len(b) - 1; i >= 0; i-- {
		v = v<<8 | uint64(b[i])
	}
	return v
}

func putLE(dst []byte, v uint64, n int) []byte {
	for i := 0; i < n; i++ {
		dst = append(dst, byte(v>>(8*uint(i))))
	}
	return dst
}

// refEnc: 56-byte header (signature 8, major 1, minor 1, base 8, size 4, name 32, nareas 2) followed by
// one 42-byte entry per area (offset 4, size 4, name 32, flags 2), all little-endian, no padding.
func refEnc(m *fmap.FMap) []byte {
	b := append([]byte{}, m.Signature[:]...)
	b = append(b, m.VerMajor, m.VerMinor)
	b = putLE(b, m.Base, 8)
	b = putLE(b, uint64(m.Size), 4)
	b = append(b, m.Name.Value[:]...)
	b = putLE(b, uint64(m.NAreas), 2)
	for _, a := range m.Areas {
		b = putLE(b, uint64(a.Offset), 4)
		b = putLE(b, uint64(a.Size), 4)
		b = append(b, a.Name.Value[:]...)
		b = putLE(b, uint64(a.Flags), 2)
	}
	return b
}

// refWriteAt: what a file holds after writing d at offset off (a write past the end extends it, a gap reads as zeros).
func refWriteAt(img []byte, off int, d []byte) []byte {
	out := append([]byte{}, img...)
	if len(d) == 0 {
		return out
	}
	for len(out) < off+len(d) {
		out = append(out, 0)
	}
	copy(out[off:], d)
	return out
}

// refValidAt: does a plausible flash-map header start at p (signature, all 56 bytes present, major version 1,
// non-zero flash size, NUL-terminated name) -- the property's notion of "a map is here"; anything else is a decoy.
func refValidAt(d []byte, p int) bool {
	if p+56 > len(d) || !bytes.Equal(d[p:p+8], []byte("__FMAP__")) {
		return false
	}
	if d[p+8] != 1 || le(d[p+18:p+22]) == 0 {
		return false
	}
	for _, c := range d[p+22 : p+54] {
		if c == 0 {
			return true
		}
	}
	return false
}

// refDecode: the map at p, nil when its area table is not completely present.
func refDecode(d []byte, p int) *fmap.FMap {
	n := int(le(d[p+54 : p+56]))
	if p+56+42*n > len(d) {
		return nil
	}
	m := &fmap.FMap{}
	copy(m.Signature[:], d[p:p+8])
	m.VerMajor, m.VerMinor = d[p+8], d[p+9]
	m.Base = le(d[p+10 : p+18])
	m.Size = uint32(le(d[p+18 : p+22]))
	copy(m.Name.Value[:], d[p+22:p+54])
	m.NAreas = uint16(n)
	for i := 0; i < n; i++ {
		e := d[p+56+42*i : p+56+42*(i+1)]
		var a fmap.Area
		a.Offset, a.Size = uint32(le(e[0:4])), uint32(le(e[4:8]))
		copy(a.Name.Value[:], e[8:40])
		a.Flags = uint16(le(e[40:42]))
		m.Areas = append(m.Areas, a)
	}
	return m
}

// Read's verdict on an arbitrary image: exactly one plausible header whose table is complete -> that map and
// its offset; no plausible header (absent), more than one (duplicated) or an incomplete table (truncated) ->
// an error, never a map.
func pReadVerdict(args []string) string {
	img := UnH(args[0])
	var at []int
	for p := 0; p+56 <= len(img); p++ {
		if refValidAt(img, p) {
			at = append(at, p)
		}
	}
	var want *fmap.FMap
	if len(at) == 1 {
		want = refDecode(img, at[0])
	}
	got, md, err := fmap.Read(bytes.NewReader(img))
	if want == nil {
		if err == nil {
			switch {
			case len(at) == 0:
				return "FAIL map-returned-but-absent"
			case len(at) > 1:
				return "FAIL map-returned-but-duplicated " + N(uint64(len(at)))
			}
			return "FAIL map-returned-but-truncated"
		}
		return "ok"
	}
	if err != nil {
		return "FAIL single-complete-map-not-read: " + err.Error()
	}
	if md == nil || md.Start != uint64(at[0]) {
		return "FAIL single-map-wrong-offset"
	}
	if !mapsEqual(got, want) {
		return "FAIL single-map-differs"
	}
	return "ok"
}

// ---- the real command: cmds/fmap built from the tree under test (path in C13_FMAPCLI, see main) ----

func runCLI(stdout *[]byte, args ...string) error {
	cmd := exec.Command(os.Getenv("C13_FMAPCLI"), args...)
	var out bytes.Buffer
	cmd.Stdout = &out
	err := cmd.Run()
	if stdout != nil {
		*stdout = out.Bytes()
	}
	return err
}

// args: image holding the given map (written by the generator, no other plausible header), the map, its offset.
// fmap jget J F; fmap jput J F leaves F unchanged; fmap extract i F prints the area's bytes; fmap checksum
// <hash> F prints the hash of the static areas in table order.
func pCLI(args []string) string {
	if os.Getenv("C13_FMAPCLI") == "" {
		return "skip"
	}
	if os.Getenv("C13_FMAPCLI") == "!" {
		return "FAIL cmds/fmap-does-not-build"
	}
	img := UnH(args[0])
	m, _ := argsMap(args[1:])
	dir, err := os.MkdirTemp("", "c13cli")
	if err != nil {
		return "skip"
	}
	defer os.RemoveAll(dir)
	F, J := filepath.Join(dir, "flash.bin"), filepath.Join(dir, "map.json")
	if err := os.WriteFile(F, img, 0o600); err != nil {
		return "skip"
	}
	valid := utf8.Valid([]byte(m.Name.String()))
	for i := range m.Areas {
		valid = valid && utf8.Valid([]byte(m.Areas[i].Name.String()))
	}
	if valid { // names that are not valid UTF-8 do not survive JSON: known finding, judged by p_json_id
		if err := runCLI(nil, "jget", J, F); err != nil {
			return "FAIL cli-jget-error"
		}
		if err := runCLI(nil, "jput", J, F); err != nil {
			return "FAIL cli-jput-error"
		}
		after, _ := os.ReadFile(F)
		if !bytes.Equal(after, img) {
			return "FAIL cli-image-changed-by-jget-jput"
		}
	}
	var stream []byte
	allInside, either := true, false
	for i, a := range m.Areas {
		inside := uint64(a.Offset)+uint64(a.Size) <= uint64(len(img))
		// an empty area at or beyond the end of the file: whether an empty read there is an error is the
		// reader's business (bytes.Reader says EOF, os.File says nothing), either answer is fine (DESIGN 10)
		edge := a.Size == 0 && uint64(a.Offset) >= uint64(len(img))
		if a.Flags&fmap.FmapAreaStatic != 0 {
			switch {
			case edge:
				either = true
			case !inside:
				allInside = false
			default:
				stream = append(stream, img[a.Offset:a.Offset+a.Size]...)
			}
		}
		if i > 3 && i < len(m.Areas)-1 {
			continue // extract: the first areas and the last one
		}
		var out []byte
		err := runCLI(&out, "extract", strconv.Itoa(i), F)
		switch {
		case edge:
		case inside && err != nil:
			return "FAIL cli-extract-error " + N(uint64(i))
		case inside && !bytes.Equal(out, img[a.Offset:a.Offset+a.Size]):
			return "FAIL cli-extract-bytes " + N(uint64(i))
		case !inside && err == nil:
			return "FAIL cli-extract-outside-no-error " + N(uint64(i))
		}
	}
	var out []byte
	hname, hnew := "sha256", sha256.New
	switch len(img) % 3 {
	case 1:
		hname, hnew = "sha1", sha1.New
	case 2:
		hname, hnew = "md5", md5.New
	}
	err = runCLI(&out, "checksum", hname, F)
	if allInside {
		hh := hnew()
		hh.Write(stream)
		sum := hh.Sum(nil)
		if err != nil && either {
			return "ok"
		}
		if err != nil {
			return "FAIL cli-checksum-error"
		}
		if strings.TrimSpace(string(out)) != hex.EncodeToString(sum) {
			return "FAIL cli-checksum-value"
		}
	} else if err == nil {
		return "FAIL cli-checksum-outside-no-error"
	}
	return "ok"
}

// buildCLI compiles cmds/fmap of the tree under test (the harness module's replace directive points at it)
// once per executor run; the workers find it through the environment.
func buildCLI() func() {
	exe, err := os.Executable()
	if err != nil {
		return func() {}
	}
	harness := filepath.Join(filepath.Dir(filepath.Dir(filepath.Dir(exe))), "harness")
	dir, err := os.MkdirTemp("", "c13bin")
	if err != nil {
		return func() {}
	}
	bin := filepath.Join(dir, "fmapcli")
	cmd := exec.Command("go", "build", "-o", bin, "github.com/linuxboot/fiano/cmds/fmap")
	cmd.Dir = harness
	if out, err := cmd.CombinedOutput(); err != nil {
		os.Stderr.WriteString("c13: cannot build cmds/fmap: " + string(out) + "\n")
		bin = "!"
	}
	os.Setenv("C13_FMAPCLI", bin)
	return func() { os.RemoveAll(dir) }
}

// ---- generators ----

func filler(r *Rng, n int) []byte {
	b := r.Bytes(n)
	mode := r.Intn(3)
	for i := range b {
		switch mode {
		case 0:
			b[i] = 0xFF
		case 1:
			b[i] &= 0x0F
		}
		if b[i] == 0x5F {
			b[i] = 0x60
		}
	}
	return b
}

// name32: a 32-byte name field. Header names must hold a NUL somewhere (headerValid); nothing else is
// required of a name: any byte values (space, control characters, DEL, bytes >= 0x80), the NUL at any
// position (first byte = empty name, last byte only) and arbitrary bytes after an embedded NUL are legal.
func name32(r *Rng, needNul bool) [32]uint8 {
	var v [32]uint8
	n := r.Pick(0, 1, 5, 16, 31, 32)
	if needNul && n == 32 {
		n = 31
	}
	kind := r.Intn(16)
	for i := 0; i < n; i++ {
		switch {
		case kind <= 7:
			v[i] = byte('A' + r.Intn(26))
		case kind <= 11: // any 7-bit byte but NUL
			v[i] = byte(1 + r.Intn(0x7F))
		case kind <= 14: // the awkward ones
			v[i] = byte(r.Pick(' ', '\t', 1, 0x1F, 0x7F, '"', '\\', '<', '_', 'a', '0'))
		default: // any byte but NUL
			v[i] = byte(1 + r.Intn(0xFF))
		}
	}
	if !needNul && r.Chance(1, 4) {
		for i := range v {
			v[i] = byte(1 + r.Intn(0x7F))
		}
	}
	if n < 30 && r.Chance(1, 5) { // bytes after an embedded NUL
		for i := n + 1 + r.Intn(31-n); i < 32; i++ {
			v[i] = byte(1 + r.Intn(0x7F))
		}
		if needNul || r.Bool() {
			v[n] = 0
		}
	}
	return v
}

func ascii7(m *fmap.FMap) bool {
	ok := true
	chk := func(v [32]uint8) {
		for _, c := range v {
			ok = ok && c < 0x80
		}
	}
	chk(m.Name.Value)
	for _, a := range m.Areas {
		chk(a.Name.Value)
	}
	return ok
}

// farArea: the area lies (or its size reaches) far beyond the image, near 2^32
func farArea(a fmap.Area, imgLen int) bool { return uint64(a.Offset) > uint64(imgLen)+1<<16 }

// genMap: big = area sizes around the 4 KiB read granularity of ReadArea (for images of several KiB)
func genMap(r *Rng, imgLen int, big bool) *fmap.FMap {
	m := &fmap.FMap{}
	copy(m.Signature[:], fmap.Signature)
	m.VerMajor = 1
	m.VerMinor = uint8(r.Intn(256))
	m.Base = r.U64()
	if r.Chance(1, 3) {
		m.Base = 0xFFFFFFFF_FFFFFFFF - uint64(r.Intn(4))
	}
	m.Size = uint32(1 + r.Intn(1<<20))
	if r.Chance(1, 4) {
		m.Size = 0xFFFFFFFF
	}
	m.Name.Value = name32(r, true)
	n := r.Pick(0, 0, 1, 2, 3, 5, 8)
	if r.Chance(1, 20) {
		n = 30 + r.Intn(20)
	}
	if !big && r.Chance(1, 100) {
		n = 250 + r.Intn(60) // NAreas needs its second byte
	}
	for i := 0; i < n; i++ {
		var a fmap.Area
		sz := r.Intn(40)
		if big && r.Chance(2, 3) {
			sz = r.Pick(4095, 4096, 4097, 8191, 8192, 8193, 12287, 12288, 12289, 16384, 16385) + r.Pick(0, 0, 0, 100, 4000)
			if sz > imgLen && r.Chance(3, 4) {
				sz = imgLen - r.Intn(imgLen/4+1)
			}
		}
		off := 0
		if imgLen > sz {
			off = r.Intn(imgLen - sz + 1)
		}
		if r.Chance(1, 8) {
			off = imgLen - sz/2 // straddles the end
			if off < 0 {
				off = 0
			}
		}
		if r.Chance(1, 30) {
			off = imgLen + r.Intn(50) // entirely past the end
		}
		a.Offset, a.Size = uint32(off), uint32(sz)
		if r.Chance(1, 25) { // arithmetic near 2^32: offset + size does not fit 32 bits
			switch r.Intn(3) {
			case 0:
				a.Offset = 0xFFFFFFFF - uint32(r.Intn(64))
			case 1:
				a.Size = 0xFFFFFFFF - uint32(r.Intn(64))
			default:
				a.Offset = 0xFFFFFFFF - uint32(r.Intn(64))
				a.Size = uint32(off) - a.Offset + uint32(r.Intn(3)) // the 32-bit sum wraps to a position inside the image
			}
		}
		a.Name.Value = name32(r, false)
		a.Flags = uint16(r.Pick(0, 1, 1, 2, 3, 4, 7, 0xFFFF, 0x8001, 0xFFFE))
		m.Areas = append(m.Areas, a)
	}
	m.NAreas = uint16(len(m.Areas))
	return m
}

func encMap(m *fmap.FMap) []byte {
	f := &memFile{}
	_ = fmap.Write(f, m, &fmap.Metadata{})
	return f.b
}

// decoy writes a signature at p whose header is invalid in the way `kind` says; the 56 bytes must fit.
func decoy(r *Rng, b []byte, p int, kind int) {
	copy(b[p:], fmap.Signature)
	switch kind {
	case 0: // bad major version
		b[p+8] = byte(r.Pick(0, 2, 255))
	case 1: // flash size 0
		b[p+8] = 1
		copy(b[p+18:p+22], []byte{0, 0, 0, 0})
	default: // name without NUL
		b[p+8] = 1
		b[p+18] = 1
		for i := 22; i < 54; i++ {
			b[p+i] = 'x'
		}
	}
}

func gen(r *Rng, tier string, emit Emit) {
	n := 400
	if tier == "thorough" {
		n = 12000
	}
	sig := fmap.Signature
	for it := 0; it < n; it++ {
		rr := r.Fork(uint64(it))
		imgLen := rr.Pick(0, 7, 8, 55, 56, 57, 100, 300, 700, 1500)
		if imgLen >= 100 {
			imgLen += rr.Intn(64)
		}
		big := it%40 == 7 // a few images of several KiB: areas larger than one ReadArea chunk
		if big {
			imgLen = rr.Pick(4096, 4097, 8192, 8300, 12289, 16384, 17000, 21000)
		}
		img := filler(rr, imgLen)
		m := genMap(rr, imgLen, big)
		enc := encMap(m)
		start := 0
		if imgLen > len(enc) {
			start = rr.Intn(imgLen - len(enc) + 1)
		} else if rr.Bool() {
			start = rr.Intn(imgLen + 20) // write extends the image
		}
		// P: write then read, decoys that are invalid by construction
		pimg := append([]byte{}, img...)
		switch rr.Intn(9) {
		case 0: // partial signature glued in front of the map
			k := rr.Range(1, 7)
			if start >= k && start <= len(pimg) {
				copy(pimg[start-k:start], sig[:k])
			}
		case 1: // full decoy with bad major version, well before the map
			if start >= 130 {
				p := rr.Intn(start - 120)
				copy(pimg[p:], sig)
				pimg[p+8] = byte(rr.Pick(0, 2, 255))
			}
		case 2: // signature too close to the end to hold a header
			k := rr.Range(8, 55)
			if start+len(enc)+64+k <= len(pimg) {
				copy(pimg[len(pimg)-k:], sig)
				if k > 8 {
					pimg[len(pimg)-k+8] = 1
				}
			}
		case 3: // decoy with size 0 after the map
			p := start + len(enc) + 10
			if p+56 <= len(pimg) {
				copy(pimg[p:], sig)
				pimg[p+8] = 1
				copy(pimg[p+18:p+22], []byte{0, 0, 0, 0})
			}
		case 4: // decoy with a name that has no NUL, after the map
			p := start + len(enc) + 3
			if p+56 <= len(pimg) {
				copy(pimg[p:], sig)
				pimg[p+8] = 1
				pimg[p+18] = 1
				for i := 22; i < 54; i++ {
					pimg[p+i] = 'x'
				}
			}
		case 5, 6: // any kind of decoy at any distance BEFORE the map (header wholly before it, down to adjacent)
			if start >= 56 && start <= len(pimg) {
				p := start - 56 - rr.Pick(0, 0, 1, 7, 8, rr.Intn(start-55))
				if p < 0 {
					p = 0
				}
				decoy(rr, pimg, p, rr.Intn(3))
			}
		case 7: // any kind of decoy directly AFTER the map
			p := start + len(enc) + rr.Pick(0, 0, 1, 7, 8)
			if p+56 <= len(pimg) {
				decoy(rr, pimg, p, rr.Intn(3))
			}
		}
		emit("P", "p_write_read", append(append([]string{H(pimg)}, mapArgs(m)...), N(uint64(start)))...)
		// C: write, then read of the result
		emit("C", "write", append(append([]string{H(pimg)}, mapArgs(m)...), N(uint64(start)))...)
		written := refWriteAt(pimg, start, refEnc(m))
		emit("C", "read", H(written))
		emit("P", "p_read_write_id", H(written))
		emit("P", "p_read_verdict", H(written))
		if ascii7(m) {
			emit("C", "jsonrt", H(written))
			emit("P", "p_json_id", H(written))
		}
		if it%6 == 1 { // the real command on a real file
			emit("P", "p_cli", append(append([]string{H(written)}, mapArgs(m)...), N(uint64(start)))...)
		}
		if rr.Chance(1, 12) && len(m.Areas) > 0 {
			// names that are not 7-bit: valid UTF-8 must survive; bytes that are not valid UTF-8 do not
			// (KNOWN FINDING, known_findings.txt)
			m3 := *m
			m3.Areas = append([]fmap.Area{}, m.Areas...)
			k := rr.Intn(len(m3.Areas))
			var nm [32]uint8
			if rr.Bool() {
				copy(nm[:], "h\xc3\xa9llo-\xe2\x82\xac-\xf0\x9f\x98\x80")
			} else {
				copy(nm[:], []byte{'A', byte(0x80 + rr.Intn(0x80)), 'B'})
			}
			m3.Areas[k].Name.Value = nm
			if ascii7(m) {
				emit("P", "p_json_id", H(refWriteAt(pimg, start, refEnc(&m3))))
			}
		}

		// malformed / adversarial reads
		bad := append([]byte{}, written...)
		switch rr.Intn(11) {
		case 0: // second valid map -> multiple
			bad = append(bad, filler(rr, rr.Intn(30))...)
			bad = append(bad, encMap(genMap(rr, len(bad), false))...)
		case 1: // truncate inside header or areas
			if len(bad) > start {
				bad = bad[:start+rr.Intn(len(bad)-start)]
			}
		case 2: // flip a header byte
			if start+56 <= len(bad) {
				bad[start+rr.Intn(56)] ^= byte(1 << uint(rr.Intn(8)))
			}
		case 3: // NAreas boundary values
			if start+56 <= len(bad) {
				v := rr.Pick(0, 1, 0xFFFF, int(m.NAreas)+1, int(m.NAreas)-1)
				bad[start+54], bad[start+55] = byte(v), byte(v>>8)
			}
		case 4: // signature in the last bytes
			k := rr.Range(1, 60)
			bad = append(bad, sig...)
			bad = append(bad, filler(rr, k)...)
			if rr.Bool() && k > 1 {
				bad[len(bad)-k] = 1
			}
		case 5: // overlapping signatures "__FMAP__FMAP__"
			bad = append(append(append([]byte{}, sig[:6]...), enc...), filler(rr, 5)...)
		case 6: // random garbage
			bad = rr.Bytes(rr.Intn(200))
		case 7: // only signatures
			bad = bytes.Repeat(sig, rr.Range(1, 9))
			bad = append(bad, 1)
		case 8: // a second valid map BEFORE the first, adjacent or not; its table complete or cut by nothing
			pre := encMap(genMap(rr, 100, false))
			bad = append(append(pre, filler(rr, rr.Pick(0, 0, 1, 30))...), bad...)
		case 9: // a second plausible header INSIDE the area table of the map (area 0's name starts with the
			// signature; the nested header's name runs over flags, offset and size of area 1; its NAreas is
			// area 1's name[12:14])
			if len(m.Areas) >= 2 && start+len(enc) <= len(bad) {
				e := start + 56
				copy(bad[e+8:], sig)
				bad[e+16] = 1                                           // major
				bad[e+26], bad[e+27], bad[e+28], bad[e+29] = 1, 0, 0, 0 // flash size
				bad[e+40], bad[e+41] = 0, 0                             // area 0 flags: the NUL of the nested name
				k := rr.Pick(0, 0, 1, 2, 0xFFFF)
				bad[e+42+8+12], bad[e+42+8+13] = byte(k), byte(k>>8)
			}
		case 10: // exactly at the header / table boundary, and one byte either side
			if cut := start + 56 + rr.Pick(-1, 0, 0, 1, 41, 42, 43); cut <= len(bad) && len(m.Areas) > 0 {
				bad = bad[:cut]
			}
		}
		emit("C", "read", H(bad))
		emit("P", "p_read_write_id", H(bad))
		emit("P", "p_read_verdict", H(bad))

		// areas
		m2 := genMap(rr, len(img), big)
		dl := rr.Pick(0, 1, 5, 20, 39, 40, 41)
		if big {
			dl = rr.Pick(0, 4096, 4097, 8193, 12288, 16385)
		}
		data := rr.Bytes(dl)
		emit("P", "p_areas", append(append([]string{H(img)}, mapArgs(m2)...), H(data))...)
		if rr.Chance(1, 5) { // NAreas out of step with len(Areas)
			m2.NAreas = uint16(int(m2.NAreas) + rr.Pick(-1, 1, 3))
		}
		idx := rr.Range(-1, len(m2.Areas)+1)
		emit("C", "readarea", append(append([]string{H(img)}, mapArgs(m2)...), I(int64(idx)))...)
		if idx < 0 || idx >= len(m2.Areas) || !farArea(m2.Areas[idx], len(img)) {
			emit("C", "writearea", append(append([]string{H(img)}, mapArgs(m2)...), I(int64(idx)), H(data))...)
		}
		emit("C", "checksum", append([]string{H(img)}, mapArgs(m2)...)...)
	}
}

func main() {
	if len(os.Args) > 1 && (os.Args[1] == "gen" || os.Args[1] == "replay") {
		defer buildCLI()()
	}
	Register("p_read_verdict", pReadVerdict)
	Register("p_cli", pCLI)
	Register("read", opRead)
	Register("write", opWrite)
	Register("readarea", opReadArea)
	Register("writearea", opWriteArea)
	Register("checksum", opChecksum)
	Register("jsonrt", opJSONRT)
	Register("p_json_id", pJSONID)
	Register("p_write_read", pWriteRead)
	Register("p_read_write_id", pReadWriteID)
	Register("p_areas", pAreas)
	Main(gen)
}
