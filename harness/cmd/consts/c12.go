package main

import (
	"encoding/binary"
	"unsafe"

	"github.com/linuxboot/fiano/pkg/uefi"
)

func init() {
	section("c12", func() {
		bs("ifd_signature", uefi.FlashSignature)
		z("ifd_desc_len", uefi.FlashDescriptorLength)
		z("ifd_block", uefi.RegionBlockSize)
		z("ifd_dmap_size", uefi.FlashDescriptorMapSize)
		z("ifd_region_section_size", uefi.FlashRegionSectionSize)
		z("ifd_region_section_binsize", binary.Size(uefi.FlashRegionSection{}))
		z("ifd_master_size", uefi.FlashMasterSectionSize)
		z("ifd_master_binsize", binary.Size(uefi.FlashMasterSection{}))
		z("ifd_nslots", len(uefi.FlashRegionSection{}.FlashRegions))
		z("ifd_type_bios", int(uefi.RegionTypeBIOS))
		z("ifd_type_me", int(uefi.RegionTypeME))
		// field offsets inside the descriptor map (all fields are uint8)
		z("ifd_dmap_off_region_base", unsafe.Offsetof(uefi.FlashDescriptorMap{}.RegionBase))
		z("ifd_dmap_off_nregions", unsafe.Offsetof(uefi.FlashDescriptorMap{}.NumberOfRegions))
		z("ifd_dmap_off_master_base", unsafe.Offsetof(uefi.FlashDescriptorMap{}.MasterBase))
		// region section: blank uint16, FlashBlockEraseSize uint16, then the slots
		z("ifd_rsec_off_erase", unsafe.Offsetof(uefi.FlashRegionSection{}.FlashBlockEraseSize))
		z("ifd_rsec_off_slots", unsafe.Offsetof(uefi.FlashRegionSection{}.FlashRegions))
		z("ifd_slot_size", binary.Size(uefi.FlashRegion{}))
		bs("mefpt_signature", uefi.MEFPTSignature)
		z("mefpt_min_len", uefi.MEPartitionDescriptorMinLength)
		z("mefpt_entry_len", uefi.MEPartitionTableEntryLength)
		z("mefpt_entry_binsize", binary.Size(uefi.MEPartitionEntry{}))
		z("mefpt_off_offset", unsafe.Offsetof(uefi.MEPartitionEntry{}.Offset))
		z("mefpt_off_length", unsafe.Offsetof(uefi.MEPartitionEntry{}.Length))
		z("fvh_fixed_size", uefi.FirmwareVolumeFixedHeaderSize)
		z("fvh_min_size", uefi.FirmwareVolumeMinSize)
		z("fvh_off_guid", unsafe.Offsetof(uefi.FirmwareVolumeFixedHeader{}.FileSystemGUID))
		z("fvh_off_length", unsafe.Offsetof(uefi.FirmwareVolumeFixedHeader{}.Length))
		z("fvh_off_attributes", unsafe.Offsetof(uefi.FirmwareVolumeFixedHeader{}.Attributes))
		bs("fvh_ffs2", uefi.FFS2[:])
		bs("fvh_ffs3", uefi.FFS3[:])
		// value of the global at program start (the "poisoned" polarity)
		z("erase_polarity_poison", uefi.Attributes.ErasePolarity)
	})
}
