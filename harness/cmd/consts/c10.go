package main

import (
	"encoding/binary"

	"github.com/linuxboot/fiano/pkg/guid"
	"github.com/linuxboot/fiano/pkg/uefi"
)

func init() {
	section("c10", func() {
		sig := make([]byte, 4)
		binary.LittleEndian.PutUint32(sig, uefi.NVarEntrySignature)
		bs("nvar_signature", sig)
		z("nvar_header_size", binary.Size(uefi.NVarHeader{}))
		z("nvar_guid_size", binary.Size(guid.GUID{}))
		z("nvar_attr_runtime", uint8(uefi.NVarEntryRuntime))
		z("nvar_attr_ascii", uint8(uefi.NVarEntryASCIIName))
		z("nvar_attr_guid", uint8(uefi.NVarEntryGUID))
		z("nvar_attr_dataonly", uint8(uefi.NVarEntryDataOnly))
		z("nvar_attr_ext", uint8(uefi.NVarEntryExtHeader))
		z("nvar_attr_hwerr", uint8(uefi.NVarEntryHWErrorRecord))
		z("nvar_attr_auth", uint8(uefi.NVarEntryAuthWrite))
		z("nvar_attr_valid", uint8(uefi.NVarEntryValid))
		z("nvar_ext_checksum", uint8(uefi.NVarEntryExtChecksum))
		z("nvar_type_invalid", uint8(uefi.InvalidNVarEntry))
		z("nvar_type_invalid_link", uint8(uefi.InvalidLinkNVarEntry))
		z("nvar_type_link", uint8(uefi.LinkNVarEntry))
		z("nvar_type_data", uint8(uefi.DataNVarEntry))
		z("nvar_type_full", uint8(uefi.FullNVarEntry))
	})
}
