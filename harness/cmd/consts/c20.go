package main

import (
	"encoding/binary"

	"github.com/linuxboot/fiano/pkg/fsp"
	"github.com/linuxboot/fiano/pkg/intel/me"
	"github.com/linuxboot/fiano/pkg/intel/microcode"
)

func init() {
	section("c20", func() {
		// pkg/intel/microcode
		z("mc_header_size", binary.Size(microcode.Header{}))
		z("mc_default_datasize", microcode.DefaultDatasize)
		z("mc_default_totalsize", microcode.DefaultTotalSize)
		z("mc_ext_table_size", binary.Size(microcode.ExtendedSigTable{}))
		z("mc_ext_sig_size", binary.Size(microcode.ExtendedSignature{}))
		// pkg/intel/me
		bs("me_signature", me.Signature[:])
		z("me_entry_size", binary.Size(me.FlashPartitionTableEntry{}))
		// pkg/fsp
		bs("fsp_signature", fsp.Signature[:])
		z("fsp_fixed_len", fsp.FixedInfoHeaderLength)
		z("fsp_v3_len", fsp.HeaderV3Length)
		z("fsp_v4_len", fsp.HeaderV4Length)
		z("fsp_v5_len", fsp.HeaderV5Length)
		z("fsp_v6_len", fsp.HeaderV6Length)
		z("fsp_spec_current", uint8(fsp.CurrentSpecVersion))
		z("fsp_spec_unsupported", uint8(fsp.UnsupportedSpecVersion))
		z("fsp_min_rev", fsp.HeaderMinRevision)
		z("fsp_max_rev", fsp.HeaderMaxRevision)
		z("fsp_rev3_wire", binary.Size(fsp.InfoHeaderRev3{}))
		z("fsp_rev5_wire", binary.Size(fsp.InfoHeaderRev5{}))
		z("fsp_rev6_wire", binary.Size(fsp.InfoHeaderRev6{}))
	})
}
