package main

// c18: pkg/amd/apcb keeps its layout structs and signatures unexported, so the
// constants are obtained by type-checking pkg/amd/apcb/internal.go (it has no
// imports) with go/types: constant values as the compiler evaluates them,
// struct sizes and field offsets as encoding/binary lays them out (no padding).

import (
	"fmt"
	"go/ast"
	"go/constant"
	"go/importer"
	"go/parser"
	"go/token"
	"go/types"
	"os"
	"path/filepath"
)

func c18BinSize(t types.Type) int {
	switch u := t.Underlying().(type) {
	case *types.Basic:
		switch u.Kind() {
		case types.Uint8, types.Int8, types.Bool:
			return 1
		case types.Uint16, types.Int16:
			return 2
		case types.Uint32, types.Int32:
			return 4
		case types.Uint64, types.Int64:
			return 8
		}
	case *types.Array:
		return int(u.Len()) * c18BinSize(u.Elem())
	case *types.Struct:
		n := 0
		for i := 0; i < u.NumFields(); i++ {
			n += c18BinSize(u.Field(i).Type())
		}
		return n
	}
	panic(fmt.Sprintf("c18: no fixed binary size for %v", t))
}

// offset of a (possibly nested, dot separated) field
func c18Offset(t types.Type, path ...string) int {
	off := 0
	for _, name := range path {
		st := t.Underlying().(*types.Struct)
		found := false
		for i := 0; i < st.NumFields(); i++ {
			f := st.Field(i)
			if f.Name() == name {
				t = f.Type()
				found = true
				break
			}
			off += c18BinSize(f.Type())
		}
		if !found {
			panic("c18: no field " + name)
		}
	}
	return off
}

func init() {
	section("c18", func() {
		repo := os.Getenv("VERIF_REPO_PATH")
		if repo == "" {
			repo = "/repo"
		}
		fset := token.NewFileSet()
		var files []*ast.File
		for _, fn := range []string{"internal.go", "apcb.go"} {
			f, err := parser.ParseFile(fset, filepath.Join(repo, "pkg/amd/apcb", fn), nil, 0)
			if err != nil {
				panic(err)
			}
			files = append(files, f)
		}
		conf := types.Config{Importer: importer.ForCompiler(fset, "source", nil), Error: func(error) {}}
		pkg, _ := conf.Check("apcb", fset, files, nil)
		look := func(name string) types.Object {
			o := pkg.Scope().Lookup(name)
			if o == nil {
				panic("c18: " + name + " not found in pkg/amd/apcb/internal.go")
			}
			return o
		}
		cst := func(coq, name string) {
			v, ok := constant.Uint64Val(look(name).(*types.Const).Val())
			if !ok {
				panic("c18: not an integer constant: " + name)
			}
			z(coq, v)
		}
		cst("apcb_sig_v2", "headerV2Signature")
		cst("apcb_sig_v3", "headerV3Signature")
		cst("apcb_sig_end", "headerV3EndingSignature")
		cst("apcb_sig_token_group", "tokenGroupSignature")
		cst("apcb_tokens_group_id", "tokensGroupID")
		cst("apcb_type_bool", "booleanTokenType")
		cst("apcb_type_1byte", "oneByteTokenType")
		cst("apcb_type_2bytes", "twoBytesTokenType")
		cst("apcb_type_4bytes", "fourBytesTokenType")
		cst("apcb_ctx_token_v3", "tokenV3ContextType")
		cst("apcb_fmt_sort_asc", "sortAscByUnitSizeContextFormat")
		h := look("headerV3").Type()
		g := look("groupHeader").Type()
		t := look("typeHeaderV3").Type()
		p := look("tokenPair").Type()
		z("apcb_hdr_size", c18BinSize(h))
		z("apcb_hdr_off_sig", c18Offset(h, "V2Header", "Signature"))
		z("apcb_hdr_off_size", c18Offset(h, "V2Header", "SizeOfAPCB"))
		z("apcb_hdr_off_sig2", c18Offset(h, "Signature2"))
		z("apcb_hdr_off_sigend", c18Offset(h, "SignatureEnding"))
		z("apcb_grp_size", c18BinSize(g))
		z("apcb_grp_off_sig", c18Offset(g, "Signature"))
		z("apcb_grp_off_id", c18Offset(g, "GroupID"))
		z("apcb_grp_off_hsize", c18Offset(g, "SizeOfHeader"))
		z("apcb_grp_off_version", c18Offset(g, "Version"))
		z("apcb_grp_off_size", c18Offset(g, "SizeOfGroup"))
		z("apcb_typ_size", c18BinSize(t))
		z("apcb_typ_off_gid", c18Offset(t, "GroupID"))
		z("apcb_typ_off_tid", c18Offset(t, "TypeID"))
		z("apcb_typ_off_size", c18Offset(t, "SizeOfType"))
		z("apcb_typ_off_inst", c18Offset(t, "InstanceID"))
		z("apcb_typ_off_ctx", c18Offset(t, "ContextType"))
		z("apcb_typ_off_fmt", c18Offset(t, "ContextFormat"))
		z("apcb_typ_off_unit", c18Offset(t, "UnitSize"))
		z("apcb_typ_off_prio", c18Offset(t, "PriorityMask"))
		z("apcb_typ_off_keysize", c18Offset(t, "KeySize"))
		z("apcb_typ_off_keypos", c18Offset(t, "KeyPos"))
		z("apcb_typ_off_board", c18Offset(t, "BoardMask"))
		z("apcb_pair_size", c18BinSize(p))
		z("apcb_pair_off_id", c18Offset(p, "ID"))
		z("apcb_pair_off_value", c18Offset(p, "Value"))
	})
}
