package main

import (
	"bytes"
	"encoding/binary"
	"fmt"
	"sort"
	"strings"

	"github.com/linuxboot/fiano/pkg/uefi"
)

func init() {
	section("c09", func() {
		z("c09_fv_fixed_header_size", uefi.FirmwareVolumeFixedHeaderSize)
		z("c09_fv_min_size", uefi.FirmwareVolumeMinSize)
		z("c09_file_header_min", uefi.FileHeaderMinLength)
		z("c09_file_header_ext_min", uefi.FileHeaderExtMinLength)
		z("c09_section_ext_min", uefi.SectionExtMinLength)
		z("c09_empty_body_checksum", uefi.EmptyBodyChecksum)
		z("c09_fv_signature", binary.LittleEndian.Uint32([]byte("_FVH")))
		// the keys of uefi.FVGUIDs (volume types validate knows), in byte order
		var keys [][]byte
		for g := range uefi.FVGUIDs {
			b := make([]byte, 16)
			copy(b, g[:])
			keys = append(keys, b)
		}
		sort.Slice(keys, func(i, j int) bool { return bytes.Compare(keys[i], keys[j]) < 0 })
		parts := make([]string, len(keys))
		for i, k := range keys {
			bsx := make([]string, len(k))
			for j, x := range k {
				bsx[j] = fmt.Sprintf("%d", x)
			}
			parts[i] = "[" + strings.Join(bsx, "; ") + "]"
		}
		fmt.Fprintf(&out, "Definition c09_fv_guids : list (list Z) := [%s].\n", strings.Join(parts, ";\n  "))
	})
}
