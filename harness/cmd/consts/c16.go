package main

import (
	"encoding/binary"
	"fmt"
	"reflect"

	"github.com/linuxboot/fiano/pkg/amd/psb"
	"github.com/linuxboot/fiano/pkg/intel/metadata/bg"
	"github.com/linuxboot/fiano/pkg/intel/metadata/cbnt"
	"github.com/linuxboot/fiano/pkg/intel/metadata/cbnt/cbntkey"
)

// c16FieldOffset is the offset of an exported field in the wire form of a
// fixed-size struct read with encoding/binary.
func c16FieldOffset(v interface{}, name string) int {
	t := reflect.TypeOf(v)
	off := 0
	for i := 0; i < t.NumField(); i++ {
		if t.Field(i).Name == name {
			return off
		}
		off += binary.Size(reflect.New(t.Field(i).Type).Elem().Interface())
	}
	panic("no field " + name)
}

func init() {
	section("c16", func() {
		z("c16_alg_rsa", uint16(cbnt.AlgRSA))
		z("c16_alg_sha1", uint16(cbnt.AlgSHA1))
		z("c16_alg_sha256", uint16(cbnt.AlgSHA256))
		z("c16_alg_sha384", uint16(cbnt.AlgSHA384))
		z("c16_alg_sha512", uint16(cbnt.AlgSHA512))
		z("c16_alg_null", uint16(cbnt.AlgNull))
		z("c16_alg_sm3", uint16(cbnt.AlgSM3))
		z("c16_alg_rsassa", uint16(cbnt.AlgRSASSA))
		z("c16_alg_rsapss", uint16(cbnt.AlgRSAPSS))
		z("c16_alg_ecdsa", uint16(cbnt.AlgECDSA))
		z("c16_alg_sm2", uint16(cbnt.AlgSM2))
		z("c16_alg_ecc", uint16(cbnt.AlgECC))
		z("c16_bg_alg_rsa", uint16(bg.AlgRSA))
		z("c16_bg_alg_rsassa", uint16(bg.AlgRSASSA))
		// algorithm ids for which Algorithm.Hash() succeeds, with the digest size
		var ids, sizes, bids, bsizes []uint64
		for a := 0; a < 0x10000; a++ {
			if h, err := cbnt.Algorithm(a).Hash(); err == nil {
				ids = append(ids, uint64(a))
				sizes = append(sizes, uint64(h.Size()))
			}
			if h, err := bg.Algorithm(a).Hash(); err == nil {
				bids = append(bids, uint64(a))
				bsizes = append(bsizes, uint64(h.Size()))
			}
		}
		zs("c16_cbnt_hash_ids", ids)
		zs("c16_cbnt_hash_sizes", sizes)
		zs("c16_bg_hash_ids", bids)
		zs("c16_bg_hash_sizes", bsizes)
		z("c16_usage_bpm_signing", uint64(cbntkey.UsageBPMSigningPKD))
		// PSP header: wire size and the offsets of the fields getSignedBlob reads
		z("c16_psp_hdr_wire", binary.Size(psb.PSPHeaderData{}))
		for _, f := range []string{"SizeSigned", "SignatureParameters", "CompressionOptions", "CompressedImageSize", "SizeImage"} {
			z(fmt.Sprintf("c16_psp_off_%s", f), c16FieldOffset(psb.PSPHeaderData{}, f))
		}
		z("c16_psb_usage_psb_sign_bios", uint32(psb.PSBSignBIOS))
	})
}
