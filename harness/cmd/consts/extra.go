package main

// zs emits a list of numbers.
func zs(name string, vs []uint64) {
	parts := make([]string, len(vs))
	for i, x := range vs {
		parts[i] = fmtU(x)
	}
	out.WriteString("Definition " + name + " : list Z := [" + join(parts, "; ") + "].\n")
}
