package main

func extra() {}
