package main

import (
	"bytes"
	"compress/zlib"
	"io"

	"github.com/linuxboot/fiano/pkg/compression"
)

// zlibSectionHeaderSize and zlibSizeOffset are unexported constants of
// pkg/compression/zlib.go; they are recovered from what ZLIB.Encode emits:
// the header ends where a zlib stream that inflates to the input starts, and
// the size field is the first non-zero header byte (the probe input is chosen
// so that the low byte of the compressed length is not zero).
func init() {
	section("c08", func() {
		hdr, off := -1, -1
		for n := 3; n < 40 && hdr < 0; n++ {
			in := bytes.Repeat([]byte("fiano zlib frame probe "), n)
			enc, err := (&compression.ZLIB{}).Encode(in)
			if err != nil {
				break
			}
			for k := 0; k+2 <= len(enc); k++ {
				r, err := zlib.NewReader(bytes.NewReader(enc[k:]))
				if err != nil {
					continue
				}
				d, err := io.ReadAll(r)
				if err == nil && bytes.Equal(d, in) {
					if (len(enc)-k)%256 != 0 {
						hdr = k
					}
					break
				}
			}
			if hdr >= 0 {
				for i := 0; i < hdr; i++ {
					if enc[i] != 0 {
						off = i
						break
					}
				}
			}
		}
		z("zlib_header_size", hdr)
		z("zlib_size_offset", off)
	})
}
