package main

import (
	"encoding/binary"
	"sort"

	"github.com/linuxboot/fiano/pkg/cbfs"
)

func init() {
	section("c19", func() {
		bs("cbfs_file_magic", []byte(cbfs.FileMagic))
		z("cbfs_file_header_size", binary.Size(cbfs.FileHeader{}))
		z("cbfs_attr_header_size", binary.Size(cbfs.FileAttr{}))
		z("cbfs_attr_compression_size", binary.Size(cbfs.FileAttrCompression{}))
		z("cbfs_stage_header_size", binary.Size(cbfs.StageHeader{}))
		z("cbfs_payload_header_size", binary.Size(cbfs.PayloadHeader{}))
		z("cbfs_type_deleted", uint32(cbfs.TypeDeleted))
		z("cbfs_type_deleted2", uint32(cbfs.TypeDeleted2))
		z("cbfs_type_legacy_stage", uint32(cbfs.TypeLegacyStage))
		z("cbfs_type_self", uint32(cbfs.TypeSELF))
		z("cbfs_tag_unused", uint32(cbfs.Unused))
		z("cbfs_tag_unused2", uint32(cbfs.Unused2))
		z("cbfs_tag_compressed", uint32(cbfs.Compressed))
		z("cbfs_seg_entry", uint32(cbfs.SegEntry))
		z("cbfs_comp_none", uint32(cbfs.None))
		z("cbfs_comp_lzma", uint32(cbfs.LZMA))
		z("cbfs_comp_lz4", uint32(cbfs.LZ4))
		// every type with a registered reader (the others go to NewUnknownRecord)
		var ts []uint64
		for t := range cbfs.SegReaders {
			ts = append(ts, uint64(uint32(t)))
		}
		sort.Slice(ts, func(i, j int) bool { return ts[i] < ts[j] })
		zs("cbfs_registered_types", ts)
	})
}
