package main

import (
	"encoding/binary"

	"github.com/linuxboot/fiano/pkg/amd/manifest"
	"github.com/linuxboot/fiano/pkg/amd/psb"
)

func init() {
	section("c17", func() {
		z("amd_efs_signature", uint32(manifest.EmbeddedFirmwareStructureSignature))
		z("amd_efs_size", binary.Size(manifest.EmbeddedFirmwareStructure{}))
		z("amd_psp_cookie", uint32(manifest.PSPDirectoryTableCookie))
		z("amd_psp_l2_cookie", uint32(manifest.PSPDirectoryTableLevel2Cookie))
		z("amd_bios_cookie", uint32(manifest.BIOSDirectoryTableCookie))
		z("amd_bios_l2_cookie", uint32(manifest.BIOSDirectoryTableLevel2Cookie))
		z("amd_psp_header_size", binary.Size(manifest.PSPDirectoryTableHeader{}))
		z("amd_bios_header_size", binary.Size(manifest.BIOSDirectoryTableHeader{}))
		z("amd_psp_entry_size_const", manifest.PSPDirectoryTableEntrySize)
		z("amd_bios_entry_size_const", manifest.BIOSDirectoryTableEntrySize)
		z("amd_psp_l2_entry_type", uint8(manifest.PSPDirectoryTableLevel2Entry))
		z("amd_bios_l2_entry_type", uint8(manifest.BIOSDirectoryTableLevel2Entry))
		z("amd_oem_signing_key_entry", uint8(psb.OEMSigningKeyEntry))
		z("amd_psb_sign_bios", uint32(psb.PSBSignBIOS))
		// the cookie bytes the scan fallback searches for (little endian)
		c := make([]byte, 4)
		binary.LittleEndian.PutUint32(c, manifest.PSPDirectoryTableCookie)
		bs("amd_psp_cookie_bytes", c)
		d := make([]byte, 4)
		binary.LittleEndian.PutUint32(d, manifest.BIOSDirectoryTableCookie)
		bs("amd_bios_cookie_bytes", d)
	})
}
