package main

import (
	"github.com/linuxboot/fiano/pkg/uefi"
)

func init() {
	section("c02", func() {
		z("section_type_pe32", int(uefi.SectionTypePE32))
		z("section_type_ui", int(uefi.SectionTypeUserInterface))
		z("section_type_fvimage", int(uefi.SectionTypeFirmwareVolumeImage))
		z("fv_filetype_dxecore", int(uefi.FVFileTypeDXECore))
		z("file_header_ext_min_length", int(uefi.FileHeaderExtMinLength))
		z("file_state_valid", int(uefi.FileStateValid))
	})
}
