package main

import (
	"encoding/binary"

	"github.com/linuxboot/fiano/pkg/intel/metadata/fit"
	fitconsts "github.com/linuxboot/fiano/pkg/intel/metadata/fit/consts"
)

func init() {
	section("c14", func() {
		z("fit_base_phys_addr", uint64(fitconsts.BasePhysAddr))
		z("fit_pointer_offset", fitconsts.FITPointerOffset)
		z("fit_pointer_size", fitconsts.FITPointerSize)
		bs("fit_headers_magic", []byte(fitconsts.FITHeadersMagic))
		z("fit_entry_headers_size", binary.Size(fit.EntryHeaders{}))
		z("fit_sacm_size_offset", fit.EntrySACMDataCommon{}.SizeBinaryOffset())
		z("fit_type_fit_header", uint8(fit.EntryTypeFITHeaderEntry))
		z("fit_type_microcode", uint8(fit.EntryTypeMicrocodeUpdateEntry))
		z("fit_type_sacm", uint8(fit.EntryTypeStartupACModuleEntry))
		z("fit_type_diagnostic_acm", uint8(fit.EntryTypeDiagnosticACModuleEntry))
		z("fit_type_bios_startup", uint8(fit.EntryTypeBIOSStartupModuleEntry))
		z("fit_type_tpm_policy", uint8(fit.EntryTypeTPMPolicyRecord))
		z("fit_type_bios_policy", uint8(fit.EntryTypeBIOSPolicyRecord))
		z("fit_type_txt_policy", uint8(fit.EntryTypeTXTPolicyRecord))
		z("fit_type_key_manifest", uint8(fit.EntryTypeKeyManifestRecord))
		z("fit_type_boot_policy", uint8(fit.EntryTypeBootPolicyManifest))
		z("fit_type_cse_secure_boot", uint8(fit.EntryTypeCSESecureBoot))
		z("fit_type_feature_policy", uint8(fit.EntryTypeFeaturePolicyDeliveryRecord))
		z("fit_type_jmp_debug_policy", uint8(fit.EntryTypeJMPDebugPolicy))
		z("fit_type_skip", uint8(fit.EntryTypeSkip))
		all := fit.AllEntryTypes()
		vs := make([]uint64, len(all))
		for i, t := range all {
			vs[i] = uint64(t)
		}
		zs("fit_all_entry_types", vs)
	})
}
