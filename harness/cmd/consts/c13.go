package main

import (
	"encoding/binary"

	"github.com/linuxboot/fiano/pkg/fmap"
)

func init() {
	section("c13", func() {
		bs("fmap_signature", fmap.Signature)
		z("fmap_header_size", binary.Size(fmap.Header{}))
		z("fmap_area_size", binary.Size(fmap.Area{}))
		z("fmap_area_static", fmap.FmapAreaStatic)
	})
}
