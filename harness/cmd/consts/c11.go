package main

import (
	"math/big"

	"github.com/linuxboot/fiano/pkg/uefi"
)

func init() {
	section("c11", func() {
		z("fv_filetype_peim", int(uefi.FVFileTypePEIM))
		z("fv_filetype_driver", int(uefi.FVFileTypeDriver))
		z("fv_filetype_pad", int(uefi.FVFileTypePad))
		z("file_header_min_length", int(uefi.FileHeaderMinLength))
		// GUIDs as numbers: the 16 bytes of guid.GUID read big-endian
		z("ff_guid", new(big.Int).SetBytes(uefi.FFGUID[:]))
		z("zero_guid", new(big.Int).SetBytes(uefi.ZeroGUID[:]))
	})
}
