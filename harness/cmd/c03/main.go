// c03: an edit changes exactly what it names and nothing else.
// Operations run through the real command-line path (editops.RunEdit); the saved bytes are read
// back by the independent reader of editops and compared with the list-level reference semantics
// computed on the generator's image spec.
package main

import (
	"strings"
	"time"

	. "verifharness/common"
	"verifharness/editops"
	"verifharness/uefigen"
)

const modelMax = 5000

func emitCase(emit Emit, c editops.ECase, withModel bool) {
	emitTables(emit, c)
	toks := editops.Tokens(c.Ops)
	if c.PadPat || c.Mixed {
		// a pattern that also selects pad files (e.g. "f.*"): the spec does not know them, so no
		// expectation; the model does (correspondence below), validity by the C02 oracle
		emit("P", "p_c02", append([]string{H(c.Img)}, toks...)...)
	} else {
		emit("P", "p_c03", append([]string{H(c.Img), c.Expect, c.Touched}, toks...)...)
	}
	if withModel && len(c.Img) <= modelMax {
		emit("C", "edit", append([]string{H(c.Img)}, toks...)...)
	}
}

func gen(r *Rng, tier string, emit Emit) {
	n, nro, nfind, nguid := 500, 200, 200, 200
	if tier == "thorough" {
		n, nro, nfind, nguid = 6000, 3000, 3000, 5000
	}
	for it := 0; it < n; it++ {
		rr := r.Fork(uint64(it))
		c := editops.GenCase(rr, rr.Pick(0, 0, 1), rr.Range(1, 3))
		emitCase(emit, c, true)
	}
	// read-only operations between the edits
	for it := 0; it < nro; it++ {
		rr := r.Fork(uint64(2000000 + it))
		c := editops.GenCase(rr, rr.Pick(0, 1), rr.Range(0, 2))
		var ops []editops.EOp
		for _, o := range c.Ops {
			for rr.Chance(1, 2) {
				ops = append(ops, editops.GenRO(rr, c.Reg))
			}
			ops = append(ops, o)
		}
		ops = append(ops, editops.GenRO(rr, c.Reg))
		emit("P", "p_c03_ro", append([]string{H(c.Img)}, editops.Tokens(ops)...)...)
	}
	// Find: matches in order (files by GUID or UI name, volumes by name)
	for it := 0; it < nfind; it++ {
		rr := r.Fork(uint64(3000000 + it))
		reg := editops.GenRegionSpec(rr, rr.Pick(0, 1, 1), true)
		img, _ := uefigen.EmitRegion(reg)
		if len(img) > modelMax {
			continue
		}
		fvp := "0"
		if rr.Bool() {
			fvp = "1"
		}
		t := editops.GenRO(rr, reg).Target
		emitTables(emit, editops.ECase{Img: img, Comp: editops.RegionHasCompressed(reg)})
		emit("C", "find", H(img), fvp, H([]byte(t)))
		// a pattern: FindFilePredicate selects exactly the files it matches in full
		pat, set := editops.GenPatternFor(rr, reg)
		if set != nil && !editops.LastMixed() {
			var hs []string
			for _, x := range set {
				hs = append(hs, H([]byte(x)))
			}
			emit("C", "findx", H(img), H([]byte(pat)), strings.Join(hs, ","))
			emit("P", "p_find_full", H(img), H([]byte(pat)), H([]byte(editops.FindExpect(reg, img, pat))))
		}
	}
	// GUID text form
	for it := 0; it < nguid; it++ {
		rr := r.Fork(uint64(4000000 + it))
		g := rr.Bytes(16)
		if rr.Chance(1, 4) {
			for i := range g {
				g[i] = byte(rr.Pick(0, 0xFF, 0x0A, 0xA0, 0x9F, 0xF9))
			}
		}
		emit("P", "p_guid", H(g))
		emit("C", "guidstr", H(g))
		var txt []byte
		switch rr.Intn(4) {
		case 0: // arbitrary text
			txt = rr.Bytes(rr.Pick(0, 1, 35, 36, 37))
		case 1: // hex digits and hyphens anywhere
			for i := rr.Pick(31, 32, 33, 36); i > 0; i-- {
				txt = append(txt, "0123456789abcdefABCDEF-g"[rr.Intn(24)])
			}
		default:
			var gg [16]byte
			copy(gg[:], g)
			txt = []byte(editops.GuidText(gg))
			if rr.Bool() {
				txt = []byte(string(txt[:8]) + string(txt[9:])) // a hyphen less: still accepted
			}
		}
		emit("C", "guidparse", H(txt))
	}
	// files with sections stored in the FFSv3 large form although small: every save rewrites them
	// in the small form (also in volumes no operation names), so p_c03's byte-level expectations do
	// not apply; model correspondence and the validity oracle of C02 instead
	nlf := 80
	if tier == "thorough" {
		nlf = 1500
	}
	editops.LargeSectioned = true
	for it := 0; it < nlf; it++ {
		rr := r.Fork(uint64(8000000 + it))
		c := editops.GenCase(rr, rr.Pick(0, 0, 1), rr.Range(1, 3))
		if len(c.Img) > modelMax {
			continue
		}
		emitTables(emit, c)
		args := append([]string{H(c.Img)}, editops.Tokens(c.Ops)...)
		emit("C", "edit", args...)
		emit("P", "p_c02", args...)
	}
	editops.LargeSectioned = false
	// files of 16 MiB and more: built in the worker
	nbig := 3
	if tier == "thorough" {
		nbig = 24
	}
	for it := 0; it < nbig; it++ {
		emit("P", "p_c03_big", N(r.Fork(uint64(7000000+it)).U64()))
	}
	maxLen, k := 2, 0
	if tier == "thorough" {
		maxLen = 3
	}
	sel := int(r.U64() % 3)
	editops.Exhaustive(maxLen, func(c editops.ECase) {
		k++
		if tier != "thorough" && k%3 != sel {
			return
		}
		emitCase(emit, c, tier == "thorough" || k%2 == 1)
	})
	// the same edits inside a flash image: the descriptor, the other regions and the gaps are
	// "every other region and descriptor byte" (implementation side only)
	nfl := 50
	if tier == "thorough" {
		nfl = 1500
	}
	for it := 0; it < nfl; it++ {
		rr := r.Fork(uint64(9000000 + it))
		c := editops.FlashCase(rr, editops.GenCase(rr, rr.Pick(0, 0, 1), rr.Range(1, 3)))
		emitCase(emit, c, false)
	}
	// inserts whose target lives in a nested volume carried by a driver / application / core file
	// (a volume-image section in a file that is not of the FV-image file type)
	ncar := 60
	if tier == "thorough" {
		ncar = 1500
	}
	for it := 0; it < ncar; it++ {
		rr := r.Fork(uint64(9100000 + it))
		if c, ok := editops.GenCaseCarrier(rr); ok {
			emitCase(emit, c, true)
		}
	}
}

func emitTables(emit Emit, c editops.ECase) {
	if !c.Comp {
		return
	}
	for _, t := range editops.CodecTables(c.Img, c.Ops) {
		emit("T", "codec", t.Dir, t.Kind, t.In, t.Out)
	}
}

func main() {
	CaseTimeout = 20 * time.Second
	editops.Enc = editops.FianoEnc
	editops.RegisterAll()
	Main(gen)
}
