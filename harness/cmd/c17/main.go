// c17: executor and generator for property C17 (pkg/amd/manifest, pkg/amd/psb).
//
// C ops (also evaluated by the model): psp/bios_checksum, psp/bios_entry, psp/bios_table, find_psp/bios, efs, phys2off,
// parsefw, extract/patch_psp/bios, psb_enabled, rootkey.
// P oracles (implementation only): p_fletcher, p_reparse (every reported directory against the bytes of its range;
// the EFS range re-read), p_discover (the directories laid out and referenced are the ones reported), p_extract_patch (+ the object
// still decodes its ranges afterwards), p_seq (several lookups on one object), p_entry_bits (256 values of each flag
// byte), p_big (FirmwareImage beyond 16 MiB, built in the worker), p_keyattr, p_efs.
// Images and oracles use the values of the AMD specification written out (spec* constants), never the exported
// constants of the code under test.
package main

import (
	"bytes"
	"encoding/binary"
	"errors"
	"fmt"
	"regexp"
	"strings"

	"github.com/linuxboot/fiano/pkg/amd/manifest"
	"github.com/linuxboot/fiano/pkg/amd/psb"
	. "verifharness/common"
)

// ---------- error classes (numbers as in coq/Model/Amd.v, printed in hex) ----------

var errTable = [][2]string{
	{"unexpected EOF", "2"},
	{"incorrect cookie", "3"},
	{"not enough data", "4"},
	{"incorrect signature", "5"},
	{"EmbeddedFirmwareStructure is not found", "6"},
	{"DirectoryTable is not found", "7"},
	{"EOF", "1"},
}

func psbErr(err error) string {
	if err == nil {
		return "ok"
	}
	if errors.As(err, &psb.ErrNotFound{}) {
		return "err 8"
	}
	if errors.As(err, &psb.ErrInvalidFormat{}) {
		return "err 9"
	}
	if strings.Contains(err.Error(), "Level requested") {
		return "err a"
	}
	if strings.Contains(err.Error(), "not a PSBSignBios key usage flag") {
		return "err b"
	}
	return "err ?"
}

// ---------- values of the AMD specification, written out (NOT taken from the code under test:
// the generator and the oracles must not follow a changed constant) ----------

const (
	specEFSSignature = 0x55AA55AA
	specPSPCookie    = 0x50535024 // "$PSP"
	specPSPL2Cookie  = 0x324C5024 // "$PL2"
	specBIOSCookie   = 0x44484224 // "$BHD"
	specBIOSL2Cookie = 0x324C4224 // "$BL2"
	specPSPL2Type    = 0x40
	specBIOSL2Type   = 0x70
	specPSBSignBIOS  = 8
)

// ---------- Firmware implementations ----------

// mapFw is a Firmware whose address map is a plain subtraction; it lets the real
// parsePSPFirmware run on images far smaller than the 384 KiB FirmwareImage needs.
type mapFw struct {
	img  []byte
	base uint64
}

func (m mapFw) ImageBytes() []byte                 { return m.img }
func (m mapFw) PhysAddrToOffset(p uint64) uint64   { return p - m.base }
func (m mapFw) OffsetToPhysAddr(off uint64) uint64 { return off + m.base }

var _ manifest.Firmware = mapFw{}

func fwOf(mp string, img []byte) (*manifest.AMDFirmware, error) {
	if mp == "img" {
		return psb.ParseAMDFirmware(img)
	}
	return manifest.NewAMDFirmware(mapFw{img: img, base: UnN(mp)})
}

// ---------- canonical text of decoded values (must match ocaml/c17/run.ml) ----------

func b01(b bool) string {
	if b {
		return "1"
	}
	return "0"
}

func showPSPEntry(e manifest.PSPDirectoryTableEntry) string {
	return strings.Join([]string{N(uint64(e.Type)), N(uint64(e.Subprogram)), N(uint64(e.ROMId)),
		N(uint64(e.Size)), N(e.LocationOrValue)}, ".")
}

func showBIOSEntry(e manifest.BIOSDirectoryTableEntry) string {
	return strings.Join([]string{N(uint64(e.Type)), N(uint64(e.RegionType)),
		b01(e.ResetImage) + b01(e.CopyImage) + b01(e.ReadOnly) + b01(e.Compressed),
		N(uint64(e.Instance)), N(uint64(e.Subprogram)), N(uint64(e.RomID)),
		N(uint64(e.Size)), N(e.SourceAddress), N(e.DestinationAddress)}, ".")
}

func showPSPTable(t *manifest.PSPDirectoryTable) string {
	es := make([]string, len(t.Entries))
	for i, e := range t.Entries {
		es[i] = showPSPEntry(e)
	}
	return strings.Join([]string{N(uint64(t.PSPCookie)), N(uint64(t.Checksum)), N(uint64(t.TotalEntries)),
		N(uint64(t.AdditionalInfo)), N(uint64(len(t.Entries)))}, ",") + ":" + strings.Join(es, ";")
}

func showBIOSTable(t *manifest.BIOSDirectoryTable) string {
	es := make([]string, len(t.Entries))
	for i, e := range t.Entries {
		es[i] = showBIOSEntry(e)
	}
	return strings.Join([]string{N(uint64(t.BIOSCookie)), N(uint64(t.Checksum)), N(uint64(t.TotalEntries)),
		N(uint64(t.Reserved)), N(uint64(len(t.Entries)))}, ",") + ":" + strings.Join(es, ";")
}

func showEFS(e *manifest.EmbeddedFirmwareStructure) string {
	return strings.Join([]string{N(uint64(e.Signature)), H(e.Reserved1[:]), N(uint64(e.PSPDirectoryTablePointer)),
		N(uint64(e.BIOSDirectoryTableFamily17hModels00h0FhPointer)),
		N(uint64(e.BIOSDirectoryTableFamily17hModels10h1FhPointer)),
		N(uint64(e.BIOSDirectoryTableFamily17hModels30h3FhPointer)),
		N(uint64(e.Reserved2)),
		N(uint64(e.BIOSDirectoryTableFamily17hModels60h3FhPointer)), H(e.Reserved3[:])}, ",")
}

func showFW(p *manifest.PSPFirmware) string {
	loc := func(isNil bool, off, length uint64, tbl string) string {
		if isNil {
			return "nil"
		}
		return N(off) + "+" + N(length) + "=" + tbl
	}
	var p1, p2, b1, b2 string
	if p.PSPDirectoryLevel1 != nil {
		p1 = showPSPTable(p.PSPDirectoryLevel1)
	}
	if p.PSPDirectoryLevel2 != nil {
		p2 = showPSPTable(p.PSPDirectoryLevel2)
	}
	if p.BIOSDirectoryLevel1 != nil {
		b1 = showBIOSTable(p.BIOSDirectoryLevel1)
	}
	if p.BIOSDirectoryLevel2 != nil {
		b2 = showBIOSTable(p.BIOSDirectoryLevel2)
	}
	return strings.Join([]string{"ok", N(p.EmbeddedFirmwareRange.Offset), N(p.EmbeddedFirmwareRange.Length),
		showEFS(&p.EmbeddedFirmware),
		loc(p.PSPDirectoryLevel1 == nil, p.PSPDirectoryLevel1Range.Offset, p.PSPDirectoryLevel1Range.Length, p1),
		loc(p.PSPDirectoryLevel2 == nil, p.PSPDirectoryLevel2Range.Offset, p.PSPDirectoryLevel2Range.Length, p2),
		loc(p.BIOSDirectoryLevel1 == nil, p.BIOSDirectoryLevel1Range.Offset, p.BIOSDirectoryLevel1Range.Length, b1),
		loc(p.BIOSDirectoryLevel2 == nil, p.BIOSDirectoryLevel2Range.Offset, p.BIOSDirectoryLevel2Range.Length, b2)}, " ")
}

// ---------- C operations ----------

func opPSPChecksum(a []string) string {
	return "ok " + N(uint64(manifest.CalculatePSPDirectoryCheckSum(UnH(a[0]))))
}
func opBIOSChecksum(a []string) string {
	return "ok " + N(uint64(manifest.CalculateBiosDirectoryCheckSum(UnH(a[0]))))
}

func opPSPEntry(a []string) string {
	e, l, err := manifest.ParsePSPDirectoryTableEntry(bytes.NewBuffer(UnH(a[0])))
	if err != nil {
		return ErrClass(err, errTable)
	}
	return "ok " + showPSPEntry(*e) + " " + N(l)
}

func opBIOSEntry(a []string) string {
	e, l, err := manifest.ParseBIOSDirectoryTableEntry(bytes.NewBuffer(UnH(a[0])))
	if err != nil {
		return ErrClass(err, errTable)
	}
	return "ok " + showBIOSEntry(*e) + " " + N(l)
}

func opPSPTable(a []string) string {
	t, l, err := manifest.ParsePSPDirectoryTable(UnH(a[0]))
	if err != nil {
		return ErrClass(err, errTable)
	}
	return "ok " + N(l) + " " + showPSPTable(t)
}

func opBIOSTable(a []string) string {
	t, l, err := manifest.ParseBIOSDirectoryTable(UnH(a[0]))
	if err != nil {
		return ErrClass(err, errTable)
	}
	return "ok " + N(l) + " " + showBIOSTable(t)
}

func opFindPSP(a []string) string {
	t, r, err := manifest.FindPSPDirectoryTable(UnH(a[0]))
	if err != nil {
		return ErrClass(err, errTable)
	}
	return "ok " + N(r.Offset) + " " + N(r.Length) + " " + showPSPTable(t)
}

func opFindBIOS(a []string) string {
	t, r, err := manifest.FindBIOSDirectoryTable(UnH(a[0]))
	if err != nil {
		return ErrClass(err, errTable)
	}
	return "ok " + N(r.Offset) + " " + N(r.Length) + " " + showBIOSTable(t)
}

func opEFS(a []string) string {
	e, r, err := manifest.FindEmbeddedFirmwareStructure(manifest.FirmwareImage(UnH(a[0])))
	if err != nil {
		return ErrClass(err, errTable)
	}
	return "ok " + N(r.Offset) + " " + N(r.Length) + " " + showEFS(e)
}

func opPhys2Off(a []string) string {
	img := manifest.FirmwareImage(make([]byte, int(UnN(a[0]))))
	return "ok " + N(img.PhysAddrToOffset(UnN(a[1])))
}

func opParseFW(a []string) string {
	fw, err := fwOf(a[0], UnH(a[1]))
	if err != nil {
		return ErrClass(err, errTable)
	}
	return showFW(fw.PSPFirmware())
}

func noFW(err error) string { return "nofw " + strings.TrimPrefix(ErrClass(err, errTable), "err ") }

func opExtractPSP(a []string) string {
	fw, err := fwOf(a[0], UnH(a[1]))
	if err != nil {
		return noFW(err)
	}
	b, err := psb.ExtractPSPEntry(fw, uint(UnN(a[2])), manifest.PSPDirectoryTableEntryType(UnN(a[3])))
	if err != nil {
		return psbErr(err)
	}
	return "ok " + H(b)
}

func opExtractBIOS(a []string) string {
	fw, err := fwOf(a[0], UnH(a[1]))
	if err != nil {
		return noFW(err)
	}
	b, err := psb.ExtractBIOSEntry(fw, uint(UnN(a[2])), manifest.BIOSDirectoryTableEntryType(UnN(a[3])), uint8(UnN(a[4])))
	if err != nil {
		return psbErr(err)
	}
	return "ok " + H(b)
}

func opPatchPSP(a []string) string {
	fw, err := fwOf(a[0], UnH(a[1]))
	if err != nil {
		return noFW(err)
	}
	var w bytes.Buffer
	_, err = psb.PatchPSPEntry(fw, uint(UnN(a[2])), manifest.PSPDirectoryTableEntryType(UnN(a[3])), bytes.NewReader(UnH(a[4])), &w)
	if err != nil {
		return psbErr(err)
	}
	return "ok " + H(w.Bytes())
}

func opPatchBIOS(a []string) string {
	fw, err := fwOf(a[0], UnH(a[1]))
	if err != nil {
		return noFW(err)
	}
	var w bytes.Buffer
	_, err = psb.PatchBIOSEntry(fw, uint(UnN(a[2])), manifest.BIOSDirectoryTableEntryType(UnN(a[3])), uint8(UnN(a[4])), bytes.NewReader(UnH(a[5])), &w)
	if err != nil {
		return psbErr(err)
	}
	return "ok " + H(w.Bytes())
}

func opPSBEnabled(a []string) string {
	fw, err := fwOf(a[0], UnH(a[1]))
	if err != nil {
		return noFW(err)
	}
	en, err := psb.IsPSBEnabled(fw)
	if err != nil {
		return psbErr(err)
	}
	return "ok " + b01(en)
}

var usageRe = regexp.MustCompile(`Key Usage Flag: 0x([0-9a-f]+)`)

func opRootKey(a []string) string {
	k, err := psb.NewRootKey(bytes.NewBuffer(UnH(a[0])))
	if err != nil {
		return psbErr(err)
	}
	ks := psb.NewKeySet()
	_ = ks.AddKey(k, psb.AMDRootKey)
	id := "?"
	if ids := ks.AllKeyIDs(); len(ids) == 1 {
		id = H(ids[0][:])
	}
	usage := "?"
	if m := usageRe.FindStringSubmatch(k.String()); m != nil {
		usage = m[1]
	}
	sig := "inv"
	if n, err := k.SignatureSize(); err == nil {
		sig = N(uint64(n))
	}
	pb := ""
	if b, err := psb.GetPlatformBindingInfo(k); err != nil {
		pb = psbErr(err)
	} else {
		pb = N(uint64(b.VendorID)) + "." + N(uint64(b.KeyRevisionID)) + "." + N(uint64(b.PlatformModelID))
	}
	sf := ""
	if f, err := psb.GetSecurityFeatureVector(k); err != nil {
		sf = psbErr(err)
	} else {
		sf = b01(f.DisableBIOSKeyAntiRollback) + b01(f.DisableAMDBIOSKeyUse) + b01(f.DisableSecureDebugUnlock)
	}
	return "ok id=" + id + " usage=" + usage + " sig=" + sig + " pb=" + pb + " sf=" + sf
}

// ---------- reference implementations used by the oracles (independent of the code under test) ----------

// refFletcher is Fletcher-32 over little-endian 16-bit words (odd tail byte = low byte),
// reducing mod 65535 after every word.
func refFletcher(d []byte) uint32 {
	var c0, c1 uint64
	for i := 0; i < len(d); i += 2 {
		w := uint64(d[i])
		if i+1 < len(d) {
			w |= uint64(d[i+1]) << 8
		}
		c0 = (c0 + w) % 65535
		c1 = (c1 + c0) % 65535
	}
	return uint32(c1<<16 | c0)
}

func refPSPEntry(r []byte) string {
	flags := binary.LittleEndian.Uint16(r[2:])
	return strings.Join([]string{N(uint64(r[0])), N(uint64(r[1])), N(uint64(flags >> 14 & 3)),
		N(uint64(binary.LittleEndian.Uint32(r[4:]))), N(binary.LittleEndian.Uint64(r[8:]))}, ".")
}

func refBIOSEntry(r []byte) string {
	f, g := r[2], r[3]
	bit := func(v byte, n uint) string { return b01(v>>n&1 == 1) }
	return strings.Join([]string{N(uint64(r[0])), N(uint64(r[1])),
		bit(f, 0) + bit(f, 1) + bit(f, 2) + bit(f, 3),
		N(uint64(f >> 4)), N(uint64(g & 7)), N(uint64(g >> 3 & 3)),
		N(uint64(binary.LittleEndian.Uint32(r[4:]))), N(binary.LittleEndian.Uint64(r[8:])),
		N(binary.LittleEndian.Uint64(r[16:]))}, ".")
}

// ---------- P oracles ----------

// Fletcher: the exported checksum of (8 bytes ++ data) is the reference Fletcher-32 of data.
func pFletcher(a []string) string {
	d := UnH(a[0])
	raw := append(make([]byte, 8), d...)
	want := refFletcher(d)
	if got := manifest.CalculatePSPDirectoryCheckSum(raw); got != want {
		return fmt.Sprintf("FAIL psp-checksum %x want %x", got, want)
	}
	if got := manifest.CalculateBiosDirectoryCheckSum(raw); got != want {
		return fmt.Sprintf("FAIL bios-checksum %x want %x", got, want)
	}
	return "ok"
}

// checkReparse: every directory held by the firmware object: inside the image, declared count,
// length, each field = bits of its record, re-read of the reported range gives the same table,
// checksum = Fletcher after 8 bytes (stored checksum compared only for the directories the
// generator laid out with a correct one: built holds their offsets).  "" = nothing to object,
// "skip" = no directory at all.
func checkReparse(p *manifest.PSPFirmware, img []byte, built map[uint64]bool) string {
	nonTrivial := false
	checkPSP := func(name string, t *manifest.PSPDirectoryTable, off, length uint64) string {
		if t == nil {
			return ""
		}
		nonTrivial = true
		if off > uint64(len(img)) || length > uint64(len(img))-off {
			return "FAIL " + name + " range-outside-image"
		}
		raw := img[off : off+length]
		if uint64(t.TotalEntries) != uint64(len(t.Entries)) {
			return "FAIL " + name + " entry-count"
		}
		if length != 16+16*uint64(len(t.Entries)) {
			return "FAIL " + name + " length"
		}
		if t.PSPCookie != binary.LittleEndian.Uint32(raw) || t.Checksum != binary.LittleEndian.Uint32(raw[4:]) ||
			t.TotalEntries != binary.LittleEndian.Uint32(raw[8:]) || t.AdditionalInfo != binary.LittleEndian.Uint32(raw[12:]) {
			return "FAIL " + name + " header-fields"
		}
		for i, e := range t.Entries {
			if showPSPEntry(e) != refPSPEntry(raw[16+16*i:]) {
				return "FAIL " + name + " entry-fields " + N(uint64(i))
			}
		}
		t2, l2, err := manifest.ParsePSPDirectoryTable(raw)
		if err != nil {
			return "FAIL " + name + " reparse-error"
		}
		if l2 != length || showPSPTable(t2) != showPSPTable(t) {
			return "FAIL " + name + " reparse-differs"
		}
		if built[off] && refFletcher(raw[8:]) != t.Checksum {
			return "FAIL " + name + " checksum"
		}
		if manifest.CalculatePSPDirectoryCheckSum(raw) != refFletcher(raw[8:]) {
			return "FAIL " + name + " checksum-not-fletcher"
		}
		return ""
	}
	checkBIOS := func(name string, t *manifest.BIOSDirectoryTable, off, length uint64) string {
		if t == nil {
			return ""
		}
		nonTrivial = true
		if off > uint64(len(img)) || length > uint64(len(img))-off {
			return "FAIL " + name + " range-outside-image"
		}
		raw := img[off : off+length]
		if uint64(t.TotalEntries) != uint64(len(t.Entries)) {
			return "FAIL " + name + " entry-count"
		}
		if length != 16+24*uint64(len(t.Entries)) {
			return "FAIL " + name + " length"
		}
		if t.BIOSCookie != binary.LittleEndian.Uint32(raw) || t.Checksum != binary.LittleEndian.Uint32(raw[4:]) ||
			t.TotalEntries != binary.LittleEndian.Uint32(raw[8:]) || t.Reserved != binary.LittleEndian.Uint32(raw[12:]) {
			return "FAIL " + name + " header-fields"
		}
		for i, e := range t.Entries {
			if showBIOSEntry(e) != refBIOSEntry(raw[16+24*i:]) {
				return "FAIL " + name + " entry-fields " + N(uint64(i))
			}
		}
		t2, l2, err := manifest.ParseBIOSDirectoryTable(raw)
		if err != nil {
			return "FAIL " + name + " reparse-error"
		}
		if l2 != length || showBIOSTable(t2) != showBIOSTable(t) {
			return "FAIL " + name + " reparse-differs"
		}
		if built[off] && refFletcher(raw[8:]) != t.Checksum {
			return "FAIL " + name + " checksum"
		}
		if manifest.CalculateBiosDirectoryCheckSum(raw) != refFletcher(raw[8:]) {
			return "FAIL " + name + " checksum-not-fletcher"
		}
		return ""
	}
	for _, r := range []string{
		checkPSP("psp1", p.PSPDirectoryLevel1, p.PSPDirectoryLevel1Range.Offset, p.PSPDirectoryLevel1Range.Length),
		checkPSP("psp2", p.PSPDirectoryLevel2, p.PSPDirectoryLevel2Range.Offset, p.PSPDirectoryLevel2Range.Length),
		checkBIOS("bios1", p.BIOSDirectoryLevel1, p.BIOSDirectoryLevel1Range.Offset, p.BIOSDirectoryLevel1Range.Length),
		checkBIOS("bios2", p.BIOSDirectoryLevel2, p.BIOSDirectoryLevel2Range.Offset, p.BIOSDirectoryLevel2Range.Length),
	} {
		if r != "" {
			return r
		}
	}
	// the EFS range re-read gives the same structure
	er := p.EmbeddedFirmwareRange
	if er.Offset > uint64(len(img)) || er.Length > uint64(len(img))-er.Offset {
		return "FAIL efs range-outside-image"
	}
	e2, l2, err := manifest.ParseEmbeddedFirmwareStructure(bytes.NewBuffer(img[er.Offset : er.Offset+er.Length]))
	if err != nil || l2 != er.Length || showEFS(e2) != showEFS(&p.EmbeddedFirmware) {
		return "FAIL efs reparse-differs"
	}
	if !nonTrivial {
		return "skip"
	}
	return ""
}

func builtSet(s string) map[uint64]bool {
	built := map[uint64]bool{}
	if s != "-" {
		for _, o := range strings.Split(s, ",") {
			built[UnN(o)] = true
		}
	}
	return built
}

// a[0] map, a[1] image, a[2] offsets of the directories laid out with a correct checksum ("-": none)
func pReparse(a []string) string {
	img := UnH(a[1])
	fw, err := fwOf(a[0], img)
	if err != nil {
		return "skip"
	}
	if r := checkReparse(fw.PSPFirmware(), img, builtSet(a[2])); r != "" {
		return r
	}
	return "ok"
}

// discovery returns the directories the image holds: a[2] = "p1,p2,b1,b2", each the offset at which
// the generator laid out the directory that the EFS / the level-1 directory refers to (or that the
// cookie scan must reach first), "-" = the image holds no such directory, "?" = the layout leaves more
// than one candidate; neither of the two is judged (the property speaks about the directories an image
// contains).  A firmware that cannot be constructed at all is a failure only for an image that holds
// the EFS and all four directories.
func pDiscover(a []string) string {
	img := UnH(a[1])
	fw, err := fwOf(a[0], img)
	if err != nil {
		if strings.ContainsAny(a[2], "-?") {
			return "skip"
		}
		return "FAIL discover no-firmware"
	}
	return checkDiscover(fw.PSPFirmware(), img, a[2])
}

func checkDiscover(p *manifest.PSPFirmware, img []byte, expect string) string {
	exp := strings.Split(expect, ",")
	judged := false
	one := func(name, e string, isNil bool, off uint64) string {
		if e == "?" || e == "-" {
			return ""
		}
		judged = true
		want := UnN(e)
		if isNil {
			return "FAIL discover " + name + " not-found want " + e
		}
		if off != want {
			return "FAIL discover " + name + " wrong-offset " + N(off) + " want " + e
		}
		return ""
	}
	for _, r := range []string{
		one("psp1", exp[0], p.PSPDirectoryLevel1 == nil, p.PSPDirectoryLevel1Range.Offset),
		one("psp2", exp[1], p.PSPDirectoryLevel2 == nil, p.PSPDirectoryLevel2Range.Offset),
		one("bios1", exp[2], p.BIOSDirectoryLevel1 == nil, p.BIOSDirectoryLevel1Range.Offset),
		one("bios2", exp[3], p.BIOSDirectoryLevel2 == nil, p.BIOSDirectoryLevel2Range.Offset),
	} {
		if r != "" {
			return r
		}
	}
	if !judged {
		return "skip"
	}
	return "ok"
}

// ---------- reference discovery (generator side: decides which expectations are unambiguous) ----------

// a directory starts at off: cookie of the family, header complete, all declared records inside
func refTableAt(img []byte, off uint64, w uint64, c1, c2 uint32) bool {
	if off > uint64(len(img)) || uint64(len(img))-off < 16 {
		return false
	}
	c := binary.LittleEndian.Uint32(img[off:])
	if c != c1 && c != c2 {
		return false
	}
	n := uint64(binary.LittleEndian.Uint32(img[off+8:]))
	return 16+w*n <= uint64(len(img))-off
}

func refScan(img []byte, w uint64, c1, c2 uint32) int64 {
	ck := le32(c1)
	for i := 0; i+4 <= len(img); i++ {
		if bytes.Equal(img[i:i+4], ck) && refTableAt(img, uint64(i), w, c1, c2) {
			return int64(i)
		}
	}
	return -1
}

// refL2 follows the first record of the level-2 type of the directory at off
func refL2(img []byte, off int64, w uint64, typ byte, c1, c2 uint32) int64 {
	if off < 0 {
		return -1
	}
	n := uint64(binary.LittleEndian.Uint32(img[off+8:]))
	for i := uint64(0); i < n; i++ {
		rec := img[uint64(off)+16+w*i:]
		if rec[0] != typ {
			continue
		}
		loc := binary.LittleEndian.Uint64(rec[8:])
		if loc != 0 && loc < uint64(len(img)) && refTableAt(img, loc, w, c1, c2) {
			return int64(loc)
		}
		return -1
	}
	return -1
}

// refDiscover: where the four directories are, given the offset of the EFS (-1 = none)
func refDiscover(img []byte, efsOff int) [4]int64 {
	res := [4]int64{-1, -1, -1, -1}
	e := img[efsOff:]
	if p := uint64(binary.LittleEndian.Uint32(e[20:])); p != 0 && p < uint64(len(img)) && refTableAt(img, p, 16, specPSPCookie, specPSPL2Cookie) {
		res[0] = int64(p)
	} else {
		res[0] = refScan(img, 16, specPSPCookie, specPSPL2Cookie)
	}
	res[1] = refL2(img, res[0], 16, specPSPL2Type, specPSPCookie, specPSPL2Cookie)
	for _, s := range []int{24, 28, 32, 40} {
		if p := uint64(binary.LittleEndian.Uint32(e[s:])); p != 0 && refTableAt(img, p, 24, specBIOSCookie, specBIOSL2Cookie) {
			res[2] = int64(p)
			break
		}
	}
	if res[2] < 0 {
		res[2] = refScan(img, 24, specBIOSCookie, specBIOSL2Cookie)
	}
	res[3] = refL2(img, res[2], 24, specBIOSL2Type, specBIOSCookie, specBIOSL2Cookie)
	return res
}

// ---------- extraction and patching ----------

// rawRecords: the records of one directory of the freshly parsed firmware, as bytes of the image
func rawRecords(p *manifest.PSPFirmware, img []byte, kind string, level uint) ([][]byte, bool) {
	var isNil bool
	var off, length, w uint64
	switch {
	case kind == "psp" && level == 1:
		isNil, off, length, w = p.PSPDirectoryLevel1 == nil, p.PSPDirectoryLevel1Range.Offset, p.PSPDirectoryLevel1Range.Length, 16
	case kind == "psp" && level == 2:
		isNil, off, length, w = p.PSPDirectoryLevel2 == nil, p.PSPDirectoryLevel2Range.Offset, p.PSPDirectoryLevel2Range.Length, 16
	case kind == "bios" && level == 1:
		isNil, off, length, w = p.BIOSDirectoryLevel1 == nil, p.BIOSDirectoryLevel1Range.Offset, p.BIOSDirectoryLevel1Range.Length, 24
	case kind == "bios" && level == 2:
		isNil, off, length, w = p.BIOSDirectoryLevel2 == nil, p.BIOSDirectoryLevel2Range.Offset, p.BIOSDirectoryLevel2Range.Length, 24
	default:
		return nil, false
	}
	if isNil || off > uint64(len(img)) || length > uint64(len(img))-off || length < 16 || (length-16)%w != 0 {
		return nil, false
	}
	var recs [][]byte
	for o := off + 16; o+w <= off+length; o += w {
		recs = append(recs, img[o:o+w])
	}
	return recs, true
}

// the one record of this type (and instance) in the directory: location and size read off its bytes
func uniqueRecord(recs [][]byte, kind string, id uint64, inst uint8) (loc, size uint64, ok bool) {
	n := 0
	for _, r := range recs {
		if uint64(r[0]) != id || (kind == "bios" && r[2]>>4 != inst) {
			continue
		}
		loc, size = binary.LittleEndian.Uint64(r[8:]), uint64(binary.LittleEndian.Uint32(r[4:]))
		n++
	}
	return loc, size, n == 1
}

// checkExtractPatch: on the firmware object fw (parsed from img; orig = pristine copy of img) extract
// and patch the entry with location loc and size size.  "" = nothing to object.
func checkExtractPatch(fw *manifest.AMDFirmware, img, orig []byte, kind string, level uint, id uint64, inst uint8, loc, size uint64, data []byte) string {
	inside := loc <= uint64(len(img)) && size <= uint64(len(img))-loc
	var got []byte
	var w, w2 bytes.Buffer
	var n int
	var err, perr error
	if kind == "psp" {
		got, err = psb.ExtractPSPEntry(fw, level, manifest.PSPDirectoryTableEntryType(id))
		n, perr = psb.PatchPSPEntry(fw, level, manifest.PSPDirectoryTableEntryType(id), bytes.NewReader(data), &w)
	} else {
		got, err = psb.ExtractBIOSEntry(fw, level, manifest.BIOSDirectoryTableEntryType(id), inst)
		n, perr = psb.PatchBIOSEntry(fw, level, manifest.BIOSDirectoryTableEntryType(id), inst, bytes.NewReader(data), &w)
	}
	if inside {
		if err != nil {
			return "FAIL extract-error"
		}
		if !bytes.Equal(got, orig[loc:loc+size]) {
			return "FAIL extract-bytes"
		}
	} else if err == nil {
		return "FAIL extract-outside-no-error"
	}
	out := w.Bytes()
	switch {
	case !inside:
		if perr == nil {
			return "FAIL patch-outside-no-error"
		}
	case uint64(len(data)) != size:
		if perr == nil {
			return "FAIL patch-accepted-size-mismatch"
		}
		if len(out) != 0 {
			return "FAIL patch-refused-but-wrote"
		}
	default:
		if perr != nil {
			return "FAIL patch-error"
		}
		if len(out) != len(orig) || n != len(orig) {
			return "FAIL patch-length"
		}
		if !bytes.Equal(out[loc:loc+size], data) {
			return "FAIL patch-data"
		}
		if !bytes.Equal(out[:loc], orig[:loc]) || !bytes.Equal(out[loc+size:], orig[loc+size:]) {
			k := 0
			for k < len(orig) && (out[k] == orig[k] || (uint64(k) >= loc && uint64(k) < loc+size)) {
				k++
			}
			return "FAIL patch-outside-range " + N(uint64(k))
		}
		// a second patch of the same entry on the same object gives the same image again
		if kind == "psp" {
			_, perr = psb.PatchPSPEntry(fw, level, manifest.PSPDirectoryTableEntryType(id), bytes.NewReader(data), &w2)
		} else {
			_, perr = psb.PatchBIOSEntry(fw, level, manifest.BIOSDirectoryTableEntryType(id), inst, bytes.NewReader(data), &w2)
		}
		if perr != nil || !bytes.Equal(w2.Bytes(), out) {
			return "FAIL patch-not-repeatable"
		}
	}
	if !bytes.Equal(img, orig) {
		return "FAIL input-image-modified"
	}
	return ""
}

// a[0] map, a[1] image, a[2] "psp"|"bios", a[3] level, a[4] id, a[5] instance, a[6] data
func pExtractPatch(a []string) string {
	img := UnH(a[1])
	orig := append([]byte{}, img...)
	fw, err := fwOf(a[0], img)
	if err != nil {
		return "skip"
	}
	level := uint(UnN(a[3]))
	id := UnN(a[4])
	inst := uint8(UnN(a[5]))
	recs, ok := rawRecords(fw.PSPFirmware(), img, a[2], level)
	if !ok {
		return "skip"
	}
	loc, size, ok := uniqueRecord(recs, a[2], id, inst)
	if !ok {
		return "skip"
	}
	if r := checkExtractPatch(fw, img, orig, a[2], level, id, inst, loc, size, UnH(a[6])); r != "" {
		return r
	}
	// the directories held by the object still decode the bytes of their ranges
	if r := checkReparse(fw.PSPFirmware(), img, nil); r != "" && r != "skip" {
		return r + " after-lookup"
	}
	return "ok"
}

// a sequence of lookups on ONE parsed firmware object: a[0] map, a[1] image, a[2] steps
// "kind.level.id.instance.data;..." (kind psp|bios|en = IsPSBEnabled|ge = GetEntries of directory `level`).
// Every step is judged like p_extract_patch with the location read off the image bytes at the
// ranges reported by the parse (before any lookup); after every step the directories the object
// holds still decode the bytes of their reported ranges.
func pSeq(a []string) string {
	img := UnH(a[1])
	orig := append([]byte{}, img...)
	fw, err := fwOf(a[0], img)
	if err != nil {
		return "skip"
	}
	p := fw.PSPFirmware()
	type tbl struct {
		recs [][]byte
		ok   bool
	}
	tbls := map[string]tbl{}
	for _, k := range []string{"psp", "bios"} {
		for _, l := range []uint{1, 2} {
			r, ok := rawRecords(p, img, k, l)
			tbls[k+N(uint64(l))] = tbl{r, ok}
		}
	}
	judged := false
	for i, st := range strings.Split(a[2], ";") {
		f := strings.Split(st, ".")
		kind, level, id, inst, data := f[0], uint(UnN(f[1])), UnN(f[2]), uint8(UnN(f[3])), UnH(f[4])
		switch kind {
		case "en":
			_, _ = psb.IsPSBEnabled(fw)
		case "ge":
			_, _ = psb.GetEntries(p, psb.DirectoryType(level), uint32(id))
		default:
			t := tbls[kind+N(uint64(level))]
			loc, size, ok := uniqueRecord(t.recs, kind, id, inst)
			if !t.ok || !ok {
				// not judged, but the calls are made: they must not disturb the object
				if kind == "psp" {
					_, _ = psb.ExtractPSPEntry(fw, level, manifest.PSPDirectoryTableEntryType(id))
				} else {
					_, _ = psb.ExtractBIOSEntry(fw, level, manifest.BIOSDirectoryTableEntryType(id), inst)
				}
				break
			}
			judged = true
			if r := checkExtractPatch(fw, img, orig, kind, level, id, inst, loc, size, data); r != "" {
				return r + " step " + N(uint64(i))
			}
		}
		// whatever directories the object holds now still decode the bytes of their ranges
		if r := checkReparse(fw.PSPFirmware(), img, nil); r != "" && r != "skip" {
			return r + " after-lookups step " + N(uint64(i))
		}
	}
	if !judged {
		return "skip"
	}
	return "ok"
}

// all 256 values of one flag byte of a record through the real entry parser, every decoded field
// against the bits of the record: a[0] "psp"|"bios", a[1] index of the swept byte, a[2] the record
func pEntryBits(a []string) string {
	rec := UnH(a[2])
	idx := int(UnN(a[1]))
	for v := 0; v < 256; v++ {
		rec[idx] = byte(v)
		if a[0] == "psp" {
			e, _, err := manifest.ParsePSPDirectoryTableEntry(bytes.NewBuffer(append([]byte{}, rec...)))
			if err != nil || showPSPEntry(*e) != refPSPEntry(rec) {
				return fmt.Sprintf("FAIL psp-entry-bits byte %d value %02x", idx, v)
			}
		} else {
			e, _, err := manifest.ParseBIOSDirectoryTableEntry(bytes.NewBuffer(append([]byte{}, rec...)))
			if err != nil || showBIOSEntry(*e) != refBIOSEntry(rec) {
				return fmt.Sprintf("FAIL bios-entry-bits byte %d value %02x", idx, v)
			}
		}
	}
	return "ok"
}

// a[0] index of the EFS anchor, a[1] seed of the contents, a[2] variant.
// A FirmwareImage of 16.25 MiB (variant 4: 18 MiB) built here: the EFS at its true anchor (later anchors
// carry signatures too: the first one in probe order counts), level-1 directories below or above 2^24,
// level-2 directories, payloads and (variants 1, 2) the scan-located level-1 directory above 2^24, a
// payload of 70000 bytes, one crossing 2^24, one of size 0 at the end and one ending at the end of the
// image, a level-2 PSP directory of 300 (variant 4: 65537) entries.  Judged like the small images:
// discovery, re-read of every range, extraction and patching.
func pBig(a []string) (res string) {
	k := int(UnN(a[0]))
	r := NewRng(UnN(a[1]))
	v := int(UnN(a[2]))
	const hi = 1 << 24
	n := hi + 0x40000
	nP2 := 300
	p2Off := hi + 0x2000
	if v == 4 {
		n, nP2, p2Off, k = hi+0x200000, 65537, hi+0x20000, 0
	} else if len(a) > 3 {
		n = int(UnN(a[3])) // 24 MiB, 32 MiB: the anchors themselves map to offsets above 16 MiB
	}
	img := make([]byte, n)
	if len(a) > 4 && a[4] != "0" { // erased flash instead of zeros between the structures
		for i := range img {
			img[i] = byte(UnN(a[4]))
		}
	}
	efsOff := int(anchors[k] - ((1 << 32) - uint64(n)))
	type blob struct{ off, size int }
	blobA := blob{hi + 0x5000, 70000}
	blobB := blob{hi - 100, 300}
	blobC := blob{hi + 0x17000, 33}
	blobD := blob{n, 0}
	blobE := blob{n - 16, 16}
	for _, b := range []blob{blobA, blobB, blobC, blobE} {
		copy(img[b.off:], r.Bytes(b.size))
	}
	p1Off, b1Off, b2Off := 0x1000, 0x2000, hi+0x4000
	if v == 1 || v == 3 {
		p1Off = hi + 0x100
	}
	if v == 2 || v == 3 {
		b1Off = hi + 0x1000
	}
	fl := func() uint16 { return uint16(r.U64()) }
	// level-2 PSP directory: entry j < 256 has type j; types 100 and 255 are looked up
	var recs [][]byte
	for j := 0; j < nP2; j++ {
		b := blobC
		switch j {
		case 100:
			b = blobD
		case 255:
			b = blobE
		}
		typ := uint8(j)
		if j >= 256 {
			typ = uint8(j % 100) // repeats of the types below 100; 100 and 255 stay unique
		}
		recs = append(recs, pspRec(typ, uint8(r.U64()), fl(), uint32(b.size), uint64(b.off)))
	}
	copy(img[p2Off:], mkTable(specPSPL2Cookie, uint32(r.U64()), uint32(nP2), recs))
	copy(img[p1Off:], mkTable(specPSPCookie, uint32(r.U64()), 3, [][]byte{
		pspRec(0x00, 0, fl(), uint32(blobB.size), uint64(blobB.off)),
		pspRec(specPSPL2Type, 0, fl(), 0x400, uint64(p2Off)),
		pspRec(0x01, 1, fl(), uint32(blobA.size), uint64(blobA.off))}))
	copy(img[b2Off:], mkTable(specBIOSL2Cookie, uint32(r.U64()), 3, [][]byte{
		biosRec(0x05, uint8(r.U64()), 0x0F&uint8(r.U64()), uint8(r.U64()), uint32(blobC.size), uint64(blobC.off), r.U64()),
		biosRec(0x66, uint8(r.U64()), 0x30|0x0F&uint8(r.U64()), uint8(r.U64()), uint32(blobE.size), uint64(blobE.off), r.U64()),
		biosRec(0x66, uint8(r.U64()), 0x10|0x0F&uint8(r.U64()), uint8(r.U64()), uint32(blobB.size), uint64(blobB.off), r.U64())}))
	copy(img[b1Off:], mkTable(specBIOSCookie, uint32(r.U64()), 4, [][]byte{
		biosRec(0x62, uint8(r.U64()), 0x0F&uint8(r.U64()), uint8(r.U64()), uint32(blobA.size), uint64(blobA.off), r.U64()),
		biosRec(specBIOSL2Type, uint8(r.U64()), uint8(r.U64()), uint8(r.U64()), 0x400, uint64(b2Off), r.U64()),
		biosRec(0x60, uint8(r.U64()), 0x10|0x0F&uint8(r.U64()), uint8(r.U64()), uint32(blobC.size), uint64(blobC.off), r.U64()),
		biosRec(0x60, uint8(r.U64()), 0x0F&uint8(r.U64()), uint8(r.U64()), uint32(blobB.size), uint64(blobB.off), r.U64())}))
	// EFS; signatures with useless pointers at the anchors probed later
	efs := efsBytes(r)
	for _, s := range []int{20, 24, 28, 32, 36, 40} {
		binary.LittleEndian.PutUint32(efs[s:], 0)
	}
	if v != 4 {
		for j := k + 1; j < len(anchors); j++ {
			d := append([]byte{}, efs...)
			binary.LittleEndian.PutUint32(d[20:], uint32(n))
			copy(img[anchors[j]-((1<<32)-uint64(n)):], d)
		}
	}
	if v == 1 { // PSP level 1 by scan, behind two false cookies
		for _, o := range []int{0x800, 0x900} {
			copy(img[o:], le32(specPSPCookie))
			binary.LittleEndian.PutUint32(img[o+8:], 0x7FFFFFF0)
		}
	} else {
		binary.LittleEndian.PutUint32(efs[20:], uint32(p1Off))
	}
	if v == 2 { // BIOS level 1 by scan
		copy(img[0x800:], le32(specBIOSCookie))
		binary.LittleEndian.PutUint32(img[0x808:], 0x7FFFFFF0)
		binary.LittleEndian.PutUint32(efs[36:], uint32(b1Off)) // the reserved word is not a pointer
	} else {
		binary.LittleEndian.PutUint32(efs[[]int{24, 28, 32, 40}[k%4]:], uint32(b1Off))
	}
	copy(img[efsOff:], efs)
	orig := append([]byte{}, img...)

	defer func() {
		if rc := recover(); rc != nil {
			res = fmt.Sprintf("FAIL big panic: %v", rc)
		}
	}()
	fw, err := psb.ParseAMDFirmware(img)
	if err != nil {
		return "FAIL big no-firmware"
	}
	p := fw.PSPFirmware()
	if p.EmbeddedFirmwareRange.Offset != uint64(efsOff) {
		return "FAIL big efs-wrong-anchor"
	}
	exp := strings.Join([]string{N(uint64(p1Off)), N(uint64(p2Off)), N(uint64(b1Off)), N(uint64(b2Off))}, ",")
	if rs := checkDiscover(p, img, exp); rs != "ok" {
		return rs
	}
	all := map[uint64]bool{uint64(p1Off): true, uint64(p2Off): true, uint64(b1Off): true, uint64(b2Off): true}
	if rs := checkReparse(p, img, all); rs != "" {
		return rs
	}
	for _, c := range []struct {
		kind  string
		level uint
		id    uint64
		inst  uint8
		b     blob
		d     int // difference between the replacement's length and the entry's
	}{
		{"psp", 1, 0x00, 0, blobB, 0}, {"psp", 1, 0x01, 0, blobA, 0}, {"psp", 2, 255, 0, blobE, 0},
		{"psp", 2, 100, 0, blobD, 0}, {"bios", 1, 0x60, 0, blobB, 0}, {"bios", 2, 0x66, 3, blobE, 0},
		{"bios", 1, 0x62, 0, blobA, 1 - 2*(k%2)}, {"psp", 2, 100, 0, blobD, 1},
	} {
		if rs := checkExtractPatch(fw, img, orig, c.kind, c.level, c.id, c.inst, uint64(c.b.off), uint64(c.b.size), r.Bytes(c.b.size+c.d)); rs != "" {
			return rs + " big " + c.kind + N(uint64(c.level)) + "." + N(c.id)
		}
	}
	if rs := checkReparse(fw.PSPFirmware(), img, all); rs != "" {
		return rs + " after-lookups"
	}
	return "ok"
}

// key attributes reflect the bits named in the in-source comments of psb/keys.go
func pKeyAttr(a []string) string {
	blob := UnH(a[0])
	k, err := psb.NewRootKey(bytes.NewBuffer(blob))
	if err != nil {
		return "skip"
	}
	usage := binary.LittleEndian.Uint32(blob[36:])
	res := blob[40:56]
	pb, e1 := psb.GetPlatformBindingInfo(k)
	sf, e2 := psb.GetSecurityFeatureVector(k)
	if usage != specPSBSignBIOS {
		if e1 == nil || e2 == nil {
			return "FAIL key-usage-not-checked"
		}
		return "ok"
	}
	if e1 != nil || e2 != nil {
		return "FAIL key-usage-psb-rejected"
	}
	if pb.VendorID != res[0] {
		return "FAIL keybits vendor-id"
	}
	if pb.KeyRevisionID != res[1]&7 {
		return "FAIL keybits key-revision"
	}
	if pb.PlatformModelID != res[1]>>4 {
		return fmt.Sprintf("FAIL keybits platform-model-id reserved[1]=%02x got %02x want %02x", res[1], pb.PlatformModelID, res[1]>>4)
	}
	if sf.DisableBIOSKeyAntiRollback != (res[3]&1 == 1) {
		return "FAIL keybits anti-rollback"
	}
	if sf.DisableAMDBIOSKeyUse != (res[3]>>1&1 == 1) {
		return fmt.Sprintf("FAIL keybits disable-amd-bios-key-use reserved[3]=%02x", res[3])
	}
	if sf.DisableSecureDebugUnlock != (res[3]>>2&1 == 1) {
		return fmt.Sprintf("FAIL keybits disable-secure-debug-unlock reserved[3]=%02x", res[3])
	}
	return "ok"
}

var anchors = []uint64{0xfffa0000, 0xfff20000, 0xffe20000, 0xffc20000, 0xff820000, 0xff020000}

func efsBytes(r *Rng) []byte {
	b := r.Bytes(74)
	binary.LittleEndian.PutUint32(b, specEFSSignature)
	return b
}

// a[0] image length, a[1] bit mask of the anchors that get a signature (when inside the image)
// FirmwareImage at its true sizes: the structure is found at the first anchor in probe order
// that lies inside the image and carries the signature; never a panic.
func pEFS(a []string) (res string) {
	n := int(UnN(a[0]))
	mask := UnN(a[1])
	img := make([]byte, n)
	want := -1
	for k, ad := range anchors {
		if uint64(n) < (1<<32)-ad {
			continue // anchor below the start of the image
		}
		off := ad - ((1 << 32) - uint64(n))
		if mask>>uint(k)&1 == 1 {
			binary.LittleEndian.PutUint32(img[off:], specEFSSignature)
			img[off+20] = byte(k + 1)
			if want < 0 {
				want = k
			}
		}
	}
	defer func() {
		if r := recover(); r != nil {
			res = fmt.Sprintf("FAIL efs-offset-wrap panic len=%x: %v", n, r)
		}
	}()
	e, r, err := manifest.FindEmbeddedFirmwareStructure(manifest.FirmwareImage(img))
	if want < 0 {
		if err == nil {
			return "FAIL efs-found-without-signature"
		}
		return "ok"
	}
	if err != nil {
		return "FAIL efs-not-found anchor " + N(uint64(want))
	}
	wantOff := anchors[want] - ((1 << 32) - uint64(n))
	if r.Offset != wantOff || r.Length != 74 || e.PSPDirectoryTablePointer != uint32(want+1) {
		return fmt.Sprintf("FAIL efs-wrong-anchor got off %x want %x", r.Offset, wantOff)
	}
	return "ok"
}

// ---------- generators ----------

func le32(v uint32) []byte { b := make([]byte, 4); binary.LittleEndian.PutUint32(b, v); return b }
func le64(v uint64) []byte { b := make([]byte, 8); binary.LittleEndian.PutUint64(b, v); return b }

// filler without '$' (0x24): no accidental directory cookie
func filler(r *Rng, n int) []byte {
	b := r.Bytes(n)
	mode := r.Intn(3)
	for i := range b {
		switch mode {
		case 0:
			b[i] = 0xFF
		case 1:
			b[i] = 0
		}
		if b[i] == 0x24 {
			b[i] = 0x25
		}
	}
	return b
}

func pspRec(typ, sub uint8, flags uint16, size uint32, loc uint64) []byte {
	b := []byte{typ, sub, byte(flags), byte(flags >> 8)}
	b = append(b, le32(size)...)
	return append(b, le64(loc)...)
}

func biosRec(typ, region, f1, f2 uint8, size uint32, src, dst uint64) []byte {
	b := []byte{typ, region, f1, f2}
	b = append(b, le32(size)...)
	b = append(b, le64(src)...)
	return append(b, le64(dst)...)
}

// table bytes with a correct checksum
func mkTable(cookie, extra, total uint32, recs [][]byte) []byte {
	b := append(le32(cookie), 0, 0, 0, 0)
	b = append(b, le32(total)...)
	b = append(b, le32(extra)...)
	for _, r := range recs {
		b = append(b, r...)
	}
	binary.LittleEndian.PutUint32(b[4:], refFletcher(b[8:]))
	return b
}

// falseCookie is a level-1 cookie that does not start a table: followed by junk, by a header
// whose entry count cannot fit, by another cookie, or by nothing at all. The bytes never contain
// a second '$'.
func falseCookie(r *Rng, ck []byte) []byte {
	d := append([]byte{}, ck...)
	switch r.Intn(5) {
	case 0: // bare cookie (the next bytes are whatever follows)
	case 1: // a few junk bytes
		d = append(d, filler(r, r.Pick(1, 3, 5, 11))...)
	case 2: // a full header with an absurd count, then junk
		d = append(d, filler(r, 4)...)
		d = append(d, le32(uint32(0x01000000+r.Intn(0x7F000000)))...)
		d = append(d, filler(r, 4+r.Pick(0, 7, 16, 40, 250))...)
	case 3: // count one more than the bytes that follow can hold (they belong to the real table)
		d = append(d, filler(r, 4)...)
		d = append(d, le32(0x00100000)...)
		d = append(d, filler(r, 4)...)
	case 4: // cookie characters cut short, then a full cookie with junk: "$PS$PSP..."
		d = append(append([]byte{}, ck[:3]...), d...)
		d = append(d, filler(r, r.Pick(2, 9, 30))...)
	}
	return d
}

type blobRef struct{ off, size int }

type built struct {
	img                    []byte
	base                   uint64
	efsOff                 int
	p1, p2, b1, b2         int // table offsets (-1 = absent)
	pspTypes1, pspTypes2   []uint8
	pspSizes1, pspSizes2   []int
	biosSizes1, biosSizes2 []int
	biosKeys1, biosKeys2   [][2]uint8 // type, instance
	sums                   bool
	tables                 map[string][]byte
	expect                 string // p_discover expectation "p1,p2,b1,b2"
}

var pspTypePool = []uint8{0x00, 0x01, 0x08, 0x0A, 0x12, 0x21, 0x50, 0x5F}
var biosTypePool = []uint8{0x05, 0x07, 0x60, 0x61, 0x62, 0x66, 0x68}

// buildImage lays out EFS, up to four directories and the entry payloads in a small image.
// r drives the layout as before; ax (an independent stream) drives the features added later: unreferenced
// backup copies of the level-1 directories in front of the referenced ones, an image that ends flush with
// its last region, entry locations with bits above 2^24 / 2^32 set.
func buildImage(r, ax *Rng) *built {
	bt := &built{p1: -1, p2: -1, b1: -1, b2: -1, sums: true, tables: map[string][]byte{}}
	type region struct {
		name string
		size int
		off  int
	}
	hasP1 := r.Chance(9, 10)
	hasP2 := hasP1 && r.Chance(1, 2)
	hasB1 := r.Chance(9, 10)
	hasB2 := hasB1 && r.Chance(1, 2)
	nEnt := func() int { return r.Pick(0, 1, 1, 2, 3, 5, 9) }
	np1, np2, nb1, nb2 := nEnt(), nEnt(), nEnt(), nEnt()
	regs := []*region{{name: "efs", size: 74}}
	if hasP1 {
		extra := 0
		if hasP2 {
			extra = 1
		}
		regs = append(regs, &region{name: "p1", size: 16 + 16*(np1+extra)})
	}
	if hasP2 {
		regs = append(regs, &region{name: "p2", size: 16 + 16*np2})
	}
	if hasB1 {
		extra := 0
		if hasB2 {
			extra = 1
		}
		regs = append(regs, &region{name: "b1", size: 16 + 24*(nb1+extra)})
	}
	if hasB2 {
		regs = append(regs, &region{name: "b2", size: 16 + 24*nb2})
	}
	nblobs := np1 + np2 + nb1 + nb2
	for i := 0; i < nblobs; i++ {
		regs = append(regs, &region{name: fmt.Sprintf("blob%d", i), size: r.Pick(0, 1, 7, 16, 33, 64)})
	}
	// shuffle, then place with gaps (offset 0 is never a table: a pointer of 0 means "absent")
	for i := len(regs) - 1; i > 0; i-- {
		j := r.Intn(i + 1)
		regs[i], regs[j] = regs[j], regs[i]
	}
	// 0..4 false level-1 cookies of either family below every directory; with them the level-1
	// directories are mostly left to the cookie scan (no usable EFS pointer)
	nDecoy := r.Pick(0, 0, 0, 1, 2, 2, 3, 4)
	scanOnly := nDecoy > 0 && r.Chance(4, 5) || r.Chance(1, 10)
	var decoys [][]byte
	for i := 0; i < nDecoy; i++ {
		ck := le32(specPSPCookie)
		if r.Chance(2, 5) {
			ck = le32(specBIOSCookie)
		}
		decoys = append(decoys, falseCookie(r, ck))
	}
	front := []*region{}
	for i, d := range decoys {
		front = append(front, &region{name: fmt.Sprintf("decoy%d", i), size: len(d)})
	}
	// room for an unreferenced copy ("backup") of a level-1 directory below everything else: a
	// pointer-located directory must win over a copy that the cookie scan would reach first
	bkPSP, bkBIOS := hasP1 && ax.Chance(1, 2), hasB1 && ax.Chance(1, 2)
	nbkP, nbkB := ax.Pick(0, 1, 2), ax.Pick(0, 1, 2)
	if bkPSP {
		front = append(front, &region{name: "bkp", size: 16 + 16*nbkP})
	}
	if bkBIOS {
		front = append(front, &region{name: "bkb", size: 16 + 24*nbkB})
	}
	// 0..3 further, different BIOS directories ("bkx"): with several EFS pointers leading to
	// parseable directories the first one in pointer order is level 1, whatever the others hold
	nAlt := 0
	if hasB1 && !scanOnly && ax.Chance(2, 5) {
		nAlt = ax.Pick(1, 1, 2, 3)
	}
	nAltEnt := make([]int, nAlt)
	for i := range nAltEnt {
		nAltEnt[i] = ax.Pick(0, 1, 2, 3)
		front = append(front, &region{name: fmt.Sprintf("bkx%d", i), size: 16 + 24*nAltEnt[i]})
	}
	regs = append(front, regs...)
	cur := 1 + r.Intn(40)
	at := map[string]*region{}
	lastEnd := cur
	for _, g := range regs {
		g.off = cur
		if strings.HasPrefix(g.name, "bk") {
			cur += g.size + ax.Pick(0, 0, 1, 5, 30)
		} else {
			cur += g.size + r.Pick(0, 0, 1, 5, 30)
		}
		lastEnd = g.off + g.size
		at[g.name] = g
	}
	total := cur + r.Intn(50)
	if ax.Chance(1, 5) {
		total = lastEnd // the image ends flush with its last region (a directory, a payload or the EFS)
	}
	img := filler(r, total)
	for i, d := range decoys {
		copy(img[at[fmt.Sprintf("decoy%d", i)].off:], d)
	}
	blob := 0
	nextBlob := func() (uint64, uint32) {
		g := at[fmt.Sprintf("blob%d", blob)]
		blob++
		off, size := g.off, g.size
		switch r.Intn(14) {
		case 0: // straddles the end
			off = total - size/2
		case 1: // beyond the end
			off = total + r.Intn(9)
		case 2: // ends exactly at the end
			off = total - size
		}
		loc := uint64(off)
		switch ax.Intn(24) { // a location that only looks inside when its upper bits are dropped
		case 0:
			loc |= 1 << 32
		case 1:
			loc += 1 << 24
		case 2:
			loc |= 1 << 63
		}
		return loc, uint32(size)
	}
	pickTypes := func(pool []uint8, n int) []uint8 {
		ts := make([]uint8, n)
		perm := append([]uint8{}, pool...)
		for i := len(perm) - 1; i > 0; i-- {
			j := r.Intn(i + 1)
			perm[i], perm[j] = perm[j], perm[i]
		}
		for i := range ts {
			ts[i] = perm[i%len(perm)]
			if r.Chance(1, 12) { // duplicate type
				ts[i] = perm[0]
			}
		}
		return ts
	}
	mkPSP := func(cookie uint32, n int, l2 int) ([]byte, []uint8, []int) {
		ts := pickTypes(pspTypePool, n)
		var recs [][]byte
		var sizes []int
		l2At := -1
		if l2 >= 0 {
			l2At = r.Intn(n + 1)
		}
		for i := 0; i <= n; i++ {
			if i == l2At {
				recs = append(recs, pspRec(specPSPL2Type, uint8(r.Intn(4)), uint16(r.U64()), 0x400, uint64(l2)))
			}
			if i < n {
				loc, size := nextBlob()
				recs = append(recs, pspRec(ts[i], uint8(r.Intn(8)), uint16(r.U64()), size, loc))
				sizes = append(sizes, int(size))
			}
		}
		return mkTable(cookie, uint32(r.U64()), uint32(len(recs)), recs), ts, sizes
	}
	mkBIOS := func(cookie uint32, n int, l2 int) ([]byte, [][2]uint8, []int) {
		ts := pickTypes(biosTypePool, n)
		var recs [][]byte
		var keys [][2]uint8
		var sizes []int
		l2At := -1
		if l2 >= 0 {
			l2At = r.Intn(n + 1)
		}
		for i := 0; i <= n; i++ {
			if i == l2At {
				recs = append(recs, biosRec(specBIOSL2Type, uint8(r.U64()), uint8(r.U64()), uint8(r.U64()), 0x400, uint64(l2), r.U64()))
			}
			if i < n {
				loc, size := nextBlob()
				f1 := uint8(r.U64())
				if r.Chance(1, 2) {
					f1 &= 0x0F // instance 0
				}
				recs = append(recs, biosRec(ts[i], uint8(r.U64()), f1, uint8(r.U64()), size, loc, r.U64()))
				keys = append(keys, [2]uint8{ts[i], f1 >> 4})
				sizes = append(sizes, int(size))
			}
		}
		return mkTable(cookie, uint32(r.U64()), uint32(len(recs)), recs), keys, sizes
	}
	put := func(name string, b []byte) int {
		g := at[name]
		copy(img[g.off:], b)
		bt.tables[name] = b
		return g.off
	}
	if hasP2 {
		t, ts, sz := mkPSP(specPSPL2Cookie, np2, -1)
		bt.p2 = put("p2", t)
		bt.pspTypes2, bt.pspSizes2 = ts, sz
	}
	if hasP1 {
		t, ts, sz := mkPSP(specPSPCookie, np1, bt.p2)
		bt.p1 = put("p1", t)
		bt.pspTypes1, bt.pspSizes1 = ts, sz
	}
	if hasB2 {
		t, ks, sz := mkBIOS(specBIOSL2Cookie, nb2, -1)
		bt.b2 = put("b2", t)
		bt.biosKeys2, bt.biosSizes2 = ks, sz
	}
	if hasB1 {
		t, ks, sz := mkBIOS(specBIOSCookie, nb1, bt.b2)
		bt.b1 = put("b1", t)
		bt.biosKeys1, bt.biosSizes1 = ks, sz
	}
	// EFS
	efs := efsBytes(r)
	ptr := func(off int) uint32 {
		if off < 0 {
			return 0
		}
		return uint32(off)
	}
	pp := ptr(bt.p1)
	pmode := r.Intn(8)
	if scanOnly {
		pmode = r.Intn(3)
	}
	switch pmode {
	case 0:
		pp = 0 // scan fallback
	case 1:
		pp = uint32(total + r.Intn(3)) // at or beyond the end -> scan
	case 2:
		pp = uint32(at["efs"].off) // points at something that is not a table -> scan
	}
	binary.LittleEndian.PutUint32(efs[20:], pp)
	slots := []int{24, 28, 32, 40}
	for _, s := range slots {
		v := uint32(0)
		switch r.Intn(5) {
		case 0:
			v = uint32(total) // exactly len(image): empty slice, parse error, next slot
		case 1:
			v = uint32(total + 1 + r.Intn(1000))
		case 2:
			v = uint32(at["efs"].off)
		}
		binary.LittleEndian.PutUint32(efs[s:], v)
	}
	binary.LittleEndian.PutUint32(efs[36:], uint32(r.U64()))
	// pointers of erased flash and with the top bit set (far beyond any image): passed over like the others
	for _, s := range slots {
		if ax.Chance(1, 8) {
			binary.LittleEndian.PutUint32(efs[s:], []uint32{0xFFFFFFFF, 0xFFFFFFF0, 0x80000000}[ax.Intn(3)])
		}
	}
	if pmode == 1 && ax.Chance(1, 2) {
		binary.LittleEndian.PutUint32(efs[20:], []uint32{0xFFFFFFFF, 0xFFFFFFF0, 0x80000000}[ax.Intn(3)])
	}
	biosByPointer := false
	altDirs := map[int64]bool{}
	if bt.b1 >= 0 && !scanOnly && r.Chance(4, 5) {
		bi := r.Intn(4)
		binary.LittleEndian.PutUint32(efs[slots[bi]:], uint32(bt.b1))
		biosByPointer = true
		// the other directories behind the remaining pointers, before or after the first one;
		// the unusable values drawn above stay in the slots not taken
		free := []int{}
		for k := range slots {
			if k != bi {
				free = append(free, k)
			}
		}
		for i := 0; i < nAlt; i++ {
			var recs [][]byte
			for j := 0; j < nAltEnt[i]; j++ {
				recs = append(recs, biosRec(biosTypePool[ax.Intn(len(biosTypePool))], uint8(ax.U64()), uint8(ax.U64()), uint8(ax.U64()),
					uint32(ax.Pick(0, 4, 16)), uint64(1+ax.Intn(total)), ax.U64()))
			}
			ck := uint32(specBIOSCookie)
			if ax.Chance(1, 4) {
				ck = specBIOSL2Cookie // the parser takes either cookie behind a pointer
			}
			off := at[fmt.Sprintf("bkx%d", i)].off
			copy(img[off:], mkTable(ck, uint32(ax.U64()), uint32(nAltEnt[i]), recs))
			k := ax.Intn(len(free))
			binary.LittleEndian.PutUint32(efs[slots[free[k]]:], uint32(off))
			free = append(free[:k], free[k+1:]...)
			altDirs[int64(off)] = true
		}
		if bt.b2 >= 0 && len(free) > 0 && ax.Chance(1, 5) { // the level-2 directory directly behind a pointer as well
			binary.LittleEndian.PutUint32(efs[slots[free[ax.Intn(len(free))]]:], uint32(bt.b2))
			altDirs[int64(bt.b2)] = true
		}
		if len(free) > 0 && ax.Chance(1, 6) { // the same directory behind two pointers
			binary.LittleEndian.PutUint32(efs[slots[free[ax.Intn(len(free))]]:], uint32(bt.b1))
		}
	}
	bt.efsOff = put("efs", efs)
	bt.base = anchors[r.Intn(6)] - uint64(bt.efsOff)
	bt.img = img
	// the backup copies, only where the EFS points at the real directory
	if bkPSP && bt.p1 >= 0 && pmode >= 3 {
		var recs [][]byte
		for i := 0; i < nbkP; i++ {
			recs = append(recs, pspRec(pspTypePool[ax.Intn(len(pspTypePool))], 0, uint16(ax.U64()), 4, uint64(1+ax.Intn(total))))
		}
		copy(img[at["bkp"].off:], mkTable(specPSPCookie, uint32(ax.U64()), uint32(nbkP), recs))
	}
	if bkBIOS && biosByPointer {
		var recs [][]byte
		for i := 0; i < nbkB; i++ {
			recs = append(recs, biosRec(biosTypePool[ax.Intn(len(biosTypePool))], 0, uint8(ax.U64()), uint8(ax.U64()), 4, uint64(1+ax.Intn(total)), ax.U64()))
		}
		copy(img[at["bkb"].off:], mkTable(specBIOSCookie, uint32(ax.U64()), uint32(nbkB), recs))
	}
	// what discovery must report: the layout (bt.p1..) where an independent walk of the image reaches
	// the same directory; anything else (a false cookie that happens to be an empty directory, ...) is
	// left unjudged
	ref := refDiscover(img, bt.efsOff)
	var exp []string
	for i, o := range []int{bt.p1, bt.p2, bt.b1, bt.b2} {
		switch {
		case i == 2 && altDirs[ref[2]]: // an earlier pointer leads to another laid-out directory: that one
			exp = append(exp, N(uint64(ref[2])))
		case int64(o) != ref[i]:
			exp = append(exp, "?")
		case o < 0:
			exp = append(exp, "-")
		default:
			exp = append(exp, N(uint64(o)))
		}
	}
	bt.expect = strings.Join(exp, ",")
	return bt
}

// mutate damages a built image in one place; returns whether checksums are still as built
func mutate(r *Rng, bt *built) {
	img := bt.img
	tbl := []int{}
	for _, o := range []int{bt.p1, bt.p2, bt.b1, bt.b2} {
		if o >= 0 {
			tbl = append(tbl, o)
		}
	}
	switch r.Intn(10) {
	case 0: // truncate
		bt.img = img[:r.Intn(len(img)+1)]
	case 1: // TotalEntries boundary
		if len(tbl) > 0 {
			o := tbl[r.Intn(len(tbl))]
			n := binary.LittleEndian.Uint32(img[o+8:])
			v := []uint32{0, 1, n + 1, n - 1, 0xFFFFFFFF, 0x10000000, uint32((len(img) - o - 16) / 16), uint32((len(img)-o-16)/16 + 1),
				uint32((len(img) - o - 16) / 24), uint32((len(img)-o-16)/24 + 1)}[r.Intn(10)]
			binary.LittleEndian.PutUint32(img[o+8:], v)
			bt.sums = false
		}
	case 2: // cookie damaged
		if len(tbl) > 0 {
			o := tbl[r.Intn(len(tbl))]
			img[o+r.Intn(4)] ^= byte(1 << uint(r.Intn(8)))
			bt.sums = false
		}
	case 3: // a decoy level-1 cookie in front of everything (scan path skips it by 4)
		c := le32(specPSPCookie)
		if r.Bool() {
			c = le32(specBIOSCookie)
		}
		copy(img[0:], c)
		if len(img) > 12 {
			binary.LittleEndian.PutUint32(img[8:], 0xFFFFFF00)
		}
		bt.sums = false // the decoy may overlap a directory placed at the very start
	case 4: // random byte anywhere
		if len(img) > 0 {
			img[r.Intn(len(img))] = byte(r.U64())
			bt.sums = false
		}
	case 5: // EFS signature damaged
		img[bt.efsOff+r.Intn(4)] ^= 0x10
	case 6: // image ends inside or right after a table
		if len(tbl) > 0 {
			o := tbl[r.Intn(len(tbl))]
			n := int(binary.LittleEndian.Uint32(img[o+8:]))
			cut := o + 16 + r.Pick(16, 24)*n + r.Pick(-1, 0, 0, 1, -8, -17)
			if cut >= 0 && cut <= len(img) {
				bt.img = img[:cut]
			}
		}
	case 7: // level-2 pointer of the first directory: 0 / len / beyond
		if bt.p1 >= 0 && bt.p2 >= 0 {
			o := bt.p1
			n := int(binary.LittleEndian.Uint32(img[o+8:]))
			for i := 0; i < n && o+16+16*i+16 <= len(img); i++ {
				if img[o+16+16*i] == 0x40 {
					binary.LittleEndian.PutUint64(img[o+16+16*i+8:], []uint64{0, uint64(len(img)), uint64(len(img)) - 1, 1 << 40, 0xFFFFFFFFFFFFFFFF}[r.Intn(5)])
					bt.sums = false
				}
			}
		}
	case 9: // level-2 pointer of either family with bits above the image size set: there is no such directory
		for _, c := range []struct {
			o, w int
			typ  byte
		}{{bt.p1, 16, specPSPL2Type}, {bt.b1, 24, specBIOSL2Type}} {
			if c.o < 0 || r.Bool() {
				continue
			}
			n := int(binary.LittleEndian.Uint32(img[c.o+8:]))
			for i := 0; i < n && c.o+16+c.w*i+c.w <= len(img); i++ {
				if rec := img[c.o+16+c.w*i:]; rec[0] == c.typ {
					v := binary.LittleEndian.Uint64(rec[8:])
					binary.LittleEndian.PutUint64(rec[8:], []uint64{v + 1<<24, v | 1<<32, v | 1<<63, v + 1<<16}[r.Intn(4)])
					bt.sums = false
				}
			}
		}
	case 8: // wrong checksum only
		if len(tbl) > 0 {
			o := tbl[r.Intn(len(tbl))]
			img[o+4] ^= 1
			bt.sums = false
		}
	}
}

func rootKeyBlob(r *Rng, usage uint32, reserved []byte, expBits, modBits uint32, sameID bool, extra int) []byte {
	var b bytes.Buffer
	b.Write(le32(uint32(r.U64())))
	id := r.Bytes(16)
	b.Write(id)
	if sameID {
		b.Write(id)
	} else {
		b.Write(r.Bytes(16))
	}
	b.Write(le32(usage))
	b.Write(reserved)
	b.Write(le32(expBits))
	b.Write(le32(modBits))
	n := int(expBits/8) + int(modBits/8) + extra
	if n > 0 {
		b.Write(r.Bytes(n))
	}
	return b.Bytes()
}

func gen(r *Rng, tier string, emit Emit) {
	mult := 1
	if tier == "thorough" {
		mult = 25
	}

	// one real-size image just below the first anchor (the length at which offset+4 wraps in the
	// unrepaired FindEmbeddedFirmwareStructure), first so that it is reported first
	emit("C", "efs", H(make([]byte, (1<<32)-int(anchors[0])-1)))

	// the sub-streams, forked in the order in which the sections used to fork them (so that their
	// cases stay what they were), then the streams of the features added later
	kr := r.Fork(6)
	fr := r.Fork(1)
	er := r.Fork(2)
	tr := r.Fork(3)
	ir := r.Fork(4)
	pr := r.Fork(5)
	ax := r.Fork(7)  // images: backups, flush ends, high location bits
	sx := r.Fork(8)  // lookup sequences on one firmware object
	bx := r.Fork(9)  // images beyond 16 MiB
	tx := r.Fork(10) // directories with more than 255 entries

	// ---- keys ----
	for v := 0; v < 256; v++ { // every value of the two decoded bytes
		res := kr.Bytes(16)
		res[1], res[3] = byte(v), byte(v*167+13) // both bytes run through all 256 values, not in step
		blob := rootKeyBlob(kr, 8, res, 8*uint32(1+kr.Intn(4)), 8*uint32(1+kr.Intn(8)), true, 0)
		emit("C", "rootkey", H(blob))
		emit("P", "p_keyattr", H(blob))
	}
	for it := 0; it < 120*mult; it++ {
		usage := uint32(kr.Pick(8, 8, 8, 0, 1, 2, 9, 0x80000008))
		eb := uint32(kr.Pick(8, 16, 32, 0, 7, 12, 2048))
		mb := uint32(kr.Pick(8, 16, 64, 0, 9, 2048))
		blob := rootKeyBlob(kr, usage, kr.Bytes(16), eb, mb, kr.Chance(9, 10), kr.Pick(0, 0, 3))
		if kr.Chance(1, 6) {
			blob = blob[:kr.Intn(len(blob)+1)]
		}
		emit("C", "rootkey", H(blob))
		emit("P", "p_keyattr", H(blob))
	}

	for _, usage := range []uint32{0x108, 0x10008, 0x01000008, 0x80000008, 0x800, 0x80, 8} { // 8 in the low byte/half only
		blob := rootKeyBlob(tx, usage, tx.Bytes(16), 8, 16, true, 0)
		emit("C", "rootkey", H(blob))
		emit("P", "p_keyattr", H(blob))
	}

	// ---- Fletcher ----
	lens := []int{0, 1, 2, 3, 718, 719, 720, 721, 722, 1439, 1440, 1441, 1442, 2160, 2161}
	for it := 0; it < 150*mult; it++ {
		n := fr.Intn(2500)
		if it < len(lens) {
			n = lens[it]
		}
		d := fr.Bytes(n)
		switch fr.Intn(4) {
		case 0:
			for i := range d {
				d[i] = 0xFF
			}
		case 1:
			for i := range d {
				d[i] = 0xFE | byte(fr.U64()&1)
			}
		}
		emit("P", "p_fletcher", H(d))
		raw := append(fr.Bytes(8), d...)
		if fr.Chance(1, 20) {
			raw = raw[:fr.Intn(9)] // shorter than the 8-byte prefix: slice panic unless exactly 8
		}
		if fr.Bool() {
			emit("C", "psp_checksum", H(raw))
		} else {
			emit("C", "bios_checksum", H(raw))
		}
	}
	if tier == "thorough" { // long inputs: many blocks
		for _, n := range []int{720 * 91, 720*200 + 1, 300001} {
			d := fr.Bytes(n)
			for i := range d {
				d[i] = 0xFF - byte(fr.Intn(2))
			}
			emit("P", "p_fletcher", H(d))
			emit("C", "psp_checksum", H(append(make([]byte, 8), d...)))
		}
	}

	// ---- single entries: all 256 values of each flag byte, then random and short buffers ----
	for v := 0; v < 256; v++ {
		b := er.Bytes(24)
		b[2] = byte(v)
		emit("C", "bios_entry", H(b))
		b = er.Bytes(24)
		b[3] = byte(v)
		emit("C", "bios_entry", H(b))
		p := er.Bytes(16)
		p[3] = byte(v)
		emit("C", "psp_entry", H(p))
	}
	// the same sweep on the implementation alone, judged against the bits of the record
	for it := 0; it < 2*mult; it++ {
		for _, idx := range []int{2, 3} {
			emit("P", "p_entry_bits", "psp", N(uint64(idx)), H(tx.Bytes(16)))
			emit("P", "p_entry_bits", "bios", N(uint64(idx)), H(tx.Bytes(24)))
		}
	}
	for it := 0; it < 100*mult; it++ {
		emit("C", "psp_entry", H(er.Bytes(er.Pick(0, 1, 2, 3, 4, 7, 8, 15, 16, 17, 40))))
		emit("C", "bios_entry", H(er.Bytes(er.Pick(0, 1, 2, 3, 4, 5, 8, 9, 16, 23, 24, 25, 40))))
	}

	// ---- tables on their own ----
	for it := 0; it < 250*mult; it++ {
		rr := tr.Fork(uint64(it))
		n := rr.Pick(0, 1, 2, 3, 7, 20)
		if it%25 == 24 { // entry counts around and beyond one byte
			n = tx.Pick(255, 256, 257, 300)
		}
		var precs, brecs [][]byte
		for i := 0; i < n; i++ {
			precs = append(precs, pspRec(uint8(rr.U64()), uint8(rr.U64()), uint16(rr.U64()), uint32(rr.U64()), rr.U64()))
			brecs = append(brecs, biosRec(uint8(rr.U64()), uint8(rr.U64()), uint8(rr.U64()), uint8(rr.U64()), uint32(rr.U64()), rr.U64(), rr.U64()))
		}
		pc := uint32(specPSPCookie)
		bc := uint32(specBIOSCookie)
		if rr.Bool() {
			pc, bc = specPSPL2Cookie, specBIOSL2Cookie
		}
		pt := mkTable(pc, uint32(rr.U64()), uint32(n), precs)
		btb := mkTable(bc, uint32(rr.U64()), uint32(n), brecs)
		tail := rr.Bytes(rr.Pick(0, 0, 1, 15, 16, 24, 100))
		for _, c := range []struct {
			fn string
			t  []byte
			w  int
		}{{"psp_table", pt, 16}, {"bios_table", btb, 24}} {
			d := append(append([]byte{}, c.t...), tail...)
			switch rr.Intn(8) {
			case 0: // truncated
				d = d[:rr.Intn(len(d)+1)]
			case 1: // count field boundaries
				rem := len(d) - 16
				v := []uint32{uint32(n + 1), uint32(n - 1), 0xFFFFFFFF, uint32(rem / 16), uint32(rem/16 + 1), uint32(rem / 24), uint32(rem/24 + 1), 0x80000000}[rr.Intn(8)]
				binary.LittleEndian.PutUint32(d[8:], v)
			case 2: // cookie bit flip
				d[rr.Intn(4)] ^= byte(1 << uint(rr.Intn(8)))
			case 3: // the other family's cookie
				if c.fn == "psp_table" {
					copy(d, le32(bc))
				} else {
					copy(d, le32(pc))
				}
			case 4: // exactly between the 16-per-entry check and the 24-per-entry need
				if c.fn == "bios_table" && n > 0 {
					d = d[:16+16*n+rr.Intn(8*n)]
				}
			}
			emit("C", c.fn, H(d))
			// scan over a buffer holding the table behind filler and decoys
			pre := filler(rr, rr.Pick(0, 1, 5, 33))
			scan := append(pre, d...)
			// 0..4 false cookies in front: the running offset of the scan must accumulate every skip
			{
				ck := le32(specPSPCookie)
				if c.fn == "bios_table" {
					ck = le32(specBIOSCookie)
				}
				for k := rr.Pick(0, 0, 1, 2, 2, 3, 4); k > 0; k-- {
					scan = append(falseCookie(rr, ck), scan...)
				}
				if rr.Chance(1, 6) {
					scan = append(scan, ck...) // a last cookie with nothing behind it
				}
			}
			if c.fn == "psp_table" {
				emit("C", "find_psp", H(scan))
			} else {
				emit("C", "find_bios", H(scan))
			}
		}
	}

	// ---- whole small images through a Firmware with a shifted address map ----
	for it := 0; it < 260*mult; it++ {
		rr := ir.Fork(uint64(it))
		bt := buildImage(rr, ax.Fork(uint64(it)))
		mutated := rr.Chance(2, 5)
		if mutated {
			mutate(rr, bt)
		}
		mp := N(bt.base)
		img := H(bt.img)
		sums := "-"
		if bt.sums {
			var offs []string
			for _, o := range []int{bt.p1, bt.p2, bt.b1, bt.b2} {
				if o >= 0 {
					offs = append(offs, N(uint64(o)))
				}
			}
			if len(offs) > 0 {
				sums = strings.Join(offs, ",")
			}
		}
		emit("C", "parsefw", mp, img)
		emit("P", "p_reparse", mp, img, sums)
		if !mutated {
			emit("P", "p_discover", mp, img, bt.expect)
		}
		emit("C", "psb_enabled", mp, img)
		// PSP entry
		level := 1
		if len(bt.pspTypes2) > 0 && rr.Bool() {
			level = 2
		}
		if rr.Chance(1, 12) {
			level = rr.Pick(0, 3, 1, 2)
		}
		types, sizes := bt.pspTypes1, bt.pspSizes1
		if level == 2 {
			types, sizes = bt.pspTypes2, bt.pspSizes2
		}
		id := uint8(rr.U64())
		data := rr.Bytes(rr.Pick(0, 1, 7, 16, 33, 64, 65))
		if len(types) > 0 && rr.Chance(7, 8) {
			k := rr.Intn(len(types))
			id = types[k]
			if rr.Chance(3, 4) {
				data = rr.Bytes(sizes[k])
			}
		}
		if rr.Chance(1, 12) {
			id = 0x40
		}
		emit("C", "extract_psp", mp, img, N(uint64(level)), N(uint64(id)))
		emit("C", "patch_psp", mp, img, N(uint64(level)), N(uint64(id)), H(data))
		emit("P", "p_extract_patch", mp, img, "psp", N(uint64(level)), N(uint64(id)), "0", H(data))
		// BIOS entry
		level = 1
		if len(bt.biosKeys2) > 0 && rr.Bool() {
			level = 2
		}
		if rr.Chance(1, 12) {
			level = rr.Pick(0, 3, 1, 2)
		}
		keys, bsizes := bt.biosKeys1, bt.biosSizes1
		if level == 2 {
			keys, bsizes = bt.biosKeys2, bt.biosSizes2
		}
		bid, inst := uint8(rr.U64()), uint8(rr.Intn(16))
		data = rr.Bytes(rr.Pick(0, 1, 7, 16, 33, 64, 65))
		if len(keys) > 0 && rr.Chance(7, 8) {
			k := rr.Intn(len(keys))
			bid, inst = keys[k][0], keys[k][1]
			if rr.Chance(3, 4) {
				data = rr.Bytes(bsizes[k])
			}
			if rr.Chance(1, 10) {
				inst = uint8(rr.Intn(16))
			}
		}
		emit("C", "extract_bios", mp, img, N(uint64(level)), N(uint64(bid)), N(uint64(inst)))
		emit("C", "patch_bios", mp, img, N(uint64(level)), N(uint64(bid)), N(uint64(inst)), H(data))
		emit("P", "p_extract_patch", mp, img, "bios", N(uint64(level)), N(uint64(bid)), N(uint64(inst)), H(data))
		// several lookups on one parsed object, in any order of family and level, the same entry twice
		{
			sr := sx.Fork(uint64(it))
			var steps []string
			for k := sr.Pick(2, 3, 4, 6); k > 0; k-- {
				lv := sr.Pick(1, 1, 2, 2, 1, 2, 1, 2, 1, 2, 0, 3)
				switch sr.Intn(8) {
				case 0:
					steps = append(steps, "en.0.0.0.")
				case 1:
					steps = append(steps, "ge."+N(uint64(sr.Intn(5)))+"."+N(uint64(pspTypePool[sr.Intn(len(pspTypePool))]))+".0.")
				case 2, 3, 4:
					ts, ss := bt.pspTypes1, bt.pspSizes1
					if lv == 2 {
						ts, ss = bt.pspTypes2, bt.pspSizes2
					}
					id, d := uint8(sr.U64()), sr.Bytes(sr.Pick(0, 7, 16))
					if len(ts) > 0 {
						j := sr.Intn(len(ts))
						id = ts[j]
						if sr.Chance(3, 4) {
							d = sr.Bytes(ss[j])
						}
					}
					steps = append(steps, "psp."+N(uint64(lv))+"."+N(uint64(id))+".0."+H(d))
				default:
					ks, ss := bt.biosKeys1, bt.biosSizes1
					if lv == 2 {
						ks, ss = bt.biosKeys2, bt.biosSizes2
					}
					id, in, d := uint8(sr.U64()), uint8(sr.Intn(16)), sr.Bytes(sr.Pick(0, 7, 16))
					if len(ks) > 0 {
						j := sr.Intn(len(ks))
						id, in = ks[j][0], ks[j][1]
						if sr.Chance(3, 4) {
							d = sr.Bytes(ss[j])
						}
					}
					steps = append(steps, "bios."+N(uint64(lv))+"."+N(uint64(id))+"."+N(uint64(in))+"."+H(d))
				}
				if len(steps) > 0 && sr.Chance(1, 4) { // the same step again
					steps = append(steps, steps[sr.Intn(len(steps))])
				}
			}
			emit("P", "p_seq", mp, img, strings.Join(steps, ";"))
		}
	}

	// ---- images beyond 16 MiB (built in the worker; oracles only): directories, payloads and the EFS at
	// offsets above 2^24, a payload above 2^16 bytes, a level-2 directory with more than 255 entries ----
	for k := range anchors {
		emit("P", "p_big", N(uint64(k)), N(bx.U64()), N(uint64(k%3)))
	}
	if tier == "thorough" {
		for it := 0; it < 12; it++ {
			emit("P", "p_big", N(uint64(bx.Intn(6))), N(bx.U64()), N(uint64(bx.Intn(4))))
		}
		emit("P", "p_big", "0", N(bx.U64()), "4") // 65537 entries
	}
	// 24 and 32 MiB: in one of the two every anchor (and with it the EFS) lies above 16 MiB; the
	// later anchors carry useless signatures, some of them below 16 MiB
	bigs := [][3]int{{0, 24, 0}, {4, 24, 0xFF}, {5, 32, 0}, {2, 32, 0xFF}}
	if tier == "thorough" {
		bigs = nil
		for k := range anchors {
			bigs = append(bigs, [3]int{k, 24, 0xFF * (k % 2)}, [3]int{k, 32, 0xFF * ((k + 1) % 2)})
		}
	}
	for i, c := range bigs {
		emit("P", "p_big", N(uint64(c[0])), N(uint64(0xB16+i)), N(uint64((c[0]+i)%4)), N(uint64(c[1])<<20), N(uint64(c[2])))
	}
	for _, mib := range []int{24, 32} {
		for k, ad := range anchors {
			emit("C", "phys2off", N(uint64(mib)<<20), N(ad))
			emit("P", "p_efs", N(uint64(mib)<<20), N(1<<uint(k)))
			if k%2 == 0 {
				emit("P", "p_efs", N(uint64(mib)<<20), N(0x3F&^(1<<uint(k)-1)))
			}
		}
	}

	// ---- EFS probing with manifest.FirmwareImage at true sizes ----
	for k, ad := range anchors {
		need := int((1 << 32) - ad)
		for _, d := range []int{-5, -4, -3, -2, -1, 0, 1, 4096} {
			emit("C", "phys2off", N(uint64(need+d)), N(ad))
			masks := []uint64{1 << uint(k), 0x3F, 0}
			if d < 0 && k > 0 {
				masks = []uint64{0x3F, 1 << uint(k-1)}
			}
			for _, m := range masks {
				if tier == "quick" && k >= 4 && d != -1 && d != 0 && m == 0 {
					continue
				}
				emit("P", "p_efs", N(uint64(need+d)), N(m))
			}
		}
		emit("P", "p_efs", N(uint64(need+1+pr.Intn(70000))), N(pr.U64()&0x3F))
	}
	for _, n := range []int{0, 3, 4, 73, 74, 75, 4096} {
		emit("C", "phys2off", N(uint64(n)), N(anchors[pr.Intn(6)]))
		emit("C", "efs", H(pr.Bytes(n)))
	}
	// real-size images through the model as well: the two highest anchors (384 KiB, 896 KiB)
	bigAnchors := 2
	if tier == "thorough" {
		bigAnchors = 4
	}
	for k := 0; k < bigAnchors; k++ {
		need := int((1 << 32) - anchors[k])
		for _, d := range []int{-4, -1, 0, 1 + pr.Intn(3000)} {
			if tier == "quick" && k == 1 && d == -4 {
				continue
			}
			n := need + d
			img := make([]byte, n)
			// signatures at every anchor inside the image except (sometimes) the first reachable
			first := true
			for j, ad := range anchors {
				if uint64(n) < (1<<32)-ad {
					continue
				}
				off := int(ad - ((1 << 32) - uint64(n)))
				if first && pr.Chance(1, 3) {
					first = false
					continue
				}
				first = false
				e := efsBytes(pr)
				binary.LittleEndian.PutUint32(e[20:], uint32(0x100+j))
				for _, s := range []int{24, 28, 32, 40} {
					binary.LittleEndian.PutUint32(e[s:], 0)
				}
				copy(img[off:], e)
			}
			// one PSP directory at 0x100 (pointer-located) and one BIOS directory found by scan
			pt := mkTable(specPSPCookie, 0, 2, [][]byte{
				pspRec(0x00, 0, 0, 64, 0x400), pspRec(0x0A, 1, 0xC000, 16, uint64(n-16))})
			copy(img[0x100:], pt)
			btb := mkTable(specBIOSCookie, 0, 1, [][]byte{biosRec(0x62, 0, 0x10, 9, 32, 0x500, 1)})
			copy(img[0x300:], btb)
			copy(img[0x400:], pr.Bytes(64))
			emit("C", "efs", H(img))
			emit("C", "parsefw", "img", H(img))
			emit("P", "p_reparse", "img", H(img), "100,300")
			if d >= 0 {
				emit("C", "extract_psp", "img", H(img), "1", "a")
				emit("P", "p_extract_patch", "img", H(img), "psp", "1", "0", "0", H(pr.Bytes(64)))
			}
		}
	}

}

func main() {
	Register("psp_checksum", opPSPChecksum)
	Register("bios_checksum", opBIOSChecksum)
	Register("psp_entry", opPSPEntry)
	Register("bios_entry", opBIOSEntry)
	Register("psp_table", opPSPTable)
	Register("bios_table", opBIOSTable)
	Register("find_psp", opFindPSP)
	Register("find_bios", opFindBIOS)
	Register("efs", opEFS)
	Register("phys2off", opPhys2Off)
	Register("parsefw", opParseFW)
	Register("extract_psp", opExtractPSP)
	Register("extract_bios", opExtractBIOS)
	Register("patch_psp", opPatchPSP)
	Register("patch_bios", opPatchBIOS)
	Register("psb_enabled", opPSBEnabled)
	Register("rootkey", opRootKey)
	Register("p_fletcher", pFletcher)
	Register("p_reparse", pReparse)
	Register("p_extract_patch", pExtractPatch)
	Register("p_keyattr", pKeyAttr)
	Register("p_efs", pEFS)
	Register("p_discover", pDiscover)
	Register("p_seq", pSeq)
	Register("p_entry_bits", pEntryBits)
	Register("p_big", pBig)
	Main(gen)
}
