// c04/audit.go — additions of the coverage audit: input classes the generator never produced
// (sections inside compressed GUID-defined sections, the extended common header on sections of every
// kind, Intel flash images) and observations the oracles did not look at (children of a compressed
// section against its decoded payload, the flash descriptor / region tiling, every header field of a
// volume).
package main

import (
	"bytes"
	"encoding/binary"
	"fmt"

	"github.com/linuxboot/fiano/pkg/compression"
	"github.com/linuxboot/fiano/pkg/guid"
	"github.com/linuxboot/fiano/pkg/uefi"
	. "verifharness/common"
	"verifharness/flashops"
	"verifharness/uefigen"
	"verifharness/uefiops"
)

// ---------- compressed sections ----------

func codecGUID(kind int) *guid.GUID {
	switch kind {
	case 1:
		return &compression.LZMAGUID
	case 2:
		return &compression.LZMAX86GUID
	}
	return &compression.ZLIBGUID
}

// the encoders are only used to BUILD inputs (C04 is about parsing); the decoded payload handed to the
// model as its codec table is the plain text the generator compressed, not what fiano decodes
func realEnc(kind int, plain []byte) ([]byte, error) {
	return compression.CompressorFromGUID(codecGUID(kind)).Encode(plain)
}

// genCompImage: see uefigen.GenCompImage (shared with C05)
func genCompImage(r *Rng, hostile int) ([]byte, []uefigen.Field, []uefigen.CodecLine) {
	return uefigen.GenCompImage(r, realEnc, hostile)
}

// decodedPayload: what the section's payload decodes to, by the real decompressor, when the parser
// reports that it decoded it (Compression names the codec). nil otherwise.
func decodedPayload(s *uefi.Section) []byte {
	if s.Header.Type != uefi.SectionTypeGUIDDefined || s.TypeSpecific == nil {
		return nil
	}
	gd, ok := s.TypeSpecific.Header.(*uefi.SectionGUIDDefined)
	if !ok || gd.Attributes&uint16(uefi.GUIDEDSectionProcessingRequired) == 0 || gd.Compression == "" || gd.Compression == "UNKNOWN" {
		return nil
	}
	c := compression.CompressorFromGUID(&gd.GUID)
	if c == nil || int(gd.DataOffset) > len(s.Buf()) {
		return nil
	}
	dec, err := c.Decode(append([]byte{}, s.Buf()[gd.DataOffset:]...))
	if err != nil {
		return nil
	}
	return dec
}

// strictDecodedKids: the children of a decoded section are sections that tile the decoded payload —
// windows of it at consecutive 4-aligned offsets from 0, each inside it, up to its end.
func strictDecodedKids(dec []byte, kids []*uefi.Section) string {
	if r := strictSections(dec, 0, kids); r != "" {
		return r + " (in decoded payload)"
	}
	off := uint64(0)
	for _, k := range kids {
		off = (off+3)&^3 + uint64(len(k.Buf()))
	}
	if (off+3)&^3 < uint64(len(dec)) {
		return fmt.Sprintf("FAIL strict decoded-payload-not-covered children-end=%#x decoded=%#x", off, len(dec))
	}
	return ""
}

// ---------- the type-specific reported fields of a section ----------

// cleanUCS2: b is a NUL-terminated UCS-2 string without interior NUL and without surrogates; returns
// its text (decoded here, independently of pkg/unicode)
func cleanUCS2(b []byte) (string, bool) {
	if len(b) < 2 || len(b)%2 != 0 {
		return "", false
	}
	var rs []rune
	for i := 0; i+1 < len(b); i += 2 {
		u := rune(b[i]) | rune(b[i+1])<<8
		last := i+2 == len(b)
		if (u == 0) != last || (u >= 0xD800 && u <= 0xDFFF) || u == 0xFEFF || u == 0xFFFE {
			return "", false
		}
		if !last {
			rs = append(rs, u)
		}
	}
	return string(rs), true
}

// strictSectionText: the user-interface name, the build number and the version string a section node
// reports are the decode of the section's own bytes after ITS header (4 or 8 bytes)
func strictSectionText(s *uefi.Section, hl int) string {
	sb := s.Buf()
	switch s.Header.Type {
	case uefi.SectionTypeUserInterface:
		if len(sb) > hl {
			if want, ok := cleanUCS2(sb[hl:]); ok && s.Name != want {
				return fmt.Sprintf("FAIL strict section-name-not-from-node-bytes got=%q want=%q", s.Name, want)
			}
		}
	case uefi.SectionTypeVersion:
		if len(sb) > hl+2 {
			if bn, _ := rd(sb, hl, 2); bn != uint64(s.BuildNumber) {
				return fmt.Sprintf("FAIL strict section-build-number-not-from-node-bytes got=%#x want=%#x", s.BuildNumber, bn)
			}
			if want, ok := cleanUCS2(sb[hl+2:]); ok && s.Version != want {
				return fmt.Sprintf("FAIL strict section-version-not-from-node-bytes got=%q want=%q", s.Version, want)
			}
		}
	}
	return ""
}

// ---------- every header field of a volume ----------

// strictFVFields: the header record is the decode of the node's own bytes, field by field (the fields
// strictFV does not already compare): zero vector is not reported; signature, checksum, extended header
// offset, reserved byte, revision, the block map up to its terminator, and - when the parser used the
// extended header - the volume name and the extended header size.
func strictFVFields(fv *uefi.FirmwareVolume) string {
	vb := fv.Buf()
	if len(vb) < 64 {
		return "FAIL strict fv-buf-length"
	}
	sig, _ := rd(vb, 40, 4)
	ck, _ := rd(vb, 50, 2)
	eo, _ := rd(vb, 52, 2)
	if sig != uint64(fv.Signature) || ck != uint64(fv.Checksum) || eo != uint64(fv.ExtHeaderOffset) ||
		vb[54] != fv.Reserved || vb[55] != fv.Revision {
		return "FAIL strict fv-fields-not-from-node-bytes (signature/checksum/ext-offset/reserved/revision)"
	}
	// block map: entries from offset 56 up to the first (0,0); the parser reads it from the bytes that
	// follow the fixed header whether or not they lie inside Length, so compare only what lies inside
	for i, b := range fv.Blocks {
		c, ok1 := rd(vb, 56+8*i, 4)
		s, ok2 := rd(vb, 60+8*i, 4)
		if !ok1 || !ok2 {
			break
		}
		if c != uint64(b.Count) || s != uint64(b.Size) {
			return fmt.Sprintf("FAIL strict fv-block-map-not-from-node-bytes entry=%d", i)
		}
		if c == 0 && s == 0 {
			return "FAIL strict fv-block-map-holds-terminator"
		}
	}
	if c, ok1 := rd(vb, 56+8*len(fv.Blocks), 4); ok1 {
		if s, ok2 := rd(vb, 60+8*len(fv.Blocks), 4); ok2 && (c != 0 || s != 0) {
			return "FAIL strict fv-block-map-ends-before-terminator"
		}
	}
	// extended header, when the parser read one (the condition under which NewFirmwareVolume decodes it)
	if fv.ExtHeaderOffset != 0 && fv.Length >= 20 && uint64(fv.ExtHeaderOffset) < fv.Length-20 {
		o := int(fv.ExtHeaderOffset)
		sz, ok := rd(vb, o+16, 4)
		if !ok || !bytes.Equal(vb[o:o+16], fv.FVName[:]) || sz != uint64(fv.ExtHeaderSize) {
			return "FAIL strict fv-ext-header-fields-not-from-node-bytes"
		}
	}
	return ""
}

// ---------- Intel flash images: descriptor plus regions tile the flash ----------

// p_flash_partition <img>: when Parse returns a flash image, (a) the descriptor node is the first
// 4 KiB, (b) the reported descriptor map and region table are the decode of the descriptor bytes at the
// reported starts, (c) the regions, in order, start at 4 KiB, each starts where the previous one ends,
// the last ends at the end of the image (no gap, no overlap), every region's reported base/limit locate
// exactly its bytes in the image, (d) a declared region carries the slot of its type, (e) the BIOS
// region's elements tile it and every node below is faithful (the strict checks), (f) the caller's
// buffer is untouched. Both parser modes.
func PFlashPartition(args []string) string {
	img := UnH(args[0])
	orig := append([]byte{}, img...)
	defer func() { uefi.ReadOnly = false }()
	for _, ro := range []bool{false, true} {
		flashops.Hush()
		uefiops.Reset()
		uefi.ReadOnly = ro
		root, err := uefi.Parse(img)
		if !bytes.Equal(img, orig) {
			return fmt.Sprintf("FAIL flash caller-buffer-modified readonly=%v", ro)
		}
		if err != nil {
			return "skip"
		}
		fi, ok := root.(*uefi.FlashImage)
		if !ok {
			return "skip"
		}
		if r := flashPartition(fi, img); r != "" {
			return fmt.Sprintf("%s readonly=%v", r, ro)
		}
	}
	return "ok"
}

func flashPartition(fi *uefi.FlashImage, img []byte) string {
	if fi.FlashSize != uint64(len(img)) || !bytes.Equal(fi.Buf(), img) {
		return "FAIL flash image-node-is-not-the-input"
	}
	d := &fi.IFD
	if len(img) < 4096 || !bytes.Equal(d.Buf(), img[:4096]) {
		return "FAIL flash descriptor-node-is-not-the-first-4k"
	}
	// descriptor map and region table decoded from the descriptor's own bytes
	dm := d.DescriptorMap
	ds := int(d.DescriptorMapStart)
	if dm == nil || d.Region == nil || ds+16 > 4096 {
		return "FAIL flash descriptor-map-missing"
	}
	if img[ds] != dm.ComponentBase || img[ds+1] != dm.NumberOfFlashChips || img[ds+2] != dm.RegionBase || img[ds+3] != dm.NumberOfRegions ||
		img[ds+4] != dm.MasterBase || img[ds+5] != dm.NumberOfMasters || img[ds+6] != dm.PchStrapsBase || img[ds+7] != dm.NumberOfPchStraps {
		return "FAIL flash descriptor-map-fields-not-from-bytes"
	}
	rs := int(d.RegionStart)
	if rs != int(dm.RegionBase)*16 || rs+64 > 4096 {
		return "FAIL flash region-section-start"
	}
	if binary.LittleEndian.Uint16(img[rs+2:]) != d.Region.FlashBlockEraseSize {
		return "FAIL flash region-section-fields-not-from-bytes"
	}
	for i, fr := range d.Region.FlashRegions {
		if binary.LittleEndian.Uint16(img[rs+4+4*i:]) != fr.Base || binary.LittleEndian.Uint16(img[rs+6+4*i:]) != fr.Limit {
			return fmt.Sprintf("FAIL flash region-slot-not-from-bytes slot=%d", i)
		}
	}
	// tiling
	off := uint64(4096)
	for k, t := range fi.Regions {
		r, ok := t.Value.(uefi.Region)
		if !ok {
			return "FAIL flash region-node-type"
		}
		fr := r.FlashRegion()
		if fr == nil {
			return fmt.Sprintf("FAIL flash region-without-position index=%d", k)
		}
		base, end := uint64(fr.Base)*4096, (uint64(fr.Limit)+1)*4096
		if base != uint64(fr.BaseOffset()) || end != uint64(fr.EndOffset()) {
			return "FAIL flash region-offsets"
		}
		if base < off {
			return fmt.Sprintf("FAIL flash regions-overlap index=%d base=%#x previous-end=%#x", k, base, off)
		}
		if base > off {
			return fmt.Sprintf("FAIL flash gap-between-regions index=%d base=%#x previous-end=%#x", k, base, off)
		}
		if len(img)%4096 != 0 && k == len(fi.Regions)-1 && r.Type() == uefi.RegionTypeUnknown && (end <= base || !bytes.Equal(r.Buf(), img[base:min(end, uint64(len(img)))])) {
			// defect of /repo HEAD (fixes/C04-flash-partial-trailing-block.diff): the image is not a whole
			// number of 4 KiB blocks; the filled-in last region holds the partial block but reports the
			// block range [Base, Base-1]
			return fmt.Sprintf("FAIL flash partial-trailing-block region=[%#x,%#x) holds %#x bytes, image length %#x", base, end, len(r.Buf()), len(img))
		}
		if end <= base || end > uint64(len(img)) {
			return fmt.Sprintf("FAIL flash region-beyond-image index=%d end=%#x len=%#x", k, end, len(img))
		}
		if !bytes.Equal(r.Buf(), img[base:end]) {
			return fmt.Sprintf("FAIL flash region-bytes-differ index=%d type=%d base=%#x end=%#x buf=%#x", k, r.Type(), base, end, len(r.Buf()))
		}
		if ty := int(r.Type()); ty >= 0 {
			if ty >= len(d.Region.FlashRegions) || d.Region.FlashRegions[ty] != *fr {
				return fmt.Sprintf("FAIL flash declared-region-does-not-carry-its-slot type=%d", ty)
			}
		}
		if br, ok := r.(*uefi.BIOSRegion); ok {
			if res := biosStrict(br, img[base:end]); res != "" {
				return res + " (bios region of a flash image)"
			}
		}
		off = end
	}
	if off != uint64(len(img)) {
		return fmt.Sprintf("FAIL flash regions-do-not-reach-the-end end=%#x len=%#x", off, len(img))
	}
	return ""
}

// biosStrict: the BIOS-region part of p_partition_strict on an already parsed region
func biosStrict(br *uefi.BIOSRegion, img []byte) string {
	off := uint64(0)
	for _, e := range br.Elements {
		switch n := e.Value.(type) {
		case *uefi.BIOSPadding:
			if n.Offset != off {
				return "FAIL strict padding-offset"
			}
		case *uefi.FirmwareVolume:
			if n.FVOffset != off {
				return "FAIL strict fv-offset"
			}
			if r := strictFV(n); r != "" {
				return r
			}
		default:
			return "FAIL strict unexpected-element"
		}
		eb := e.Value.Buf()
		if off+uint64(len(eb)) > uint64(len(img)) || !bytes.Equal(img[off:off+uint64(len(eb))], eb) {
			return "FAIL strict element-bytes-differ"
		}
		off += uint64(len(eb))
	}
	if off != uint64(len(img)) {
		return "FAIL strict elements-do-not-tile-region"
	}
	return ""
}

// ---------- generators ----------

func genAudit(r *Rng, tier string, emit Emit) {
	n, nflash := 60, 40
	if tier == "thorough" {
		n, nflash = 1500, 800
	}
	all4 := func(img []byte, model bool) {
		emit("P", "p_partition", H(img))
		emit("P", "p_partition_strict", H(img))
		emit("P", "p_modes", H(img))
		if model {
			emit("C", "parse", H(img))
		}
	}
	// (1) compressed sections, well-formed and with a damaged plain text
	for it := 0; it < n; it++ {
		rr := r.Fork(uint64(0xC0DEC000 + it))
		img, fields, lines := genCompImage(rr, rr.Pick(0, 0, 0, 1, 2, 3))
		if len(img) == 0 || len(img) > 12000 {
			continue
		}
		for _, l := range lines {
			emit("T", "codec", "dec", N(uint64(l.Kind)), H(l.Payload), H(l.Plain))
		}
		all4(img, true)
		// boundary values of the GUID-defined header fields and section sizes around the payload
		// (not the data offset: a payload that starts in mid-stream is a random LZMA header, and the
		// third-party decoder allocates the dictionary size such a header announces - the known finding
		// 'third-party-lzma-dict-alloc' registered under C20)
		for k := 0; k < 4 && len(fields) > 0; k++ {
			f := fields[rr.Intn(len(fields))]
			if f.Name == "sec.gd.dataoff" && !(f.Off >= 16 && bytes.Equal(img[f.Off-16:f.Off], uefigen.ZLIBGUID[:])) {
				continue // (ZLIB sections are fine: that decoder checks its own frame before anything else)
			}
			vs := uefigen.BoundaryValues(f)
			all4(uefigen.Mutate(img, f, vs[rr.Intn(len(vs))]), false)
		}
	}
	// (2) the extended common header on sections of every kind, reserved bits, other known volume GUIDs
	for it := 0; it < n; it++ {
		rr := r.Fork(uint64(0xE17A0000 + it))
		o := uefigen.Opts{MaxDepth: rr.Pick(0, 1, 2), Strings: true, Alignments: rr.Bool(), LargeSecs: true}
		reg := uefigen.GenRegion(rr, o)
		uefigen.Diversify(reg, rr, uefigen.DivOpts{Reserved: true, AttrHigh: true, EmptyStrings: true, OpaqueCodec: true, ExtAny: true, KnownFS: true})
		img, fields := uefigen.EmitRegion(reg)
		if len(img) == 0 || len(img) > 12000 {
			continue
		}
		all4(img, true)
		for k := 0; k < 6 && len(fields) > 0; k++ {
			f := fields[rr.Intn(len(fields))]
			if f.Name == "sec.gd.attrs" {
				continue // would switch on decoding of an opaque body that carries a codec GUID (see above)
			}
			vs := uefigen.BoundaryValues(f)
			all4(uefigen.Mutate(img, f, vs[rr.Intn(len(vs))]), true)
		}
	}
	// (3) Intel flash images: the descriptor / region-table clause
	for it := 0; it < nflash; it++ {
		rr := r.Fork(uint64(0xF1A50000 + it))
		fi := flashops.GenImageInfo(rr, rr.Pick(1, 1, 2))
		if fi == nil {
			continue
		}
		emit("P", "p_flash_partition", H(fi.Img))
		emit("P", "p_modes", H(fi.Img))
		// an image that is not a whole number of blocks (a dump cut short)
		if it%8 == 0 {
			emit("P", "p_flash_partition", H(fi.Img[:len(fi.Img)-rr.Pick(1, 100, 2048, 4095)]))
		}
		// boundary values in the descriptor and in the BIOS region: most still parse
		for k := 0; k < 3; k++ {
			fs := fi.DescFields
			if k == 2 && len(fi.BiosFields) > 0 {
				fs = fi.BiosFields
			}
			f := fs[rr.Intn(len(fs))]
			vs := uefigen.BoundaryValues(f)
			m := uefigen.Mutate(fi.Img, f, vs[rr.Intn(len(vs))])
			emit("P", "p_flash_partition", H(m))
		}
		// at least two uncovered block ranges (gaps between regions and an uncovered tail): the
		// regions NewFlashImage synthesises for them are judged by their reported base/limit
		if m := multiGapImage(fi, rr.Fork(0x6A9)); m != nil {
			emit("P", "p_flash_partition", H(m))
			emit("P", "p_modes", H(m))
		}
	}
}

// multiGapImage: the image with its raw regions (and, half of the time, the ME region) no longer
// declared, and three blocks appended: an undeclared one, one declared as a raw region, and an
// undeclared tail.  Whatever the original layout, at least two block ranges are described by no slot.
func multiGapImage(fi *flashops.Image, r *Rng) []byte {
	off := map[string]int{}
	for _, f := range fi.DescFields {
		off[f.Name] = f.Off
	}
	nrOff, ok := off["ifd.nregions"]
	if !ok {
		return nil
	}
	usable := 15
	if nr := int(fi.Img[nrOff]); nr >= 1 && nr <= 14 {
		usable = nr
	}
	if usable < 3 {
		return nil
	}
	m := append([]byte{}, fi.Img...)
	nb := len(m) / 4096
	for i := 0; i < 3; i++ {
		b := r.Bytes(4096)
		if r.Bool() {
			for j := range b {
				b[j] = 0xFF
			}
		}
		m = append(m, b...)
	}
	slot := func(i, base, limit int) bool {
		bo, ok1 := off[fmt.Sprintf("ifd.slot%d.base", i)]
		lo, ok2 := off[fmt.Sprintf("ifd.slot%d.limit", i)]
		if !ok1 || !ok2 {
			return false
		}
		binary.LittleEndian.PutUint16(m[bo:], uint16(base))
		binary.LittleEndian.PutUint16(m[lo:], uint16(limit))
		return true
	}
	first := 2
	if r.Bool() {
		first = 1 // the ME region becomes an uncovered range as well
	}
	for i := first; i < usable; i++ {
		if !slot(i, 0x7FFF, 0) {
			return nil
		}
	}
	if !slot(2+r.Intn(usable-2), nb+1, nb+1) {
		return nil
	}
	return m
}
