// c04: the parsed tree accounts for every input byte once.
package main

import (
	"os"

	. "verifharness/common"
	"verifharness/uefigen"
	"verifharness/uefiops"
)

func gen(r *Rng, tier string, emit Emit) {
	n := 150
	maxCorpus := 2048
	if tier == "thorough" {
		n = 4000
		maxCorpus = 1 << 20
	}
	repo := os.Getenv("VERIF_REPO_PATH")
	if repo == "" {
		repo = "/repo"
	}
	for _, b := range uefigen.HistoricalCorpus(repo, maxCorpus) {
		emit("P", "p_partition", H(b))
		if len(b) <= 6000 && len(b) > 0 {
			emit("C", "parse", H(b))
		}
	}
	for it := 0; it < n; it++ {
		rr := r.Fork(uint64(it))
		o := uefigen.Opts{MaxDepth: rr.Pick(0, 1, 2), Strings: true, Alignments: rr.Bool(), BigBodies: rr.Chance(1, 5)}
		reg := uefigen.GenRegion(rr, o)
		img, fields := uefigen.EmitRegion(reg)
		if len(img) > 12000 {
			continue
		}
		emit("P", "p_partition", H(img))
		emit("C", "parse", H(img))
		// structure-aware mutants: most still parse
		for k := 0; k < 12 && len(fields) > 0; k++ {
			f := fields[rr.Intn(len(fields))]
			vs := uefigen.BoundaryValues(f)
			m := uefigen.Mutate(img, f, vs[rr.Intn(len(vs))])
			emit("P", "p_partition", H(m))
			emit("C", "parse", H(m))
		}
	}
}

func main() {
	uefiops.RegisterAll()
	Main(gen)
}
