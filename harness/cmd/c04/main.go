// c04: the parsed tree accounts for every input byte once.
package main

import (
	"bytes"
	"fmt"
	"io"
	"os"
	"strings"

	"github.com/linuxboot/fiano/pkg/uefi"
	"github.com/linuxboot/fiano/pkg/visitors"
	. "verifharness/common"
	"verifharness/nvargen"
	"verifharness/uefigen"
	"verifharness/uefiops"
)

// ---- p_partition_strict: the field and tiling clauses of C04 for EVERY node, whatever its size.
// Unlike p_partition (which compares header fields only when the node buffer is long enough) it
// demands that a node contains its whole header, that all reported header fields are the decode
// of the node's own bytes, and that sibling windows do not overlap: each child starts at or
// after the end of the previous child's header (and of the previous child).

func rd(b []byte, off, w int) (uint64, bool) {
	if off < 0 || off+w > len(b) {
		return 0, false
	}
	var v uint64
	for i := w - 1; i >= 0; i-- {
		v = v<<8 | uint64(b[off+i])
	}
	return v, true
}

// size of the common section header as the parser read it
func secHdrLen(s *uefi.Section) int {
	if strictKnown(s) && s.Header.Size == [3]uint8{0xFF, 0xFF, 0xFF} {
		return 8
	}
	return 4
}

func strictSection(s *uefi.Section) string {
	sb := s.Buf()
	hl := secHdrLen(s)
	known := strictKnown(s)
	if uint64(len(sb)) != uint64(s.Header.ExtendedSize) {
		return "FAIL strict section-buf-length"
	}
	if len(sb) < hl {
		return fmt.Sprintf("FAIL strict section-shorter-than-header size=%d header=%d", len(sb), hl)
	}
	size3, _ := rd(sb, 0, 3)
	if byte(size3) != s.Header.Size[0] || byte(size3>>8) != s.Header.Size[1] || byte(size3>>16) != s.Header.Size[2] || sb[3] != byte(s.Header.Type) {
		return "FAIL strict section-fields-not-from-node-bytes"
	}
	if hl == 8 {
		if e, _ := rd(sb, 4, 4); e != uint64(s.Header.ExtendedSize) {
			return "FAIL strict section-extended-size-not-from-node-bytes"
		}
	} else if known && size3 != uint64(s.Header.ExtendedSize) {
		return "FAIL strict section-size-not-from-node-bytes"
	} else if !known && uint64(s.Header.ExtendedSize) > size3 {
		return "FAIL strict section-size-exceeds-size-field"
	}
	if s.Header.Type == uefi.SectionTypeGUIDDefined && s.TypeSpecific != nil {
		gd := s.TypeSpecific.Header.(*uefi.SectionGUIDDefined)
		do, ok1 := rd(sb, hl+16, 2)
		at, ok2 := rd(sb, hl+18, 2)
		if !ok1 || !ok2 || !bytes.Equal(sb[hl:hl+16], gd.GUID[:]) || do != uint64(gd.DataOffset) || at != uint64(gd.Attributes) ||
			int(gd.DataOffset) > len(sb) {
			return "FAIL strict section-gd-fields-not-from-node-bytes"
		}
	}
	if r := strictSectionText(s, hl); r != "" {
		return r
	}
	// children: sections of the decoded payload (its bytes are not kept by the implementation, so
	// only their mutual layout can be checked), or the nested volume of an FV-image section
	var kids []*uefi.Section
	for _, e := range s.Encapsulated {
		switch k := e.Value.(type) {
		case *uefi.Section:
			kids = append(kids, k)
		case *uefi.FirmwareVolume:
			if s.Header.Type != uefi.SectionTypeFirmwareVolumeImage {
				return "FAIL strict volume-under-non-fv-image-section"
			}
			vb := k.Buf()
			if hl+len(vb) > len(sb) || !bytes.Equal(sb[hl:hl+len(vb)], vb) {
				return "FAIL strict nested-fv-not-section-body"
			}
			if r := strictFV(k); r != "" {
				return r
			}
		}
	}
	if dec := decodedPayload(s); dec != nil {
		// the section was decoded: its children tile the decoded payload
		return strictDecodedKids(dec, kids)
	}
	return strictSections(nil, 0, kids)
}

// sections at consecutive 4-aligned offsets from off; parent == nil: layout only
func strictSections(parent []byte, off uint64, secs []*uefi.Section) string {
	prevHdrEnd := uint64(0)
	for i, s := range secs {
		off = (off + 3) &^ 3
		sb := s.Buf()
		if parent != nil {
			if off+uint64(len(sb)) > uint64(len(parent)) {
				return "FAIL strict section-outside-parent"
			}
			if !bytes.Equal(parent[off:off+uint64(len(sb))], sb) {
				return "FAIL strict section-bytes-differ"
			}
		}
		if i > 0 && off < prevHdrEnd {
			return fmt.Sprintf("FAIL strict section-starts-inside-previous-header off=%#x prev-header-end=%#x", off, prevHdrEnd)
		}
		if len(sb) == 0 {
			return "FAIL strict zero-length-section"
		}
		if r := strictSection(s); r != "" {
			return r
		}
		prevHdrEnd = off + uint64(secHdrLen(s))
		off += uint64(len(sb))
	}
	return ""
}

func strictKnown(s *uefi.Section) bool {
	switch s.Header.Type {
	case uefi.SectionTypeAll, uefi.SectionTypeCompression, uefi.SectionTypeGUIDDefined, uefi.SectionTypeDisposable,
		uefi.SectionTypePE32, uefi.SectionTypePIC, uefi.SectionTypeTE, uefi.SectionTypeDXEDepEx, uefi.SectionTypeVersion,
		uefi.SectionTypeUserInterface, uefi.SectionTypeCompatibility16, uefi.SectionTypeFirmwareVolumeImage,
		uefi.SectionTypeFreeformSubtypeGUID, uefi.SectionTypeRaw, uefi.SectionTypePEIDepEx, uefi.SectionMMDepEx:
		return true
	}
	return false
}

func strictFile(f *uefi.File) string {
	fb := f.Buf()
	hl := 24
	if f.Header.Size == [3]uint8{0xFF, 0xFF, 0xFF} {
		hl = 32
	}
	if uint64(len(fb)) != f.Header.ExtendedSize {
		return "FAIL strict file-buf-length"
	}
	if uint64(hl) != f.DataOffset {
		return "FAIL strict file-data-offset"
	}
	if len(fb) < hl {
		return fmt.Sprintf("FAIL strict file-shorter-than-header size=%d header=%d", len(fb), hl)
	}
	if !bytes.Equal(fb[:16], f.Header.GUID[:]) || fb[16] != f.Header.Checksum.Header || fb[17] != f.Header.Checksum.File ||
		fb[18] != byte(f.Header.Type) || fb[19] != byte(f.Header.Attributes) || !bytes.Equal(fb[20:23], f.Header.Size[:]) ||
		fb[23] != byte(f.Header.State) {
		return "FAIL strict file-fields-not-from-node-bytes"
	}
	if hl == 32 {
		if e, _ := rd(fb, 24, 8); e != f.Header.ExtendedSize {
			return "FAIL strict file-extended-size-not-from-node-bytes"
		}
	} else if e, _ := rd(fb, 20, 3); e != f.Header.ExtendedSize {
		return "FAIL strict file-size-not-from-node-bytes"
	}
	return strictSections(fb, f.DataOffset, f.Sections)
}

func strictFV(fv *uefi.FirmwareVolume) string {
	vb := fv.Buf()
	if uint64(len(vb)) != fv.Length || len(vb) < 64 {
		return "FAIL strict fv-buf-length"
	}
	l, _ := rd(vb, 32, 8)
	at, _ := rd(vb, 44, 4)
	hlen, _ := rd(vb, 48, 2)
	if l != fv.Length || at != uint64(fv.Attributes) || hlen != uint64(fv.HeaderLen) || !bytes.Equal(vb[16:32], fv.FileSystemGUID[:]) {
		return "FAIL strict fv-fields-not-from-node-bytes"
	}
	if r := strictFVFields(fv); r != "" {
		return r
	}
	off := fv.DataOffset
	prevHdrEnd := uint64(0)
	for i, f := range fv.Files {
		off = (off + 7) &^ 7
		fb := f.Buf()
		if off+uint64(len(fb)) > uint64(len(vb)) {
			return "FAIL strict file-outside-volume"
		}
		if !bytes.Equal(vb[off:off+uint64(len(fb))], fb) {
			return "FAIL strict file-bytes-differ"
		}
		if i > 0 && off < prevHdrEnd {
			return fmt.Sprintf("FAIL strict file-starts-inside-previous-header off=%#x prev-header-end=%#x", off, prevHdrEnd)
		}
		if r := strictFile(f); r != "" {
			return r
		}
		prevHdrEnd = off + f.DataOffset
		off += uint64(len(fb))
	}
	// header + files (with their alignment gaps) + free space account for the whole volume:
	// after the last file either the free space begins (and reaches the end of the volume), or
	// there is no room for another file header
	if fv.FileSystemGUID == *uefi.FFS2 || fv.FileSystemGUID == *uefi.FFS3 {
		end := (off + 7) &^ 7
		if fv.FreeSpace != 0 {
			if end+fv.FreeSpace != fv.Length {
				return fmt.Sprintf("FAIL strict fv-files-and-free-space-do-not-tile-volume files-end=%#x free=%#x length=%#x", end, fv.FreeSpace, fv.Length)
			}
		} else if end+24 <= fv.Length {
			return fmt.Sprintf("FAIL strict fv-bytes-belong-to-no-node files-end=%#x free=0 length=%#x", end, fv.Length)
		}
	}
	return ""
}

// ---- p_modes: the ReadOnly (aliasing) half of C04, which a value model cannot express.
// Every image is parsed in copy mode and in read-only mode.  Demanded: (a) the caller's buffer is
// bit-identical after Parse and after every read-only visitor (json, table, validate, count,
// find, flatten) in either mode; (b) both modes give the same outcome, the same tree (every node,
// NVAR entries included: type, length and hash of its buffer) and the same JSON rendering;
// (c) the read-only visitors do not change the tree (Flatten excepted: it detaches children).

func fnv32(b []byte) uint32 {
	h := uint32(2166136261)
	for _, x := range b {
		h ^= uint32(x)
		h *= 16777619
	}
	return h
}

type deepObs struct{ sb strings.Builder }

func (d *deepObs) Run(f uefi.Firmware) error { return f.Apply(d) }
func (d *deepObs) Visit(f uefi.Firmware) error {
	fmt.Fprintf(&d.sb, "%T:%x:%x(", f, len(f.Buf()), fnv32(f.Buf()))
	err := f.ApplyChildren(d)
	d.sb.WriteString(")")
	return err
}

func deepObserve(root uefi.Firmware) string {
	d := &deepObs{}
	_ = d.Run(root)
	return d.sb.String()
}

func PModes(args []string) string {
	img := UnH(args[0])
	orig := append([]byte{}, img...)
	defer func() { uefi.ReadOnly = false }()
	var obs, js [2]string
	var failed [2]bool
	for m, ro := range []bool{false, true} {
		name := map[bool]string{false: "copy", true: "readonly"}[ro]
		uefiops.Reset()
		uefi.ReadOnly = ro
		root, err := uefi.Parse(img)
		if !bytes.Equal(img, orig) {
			return "FAIL modes caller-buffer-modified-by-parse mode=" + name + diffAt(img, orig)
		}
		if err != nil {
			failed[m] = true
			continue
		}
		obs[m] = deepObserve(root)
		var jb bytes.Buffer
		steps := []struct {
			n string
			f func() error
		}{
			{"json", func() error { return (&visitors.JSON{W: &jb}).Run(root) }},
			{"table", func() error { return (&visitors.Table{}).Run(root) }},
			{"validate", func() error { return (&visitors.Validate{}).Run(root) }},
			{"count", func() error { return (&visitors.Count{W: io.Discard}).Run(root) }},
			{"find", func() error {
				return (&visitors.Find{Predicate: func(f uefi.Firmware) bool { return true }}).Run(root)
			}},
			// last: Flatten detaches the children from their parents by design, so the tree
			// comparison does not apply to it (the caller's buffer still must not change)
			{"flatten", func() error { return (&visitors.Flatten{W: io.Discard}).Run(root) }},
		}
		for _, st := range steps {
			_ = st.f()
			if !bytes.Equal(img, orig) {
				return "FAIL modes caller-buffer-modified-by-" + st.n + " mode=" + name + diffAt(img, orig)
			}
			if o := deepObserve(root); st.n != "flatten" && o != obs[m] {
				return "FAIL modes tree-changed-by-" + st.n + " mode=" + name
			}
		}
		js[m] = jb.String()
	}
	if failed[0] != failed[1] {
		return fmt.Sprintf("FAIL modes outcome-differs copy-error=%v readonly-error=%v", failed[0], failed[1])
	}
	if failed[0] {
		return "ok"
	}
	if obs[0] != obs[1] {
		return "FAIL modes readonly-tree-differs" + firstDiff(obs[0], obs[1])
	}
	if js[0] != js[1] {
		return "FAIL modes readonly-json-differs" + firstDiff(js[0], js[1])
	}
	return "ok"
}

func diffAt(a, b []byte) string {
	for i := range a {
		if i >= len(b) || a[i] != b[i] {
			return fmt.Sprintf(" at=%#x now=%#x was=%#x", i, a[i], b[i])
		}
	}
	return ""
}

func firstDiff(a, b string) string {
	i := 0
	for i < len(a) && i < len(b) && a[i] == b[i] {
		i++
	}
	lo := i - 30
	if lo < 0 {
		lo = 0
	}
	hi := func(s string) int {
		if i+30 < len(s) {
			return i + 30
		}
		return len(s)
	}
	return fmt.Sprintf(" at=%d copy=%q readonly=%q", i, a[lo:hi(a)], b[lo:hi(b)])
}

// ---- images for the aliasing clause: sections of every type with odd-length bodies (UI names and
// version strings whose CHAR16 part has an odd byte count included), each ending right before
// non-zero bytes (0xFF alignment padding, the next section, the next file header, volume free
// space), and NVAR stores with names of odd length.

func oddString(r *Rng) []byte {
	n := r.Pick(0, 1, 2, 5)
	var b []byte
	for i := 0; i < n; i++ {
		b = append(b, byte('A'+r.Intn(26)), 0)
	}
	switch r.Intn(3) {
	case 0: // truncated last code unit
		b = append(b, byte('a'+r.Intn(26)))
	case 1: // terminator, then one stray byte
		b = append(b, 0, 0, byte(1+r.Intn(255)))
	default:
		b = append(b, 0xFF)
	}
	return b
}

func secStream(r *Rng) []byte {
	var out []byte
	n := r.Range(1, 5)
	for i := 0; i < n; i++ {
		for len(out)%4 != 0 {
			out = append(out, byte(r.Pick(0xFF, 0xFF, 0x5A, 0x01)))
		}
		var typ byte
		var body []byte
		switch r.Intn(8) {
		case 0, 1:
			typ, body = 0x15, oddString(r)
		case 2, 3:
			typ, body = 0x14, append([]byte{byte(r.Intn(256)), byte(r.Intn(256))}, oddString(r)...)
		case 4:
			typ, body = byte(r.Pick(0x13, 0x1b, 0x1c)), append([]byte{0x06}, r.Bytes(r.Pick(0, 2, 4))...)
		case 5:
			typ = 0x02
			g := uefigen.GenGUID(r)
			body = append(g[:], 24, 0, byte(r.Pick(0, 2)), 0)
			body = append(body, r.Bytes(r.Pick(1, 3, 7))...)
		case 6:
			typ, body = byte(r.Pick(0x1a, 0x40, 0xff)), r.Bytes(r.Pick(1, 3, 5, 9))
		default:
			typ, body = byte(r.Pick(0x10, 0x11, 0x12, 0x19, 0x18, 0x01, 0x03, 0x16)), r.Bytes(r.Pick(1, 3, 5, 17, 21))
		}
		sz := 4 + len(body)
		out = append(out, byte(sz), byte(sz>>8), byte(sz>>16), typ)
		out = append(out, body...)
	}
	return out
}

// an NVAR store whose entries carry names of odd length (UCS-2 without terminator and an odd
// byte count, ASCII of odd length), hand-built; plus a store of the shared grammar
func oddNvarStore(r *Rng) []byte {
	var out []byte
	n := r.Range(1, 3)
	for i := 0; i < n; i++ {
		attrs := byte(0x84) // valid, inline GUID, UCS-2 name
		var name []byte
		switch r.Intn(3) {
		case 0:
			name = oddString(r)
		case 1:
			name = append(oddString(r), 0, 0)
		default:
			attrs |= 0x02
			name = append([]byte("Odd"[:r.Range(1, 3)]), 0)
		}
		data := r.Bytes(r.Pick(0, 1, 4))
		sz := 10 + 16 + len(name) + len(data)
		e := []byte{'N', 'V', 'A', 'R', byte(sz), byte(sz >> 8), 0xFF, 0xFF, 0xFF, attrs}
		g := uefigen.GenGUID(r)
		e = append(e, g[:]...)
		e = append(e, name...)
		e = append(e, data...)
		out = append(out, e...)
	}
	for i, k := 0, r.Pick(0, 3, 16); i < k; i++ {
		out = append(out, 0xFF)
	}
	return out
}

func genAliasImage(r *Rng) []byte {
	v := &uefigen.Vol{FSGUID: uefigen.FFS2, Attrs: 0x4FEFF, Revision: 2, BlockSize: 64, FreeSpace: r.Pick(0, 1, 8, 100)}
	nf := r.Range(1, 4)
	for i := 0; i < nf; i++ {
		f := &uefigen.File{GUID: uefigen.GenGUID(r), Type: byte(r.Pick(2, 4, 7, 9)), State: 0xF8, Body: secStream(r)}
		v.Files = append(v.Files, f)
	}
	if r.Chance(1, 2) {
		body := oddNvarStore(r)
		if r.Chance(1, 3) {
			body = nvargen.Gen(r, 0xFF, r.Pick(0, 1)).Bytes()
		}
		f := &uefigen.File{Type: 1, State: 0xF8, Body: body}
		copy(f.GUID[:], uefi.NVAR[:])
		k := r.Intn(len(v.Files) + 1)
		v.Files = append(v.Files[:k], append([]*uefigen.File{f}, v.Files[k:]...)...)
	}
	reg := &uefigen.Region{Elems: []uefigen.Elem{{Vol: v}}}
	if r.Chance(1, 3) {
		reg.Elems = append(reg.Elems, uefigen.Elem{Pad: bytes.Repeat([]byte{0xFF}, 8*r.Range(1, 6))})
	}
	img, _ := uefigen.EmitRegion(reg)
	return img
}

// volumes whose last file ends exactly at the end of the volume (no free space): a header-only
// file of 24 bytes (pad, raw, or a sectioned type without sections), files of 25..40 bytes, also
// as the nested volume of an FV-image section
func genFlushEndImage(r *Rng) []byte {
	mkVol := func(depth int) *uefigen.Vol {
		v := &uefigen.Vol{FSGUID: uefigen.FFS2, Attrs: 0x4FEFF, Revision: 2, BlockSize: 8, FreeSpace: 0}
		if r.Chance(1, 4) {
			v.FSGUID = uefigen.FFS3
		}
		for i, n := 0, r.Pick(0, 0, 1, 2); i < n; i++ {
			v.Files = append(v.Files, uefigen.GenFile(r, uefigen.Opts{Strings: true}, 1))
		}
		return v
	}
	last := func() *uefigen.File {
		f := &uefigen.File{GUID: uefigen.GenGUID(r), State: 0xF8}
		switch r.Intn(4) {
		case 0:
			f.Type, f.Body = 0xF0, []byte{}
			for i := range f.GUID {
				f.GUID[i] = 0xFF
			}
		case 1:
			f.Type, f.Body = 0x01, []byte{}
		case 2:
			f.Type, f.Body = byte(r.Pick(2, 7, 9)), []byte{} // sectioned type, no sections
		default:
			f.Type, f.Body = 0x01, r.Bytes(r.Pick(1, 7, 8, 16))
		}
		return f
	}
	v := mkVol(0)
	if r.Chance(1, 3) {
		inner := mkVol(1)
		inner.Files = append(inner.Files, last())
		v.Files = append(v.Files, &uefigen.File{GUID: uefigen.GenGUID(r), Type: 0x0b, State: 0xF8,
			Secs: []*uefigen.Sec{{Type: 0x17, Vol: inner}}})
	}
	v.Files = append(v.Files, last())
	reg := &uefigen.Region{Elems: []uefigen.Elem{{Vol: v}}}
	if r.Chance(1, 3) {
		reg.Elems = append(reg.Elems, uefigen.Elem{Pad: bytes.Repeat([]byte{0xFF}, 8*r.Range(1, 6))})
	}
	img, _ := uefigen.EmitRegion(reg)
	return img
}

func PPartitionStrict(args []string) string {
	img := UnH(args[0])
	uefiops.Reset()
	root, err := uefi.Parse(img)
	if err != nil {
		return "skip"
	}
	br, ok := root.(*uefi.BIOSRegion)
	if !ok {
		return "skip"
	}
	off := uint64(0)
	for _, e := range br.Elements {
		switch n := e.Value.(type) {
		case *uefi.BIOSPadding:
			if n.Offset != off {
				return "FAIL strict padding-offset"
			}
		case *uefi.FirmwareVolume:
			if n.FVOffset != off {
				return "FAIL strict fv-offset"
			}
			if r := strictFV(n); r != "" {
				return r
			}
		default:
			return "FAIL strict unexpected-element"
		}
		eb := e.Value.Buf()
		if off+uint64(len(eb)) > uint64(len(img)) || !bytes.Equal(img[off:off+uint64(len(eb))], eb) {
			return "FAIL strict element-bytes-differ"
		}
		off += uint64(len(eb))
	}
	if off != uint64(len(img)) {
		return "FAIL strict elements-do-not-tile-region"
	}
	return "ok"
}

func gen(r *Rng, tier string, emit Emit) {
	n := 150
	maxCorpus := 2048
	if tier == "thorough" {
		n = 4000
		maxCorpus = 1 << 20
	}
	repo := os.Getenv("VERIF_REPO_PATH")
	if repo == "" {
		repo = "/repo"
	}
	for _, b := range uefigen.HistoricalCorpus(repo, maxCorpus) {
		emit("P", "p_partition", H(b))
		emit("P", "p_partition_strict", H(b))
		emit("P", "p_modes", H(b))
		if len(b) <= 6000 && len(b) > 0 {
			emit("C", "parse", H(b))
		}
	}
	// aliasing shapes: odd-length strings and bodies right before non-zero bytes, NVAR odd names
	for it := 0; it < n; it++ {
		img := genAliasImage(r.Fork(uint64(500000 + it)))
		if len(img) == 0 || len(img) > 12000 {
			continue
		}
		emit("P", "p_modes", H(img))
		emit("P", "p_partition", H(img))
		emit("P", "p_partition_strict", H(img))
		emit("C", "parse", H(img))
	}
	// last file flush against the end of the volume
	for it := 0; it < n/3; it++ {
		img := genFlushEndImage(r.Fork(uint64(600000 + it)))
		if len(img) == 0 || len(img) > 12000 {
			continue
		}
		emit("P", "p_partition", H(img))
		emit("P", "p_partition_strict", H(img))
		emit("C", "parse", H(img))
	}
	for it := 0; it < n; it++ {
		rr := r.Fork(uint64(it))
		o := uefigen.Opts{MaxDepth: rr.Pick(0, 1, 2), Strings: true, Alignments: rr.Bool(), BigBodies: rr.Chance(1, 5)}
		reg := uefigen.GenRegion(rr, o)
		img, fields := uefigen.EmitRegion(reg)
		if len(img) > 12000 {
			continue
		}
		emit("P", "p_partition", H(img))
		emit("P", "p_partition_strict", H(img))
		emit("P", "p_modes", H(img))
		emit("C", "parse", H(img))
		// structure-aware mutants: most still parse
		for k := 0; k < 12 && len(fields) > 0; k++ {
			f := fields[rr.Intn(len(fields))]
			vs := uefigen.BoundaryValues(f)
			m := uefigen.Mutate(img, f, vs[rr.Intn(len(vs))])
			emit("P", "p_partition", H(m))
			emit("P", "p_partition_strict", H(m))
			emit("P", "p_modes", H(m))
			emit("C", "parse", H(m))
		}
	}
	genAudit(r, tier, emit)
}

func main() {
	uefiops.RegisterAll()
	Register("p_partition_strict", PPartitionStrict)
	Register("p_modes", PModes)
	Register("p_flash_partition", PFlashPartition)
	Main(gen)
}
