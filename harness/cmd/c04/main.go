// c04: the parsed tree accounts for every input byte once.
package main

import (
	"bytes"
	"fmt"
	"os"

	"github.com/linuxboot/fiano/pkg/uefi"
	. "verifharness/common"
	"verifharness/uefigen"
	"verifharness/uefiops"
)

// ---- p_partition_strict: the field and tiling clauses of C04 for EVERY node, whatever its size.
// Unlike p_partition (which compares header fields only when the node buffer is long enough) it
// demands that a node contains its whole header, that all reported header fields are the decode
// of the node's own bytes, and that sibling windows do not overlap: each child starts at or
// after the end of the previous child's header (and of the previous child).

func rd(b []byte, off, w int) (uint64, bool) {
	if off < 0 || off+w > len(b) {
		return 0, false
	}
	var v uint64
	for i := w - 1; i >= 0; i-- {
		v = v<<8 | uint64(b[off+i])
	}
	return v, true
}

// size of the common section header as the parser read it
func secHdrLen(s *uefi.Section) int {
	if strictKnown(s) && s.Header.Size == [3]uint8{0xFF, 0xFF, 0xFF} {
		return 8
	}
	return 4
}

func strictSection(s *uefi.Section) string {
	sb := s.Buf()
	hl := secHdrLen(s)
	known := strictKnown(s)
	if uint64(len(sb)) != uint64(s.Header.ExtendedSize) {
		return "FAIL strict section-buf-length"
	}
	if len(sb) < hl {
		return fmt.Sprintf("FAIL strict section-shorter-than-header size=%d header=%d", len(sb), hl)
	}
	size3, _ := rd(sb, 0, 3)
	if byte(size3) != s.Header.Size[0] || byte(size3>>8) != s.Header.Size[1] || byte(size3>>16) != s.Header.Size[2] || sb[3] != byte(s.Header.Type) {
		return "FAIL strict section-fields-not-from-node-bytes"
	}
	if hl == 8 {
		if e, _ := rd(sb, 4, 4); e != uint64(s.Header.ExtendedSize) {
			return "FAIL strict section-extended-size-not-from-node-bytes"
		}
	} else if known && size3 != uint64(s.Header.ExtendedSize) {
		return "FAIL strict section-size-not-from-node-bytes"
	} else if !known && uint64(s.Header.ExtendedSize) > size3 {
		return "FAIL strict section-size-exceeds-size-field"
	}
	if s.Header.Type == uefi.SectionTypeGUIDDefined && s.TypeSpecific != nil {
		gd := s.TypeSpecific.Header.(*uefi.SectionGUIDDefined)
		do, ok1 := rd(sb, hl+16, 2)
		at, ok2 := rd(sb, hl+18, 2)
		if !ok1 || !ok2 || !bytes.Equal(sb[hl:hl+16], gd.GUID[:]) || do != uint64(gd.DataOffset) || at != uint64(gd.Attributes) ||
			int(gd.DataOffset) > len(sb) {
			return "FAIL strict section-gd-fields-not-from-node-bytes"
		}
	}
	// children: sections of the decoded payload (its bytes are not kept by the implementation, so
	// only their mutual layout can be checked), or the nested volume of an FV-image section
	var kids []*uefi.Section
	for _, e := range s.Encapsulated {
		switch k := e.Value.(type) {
		case *uefi.Section:
			kids = append(kids, k)
		case *uefi.FirmwareVolume:
			if s.Header.Type != uefi.SectionTypeFirmwareVolumeImage {
				return "FAIL strict volume-under-non-fv-image-section"
			}
			vb := k.Buf()
			if hl+len(vb) > len(sb) || !bytes.Equal(sb[hl:hl+len(vb)], vb) {
				return "FAIL strict nested-fv-not-section-body"
			}
			if r := strictFV(k); r != "" {
				return r
			}
		}
	}
	return strictSections(nil, 0, kids)
}

// sections at consecutive 4-aligned offsets from off; parent == nil: layout only
func strictSections(parent []byte, off uint64, secs []*uefi.Section) string {
	prevHdrEnd := uint64(0)
	for i, s := range secs {
		off = (off + 3) &^ 3
		sb := s.Buf()
		if parent != nil {
			if off+uint64(len(sb)) > uint64(len(parent)) {
				return "FAIL strict section-outside-parent"
			}
			if !bytes.Equal(parent[off:off+uint64(len(sb))], sb) {
				return "FAIL strict section-bytes-differ"
			}
		}
		if i > 0 && off < prevHdrEnd {
			return fmt.Sprintf("FAIL strict section-starts-inside-previous-header off=%#x prev-header-end=%#x", off, prevHdrEnd)
		}
		if len(sb) == 0 {
			return "FAIL strict zero-length-section"
		}
		if r := strictSection(s); r != "" {
			return r
		}
		prevHdrEnd = off + uint64(secHdrLen(s))
		off += uint64(len(sb))
	}
	return ""
}

func strictKnown(s *uefi.Section) bool {
	switch s.Header.Type {
	case uefi.SectionTypeAll, uefi.SectionTypeCompression, uefi.SectionTypeGUIDDefined, uefi.SectionTypeDisposable,
		uefi.SectionTypePE32, uefi.SectionTypePIC, uefi.SectionTypeTE, uefi.SectionTypeDXEDepEx, uefi.SectionTypeVersion,
		uefi.SectionTypeUserInterface, uefi.SectionTypeCompatibility16, uefi.SectionTypeFirmwareVolumeImage,
		uefi.SectionTypeFreeformSubtypeGUID, uefi.SectionTypeRaw, uefi.SectionTypePEIDepEx, uefi.SectionMMDepEx:
		return true
	}
	return false
}

func strictFile(f *uefi.File) string {
	fb := f.Buf()
	hl := 24
	if f.Header.Size == [3]uint8{0xFF, 0xFF, 0xFF} {
		hl = 32
	}
	if uint64(len(fb)) != f.Header.ExtendedSize {
		return "FAIL strict file-buf-length"
	}
	if uint64(hl) != f.DataOffset {
		return "FAIL strict file-data-offset"
	}
	if len(fb) < hl {
		return fmt.Sprintf("FAIL strict file-shorter-than-header size=%d header=%d", len(fb), hl)
	}
	if !bytes.Equal(fb[:16], f.Header.GUID[:]) || fb[16] != f.Header.Checksum.Header || fb[17] != f.Header.Checksum.File ||
		fb[18] != byte(f.Header.Type) || fb[19] != byte(f.Header.Attributes) || !bytes.Equal(fb[20:23], f.Header.Size[:]) ||
		fb[23] != byte(f.Header.State) {
		return "FAIL strict file-fields-not-from-node-bytes"
	}
	if hl == 32 {
		if e, _ := rd(fb, 24, 8); e != f.Header.ExtendedSize {
			return "FAIL strict file-extended-size-not-from-node-bytes"
		}
	} else if e, _ := rd(fb, 20, 3); e != f.Header.ExtendedSize {
		return "FAIL strict file-size-not-from-node-bytes"
	}
	return strictSections(fb, f.DataOffset, f.Sections)
}

func strictFV(fv *uefi.FirmwareVolume) string {
	vb := fv.Buf()
	if uint64(len(vb)) != fv.Length || len(vb) < 64 {
		return "FAIL strict fv-buf-length"
	}
	l, _ := rd(vb, 32, 8)
	at, _ := rd(vb, 44, 4)
	hlen, _ := rd(vb, 48, 2)
	if l != fv.Length || at != uint64(fv.Attributes) || hlen != uint64(fv.HeaderLen) || !bytes.Equal(vb[16:32], fv.FileSystemGUID[:]) {
		return "FAIL strict fv-fields-not-from-node-bytes"
	}
	off := fv.DataOffset
	prevHdrEnd := uint64(0)
	for i, f := range fv.Files {
		off = (off + 7) &^ 7
		fb := f.Buf()
		if off+uint64(len(fb)) > uint64(len(vb)) {
			return "FAIL strict file-outside-volume"
		}
		if !bytes.Equal(vb[off:off+uint64(len(fb))], fb) {
			return "FAIL strict file-bytes-differ"
		}
		if i > 0 && off < prevHdrEnd {
			return fmt.Sprintf("FAIL strict file-starts-inside-previous-header off=%#x prev-header-end=%#x", off, prevHdrEnd)
		}
		if r := strictFile(f); r != "" {
			return r
		}
		prevHdrEnd = off + f.DataOffset
		off += uint64(len(fb))
	}
	return ""
}

func PPartitionStrict(args []string) string {
	img := UnH(args[0])
	uefiops.Reset()
	root, err := uefi.Parse(img)
	if err != nil {
		return "skip"
	}
	br, ok := root.(*uefi.BIOSRegion)
	if !ok {
		return "skip"
	}
	off := uint64(0)
	for _, e := range br.Elements {
		switch n := e.Value.(type) {
		case *uefi.BIOSPadding:
			if n.Offset != off {
				return "FAIL strict padding-offset"
			}
		case *uefi.FirmwareVolume:
			if n.FVOffset != off {
				return "FAIL strict fv-offset"
			}
			if r := strictFV(n); r != "" {
				return r
			}
		default:
			return "FAIL strict unexpected-element"
		}
		eb := e.Value.Buf()
		if off+uint64(len(eb)) > uint64(len(img)) || !bytes.Equal(img[off:off+uint64(len(eb))], eb) {
			return "FAIL strict element-bytes-differ"
		}
		off += uint64(len(eb))
	}
	if off != uint64(len(img)) {
		return "FAIL strict elements-do-not-tile-region"
	}
	return "ok"
}

func gen(r *Rng, tier string, emit Emit) {
	n := 150
	maxCorpus := 2048
	if tier == "thorough" {
		n = 4000
		maxCorpus = 1 << 20
	}
	repo := os.Getenv("VERIF_REPO_PATH")
	if repo == "" {
		repo = "/repo"
	}
	for _, b := range uefigen.HistoricalCorpus(repo, maxCorpus) {
		emit("P", "p_partition", H(b))
		emit("P", "p_partition_strict", H(b))
		if len(b) <= 6000 && len(b) > 0 {
			emit("C", "parse", H(b))
		}
	}
	for it := 0; it < n; it++ {
		rr := r.Fork(uint64(it))
		o := uefigen.Opts{MaxDepth: rr.Pick(0, 1, 2), Strings: true, Alignments: rr.Bool(), BigBodies: rr.Chance(1, 5)}
		reg := uefigen.GenRegion(rr, o)
		img, fields := uefigen.EmitRegion(reg)
		if len(img) > 12000 {
			continue
		}
		emit("P", "p_partition", H(img))
		emit("P", "p_partition_strict", H(img))
		emit("C", "parse", H(img))
		// structure-aware mutants: most still parse
		for k := 0; k < 12 && len(fields) > 0; k++ {
			f := fields[rr.Intn(len(fields))]
			vs := uefigen.BoundaryValues(f)
			m := uefigen.Mutate(img, f, vs[rr.Intn(len(vs))])
			emit("P", "p_partition", H(m))
			emit("P", "p_partition_strict", H(m))
			emit("C", "parse", H(m))
		}
	}
}

func main() {
	uefiops.RegisterAll()
	Register("p_partition_strict", PPartitionStrict)
	Main(gen)
}
