// c18: executor and generator for property C18 (pkg/amd/apcb: token listing and UpsertToken).
package main

import (
	"bytes"
	"encoding/binary"
	"fmt"
	"strings"

	"github.com/linuxboot/fiano/pkg/amd/apcb"
	. "verifharness/common"
)

var le = binary.LittleEndian

// ---------- error classes (same numbers as coq/Model/Apcb.v, printed in hex) ----------

var errTable = [][2]string{
	{"failed to read input header", "1"},
	{"header v2 signature mismatch", "2"},
	{"header v3 signature mismatch", "3"},
	{"signature ending mismatch", "4"},
	{"is smaller than its header", "5"},
	{"is smaller than expected APCB size", "6"},
	{"failed to read group header", "7"},
	{"size of group is less than size of group header", "8"},
	{"size of group exceeds", "9"},
	{"invalid size of group header", "a"},
	{"failed to read type header", "b"},
	{"size of type is less than size of type header", "c"},
	{"is bigger than bytes left", "d"},
	{"incorrect APCB type header SizeOfType", "e"},
	{"unknown token type", "10"},
	{"unknown type", "11"},
	{"matching type is full", "12"},
	{"apcb binary length is small", "13"},
	{"failed to write", "14"},
	{"failed to update", "14"},
}

// ---------- calling the real code ----------

type req struct {
	k    uint32
	pm   uint8
	bm   uint16
	kind uint64
	v    uint32
}

func (q req) args() []string {
	return []string{N(uint64(q.k)), N(uint64(q.pm)), N(uint64(q.bm)), N(q.kind), N(uint64(q.v))}
}
func reqOf(a []string) req {
	return req{uint32(UnN(a[0])), uint8(UnN(a[1])), uint16(UnN(a[2])), UnN(a[3]), uint32(UnN(a[4]))}
}

// the Go value handed to UpsertToken for (kind, v)
func (q req) value() interface{} {
	switch q.kind {
	case 0:
		return q.v != 0
	case 1:
		return uint8(q.v)
	case 2:
		return uint16(q.v)
	case 4:
		return q.v
	}
	return int(q.v) // a dynamic type parseValue does not know
}

// is v what parseValue would hand on for this kind
func (q req) inRange() bool {
	switch q.kind {
	case 0:
		return q.v <= 1
	case 1:
		return q.v <= 0xff
	case 2:
		return q.v <= 0xffff
	case 4:
		return true
	}
	return false
}

func kindOf(v interface{}) uint64 {
	switch v.(type) {
	case bool:
		return 0
	case uint8:
		return 1
	case uint16:
		return 2
	case uint32:
		return 4
	}
	return 0xff
}

func showTokens(ts []apcb.Token) string {
	if len(ts) == 0 {
		return "ok -"
	}
	parts := make([]string, len(ts))
	for i, t := range ts {
		parts[i] = N(uint64(t.ID)) + ":" + N(uint64(t.PriorityMask)) + ":" + N(uint64(t.BoardMask)) + ":" +
			N(kindOf(t.Value)) + ":" + N(uint64(t.NumValue()))
	}
	return "ok " + strings.Join(parts, ",")
}

func obsParse(img []byte) string {
	ts, err := apcb.ParseAPCBBinaryTokens(img)
	if err != nil {
		return ErrClass(err, errTable)
	}
	return showTokens(ts)
}

// the header fields the property and the parser speak of: Signature and SizeOfHeader (0..5), SizeOfAPCB (8..11),
// Signature2 (32..35), SignatureEnding (124..127); Version, UniqueAPCBInstance, the checksum bytes and the
// reserved fields are not among them
func hdrFields(b []byte) []byte {
	if len(b) < 128 {
		return b
	}
	r := append([]byte{}, b[0:6]...)
	r = append(r, b[8:12]...)
	r = append(r, b[32:36]...)
	return append(r, b[124:128]...)
}

// the buffer after a successful call as it is compared with the model: those header fields, then everything
// behind the header (a failed call is compared on the whole buffer: it must be left unchanged)
func project(b []byte) []byte {
	if len(b) < 128 {
		return b
	}
	return append(hdrFields(b), b[128:]...)
}

func obsUpsert(q req, img []byte) (string, []byte, error) {
	buf := append([]byte{}, img...)
	err := apcb.UpsertToken(apcb.TokenID(q.k), apcb.PriorityMask(q.pm), q.bm, q.value(), buf)
	if err != nil {
		return ErrClass(err, errTable) + " " + H(buf), buf, err
	}
	return "ok " + H(project(buf)), buf, nil
}

func opParse(a []string) string { return obsParse(UnH(a[0])) }
func opUpsert(a []string) string {
	o, _, _ := obsUpsert(reqOf(a), UnH(a[5]))
	return o
}

// ---------- an independent walker over the APCB layout (own offsets, own checks) ----------

type wtok struct{ id, val uint32 }
type wtype struct {
	off   int // absolute offset of the type header
	size  int
	kind  uint16
	prio  uint8
	board uint16
	toks  []wtok
}
type wgroup struct {
	off, size int
	token     bool
	soh       int
	types     []wtype
}
type wblob struct {
	size   int
	groups []wgroup
}

// walk accepts exactly the blobs whose nested sizes are mutually consistent and inside the buffer
func walk(b []byte) (*wblob, string) {
	if len(b) < 128 || uint64(len(b)) >= 1<<32 {
		return nil, "short"
	}
	if le.Uint32(b[0:]) != 0x42435041 || le.Uint32(b[32:]) != 0x32424345 || le.Uint32(b[124:]) != 0x41424342 {
		return nil, "signature"
	}
	size := int(le.Uint32(b[8:]))
	if size < 128 || size > len(b) {
		return nil, "size-of-apcb"
	}
	w := &wblob{size: size}
	p := 128
	for p < size {
		if size-p < 16 {
			return nil, "group-header-cut"
		}
		gs := int(le.Uint32(b[p+12:]))
		if gs < 16 || gs > size-p {
			return nil, "size-of-group"
		}
		g := wgroup{off: p, size: gs, token: le.Uint16(b[p+4:]) == 0x3000}
		if g.token {
			g.soh = int(le.Uint16(b[p+6:]))
			if g.soh < 16 || g.soh > gs {
				return nil, "size-of-header"
			}
			q := p + g.soh
			end := p + gs
			for q < end {
				if end-q < 16 {
					return nil, "type-header-cut"
				}
				ts := int(le.Uint16(b[q+4:]))
				if ts < 16 || ts > end-q || (ts-16)%8 != 0 {
					return nil, "size-of-type"
				}
				t := wtype{off: q, size: ts, kind: le.Uint16(b[q+2:]), prio: b[q+11], board: le.Uint16(b[q+14:])}
				for i := q + 16; i < q+ts; i += 8 {
					t.toks = append(t.toks, wtok{le.Uint32(b[i:]), le.Uint32(b[i+4:])})
				}
				g.types = append(g.types, t)
				q += ts
			}
		}
		w.groups = append(w.groups, g)
		p += gs
	}
	return w, ""
}

// a token as the property speaks of it
type ptok struct {
	id, val uint32
	prio    uint8
	board   uint16
	kind    uint16
}

func (w *wblob) tokens() []ptok {
	var r []ptok
	for _, g := range w.groups {
		for _, t := range g.types {
			for _, k := range t.toks {
				r = append(r, ptok{k.id, k.val, t.prio, t.board, t.kind})
			}
		}
	}
	return r
}

func (q req) matches(prio uint8, board uint16, kind uint16) bool {
	return uint64(kind) == q.kind && board&q.bm != 0 && prio&q.pm != 0
}

func opSpecUpsert(a []string) string {
	img := UnH(a[5])
	if w, _ := walk(img); w == nil {
		return "notwf"
	}
	o, _, _ := obsUpsert(reqOf(a), img)
	return o
}
func opSpecParse(a []string) string {
	img := UnH(a[0])
	if w, _ := walk(img); w == nil {
		return "notwf"
	}
	return obsParse(img)
}

// ---------- property oracles ----------

func cut(v uint32, kind uint16) uint32 {
	switch kind {
	case 0:
		return v & 1
	case 1:
		return v & 0xff
	case 2:
		return v & 0xffff
	}
	return v
}

// input features that select a known defect class (used only to tag FAIL texts)
func tags(w *wblob, q req) string {
	s := ""
	for _, g := range w.groups {
		if g.token && g.size-g.soh >= 65536-24 {
			s = " [class=group-data-64k]"
			break
		}
	}
	var last *wtype
	for gi := range w.groups {
		for ti := range w.groups[gi].types {
			t := &w.groups[gi].types[ti]
			if q.matches(t.prio, t.board, t.kind) {
				last = t
			}
		}
	}
	if last != nil && last.size+8 > 65535 {
		s = " [class=type-full]"
	}
	return s
}

// one upsert on a blob the walker accepts, checked against the statement of C18.
// returns the verdict and the buffer afterwards
func checkUpsert(img []byte, q req) (string, []byte) {
	w, _ := walk(img)
	if w == nil || !q.inRange() {
		return "skip", img
	}
	tg := tags(w, q)
	before := w.tokens()
	existed := false
	for _, t := range before {
		if t.id == q.k && q.matches(t.prio, t.board, t.kind) {
			existed = true
		}
	}
	// room needed, by the layout alone
	need := 0
	typeFull := false
	if !existed {
		var lastT *wtype
		haveGroup := false
		for gi := range w.groups {
			if w.groups[gi].token {
				haveGroup = true
			}
			for ti := range w.groups[gi].types {
				t := &w.groups[gi].types[ti]
				if q.matches(t.prio, t.board, t.kind) {
					lastT = t
				}
			}
		}
		switch {
		case lastT != nil:
			need = 8
			typeFull = lastT.size+8 > 65535
		case haveGroup:
			need = 24
		default:
			need = 40
		}
	}
	noRoom := w.size+need > len(img)
	_, listErrBefore := apcb.ParseAPCBBinaryTokens(img)

	_, buf, err := obsUpsert(q, img)
	if err != nil {
		if !bytes.Equal(buf, img) {
			return "FAIL failed-but-blob-changed: " + err.Error() + tg, buf
		}
		if noRoom || typeFull {
			return "ok", buf
		}
		return "FAIL error-although-room: " + err.Error() + tg, buf
	}
	if noRoom {
		return "FAIL no-room-but-succeeded" + tg, buf
	}
	if len(buf) != len(img) {
		return "FAIL buffer-length-changed" + tg, buf
	}
	w2, why := walk(buf)
	if w2 == nil {
		return "FAIL sizes-inconsistent-after-upsert (" + why + ")" + tg, buf
	}
	if existed && w2.size != w.size {
		return "FAIL update-changed-length" + tg, buf
	}
	if existed { // an update in place: only the value bytes of the tokens the request speaks of may differ
		want := append([]byte{}, img...)
		for _, g := range w.groups {
			for _, t := range g.types {
				if !q.matches(t.prio, t.board, t.kind) {
					continue
				}
				for i, k := range t.toks {
					if k.id == q.k {
						le.PutUint32(want[t.off+16+8*i+4:], q.v)
					}
				}
			}
		}
		// the property speaks of the length, the listed tokens and the nested sizes: the body (everything behind
		// the 128-byte header the parser and the walker use) and the bytes beyond the blob are compared byte for
		// byte; of the header only the fields the parser reads (the three signatures, SizeOfAPCB) and SizeOfHeader
		// must be as they were - a checksum byte, UniqueAPCBInstance or reserved bytes may be rewritten
		if !bytes.Equal(buf[128:], want[128:]) {
			return "FAIL update-changed-other-bytes" + tg, buf
		}
		if !bytes.Equal(hdrFields(buf), hdrFields(img)) {
			return "FAIL update-changed-header-field" + tg, buf
		}
	}
	if !existed && w2.size != w.size+need {
		return "FAIL size-of-apcb-after-insert" + tg, buf
	}
	if !bytes.Equal(buf[w2.size:], img[w2.size:]) {
		return "FAIL bytes-beyond-blob-changed" + tg, buf
	}
	after := w2.tokens()
	if existed {
		if len(after) != len(before) {
			return "FAIL update-changed-token-count" + tg, buf
		}
		for i, t := range before {
			e := t
			if t.id == q.k && q.matches(t.prio, t.board, t.kind) {
				e.val = q.v
			}
			if after[i] != e {
				return fmt.Sprintf("FAIL token-%d-differs-after-update", i) + tg, buf
			}
		}
	} else {
		if len(after) != len(before)+1 {
			return "FAIL insert-changed-token-count" + tg, buf
		}
		i := 0
		for i < len(before) && before[i] == after[i] {
			i++
		}
		n := after[i]
		// the new token may sit among equal neighbours; compare the rest shifted by one
		for j := i; j < len(before); j++ {
			if before[j] != after[j+1] {
				return fmt.Sprintf("FAIL other-token-%d-changed-on-insert", j) + tg, buf
			}
		}
		if n.id != q.k || n.val != q.v || uint64(n.kind) != q.kind {
			return "FAIL inserted-token-wrong" + tg, buf
		}
		if !(q.matches(n.prio, n.board, n.kind) || (n.prio == q.pm && n.board == q.bm)) {
			return "FAIL inserted-token-under-foreign-masks" + tg, buf
		}
	}
	// the listing of the real code shows the new value under a matching type entry
	toks, lerr := apcb.ParseAPCBBinaryTokens(buf)
	if listErrBefore == nil {
		if lerr != nil {
			return "FAIL listing-after-upsert: " + lerr.Error() + tg, buf
		}
		if len(toks) != len(after) {
			return "FAIL listing-count" + tg, buf
		}
		seen := false
		for i, t := range toks {
			a := after[i]
			if uint32(t.ID) != a.id || uint8(t.PriorityMask) != a.prio || t.BoardMask != a.board ||
				kindOf(t.Value) != uint64(a.kind) || t.NumValue() != cut(a.val, a.kind) {
				return fmt.Sprintf("FAIL listing-token-%d", i) + tg, buf
			}
			if a.id == q.k && uint64(a.kind) == q.kind && t.NumValue() == cut(q.v, a.kind) &&
				(q.matches(a.prio, a.board, a.kind) || (a.prio == q.pm && a.board == q.bm)) {
				seen = true
			}
		}
		if !seen {
			return "FAIL listing-lacks-new-value" + tg, buf
		}
	}
	return "ok", buf
}

func pUpsert(a []string) string {
	r, _ := checkUpsert(UnH(a[5]), reqOf(a))
	return r
}

// img n {k pm bm kind v}: a sequence of upserts, each checked
func pSeq(a []string) string {
	img := UnH(a[0])
	n := int(UnN(a[1]))
	did := false
	for i := 0; i < n; i++ {
		r, buf := checkUpsert(img, reqOf(a[2+5*i:]))
		if strings.HasPrefix(r, "FAIL") {
			return r + fmt.Sprintf(" (step %d)", i)
		}
		if r == "ok" {
			did = true
		}
		img = buf
	}
	if !did {
		return "skip"
	}
	return "ok"
}

// the listing of a blob the walker accepts is what the walker finds: same tokens, same order,
// masks and kind of the enclosing type, value cut to the width of the kind; it is an error exactly
// when a type of unknown kind holds a pair
func pList(a []string) string {
	img := UnH(a[0])
	w, _ := walk(img)
	if w == nil {
		return "skip"
	}
	want := w.tokens()
	unknown := false
	for _, t := range want {
		if t.kind != 0 && t.kind != 1 && t.kind != 2 && t.kind != 4 {
			unknown = true
		}
	}
	toks, err := apcb.ParseAPCBBinaryTokens(img)
	if unknown {
		if err == nil {
			return "FAIL listing-accepts-unknown-kind"
		}
		return "ok"
	}
	if err != nil {
		return "FAIL listing-error-on-consistent-blob: " + err.Error()
	}
	if len(toks) != len(want) {
		return fmt.Sprintf("FAIL listing-count %d want %d", len(toks), len(want))
	}
	for i, t := range toks {
		a := want[i]
		if uint32(t.ID) != a.id || uint8(t.PriorityMask) != a.prio || t.BoardMask != a.board ||
			kindOf(t.Value) != uint64(a.kind) || t.NumValue() != cut(a.val, a.kind) {
			return fmt.Sprintf("FAIL listing-token-%d-differs-from-walker", i)
		}
	}
	return "ok"
}

// any buffer: the listing and the upsert return (value or error), they do not panic
func pNoPanic(a []string) string {
	img := UnH(a[5])
	_, _ = apcb.ParseAPCBBinaryTokens(img)
	buf := append([]byte{}, img...)
	q := reqOf(a)
	_ = apcb.UpsertToken(apcb.TokenID(q.k), apcb.PriorityMask(q.pm), q.bm, q.value(), buf)
	return "ok"
}

// ---------- generators ----------

type gtype struct {
	kind  uint16
	prio  uint8
	board uint16
	raw   [16]byte // other header bytes
	toks  []wtok
}
type ggroup struct {
	token bool
	gid   uint16
	extra []byte
	types []gtype
	body  []byte
	raw   [16]byte
}
type gblob struct {
	hdr    [128]byte
	groups []ggroup
	slack  []byte
}

func (t *gtype) enc() []byte {
	b := make([]byte, 16+8*len(t.toks))
	copy(b, t.raw[:])
	le.PutUint16(b[2:], t.kind)
	le.PutUint16(b[4:], uint16(len(b)))
	b[11] = t.prio
	le.PutUint16(b[14:], t.board)
	for i, k := range t.toks {
		le.PutUint32(b[16+8*i:], k.id)
		le.PutUint32(b[20+8*i:], k.val)
	}
	return b
}

func (g *ggroup) enc() []byte {
	b := make([]byte, 16)
	copy(b, g.raw[:])
	if g.token {
		le.PutUint16(b[4:], 0x3000)
		le.PutUint16(b[6:], uint16(16+len(g.extra)))
		b = append(b, g.extra...)
		for i := range g.types {
			b = append(b, g.types[i].enc()...)
		}
	} else {
		le.PutUint16(b[4:], g.gid)
		b = append(b, g.body...)
	}
	le.PutUint32(b[12:], uint32(len(b)))
	return b
}

func (s *gblob) enc() []byte {
	b := append([]byte{}, s.hdr[:]...)
	le.PutUint32(b[0:], 0x42435041)
	le.PutUint32(b[32:], 0x32424345)
	le.PutUint32(b[124:], 0x41424342)
	for i := range s.groups {
		b = append(b, s.groups[i].enc()...)
	}
	le.PutUint32(b[8:], uint32(len(b)))
	return append(b, s.slack...)
}

func genValue(r *Rng, kind uint16) uint32 {
	v := uint32(r.U64())
	if r.Chance(1, 8) {
		return v // junk above the width of the kind
	}
	return cut(v, kind)
}

func genToks(r *Rng, n int, kind uint16) []wtok {
	var l []wtok
	id := uint32(r.Intn(1 << 10))
	if r.Chance(1, 4) {
		id = uint32(r.U64()) >> uint(r.Intn(8))
	}
	for i := 0; i < n; i++ {
		l = append(l, wtok{id, genValue(r, kind)})
		step := uint32(1 + r.Intn(1<<uint(r.Intn(20))))
		if id+step < id {
			break
		}
		id += step
	}
	if len(l) > 1 && r.Chance(1, 10) { // not sorted / duplicate ids
		i, j := r.Intn(len(l)), r.Intn(len(l))
		if r.Bool() {
			l[i], l[j] = l[j], l[i]
		} else {
			l[i].id = l[j].id
		}
	}
	return l
}

func genType(r *Rng) gtype {
	t := gtype{
		kind:  uint16(r.Pick(0, 1, 2, 4, 0, 1, 2, 4, 4, 4, 0, 1, 2, 4, 0, 1, 2, 4, 4, 4, 0, 1, 2, 4, 3, 9)),
		prio:  uint8(r.Pick(0xff, 0xff, 1, 2, 4, 0x20, 0x3f, 0, 0x80)),
		board: uint16(r.Pick(0xffff, 0xffff, 1, 2, 0x8000, 0x00f0, 0)),
	}
	if r.Chance(1, 6) {
		t.prio = uint8(r.U64())
		t.board = uint16(r.U64())
	}
	copy(t.raw[:], r.Bytes(16))
	if r.Bool() { // what the code itself writes
		copy(t.raw[:], []byte{0, 0x30, 0, 0, 0, 0, 0, 0, 2, 1, 8, 0, 4, 0, 0, 0})
	}
	t.toks = genToks(r, r.Pick(0, 1, 2, 3, 6, 10), t.kind)
	return t
}

func genBlob(r *Rng) *gblob {
	s := &gblob{}
	copy(s.hdr[:], r.Bytes(128))
	ng := r.Pick(0, 1, 1, 2, 2, 3, 4)
	for i := 0; i < ng; i++ {
		var g ggroup
		copy(g.raw[:], r.Bytes(16))
		if r.Chance(3, 5) {
			g.token = true
			g.extra = r.Bytes(r.Pick(0, 0, 0, 0, 4, 8, 16))
			nt := r.Pick(0, 1, 1, 2, 3, 5)
			for j := 0; j < nt; j++ {
				g.types = append(g.types, genType(r))
			}
		} else {
			g.gid = uint16(r.Pick(0x1701, 0x1704, 0x3001, 0x2fff, 0, 0xffff, 0x0030))
			g.body = r.Bytes(r.Pick(0, 1, 8, 16, 24, 40))
		}
		s.groups = append(s.groups, g)
	}
	s.slack = r.Bytes(r.Pick(0, 7, 8, 9, 23, 24, 25, 39, 40, 41, 48, 64, 64, 100, 200, 200))
	if r.Chance(1, 3) {
		for i := range s.slack {
			s.slack[i] = 0xff
		}
	}
	return s
}

func (s *gblob) allTypes() []*gtype {
	var l []*gtype
	for i := range s.groups {
		for j := range s.groups[i].types {
			l = append(l, &s.groups[i].types[j])
		}
	}
	return l
}

func widthKind(r *Rng) uint64 { return uint64(r.Pick(0, 1, 2, 4)) }

func genReq(r *Rng, s *gblob) req {
	tys := s.allTypes()
	mode := r.Intn(10)
	if len(tys) > 0 && mode < 7 {
		t := tys[r.Intn(len(tys))]
		q := req{pm: t.prio, bm: t.board, kind: uint64(t.kind)}
		switch r.Intn(4) {
		case 0:
			q.pm, q.bm = 0xff, 0xffff
		case 1: // one common bit
			if t.prio != 0 {
				q.pm = t.prio & -t.prio
			}
			if t.board != 0 {
				q.bm = t.board & -t.board
			}
		}
		if mode < 3 && len(t.toks) > 0 { // an existing token
			q.k = t.toks[r.Intn(len(t.toks))].id
		} else if len(t.toks) > 0 { // a new token somewhere in the order
			i := r.Intn(len(t.toks))
			switch r.Intn(4) {
			case 0:
				q.k = t.toks[0].id - 1
			case 1:
				q.k = t.toks[len(t.toks)-1].id + 1
			case 2:
				q.k = t.toks[i].id + 1
			default:
				q.k = uint32(r.U64())
			}
		} else {
			q.k = uint32(r.U64())
		}
		q.v = cut(uint32(r.U64()), uint16(q.kind))
		if !q.inRange() { // a type of unknown kind was chosen
			q.kind = widthKind(r)
			q.v = cut(q.v, uint16(q.kind))
		}
		return q
	}
	q := req{k: uint32(r.U64()), pm: uint8(r.Pick(0xff, 1, 0x40, 0x80, 0)), bm: uint16(r.Pick(0xffff, 4, 0x0f00, 0)),
		kind: widthKind(r)}
	q.v = cut(uint32(r.U64()), uint16(q.kind))
	return q
}

func put(b []byte, off, width int, v uint64) {
	if off < 0 || off+width > len(b) {
		return
	}
	switch width {
	case 2:
		le.PutUint16(b[off:], uint16(v))
	case 4:
		le.PutUint32(b[off:], uint32(v))
	}
}

// boundary mutants of one size/id field (or a truncation) of a well-formed blob
func mutate(r *Rng, img []byte) []byte {
	b := append([]byte{}, img...)
	w, _ := walk(b)
	if w == nil {
		return b
	}
	type field struct{ off, width, cur int }
	fields := []field{{8, 4, w.size}, {0, 4, 0}, {32, 4, 0}, {124, 4, 0}}
	for _, g := range w.groups {
		fields = append(fields, field{g.off + 12, 4, g.size}, field{g.off + 4, 2, 0x3000})
		if g.token {
			fields = append(fields, field{g.off + 6, 2, g.soh})
		}
		for _, t := range g.types {
			fields = append(fields, field{t.off + 4, 2, t.size}, field{t.off + 2, 2, int(t.kind)})
		}
	}
	switch r.Intn(8) {
	case 0: // truncate the buffer
		cuts := []int{0, 1, 127, 128, 129, 143, 144, w.size - 1, w.size, len(b) - 1}
		c := cuts[r.Intn(len(cuts))]
		if r.Bool() {
			c = r.Intn(len(b) + 1)
		}
		if c >= 0 && c <= len(b) {
			b = b[:c]
		}
	case 1: // random byte flip in the structured part
		if w.size > 0 {
			b[r.Intn(w.size)] ^= byte(1 << uint(r.Intn(8)))
		}
	default:
		f := fields[r.Intn(len(fields))]
		vals := []int{0, 1, 7, 8, 15, 16, 17, 23, 24, 31, 32, f.cur - 1, f.cur + 1, f.cur - 8, f.cur + 8, f.cur - 16,
			f.cur + 16, f.cur + 24, 127, 128, 129, len(b), len(b) + 1, len(b) - 128, w.size - 128, 0xffff, 0xfff8, 0x10000,
			0x7fffffff, 0xffffffff, 0x3000, 0x2fff}
		put(b, f.off, f.width, uint64(vals[r.Intn(len(vals))]))
	}
	return b
}

// blobs at the 16-bit limits: a type that cannot grow, a group with 64 KiB of type data
func bigBlob(r *Rng, which int) (*gblob, req) {
	s := &gblob{}
	copy(s.hdr[:], r.Bytes(128))
	mk := func(kind uint16, n int, first uint32) gtype {
		t := gtype{kind: kind, prio: 0xff, board: 0xffff}
		for i := 0; i < n; i++ {
			t.toks = append(t.toks, wtok{first + 2*uint32(i), cut(uint32(r.U64()), kind)})
		}
		return t
	}
	g := ggroup{token: true}
	q := req{pm: 0xff, bm: 0xffff, kind: 4, v: uint32(r.U64())}
	switch which {
	case 0: // the matching type holds 8189 pairs = 65528 bytes: no further pair fits SizeOfType
		g.types = []gtype{mk(4, 8189, 10)}
		q.k = 11 + 2*uint32(r.Intn(8000))
	case 1: // one pair below the limit: the insert must still work, the next one not
		g.types = []gtype{mk(4, 8188, 10)}
		q.k = 11 + 2*uint32(r.Intn(8000))
	case 2: // group data 65528 bytes in two types; inserting 8 bytes makes it 65536
		g.types = []gtype{mk(4, 10, 10), mk(1, (65528-96-16)/8, 10)}
		q.k = 11 + 2*uint32(r.Intn(8))
	default: // group data beyond 64 KiB before the upsert, remainder small
		g.types = []gtype{mk(4, 3, 10), mk(1, 8000, 10), mk(2, (65536+40-40-64016-16)/8, 10)}
		q.k = 11
	}
	s.groups = []ggroup{g}
	s.slack = r.Bytes(64)
	return s, q
}

// token groups with more than 64 KiB of type data: types that start at an in-group offset of
// 65536 and more (behind two or three large types), requests aimed at those late types
func farBlob(r *Rng, which int) (*gblob, []req) {
	s := &gblob{}
	copy(s.hdr[:], r.Bytes(128))
	mk := func(kind uint16, prio uint8, board uint16, n int, first, step uint32) gtype {
		t := gtype{kind: kind, prio: prio, board: board}
		copy(t.raw[:], r.Bytes(16))
		for i := 0; i < n; i++ {
			t.toks = append(t.toks, wtok{first + step*uint32(i), cut(uint32(r.U64()), kind)})
		}
		return t
	}
	g := ggroup{token: true}
	copy(g.raw[:], r.Bytes(16))
	var qs []req
	nbig := 4095 - r.Intn(3) // 4095 pairs: 32776 bytes, two of them end at in-group offset 65552
	switch which {
	case 0, 1, 2: // large types the request does not match, the matching type behind them
		g.types = []gtype{
			mk(1, 1, 1, nbig, 0x10000000, 3), mk(2, 2, 2, nbig, 0x20000000, 3),
			mk(4, 0xf0, 0xff00, 5, 100, 10), mk(0, 0x0c, 0x00f0, 3, 7, 7),
		}
		late := &g.types[2]
		switch which {
		case 0: // existing token of the late type
			qs = []req{{k: late.toks[r.Intn(5)].id, pm: 0x10, bm: 0x0100, kind: 4, v: uint32(r.U64())}}
		case 1: // new token inside the late type, then the same one again
			k := late.toks[r.Intn(5)].id + 1 + uint32(r.Intn(8))
			qs = []req{{k: k, pm: 0xff, bm: 0xffff, kind: 4, v: uint32(r.U64())}, {k: k, pm: 0x80, bm: 0x8000, kind: 4, v: 1}}
		default: // bool token of the last type; then a request no type matches: new type behind 64 KiB
			qs = []req{{k: 14, pm: 0x04, bm: 0x0010, kind: 0, v: 1}, {k: 5, pm: 0x01, bm: 0x0800, kind: 2, v: 0x1234}}
		}
	case 3: // the token sits in all three matching types, two of them large
		g.types = []gtype{
			mk(4, 0xff, 0xffff, nbig, 10, 2), mk(4, 0x0f, 0x00ff, nbig, 10, 2), mk(4, 0xf0, 0xff00, 6, 10, 2),
		}
		qs = []req{{k: 10 + 2*uint32(r.Intn(6)), pm: 0x18, bm: 0x0180, kind: 4, v: uint32(r.U64())},
			{k: 15, pm: 0x18, bm: 0x0180, kind: 4, v: 9}}
	default: // three types close to the SizeOfType limit, small ones at in-group offset 196 KiB
		g.types = []gtype{
			mk(1, 0xff, 0xffff, 8189, 1, 1), mk(2, 0xff, 0xffff, 8188-r.Intn(3), 1, 1), mk(0, 0xff, 0xffff, 8187, 1, 1),
			mk(4, 0xff, 0xffff, 4, 50, 50), mk(4, 1, 1, 2, 60, 60),
		}
		qs = []req{{k: 100, pm: 0xfe, bm: 0xfffe, kind: 4, v: uint32(r.U64())}, {k: 75, pm: 0xfe, bm: 0xfffe, kind: 4, v: 3},
			{k: 60, pm: 1, bm: 1, kind: 4, v: 4}}
	}
	f := ggroup{gid: 0x1701, body: r.Bytes(24)}
	copy(f.raw[:], r.Bytes(16))
	g2 := ggroup{token: true, types: []gtype{mk(2, 0xff, 0xffff, 2, 5, 5)}}
	copy(g2.raw[:], r.Bytes(16))
	s.groups = []ggroup{f, g, g2}
	if r.Bool() {
		s.groups = []ggroup{g, f}
	}
	s.slack = r.Bytes(80)
	return s, qs
}

// ---------- families added by the coverage audit (seeded changes C18a1..C18a5) ----------

// sharedBlob: two or three token groups (foreign groups before, between and after) whose types draw their
// ids from one small ascending pool, most of them of one kind and with masks that contain one chosen priority
// bit and one chosen board bit (all 8 resp. 16 bit positions are drawn uniformly), so that a single request meets
// the same token id in several matching types and in several groups; group header extensions of up to 1000 bytes
// (SizeOfHeader below, at and beyond 256). Requests: a pool id (update in every matching type), a new id between
// pool ids, the first id again under other masks, a request of another kind. A quarter of the pools is drawn from
// the ids 0, 1, 2, 2^31-1, 2^31, 2^32-2, 2^32-1 and the four ids the package names; values 0 and all ones.
func sharedBlob(r *Rng) (*gblob, []req) {
	s := &gblob{}
	copy(s.hdr[:], r.Bytes(128))
	kind := uint16(r.Pick(0, 1, 2, 4))
	bp := uint8(1) << uint(r.Intn(8))
	bb := uint16(1) << uint(r.Intn(16))
	pool := make([]uint32, r.Range(3, 6))
	id := uint32(r.Intn(1<<12)) + 1
	if r.Chance(1, 4) {
		id = uint32(r.U64()) >> 1
	}
	for i := range pool {
		pool[i] = id
		id += uint32(2 + r.Intn(1<<uint(r.Intn(10))))
	}
	if r.Chance(1, 4) { // ids at the ends and in the middle of the 32-bit range, and the ids the package names
		pool = pool[:0]
		for _, b := range []uint32{0, 1, 2, 0x7fffffff, 0x80000000, uint32(apcb.TokenIDPSPEnableDebugMode), uint32(apcb.TokenIDPSPErrorDisplay),
			uint32(apcb.TokenIDPSPMeasureConfig), uint32(apcb.TokenIDPSPStopOnError), 0xfffffffe, 0xffffffff} {
			if r.Bool() {
				pool = append(pool, b)
			}
		}
		if len(pool) < 2 {
			pool = []uint32{0, 0xffffffff}
		}
	}
	// values: mostly random within the width, sometimes 0 or all ones
	edgeVal := func(v uint32) uint32 {
		switch r.Intn(8) {
		case 0:
			return 0
		case 1:
			return 0xffffffff
		}
		return v
	}
	otherKind := func() uint16 {
		for {
			if k := uint16(r.Pick(0, 1, 2, 4)); k != kind {
				return k
			}
		}
	}
	mkType := func() gtype {
		t := gtype{kind: kind}
		switch r.Intn(3) {
		case 0:
			t.prio, t.board = bp, bb
		case 1:
			t.prio, t.board = bp|uint8(r.U64()), bb|uint16(r.U64())
		default:
			t.prio, t.board = 0xff, 0xffff
		}
		if r.Chance(1, 3) { // a type the narrow requests do not match
			switch r.Intn(3) {
			case 0:
				t.prio &^= bp
			case 1:
				t.board &^= bb
			default:
				t.kind = otherKind()
			}
		}
		copy(t.raw[:], r.Bytes(16))
		if r.Bool() {
			copy(t.raw[:], []byte{0, 0x30, 0, 0, 0, 0, 0, 0, 2, 1, 8, 0, 4, 0, 0, 0})
		}
		for _, id := range pool {
			if r.Chance(3, 5) {
				t.toks = append(t.toks, wtok{id, edgeVal(genValue(r, t.kind))}) // all ones: junk above the width of narrow kinds
			}
		}
		return t
	}
	foreign := func() ggroup {
		g := ggroup{gid: uint16(r.Pick(0x1701, 0x1704, 0x3001, 0x2fff, 0x0030)), body: r.Bytes(r.Pick(0, 1, 8, 24, 40))}
		copy(g.raw[:], r.Bytes(16))
		return g
	}
	ntg := r.Range(2, 3)
	for i := 0; i < ntg; i++ {
		if r.Bool() {
			s.groups = append(s.groups, foreign())
		}
		g := ggroup{token: true, extra: r.Bytes(r.Pick(0, 0, 0, 8, 16, 240, 256, 264, 1000))}
		copy(g.raw[:], r.Bytes(16))
		nt := r.Range(1, 3)
		for j := 0; j < nt; j++ {
			g.types = append(g.types, mkType())
		}
		s.groups = append(s.groups, g)
	}
	if r.Bool() {
		s.groups = append(s.groups, foreign())
	}
	s.slack = r.Bytes(r.Pick(0, 8, 24, 40, 64, 200))
	masks := func() (uint8, uint16) {
		switch r.Intn(5) {
		case 0:
			return bp, bb
		case 1:
			return 0xff, 0xffff
		case 2:
			return bp | uint8(r.U64()), bb | uint16(r.U64())
		case 3:
			return bp, 0xffff
		}
		return 0xff, bb
	}
	mk := func(k uint32, kd uint16) req {
		pm, bm := masks()
		return req{k: k, pm: pm, bm: bm, kind: uint64(kd), v: cut(edgeVal(uint32(r.U64())), kd)}
	}
	first := pool[r.Intn(len(pool))]
	qs := []req{mk(first, kind), mk(pool[r.Intn(len(pool))]+1, kind), mk(first, kind)}
	if r.Bool() {
		qs = append(qs, mk(pool[r.Intn(len(pool))], otherKind()))
	}
	if r.Bool() {
		qs = append(qs, mk(pool[r.Intn(len(pool))], kind))
	}
	return s, qs
}

// edgeBlob: size classes the other families do not reach.
//
//	0..2  a type that cannot grow (8189 pairs) next to the request: an existing token of the full type is
//	      updated; an earlier matching type is full while the last one has room; the last one is full
//	3     no token group and SizeOfAPCB beyond 64 KiB: the new group starts at an offset >= 65536
//	4     a small token group behind a foreign group of 64 KiB and more: the new type starts beyond 65536
//	5     the same token in two token groups with a foreign group of 64 KiB and more between them
//
// the third result says whether the extracted model can evaluate the requests at quick-tier cost (no large
// matching type)
func edgeBlob(r *Rng, which int) (*gblob, []req, bool) {
	s := &gblob{}
	copy(s.hdr[:], r.Bytes(128))
	mk := func(kind uint16, prio uint8, board uint16, n int, first, step uint32) gtype {
		t := gtype{kind: kind, prio: prio, board: board}
		copy(t.raw[:], r.Bytes(16))
		for i := 0; i < n; i++ {
			t.toks = append(t.toks, wtok{first + step*uint32(i), cut(uint32(r.U64()), kind)})
		}
		return t
	}
	tg := func(types ...gtype) ggroup {
		g := ggroup{token: true, types: types}
		copy(g.raw[:], r.Bytes(16))
		return g
	}
	fg := func(n int) ggroup {
		g := ggroup{gid: uint16(r.Pick(0x1701, 0x1704, 0x3001)), body: r.Bytes(n)}
		copy(g.raw[:], r.Bytes(16))
		return g
	}
	big := 65536 - 144 + r.Pick(0, 8, 16, 24, 1000, 5000) // the next group starts at or shortly behind offset 65536
	var qs []req
	via := true
	rv := func() uint32 { return uint32(r.U64()) }
	switch which {
	case 0:
		s.groups = []ggroup{tg(mk(4, 0xff, 0xffff, 8189, 10, 2))}
		qs = []req{{k: 10 + 2*uint32(r.Intn(8189)), pm: 0x01 << uint(r.Intn(8)), bm: 0x0001 << uint(r.Intn(16)), kind: 4, v: rv()},
			{k: 11 + 2*uint32(r.Intn(8000)), pm: 0xff, bm: 0xffff, kind: 4, v: rv()}}
		via = false
	case 1:
		full, small := mk(4, 0xff, 0xffff, 8189, 10, 2), mk(4, 0x3f, 0x00ff, 3, 100001, 4)
		s.groups = []ggroup{tg(full, small)}
		if r.Bool() {
			s.groups = []ggroup{tg(full), fg(r.Pick(0, 8, 24)), tg(small)}
		}
		qs = []req{{k: 100003 + 4*uint32(r.Intn(3)), pm: 0x21, bm: 0x0081, kind: 4, v: rv()},
			{k: 10 + 2*uint32(r.Intn(8189)), pm: 0xc0, bm: 0xff00, kind: 4, v: rv()},
			{k: 100001, pm: 0xff, bm: 0xffff, kind: 4, v: rv()}}
		via = false
	case 2:
		full, small := mk(4, 0xff, 0xffff, 8189, 10, 2), mk(4, 0x3f, 0x00ff, 3, 100001, 4)
		s.groups = []ggroup{tg(small, full)}
		if r.Bool() {
			s.groups = []ggroup{tg(small), tg(full)}
		}
		qs = []req{{k: 100003, pm: 0x21, bm: 0x0081, kind: 4, v: rv()}, // last matching type is full: refused, unchanged
			{k: 100005, pm: 0x21, bm: 0x0081, kind: 4, v: rv()},
			{k: 100003, pm: 0xc0, bm: 0xff00, kind: 4, v: rv()}}
		via = false
	case 3:
		s.groups = []ggroup{fg(big)}
		if r.Bool() {
			s.groups = append(s.groups, fg(r.Pick(0, 8, 40)))
		}
		kd := uint16(r.Pick(0, 1, 2, 4))
		qs = []req{{k: rv(), pm: 0x04, bm: 0x0200, kind: uint64(kd), v: cut(rv(), kd)}}
		qs = append(qs, req{k: qs[0].k, pm: 0xff, bm: 0xffff, kind: uint64(kd), v: cut(rv(), kd)},
			req{k: qs[0].k, pm: 0x08, bm: 0x0400, kind: uint64(kd), v: cut(rv(), kd)})
	case 4:
		s.groups = []ggroup{fg(big), tg(mk(1, 0x01, 0x0001, 2, 5, 5))}
		if r.Bool() {
			s.groups = append(s.groups, fg(r.Pick(0, 8, 40)))
		}
		qs = []req{{k: 0x77, pm: 0x02, bm: 0x0002, kind: 2, v: rv() & 0xffff}, {k: 0x77, pm: 0x02, bm: 0x0002, kind: 2, v: rv() & 0xffff},
			{k: 7, pm: 0x03, bm: 0x0003, kind: 1, v: rv() & 0xff}}
	default:
		s.groups = []ggroup{tg(mk(4, 0x0f, 0x00ff, 4, 100, 10)), fg(big), tg(mk(4, 0x3c, 0x0ff0, 4, 100, 10), mk(4, 0xf0, 0xff00, 2, 110, 10))}
		qs = []req{{k: 100 + 10*uint32(r.Intn(4)), pm: 0x0c, bm: 0x00f0, kind: 4, v: rv()}, {k: 125, pm: 0x0c, bm: 0x00f0, kind: 4, v: rv()},
			{k: 110, pm: 0xff, bm: 0xffff, kind: 4, v: rv()}}
	}
	s.slack = r.Bytes(r.Pick(40, 64, 80))
	return s, qs, via
}

func gen(r *Rng, tier string, emit Emit) {
	n := 260
	if tier == "thorough" {
		n = 9000
	}
	for it := 0; it < n; it++ {
		rr := r.Fork(uint64(it))
		s := genBlob(rr)
		img := s.enc()
		q := genReq(rr, s)
		ua := func(q req, b []byte) []string { return append(q.args(), H(b)) }

		emit("C", "parse", H(img))
		emit("C", "spec_parse", H(img))
		emit("P", "p_list", H(img))
		emit("C", "upsert", ua(q, img)...)
		emit("C", "spec_upsert", ua(q, img)...)
		emit("P", "p_upsert", ua(q, img)...)

		// a sequence of upserts on one blob, with enough room for most of them
		seq := append([]byte{}, img...)
		if rr.Bool() {
			seq = append(seq, make([]byte, rr.Pick(8, 24, 40, 100, 300))...)
		}
		m := rr.Range(2, 6)
		sa := []string{H(seq), N(uint64(m))}
		cur := append([]byte{}, seq...)
		for i := 0; i < m; i++ {
			qi := genReq(rr, s)
			if i > 0 && rr.Chance(1, 3) { // again the same token, other value
				qi = reqOf(sa[len(sa)-5:])
				qi.v = cut(uint32(rr.U64()), uint16(qi.kind))
			}
			sa = append(sa, qi.args()...)
			// correspondence along the sequence as well
			emit("C", "upsert", ua(qi, cur)...)
			_, nxt, _ := func() (string, []byte, error) {
				defer func() { _ = recover() }()
				return obsUpsert(qi, cur)
			}()
			if nxt != nil {
				cur = nxt
			}
		}
		emit("P", "p_seq", sa...)
		emit("C", "parse", H(cur))
		emit("C", "spec_parse", H(cur))

		// an unknown Go type as value
		if rr.Chance(1, 10) {
			qq := q
			qq.kind = uint64(rr.Pick(3, 5, 8, 0xff))
			emit("C", "upsert", ua(qq, img)...)
		}

		// boundary mutants
		for j := 0; j < 3; j++ {
			bad := mutate(rr, img)
			emit("C", "parse", H(bad))
			emit("C", "upsert", ua(q, bad)...)
			emit("C", "spec_upsert", ua(q, bad)...)
			emit("P", "p_no_panic", ua(q, bad)...)
			emit("P", "p_upsert", ua(q, bad)...)
		}
		if rr.Chance(1, 6) {
			junk := rr.Bytes(rr.Pick(0, 1, 127, 128, 129, 200))
			emit("C", "parse", H(junk))
			emit("C", "upsert", ua(q, junk)...)
			emit("P", "p_no_panic", ua(q, junk)...)
		}
	}
	// the 16-bit limits
	nb := 4
	if tier == "thorough" {
		nb = 24
	}
	for it := 0; it < nb; it++ {
		rr := r.Fork(uint64(1000000 + it))
		s, q := bigBlob(rr, it%4)
		img := s.enc()
		ua := append(q.args(), H(img))
		emit("P", "p_upsert", ua...)
		if tier == "thorough" || it%4 == 0 || it%4 == 2 { // the model walks a 64 KiB list per pair: keep quick quick
			emit("C", "upsert", ua...)
		}
		q2 := q
		q2.k++
		q2.k |= 1
		sa := append([]string{H(img), N(2)}, append(q.args(), q2.args()...)...)
		emit("P", "p_seq", sa...)
	}
	// more than 64 KiB of type data in one group
	nf := 5
	if tier == "thorough" {
		nf = 40
	}
	for it := 0; it < nf; it++ {
		rr := r.Fork(uint64(2000000 + it))
		which := it % 5
		s, qs := farBlob(rr, which)
		img := s.enc()
		emit("P", "p_list", H(img))
		// through the model where it does not have to walk a large matching type pair by pair
		viaModel := which <= 2 || tier == "thorough"
		if viaModel {
			emit("C", "parse", H(img))
			emit("C", "spec_parse", H(img))
		}
		sa := []string{H(img), N(uint64(len(qs)))}
		cur := img
		for _, q := range qs {
			ua := append(q.args(), H(cur))
			emit("P", "p_upsert", ua...)
			if viaModel {
				emit("C", "upsert", ua...)
				emit("C", "spec_upsert", ua...)
			}
			sa = append(sa, q.args()...)
			_, nxt, _ := func() (string, []byte, error) {
				defer func() { _ = recover() }()
				return obsUpsert(q, cur)
			}()
			if nxt != nil {
				cur = nxt
			}
		}
		emit("P", "p_seq", sa...)
		emit("P", "p_list", H(cur))
	}
	// the same token in several matching types and groups, every mask bit, long group headers
	ns := 40
	if tier == "thorough" {
		ns = 1500
	}
	for it := 0; it < ns; it++ {
		rr := r.Fork(uint64(3000000 + it))
		s, qs := sharedBlob(rr)
		img := s.enc()
		emit("P", "p_list", H(img))
		emit("C", "parse", H(img))
		emit("C", "spec_parse", H(img))
		seq := append(append([]byte{}, img...), make([]byte, rr.Pick(0, 8, 24, 48, 100))...)
		sa := []string{H(seq), N(uint64(len(qs)))}
		cur := append([]byte{}, seq...)
		for _, q := range qs {
			ua := append(q.args(), H(img))
			emit("P", "p_upsert", ua...)
			emit("C", "upsert", ua...)
			emit("C", "spec_upsert", ua...)
			sa = append(sa, q.args()...)
			emit("C", "upsert", append(q.args(), H(cur))...)
			_, nxt, _ := func() (string, []byte, error) {
				defer func() { _ = recover() }()
				return obsUpsert(q, cur)
			}()
			if nxt != nil {
				cur = nxt
			}
		}
		emit("P", "p_seq", sa...)
	}
	// full types next to the request; new group / new type / second token group behind 64 KiB
	ne := 6
	if tier == "thorough" {
		ne = 30
	}
	for it := 0; it < ne; it++ {
		rr := r.Fork(uint64(4000000 + it))
		s, qs, cheap := edgeBlob(rr, it%6)
		img := s.enc()
		// a large matching type costs the list-based model about 10 s per call: one round of those in the thorough tier
		viaModel := cheap || (tier == "thorough" && it < 6)
		emit("P", "p_list", H(img))
		if viaModel {
			emit("C", "parse", H(img))
		}
		if viaModel && tier == "thorough" {
			emit("C", "spec_parse", H(img))
		}
		sa := []string{H(img), N(uint64(len(qs)))}
		cur := img
		for _, q := range qs {
			emit("P", "p_upsert", append(q.args(), H(img))...)
			if viaModel {
				emit("C", "upsert", append(q.args(), H(cur))...)
			}
			if viaModel && tier == "thorough" { // the specification on the abstraction as well (quick: kept near its wall time)
				emit("C", "spec_upsert", append(q.args(), H(cur))...)
			}
			sa = append(sa, q.args()...)
			_, nxt, _ := func() (string, []byte, error) {
				defer func() { _ = recover() }()
				return obsUpsert(q, cur)
			}()
			if nxt != nil {
				cur = nxt
			}
		}
		emit("P", "p_seq", sa...)
		emit("P", "p_list", H(cur))
	}
}

func main() {
	Register("parse", opParse)
	Register("upsert", opUpsert)
	Register("spec_parse", opSpecParse)
	Register("spec_upsert", opSpecUpsert)
	Register("p_upsert", pUpsert)
	Register("p_seq", pSeq)
	Register("p_list", pList)
	Register("p_no_panic", pNoPanic)
	Main(gen)
}
