// translate-c07 regenerates coq/Gen/JsonFields.v from the struct declarations of
// pkg/uefi: for every node type of the firmware tree, the list of its fields as
// encoding/json sees them (embedded structs flattened the way encoding/json promotes
// their fields) with the flag "survives a Marshal/Unmarshal round trip by the default
// rules": the field is exported and is not tagged `json:"-"`.
// Only go/parser, go/ast and go/token are used.  A requested struct that cannot be
// found, an embedded type that is not a struct of the package, or two surviving fields
// with the same JSON name make the translator fail: nothing is skipped silently.
//
// usage: translate-c07 <repo> <out.v>
package main

import (
	"bytes"
	"fmt"
	"go/ast"
	"go/parser"
	"go/token"
	"os"
	"path/filepath"
	"reflect"
	"sort"
	"strconv"
	"strings"
	"unicode"
	"unicode/utf8"
)

var fset = token.NewFileSet()

func fatal(pos token.Pos, format string, args ...interface{}) {
	where := ""
	if pos.IsValid() {
		where = fset.Position(pos).String() + ": "
	}
	fmt.Fprintf(os.Stderr, "translate-c07: %s%s\n", where, fmt.Sprintf(format, args...))
	os.Exit(1)
}

// the node types of the firmware tree and the structs reachable from them that the
// model of C07 speaks about
var wanted = []string{
	"FirmwareVolume", "FirmwareVolumeFixedHeader", "FirmwareVolumeExtHeader", "Block",
	"File", "FileHeaderExtended", "FileHeader", "IntegrityCheck",
	"Section", "SectionExtHeader", "SectionHeader", "TypeSpecificHeader",
	"SectionGUIDDefined", "SectionGUIDDefinedHeader", "DepExOp",
	"TypedFirmware", "BIOSRegion", "BIOSPadding", "NVarStore", "NVar", "NVarHeader",
	// flash level
	"FlashImage", "FlashDescriptor", "FlashDescriptorMap", "FlashRegionSection", "FlashRegion",
	"FlashMasterSection", "RegionPermissions", "RawRegion", "MERegion",
}

type field struct {
	Name     string
	Survives bool
}

var structs = map[string]*ast.StructType{}
var structPos = map[string]token.Pos{}

func exported(name string) bool {
	r, _ := utf8.DecodeRuneInString(name)
	return unicode.IsUpper(r)
}

// jsonTag returns (name, skip): the JSON name given by the tag ("" = none) and whether the
// tag is exactly "-" (field never marshalled).
func jsonTag(f *ast.Field) (string, bool) {
	if f.Tag == nil {
		return "", false
	}
	raw, err := strconv.Unquote(f.Tag.Value)
	if err != nil {
		fatal(f.Pos(), "cannot unquote struct tag %s", f.Tag.Value)
	}
	v, ok := reflect.StructTag(raw).Lookup("json")
	if !ok {
		return "", false
	}
	if v == "-" {
		return "", true
	}
	name := v
	if i := strings.Index(v, ","); i >= 0 {
		name = v[:i]
	}
	return name, false
}

func embeddedName(f *ast.Field) string {
	t := f.Type
	if s, ok := t.(*ast.StarExpr); ok {
		t = s.X
	}
	id, ok := t.(*ast.Ident)
	if !ok {
		fatal(f.Pos(), "embedded field of a type from another package: not supported")
	}
	return id.Name
}

func flatten(name string, seen map[string]bool) []field {
	st, ok := structs[name]
	if !ok {
		fatal(token.NoPos, "struct %s not found in pkg/uefi", name)
	}
	if seen[name] {
		fatal(structPos[name], "recursive embedding of %s", name)
	}
	seen[name] = true
	defer delete(seen, name)
	var out []field
	for _, f := range st.Fields.List {
		tagName, skip := jsonTag(f)
		if len(f.Names) == 0 {
			en := embeddedName(f)
			if skip {
				out = append(out, field{en, false})
				continue
			}
			if tagName != "" {
				out = append(out, field{en, exported(en)})
				continue
			}
			if _, isStruct := structs[en]; !isStruct {
				fatal(f.Pos(), "embedded type %s is not a struct declared in pkg/uefi", en)
			}
			// encoding/json promotes the fields of an untagged embedded struct
			out = append(out, flatten(en, seen)...)
			continue
		}
		for _, n := range f.Names {
			out = append(out, field{n.Name, exported(n.Name) && !skip})
		}
	}
	return out
}

// regionNames emits jf_region_type_names : list (Z * string) from the const block that declares
// RegionTypeBIOS ... (iota) and the composite literal flashRegionTypeNames.
func regionNames(pkg *ast.Package, b *bytes.Buffer) {
	vals := map[string]int{}
	var lit *ast.CompositeLit
	for _, f := range pkg.Files {
		for _, d := range f.Decls {
			gd, ok := d.(*ast.GenDecl)
			if !ok {
				continue
			}
			if gd.Tok == token.CONST {
				isBlock := false
				for i, sp := range gd.Specs {
					vs := sp.(*ast.ValueSpec)
					if i == 0 {
						if id, ok := vs.Type.(*ast.Ident); ok && id.Name == "FlashRegionType" && len(vs.Values) == 1 {
							if v, ok := vs.Values[0].(*ast.Ident); ok && v.Name == "iota" {
								isBlock = true
							}
						}
					}
					if !isBlock {
						break
					}
					if len(vs.Names) != 1 {
						fatal(vs.Pos(), "FlashRegionType constant block: one name per line expected")
					}
					switch {
					case len(vs.Values) == 0 || i == 0:
						vals[vs.Names[0].Name] = i
					default:
						// an explicit value: only a (possibly negative) integer literal is understood
						neg := false
						e := vs.Values[0]
						if u, ok := e.(*ast.UnaryExpr); ok && u.Op == token.SUB {
							neg, e = true, u.X
						}
						bl, ok := e.(*ast.BasicLit)
						if !ok || bl.Kind != token.INT {
							fatal(vs.Pos(), "FlashRegionType constant %s: unsupported value", vs.Names[0].Name)
						}
						n, err := strconv.Atoi(bl.Value)
						if err != nil {
							fatal(vs.Pos(), "%v", err)
						}
						if neg {
							n = -n
						}
						vals[vs.Names[0].Name] = n
					}
				}
			}
			if gd.Tok == token.VAR {
				for _, sp := range gd.Specs {
					vs := sp.(*ast.ValueSpec)
					if len(vs.Names) == 1 && vs.Names[0].Name == "flashRegionTypeNames" && len(vs.Values) == 1 {
						lit, _ = vs.Values[0].(*ast.CompositeLit)
					}
				}
			}
		}
	}
	if lit == nil || len(vals) == 0 {
		fatal(token.NoPos, "flashRegionTypeNames or the FlashRegionType constants not found in pkg/uefi")
	}
	type ent struct {
		v int
		s string
	}
	var ents []ent
	for _, e := range lit.Elts {
		kv, ok := e.(*ast.KeyValueExpr)
		if !ok {
			fatal(e.Pos(), "flashRegionTypeNames: key/value expected")
		}
		k, ok := kv.Key.(*ast.Ident)
		v, ok2 := kv.Value.(*ast.BasicLit)
		if !ok || !ok2 || v.Kind != token.STRING {
			fatal(e.Pos(), "flashRegionTypeNames: identifier key and string value expected")
		}
		n, known := vals[k.Name]
		if !known {
			fatal(e.Pos(), "flashRegionTypeNames: unknown constant %s", k.Name)
		}
		str, _ := strconv.Unquote(v.Value)
		ents = append(ents, ent{n, str})
	}
	sort.Slice(ents, func(i, j int) bool { return ents[i].v < ents[j].v })
	b.WriteString("(* FlashRegionType.String(): the names of the declared region types (any other value prints as\n")
	b.WriteString("   \"Unknown Region (<value>)\") *)\n")
	b.WriteString("Definition jf_region_type_names : list (Z * string) :=\n  [")
	for i, e := range ents {
		if i > 0 {
			b.WriteString(";\n   ")
		}
		fmt.Fprintf(b, "(%d, %q)", e.v, e.s)
	}
	b.WriteString("]%Z.\n\n")
	unk, ok := vals["RegionTypeUnknown"]
	if !ok {
		fatal(token.NoPos, "RegionTypeUnknown not found")
	}
	fmt.Fprintf(b, "Definition jf_region_type_unknown : Z := (%d)%%Z.\n\n", unk)
}

func main() {
	if len(os.Args) != 3 {
		fmt.Fprintln(os.Stderr, "usage: translate-c07 <repo> <out.v>")
		os.Exit(2)
	}
	dir := filepath.Join(os.Args[1], "pkg", "uefi")
	pkgs, err := parser.ParseDir(fset, dir, func(fi os.FileInfo) bool {
		return !strings.HasSuffix(fi.Name(), "_test.go")
	}, parser.ParseComments)
	if err != nil {
		fatal(token.NoPos, "parsing %s: %v", dir, err)
	}
	pkg, ok := pkgs["uefi"]
	if !ok {
		fatal(token.NoPos, "package uefi not found in %s", dir)
	}
	custom := map[string][]string{}
	var fileNames []string
	for fn := range pkg.Files {
		fileNames = append(fileNames, fn)
	}
	sort.Strings(fileNames)
	for _, fn := range fileNames {
		for _, d := range pkg.Files[fn].Decls {
			switch d := d.(type) {
			case *ast.GenDecl:
				for _, s := range d.Specs {
					ts, ok := s.(*ast.TypeSpec)
					if !ok {
						continue
					}
					if st, ok := ts.Type.(*ast.StructType); ok {
						structs[ts.Name.Name] = st
						structPos[ts.Name.Name] = ts.Pos()
					}
				}
			case *ast.FuncDecl:
				if d.Recv != nil && (d.Name.Name == "MarshalJSON" || d.Name.Name == "UnmarshalJSON") {
					t := d.Recv.List[0].Type
					if s, ok := t.(*ast.StarExpr); ok {
						t = s.X
					}
					if id, ok := t.(*ast.Ident); ok {
						custom[id.Name] = append(custom[id.Name], d.Name.Name)
					}
				}
			}
		}
	}
	var b bytes.Buffer
	b.WriteString("(* Gen/JsonFields.v -- GENERATED by translator/C07.sh (harness/cmd/translate-c07) from the struct\n")
	b.WriteString("   declarations of pkg/uefi/*.go; do not edit.  For every node type of the firmware tree: its fields as\n")
	b.WriteString("   encoding/json sees them (embedded structs flattened), with the flag \"exported and not tagged json:\\\"-\\\"\",\n")
	b.WriteString("   i.e. the field is written by json.Marshal and read back by json.Unmarshal under the default rules. *)\n")
	b.WriteString("From Coq Require Import String List ZArith.\nImport ListNotations.\nLocal Open Scope string_scope.\n\n")
	for _, name := range wanted {
		fs := flatten(name, map[string]bool{})
		seen := map[string]bool{}
		for _, f := range fs {
			if f.Survives && seen[f.Name] {
				fatal(structPos[name], "struct %s: two surviving fields named %s after flattening (encoding/json would drop both)", name, f.Name)
			}
			if f.Survives {
				seen[f.Name] = true
			}
		}
		fmt.Fprintf(&b, "Definition jf_%s : list (string * bool) :=\n  [", name)
		for i, f := range fs {
			if i > 0 {
				b.WriteString(";\n   ")
			}
			fmt.Fprintf(&b, "(%q, %v)", f.Name, f.Survives)
		}
		b.WriteString("].\n\n")
	}
	// FlashRegionType.String(): the constants of the iota block and the name map
	regionNames(pkg, &b)
	// informative: the types of the package with hand-written (un)marshalers
	var cs []string
	for k := range custom {
		sort.Strings(custom[k])
		cs = append(cs, k)
	}
	sort.Strings(cs)
	b.WriteString("(* types of pkg/uefi with hand-written JSON (un)marshalers (their text format is not modelled) *)\n")
	b.WriteString("Definition jf_custom_marshalers : list (string * list string) :=\n  [")
	for i, k := range cs {
		if i > 0 {
			b.WriteString(";\n   ")
		}
		fmt.Fprintf(&b, "(%q, [", k)
		for j, m := range custom[k] {
			if j > 0 {
				b.WriteString("; ")
			}
			fmt.Fprintf(&b, "%q", m)
		}
		b.WriteString("])")
	}
	b.WriteString("].\n\n")
	b.WriteString("(* lookup: a field that is not declared any more does not survive *)\n")
	b.WriteString("Definition jf_survives (l : list (string * bool)) (name : string) : bool :=\n")
	b.WriteString("  match find (fun p => String.eqb (fst p) name) l with\n  | Some (_, b) => b\n  | None => false\n  end.\n")
	old, err := os.ReadFile(os.Args[2])
	if err == nil && bytes.Equal(old, b.Bytes()) {
		return
	}
	if err := os.WriteFile(os.Args[2], b.Bytes(), 0o644); err != nil {
		fatal(token.NoPos, "%v", err)
	}
}
