// c11: executor and generator for property C11 (pkg/visitors DXE cleaner,
// Remove with its Undo chain, Find).
//
// Trees are built in memory: a uefi.BIOSRegion whose elements are
// uefi.FirmwareVolume values holding uefi.File values (GUID, type, size; no
// sections other than an optional user-interface section).  A case describes
// the tree as volumes separated by '/', files by ',', a file as
// guid.type.size[.ui] in hex ("-" = no volume at all); ui = "n" gives the file
// a UI section with an ordinary name, ui = <c><hex> one whose name is the
// string of GUID <hex> in upper (u), lower (l) or mixed (m) case, i.e. the name
// the regex predicate of the `remove` command would match; <vols> after a file
// are the volumes nested in it, one FIRMWARE_VOLUME_IMAGE section each, placed
// directly in the file; {vols} puts those sections, after a raw leaf section,
// inside one GUID-defined section of the file (the layout of an LZMA-compressed
// DXE volume in EDK2 images), (vols) inside a GUID-defined section inside a
// compression section (two wrapping levels).  To the model all three are "the
// volumes nested in the file"; observations print them as <vols>.  The root
// handed to the visitors is a
// BIOSRegion holding the volumes, unless the tree has a prefix: "V!" + one
// volume: the root is that *uefi.FirmwareVolume itself, built in code; "X!" +
// one volume: the volume is serialised (harness/uefigen), read back with
// uefi.Parse and the volume node of the result is the root (sizes are then the
// real ones; property oracles only); "F!" + one file / "S!" + volumes: the
// root is a File / a Section holding the volumes (Remove only); "I!" + volumes:
// the root is a FlashImage (what uefi.Parse gives for a full flash image): a
// descriptor, a raw region and a BIOSRegion holding the volumes with padding
// elements before, between and after them.  The boot
// test is a scripted DXECleaner.Test; it records the tree it is shown.  The
// cleaner's log writer is used as an observation point: "Trying to remove
// <GUID>" is printed just before each removal, i.e. after the previous undo.
package main

import (
	"context"
	"errors"
	"fmt"
	"math/big"
	"strings"

	"github.com/linuxboot/fiano/pkg/guid"
	"github.com/linuxboot/fiano/pkg/uefi"
	"github.com/linuxboot/fiano/pkg/visitors"
	. "verifharness/common"
	"verifharness/uefigen"
)

// ---------- trees ----------

// a snapshot of the tree: the volumes with their file objects, and for each
// file the volumes nested in it (through its sections), recursively
type fnode struct {
	f    *uefi.File
	kids []*vnode
}
type vnode struct {
	fv    *uefi.FirmwareVolume
	files []*fnode
}
type snapT []*vnode

type tree struct {
	root uefi.Firmware
	fvs  []*uefi.FirmwareVolume
	orig snapT // the tree as built
}

func gidOf(v *big.Int) guid.GUID {
	var g guid.GUID
	b := v.Bytes()
	if len(b) > 16 {
		b = b[len(b)-16:]
	}
	copy(g[16-len(b):], b)
	return g
}

func gidHex(g guid.GUID) string { return new(big.Int).SetBytes(g[:]).Text(16) }

func unBig(s string) *big.Int {
	v, ok := new(big.Int).SetString(s, 16)
	if !ok {
		panic("bad number in case file: " + s)
	}
	return v
}

// uiName decodes the ui field of a file (see the package comment).
func uiName(f string) string {
	if f == "n" {
		return "SomeDxe"
	}
	name := gidOf(unBig(f[1:])).String()
	switch f[0] {
	case 'u':
		return strings.ToUpper(name)
	case 'l':
		return strings.ToLower(name)
	default:
		b := []byte(strings.ToLower(name))
		for i := 0; i < len(b); i += 2 {
			b[i] = strings.ToUpper(string(b[i]))[0]
		}
		return string(b)
	}
}

// uiSection is what Parse yields for a binary EFI_SECTION_USER_INTERFACE
// section carrying the name (UCS-2, NUL terminated).
func uiSection(field string) *uefi.Section {
	name := uiName(field)
	body := []byte{}
	for _, c := range name {
		body = append(body, byte(c), 0)
	}
	body = append(body, 0, 0)
	size := 4 + len(body)
	buf := append([]byte{byte(size), byte(size >> 8), byte(size >> 16), byte(uefi.SectionTypeUserInterface)}, body...)
	sec, err := uefi.NewSection(buf, 0)
	if err != nil {
		panic("harness: cannot build UI section: " + err.Error())
	}
	if sec.Name != name {
		panic("harness: UI section name " + sec.Name + " != " + name)
	}
	return sec
}

// parser of the tree syntax: vols := vol ('/' vol)*; vol := ” | file (',' file)*;
// file := guid.type.size[.ui] ['<' vols '>' | '{' vols '}' | '(' vols ')']
type parser struct {
	s   string
	pos int
}

func (p *parser) peek() byte {
	if p.pos < len(p.s) {
		return p.s[p.pos]
	}
	return 0
}

func (p *parser) vols() []*uefi.FirmwareVolume {
	var r []*uefi.FirmwareVolume
	for {
		r = append(r, p.vol())
		if p.peek() != '/' {
			return r
		}
		p.pos++
	}
}

func (p *parser) vol() *uefi.FirmwareVolume {
	fv := &uefi.FirmwareVolume{}
	if c := p.peek(); c == 0 || c == '/' || c == '>' || c == '}' || c == ')' {
		return fv
	}
	for {
		fv.Files = append(fv.Files, p.file())
		if p.peek() != ',' {
			return fv
		}
		p.pos++
	}
}

func (p *parser) file() *uefi.File {
	start := p.pos
	for c := p.peek(); c != 0 && !strings.ContainsRune(",/<>{}()", rune(c)); c = p.peek() {
		p.pos++
	}
	fld := strings.Split(p.s[start:p.pos], ".")
	f := &uefi.File{}
	f.Header.GUID = gidOf(unBig(fld[0]))
	f.Header.Type = uefi.FVFileType(UnN(fld[1]))
	f.Header.ExtendedSize = UnN(fld[2])
	f.Type = f.Header.Type.String()
	if len(fld) > 3 { // the UI section comes first (Find lists the file before anything nested in it)
		f.Sections = append(f.Sections, uiSection(fld[3]))
	}
	if open := p.peek(); open == '<' || open == '{' || open == '(' {
		p.pos++
		var images []*uefi.Section
		for _, fv := range p.vols() { // one FIRMWARE_VOLUME_IMAGE section per nested volume
			images = append(images, mkSection(uefi.SectionTypeFirmwareVolumeImage, fv))
		}
		switch open {
		case '<': // directly in the file
			f.Sections = append(f.Sections, images...)
		case '{': // raw section + the images inside one GUID-defined section
			kids := []uefi.Firmware{mkSection(uefi.SectionTypeRaw)}
			for _, im := range images {
				kids = append(kids, im)
			}
			f.Sections = append(f.Sections, mkSection(uefi.SectionTypeGUIDDefined, kids...))
		default: // compression section > GUID-defined section > the images
			var kids []uefi.Firmware
			for _, im := range images {
				kids = append(kids, im)
			}
			f.Sections = append(f.Sections,
				mkSection(uefi.SectionTypeCompression, mkSection(uefi.SectionTypeGUIDDefined, kids...)))
		}
		if p.peek() != map[byte]byte{'<': '>', '{': '}', '(': ')'}[open] {
			panic("bad tree in case file: missing closing bracket")
		}
		p.pos++
	}
	return f
}

// a section of the given type encapsulating the given nodes
func mkSection(t uefi.SectionType, kids ...uefi.Firmware) *uefi.Section {
	sec := &uefi.Section{}
	sec.Header.Type = t
	sec.Type = t.String()
	for _, k := range kids {
		sec.Encapsulated = append(sec.Encapsulated, uefi.MakeTyped(k))
	}
	return sec
}

func buildTree(s string) *tree {
	t := &tree{}
	kind := byte(0)
	if len(s) >= 2 && s[1] == '!' {
		kind, s = s[0], s[2:]
	}
	var fvs []*uefi.FirmwareVolume
	if s != "-" {
		p := &parser{s: s}
		fvs = p.vols()
		if p.pos != len(s) {
			panic("bad tree in case file: " + s)
		}
	}
	switch kind {
	case 0:
		br := &uefi.BIOSRegion{}
		for _, fv := range fvs {
			br.Elements = append(br.Elements, uefi.MakeTyped(fv))
		}
		t.root, t.fvs = br, fvs
	case 'I':
		br := &uefi.BIOSRegion{}
		for _, fv := range fvs {
			br.Elements = append(br.Elements, uefi.MakeTyped(&uefi.BIOSPadding{}), uefi.MakeTyped(fv))
		}
		br.Elements = append(br.Elements, uefi.MakeTyped(&uefi.BIOSPadding{}))
		t.root = &uefi.FlashImage{Regions: []*uefi.TypedFirmware{uefi.MakeTyped(&uefi.RawRegion{}), uefi.MakeTyped(br)}}
		t.fvs = fvs
	case 'V':
		t.root, t.fvs = fvs[0], fvs[:1]
	case 'X':
		fv := parsedVolume(fvs[0])
		t.root, t.fvs = fv, []*uefi.FirmwareVolume{fv}
	case 'F':
		f := fvs[0].Files[0]
		t.root, t.fvs = f, nestedVols(f)
	case 'S':
		sec := &uefi.Section{}
		sec.Header.Type = uefi.SectionTypeGUIDDefined
		for _, fv := range fvs {
			sec.Encapsulated = append(sec.Encapsulated, uefi.MakeTyped(fv))
		}
		t.root, t.fvs = sec, fvs
	default:
		panic("bad tree kind in case file")
	}
	t.orig = t.snap()
	return t
}

// specOf turns a volume built in code into the reference grammar's description
// (sizes come out of the serialiser, the ones in the case are ignored).
func specOf(fv *uefi.FirmwareVolume, depth int) *uefigen.Vol {
	v := &uefigen.Vol{FSGUID: uefigen.FFS2, Attrs: 0x800 | 0x4FEFF, Revision: 2, BlockSize: 64}
	if depth > 0 {
		v.BlockSize = 16
	}
	for _, f := range fv.Files {
		sf := &uefigen.File{GUID: f.Header.GUID, Type: byte(f.Header.Type), State: 0xF8, Secs: []*uefigen.Sec{}}
		for _, sec := range f.Sections {
			if sec.Header.Type == uefi.SectionTypeUserInterface {
				var b []byte
				for _, c := range sec.Name {
					b = append(b, byte(c), 0)
				}
				sf.Secs = append(sf.Secs, &uefigen.Sec{Type: 0x15, Body: append(b, 0, 0)})
			}
		}
		for _, k := range nestedVols(f) {
			sf.Secs = append(sf.Secs, &uefigen.Sec{Type: 0x17, Vol: specOf(k, depth+1)})
		}
		sf.Secs = append(sf.Secs, &uefigen.Sec{Type: 0x19, Body: []byte{1, 2, 3, 4}})
		v.Files = append(v.Files, sf)
	}
	return v
}

func shape(s []*vnode) string {
	vols := make([]string, len(s))
	for i, v := range s {
		fs := make([]string, len(v.files))
		for j, n := range v.files {
			fs[j] = gidHex(n.f.Header.GUID) + "." + N(uint64(n.f.Header.Type))
			if len(n.kids) > 0 {
				fs[j] += "<" + shape(n.kids) + ">"
			}
		}
		vols[i] = strings.Join(fs, ",")
	}
	return strings.Join(vols, "/")
}

// parsedVolume serialises the volume, parses the bytes with uefi.Parse and
// returns the volume node of the parsed tree.
func parsedVolume(fv *uefi.FirmwareVolume) *uefi.FirmwareVolume {
	img, _ := uefigen.EmitVol(specOf(fv, 0))
	uefi.Attributes = uefi.ROMAttributes{ErasePolarity: 0xF0}
	root, err := uefi.Parse(img)
	if err != nil {
		panic("harness: uefi.Parse of the generated volume: " + err.Error())
	}
	br, ok := root.(*uefi.BIOSRegion)
	if !ok || len(br.Elements) != 1 {
		panic("harness: uefi.Parse did not give a region with one element")
	}
	got, ok := br.Elements[0].Value.(*uefi.FirmwareVolume)
	if !ok {
		panic("harness: parsed element is not a volume")
	}
	if a, b := shape([]*vnode{snapVol(got)}), shape([]*vnode{snapVol(fv)}); a != b {
		panic("harness: parsed tree " + a + " differs from the described tree " + b)
	}
	return got
}

// the volumes nested in a file, in section order
func nestedVols(f *uefi.File) []*uefi.FirmwareVolume {
	var r []*uefi.FirmwareVolume
	var sec func(s *uefi.Section)
	sec = func(s *uefi.Section) {
		for _, e := range s.Encapsulated {
			switch v := e.Value.(type) {
			case *uefi.FirmwareVolume:
				r = append(r, v)
			case *uefi.Section:
				sec(v)
			}
		}
	}
	for _, s := range f.Sections {
		sec(s)
	}
	return r
}

func snapVol(fv *uefi.FirmwareVolume) *vnode {
	v := &vnode{fv: fv}
	for _, f := range fv.Files {
		n := &fnode{f: f}
		for _, k := range nestedVols(f) {
			n.kids = append(n.kids, snapVol(k))
		}
		v.files = append(v.files, n)
	}
	return v
}

func (t *tree) snap() snapT {
	s := make(snapT, len(t.fvs))
	for i, fv := range t.fvs {
		s[i] = snapVol(fv)
	}
	return s
}

func showVols(s []*vnode) string {
	vols := make([]string, len(s))
	for i, v := range s {
		fs := make([]string, len(v.files))
		for j, n := range v.files {
			f := n.f
			fs[j] = gidHex(f.Header.GUID) + "." + N(uint64(f.Header.Type)) + "." + N(f.Header.ExtendedSize)
			if len(n.kids) > 0 {
				fs[j] += "<" + showVols(n.kids) + ">"
			}
		}
		vols[i] = strings.Join(fs, ",")
	}
	return strings.Join(vols, "/")
}

func showSnap(s snapT) string { return "[" + showVols(s) + "]" }

// same volume and file objects in the same order at every depth
func sameVols(a, b []*vnode) bool {
	if len(a) != len(b) {
		return false
	}
	for i := range a {
		if a[i].fv != b[i].fv || len(a[i].files) != len(b[i].files) {
			return false
		}
		for j := range a[i].files {
			if a[i].files[j].f != b[i].files[j].f || !sameVols(a[i].files[j].kids, b[i].files[j].kids) {
				return false
			}
		}
	}
	return true
}

func sameSnap(a, b snapT) int { // -1 = same, else the first differing top-level volume
	if len(a) != len(b) {
		return 0
	}
	for i := range a {
		if !sameVols(a[i:i+1], b[i:i+1]) {
			return i
		}
	}
	return -1
}

// s without every file whose GUID is in gs, at every depth (a file goes with
// everything nested in it)
func minusGuids(s []*vnode, gs map[guid.GUID]bool) snapT {
	r := make(snapT, len(s))
	for i, v := range s {
		nv := &vnode{fv: v.fv}
		for _, n := range v.files {
			if !gs[n.f.Header.GUID] {
				nv.files = append(nv.files, &fnode{f: n.f, kids: minusGuids(n.kids, gs)})
			}
		}
		r[i] = nv
	}
	return r
}

// pre-order over all files; descend(n) says whether to enter n's nested volumes
func walk(s []*vnode, visit func(n *fnode) (descend bool)) {
	for _, v := range s {
		for _, n := range v.files {
			if visit(n) {
				walk(n.kids, visit)
			}
		}
	}
}

func predOf(code uint64) visitors.FindPredicate {
	drv := visitors.FindFileTypePredicate(uefi.FVFileTypeDriver)
	switch code {
	case 0:
		return drv
	case 1:
		return func(f uefi.Firmware) bool {
			if f, ok := f.(*uefi.File); ok {
				return f.Header.Type == uefi.FVFileTypeDriver || f.Header.Type == uefi.FVFileTypePEIM
			}
			return false
		}
	case 2:
		return func(f uefi.Firmware) bool { _, ok := f.(*uefi.File); return ok }
	default:
		bl, err := visitors.FindFilePredicate(gidOf(big.NewInt(2)).String())
		if err != nil {
			panic(err)
		}
		return visitors.FindAndPredicate(drv, visitors.FindNotPredicate(bl))
	}
}

// candidate GUIDs = GUIDs of the files the predicate selects, in pre-order over
// all depths (computed here without the Find visitor)
func candidates(t *tree, p visitors.FindPredicate) []guid.GUID {
	var r []guid.GUID
	walk(t.orig, func(n *fnode) bool {
		if p(n.f) {
			r = append(r, n.f.Header.GUID)
		}
		return true
	})
	return r
}

// hypothesis of the theorems beyond "file objects are distinct": no PEIM file
// (which Remove pads instead of deleting) carries a candidate's GUID
func wfTree(t *tree, cands []guid.GUID) bool {
	cs := guidSet(cands)
	ok := true
	walk(t.orig, func(n *fnode) bool {
		if n.f.Header.Type == uefi.FVFileTypePEIM && cs[n.f.Header.GUID] {
			ok = false
		}
		return true
	})
	return ok
}

// hypothesis of the monotone theorem: every required GUID has an occurrence
// that is not nested in (or equal to) a file carrying a candidate GUID outside
// the required set
func reqSafe(t *tree, cands, req []guid.GUID) bool {
	rq := guidSet(req)
	bad := map[guid.GUID]bool{}
	for _, g := range cands {
		if !rq[g] {
			bad[g] = true
		}
	}
	safe := map[guid.GUID]bool{}
	walk(t.orig, func(n *fnode) bool {
		if bad[n.f.Header.GUID] {
			return false
		}
		safe[n.f.Header.GUID] = true
		return true
	})
	for _, g := range req {
		if !safe[g] {
			return false
		}
	}
	return true
}

// ---------- running the cleaner ----------

var errScripted = errors.New("scripted test error")

type call struct {
	g     guid.GUID // candidate announced by "Trying to remove"
	pre   snapT     // tree when the attempt was announced
	shown snapT     // tree shown to Test
	ok    bool      // what Test answered
	err   error
}

func (c *call) accepted() bool { return c.ok && c.err == nil }

type logHook struct {
	t      *tree
	curG   guid.GUID
	curPre snapT
}

func (h *logHook) Write(p []byte) (int, error) {
	s := string(p)
	if strings.HasPrefix(s, "Trying to remove ") {
		g, err := guid.Parse(strings.TrimSpace(strings.TrimPrefix(s, "Trying to remove ")))
		if err == nil {
			h.curG = *g
		}
		h.curPre = h.t.snap()
	}
	return len(p), nil
}

type runResult struct {
	err      error
	calls    []*call
	removals []guid.GUID
	final    snapT
}

func runCleaner(pol uint64, pc uint64, t *tree, test func(k int, t *tree) (bool, error)) *runResult {
	uefi.Attributes.ErasePolarity = byte(pol)
	h := &logHook{t: t}
	r := &runResult{}
	c := &visitors.DXECleaner{
		Predicate: predOf(pc),
		W:         h,
		Test: func(f uefi.Firmware) (bool, error) {
			ok, err := test(len(r.calls), t)
			r.calls = append(r.calls, &call{g: h.curG, pre: h.curPre, shown: t.snap(), ok: ok, err: err})
			return ok, err
		},
	}
	r.err = c.Run(t.root)
	r.removals = c.Removals
	r.final = t.snap()
	return r
}

func scripted(script string) func(int, *tree) (bool, error) {
	return func(k int, _ *tree) (bool, error) {
		code := byte('1')
		if script != "-" && k < len(script) {
			code = script[k]
		}
		switch code {
		case '0':
			return true, nil
		case '1':
			return false, nil
		case '2':
			return false, errScripted
		case '3':
			return true, context.Canceled
		case '4':
			return false, context.Canceled
		default:
			return true, errScripted
		}
	}
}

func present(t *tree, g guid.GUID) bool {
	found := false
	walk(t.snap(), func(n *fnode) bool {
		if n.f.Header.GUID == g {
			found = true
		}
		return true
	})
	return found
}

func reqList(s string) []guid.GUID {
	var r []guid.GUID
	if s != "-" {
		for _, x := range strings.Split(s, ",") {
			r = append(r, gidOf(unBig(x)))
		}
	}
	return r
}

func bootsIff(req []guid.GUID) func(int, *tree) (bool, error) {
	return func(_ int, t *tree) (bool, error) {
		for _, g := range req {
			if !present(t, g) {
				return false, nil
			}
		}
		return true, nil
	}
}

var errTable = [][2]string{
	{"size too small", "1"},
	{"erase polarity", "2"},
	{"found no DXEs", "3"},
	{"scripted test error", "4"},
}

func showRes(ok bool, err error) string {
	s := "f"
	if ok {
		s = "t"
	}
	switch {
	case err == nil:
		return s + "0"
	case err == context.Canceled:
		return s + "1"
	default:
		return s + "2"
	}
}

func obsClean(r *runResult) string {
	if r.err != nil {
		return ErrClass(r.err, errTable)
	}
	rem := make([]string, len(r.removals))
	for i, g := range r.removals {
		rem[i] = gidHex(g)
	}
	cs := make([]string, len(r.calls))
	for i, c := range r.calls {
		cs[i] = gidHex(c.g) + ":" + showSnap(c.shown) + ":" + showRes(c.ok, c.err)
	}
	return "ok img=" + showSnap(r.final) + " rem=[" + strings.Join(rem, ",") + "] calls=" + strings.Join(cs, ";")
}

// C clean pol pred img script
func opClean(a []string) string {
	t := buildTree(a[2])
	return obsClean(runCleaner(UnN(a[0]), UnN(a[1]), t, scripted(a[3])))
}

// C cleanmono pol pred img req
func opCleanMono(a []string) string {
	t := buildTree(a[2])
	return obsClean(runCleaner(UnN(a[0]), UnN(a[1]), t, bootsIff(reqList(a[3]))))
}

// selector of the Remove ops: g<guid> FindFileGUIDPredicate, r<guid> the `remove`
// command's regex on GUID strings and UI names, p<code> predOf(code)
func selPred(sel string) visitors.FindPredicate {
	switch sel[0] {
	case 'g':
		return visitors.FindFileGUIDPredicate(gidOf(unBig(sel[1:])))
	case 'r':
		p, err := visitors.FindFilePredicate(gidOf(unBig(sel[1:])).String())
		if err != nil {
			panic(err)
		}
		return p
	default:
		return predOf(UnN(sel[1:]))
	}
}

// C remove pol pad sel img k: Remove.Run, k calls of Undo, then Undo until nil
func opRemove(a []string) string {
	uefi.Attributes.ErasePolarity = byte(UnN(a[0]))
	t := buildTree(a[3])
	r := &visitors.Remove{Predicate: selPred(a[2]), Pad: a[1] == "1"}
	if err := r.Run(t.root); err != nil {
		return ErrClass(err, errTable)
	}
	sa := showSnap(t.snap())
	k := int(UnN(a[4]))
	for j := 0; j < k; j++ {
		r.Undo() // panics when nil, as in the cleaner
	}
	sb := showSnap(t.snap())
	n := k
	for r.Undo != nil {
		r.Undo()
		n++
	}
	return "ok a=" + sa + " n=" + N(uint64(n)) + " b=" + sb + " c=" + showSnap(t.snap())
}

// ---------- property oracles on the implementation ----------

// common part: build, check the theorems' hypothesis, run
func propRun(a []string, test func(int, *tree) (bool, error)) (*tree, *runResult, []guid.GUID, bool) {
	t, r, cands, wf := propRunAny(a, test)
	if !wf {
		return nil, nil, nil, false
	}
	return t, r, cands, true
}

// the same without demanding the well-formedness hypothesis: wf tells whether it holds
func propRunAny(a []string, test func(int, *tree) (bool, error)) (*tree, *runResult, []guid.GUID, bool) {
	t := buildTree(a[2])
	cands := candidates(t, predOf(UnN(a[1])))
	wf := wfTree(t, cands)
	r := runCleaner(UnN(a[0]), UnN(a[1]), t, test)
	return t, r, cands, wf
}

func guidSet(gs []guid.GUID) map[guid.GUID]bool {
	m := map[guid.GUID]bool{}
	for _, g := range gs {
		m[g] = true
	}
	return m
}

// P p_final: Run returned nil => tree = original minus exactly the reported GUIDs
// (same objects, same order), within (n+1)^2 tests
func pFinal(a []string) string {
	t, r, cands, wf := propRunAny(a, scripted(a[3]))
	if r.err != nil {
		return "skip"
	}
	if !wf {
		// a PEIM file shares a candidate's GUID (it is padded, not deleted): the
		// clause is only claimed for an empty report — nothing reported, nothing
		// changed (C11_nothing_reported_nothing_changed needs no hypothesis)
		if len(r.removals) != 0 {
			return "skip"
		}
		if v := sameSnap(r.final, t.orig); v >= 0 {
			return fmt.Sprintf("FAIL final-differs-from-report vol=%d after=peim-shares-guid reported=0", v)
		}
		return "ok"
	}
	if v := sameSnap(r.final, minusGuids(t.orig, guidSet(r.removals))); v >= 0 {
		last := "end"
		if n := len(r.calls); n > 0 && r.calls[n-1].err == context.Canceled {
			last = "cancel"
		}
		return fmt.Sprintf("FAIL final-differs-from-report vol=%d after=%s reported=%d", v, last, len(r.removals))
	}
	if n := len(cands); len(r.calls) > (n+1)*(n+1) {
		return "FAIL too-many-tests"
	}
	return "ok"
}

// P p_accepted: the report is the accepted tests in order, and each of those
// tests was shown the original minus the earlier reported removals and minus
// its candidate
func pAccepted(a []string) string {
	t, r, _, ok := propRun(a, scripted(a[3]))
	if !ok || r.err != nil {
		return "skip"
	}
	gone := map[guid.GUID]bool{}
	j := 0
	for k, c := range r.calls {
		if !c.accepted() {
			continue
		}
		if j >= len(r.removals) {
			return fmt.Sprintf("FAIL accepted-not-reported call=%d", k)
		}
		if r.removals[j] != c.g {
			return fmt.Sprintf("FAIL report-order call=%d", k)
		}
		gone[c.g] = true
		if v := sameSnap(c.shown, minusGuids(t.orig, gone)); v >= 0 {
			return fmt.Sprintf("FAIL accepted-on-another-image call=%d vol=%d", k, v)
		}
		j++
	}
	if j != len(r.removals) {
		return "FAIL reported-but-never-accepted"
	}
	return "ok"
}

// P p_undone: after a rejected test the tree is what it was before the removal
// (observed when the next attempt is announced, or at the end)
func pUndone(a []string) string {
	// no hypothesis on the tree: C11_reject_fully_undone holds from any state
	_, r, _, _ := propRunAny(a, scripted(a[3]))
	for k, c := range r.calls {
		if c.accepted() || (c.ok && c.err != context.Canceled) {
			continue // accepted, or (true, err): Run returned the error
		}
		what := "reject"
		var after snapT
		switch {
		case k+1 < len(r.calls):
			after = r.calls[k+1].pre
		case r.err == nil:
			after = r.final
		default:
			continue // Run ended with an error right after: no later observation point
		}
		if c.err == context.Canceled {
			what = "cancel"
		}
		if v := sameSnap(after, c.pre); v >= 0 {
			return fmt.Sprintf("FAIL %s-not-undone call=%d vol=%d", what, k, v)
		}
	}
	if len(r.calls) == 0 {
		return "skip"
	}
	return "ok"
}

// P p_unwind pol pad sel img: Remove.Run, then Undo until it is nil: the tree is
// the one it was given, same objects in the same order at every depth
// (C11_remove_unwind_identity: any predicate, pad mode or not, no hypothesis)
func pUnwind(a []string) string {
	uefi.Attributes.ErasePolarity = byte(UnN(a[0]))
	t := buildTree(a[3])
	r := &visitors.Remove{Predicate: selPred(a[2]), Pad: a[1] == "1"}
	if err := r.Run(t.root); err != nil {
		return "skip"
	}
	changed := sameSnap(t.snap(), t.orig) >= 0
	n := 0
	for r.Undo != nil {
		r.Undo()
		n++
	}
	if v := sameSnap(t.snap(), t.orig); v >= 0 {
		return fmt.Sprintf("FAIL remove-undo-not-identity vol=%d undos=%d pad=%s", v, n, a[1])
	}
	if changed && n == 0 {
		return "FAIL changed-without-undo"
	}
	return "ok"
}

// P p_mono pol pred img req: the tester boots iff every GUID of req is present,
// and every required GUID has an occurrence not nested in a candidate outside
// req (without nesting: the original boots) => every candidate outside req is
// reported and gone, nothing of req is reported, the result boots
func pMono(a []string) string {
	req := reqList(a[3])
	t0 := buildTree(a[2])
	if !reqSafe(t0, candidates(t0, predOf(UnN(a[1]))), req) {
		return "skip"
	}
	t, r, cands, ok := propRun(a, bootsIff(req))
	if !ok || len(cands) == 0 {
		return "skip"
	}
	if r.err != nil {
		return "FAIL error " + ErrClass(r.err, errTable)
	}
	rq := guidSet(req)
	rem := guidSet(r.removals)
	for _, g := range cands {
		if !rq[g] && (!rem[g] || present(t, g)) {
			return "FAIL candidate-outside-required-set-kept " + gidHex(g)
		}
	}
	for _, g := range r.removals {
		if rq[g] {
			return "FAIL required-reported " + gidHex(g)
		}
	}
	for _, g := range req {
		if !present(t, g) {
			return "FAIL required-gone " + gidHex(g)
		}
	}
	if v := sameSnap(r.final, minusGuids(t.orig, rem)); v >= 0 {
		return fmt.Sprintf("FAIL final-differs-from-report vol=%d", v)
	}
	return "ok"
}

// ---------- generators ----------

func fileStr(g uint64, typ uint64, size uint64) string { return N(g) + "." + N(typ) + "." + N(size) }

// GUID of the sampled trees' id g: 1..3 are tiny numbers, 4..6 have hex letters
// in their string so that the case variants of a UI name differ; 7 differs from
// 4 in its first byte only (all the others differ in the last byte only)
func gHex(g int) string {
	if g == 7 {
		return "b1b2c3d4e5f60718293a4b5c6d7e8f04"
	}
	if g >= 4 && g <= 6 {
		return "a1b2c3d4e5f60718293a4b5c6d7e8f0" + N(uint64(g))
	}
	return N(uint64(g))
}

// ui field naming GUID hex in a random case variant
func uiField(r *Rng, hex string) string { return string("ulm"[r.Intn(3)]) + hex }

// all file lists of length <= maxLen over GUID ids 1..ng (drivers, size 0x20)
func volumes(ng, maxLen int) []string {
	out := []string{""}
	prev := []string{""}
	for l := 1; l <= maxLen; l++ {
		var cur []string
		for _, p := range prev {
			for g := 1; g <= ng; g++ {
				s := fileStr(uint64(g), 7, 0x20)
				if p != "" {
					s = p + "," + s
				}
				cur = append(cur, s)
			}
		}
		out = append(out, cur...)
		prev = cur
	}
	return out
}

// every behaviour of an outcome stream that differs within maxLen tests:
// accept/reject prefixes not ending in a reject (the stream rejects once the
// script is over), optionally ended by a cancellation or a test error
func scripts(maxLen int) []string {
	var ar []string // all accept/reject words up to maxLen
	level := []string{""}
	ar = append(ar, "")
	for l := 1; l <= maxLen; l++ {
		var next []string
		for _, w := range level {
			next = append(next, w+"0", w+"1")
		}
		ar = append(ar, next...)
		level = next
	}
	var out []string
	for _, w := range ar {
		if w == "" {
			out = append(out, "-")
		} else if w[len(w)-1] == '0' {
			out = append(out, w)
		}
		if len(w) < maxLen {
			out = append(out, w+"4", w+"5")
		}
	}
	return out
}

// a random volume: files over GUID ids 1..ng; some files hold nested volumes
func randVol(r *Rng, ng, depth int, used map[int]bool) string {
	nf := r.Pick(0, 1, 1, 2, 2, 3, 4, 5)
	if depth > 0 {
		nf = r.Pick(0, 1, 1, 2, 2, 3)
	}
	fs := make([]string, nf)
	for j := range fs {
		g := r.Range(1, ng)
		typ := uint64(r.Pick(7, 7, 7, 7, 7, 7, 6, 2, 5, 0xB, 0xF0)) // 0xB: firmware volume image file
		size := uint64(r.Pick(0x20, 0x20, 0x20, 0x18, 0x40, 0x28, 0x17, 0))
		if typ == 0xF0 {
			fs[j] = "ffffffffffffffffffffffffffffffff.f0." + N(size)
			continue
		}
		fs[j] = gHex(g) + "." + N(typ) + "." + N(size)
		used[g] = true
		// a UI section: an ordinary name, or one that spells the GUID of
		// some file of the tree (possibly this one)
		if r.Chance(1, 6) {
			fs[j] += ".n"
		} else if r.Chance(1, 4) {
			fs[j] += "." + uiField(r, gHex(r.Range(1, ng)))
		}
		// FV-image sections: nested volumes, under drivers and other files
		if depth < 3 && (r.Chance(1, 5+3*depth) || typ == 0xB && r.Chance(2, 3)) {
			nk := r.Pick(1, 1, 1, 2)
			ks := make([]string, nk)
			for k := range ks {
				ks[k] = randVol(r, ng, depth+1, used)
			}
			// the FV-image sections directly in the file, or inside wrapping
			// sections (GUID-defined; compression > GUID-defined)
			br := r.Pick(0, 0, 0, 1, 1, 2)
			fs[j] += string("<{("[br]) + strings.Join(ks, "/") + string(">})"[br])
		}
	}
	return strings.Join(fs, ",")
}

// a random tree and the GUID ids used in it
func randImage(r *Rng) (string, []int) {
	nv := r.Pick(1, 2, 2, 3, 3, 4)
	ng := r.Range(1, 7)
	used := map[int]bool{}
	vols := make([]string, nv)
	for i := range vols {
		vols[i] = randVol(r, ng, 0, used)
	}
	var gs []int
	for g := 1; g <= 7; g++ {
		if used[g] {
			gs = append(gs, g)
		}
	}
	return strings.Join(vols, "/"), gs
}

// the tree string with everything inside <...> removed
func topLevel(img string) string {
	var b []byte
	d := 0
	for i := 0; i < len(img); i++ {
		switch img[i] {
		case '<', '{', '(':
			d++
		case '>', '}', ')':
			d--
		default:
			if d == 0 {
				b = append(b, img[i])
			}
		}
	}
	return string(b)
}

func randScript(r *Rng) string {
	n := r.Intn(14)
	if n == 0 {
		return "-"
	}
	b := make([]byte, n)
	for i := range b {
		b[i] = byte('0' + r.Pick(0, 0, 0, 0, 1, 1, 1, 1, 2, 2, 3, 4, 5))
		if i < n/2 && b[i] >= '3' { // keep terminal outcomes for the second half mostly
			b[i] = byte('0' + r.Pick(0, 1, 2))
		}
	}
	return string(b)
}

// a required set: mostly GUIDs that are present
func randReq(r *Rng, present []int) string {
	var xs []string
	for _, g := range present {
		if r.Chance(1, 3) {
			xs = append(xs, gHex(g))
		}
	}
	if r.Chance(1, 20) {
		xs = append(xs, "9")
	}
	if len(xs) == 0 {
		return "-"
	}
	return strings.Join(xs, ",")
}

func gen(r *Rng, tier string, emit Emit) {
	thorough := tier == "thorough"
	all := func(pol, pc, img, script string) {
		emit("C", "clean", pol, pc, img, script)
		emit("P", "p_final", pol, pc, img, script)
		emit("P", "p_accepted", pol, pc, img, script)
		emit("P", "p_undone", pol, pc, img, script)
	}
	// 1. exhaustive: two (thorough: also three) volumes of up to two files over
	// two GUIDs x every distinguishable outcome stream
	vs := volumes(2, 2)
	sc := scripts(4)
	if thorough {
		sc = scripts(8)
	}
	for _, v1 := range vs {
		for _, v2 := range vs {
			img := v1 + "/" + v2
			for _, s := range sc {
				all("ff", "0", img, s)
			}
			// the two kinds of test result the streams above do not contain: a
			// failed test that also reports an error (2: handled as a reject) and
			// a cancellation that comes with "booted" (3), first, after an accept
			// and before one
			for _, s := range []string{"3", "03", "2", "02", "20"} {
				all("ff", "0", img, s)
			}
			for _, req := range []string{"-", "1", "2", "1,2", "3"} {
				emit("C", "cleanmono", "ff", "0", img, req)
				emit("P", "p_mono", "ff", "0", img, req)
			}
		}
	}
	// 1b. user-interface names that spell a candidate's GUID string (upper, lower,
	// mixed case), on a non-candidate file or on another candidate, in the same
	// or in another volume: the cleaner removes by GUID, such a name must not
	// drag its file along; the `remove` command's predicate (sel r...) must
	const d1, aux = "a1b2c3d4e5f60718293a4b5c6d7e8f04", "f0f0f0f1e1e2d2d3c3c4b4b4b4b4b4b"
	sc1b := scripts(3)
	for _, c := range []string{"u", "l", "m"} {
		for _, at := range []string{"2", "7"} {
			a := aux + "." + at + ".20." + c + d1
			imgs := []string{
				d1 + ".7.20," + a + "/2.7.20",
				a + "," + d1 + ".7.20/2.7.20",
				d1 + ".7.20/" + a + ",2.7.20",
				d1 + ".7.20,2.7.20.n/" + a,
				d1 + ".7.20." + c + d1 + "," + aux + "." + at + ".20.n/2.7.20",
				d1 + ".7.20." + c + "2,2.7.20." + c + d1 + "/" + a,
			}
			for _, img := range imgs {
				for _, s := range sc1b {
					all("ff", "0", img, s)
				}
				for _, req := range []string{"-", aux, aux + ",2", d1, "2"} {
					emit("C", "cleanmono", "ff", "0", img, req)
					emit("P", "p_mono", "ff", "0", img, req)
				}
				for _, sel := range []string{"r" + d1, "g" + d1, "r2", "r" + aux} {
					for _, k := range []string{"0", "1", "2"} {
						emit("C", "remove", "ff", "0", sel, img, k)
					}
				}
			}
		}
	}
	// 1c. nesting: volumes inside FV-image sections of files — under a candidate
	// driver (removing it takes the nested drivers along; they stay candidates),
	// under a non-candidate, two levels deep, two volumes in one file, the same
	// GUID nested and outside, the same GUID last in a nested and an outer volume
	nested := []string{
		"1.7.20<2.7.20,3.7.20>,4.7.20/5.7.20",
		"8.2.20<1.7.20,2.7.20>/3.7.20",
		"1.7.20<2.7.20<3.7.20,1.7.20>,4.7.20>/3.7.20",
		"1.7.20<3.7.20,2.7.20>,3.7.20/5.7.20",
		"1.7.20<2.7.20,3.7.20>,3.7.20",
		"1.7.20<2.7.20/3.7.20,2.7.20>,4.7.20",
		"4.7.20,1.7.20<>/2.2.20<3.7.20<4.7.20>>",
		"1.7.20<2.6.20,3.7.20.u1>/2.7.20",
	}
	sc1c := scripts(4)
	if thorough {
		sc1c = scripts(7)
	}
	for _, img := range nested {
		for _, s := range sc1c {
			all("ff", "0", img, s)
		}
		for _, req := range []string{"-", "1", "1,5", "5", "2", "3", "1,3", "4", "2,8"} {
			emit("C", "cleanmono", "ff", "0", img, req)
			emit("P", "p_mono", "ff", "0", img, req)
			emit("C", "cleanmono", "ff", "2", img, req)
			emit("P", "p_mono", "ff", "2", img, req)
		}
		for _, sel := range []string{"g1", "g2", "g3", "r1", "p0"} {
			for _, pad := range []string{"0", "1"} {
				for _, k := range []string{"0", "1", "3"} {
					emit("C", "remove", "ff", pad, sel, img, k)
				}
			}
		}
	}
	// 1e. the same nesting with the FV-image sections inside wrapping sections, as
	// in every EDK2 image (DXE volume in a GUID-defined/LZMA section, possibly
	// inside a compression section): every bracket level wrapped the same way, and
	// mixed (outermost GUID-defined, next compression > GUID-defined, then direct)
	rewrap := func(img string, kinds string) string { // kinds: bracket kind per depth, last one repeats
		b := []byte(img)
		d := 0
		for i, c := range b {
			k := d
			if c == '>' {
				k = d - 1
			}
			if k >= len(kinds) {
				k = len(kinds) - 1
			}
			switch c {
			case '<':
				b[i] = "<{("[strings.IndexByte("<{(", kinds[k])]
				d++
			case '>':
				d--
				b[i] = ">})"[strings.IndexByte("<{(", kinds[k])]
			}
		}
		return string(b)
	}
	var wrapped []string
	for _, i := range []int{0, 1, 2, 3, 5, 6} {
		wrapped = append(wrapped, rewrap(nested[i], "{"))
	}
	wrapped = append(wrapped, rewrap(nested[0], "("), rewrap(nested[4], "("), rewrap(nested[2], "{(<"), rewrap(nested[6], "<{"),
		// the EDK2 layout itself: a volume-image file (type 0xb) holding the LZMA-wrapped DXE volume
		"8.b.20{1.7.20,2.7.20,3.7.20},4.7.20")
	sc1e := scripts(3)
	if thorough {
		sc1e = scripts(6)
	}
	for _, img := range wrapped {
		for _, s := range sc1e {
			all("ff", "0", img, s)
		}
		for _, req := range []string{"-", "1", "1,5", "5", "2", "3", "1,3", "4", "2,8"} {
			emit("C", "cleanmono", "ff", "0", img, req)
			emit("P", "p_mono", "ff", "0", img, req)
			emit("C", "cleanmono", "ff", "2", img, req)
			emit("P", "p_mono", "ff", "2", img, req)
		}
		for _, sel := range []string{"g1", "g2", "g3", "r1", "p0"} {
			for _, pad := range []string{"0", "1"} {
				for _, k := range []string{"0", "1", "3"} {
					emit("C", "remove", "ff", pad, sel, img, k)
				}
			}
		}
	}
	// 1d. other roots: the tree handed to the cleaner / to Remove is the volume
	// itself (built in code: V!, or the volume node of uefi.Parse's result: X!),
	// and for Remove also a file or a section
	sc1d := scripts(3)
	var roots []string
	for _, v := range vs {
		if v != "" {
			roots = append(roots, v)
		}
	}
	roots = append(roots, "1.7.20<2.7.20,3.7.20>,4.7.20", "8.2.20<1.7.20,2.7.20>,3.7.20",
		"1.7.20<3.7.20,2.7.20>,3.7.20", "1.7.20,2.2.20.u1<1.7.20>,3.6.20",
		"1.7.20{2.7.20,3.7.20},4.7.20", "8.2.20(1.7.20,2.7.20),3.7.20")
	for _, v := range roots {
		for _, s := range sc1d {
			all("ff", "0", "V!"+v, s)
			emit("P", "p_final", "ff", "0", "X!"+v, s)
			emit("P", "p_accepted", "ff", "0", "X!"+v, s)
			emit("P", "p_undone", "ff", "0", "X!"+v, s)
		}
		for _, req := range []string{"-", "1", "2", "1,3", "8"} {
			emit("C", "cleanmono", "ff", "0", "V!"+v, req)
			emit("P", "p_mono", "ff", "0", "V!"+v, req)
			emit("P", "p_mono", "ff", "0", "X!"+v, req)
		}
		for _, sel := range []string{"g1", "g2", "r1", "p0"} {
			for _, k := range []string{"0", "1", "2"} {
				emit("C", "remove", "ff", "0", sel, "V!"+v, k)
				emit("C", "remove", "ff", "1", sel, "S!"+v+"/"+v, k)
				emit("C", "remove", "ff", "0", sel, "F!1.7.20<"+v+"/2.7.20>", k)
			}
		}
	}
	for _, img := range []string{"1.7.20/1.7.20", "1.7.20,2.7.20/2.7.20,1.7.20", "/1.7.20,1.7.20", "1.7.20{2.7.20,3.7.20},4.7.20/3.7.20"} {
		for _, s := range sc1d {
			all("ff", "0", "I!"+img, s)
		}
		for _, req := range []string{"-", "1", "2", "1,3"} {
			emit("C", "cleanmono", "ff", "0", "I!"+img, req)
			emit("P", "p_mono", "ff", "0", "I!"+img, req)
		}
		for _, k := range []string{"0", "1", "2"} {
			emit("C", "remove", "ff", "0", "g1", "I!"+img, k)
		}
	}
	// 1f. a PEIM file carries the GUID of a candidate driver (Remove pads PEIM
	// files instead of deleting them): same volume before / after the driver,
	// another volume, twice, nested, volume root; every outcome on that GUID.
	// The hypothesis of the report theorems fails here; what is claimed without
	// it is checked: rejected / cancelled removals are undone, an empty report
	// means an untouched tree, Remove + Undo is the identity
	peim := []string{
		"1.6.20,3.2.20/1.7.20,2.7.20",
		"1.7.20,2.7.20/1.6.20,3.2.20",
		"1.6.20,1.7.20,2.7.20",
		"1.7.20,1.6.20",
		"1.6.28,2.6.20/1.7.20,1.6.40/2.7.20",
		"2.7.20<1.6.20,3.7.20>,1.7.20",
		"8.2.20<1.7.20>/1.6.20,2.7.20",
		"V!1.7.20,2.7.20,1.6.20",
	}
	sc1f := scripts(3)
	for _, img := range peim {
		for _, s := range sc1f {
			all("ff", "0", img, s)
		}
		all("0", "0", img, "1")
		all("f0", "0", img, "1") // CreatePadFile refuses: Run returns the error
		emit("C", "cleanmono", "ff", "0", img, "1")
		emit("C", "cleanmono", "ff", "0", img, "2")
		for _, sel := range []string{"g1", "g2", "p0", "p1", "r1"} {
			for _, pad := range []string{"0", "1"} {
				emit("P", "p_unwind", "ff", pad, sel, img)
				for _, k := range []string{"0", "1", "2"} {
					emit("C", "remove", "ff", pad, sel, img, k)
				}
			}
		}
	}
	for _, img := range nested {
		for _, sel := range []string{"g1", "g3", "p0", "p2"} {
			emit("P", "p_unwind", "ff", "0", sel, img)
			emit("P", "p_unwind", "ff", "1", sel, img)
		}
	}
	if thorough {
		vs3 := volumes(3, 2)
		sc3 := scripts(5)
		rr := r.Fork(3)
		for _, v1 := range vs3 {
			for _, v2 := range vs3 {
				for _, v3 := range []string{"", vs3[rr.Intn(len(vs3))], vs3[rr.Intn(len(vs3))]} {
					img := v1 + "/" + v2 + "/" + v3
					for _, s := range sc3 {
						emit("C", "clean", "ff", "0", img, s)
						emit("P", "p_final", "ff", "0", img, s)
					}
					emit("P", "p_accepted", "ff", "0", img, sc3[rr.Intn(len(sc3))])
					emit("P", "p_undone", "ff", "0", img, sc3[rr.Intn(len(sc3))])
					emit("P", "p_mono", "ff", "0", img, randReq(rr, []int{1, 2, 3}))
				}
			}
		}
	}
	// 2. sampled: more volumes, files and GUIDs, other file types (PEIM files are
	// padded, not deleted), other predicates, erase polarities, all six kinds of
	// test result
	n := 500
	if thorough {
		n = 20000
	}
	for it := 0; it < n; it++ {
		rr := r.Fork(uint64(it))
		img, used := randImage(rr)
		pol := N(uint64(rr.Pick(0xff, 0xff, 0xff, 0xff, 0, 0xf0)))
		pc := N(uint64(rr.Pick(0, 0, 0, 1, 2, 3)))
		if rr.Chance(1, 5) && !strings.Contains(topLevel(img), "/") { // the volume itself as root
			img = "V!" + img
		} else if rr.Chance(1, 8) { // a full flash image as root
			img = "I!" + img
		}
		all(pol, pc, img, randScript(rr))
		req := randReq(rr, used)
		emit("C", "cleanmono", pol, pc, img, req)
		emit("P", "p_mono", pol, pc, img, req)
		// Remove alone
		sel := "g" + gHex(rr.Range(1, 7))
		if len(used) > 0 && rr.Chance(3, 4) {
			sel = "g" + gHex(used[rr.Intn(len(used))])
		}
		if rr.Chance(1, 3) { // the `remove` command's predicate: GUID string or UI name
			sel = "r" + sel[1:]
		}
		if rr.Chance(1, 3) {
			sel = "p" + N(uint64(rr.Intn(4)))
		}
		if rr.Chance(1, 12) {
			sel = "gffffffffffffffffffffffffffffffff"
		}
		pad := "0"
		if rr.Chance(1, 3) {
			pad = "1"
		}
		emit("C", "remove", pol, pad, sel, img, N(uint64(rr.Pick(0, 0, 0, 1, 1, 1, 2, 6))))
		emit("P", "p_unwind", pol, pad, sel, img)
	}
	// 3. boundary: nothing to clean
	for _, img := range []string{"-", "", "/", "1.2.20", "1.6.20/1.6.20"} {
		all("ff", "0", img, "0")
		emit("C", "remove", "ff", "0", "g1", img, "0")
		emit("C", "remove", "ff", "0", "g1", img, "1")
	}
}

func main() {
	Register("clean", opClean)
	Register("cleanmono", opCleanMono)
	Register("remove", opRemove)
	Register("p_final", pFinal)
	Register("p_accepted", pAccepted)
	Register("p_undone", pUndone)
	Register("p_unwind", pUnwind)
	Register("p_mono", pMono)
	Main(gen)
}
