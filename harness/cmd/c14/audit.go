// c14, second part: observations and generator families added by the coverage audit of C14
// (entry points and value classes the first version did not reach):
//   - the image read through a plain io.ReadSeeker (copyBytesFrom instead of slicing), Table.GetEntries,
//     EntryHeaders.GetEntry, the JSON form of the entries
//   - the file-based entry points cmds/fittool uses: InjectTo / GetTableFrom / GetEntriesFrom /
//     Table.WriteToFirmwareImage on an *os.File (p_file), and the fittool commands themselves (p_fittool)
//   - injection of hand-made entries without RecalculateHeaders, including the two registered kinds the
//     package cannot recalculate (diagnostic ACM, TPM policy) (p_inject_raw)
//   - entry counts of 255..257 and 65535..65537 (second and third byte of the 24-bit count) (p_many)
//   - the JSON codecs of the header field types (Uint24, EntryVersion, TypeAndIsChecksumValid, Address64)
package main

import (
	"bytes"
	"encoding/binary"
	"encoding/json"
	"fmt"
	"io"
	"os"
	"strings"

	"github.com/linuxboot/fiano/cmds/fittool/commands/addrawheaders"
	fitinit "github.com/linuxboot/fiano/cmds/fittool/commands/init"
	"github.com/linuxboot/fiano/cmds/fittool/commands/removeheaders"
	"github.com/linuxboot/fiano/cmds/fittool/commands/setrawheaders"
	"github.com/linuxboot/fiano/cmds/fittool/commands/show"
	"github.com/linuxboot/fiano/pkg/intel/metadata/fit"
	fitconsts "github.com/linuxboot/fiano/pkg/intel/metadata/fit/consts"
	. "verifharness/common"
)

func unsupportedKind(k int) bool { return k == 3 || k == 8 }

// entry_ok of the model: the Go type is the one the type id selects and the data is what GetEntries
// will slice out for these headers (data_rule)
func entryOK(k int, h *fit.EntryHeaders, d []byte) bool {
	t := int(h.Type())
	if regTypes[t] {
		if k != t {
			return false
		}
	} else if k != kUnknown {
		return false
	}
	n, sz := uint64(len(d)), uint64(h.Size.Uint32())
	switch k {
	case 0, 10, 3, 8:
		return n == 0
	case 9, 11, 12:
		return n == sz
	case 2:
		return n >= 28 && n < 1<<32 && uint32(n) == binary.LittleEndian.Uint32(d[24:28])<<2
	}
	return n == sz*16
}

// first_ok of the model
func firstOK(es fit.Entries) bool {
	if len(es) == 0 || kindOf(es[0]) != 0 {
		return false
	}
	h := &es[0].GetEntryBase().Headers
	return h.Address.Pointer() == binary.LittleEndian.Uint64([]byte(fitconsts.FITHeadersMagic)) &&
		int(h.Size.Uint32()) == len(es)
}

// entriesArgs without the error class of the two kinds the package refuses to size ("not supported,
// yet"): whether and how GetEntries reports that is not part of the property
func lenientArgs(es fit.Entries) string {
	var sb strings.Builder
	sb.WriteString(N(uint64(len(es))))
	for _, e := range es {
		a := entryArgs(e)
		if unsupportedKind(kindOf(e)) {
			a[len(a)-1] = "-"
		}
		sb.WriteByte(' ')
		sb.WriteString(strings.Join(a, " "))
	}
	return sb.String()
}

func sameHeaders(tb fit.Table, es fit.Entries) bool {
	if len(tb) != len(es) {
		return false
	}
	for i := range tb {
		if tb[i] != es[i].GetEntryBase().Headers {
			return false
		}
	}
	return true
}

// the same image through the other documented ways of reading it: a plain io.ReadSeeker (the package
// then copies the bytes, copyBytesFrom/readBytesFromReader, which is what happens on a file),
// Table.GetEntries and EntryHeaders.GetEntry.  All entries are compared after all of them were read.
func otherReaders(img []byte, tb fit.Table, got fit.Entries, want string) string {
	rtb, err := fit.GetTableFrom(bytes.NewReader(img))
	if err != nil {
		return "FAIL reader-gettable " + err.Error()
	}
	if !sameHeaders(rtb, got) {
		return "FAIL reader-table-differs"
	}
	res, err := fit.GetEntriesFrom(bytes.NewReader(img))
	if err != nil {
		return "FAIL reader-getentries " + err.Error()
	}
	if lenientArgs(res) != want {
		return "FAIL reader-entries-differ"
	}
	if len(img) > 4<<20 || len(tb) > 4096 {
		return "" // the remaining variants only on inputs of moderate size (time)
	}
	if lenientArgs(rtb.GetEntriesFrom(bytes.NewReader(img))) != want {
		return "FAIL reader-table-entries-differ"
	}
	if lenientArgs(tb.GetEntries(img)) != want {
		return "FAIL table-getentries-differ"
	}
	if len(tb) <= 64 {
		var one fit.Entries
		for i := range tb {
			one = append(one, tb[i].GetEntry(img))
		}
		if lenientArgs(one) != want {
			return "FAIL header-getentry-differs"
		}
	}
	return ""
}

// The JSON form of the entries (what `fittool show --format json --include-data` prints): every entry is
// encoded, decoded again into a value of its own Go type (the package's own decoder), and must carry the
// same headers.  Only a silent change of the headers is a failure: an entry that cannot be encoded or
// decoded at all (e.g. because of its HeadersErrors, or because the JSON form of a kind is not meant to
// be read back) gives no verdict.  Startup ACM entries are left out: their MarshalJSON parses the ACM,
// which is outside C14.
func entriesJSON(got, es fit.Entries) string {
	var raw []json.RawMessage
	if jb, err := json.Marshal(got); err != nil || json.Unmarshal(jb, &raw) != nil || len(raw) != len(es) {
		return ""
	}
	for i := range raw {
		if k := kindOf(got[i]); k == 2 || k == 255 {
			continue
		}
		if h, ok := decodeEntryJSON(raw[i], kindOf(got[i])); ok && h != es[i].GetEntryBase().Headers {
			return "FAIL entries-json-headers " + N(uint64(i))
		}
	}
	return ""
}

func decodeEntryJSON(raw []byte, kind int) (h fit.EntryHeaders, ok bool) {
	defer func() {
		if recover() != nil {
			ok = false
		}
	}()
	e := newOfKind(kind)
	if err := json.Unmarshal(raw, e); err != nil {
		return h, false
	}
	return e.GetEntryBase().Headers, true
}

func firstDiff(a, b []byte) string {
	if len(a) != len(b) {
		return fmt.Sprintf("len %d/%d", len(a), len(b))
	}
	for i := range a {
		if a[i] != b[i] {
			return N(uint64(i))
		}
	}
	return "-"
}

func inRanges(k uint64, rs []rng) bool {
	for _, r := range rs {
		if k >= r.lo && k < r.hi {
			return true
		}
	}
	return false
}

func tempImage(content []byte) (dir, path string, err error) {
	dir, err = os.MkdirTemp("", "c14-")
	if err != nil {
		return "", "", err
	}
	path = dir + "/image.bin"
	return dir, path, os.WriteFile(path, content, 0o600)
}

// The file-based entry points (what cmds/fittool calls): InjectTo on an *os.File gives the image Inject
// gives on the byte slice; GetTableFrom / GetEntriesFrom on the file read the same table and entries;
// Table.WriteToFirmwareImage puts a changed table where the FIT pointer says, changes nothing else, and
// the table read back is the table written.
func fileChecks(orig, img []byte, off uint64, es fit.Entries, ranges []rng, want string) string {
	dir, path, err := tempImage(orig)
	if err != nil {
		return "skip"
	}
	defer os.RemoveAll(dir)
	f, err := os.OpenFile(path, os.O_RDWR, 0)
	if err != nil {
		return "skip"
	}
	defer f.Close()
	if err := es.InjectTo(f, off); err != nil {
		return "FAIL file-inject " + err.Error()
	}
	fb, _ := os.ReadFile(path)
	if !bytes.Equal(fb, img) {
		return "FAIL file-inject-differs " + firstDiff(fb, img)
	}
	tb, err := fit.GetTableFrom(f)
	if err != nil {
		return "FAIL file-gettable " + err.Error()
	}
	if !sameHeaders(tb, es) {
		return "FAIL file-table-differs"
	}
	got, err := fit.GetEntriesFrom(f)
	if err != nil {
		return "FAIL file-getentries " + err.Error()
	}
	if lenientArgs(got) != want {
		return "FAIL file-entries-differ"
	}
	// a changed table of the same length written back in place
	size := uint64(len(img))
	nt := append(fit.Table{}, tb...)
	if len(nt) > 1 {
		h := &nt[len(nt)-1]
		h.Address ^= 0xA5A5A5A55A5A5A5A
		h.Version ^= 0xFFFF
		h.Reserved++
		h.Checksum += 0x11
		h.Size.Value[1] ^= 0x80
	}
	nt[0].Version ^= 0x0101
	if s := writeTableCheck(f, path, nt, off, size); s != "" {
		return s
	}
	// one more entry, if the 16 bytes behind the table are free (what add_raw_headers does)
	grown := rng{off + 16*uint64(len(nt)), off + 16*uint64(len(nt)) + 16}
	free := grown.hi <= size
	for _, r := range ranges {
		if overlap(r, grown) {
			free = false
		}
	}
	if free && len(nt)+1 < 1<<24 {
		var h fit.EntryHeaders
		h.Address = fit.Address64(0x1122334455667788)
		h.TypeAndIsChecksumValid.SetType(fit.EntryTypeSkip)
		h.Version = 0x1000
		nt = append(nt, h)
		nt[0].Size.SetUint32(uint32(len(nt)))
		if s := writeTableCheck(f, path, nt, off, size); s != "" {
			return s + " (grown)"
		}
	}
	// one entry less (what remove_headers does)
	if len(nt) > 1 {
		nt = nt[:len(nt)-1]
		nt[0].Size.SetUint32(uint32(len(nt)))
		if s := writeTableCheck(f, path, nt, off, size); s != "" {
			return s + " (shrunk)"
		}
	}
	return ""
}

func writeTableCheck(f *os.File, path string, nt fit.Table, off, size uint64) string {
	before, _ := os.ReadFile(path)
	_, err := nt.WriteToFirmwareImage(f)
	if err != nil {
		return "FAIL write-table " + err.Error()
	}
	after, _ := os.ReadFile(path)
	if uint64(len(after)) != size {
		return "FAIL write-table-length"
	}
	for k := range after {
		if (uint64(k) < off || uint64(k) >= off+16*uint64(len(nt))) && after[k] != before[k] {
			return "FAIL write-table-modified-outside " + N(uint64(k))
		}
	}
	rtb, err := fit.GetTableFrom(f)
	if err != nil {
		return "FAIL write-table-gettable " + err.Error()
	}
	if len(rtb) != len(nt) {
		return "FAIL write-table-read-count"
	}
	for i := range nt {
		if rtb[i] != nt[i] {
			return "FAIL write-table-read-differs " + N(uint64(i))
		}
	}
	// and the same from the bytes
	btb, err := fit.GetTable(after)
	if err != nil || len(btb) != len(nt) {
		return "FAIL write-table-gettable-bytes"
	}
	for i := range nt {
		if btb[i] != nt[i] {
			return "FAIL write-table-bytes-differ " + N(uint64(i))
		}
	}
	return ""
}

// p_file: p_roundtrip plus the file-based entry points and the JSON form of the entries
func pFile(a []string) string {
	es, _ := argsEntries(a[2:])
	return roundTripOpt(UnH(a[0]), UnN(a[1]), es, rtOpts{recalc: true, files: true})
}

// p_inject_raw: entries with hand-made headers that satisfy entry_ok / first_ok (theorem
// C14_inject_read), injected without RecalculateHeaders; all registered kinds, including the two the
// package cannot recalculate
func pInjectRaw(a []string) string {
	es, _ := argsEntries(a[2:])
	return roundTripOpt(UnH(a[0]), UnN(a[1]), es, rtOpts{recalc: false, files: true})
}

// p_many: a table of n entries (the 24-bit entry count beyond one and two bytes), built here from
// small arguments: seed, n, placement
func pMany(a []string) string {
	r := NewRng(UnN(a[0]))
	n, mode := int(UnN(a[1])), UnN(a[2])
	if n < 3 || n > 1<<17 {
		return "skip"
	}
	const dataArea = 0x80
	tableLen := 16 * uint64(n)
	var off, size uint64
	endData := false
	switch mode % 3 {
	case 0: // the table ends where the FIT pointer starts
		off = dataArea
		size = off + tableLen + fitconsts.FITPointerOffset
	case 1: // the table ends where the FIT pointer starts, one data segment ends with the image
		off = dataArea
		size = off + tableLen + fitconsts.FITPointerOffset
		endData = true
	default:
		off = dataArea + uint64(r.Intn(64))
		size = off + tableLen + fitconsts.FITPointerOffset + uint64(r.Intn(4096))
	}
	img := filler(r, int(size))
	es := make(fit.Entries, 0, n)
	es = append(es, newOfKind(0))
	es[0].GetEntryBase().Headers = randHdr(r)
	noData := []int{127, 127, 1, 7, 16, 45, 47, 10, 9, 11, 12, kUnknown, 0}
	for i := 1; i < n; i++ {
		k := noData[r.Intn(len(noData))]
		e := newOfKind(k)
		b := e.GetEntryBase()
		b.Headers = randHdr(r)
		if k == kUnknown {
			b.Headers.TypeAndIsChecksumValid = fit.TypeAndIsChecksumValid(r.Pick(4, 5, 6, 0x0D, 0x11, 0x2E, 0x30, 0x7E) | r.Pick(0, 0x80))
		}
		es = append(es, e)
	}
	// two entries with data, one of them the last one
	put := func(i, k int, o uint64, d []byte) {
		e := newOfKind(k)
		b := e.GetEntryBase()
		b.Headers = randHdr(r)
		b.Headers.Address.SetOffset(o, size)
		b.DataSegmentBytes = d
		es[i] = e
	}
	put(1+r.Intn(n-2), 11, 0x40, r.Bytes(33))
	if endData {
		put(n-1, 1, size-32, r.Bytes(32))
	} else {
		put(n-1, 1, 0, r.Bytes(32))
	}
	return roundTripOpt(img, off, es, rtOpts{recalc: true})
}

// the JSON codecs of the header field types themselves (EntryHeaders.MarshalJSON goes through plain
// integers, so these methods are only reached when a field value is encoded on its own or inside
// another structure)
func jsonParts(h *fit.EntryHeaders) string {
	rt := func(in, out interface{}) error {
		b, err := json.Marshal(in)
		if err != nil {
			return err
		}
		return json.Unmarshal(b, out)
	}
	var s fit.Uint24
	if err := rt(h.Size, &s); err != nil || s != h.Size {
		return "FAIL json-uint24"
	}
	var v fit.EntryVersion
	if err := rt(h.Version, &v); err != nil || v != h.Version {
		return "FAIL json-version"
	}
	var t fit.TypeAndIsChecksumValid
	if err := rt(h.TypeAndIsChecksumValid, &t); err != nil || t != h.TypeAndIsChecksumValid {
		return "FAIL json-type-and-checksum-valid"
	}
	var ad fit.Address64
	if err := rt(h.Address, &ad); err != nil || ad != h.Address {
		return "FAIL json-address"
	}
	type parts struct {
		A fit.Address64
		S fit.Uint24
		V fit.EntryVersion
		T fit.TypeAndIsChecksumValid
		P *fit.Uint24
	}
	in := parts{h.Address, h.Size, h.Version, h.TypeAndIsChecksumValid, &h.Size}
	var out parts
	if err := rt(in, &out); err != nil || out.A != in.A || out.S != in.S || out.V != in.V || out.T != in.T ||
		out.P == nil || *out.P != h.Size {
		return "FAIL json-parts"
	}
	return ""
}

// ---- the fittool commands, driven the way the CLI drives them (Execute on a file) ----

// one step of a p_fittool program: 8 tokens  op n amode addr size type cv ck   ("x" = flag not given)
type ftStep struct {
	op            string
	n             uint
	amode         int // 0 none, 1 --address-pointer, 2 --address-offset
	addr          uint64
	size, typ, ck *uint64
	cv            *bool
}

func optU(s string) *uint64 {
	if s == "x" {
		return nil
	}
	v := UnN(s)
	return &v
}

func parseSteps(a []string) []ftStep {
	var st []ftStep
	for len(a) >= 8 {
		s := ftStep{op: a[0], n: uint(UnN(a[1])), amode: int(UnN(a[2])), addr: UnN(a[3]), size: optU(a[4]), typ: optU(a[5]), ck: optU(a[7])}
		if a[6] != "x" {
			b := a[6] == "1"
			s.cv = &b
		}
		st = append(st, s)
		a = a[8:]
	}
	return st
}

// does the header read back carry what the flags of add_raw_headers / set_raw_headers name?  Fields without
// a flag (and Version, Reserved, and the checksum unless --checksum is given) are the command's business.
func (s ftStep) agrees(got fit.EntryHeaders, imgSize uint64) bool {
	switch s.amode {
	case 1:
		if got.Address != fit.Address64(s.addr) {
			return false
		}
	case 2:
		if got.Address.Offset(imgSize) != s.addr {
			return false
		}
	}
	if s.size != nil && uint64(got.Size.Uint32()) != *s.size {
		return false
	}
	if s.cv != nil && got.IsChecksumValid() != *s.cv {
		return false
	}
	if s.typ != nil && uint64(got.Type()) != *s.typ {
		return false
	}
	if s.ck != nil && got.Checksum != uint8(*s.ck) {
		return false
	}
	return true
}

// the FIT header entry may legitimately be refreshed by a command (count, checksum, version): what has to
// stay is the magic and the type
func sameFirst(a, b fit.EntryHeaders) bool {
	return a.Address == b.Address && a.Type() == b.Type()
}

func u8p(p *uint64) *uint8 {
	if p == nil {
		return nil
	}
	v := uint8(*p)
	return &v
}
func u32p(p *uint64) *uint32 {
	if p == nil {
		return nil
	}
	v := uint32(*p)
	return &v
}

func captureStdout(fn func() error) ([]byte, error) {
	tmp, err := os.CreateTemp("", "c14-out-")
	if err != nil {
		return nil, fn()
	}
	defer os.Remove(tmp.Name())
	old := os.Stdout
	os.Stdout = tmp
	err = func() error {
		defer func() { os.Stdout = old }()
		return fn()
	}()
	_, _ = tmp.Seek(0, io.SeekStart)
	out, _ := io.ReadAll(tmp)
	tmp.Close()
	return out, err
}

// p_fittool: image, table offset, init mode (0 = --pointer-from-offset, 1 = --pointer), then steps.
// Expectation = the library-level meaning of the commands, and only where a command reports success (a
// command is free to refuse arguments): init injects the list [FIT header entry] at the offset (pointer
// designates it, magic, count 1, nothing else modified); add/set/remove re-write the table found through
// the pointer: afterwards the table can be read, its first entry carries the magic and the entry count,
// the entries the command did not name are the ones that were there, in order, the named entry carries
// the fields given by the flags, and no byte outside the (old or new) table is modified; show --format
// json, where its output is a JSON table the package decodes, shows the headers GetTable returns.
func pFittool(a []string) string {
	orig := UnH(a[0])
	off := UnN(a[1])
	initMode := UnN(a[2])
	steps := parseSteps(a[3:])
	size := uint64(len(orig))
	if size < fitconsts.FITPointerOffset {
		return "skip"
	}
	ptr := rng{size - fitconsts.FITPointerOffset, size - fitconsts.FITPointerOffset + 8}
	fits := func(n int) bool {
		t := rng{off, off + 16*uint64(n)}
		return t.hi >= t.lo && t.hi <= size && !overlap(t, ptr)
	}
	if !fits(1) {
		return "skip"
	}
	dir, path, err := tempImage(orig)
	if err != nil {
		return "skip"
	}
	defer os.RemoveAll(dir)
	ic := &fitinit.Command{UEFIPath: path}
	if initMode == 0 {
		ic.PointerFromOffset = &off
	} else {
		p := fit.CalculatePhysAddrFromOffset(off, size)
		ic.Pointer = &p
	}
	if err := ic.Execute(nil); err != nil {
		return "skip" // the command refused: nothing was promised
	}
	img, _ := os.ReadFile(path)
	if uint64(len(img)) != size {
		return "FAIL init-length"
	}
	for k := range img {
		if img[k] != orig[k] && !inRanges(uint64(k), []rng{ptr, {off, off + 16}}) {
			return "FAIL init-modified-outside " + N(uint64(k))
		}
	}
	if fit.CalculateOffsetFromPhysAddr(binary.LittleEndian.Uint64(img[ptr.lo:]), size) != off {
		return "FAIL init-pointer"
	}
	if !bytes.Equal(img[off:off+8], []byte(fitconsts.FITHeadersMagic)) {
		return "FAIL init-magic"
	}
	es, err := fit.GetEntries(img)
	if err != nil || len(es) != 1 || kindOf(es[0]) != 0 || es[0].GetEntryBase().Headers.Size.Uint32() != 1 ||
		len(es[0].GetEntryBase().DataSegmentBytes) != 0 {
		return "FAIL init-entries"
	}
	table, err := fit.GetTable(img)
	if err != nil || len(table) != 1 {
		return "FAIL init-table"
	}
	for si, s := range steps {
		tag := fmt.Sprintf(" step%d-%s", si, s.op)
		before, _ := os.ReadFile(path)
		var runErr error
		switch s.op {
		case "add":
			if !fits(len(table)+1) || (s.typ != nil && *s.typ >= 0x80) || (s.size != nil && *s.size >= 1<<24) {
				return "ok" // no room for this step: what was checked so far held
			}
			c := &addrawheaders.Command{UEFIPath: path, Size: u32p(s.size), Type: u8p(s.typ), IsChecksumValid: s.cv, Checksum: u8p(s.ck)}
			if s.amode == 1 {
				c.AddressPointer = &s.addr
			} else if s.amode == 2 {
				c.AddressOffset = &s.addr
			}
			runErr = c.Execute(nil)
		case "set":
			if s.n == 0 || s.n > 64 || !fits(int(s.n)+1) || (s.typ != nil && *s.typ >= 0x80) || (s.size != nil && *s.size >= 1<<24) {
				return "ok"
			}
			c := &setrawheaders.Command{UEFIPath: path, EntryNumber: s.n, Size: u32p(s.size), Type: u8p(s.typ), IsChecksumValid: s.cv, Checksum: u8p(s.ck)}
			if s.amode == 1 {
				c.AddressPointer = &s.addr
			} else if s.amode == 2 {
				c.AddressOffset = &s.addr
			}
			runErr = c.Execute(nil)
		case "remove":
			if s.n == 0 || int(s.n) >= len(table) {
				return "ok"
			}
			runErr = (&removeheaders.Command{UEFIPath: path, EntryNumber: s.n}).Execute(nil)
		case "show", "showdata":
			fm := "json"
			inc := s.op == "showdata"
			out, err := captureStdout(func() error {
				return (&show.Command{UEFIPath: path, Format: &fm, IncludeData: &inc}).Execute(nil)
			})
			after, _ := os.ReadFile(path)
			if !bytes.Equal(after, before) {
				return "FAIL" + tag + "-modified-the-image " + firstDiff(after, before)
			}
			if err != nil {
				continue
			}
			if inc {
				var raw []json.RawMessage
				if json.Unmarshal(out, &raw) != nil || len(raw) != len(table) {
					continue // not a JSON list the entries can be read from: no verdict
				}
				for i := range raw {
					k := kUnknown
					if regTypes[int(table[i].Type())] {
						k = int(table[i].Type())
					}
					if k == 2 {
						continue // the JSON form of a startup ACM entry parses the ACM: outside C14
					}
					if h, ok := decodeEntryJSON(raw[i], k); ok && h != table[i] {
						return "FAIL" + tag + "-differs " + N(uint64(i))
					}
				}
				continue
			}
			var shown fit.Table
			if json.Unmarshal(out, &shown) != nil || len(shown) != len(table) {
				continue
			}
			for i := range shown {
				if shown[i] != table[i] {
					return "FAIL" + tag + "-differs " + N(uint64(i))
				}
			}
			continue
		default:
			return "skip"
		}
		after, _ := os.ReadFile(path)
		if runErr != nil {
			// the command refused: nothing was promised
			return "ok"
		}
		if uint64(len(after)) != size {
			return "FAIL" + tag + "-length"
		}
		got, err := fit.GetTable(after)
		if err != nil {
			return "FAIL" + tag + "-gettable " + err.Error()
		}
		span := len(got)
		if len(table) > span {
			span = len(table)
		}
		for k := range after {
			if after[k] != before[k] && (uint64(k) < off || uint64(k) >= off+16*uint64(span)) {
				return "FAIL" + tag + "-modified-outside " + N(uint64(k))
			}
		}
		if len(got) == 0 || int(got[0].Size.Uint32()) != len(got) || !sameFirst(got[0], table[0]) {
			return "FAIL" + tag + "-first-entry"
		}
		switch s.op {
		case "add": // one additional entry, behind the ones that were there
			if len(got) != len(table)+1 {
				return "FAIL" + tag + "-count"
			}
			for i := 1; i < len(table); i++ {
				if got[i] != table[i] {
					return "FAIL" + tag + "-other-entry-changed " + N(uint64(i))
				}
			}
			if !s.agrees(got[len(got)-1], size) {
				return "FAIL" + tag + "-entry-differs " + N(uint64(len(got)-1))
			}
		case "set": // entry n carries the given fields; the other entries that were there are untouched
			if len(got) <= int(s.n) || len(got) < len(table) {
				return "FAIL" + tag + "-count"
			}
			for i := 1; i < len(table); i++ {
				if i != int(s.n) && got[i] != table[i] {
					return "FAIL" + tag + "-other-entry-changed " + N(uint64(i))
				}
			}
			if !s.agrees(got[s.n], size) {
				return "FAIL" + tag + "-entry-differs " + N(uint64(s.n))
			}
		case "remove": // the entries that were there, without entry n, in order
			if len(got) != len(table)-1 {
				return "FAIL" + tag + "-count"
			}
			for i := 1; i < len(got); i++ {
				w := table[i]
				if i >= int(s.n) {
					w = table[i+1]
				}
				if got[i] != w {
					return "FAIL" + tag + "-other-entry-changed " + N(uint64(i))
				}
			}
		}
		table = got
	}
	return "ok"
}

// ---- Table.WriteToFirmwareImage, compared with the model (write_table) ----

// memRWS: an io.ReadWriteSeeker over a byte slice with the semantics of
// github.com/xaionaro-go/bytesextra.ReadWriteSeeker (the type Inject uses and the model transcribes):
// Seek refuses positions outside [0,len]; Read/Write at the end are io.EOF; a write that does not fit is
// performed partially and reported as io.ErrShortWrite.  (The bytesextra type itself cannot be imported
// here without touching the shared go.mod.)
type memRWS struct {
	b   []byte
	pos int
}

func (m *memRWS) Seek(off int64, whence int) (int64, error) {
	var np int64
	switch whence {
	case io.SeekStart:
		np = off
	case io.SeekCurrent:
		np = int64(m.pos) + off
	case io.SeekEnd:
		np = int64(len(m.b)) + off
	}
	if np < 0 || np > int64(len(m.b)) {
		return int64(m.pos), fmt.Errorf("position %d outside of the buffer", np)
	}
	m.pos = int(np)
	return np, nil
}

func (m *memRWS) Read(p []byte) (int, error) {
	if m.pos >= len(m.b) {
		return 0, io.EOF
	}
	n := copy(p, m.b[m.pos:])
	m.pos += n
	return n, nil
}

func (m *memRWS) Write(p []byte) (int, error) {
	if m.pos >= len(m.b) {
		return 0, io.EOF
	}
	n := copy(m.b[m.pos:], p)
	m.pos += n
	if n < len(p) {
		return n, io.ErrShortWrite
	}
	return n, nil
}

func tableArgs(t fit.Table) []string {
	a := []string{N(uint64(len(t)))}
	for i := range t {
		a = append(a, hdrArgs(&t[i])...)
	}
	return a
}

func opWTable(a []string) string {
	img := append([]byte{}, UnH(a[0])...)
	n := int(UnN(a[1]))
	rest := a[2:]
	var t fit.Table
	for i := 0; i < n; i++ {
		var h fit.EntryHeaders
		h, rest = argsHdr(rest)
		t = append(t, h)
	}
	_, err := t.WriteToFirmwareImage(&memRWS{b: img})
	if err == nil {
		return "ok 0 " + H(img)
	}
	msg := err.Error()
	switch {
	case strings.Contains(msg, "unable to find the beginning of the FIT"):
		return ErrClass(err, tableErrs)
	case strings.Contains(msg, "unable to write headers #"):
		return "ok 3 " + H(img)
	case strings.Contains(msg, "unable to Seek("):
		return "ok 2 " + H(img)
	}
	return "err ?"
}

// ---- generators of the added families ----

func stepArgs(op string, n int, amode int, addr uint64, size, typ, cv, ck string) []string {
	return []string{op, N(uint64(n)), N(uint64(amode)), N(addr), size, typ, cv, ck}
}

func genAudit(r *Rng, tier string, n int, emit Emit) {
	// ---- hand-made entries injected as they are (all registered kinds) ----
	for it := 0; it < n/2; it++ {
		rr := r.Fork(uint64(5000 + it))
		p := layout(rr, true)
		size := uint64(len(p.img))
		for i, e := range p.es {
			b := e.GetEntryBase()
			k := kindOf(e)
			if k != kUnknown {
				b.Headers.TypeAndIsChecksumValid.SetType(fit.EntryType(k))
			}
			nd := len(b.DataSegmentBytes)
			switch k {
			case 0, 10, 3, 8:
				b.DataSegmentBytes = nil
			case 9, 11, 12:
				b.Headers.Size.SetUint32(uint32(nd))
			case 2:
				// Size stays random: the ACM describes itself
			default:
				b.Headers.Size.SetUint32(uint32(nd / 16))
			}
			if i == 0 {
				b.Headers.Address = fit.Address64(binary.LittleEndian.Uint64([]byte(fitconsts.FITHeadersMagic)))
				b.Headers.Size.SetUint32(uint32(len(p.es)))
			}
		}
		emit("P", "p_inject_raw", injectArgs(p.img, p.off, p.es)...)
		emit("C", "inject", injectArgs(p.img, p.off, p.es)...)
		img := append([]byte{}, p.img...)
		if p.es.Inject(img, p.off) == nil {
			emit("C", "getentries", H(img))
			// a second FIT injected into an image that already holds one, at another place
			q := layout(rr, false)
			if len(q.img) == len(img) {
				img2 := append([]byte{}, q.img...)
				qes := copyEntries(q.es)
				if func() (ok bool) {
					defer func() { _ = recover() }()
					return qes.RecalculateHeaders() == nil
				}() && qes.Inject(img2, q.off) == nil {
					emit("P", "p_reinject", H(img2), H(img), N(q.off))
				}
			}
		}
		_ = size
	}
	// ---- the table re-written in place (model: write_table) ----
	for it := 0; it < n/3; it++ {
		rr := r.Fork(uint64(9000 + it))
		p := layout(rr, false)
		es := copyEntries(p.es)
		if !func() (ok bool) {
			defer func() { _ = recover() }()
			return es.RecalculateHeaders() == nil
		}() {
			continue
		}
		img := append([]byte{}, p.img...)
		if es.Inject(img, p.off) != nil {
			continue
		}
		tb := es.Table()
		nt := append(fit.Table{}, tb...)
		switch rr.Intn(6) {
		case 0: // same length, headers changed
			for i := range nt {
				if rr.Chance(1, 2) {
					nt[i] = randHdr(rr)
				}
			}
		case 1, 2: // longer: up to and beyond the pointer, the data, the end of the image
			for k := rr.Pick(1, 1, 2, 3, 8, 40); k > 0; k-- {
				nt = append(nt, randHdr(rr))
			}
			nt[0].Size.SetUint32(uint32(len(nt)))
		case 3: // shorter
			nt = nt[:1+rr.Intn(len(nt))]
			nt[0].Size.SetUint32(uint32(len(nt)))
		case 4: // exactly as many entries as fit below the end of the image, and one more
			room := (len(img) - int(p.off)) / 16
			for len(nt) < room+rr.Intn(2) {
				nt = append(nt, randHdr(rr))
			}
			if len(nt) > 0 {
				nt[0].Size.SetUint32(uint32(len(nt)))
			}
		case 5: // the empty table
			nt = nil
		}
		emit("C", "wtable", append([]string{H(img)}, tableArgs(nt)...)...)
		// on an image without a (valid) FIT
		if rr.Chance(1, 4) {
			bad := append([]byte{}, img...)
			switch rr.Intn(3) {
			case 0:
				bad[int(p.off)+rr.Intn(8)] ^= 0x20
			case 1:
				copy(bad[len(bad)-0x40:], rr.Bytes(8))
			case 2:
				bad = rr.Bytes(rr.Pick(0, 0x3F, 0x40, 0x60))
			}
			emit("C", "wtable", append([]string{H(bad)}, tableArgs(nt)...)...)
		}
	}
	// ---- the smallest images: the FIT pointer at offset 0 .. 0x18, table and data behind it ----
	rt := r.Fork(8)
	for _, size := range []int{0x40, 0x40, 0x41, 0x47, 0x48, 0x4F, 0x50, 0x57, 0x58, 0x60} {
		reps := 2
		if tier == "thorough" {
			reps = 30
		}
		for i := 0; i < reps; i++ {
			rr := rt.Fork(uint64(size*100 + i))
			cnt := rr.Pick(1, 1, 2, 3)
			p := layoutSized(rr, false, cnt, size)
			emit("P", "p_roundtrip", injectArgs(p.img, p.off, p.es)...)
			emit("P", "p_file", injectArgs(p.img, p.off, p.es)...)
			es := copyEntries(p.es)
			if func() (ok bool) {
				defer func() { _ = recover() }()
				return es.RecalculateHeaders() == nil
			}() {
				emit("C", "inject", injectArgs(p.img, p.off, es)...)
				img := append([]byte{}, p.img...)
				_ = es.Inject(img, p.off)
				emit("C", "range", H(img))
				emit("C", "getentries", H(img))
				emit("P", "p_reinject", H(img), H(filler(rr, size)), N(p.off))
			}
		}
	}
	// ---- many entries ----
	rm := r.Fork(6)
	counts := []int{255, 256, 257, 0xFFFF, 0x10000}
	if tier == "thorough" {
		counts = append(counts, 0x10001)
		for i := 0; i < 12; i++ {
			counts = append(counts, rm.Pick(3, 16, 17, 0x1FF, 0x200, 0x1000, 0xFFFE, 0x10002, 0x1FFFF, 0x20000, 256+rm.Intn(70000)))
		}
	}
	for i, c := range counts {
		emit("P", "p_many", N(rm.U64()>>1), N(uint64(c)), N(uint64(i)))
	}
	// ---- the fittool commands ----
	nf := 40
	if tier == "thorough" {
		nf = 800
	}
	for it := 0; it < nf; it++ {
		rr := r.Fork(uint64(7000 + it))
		size := rr.Pick(0x40, 0x50, 0x100, 0x200, 0x400, 0x1000) + rr.Pick(0, 0, 1, 7, 16, 48)
		img := filler(rr, size)
		slots := 1 + rr.Intn(8)
		var off int
		switch rr.Intn(5) {
		case 0:
			off = 0
		case 1: // the table may grow up to the FIT pointer exactly
			off = size - 0x40 - 16*slots
		case 2: // behind the pointer, up to the end of the image
			off = size - 16*rr.Pick(1, 2, 3)
		default:
			off = rr.Intn(size)
		}
		if off < 0 {
			off = 0
		}
		args := []string{H(img), N(uint64(off)), N(uint64(rr.Intn(2)))}
		count := 1
		opt := func(v uint64, num, den int) string {
			if rr.Chance(num, den) {
				return N(v)
			}
			return "x"
		}
		field := func() (int, uint64, string, string, string, string) {
			amode := rr.Intn(3)
			addr := rr.U64() >> uint(rr.Intn(64))
			if amode == 2 {
				addr = uint64(rr.Intn(size + 2))
			}
			sz := opt(uint64(rr.Pick(0, 1, 0xFF, 0x100, 0xFFFF, 0x10000, 0xFFFFFF, rr.Intn(1<<24))), 2, 3)
			ty := opt(uint64(rr.Pick(0, 1, 2, 7, 0x0A, 0x0B, 0x2D, 0x7E, 0x7F, rr.Intn(128))), 2, 3)
			cv := "x"
			if rr.Chance(1, 2) {
				cv = fmt.Sprint(rr.Intn(2))
			}
			ck := opt(uint64(rr.Intn(256)), 1, 3)
			return amode, addr, sz, ty, cv, ck
		}
		for s := rr.Pick(2, 3, 5, 8); s > 0; s-- {
			switch rr.Intn(6) {
			case 0, 1:
				am, ad, sz, ty, cv, ck := field()
				args = append(args, stepArgs("add", 0, am, ad, sz, ty, cv, ck)...)
				count++
			case 2:
				am, ad, sz, ty, cv, ck := field()
				k := 1 + rr.Intn(count+1)
				args = append(args, stepArgs("set", k, am, ad, sz, ty, cv, ck)...)
				if k >= count {
					count = k + 1
				}
			case 3:
				if count > 1 {
					args = append(args, stepArgs("remove", 1+rr.Intn(count-1), 0, 0, "x", "x", "x", "x")...)
					count--
				}
			case 4:
				args = append(args, stepArgs("show", 0, 0, 0, "x", "x", "x", "x")...)
			case 5:
				args = append(args, stepArgs("showdata", 0, 0, 0, "x", "x", "x", "x")...)
			}
		}
		emit("P", "p_fittool", args...)
	}
}
