// c14: executor and generator for property C14 (pkg/intel/metadata/fit).
package main

import (
	"bytes"
	"encoding/binary"
	"encoding/json"
	"fmt"
	"strings"

	"github.com/linuxboot/fiano/pkg/intel/metadata/fit"
	fitconsts "github.com/linuxboot/fiano/pkg/intel/metadata/fit/consts"
	. "verifharness/common"
)

const kUnknown = 128

var allKinds = []int{0, 1, 2, 3, 7, 8, 9, 10, 11, 12, 16, 45, 47, 127, kUnknown}

func newOfKind(k int) fit.Entry {
	switch k {
	case 0:
		return &fit.EntryFITHeaderEntry{}
	case 1:
		return &fit.EntryMicrocodeUpdateEntry{}
	case 2:
		return &fit.EntrySACM{}
	case 3:
		return &fit.EntryDiagnosticACM{}
	case 7:
		return &fit.EntryBIOSStartupModuleEntry{}
	case 8:
		return &fit.EntryTPMPolicyRecord{}
	case 9:
		return &fit.EntryBIOSPolicyRecord{}
	case 10:
		return &fit.EntryTXTPolicyRecord{}
	case 11:
		return &fit.EntryKeyManifestRecord{}
	case 12:
		return &fit.EntryBootPolicyManifestRecord{}
	case 16:
		return &fit.EntryCSESecureBoot{}
	case 45:
		return &fit.EntryFeaturePolicyDeliveryRecord{}
	case 47:
		return &fit.EntryJMPDebugPolicy{}
	case 127:
		return &fit.EntrySkip{}
	case kUnknown:
		return &fit.EntryUnknown{}
	}
	panic("harness: bad kind")
}

func kindOf(e fit.Entry) int {
	switch e.(type) {
	case *fit.EntryFITHeaderEntry:
		return 0
	case *fit.EntryMicrocodeUpdateEntry:
		return 1
	case *fit.EntrySACM:
		return 2
	case *fit.EntryDiagnosticACM:
		return 3
	case *fit.EntryBIOSStartupModuleEntry:
		return 7
	case *fit.EntryTPMPolicyRecord:
		return 8
	case *fit.EntryBIOSPolicyRecord:
		return 9
	case *fit.EntryTXTPolicyRecord:
		return 10
	case *fit.EntryKeyManifestRecord:
		return 11
	case *fit.EntryBootPolicyManifestRecord:
		return 12
	case *fit.EntryCSESecureBoot:
		return 16
	case *fit.EntryFeaturePolicyDeliveryRecord:
		return 45
	case *fit.EntryJMPDebugPolicy:
		return 47
	case *fit.EntrySkip:
		return 127
	case *fit.EntryUnknown:
		return kUnknown
	}
	return 255
}

// header <-> 6 tokens: addr size(3 bytes) rsvd ver tc cksum
func hdrArgs(h *fit.EntryHeaders) []string {
	return []string{N(uint64(h.Address)), H(h.Size.Value[:]), N(uint64(h.Reserved)), N(uint64(h.Version)),
		N(uint64(h.TypeAndIsChecksumValid)), N(uint64(h.Checksum))}
}

func argsHdr(a []string) (fit.EntryHeaders, []string) {
	var h fit.EntryHeaders
	h.Address = fit.Address64(UnN(a[0]))
	copy(h.Size.Value[:], UnH(a[1]))
	h.Reserved = uint8(UnN(a[2]))
	h.Version = fit.EntryVersion(UnN(a[3]))
	h.TypeAndIsChecksumValid = fit.TypeAndIsChecksumValid(UnN(a[4]))
	h.Checksum = uint8(UnN(a[5]))
	return h, a[6:]
}

func entryErrClass(e fit.Entry) uint64 {
	errs := e.GetEntryBase().HeadersErrors
	if len(errs) == 0 {
		return 0
	}
	msg := errs[0].Error()
	switch {
	case strings.Contains(msg, "unable to get data segment coordinates"):
		return 1
	case strings.Contains(msg, "unable to copy data segment bytes"):
		return 2
	}
	return 99
}

// entry <-> kind hdr(6) data err
func entryArgs(e fit.Entry) []string {
	b := e.GetEntryBase()
	a := []string{N(uint64(kindOf(e)))}
	a = append(a, hdrArgs(&b.Headers)...)
	return append(a, H(b.DataSegmentBytes), N(entryErrClass(e)))
}

func entriesArgs(es fit.Entries) []string {
	a := []string{N(uint64(len(es)))}
	for _, e := range es {
		a = append(a, entryArgs(e)...)
	}
	return a
}

func argsEntries(a []string) (fit.Entries, []string) {
	n := int(UnN(a[0]))
	a = a[1:]
	var es fit.Entries
	for i := 0; i < n; i++ {
		e := newOfKind(int(UnN(a[0])))
		h, rest := argsHdr(a[1:])
		b := e.GetEntryBase()
		b.Headers = h
		if d := UnH(rest[0]); len(d) > 0 {
			b.DataSegmentBytes = d
		}
		a = rest[2:]
		es = append(es, e)
	}
	return es, a
}

func showHdrs(t fit.Table) string {
	parts := []string{"ok", N(uint64(len(t)))}
	for i := range t {
		parts = append(parts, hdrArgs(&t[i])...)
	}
	return strings.Join(parts, " ")
}

func showEntries(es fit.Entries) string {
	return "ok " + strings.Join(entriesArgs(es), " ")
}

var tableErrs = [][2]string{
	{"invalid fit pointer bytes range", "1"},
	{"invalid the first entry bytes range", "2"},
	{"unable to parse the first entry", "3"},
	{"in the firmware", "3"},
	{"was expected as the Address value", "4"},
	{"invalid entries bytes range", "5"},
	{"unable to parse FIT", "6"},
}

func injectClass(err error) uint64 {
	if err == nil {
		return 0
	}
	msg := err.Error()
	switch {
	case strings.Contains(msg, "to write FIT pointer"):
		return 1
	case strings.Contains(msg, "unable to write FIT pointer"):
		return 2
	case strings.Contains(msg, "headers to offset"):
		return 4
	case strings.Contains(msg, "to write headers"):
		return 3
	case strings.Contains(msg, "unable to write the data section"):
		return 6
	case strings.Contains(msg, "to write the data section"):
		return 5
	}
	return 99
}

var recalcErrs = [][2]string{
	{"is not supported, yet", "1"},
	{"the first entry is not a EntryFITHeaderEntry", "2"},
}

// ---- C operations ----

func opPhys(a []string) string {
	return "ok " + N(fit.CalculatePhysAddrFromOffset(UnN(a[0]), UnN(a[1])))
}
func opOffs(a []string) string {
	return "ok " + N(fit.CalculateOffsetFromPhysAddr(UnN(a[0]), UnN(a[1])))
}
func opTail(a []string) string { return "ok " + N(fit.CalculateTailOffsetFromPhysAddr(UnN(a[0]))) }

func opHenc(a []string) string {
	h, _ := argsHdr(a)
	var buf bytes.Buffer
	if _, err := h.WriteTo(&buf); err != nil {
		return "err 1"
	}
	return "ok " + H(buf.Bytes())
}

func opHdec(a []string) string {
	h, err := fit.ParseEntryHeadersFrom(bytes.NewReader(UnH(a[0])))
	if err != nil {
		return "err 6"
	}
	return "ok " + strings.Join(hdrArgs(h), " ")
}

func opU24Set(a []string) string {
	var v fit.Uint24
	v.SetUint32(uint32(UnN(a[0])))
	return "ok " + H(v.Value[:])
}

func opU24Get(a []string) string {
	var v fit.Uint24
	copy(v.Value[:], UnH(a[0]))
	return "ok " + N(uint64(v.Uint32()))
}

func opSetType(a []string) string {
	f := fit.TypeAndIsChecksumValid(UnN(a[0]))
	f.SetType(fit.EntryType(UnN(a[1])))
	return "ok " + N(uint64(f))
}

func opSetCV(a []string) string {
	f := fit.TypeAndIsChecksumValid(UnN(a[0]))
	f.SetIsChecksumValid(a[1] == "1")
	return "ok " + N(uint64(f))
}

func opTcGet(a []string) string {
	f := fit.TypeAndIsChecksumValid(UnN(a[0]))
	cv := "0"
	if f.IsChecksumValid() {
		cv = "1"
	}
	return "ok " + N(uint64(f.Type())) + " " + cv
}

func opCksum(a []string) string {
	h, _ := argsHdr(a)
	return "ok " + N(uint64(h.CalculateChecksum()))
}

func opPTable(a []string) string {
	t, err := fit.ParseTable(UnH(a[0]))
	if err != nil {
		return ErrClass(err, tableErrs)
	}
	return showHdrs(t)
}

// GetHeadersTableRangeFrom is called on a bytes.Reader (the bytesextra type is
// not importable from here without touching go.mod); for this function the two
// reader types behave alike because the pointer range is checked before it is read.
func opRange(a []string) string {
	s, e, err := fit.GetHeadersTableRangeFrom(bytes.NewReader(UnH(a[0])))
	if err != nil {
		return ErrClass(err, tableErrs)
	}
	return "ok " + N(s) + " " + N(e)
}

func opGetTable(a []string) string {
	t, err := fit.GetTable(UnH(a[0]))
	if err != nil {
		return ErrClass(err, tableErrs)
	}
	return showHdrs(t)
}

func opGetEntries(a []string) string {
	es, err := fit.GetEntries(UnH(a[0]))
	if err != nil {
		return ErrClass(err, tableErrs)
	}
	return showEntries(es)
}

func opInject(a []string) string {
	img := append([]byte{}, UnH(a[0])...)
	off := UnN(a[1])
	es, _ := argsEntries(a[2:])
	err := es.Inject(img, off)
	return "ok " + N(injectClass(err)) + " " + H(img)
}

func opRecalc(a []string) string {
	es, _ := argsEntries(a)
	if err := es.RecalculateHeaders(); err != nil {
		return ErrClass(err, recalcErrs)
	}
	return showEntries(es)
}

// ---- property oracles on the implementation ----

// address <-> offset for an offset inside an image that ends at 4GiB
func pAddr(a []string) string {
	off, size := UnN(a[0]), UnN(a[1])
	if !(off < size && size <= fitconsts.BasePhysAddr) {
		return "skip"
	}
	addr := fit.CalculatePhysAddrFromOffset(off, size)
	if addr != fitconsts.BasePhysAddr-size+off {
		return "FAIL phys-addr " + N(addr)
	}
	if got := fit.CalculateOffsetFromPhysAddr(addr, size); got != off {
		return "FAIL offset-of-phys " + N(got)
	}
	if got := fit.CalculateTailOffsetFromPhysAddr(addr); got != size-off {
		return "FAIL tail-offset " + N(got)
	}
	var a64 fit.Address64
	a64.SetOffset(off, size)
	if a64.Pointer() != addr || a64.Offset(size) != off {
		return "FAIL address64"
	}
	// the other direction, for every address of the mapped range
	if got := fit.CalculatePhysAddrFromOffset(fit.CalculateOffsetFromPhysAddr(addr, size), size); got != addr {
		return "FAIL phys-of-offset " + N(got)
	}
	return "ok"
}

// headers: binary layout and binary round trip
func pHdrBin(a []string) string {
	h, _ := argsHdr(a)
	var buf bytes.Buffer
	n, err := h.WriteTo(&buf)
	if err != nil || n != 16 || buf.Len() != 16 {
		return "FAIL write"
	}
	b := buf.Bytes()
	if binary.LittleEndian.Uint64(b[0:8]) != h.Address.Pointer() || !bytes.Equal(b[8:11], h.Size.Value[:]) ||
		b[11] != h.Reserved || binary.LittleEndian.Uint16(b[12:14]) != uint16(h.Version) ||
		b[14] != uint8(h.TypeAndIsChecksumValid) || b[15] != h.Checksum {
		return "FAIL layout"
	}
	g, err := fit.ParseEntryHeadersFrom(bytes.NewReader(b))
	if err != nil {
		return "FAIL parse " + err.Error()
	}
	if *g != h {
		return "FAIL binary-roundtrip"
	}
	var s fit.Uint24
	s.SetUint32(h.Size.Uint32())
	if s != h.Size {
		return "FAIL uint24"
	}
	// the other binary encoder of the package: EntryHeaders.Write / Table.Write "write the headers in a
	// binary format to b".  Where they report success, what they put into b must decode to the headers.
	wb := bytes.Repeat([]byte{0xEE}, 16)
	if n, err := h.Write(wb); err == nil && n == 16 {
		if g, err := fit.ParseEntryHeadersFrom(bytes.NewReader(wb)); err != nil || *g != h {
			return "FAIL hdr-write-into-slice: EntryHeaders.Write(b) reported 16 bytes written, b does not hold the headers"
		}
	}
	h2 := h
	h2.Address ^= 0xFFFF
	tb := bytes.Repeat([]byte{0xEE}, 32)
	if n, err := (fit.Table{h, h2}).Write(tb); err == nil && n == 32 {
		if g, err := fit.ParseTable(tb); err != nil || len(g) != 2 || g[0] != h || g[1] != h2 {
			return "FAIL hdr-write-into-slice: Table.Write(b) reported 32 bytes written, b does not hold the table"
		}
	}
	return "ok"
}

// headers: JSON round trip (encoding/json is not modelled; this is the only check of it)
func pHdrJSON(a []string) string {
	h, _ := argsHdr(a)
	b, err := json.Marshal(h)
	if err != nil {
		return "FAIL marshal " + err.Error()
	}
	var g fit.EntryHeaders
	if err := json.Unmarshal(b, &g); err != nil {
		return "FAIL unmarshal " + err.Error()
	}
	if g != h {
		return "FAIL json-roundtrip " + string(b)
	}
	// and inside a table
	tb, err := json.Marshal(fit.Table{h, h})
	if err != nil {
		return "FAIL marshal-table"
	}
	var t fit.Table
	if err := json.Unmarshal(tb, &t); err != nil || len(t) != 2 || t[0] != h || t[1] != h {
		return "FAIL json-table-roundtrip"
	}
	// the field types' own JSON codecs
	if s := jsonParts(&h); s != "" {
		return s
	}
	return "ok"
}

type rng struct{ lo, hi uint64 } // [lo,hi)

func overlap(a, b rng) bool { return a.lo < b.hi && b.lo < a.hi }

// what data the caller may put into an entry of this kind (hypothesis shape_ok of
// the theorem C14_recalc_inject_read)
func shapeOK(k int, h *fit.EntryHeaders, d []byte) bool {
	n := len(d)
	switch k {
	case 0:
		return n == 0
	case 3, 8:
		return false // explicitly unsupported by the package
	case 10:
		return true
	case 9, 11, 12:
		return n < 1<<24
	case 2:
		return n >= 28 && uint32(n) == binary.LittleEndian.Uint32(d[24:28])<<2
	case kUnknown:
		if _, reg := regTypes[int(h.Type())]; reg {
			return false
		}
	}
	return n%16 == 0 && n < 1<<28
}

var regTypes = func() map[int]bool {
	m := map[int]bool{}
	for _, t := range fit.AllEntryTypes() {
		m[int(t)] = true
	}
	return m
}()

// RecalculateHeaders, Inject at off, GetEntries: same headers in order, same data,
// pointer designates the table, first entry = magic + count, nothing else modified.
func pRoundTrip(a []string) string {
	es, _ := argsEntries(a[2:])
	return roundTrip(UnH(a[0]), UnN(a[1]), es)
}

// p_big: the same oracle on an image of several MiB with one data segment of 64 KiB
// and more (Size field >= 0x10000 for the x16 kinds), built here from small
// arguments: seed, image size, kind of the big entry, its Size field value, placement.
func pBig(a []string) string {
	r := NewRng(UnN(a[0]))
	size, k, units, mode := UnN(a[1]), int(UnN(a[2])), UnN(a[3]), UnN(a[4])
	dataLen := units * 16
	if k == 9 || k == 11 || k == 12 {
		dataLen = units
	}
	if k == 2 {
		dataLen = units * 4 // the ACM's own size field, in units of 4 bytes
	}
	if units >= 1<<24 || size < dataLen+0x1000 || size > 64<<20 || (k == 2 && dataLen < 28) {
		return "skip"
	}
	img := r.Bytes(int(size))
	var dataOff, tableOff uint64
	switch mode % 3 {
	case 0: // data at the start of the image, the table right behind it
		dataOff, tableOff = 0, dataLen
	case 1: // data directly below the FIT pointer, the table near the start
		dataOff, tableOff = size-fitconsts.FITPointerOffset-dataLen, 0x100
	default:
		dataOff, tableOff = 0x800+uint64(r.Intn(256)), 16
	}
	big := newOfKind(k)
	bb := big.GetEntryBase()
	bb.Headers = randHdr(r)
	if k == kUnknown {
		bb.Headers.TypeAndIsChecksumValid = fit.TypeAndIsChecksumValid(0x55)
	}
	bb.Headers.Address.SetOffset(dataOff, size)
	bb.DataSegmentBytes = r.Bytes(int(dataLen))
	if k == 2 {
		binary.LittleEndian.PutUint32(bb.DataSegmentBytes[24:28], uint32(units)|uint32(mode/3%4)<<30)
	}
	small := newOfKind(127)
	small.GetEntryBase().Headers = randHdr(r)
	es := fit.Entries{newOfKind(0), big, small}
	return roundTrip(img, tableOff, es)
}

func roundTrip(orig []byte, off uint64, es fit.Entries) string {
	return roundTripOpt(orig, off, es, rtOpts{recalc: true})
}

// rtOpts: recalc = call RecalculateHeaders first (the entries then have to satisfy shape_ok), otherwise the
// entries are injected as they are and have to satisfy entry_ok / first_ok (theorem C14_inject_read);
// files = also run the file-based entry points (InjectTo / GetTableFrom / GetEntriesFrom /
// WriteToFirmwareImage on an *os.File, what cmds/fittool does) and the JSON form of the entries.
type rtOpts struct{ recalc, files bool }

func roundTripOpt(orig []byte, off uint64, es fit.Entries, opt rtOpts) string {
	if len(es) == 0 || kindOf(es[0]) != 0 || len(es) >= 1<<24 {
		return "skip"
	}
	var kb strings.Builder
	for _, e := range es {
		b := e.GetEntryBase()
		if opt.recalc && !shapeOK(kindOf(e), &b.Headers, b.DataSegmentBytes) {
			return "skip"
		}
		if !opt.recalc && !entryOK(kindOf(e), &b.Headers, b.DataSegmentBytes) {
			return "skip"
		}
		if len(es) < 64 {
			fmt.Fprintf(&kb, " k%d", kindOf(e))
		}
	}
	kinds := kb.String()
	if !opt.recalc && !firstOK(es) {
		return "skip"
	}
	var rerr error
	if opt.recalc {
		func() {
			defer func() {
				if r := recover(); r != nil {
					rerr = fmt.Errorf("panic: %v", r)
				}
			}()
			rerr = es.RecalculateHeaders()
		}()
	}
	if rerr != nil {
		if strings.Contains(rerr.Error(), "EntryUnknown is not known") {
			return "FAIL recalc-panics-on-unknown-entry"
		}
		return "FAIL recalc " + rerr.Error()
	}
	// layout hypothesis: pointer, table and data ranges inside the image, pairwise disjoint
	size := uint64(len(orig))
	if size < fitconsts.FITPointerOffset {
		return "skip"
	}
	ranges := []rng{{size - fitconsts.FITPointerOffset, size - fitconsts.FITPointerOffset + 8}, {off, off + 16*uint64(len(es))}}
	for _, e := range es {
		b := e.GetEntryBase()
		if len(b.DataSegmentBytes) == 0 {
			continue
		}
		o := b.Headers.Address.Offset(size)
		ranges = append(ranges, rng{o, o + uint64(len(b.DataSegmentBytes))})
	}
	for i, r := range ranges {
		if r.hi < r.lo || r.hi > size {
			return "skip"
		}
		for _, q := range ranges[:i] {
			if overlap(r, q) {
				return "skip"
			}
		}
	}
	want := []string{lenientArgs(es)} // headers after recalculation, data, kinds
	img := append([]byte{}, orig...)
	if err := es.Inject(img, off); err != nil {
		return "FAIL inject " + err.Error()
	}
	// confinement
	for k := range img {
		in := false
		for _, r := range ranges {
			if uint64(k) >= r.lo && uint64(k) < r.hi {
				in = true
			}
		}
		if !in && img[k] != orig[k] {
			return "FAIL modified-outside " + N(uint64(k))
		}
	}
	// pointer
	ptr := binary.LittleEndian.Uint64(img[size-fitconsts.FITPointerOffset:])
	if fit.CalculateOffsetFromPhysAddr(ptr, size) != off {
		return "FAIL pointer " + N(ptr)
	}
	s, e, err := fit.GetHeadersTableRangeFrom(bytes.NewReader(img))
	if err != nil || s != off || e != off+16*uint64(len(es)) {
		return "FAIL table-range"
	}
	// first entry
	if !bytes.Equal(img[off:off+8], []byte(fitconsts.FITHeadersMagic)) {
		return "FAIL magic"
	}
	tb, err := fit.GetTable(img)
	if err != nil {
		return "FAIL gettable " + err.Error()
	}
	if len(tb) != len(es) || int(tb[0].Size.Uint32()) != len(es) {
		return "FAIL count"
	}
	got, err := fit.GetEntries(img)
	if err != nil {
		return "FAIL getentries " + err.Error()
	}
	if len(got) != len(es) {
		return "FAIL entries-count"
	}
	for i := range got {
		if got[i].GetEntryBase().Headers != es[i].GetEntryBase().Headers {
			return "FAIL headers-differ " + N(uint64(i))
		}
		if kindOf(es[i]) == 2 && kindOf(got[i]) != 2 {
			return "FAIL sacm-entry-lost-its-type " + N(uint64(i))
		}
		if kindOf(got[i]) != kindOf(es[i]) {
			return "FAIL kind-differs " + N(uint64(i))
		}
		if !bytes.Equal(got[i].GetEntryBase().DataSegmentBytes, es[i].GetEntryBase().DataSegmentBytes) {
			return "FAIL data-differs " + N(uint64(i)) + kinds
		}
		if len(got[i].GetEntryBase().HeadersErrors) != 0 && !unsupportedKind(kindOf(es[i])) {
			return "FAIL headers-errors " + N(uint64(i))
		}
	}
	wantS := strings.Join(want, " ")
	if lenientArgs(got) != wantS {
		return "FAIL entries-differ"
	}
	// the other ways of reading the same image
	if s := otherReaders(img, tb, got, wantS); s != "" {
		return s
	}
	if opt.files {
		if s := entriesJSON(got, es); s != "" {
			return s
		}
		if s := fileChecks(orig, img, off, es, ranges, wantS); s != "" {
			return s
		}
	}
	return "ok"
}

// Inject without recalculation of entries that already satisfy entry_ok/first_ok
// (as GetEntries returns them): reading back gives the same entries, confined.
func pReinject(a []string) string {
	src := UnH(a[0])
	dst := UnH(a[1])
	off := UnN(a[2])
	es, err := fit.GetEntries(src)
	if err != nil || len(es) == 0 || len(dst) != len(src) || kindOf(es[0]) != 0 {
		return "skip"
	}
	size := uint64(len(dst))
	ranges := []rng{{size - fitconsts.FITPointerOffset, size - fitconsts.FITPointerOffset + 8}, {off, off + 16*uint64(len(es))}}
	for _, e := range es {
		b := e.GetEntryBase()
		if len(b.HeadersErrors) != 0 && kindOf(e) != 3 && kindOf(e) != 8 {
			return "skip"
		}
		if d := b.DataSegmentBytes; kindOf(e) == 2 && (len(d) < 28 || uint32(len(d)) != binary.LittleEndian.Uint32(d[24:28])<<2) {
			return "skip" // the ACM's size field must lie inside its own data (data_rule)
		}
		if len(b.DataSegmentBytes) == 0 {
			continue
		}
		o := b.Headers.Address.Offset(size)
		ranges = append(ranges, rng{o, o + uint64(len(b.DataSegmentBytes))})
	}
	for i, r := range ranges {
		if r.hi < r.lo || r.hi > size {
			return "skip"
		}
		for _, q := range ranges[:i] {
			if overlap(r, q) {
				return "skip"
			}
		}
	}
	// the data slices alias src; take copies before writing
	want := strings.Join(entriesArgs(es), " ")
	img := append([]byte{}, dst...)
	if err := es.Inject(img, off); err != nil {
		return "FAIL inject " + err.Error()
	}
	for k := range img {
		in := false
		for _, r := range ranges {
			if uint64(k) >= r.lo && uint64(k) < r.hi {
				in = true
			}
		}
		if !in && img[k] != dst[k] {
			return "FAIL modified-outside " + N(uint64(k))
		}
	}
	got, err := fit.GetEntries(img)
	if err != nil {
		return "FAIL getentries " + err.Error()
	}
	if strings.Join(entriesArgs(got), " ") != want {
		return "FAIL entries-differ"
	}
	// what was read, injected again where it was found (the entries' data are slices of this very
	// image): the pointer, the table and the data are written with the bytes they already hold
	if s, _, err := fit.GetHeadersTableRangeFrom(bytes.NewReader(src)); err == nil && layoutFree(src, s, es) {
		same := append([]byte{}, src...)
		es2, err := fit.GetEntries(same)
		if err != nil {
			return "FAIL getentries-again " + err.Error()
		}
		if err := es2.Inject(same, s); err != nil {
			return "FAIL inject-in-place " + err.Error()
		}
		if !bytes.Equal(same, src) {
			return "FAIL inject-in-place-changed " + firstDiff(same, src)
		}
	}
	return "ok"
}

// layout hypothesis for entries read from img with the table at off
func layoutFree(img []byte, off uint64, es fit.Entries) bool {
	size := uint64(len(img))
	if size < fitconsts.FITPointerOffset {
		return false
	}
	ranges := []rng{{size - fitconsts.FITPointerOffset, size - fitconsts.FITPointerOffset + 8}, {off, off + 16*uint64(len(es))}}
	for _, e := range es {
		b := e.GetEntryBase()
		if len(b.DataSegmentBytes) == 0 {
			continue
		}
		o := b.Headers.Address.Offset(size)
		ranges = append(ranges, rng{o, o + uint64(len(b.DataSegmentBytes))})
	}
	for i, r := range ranges {
		if r.hi < r.lo || r.hi > size {
			return false
		}
		for _, q := range ranges[:i] {
			if overlap(r, q) {
				return false
			}
		}
	}
	return true
}

// ---- generators ----

func randHdr(r *Rng) fit.EntryHeaders {
	var h fit.EntryHeaders
	switch r.Intn(4) {
	case 0:
		h.Address = fit.Address64(r.U64())
	case 1:
		h.Address = fit.Address64(0xFFFFFFFF - uint64(r.Intn(4096)))
	case 2:
		h.Address = fit.Address64(uint64(r.Pick(0, 1, 0xFFFFFFFF)) + uint64(r.Intn(3))<<32)
	case 3:
		h.Address = fit.Address64(^uint64(0) - uint64(r.Intn(3)))
	}
	copy(h.Size.Value[:], r.Bytes(3))
	if r.Chance(1, 3) {
		h.Size.Value = [3]byte{byte(r.Pick(0, 1, 0xFF)), byte(r.Pick(0, 0xFF)), byte(r.Pick(0, 0xFF))}
	}
	h.Reserved = uint8(r.Pick(0, 0, 1, 0xFF))
	h.Version = fit.EntryVersion(r.Pick(0, 1, 0x100, 0x1234, 0xFF, 0xFF00, 0xFFFF, r.Intn(0x10000)))
	h.TypeAndIsChecksumValid = fit.TypeAndIsChecksumValid(r.Intn(256))
	h.Checksum = uint8(r.Intn(256))
	return h
}

func filler(r *Rng, n int) []byte {
	b := r.Bytes(n)
	switch r.Intn(3) {
	case 0:
		for i := range b {
			b[i] = 0xFF
		}
	case 1:
		for i := range b {
			b[i] = 0
		}
	}
	return b
}

// dataFor returns data acceptable for kind k (shapeOK), about n bytes long
func dataFor(r *Rng, k int, n int) []byte {
	switch k {
	case 0:
		return nil
	case 3, 8:
		return nil
	case 10:
		if r.Bool() {
			return r.Bytes(n)
		}
		return nil
	case 9, 11, 12:
		return r.Bytes(n)
	case 2:
		n = (n + 3) &^ 3
		if n < 28 {
			n = 28
		}
		d := r.Bytes(n)
		binary.LittleEndian.PutUint32(d[24:28], uint32(n/4)|uint32(r.Pick(0, 0, 0, 1, 2, 3))<<30)
		return d
	}
	return r.Bytes(n &^ 15)
}

type plan struct {
	img []byte
	off uint64
	es  fit.Entries
}

// layout builds an entry list with data placed at pairwise disjoint offsets of an
// image (no recalculation yet; headers are otherwise random)
func layout(r *Rng, withUnsupported bool) plan {
	n := r.Pick(1, 1, 2, 3, 4, 6, 9)
	size := r.Pick(0x40, 0x50, 0x80, 0x100, 0x200, 0x400, 0x800)
	if size >= 0x100 {
		size += r.Intn(64)
	}
	for size < 0x40+16*n+8 {
		size *= 2
	}
	return layoutSized(r, withUnsupported, n, size)
}

// layoutSized: the same for a given entry count and image size (the caller makes sure that the table
// fits somewhere: 16*n <= size-0x40 or 16*n <= 0x38)
func layoutSized(r *Rng, withUnsupported bool, n, size int) plan {
	img := filler(r, size)
	// free list: everything except the pointer's 8 bytes
	type span struct{ lo, hi int }
	free := []span{{0, size - 0x40}, {size - 0x38, size}}
	take := func(n int, align int) (int, bool) {
		for try := 0; try < 20; try++ {
			i := r.Intn(len(free))
			s := free[i]
			if s.hi-s.lo < n {
				continue
			}
			lo := s.lo + r.Intn(s.hi-s.lo-n+1)
			if r.Chance(1, 3) {
				lo = s.lo // adjacent to its neighbour
			} else if r.Chance(1, 3) {
				lo = s.hi - n
			}
			_ = align
			free = append(free[:i], append([]span{{s.lo, lo}, {lo + n, s.hi}}, free[i+1:]...)...)
			return lo, true
		}
		return 0, false
	}
	off, ok := take(16*n, 1)
	if !ok && 16*n <= size-0x40 {
		// the table at the very start, the rest stays free
		off = 0
		free = []span{{16 * n, size - 0x40}, {size - 0x38, size}}
	} else if !ok {
		// the table directly behind the FIT pointer
		off = size - 0x38
		free = []span{{0, size - 0x40}, {off + 16*n, size}}
	}
	var es fit.Entries
	for i := 0; i < n; i++ {
		k := 0
		if i > 0 {
			k = allKinds[r.Intn(len(allKinds))]
			for !withUnsupported && (k == 3 || k == 8) {
				k = allKinds[r.Intn(len(allKinds))]
			}
			if k == 0 && r.Chance(3, 4) {
				k = 127
			}
		}
		e := newOfKind(k)
		b := e.GetEntryBase()
		b.Headers = randHdr(r)
		if k == kUnknown {
			t := r.Pick(4, 5, 6, 0x0D, 0x11, 0x2E, 0x30, 0x7E)
			b.Headers.TypeAndIsChecksumValid = fit.TypeAndIsChecksumValid(t | r.Pick(0, 0x80))
		}
		d := dataFor(r, k, r.Pick(0, 0, 16, 32, 48, 28, 33, 64, 100, 1, 15, 17, 255, 256, 257, 272))
		if len(d) > 0 {
			if o, ok := take(len(d), 1); ok {
				b.Headers.Address.SetOffset(uint64(o), uint64(size))
				b.DataSegmentBytes = d
			}
		}
		if k == 2 && len(b.DataSegmentBytes) == 0 {
			// an ACM without data cannot be described; use a skip entry instead
			e = newOfKind(127)
			e.GetEntryBase().Headers = b.Headers
		}
		es = append(es, e)
	}
	return plan{img: img, off: uint64(off), es: es}
}

func injectArgs(img []byte, off uint64, es fit.Entries) []string {
	return append([]string{H(img), N(off)}, entriesArgs(es)...)
}

func copyEntries(es fit.Entries) fit.Entries {
	c, _ := argsEntries(entriesArgs(es))
	return c
}

func gen(r *Rng, tier string, emit Emit) {
	n := 300
	if tier == "thorough" {
		n = 9000
	}
	// ---- address arithmetic ----
	ra := r.Fork(1)
	edge := []uint64{0, 1, 0x3F, 0x40, 0xFFF, 0x1000, 0x1000000, 0x7FFFFFFF, 0x80000000, 0xFFFFFFC0, 0xFFFFFFFF,
		0x100000000, 0x100000001, 0x7FFFFFFFFFFFFFFF, 0x8000000000000000, 0xFFFFFFFF00000000, 0xFFFFFFFFFFFFFFFF}
	val := func() uint64 {
		switch ra.Intn(3) {
		case 0:
			return edge[ra.Intn(len(edge))]
		case 1:
			return uint64(ra.Intn(1 << 26))
		}
		return ra.U64() >> uint(ra.Intn(64))
	}
	for i := 0; i < n; i++ {
		x, y := val(), val()
		emit("C", "phys", N(x), N(y))
		emit("C", "offs", N(x), N(y))
		emit("C", "tail", N(x))
		// inside an image that ends at 4GiB
		size := 1 + val()%0x100000000
		off := val() % size
		if ra.Chance(1, 4) {
			off = size - 1
		}
		emit("P", "p_addr", N(off), N(size))
		emit("C", "phys", N(off), N(size))
		emit("C", "offs", N(fit.CalculatePhysAddrFromOffset(off, size)), N(size))
	}
	// ---- headers, Uint24, type/C_V ----
	rh := r.Fork(2)
	for i := 0; i < n; i++ {
		h := randHdr(rh)
		emit("C", "henc", hdrArgs(&h)...)
		emit("C", "cksum", hdrArgs(&h)...)
		emit("P", "p_hdr_bin", hdrArgs(&h)...)
		emit("P", "p_hdr_json", hdrArgs(&h)...)
		b := rh.Bytes(rh.Pick(16, 16, 16, 0, 1, 15, 17, 32))
		emit("C", "hdec", H(b))
		emit("C", "ptable", H(rh.Bytes(rh.Pick(0, 16, 32, 48, 15, 17, 31, 160))))
		v := uint64(rh.Pick(0, 1, 0xFF, 0x100, 0xFFFF, 0x10000, 0xFFFFFE, 0xFFFFFF, 0x1000000, 0x1000001, 0xFFFFFFFF, rh.Intn(1<<24), rh.Intn(1<<30)))
		emit("C", "u24set", N(v))
		emit("C", "u24get", H(rh.Bytes(3)))
	}
	for tc := 0; tc < 256; tc++ {
		emit("C", "tcget", N(uint64(tc)))
		emit("C", "setcv", N(uint64(tc)), "0")
		emit("C", "setcv", N(uint64(tc)), "1")
		for _, t := range []int{0, 1, 2, 0x0A, 0x2D, 0x7E, 0x7F, 0x80, 0x81, 0xFF, rh.Intn(256)} {
			emit("C", "settype", N(uint64(tc)), N(uint64(t)))
		}
	}
	// ---- data segments of 64 KiB .. 16 MiB (24-bit Size field beyond 16 bits), built in the worker ----
	rb := r.Fork(3)
	bigCases := [][4]uint64{ // image size, kind, Size field, placement
		{2<<20 + 0x2000, 127, 0x10000, 0},
		{3 << 20, 1, 0x10002, 1},
		{4 << 20, kUnknown, 0x2FFFF, 2},
		{4 << 20, 7, 0x20000, 1},
		{2 << 20, 11, 0x10001, 0},
		{2 << 20, 12, 0xFFFFF, 2},
		{17 << 20, 16, 0xFFFFF, 0},
		// every kind with its own size rule at the 16-bit boundary of its size field
		{2 << 20, 9, 0x10000, 1},
		{2 << 20, 9, 0xFFFF, 2},
		{2 << 20, 11, 0xFFFF, 1},
		{2 << 20, 12, 0x10000, 0},
		{2 << 20, 45, 0xFFFF, 2},
		{2 << 20, 47, 0x10001, 0},
		{2 << 20, 2, 0x10000, 1},    // ACM of 256 KiB: size field 0x10000
		{2 << 20, 2, 0xFFFF, 2 + 3}, // ... with an alias bit above the 30 that count
		{2 << 20, 2, 0x4001, 0 + 6}, // 64 KiB + 4
	}
	if tier == "thorough" {
		for i := 0; i < 40; i++ {
			k := []int{1, 7, 16, 45, 47, 127, kUnknown, 9, 11, 12}[rb.Intn(10)]
			if i%8 == 7 {
				k = 2
			}
			units := uint64(rb.Pick(0x10000, 0x10001, 0xFFFF, 0x1FFFF, 0x20000, 0x30001, 0x10000+rb.Intn(0x30000)))
			n := units * 16
			if k == 9 || k == 11 || k == 12 {
				units = uint64(rb.Pick(0xFFFF, 0x10000, 0x10001, 0xFFFFFF, 0x100000+rb.Intn(0x300000)))
				n = units
			}
			if k == 2 {
				units = uint64(rb.Pick(0x3FFF, 0x4000, 0xFFFF, 0x10000, 0x10001, 0x40000, 0x4000+rb.Intn(0x100000)))
				n = units * 4
			}
			bigCases = append(bigCases, [4]uint64{n + 0x1000 + uint64(rb.Intn(1<<20)), uint64(k), units, uint64(rb.Intn(3) + 3*(i%4))})
		}
	}
	for _, c := range bigCases {
		emit("P", "p_big", N(rb.U64()>>1), N(c[0]), N(c[1]), N(c[2]), N(c[3]))
	}
	// ---- recalculate, inject, read back ----
	for it := 0; it < n; it++ {
		rr := r.Fork(uint64(1000 + it))
		p := layout(rr, false)
		emit("C", "recalc", entriesArgs(p.es)...)
		emit("P", "p_roundtrip", injectArgs(p.img, p.off, p.es)...)
		emit("P", "p_file", injectArgs(p.img, p.off, p.es)...)
		// the same through the model: recalculated entries, inject, read back
		es := copyEntries(p.es)
		recalcOK := func() (ok bool) {
			defer func() {
				if recover() != nil {
					ok = false
				}
			}()
			return es.RecalculateHeaders() == nil
		}()
		if !recalcOK {
			// unpatched tree: keep going with headers prepared by hand
			es = copyEntries(p.es)
			for i, e := range es {
				b := e.GetEntryBase()
				if k := kindOf(e); k != kUnknown {
					b.Headers.TypeAndIsChecksumValid = fit.TypeAndIsChecksumValid(k)
				}
				switch kindOf(e) {
				case 9, 11, 12:
					b.Headers.Size.SetUint32(uint32(len(b.DataSegmentBytes)))
				case 2, 10:
					b.Headers.Size.SetUint32(0)
				default:
					b.Headers.Size.SetUint32(uint32(len(b.DataSegmentBytes) / 16))
				}
				if i == 0 {
					b.Headers.Address = fit.Address64(binary.LittleEndian.Uint64([]byte(fitconsts.FITHeadersMagic)))
					b.Headers.Size.SetUint32(uint32(len(es)))
				}
			}
		}
		emit("C", "inject", injectArgs(p.img, p.off, es)...)
		img := append([]byte{}, p.img...)
		_ = es.Inject(img, p.off)
		emit("C", "range", H(img))
		emit("C", "gettable", H(img))
		emit("C", "getentries", H(img))
		// re-inject what was read into another image of the same size
		other := filler(rr, len(img))
		emit("P", "p_reinject", H(img), H(other), N(p.off))

		// ---- malformed / boundary images ----
		bad := append([]byte{}, img...)
		size := len(bad)
		switch rr.Intn(10) {
		case 0: // pointer garbage
			copy(bad[size-0x40:], rr.Bytes(8))
		case 1: // pointer just outside / at the edges
			v := uint64(rr.Pick(0, 1, size-16, size-15, size, size+1, size-1))
			binary.LittleEndian.PutUint64(bad[size-0x40:], fit.CalculatePhysAddrFromOffset(v, uint64(size)))
		case 2: // magic damaged
			bad[int(p.off)+rr.Intn(8)] ^= byte(1 << uint(rr.Intn(8)))
		case 3: // entry count boundary values
			v := rr.Pick(0, 1, len(p.es)+1, len(p.es)-1, (size-int(p.off))/16, (size-int(p.off))/16+1, 0xFFFFFF)
			bad[int(p.off)+8], bad[int(p.off)+9], bad[int(p.off)+10] = byte(v), byte(v>>8), byte(v>>16)
		case 4: // truncated image (pointer now read from elsewhere)
			bad = bad[:rr.Intn(size)]
		case 5: // tiny images
			bad = rr.Bytes(rr.Pick(0, 1, 0x3F, 0x40, 0x41, 0x4F, 0x50))
		case 6: // an entry's address moved to the edges of the image
			if len(p.es) > 1 {
				i := 1 + rr.Intn(len(p.es)-1)
				v := uint64(rr.Pick(0, size-16, size-1, size, size+1, size-32)) + uint64(rr.Pick(0, 0, 1))<<32
				binary.LittleEndian.PutUint64(bad[int(p.off)+16*i:], fit.CalculatePhysAddrFromOffset(v, uint64(size)))
			}
		case 7: // an entry's type / size changed
			if len(p.es) > 1 {
				i := 1 + rr.Intn(len(p.es)-1)
				bad[int(p.off)+16*i+14] = byte(allKinds[rr.Intn(len(allKinds))] & 0x7F)
				if rr.Bool() {
					bad[int(p.off)+16*i+8] = byte(rr.Intn(8))
					bad[int(p.off)+16*i+9] = byte(rr.Pick(0, 0, 1))
					bad[int(p.off)+16*i+10] = byte(rr.Pick(0, 0, 0xFF))
				}
			}
		case 8: // pointer with high bits set (uint64 wrap in the arithmetic)
			binary.LittleEndian.PutUint64(bad[size-0x40:], rr.U64()|0x8000000000000000)
		case 9: // random bytes
			bad = rr.Bytes(rr.Pick(0x40, 0x80, 0x100) + rr.Intn(32))
		}
		emit("C", "range", H(bad))
		emit("C", "getentries", H(bad))

		// ---- injection with a bad layout (errors, partial writes, overlaps) ----
		q := layout(rr, true)
		if rr.Chance(1, 2) {
			// hand-made headers, no recalculation
			for _, e := range q.es {
				if rr.Chance(1, 3) {
					e.GetEntryBase().Headers.Address.SetOffset(uint64(rr.Pick(0, len(q.img)-8, len(q.img), len(q.img)+1, len(q.img)-1)), uint64(len(q.img)))
				}
				if rr.Chance(1, 6) {
					e.GetEntryBase().DataSegmentBytes = rr.Bytes(rr.Pick(1, 15, 17, 64))
				}
			}
		}
		boff := q.off
		switch rr.Intn(6) {
		case 0:
			boff = uint64(len(q.img) - rr.Pick(0, 1, 8, 15, 16, 17))
		case 1:
			boff = uint64(len(q.img) + rr.Pick(1, 16))
		case 2:
			boff = rr.U64() | 0x8000000000000000
		case 3:
			boff = uint64(len(q.img)-0x40) - uint64(rr.Pick(0, 8, 15, 16))
		}
		bimg := q.img
		if rr.Chance(1, 6) {
			bimg = rr.Bytes(rr.Pick(0, 1, 0x3F, 0x40, 0x41))
		}
		emit("C", "inject", injectArgs(bimg, boff, q.es)...)
		emit("C", "recalc", entriesArgs(q.es)...)
		// recalculation edge cases: first entry not a FIT header, empty list
		if rr.Chance(1, 5) {
			emit("C", "recalc", entriesArgs(q.es[1:])...)
		}
	}
	genAudit(r, tier, n, emit)
}

func main() {
	Register("phys", opPhys)
	Register("offs", opOffs)
	Register("tail", opTail)
	Register("henc", opHenc)
	Register("hdec", opHdec)
	Register("u24set", opU24Set)
	Register("u24get", opU24Get)
	Register("settype", opSetType)
	Register("setcv", opSetCV)
	Register("tcget", opTcGet)
	Register("cksum", opCksum)
	Register("ptable", opPTable)
	Register("range", opRange)
	Register("gettable", opGetTable)
	Register("getentries", opGetEntries)
	Register("inject", opInject)
	Register("recalc", opRecalc)
	Register("wtable", opWTable)
	Register("p_addr", pAddr)
	Register("p_hdr_bin", pHdrBin)
	Register("p_hdr_json", pHdrJSON)
	Register("p_roundtrip", pRoundTrip)
	Register("p_reinject", pReinject)
	Register("p_big", pBig)
	Register("p_file", pFile)
	Register("p_inject_raw", pInjectRaw)
	Register("p_many", pMany)
	Register("p_fittool", pFittool)
	Main(gen)
}
