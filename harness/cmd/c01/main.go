// c01: saving an unedited image reproduces it (generator over the reference image grammar).
package main

import (
	. "verifharness/common"
	"verifharness/flashops"
	"verifharness/uefigen"
	"verifharness/uefiops"
)

func gen(r *Rng, tier string, emit Emit) {
	n := 250
	if tier == "thorough" {
		n = 6000
	}
	// files of 16 MiB and more (extended header): built inside the worker, implementation oracle only
	big := [][4]uint64{{1, 0x00, 0, 0}, {2, 0x08, 24, 1}, {3, 0x10, 1, 1}, {4, 0x48, 0x1234, 0}}
	if tier == "thorough" {
		for k := uint64(0); k < 12; k++ {
			big = append(big, [4]uint64{10 + k, uint64(r.Pick(0, 0x08, 0x10, 0x18, 0x20, 0x28, 0x40)), uint64(r.Intn(5000)), uint64(r.Intn(2))})
		}
	}
	// the Intel flash image entry shape: descriptor + regions, BIOS region from the grammar
	flashops.Gen(r.Fork(0xF1A5), tier, emit)
	for _, b := range big {
		emit("P", "p_big_identity", N(r.U64()^b[0]), N(b[1]), N(b[2]), N(b[3]))
	}
	// the same with a big file that is rebuilt from its sections (two 8 MiB sections / one 16 MiB
	// section with an extended section header)
	emit("P", "p_big_identity", N(r.U64()^0x51), N(0x00), N(0), N(1), N(1))
	emit("P", "p_big_identity", N(r.U64()^0x52), N(0x08), N(33), N(0), N(2))
	// ... followed / preceded by a file that carries a nested FFSv2 volume
	emit("P", "p_big_identity", N(r.U64()^0x53), N(0x00), N(7), N(0), N(2), N(1))
	emit("P", "p_big_identity", N(r.U64()^0x54), N(0x08), N(0), N(1), N(1), N(3))
	if tier == "thorough" {
		for k := uint64(0); k < 6; k++ {
			emit("P", "p_big_identity", N(r.U64()^(0x60+k)), N(uint64(r.Pick(0, 0x08, 0x10, 0x18, 0x40))), N(uint64(r.Intn(5000))), N(uint64(r.Intn(2))), N(1+k%2), N(k%4))
		}
	}
	for it := 0; it < n; it++ {
		rr := r.Fork(uint64(it))
		o := uefigen.Opts{MaxDepth: rr.Pick(0, 0, 1, 2), Strings: true, Alignments: rr.Chance(2, 3), BigBodies: rr.Chance(1, 4), LargeSecs: true}
		reg := uefigen.GenRegion(rr, o)
		img, _ := uefigen.EmitRegion(reg)
		if len(img) > 24000 {
			continue
		}
		emit("P", "p_save_identity", H(img))
		emit("C", "parse", H(img))
		emit("C", "save", H(img))
		// is the image in the domain of theorem C01_save_identity? (model re-serialises the grammar
		// term and evaluates the decidable well-formedness check)
		if spec, ok := uefigen.SpecString(reg); ok {
			emit("C", "grammar", H(img), spec)
			// the same question asked of the bytes alone (C01_save_identity_bytes)
			emit("C", "member_bytes", H(img))
		}
		// a single volume is also an entry shape
		v := uefigen.GenVol(rr, o, 0)
		vb, _ := uefigen.EmitVol(v)
		if len(vb) <= 24000 {
			emit("P", "p_save_identity", H(vb))
			emit("C", "save", H(vb))
		}
	}
	// coverage audit: values the grammar allows but the generator never drew (uefigen.Diversify, a
	// post-pass with its own stream): a non-zero Reserved byte in the volume header ("reserved header
	// bits" of the property text), file attribute bit 0x80, USER_INTERFACE / VERSION sections with the
	// empty string, GUID-defined sections that carry a codec GUID without the processing-required
	// attribute (opaque, kept verbatim), pad-type files that are not what CreatePadFile writes, header-only
	// files of a sectioned file type (kept verbatim: nothing to rebuild them from). All inside the proved
	// grammar: the model confirms membership.
	nd := 80
	if tier == "thorough" {
		nd = 1000
	}
	for it := 0; it < nd; it++ {
		rr := r.Fork(uint64(0xD1C01000 + it))
		o := uefigen.Opts{MaxDepth: rr.Pick(0, 0, 1, 2), Strings: true, Alignments: rr.Chance(2, 3), BigBodies: rr.Chance(1, 6), LargeSecs: true}
		reg := uefigen.GenRegion(rr, o)
		uefigen.Diversify(reg, rr, uefigen.DivOpts{Reserved: true, AttrHigh: true, EmptyStrings: true, OpaqueCodec: true, PadFiles: true, EmptySectioned: true})
		img, _ := uefigen.EmitRegion(reg)
		if len(img) == 0 || len(img) > 24000 {
			continue
		}
		emit("P", "p_save_identity", H(img))
		emit("C", "save", H(img))
		if spec, ok := uefigen.SpecString(reg); ok {
			emit("C", "grammar", H(img), spec)
			emit("C", "member_bytes", H(img))
		}
	}
}

func main() {
	uefiops.RegisterAll()
	flashops.RegisterAll()
	// the generator claims membership; the model decides
	Register("grammar", func(args []string) string { return "member" })
	Register("member_bytes", func(args []string) string { return "member" })
	Main(gen)
}
