// c01: saving an unedited image reproduces it (generator over the reference image grammar).
package main

import (
	. "verifharness/common"
	"verifharness/uefigen"
	"verifharness/uefiops"
)

func gen(r *Rng, tier string, emit Emit) {
	n := 250
	if tier == "thorough" {
		n = 6000
	}
	for it := 0; it < n; it++ {
		rr := r.Fork(uint64(it))
		o := uefigen.Opts{MaxDepth: rr.Pick(0, 0, 1, 2), Strings: true, Alignments: rr.Chance(2, 3), BigBodies: rr.Chance(1, 4)}
		reg := uefigen.GenRegion(rr, o)
		img, _ := uefigen.EmitRegion(reg)
		if len(img) > 24000 {
			continue
		}
		emit("P", "p_save_identity", H(img))
		emit("C", "parse", H(img))
		emit("C", "save", H(img))
		// a single volume is also an entry shape
		v := uefigen.GenVol(rr, o, 0)
		vb, _ := uefigen.EmitVol(v)
		if len(vb) <= 24000 {
			emit("P", "p_save_identity", H(vb))
			emit("C", "save", H(vb))
		}
	}
}

func main() {
	uefiops.RegisterAll()
	Main(gen)
}
