// c06: compressed and nested content survives a save, and saving is a fixed point.
//
// Generator: images over the reference grammar extended with GUID-defined compressed sections
// (harness/uefigen/compressed.go) built with fiano's real codecs (LZMA, LZMA+x86, ZLIB) around
// leaf sections, further compressed sections and nested volumes to depth 0..3.  Two encoder
// configurations: "x" = the xz binary found on PATH (compression.SystemLZMA), "g" = the pure-Go
// encoder (flag xzPath set to a path that does not exist).  For every compressed blob met by
// Parse or produced by Assemble the codec table lines of the model are emitted.
package main

import (
	"bytes"
	"compress/zlib"
	"crypto/sha1"
	"encoding/binary"
	"flag"
	"fmt"
	"os"
	"os/exec"
	"strings"
	"time"

	"github.com/linuxboot/fiano/pkg/compression"
	"github.com/linuxboot/fiano/pkg/guid"
	"github.com/linuxboot/fiano/pkg/uefi"
	"github.com/linuxboot/fiano/pkg/visitors"
	. "verifharness/common"
	"verifharness/uefigen"
	"verifharness/uefiops"
)

const noXZ = "/nonexistent/verif-no-xz"

// setCfg selects the encoder configuration; returns false when "x" is asked for but no xz exists.
func setCfg(cfg string) bool {
	if cfg == "g" {
		_ = flag.Set("xzPath", noXZ)
		return true
	}
	_ = flag.Set("xzPath", "xz")
	_, err := exec.LookPath("xz")
	return err == nil
}

func codecGUID(kind int) *guid.GUID {
	switch kind {
	case 1:
		return &compression.LZMAGUID
	case 2:
		return &compression.LZMAX86GUID
	case 3:
		return &compression.ZLIBGUID
	}
	return &compression.BROTLIGUID
}

func kindOfGUID(g guid.GUID) int {
	switch g {
	case compression.LZMAGUID:
		return 1
	case compression.LZMAX86GUID:
		return 2
	case compression.ZLIBGUID:
		return 3
	case compression.BROTLIGUID:
		return 4
	}
	return 0
}

// realEnc is fiano's encoder under the current configuration.
func realEnc(kind int, plain []byte) ([]byte, error) {
	return compression.CompressorFromGUID(codecGUID(kind)).Encode(plain)
}

// altEnc builds blobs the way a different producer would (other xz preset / other zlib level), so
// that re-encoding on save really changes the compressed bytes and sizes.
func altEnc(kind int, plain []byte) ([]byte, error) {
	switch kind {
	case 3:
		var z bytes.Buffer
		w, _ := zlib.NewWriterLevel(&z, 1)
		_, _ = w.Write(plain)
		w.Close()
		h := make([]byte, 256)
		binary.LittleEndian.PutUint32(h[20:], uint32(z.Len()))
		return append(h, z.Bytes()...), nil
	default:
		// the other LZMA encoder than the one the configuration under test uses
		cur := flag.Lookup("xzPath").Value.String()
		if cur == noXZ {
			if _, err := exec.LookPath("xz"); err == nil {
				_ = flag.Set("xzPath", "xz")
			}
		} else {
			_ = flag.Set("xzPath", noXZ)
		}
		out, err := realEnc(kind, plain)
		_ = flag.Set("xzPath", cur)
		return out, err
	}
}

// ---------- tree helpers ----------

func gdOf(s *uefi.Section) *uefi.SectionGUIDDefined {
	if s.Header.Type != uefi.SectionTypeGUIDDefined || s.TypeSpecific == nil {
		return nil
	}
	gd, _ := s.TypeSpecific.Header.(*uefi.SectionGUIDDefined)
	return gd
}

type tline struct{ dir, kind, in, out string }

// walkSections visits every section of the tree (through nested volumes).
func walkSections(f uefi.Firmware, fn func(*uefi.Section)) {
	switch n := f.(type) {
	case *uefi.BIOSRegion:
		for _, e := range n.Elements {
			walkSections(e.Value, fn)
		}
	case *uefi.FirmwareVolume:
		for _, x := range n.Files {
			walkSections(x, fn)
		}
	case *uefi.File:
		for _, s := range n.Sections {
			walkSections(s, fn)
		}
	case *uefi.Section:
		fn(n)
		for _, e := range n.Encapsulated {
			walkSections(e.Value, fn)
		}
	}
}

func join4(kids []*uefi.TypedFirmware) []byte {
	var out []byte
	for _, k := range kids {
		for len(out)%4 != 0 {
			out = append(out, 0)
		}
		out = append(out, k.Value.Buf()...)
	}
	return out
}

// tables runs Parse and Assemble on img in the generator process and returns the codec table the
// model needs for the same two steps, plus the saved bytes (nil when parse or assemble fails).
func tables(img []byte) ([]tline, []byte) {
	var tl []tline
	uefiops.Reset()
	root, err := uefi.Parse(append([]byte{}, img...))
	if err != nil {
		return nil, nil
	}
	walkSections(root, func(s *uefi.Section) {
		gd := gdOf(s)
		if gd == nil || gd.Attributes&1 == 0 {
			return
		}
		k := kindOfGUID(gd.GUID)
		if k == 0 || int(gd.DataOffset) > len(s.Buf()) {
			return
		}
		payload := s.Buf()[gd.DataOffset:]
		plain, err := compression.CompressorFromGUID(&gd.GUID).Decode(append([]byte{}, payload...))
		o := "err"
		if err == nil {
			o = H(plain)
		}
		tl = append(tl, tline{"dec", N(uint64(k)), H(payload), o})
	})
	if err := (&visitors.Assemble{}).Run(root); err != nil {
		return tl, nil
	}
	walkSections(root, func(s *uefi.Section) {
		gd := gdOf(s)
		if gd == nil || gd.Attributes&1 == 0 || len(s.Encapsulated) == 0 {
			return
		}
		k := kindOfGUID(gd.GUID)
		if k == 0 {
			return
		}
		tl = append(tl, tline{"enc", N(uint64(k)), H(join4(s.Encapsulated)), H(s.Buf()[gd.DataOffset:])})
	})
	return tl, append([]byte{}, root.Buf()...)
}

// ---------- the fully decompressed tree ----------

func sh(b []byte) string {
	s := sha1.Sum(b)
	return fmt.Sprintf("%x/%x", len(b), s[:8])
}

// deep prints kinds, the header fields that identify a node, and leaf bodies; it looks through
// compressed sections and nested volumes. Left out on purpose: sizes, checksums, the large-file
// bit, compressed bytes, volume length / block count / free space / header checksum, the
// FFS2->FFS3 switch, and pad files (layout artefacts that legitimately move when recompression
// changes a size).
func deep(f uefi.Firmware, sb *strings.Builder) {
	if r, ok := deepSubst[f]; ok {
		sb.WriteString(r)
		return
	}
	switch n := f.(type) {
	case *uefi.BIOSRegion:
		sb.WriteString("R(")
		for _, e := range n.Elements {
			deep(e.Value, sb)
		}
		sb.WriteString(")")
	case *uefi.BIOSPadding:
		fmt.Fprintf(sb, "P:%x:%s;", n.Offset, sh(n.Buf()))
	case *uefi.FirmwareVolume:
		if len(n.Files) == 0 {
			fmt.Fprintf(sb, "V0:%s;", sh(n.Buf()))
			return
		}
		sb.WriteString(volHead(n) + "(")
		for _, x := range n.Files {
			if x.Header.Type == uefi.FVFileTypePad {
				continue
			}
			deep(x, sb)
		}
		sb.WriteString(")")
	case *uefi.File:
		if len(n.Sections) == 0 && n.NVarStore == nil {
			fmt.Fprintf(sb, "F0:%s;", sh(n.Buf()))
			return
		}
		fmt.Fprintf(sb, "F:%x:%x:%x:%x(", n.Header.GUID[:], uint8(n.Header.Type), uint8(n.Header.Attributes)&^1, uint8(n.Header.State))
		for _, s := range n.Sections {
			deep(s, sb)
		}
		sb.WriteString(")")
	case *uefi.Section:
		if len(n.Encapsulated) == 0 {
			fmt.Fprintf(sb, "S0:%s;", sh(n.Buf()))
			return
		}
		fmt.Fprintf(sb, "S:%x", uint8(n.Header.Type))
		if gd := gdOf(n); gd != nil {
			fmt.Fprintf(sb, ":%x:%x:%s", gd.GUID[:], gd.Attributes, gd.Compression)
		}
		sb.WriteString("(")
		for _, e := range n.Encapsulated {
			deep(e.Value, sb)
		}
		sb.WriteString(")")
	default:
		fmt.Fprintf(sb, "?%T;", f)
	}
}

// volHead: the fields of a volume header that the decompressed tree keeps.
func volHead(n *uefi.FirmwareVolume) string {
	g := n.FileSystemGUID
	if g == *uefi.FFS3 {
		g = *uefi.FFS2
	}
	bs := uint32(0)
	if len(n.Blocks) > 0 {
		bs = n.Blocks[0].Size
	}
	return fmt.Sprintf("V:%x:%x:%x:%x:%x:%x:%x:%x:%x", n.Buf()[:16], g[:], n.Attributes, n.HeaderLen, n.Revision,
		n.ExtHeaderOffset, n.DataOffset, bs, n.FVName[:])
}

// deepSubst: nodes printed as the given text instead of their subtree (the edit and repack oracles
// compare "everything but the edited volume" this way).
var deepSubst map[uefi.Firmware]string

func deepWith(f uefi.Firmware, subst map[uefi.Firmware]string) string {
	deepSubst = subst
	defer func() { deepSubst = nil }()
	return deepOf(f)
}

func deepOf(f uefi.Firmware) string {
	var sb strings.Builder
	deep(f, &sb)
	return sb.String()
}

func parse(img []byte) (uefi.Firmware, error) {
	uefiops.Reset()
	return uefi.Parse(append([]byte{}, img...))
}

func save(root uefi.Firmware) ([]byte, error) {
	if err := (&visitors.Assemble{}).Run(root); err != nil {
		return nil, err
	}
	return append([]byte{}, root.Buf()...), nil
}

func firstDiff(a, b string) string {
	i := 0
	for i < len(a) && i < len(b) && a[i] == b[i] {
		i++
	}
	lo := i - 30
	if lo < 0 {
		lo = 0
	}
	cut := func(s string) string {
		hi := i + 50
		if hi > len(s) {
			hi = len(s)
		}
		return s[lo:hi]
	}
	return fmt.Sprintf("at %d: %q vs %q", i, cut(a), cut(b))
}

// p_deep <cfg> <img>: deep(Parse(Save(Parse(x)))) == deep(Parse(x))
func pDeep(args []string) string {
	if !setCfg(args[0]) {
		return "skip"
	}
	return deepCheck(UnH(args[1]), len(args) > 2 && args[2] == "wf")
}

// refusal judges an input that does not parse or does not save. wf: the image comes from the reference
// serialiser, so Parse must accept it and the only legitimate refusal of Save is a fixed-size volume
// that is full after recompression.
func refusal(wf bool, what string, t uefi.Firmware, err error) string {
	if !wf || (what == "save" && spaceRefusal(t, err)) {
		return "skip"
	}
	return "FAIL well-formed-image-" + what + "-error " + err.Error()
}

func deepCheck(x []byte, wf bool) string {
	t, err := parse(x)
	if err != nil {
		return refusal(wf, "parse", nil, err)
	}
	d0 := deepOf(t)
	y, err := save(t)
	if err != nil {
		return refusal(wf, "save", t, err)
	}
	t2, err := parse(y)
	if err != nil {
		return "FAIL saved-image-does-not-parse " + err.Error()
	}
	if d1 := deepOf(t2); d1 != d0 {
		return "FAIL deep-tree-differs " + firstDiff(d0, d1)
	}
	return "ok"
}

// p_fixed <cfg> <img>: Save(Parse(Save(Parse(x)))) == Save(Parse(x))
func pFixed(args []string) string {
	if !setCfg(args[0]) {
		return "skip"
	}
	return fixedCheck2(UnH(args[1]), len(args) > 2 && strings.HasPrefix(args[2], "wf"), len(args) > 2 && args[2] == "wf2")
}

func fixedCheck(x []byte, wf bool) string { return fixedCheck2(x, wf, true) }

func fixedCheck2(x []byte, wf, twice bool) string {
	t, err := parse(x)
	if err != nil {
		return refusal(wf, "parse", nil, err)
	}
	allow := undecodedPayloads(t)
	y, err := save(t)
	if err != nil {
		return refusal(wf, "save", t, err)
	}
	// Assemble run once more on the tree it has just assembled (what "repack ... save" and
	// "save a ... save b" do) writes the same bytes
	if twice {
		if y2, err := save(t); err != nil || !bytes.Equal(y, y2) {
			return fmt.Sprintf("FAIL assemble-twice-differs err=%v", err)
		}
	}
	t2, err := parse(y)
	if err != nil {
		return "FAIL saved-image-does-not-parse " + err.Error()
	}
	z, err := save(t2)
	if err != nil {
		return "FAIL second-save-fails " + err.Error()
	}
	if !bytes.Equal(y, z) {
		i := 0
		for i < len(y) && i < len(z) && y[i] == z[i] {
			i++
		}
		return fmt.Sprintf("FAIL second-save-differs at %x len %x vs %x", i, len(y), len(z))
	}
	// the saved image is consistent for a reader that shares no code with fiano's parser
	if r := checkImageAllow(y, allow); r != "" {
		return "FAIL independent-check " + r
	}
	return "ok"
}

// ---------- nested edit ----------

type loc struct {
	file   *uefi.File
	fv     *uefi.FirmwareVolume
	nested bool // fv sits inside a firmware-volume-image section
}

// nestedVols: the volumes reached through a section, filled by findFiles
var nestedVols = map[*uefi.FirmwareVolume]bool{}

func findFiles(f uefi.Firmware, parent *uefi.FirmwareVolume, g guid.GUID, out *[]loc) {
	switch n := f.(type) {
	case *uefi.BIOSRegion:
		for _, e := range n.Elements {
			findFiles(e.Value, nil, g, out)
		}
	case *uefi.FirmwareVolume:
		if parent != nil {
			nestedVols[n] = true
		}
		for _, x := range n.Files {
			findFiles(x, n, g, out)
		}
	case *uefi.File:
		if n.Header.GUID == g {
			*out = append(*out, loc{n, parent, nestedVols[parent]})
		}
		for _, s := range n.Sections {
			findFiles(s, parent, g, out)
		}
	case *uefi.Section:
		for _, e := range n.Encapsulated {
			findFiles(e.Value, parent, g, out)
		}
	}
}

func nonPadGUIDs(fv *uefi.FirmwareVolume) []guid.GUID {
	var out []guid.GUID
	for _, x := range fv.Files {
		if x.Header.Type != uefi.FVFileTypePad {
			out = append(out, x.Header.GUID)
		}
	}
	return out
}

// p_edit <cfg> <img> <guid16> <mode> [<newfile>]: an edit inside a nested volume through the CLI
// visitors (mode r = "remove GUID", i = "insert file F after GUID"), then save and re-parse.
func pEdit(args []string) string {
	nestedVols = map[*uefi.FirmwareVolume]bool{}
	if !setCfg(args[0]) {
		return "skip"
	}
	var g guid.GUID
	copy(g[:], UnH(args[2]))
	mode := args[3]
	t, err := parse(UnH(args[1]))
	if err != nil {
		return "skip"
	}
	allow := undecodedPayloads(t)
	var ls []loc
	findFiles(t, nil, g, &ls)
	if len(ls) != 1 || ls[0].fv == nil || !ls[0].nested {
		return "skip" // the target must be one file of a nested volume
	}
	inner := ls[0].fv
	if !inner.Resizable {
		return "FAIL nested-volume-not-resizable"
	}
	before := nonPadGUIDs(inner)
	oldLen := inner.Length
	if len(inner.Blocks) == 0 || inner.Blocks[0].Size == 0 {
		return "skip"
	}
	bs := uint64(inner.Blocks[0].Size)
	var cli []string
	var want []guid.GUID
	var newGUID guid.GUID
	var newBytes []byte
	switch mode {
	case "r":
		if len(before) < 2 {
			return "skip" // emptying a volume is another property's subject
		}
		cli = []string{"remove", g.String()}
		for _, x := range before {
			if x != g {
				want = append(want, x)
			}
		}
	case "i":
		newBytes = UnH(args[4])
		copy(newGUID[:], newBytes[:16])
		var dup []loc
		findFiles(t, nil, newGUID, &dup)
		if len(dup) != 0 {
			return "skip"
		}
		tmp, err := os.CreateTemp("", "verif-c06-*.ffs")
		if err != nil {
			return "harness-error tmpfile"
		}
		defer os.Remove(tmp.Name())
		_, _ = tmp.Write(newBytes)
		tmp.Close()
		cli = []string{"insert", "file", tmp.Name(), "after", g.String()}
		for _, x := range before {
			want = append(want, x)
			if x == g {
				want = append(want, newGUID)
			}
		}
	default:
		return "harness-error mode"
	}
	vs, err := visitors.ParseCLI(cli)
	if err != nil {
		return "harness-error cli " + err.Error()
	}
	if err := visitors.ExecuteCLI(t, vs); err != nil {
		return "FAIL edit-error " + err.Error()
	}
	y, err := save(t)
	if err != nil {
		// the only legitimate refusal: the enclosing fixed-size volume is full
		if spaceRefusal(t, err) {
			return "skip"
		}
		return "FAIL save-after-edit " + err.Error()
	}
	t2, err := parse(y)
	if err != nil {
		return "FAIL edited-image-does-not-parse " + err.Error()
	}
	// visible
	anchor := want[0]
	var al []loc
	findFiles(t2, nil, anchor, &al)
	if len(al) != 1 || al[0].fv == nil {
		return "FAIL edit-not-visible anchor-file-missing"
	}
	inner2 := al[0].fv
	got := nonPadGUIDs(inner2)
	if len(got) != len(want) {
		return fmt.Sprintf("FAIL edit-not-visible files %d want %d", len(got), len(want))
	}
	for i := range got {
		if got[i] != want[i] {
			return fmt.Sprintf("FAIL edit-not-visible file %d", i)
		}
	}
	var gone []loc
	findFiles(t2, nil, g, &gone)
	if mode == "r" && len(gone) != 0 {
		return "FAIL removed-file-still-present"
	}
	if mode == "i" {
		var nl []loc
		findFiles(t2, nil, newGUID, &nl)
		if len(nl) != 1 || nl[0].fv != inner2 || !bytes.Equal(nl[0].file.Buf(), newBytes) {
			return "FAIL inserted-file-differs"
		}
	}
	// the nested volume grew in whole blocks only
	if !inner2.Resizable {
		return "FAIL inner-volume-not-nested"
	}
	if len(inner2.Blocks) == 0 || uint64(inner2.Blocks[0].Size) != bs {
		return "FAIL block-size-changed"
	}
	total := uint64(0) // the block map (all entries) covers the volume
	for _, b := range inner2.Blocks {
		total += uint64(b.Count) * uint64(b.Size)
	}
	if inner2.Length < oldLen || (inner2.Length-oldLen)%bs != 0 || inner2.Length != total ||
		uint64(len(inner2.Buf())) != inner2.Length {
		return fmt.Sprintf("FAIL inner-length %x old %x bs %x count %x", inner2.Length, oldLen, bs, inner2.Blocks[0].Count)
	}
	if lf := os.Getenv("C06_GROWLOG"); lf != "" { // coverage statistics for the generator's author
		if f, err := os.OpenFile(lf, os.O_APPEND|os.O_CREATE|os.O_WRONLY, 0o644); err == nil {
			fmt.Fprintf(f, "%s old %x new %x bs %x\n", mode, oldLen, inner2.Length, bs)
			f.Close()
		}
	}
	if inner2.Length > oldLen {
		// grown: no more than the last partial block was added beyond the data
		used := inner2.Length - inner2.FreeSpace
		if used+bs <= inner2.Length {
			return fmt.Sprintf("FAIL inner-grown-too-much len %x used %x bs %x", inner2.Length, used, bs)
		}
	}
	// all sizes and checksums consistent: fiano's own validator ...
	val := &visitors.Validate{}
	if err := val.Run(t2); err != nil {
		return "FAIL validate-error " + err.Error()
	}
	for _, e := range val.Errors {
		// Validate demands that the body of a file with the checksum attribute sums to zero WITHOUT
		// the IntegrityCheck.File byte, which contradicts ChecksumAndAssemble (File = -sum(body)) and
		// the PI specification; that false alarm is the subject of C09. The body checksum itself is
		// verified by the independent reader below.
		if strings.Contains(e.Error(), "body checksum failure! sum was") {
			continue
		}
		return "FAIL validate " + e.Error()
	}
	// ... and an independent reader of the bytes
	if r := checkImageAllow(y, allow); r != "" {
		return "FAIL independent-check " + r
	}
	return "ok"
}

func saveCfg(cfg string) Op {
	return func(args []string) string {
		if !setCfg(cfg) {
			return "skip"
		}
		return uefiops.OpSave(args)
	}
}

// ---------- generator ----------

func emitTables(emit Emit, tl []tline) {
	for _, t := range tl {
		emit("T", "codec", t.dir, t.kind, t.in, t.out)
	}
}

func gen(r *Rng, tier string, emit Emit) {
	n := 40
	thorough := tier == "thorough"
	if thorough {
		n = 1200
	}
	haveXZ := false
	if _, err := exec.LookPath("xz"); err == nil {
		haveXZ = true
	}
	// sizes around the 16 MiB limit of the short headers (images are built inside the worker)
	for _, c := range [][2]string{{"f", "fffffe"}, {"f", "ffffff"}, {"f", "1000000"}, {"n", "1000010"}, {"ab", "1000010"}, {"au", "1000010"}} {
		emit("P", "p_big", c[0], c[1])
	}
	// a compressed (ZLIB) section around 16 MiB of noise whose size 24 + encoded payload is just below,
	// exactly at, just above 0xFFFFFF: from there on GenSecHeader needs the 8-byte common header and
	// DataOffset 28
	zs := []string{"fffffe", "ffffff", "1000003"}
	if tier == "thorough" {
		zs = append(zs, "fffff0", "1000000", "1000004", "1001000")
	}
	for _, z := range zs {
		emit("P", "p_big", "z", z, N(r.U64()%1000+1))
	}
	if tier == "thorough" {
		emit("P", "p_big", "l", "ffffff", N(r.U64()%1000+1)) // one LZMA case (tens of seconds)
	}
	// one fixed image for the repack oracle, so that every run has (a) a per-file compressed section with three
	// children, (b) a section under the LZMAX86 GUID without the processing-required bit and (c) an LZMA section
	// whose payload does not decode, all at the first level of the files of the repacked volume
	if x, g, ok := repackImage(r.Fork(0x5EED)); ok {
		emit("P", "p_deep", "x", H(x), "wf")
		emit("P", "p_repack", "x", H(x), "f", H(g[:]))
	}
	for it := 0; it < n; it++ {
		rr := r.Fork(uint64(it))
		// "x": system xz encodes on save (the default when xz is installed); "g": the pure-Go LZMA
		// encoder (about 4x slower per call), on every third image
		cfgs := []string{"x"}
		if !haveXZ {
			cfgs = []string{"g"}
		} else if it%3 == 0 {
			cfgs = []string{"x", "g"}
		}
		for _, cfg := range cfgs {
			setCfg(cfg)
			saveOp := "save_" + cfg
			enc := uefigen.Enc(realEnc)
			if rr.Chance(1, 2) {
				enc = altEnc
			}
			kinds := [][]int{{1}, {2}, {3}, {3}, {1, 2, 3}}[rr.Intn(5)]
			o := uefigen.COpts{Depth: it % 4, Kinds: kinds, Enc: enc, DataOff: rr.Chance(1, 3), PlainNest: true, Opaque: true,
				Corrupt: true, Siblings: true, LargeForm: true, HdrBytes: true}
			reg, targets, all, err := uefigen.GenCompRegionAll(rr.Fork(7), o)
			if err != nil {
				continue
			}
			x, _ := uefigen.EmitRegion(reg)
			setCfg(cfg)
			small := len(x) <= 12000
			var y []byte
			if small {
				var tl []tline
				tl, y = tables(x)
				emitTables(emit, tl)
				emit("C", "parse", H(x))
				emit("C", saveOp, H(x))
			}
			// "wf": the image comes from the reference serialiser, a refusal to parse or save it is a failure
			emit("P", "p_deep", cfg, H(x), "wf")
			if thorough || it%3 == 0 {
				emit("P", "p_fixed", cfg, H(x), "wf2") // also: Assemble run twice on one tree writes the same bytes
			} else {
				emit("P", "p_fixed", cfg, H(x), "wf")
			}
			if y != nil && small && rr.Chance(1, 2) {
				// the saved image as an input of its own: the model must agree on the fixed point
				tl2, _ := tables(y)
				emitTables(emit, tl2)
				emit("C", "parse", H(y))
				emit("C", saveOp, H(y))
			}
			newFile := func(k int) string {
				var ng [16]byte
				copy(ng[:], rr.Bytes(16))
				ng[8], ng[9] = 0xC7, byte(k)
				return H(uefigen.NewFileBytes(rr, ng))
			}
			// edits inside nested volumes
			for k := 0; k < 2 && len(targets) > 0; k++ {
				tg := targets[rr.Intn(len(targets))]
				if k == 0 {
					emit("P", "p_edit", cfg, H(x), H(tg.GUID[:]), "r")
				} else {
					emit("P", "p_edit", cfg, H(x), H(tg.GUID[:]), "i", newFile(0))
				}
			}
			// edit sequences inside one nested volume, with saves in between (s: go on with the re-parsed
			// tree, S: go on with the tree that was saved)
			if len(targets) > 0 && ((thorough && (it/4)%3 != 0) || (!thorough && (it/4)%2 == 0)) { // depth is it%4: every depth on every other round
				re := rr.Fork(11)
				tg := H(targets[re.Intn(len(targets))].GUID[:])
				f1, f2 := newFile(1), newFile(2)
				g1, g2 := f1[:32], f2[:32]
				var steps []string
				shape := re.Intn(6)
				if !thorough && shape == 5 {
					shape = re.Intn(5) // the three-save sequence in the thorough tier only
				}
				switch shape {
				case 0: // two insertions at the same place
					steps = []string{"i" + tg + ":" + f1, "i" + tg + ":" + f2}
				case 1: // the inserted file replaces its anchor
					steps = []string{"i" + tg + ":" + f1, "r" + tg}
				case 2: // grow, save, grow again from the saved state
					steps = []string{"i" + tg + ":" + f1, "s", "i" + g1 + ":" + f2}
				case 3: // the same on the tree that was saved
					steps = []string{"i" + tg + ":" + f1, "S", "i" + g1 + ":" + f2}
				case 4: // insert, save, take it out again
					steps = []string{"i" + tg + ":" + f1, []string{"s", "S"}[re.Intn(2)], "r" + g1}
				default: // three saves
					steps = []string{"i" + tg + ":" + f1, "s", "i" + tg + ":" + f2, "S", "r" + g1}
				}
				_ = g2
				emit("P", "p_edits", append([]string{cfg, H(x)}, steps...)...)
			}
			// emptying a nested volume: every file removed (no padding); one FFSv3 and (every third image) one
			// FFSv2 volume, volumes with few files first
			if len(targets) > 0 {
				if t, err := parse(x); err == nil {
					nestedVols = map[*uefi.FirmwareVolume]bool{}
					type cand struct {
						g [16]byte
						n int
					}
					best := map[bool]*cand{} // by "is FFSv3"
					seen := map[*uefi.FirmwareVolume]bool{}
					for _, tg := range targets {
						var g guid.GUID
						copy(g[:], tg.GUID[:])
						var ls []loc
						findFiles(t, nil, g, &ls)
						if len(ls) != 1 || ls[0].fv == nil || !ls[0].nested || seen[ls[0].fv] {
							continue
						}
						seen[ls[0].fv] = true
						v3 := ls[0].fv.FileSystemGUID == *uefi.FFS3
						n := len(nonPadGUIDs(ls[0].fv))
						if b := best[v3]; b == nil || n < b.n || (n == b.n && rr.Bool()) {
							best[v3] = &cand{tg.GUID, n}
						}
					}
					if b := best[true]; b != nil {
						emit("P", "p_edits", cfg, H(x), "R"+H(b.g[:]))
					}
					if b := best[false]; b != nil && (thorough || it%3 == 0) {
						emit("P", "p_edits", cfg, H(x), "R"+H(b.g[:]))
					}
				}
			}
			// repack: the volume that holds a file (any level), or the top-level volume by its name
			if ((thorough && it%2 == 1) || (!thorough && it%3 == 1)) && len(all) > 0 {
				re := rr.Fork(13)
				var top *uefigen.Vol
				for _, e := range reg.Elems {
					if e.Vol != nil {
						top = e.Vol
					}
				}
				if top != nil && top.ExtHeader && re.Chance(2, 3) {
					emit("P", "p_repack", cfg, H(x), "v", H(top.ExtName[:]))
				} else {
					emit("P", "p_repack", cfg, H(x), "f", H(all[re.Intn(len(all))].GUID[:]))
				}
			}
		}
	}
	setCfg("x")
}

func repackImage(r *Rng) ([]byte, [16]byte, bool) {
	setCfg("x")
	raw := func(t byte, n int) *uefigen.Sec { return &uefigen.Sec{Type: t, Body: r.Bytes(n)} }
	good, e1 := uefigen.CompressedSec(1, []*uefigen.Sec{raw(0x19, 33), raw(0x10, 70), raw(0x19, 5)}, realEnc, nil, 1)
	opaque, e2 := uefigen.CompressedSec(2, []*uefigen.Sec{raw(0x10, 40)}, realEnc, nil, 0)
	trunc, e3 := uefigen.CompressedSec(1, []*uefigen.Sec{raw(0x19, 60)}, realEnc, nil, 3)
	if e1 != nil || e2 != nil || e3 != nil || len(trunc.Body) < 8 {
		return nil, [16]byte{}, false
	}
	trunc.Body = trunc.Body[:len(trunc.Body)-3]
	file := func(id byte, typ byte, secs ...*uefigen.Sec) *uefigen.File {
		f := &uefigen.File{Type: typ, State: 0xF8, Attr: 0x40, Secs: secs}
		copy(f.GUID[:], r.Bytes(16))
		f.GUID[8], f.GUID[9] = 0xC8, id
		return f
	}
	f1 := file(1, 0x07, opaque, raw(0x19, 9))
	f2 := file(2, 0x07, good, &uefigen.Sec{Type: 0x15, Body: []byte{'D', 0, 'x', 0, 'e', 0, 0, 0}})
	f3 := file(3, 0x09, raw(0x19, 4), trunc)
	v := &uefigen.Vol{FSGUID: uefigen.FFS2, Attrs: 0x4FEFF, Revision: 2, BlockSize: 64, FreeSpace: 1024,
		Files: []*uefigen.File{f1, f2, f3}}
	x, _ := uefigen.EmitRegion(&uefigen.Region{Elems: []uefigen.Elem{{Vol: v}}})
	return x, f2.GUID, true
}

func main() {
	CaseTimeout = 180 * time.Second // the 16 MiB LZMA case of the thorough tier needs tens of seconds
	uefiops.RegisterAll()
	Register("save_x", saveCfg("x"))
	Register("save_g", saveCfg("g"))
	Register("p_deep", pDeep)
	Register("p_fixed", pFixed)
	Register("p_edit", pEdit)
	Register("p_edits", pEdits)
	Register("p_repack", pRepack)
	Register("p_big", pBig)
	Main(gen)
}
