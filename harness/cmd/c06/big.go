package main

// big.go — images around the 16 MiB limit of the 24-bit size fields, built inside the worker
// (they are too large for a case file): file sizes 0xFFFFFE / 0xFFFFFF / 0x1000000, a large file
// inside a nested volume, and a large file followed by a sibling that holds a nested volume
// (the FFS2 -> FFS3 switch of Assemble.useFFS3).

import (
	"bytes"
	"encoding/binary"
	"fmt"
	"strings"

	. "verifharness/common"
	"verifharness/uefigen"
)

func bigSec(t byte, body []byte) []byte {
	n := 4 + len(body)
	if n >= 0xFFFFFF {
		n += 4
		h := []byte{0xff, 0xff, 0xff, t, 0, 0, 0, 0}
		binary.LittleEndian.PutUint32(h[4:], uint32(n))
		return append(h, body...)
	}
	return append([]byte{byte(n), byte(n >> 8), byte(n >> 16), t}, body...)
}

// bigFile: header form as the parser demands it (extended header iff the size field cannot hold
// the size)
func bigFile(id byte, typ byte, body []byte) []byte {
	hl := 24
	if 24+len(body) >= 0xFFFFFF {
		hl = 32
	}
	h := make([]byte, hl)
	for i := 0; i < 16; i++ {
		h[i] = id
	}
	h[18] = typ
	size := hl + len(body)
	if hl == 32 {
		h[19] = 1
		h[20], h[21], h[22] = 0xff, 0xff, 0xff
		binary.LittleEndian.PutUint64(h[24:], uint64(size))
	} else {
		h[20], h[21], h[22] = byte(size), byte(size>>8), byte(size>>16)
	}
	h[16] = 0 - ckSum8(h)
	h[17] = 0xAA
	h[23] = 0xF8
	return append(h, body...)
}

func bigVol(guid [16]byte, bs int, free int, files ...[]byte) []byte {
	v := make([]byte, 72)
	copy(v[16:], guid[:])
	copy(v[40:], "_FVH")
	v[44], v[45] = 0xff, 0x08
	v[48] = 72
	v[55] = 2
	for _, f := range files {
		for len(v)%8 != 0 {
			v = append(v, 0xff)
		}
		v = append(v, f...)
	}
	v = append(v, bytes.Repeat([]byte{0xff}, free)...)
	for len(v)%bs != 0 {
		v = append(v, 0xff)
	}
	binary.LittleEndian.PutUint64(v[32:], uint64(len(v)))
	binary.LittleEndian.PutUint32(v[56:], uint32(len(v)/bs))
	binary.LittleEndian.PutUint32(v[60:], uint32(bs))
	c := 0 - ckSum16(v[:72])
	v[50], v[51] = byte(c), byte(c>>8)
	return v
}

// p_big <shape> <size>
func pBig(args []string) string {
	if !setCfg("x") && !setCfg("g") {
		return "skip"
	}
	size := int(UnN(args[1]))
	if size < 64 || size > 0x1100000 {
		return "harness-error size"
	}
	var x []byte
	small := bigFile(0xC1, 0x02, bigSec(0x19, []byte{1, 2, 3}))
	switch args[0] {
	case "f": // one sectioned file whose assembled size (24-byte header + section) is exactly `size`
		x = bigVol(uefigen.FFS2, 4096, 8192, bigFile(0xA1, 0x02, bigSec(0x19, make([]byte, size-24-4))))
		if size-24 >= 0xFFFFFF {
			x = bigVol(uefigen.FFS2, 4096, 8192, bigFile(0xA1, 0x02, bigSec(0x19, make([]byte, size-24-8))))
		}
	case "n": // large file inside a nested volume
		inner := bigVol(uefigen.FFS2, 64, 0, bigFile(0xA1, 0x02, bigSec(0x19, make([]byte, size))))
		x = bigVol(uefigen.FFS2, 4096, 8192, small, bigFile(0xB1, 0x0B, bigSec(0x17, inner)))
	case "ab": // large file, then a sibling file with a (small) nested volume
		inner := bigVol(uefigen.FFS2, 64, 0, small)
		x = bigVol(uefigen.FFS2, 4096, 8192, bigFile(0xA1, 0x02, bigSec(0x19, make([]byte, size))),
			bigFile(0xB1, 0x0B, bigSec(0x17, inner)))
	case "au": // large file, then a sibling file whose nested volume has a file system fiano does not parse
		var other [16]byte
		for i := range other {
			other[i] = 0x5A
		}
		inner := bigVol(other, 64, 128)
		x = bigVol(uefigen.FFS2, 4096, 8192, bigFile(0xA1, 0x02, bigSec(0x19, make([]byte, size))),
			bigFile(0xB1, 0x0B, bigSec(0x17, inner)))
	case "z", "l": // a compressed section whose total size (24 + encoded payload) is `size`
		kind := 3
		if args[0] == "l" {
			kind = 1
		}
		seed := uint64(1)
		if len(args) > 2 {
			seed = UnN(args[2])
		}
		sec, got := bigCompressed(kind, size, seed)
		if sec == nil {
			return "harness-error cannot-build-section"
		}
		if got != size {
			return fmt.Sprintf("skip") // the encoder's output could not be steered to the wanted size
		}
		x = bigVol(uefigen.FFS2, 4096, 8192, small, bigFile(0xD1, 0x02, sec))
		if r := roundtripCheck(x); r != "ok" {
			return fmt.Sprintf("%s [16MiB-%s-%s]", r, args[0], args[1])
		}
		return "ok"
	default:
		return "harness-error shape"
	}
	if r := deepCheck(x, true); r != "ok" {
		return fmt.Sprintf("%s [16MiB-%s-%s]", r, args[0], args[1])
	}
	if r := fixedCheck(x, true); r != "ok" {
		return fmt.Sprintf("%s [16MiB-%s-%s]", r, args[0], args[1])
	}
	return "ok"
}

// noise: incompressible bytes from the deterministic generator (8 bytes per step)
func noise(seed uint64, n int) []byte {
	r := NewRng(seed)
	b := make([]byte, n+8)
	for i := 0; i < n; i += 8 {
		binary.LittleEndian.PutUint64(b[i:], r.U64())
	}
	return b[:n]
}

// gdSection: GUID-defined section in the header form its size demands (8-byte common header and
// DataOffset 28 from 0xFFFFFF bytes on)
func gdSection(kind int, attrs uint16, payload []byte) []byte {
	g := uefigen.CodecGUID(kind)
	n := 24 + len(payload)
	var h []byte
	doff := 24
	if n >= 0xFFFFFF {
		n += 4
		doff = 28
		h = []byte{0xff, 0xff, 0xff, 0x02, 0, 0, 0, 0}
		binary.LittleEndian.PutUint32(h[4:], uint32(n))
	} else {
		h = []byte{byte(n), byte(n >> 8), byte(n >> 16), 0x02}
	}
	h = append(h, g[:]...)
	h = binary.LittleEndian.AppendUint16(h, uint16(doff))
	h = binary.LittleEndian.AppendUint16(h, attrs)
	return append(h, payload...)
}

// bigCompressed builds a compressed section around one RAW section of noise such that
// 24 + len(encoded payload) is `want` (the quantity GenSecHeader compares with 0xFFFFFF); returns the
// section and the value reached.
func bigCompressed(kind, want int, seed uint64) ([]byte, int) {
	ns := noise(seed, want+64)
	n := want - 24 - 300
	var enc []byte
	for try := 0; try < 8; try++ {
		if n < 16 || n > len(ns) {
			return nil, 0
		}
		var err error
		enc, err = realEnc(kind, bigSec(0x19, ns[:n]))
		if err != nil {
			return nil, 0
		}
		if 24+len(enc) == want {
			break
		}
		n += want - (24 + len(enc))
	}
	return gdSection(kind, 1, enc), 24 + len(enc)
}

// roundtripCheck: deep-tree preservation, fixed point and the independent reader in one pass
// (each codec pass over 16 MiB costs a noticeable fraction of a second)
func roundtripCheck(x []byte) string {
	t, err := parse(x)
	if err != nil {
		return "FAIL input-does-not-parse " + err.Error()
	}
	d0 := deepOf(t)
	if !strings.Contains(d0, "S:2:") {
		return "FAIL input-section-not-decoded"
	}
	y, err := save(t)
	if err != nil {
		return "FAIL save-error " + err.Error()
	}
	t2, err := parse(y)
	if err != nil {
		return "FAIL saved-image-does-not-parse " + err.Error()
	}
	if d1 := deepOf(t2); d1 != d0 {
		return "FAIL deep-tree-differs " + firstDiff(d0, d1)
	}
	z, err := save(t2)
	if err != nil {
		return "FAIL second-save-fails " + err.Error()
	}
	if !bytes.Equal(y, z) {
		return fmt.Sprintf("FAIL second-save-differs len %x vs %x", len(y), len(z))
	}
	if r := checkImage(y); r != "" {
		return "FAIL independent-check " + r
	}
	return "ok"
}
