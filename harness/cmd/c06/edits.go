package main

// edits.go — edit SEQUENCES inside one nested volume (p_edits) and the repack visitor (p_repack).
// Both judge the whole decompressed tree: what the edit names changes, everything else stays.

import (
	"bytes"
	"fmt"
	"os"
	"strings"

	"github.com/linuxboot/fiano/pkg/compression"
	"github.com/linuxboot/fiano/pkg/guid"
	"github.com/linuxboot/fiano/pkg/uefi"
	"github.com/linuxboot/fiano/pkg/visitors"
	. "verifharness/common"
	"verifharness/uefigen"
)

// spaceRefusal judges an "out of space" error of Assemble: it is legitimate only if some fixed-size
// volume — one that sits directly in the BIOS region — really cannot hold its files as they are now, laid
// out by the rules of the format (8-byte placement, data alignment with the pad-file gap rule). A volume
// inside a firmware-volume-image section is resizable and must never be the one that is full (its
// Resizable flag is not consulted: that the parser sets it is part of what is checked).
func spaceRefusal(t uefi.Firmware, err error) bool {
	if err == nil || !strings.Contains(err.Error(), "out of space") {
		return false
	}
	full := false
	var walk func(f uefi.Firmware)
	walk = func(f uefi.Firmware) {
		switch n := f.(type) {
		case *uefi.BIOSRegion:
			for _, e := range n.Elements {
				walk(e.Value)
			}
		case *uefi.FirmwareVolume:
			{
				off := int(n.DataOffset)
				for _, x := range n.Files {
					off = (off + 7) &^ 7
					hl := 24
					if x.Header.Attributes&1 != 0 {
						hl = 32
					}
					if a := uefigen.AttrAlign(uint8(x.Header.Attributes)); a != 1 {
						data := (off + hl + a - 1) / a * a
						if gap := data - hl - off; gap >= 8 && gap < 24 {
							data = (data + 1 + a - 1) / a * a
						}
						off = data - hl
					}
					off += len(x.Buf())
				}
				if uint64(off) > n.Length {
					full = true
				}
			}
			// nested volumes are not visited
		}
	}
	walk(t)
	return full
}

func validateTree(t uefi.Firmware) string {
	val := &visitors.Validate{}
	if err := val.Run(t); err != nil {
		return "FAIL validate-error " + err.Error()
	}
	for _, e := range val.Errors {
		// see pEdit: Validate's body-checksum test is a known false alarm (C09's subject); the body
		// checksum is verified by the independent reader
		if strings.Contains(e.Error(), "body checksum failure! sum was") {
			continue
		}
		return "FAIL validate " + e.Error()
	}
	return ""
}

func runCLI(t uefi.Firmware, cli ...string) error {
	vs, err := visitors.ParseCLI(cli)
	if err != nil {
		return fmt.Errorf("harness-error cli %v", err)
	}
	return visitors.ExecuteCLI(t, vs)
}

func hasGUID(l []guid.GUID, g guid.GUID) bool {
	for _, x := range l {
		if x == g {
			return true
		}
	}
	return false
}

// p_edits <cfg> <img> <step>...: a sequence of edits inside ONE nested volume, with saves in between.
//
//	r<guid16>            remove GUID
//	i<guid16>:<file>     insert file <file> after GUID
//	R<guid16>            remove EVERY (non-pad) file of the volume that holds GUID, one remove each, no padding
//	s                    save, re-parse, judge; go on with the re-parsed tree
//	S                    save, re-parse, judge; go on with the SAME in-memory tree ("save a ... save b")
//
// A final s is implied. Judged after every save: the volume holds exactly the expected file sequence,
// the untouched files have their old decompressed content, the inserted files their bytes, everything
// outside the volume prints as before, the volume has grown in whole blocks only, all sizes and checksums
// are consistent (fiano's validator and the independent reader), and the written image is a fixed point.
func pEdits(args []string) string {
	nestedVols = map[*uefi.FirmwareVolume]bool{}
	if !setCfg(args[0]) {
		return "skip"
	}
	steps := append(append([]string{}, args[2:]...), "s")
	t, err := parse(UnH(args[1]))
	if err != nil {
		return "skip"
	}
	allow := undecodedPayloads(t)
	if len(steps) < 2 || len(steps[0]) < 33 {
		return "harness-error steps"
	}
	var g0 guid.GUID
	copy(g0[:], UnH(steps[0][1:33]))
	var ls []loc
	findFiles(t, nil, g0, &ls)
	if len(ls) != 1 || ls[0].fv == nil || !ls[0].nested {
		return "skip" // the first target must be one file of a nested volume
	}
	inner := ls[0].fv
	if !inner.Resizable {
		return "FAIL nested-volume-not-resizable"
	}
	if len(inner.Blocks) == 0 || inner.Blocks[0].Size == 0 {
		return "skip"
	}
	bs := uint64(inner.Blocks[0].Size)
	oldLen := inner.Length
	want := nonPadGUIDs(inner)
	content := map[guid.GUID]string{} // decompressed content of the files that are there from the start
	for _, f := range inner.Files {
		if f.Header.Type != uefi.FVFileTypePad {
			content[f.Header.GUID] = deepOf(f)
		}
	}
	skeleton := deepWith(t, map[uefi.Firmware]string{inner: "@"})
	encl, enclIdx := enclosingFile(t, inner) // to find the volume again when it has no file left
	inserted := map[guid.GUID][]byte{}
	var removed []guid.GUID
	var tmpfiles []string
	defer func() {
		for _, f := range tmpfiles {
			os.Remove(f)
		}
	}()
	dirty := false
	for si, st := range steps {
		switch st[0] {
		case 'r':
			var g guid.GUID
			copy(g[:], UnH(st[1:33]))
			if !hasGUID(want, g) || len(want) < 2 {
				return "skip" // emptying a volume is another property's subject
			}
			if err := runCLI(t, "remove", g.String()); err != nil {
				return fmt.Sprintf("FAIL edit-error step %d %v", si, err)
			}
			var nw []guid.GUID
			for _, x := range want {
				if x != g {
					nw = append(nw, x)
				}
			}
			want = nw
			removed = append(removed, g)
			delete(inserted, g)
			dirty = true
		case 'R':
			var g guid.GUID
			copy(g[:], UnH(st[1:33]))
			if !hasGUID(want, g) || encl == nil {
				return "skip"
			}
			for _, x := range want {
				if err := runCLI(t, "remove", x.String()); err != nil {
					return fmt.Sprintf("FAIL edit-error step %d %v", si, err)
				}
				removed = append(removed, x)
				delete(inserted, x)
			}
			want = nil
			dirty = true
		case 'i':
			var g, ng guid.GUID
			copy(g[:], UnH(st[1:33]))
			nb := UnH(st[34:])
			copy(ng[:], nb[:16])
			var dup []loc
			findFiles(t, nil, ng, &dup)
			if !hasGUID(want, g) || len(dup) != 0 {
				return "skip"
			}
			tmp, err := os.CreateTemp("", "verif-c06-*.ffs")
			if err != nil {
				return "harness-error tmpfile"
			}
			tmpfiles = append(tmpfiles, tmp.Name())
			_, _ = tmp.Write(nb)
			tmp.Close()
			if err := runCLI(t, "insert", "file", tmp.Name(), "after", g.String()); err != nil {
				return fmt.Sprintf("FAIL edit-error step %d %v", si, err)
			}
			var nw []guid.GUID
			for _, x := range want {
				nw = append(nw, x)
				if x == g {
					nw = append(nw, ng)
				}
			}
			want = nw
			inserted[ng] = nb
			for i, x := range removed { // a removed GUID may come back
				if x == ng {
					removed = append(removed[:i], removed[i+1:]...)
					break
				}
			}
			dirty = true
		case 's', 'S':
			if !dirty && si == len(steps)-1 {
				break // nothing since the last save
			}
			y, err := save(t)
			if err != nil {
				if spaceRefusal(t, err) {
					return "skip" // the only legitimate refusal: the enclosing fixed-size volume is full
				}
				return fmt.Sprintf("FAIL save-after-edit step %d %v", si, err)
			}
			t2, err := parse(y)
			if err != nil {
				return fmt.Sprintf("FAIL edited-image-does-not-parse step %d %v", si, err)
			}
			var inner2 *uefi.FirmwareVolume
			if len(want) > 0 {
				var al []loc
				findFiles(t2, nil, want[0], &al)
				if len(al) != 1 || al[0].fv == nil {
					return fmt.Sprintf("FAIL edit-not-visible step %d anchor-file-missing", si)
				}
				inner2 = al[0].fv
			} else {
				// the emptied volume: the enclIdx-th volume under the file that enclosed it
				var el []loc
				findFiles(t2, nil, encl.Header.GUID, &el)
				if len(el) != 1 {
					return fmt.Sprintf("FAIL edit-not-visible step %d enclosing-file-missing", si)
				}
				vs := volumesUnder(el[0].file)
				if enclIdx >= len(vs) {
					return fmt.Sprintf("FAIL edit-not-visible step %d emptied-volume-missing", si)
				}
				inner2 = vs[enclIdx]
				nestedVols[inner2] = true
			}
			got := nonPadGUIDs(inner2)
			if len(got) != len(want) {
				return fmt.Sprintf("FAIL edit-not-visible step %d files %d want %d", si, len(got), len(want))
			}
			for i := range got {
				if got[i] != want[i] {
					return fmt.Sprintf("FAIL edit-not-visible step %d file %d", si, i)
				}
			}
			for _, g := range removed {
				var gone []loc
				findFiles(t2, nil, g, &gone)
				if len(gone) != 0 {
					return fmt.Sprintf("FAIL removed-file-still-present step %d", si)
				}
			}
			for _, f := range inner2.Files {
				if f.Header.Type == uefi.FVFileTypePad {
					continue
				}
				if nb, ok := inserted[f.Header.GUID]; ok {
					if !bytes.Equal(f.Buf(), nb) {
						return fmt.Sprintf("FAIL inserted-file-differs step %d", si)
					}
				} else if d := deepOf(f); d != content[f.Header.GUID] {
					return fmt.Sprintf("FAIL untouched-file-content-differs step %d %s", si, firstDiff(content[f.Header.GUID], d))
				}
			}
			if d := deepWith(t2, map[uefi.Firmware]string{inner2: "@"}); d != skeleton {
				return fmt.Sprintf("FAIL content-outside-the-edited-volume-differs step %d %s", si, firstDiff(skeleton, d))
			}
			// the nested volume grew in whole blocks only
			if !inner2.Resizable {
				return "FAIL inner-volume-not-nested"
			}
			if len(inner2.Blocks) == 0 || uint64(inner2.Blocks[0].Size) != bs {
				return "FAIL block-size-changed"
			}
			total := uint64(0)
			for _, b := range inner2.Blocks {
				total += uint64(b.Count) * uint64(b.Size)
			}
			if inner2.Length < oldLen || (inner2.Length-oldLen)%bs != 0 || inner2.Length != total ||
				uint64(len(inner2.Buf())) != inner2.Length {
				return fmt.Sprintf("FAIL inner-length step %d %x old %x bs %x count %x", si, inner2.Length, oldLen, bs, inner2.Blocks[0].Count)
			}
			if inner2.Length > oldLen {
				if used := inner2.Length - inner2.FreeSpace; used+bs <= inner2.Length {
					return fmt.Sprintf("FAIL inner-grown-too-much step %d len %x used %x bs %x", si, inner2.Length, used, bs)
				}
			}
			if r := validateTree(t2); r != "" {
				return fmt.Sprintf("%s [step %d]", r, si)
			}
			if r := checkImageAllow(y, allow); r != "" {
				return fmt.Sprintf("FAIL independent-check step %d %s", si, r)
			}
			if si == len(steps)-1 {
				z, err := save(t2)
				if err != nil || !bytes.Equal(y, z) {
					return fmt.Sprintf("FAIL edited-image-not-a-fixed-point err=%v", err)
				}
			}
			oldLen = inner2.Length
			if st[0] == 's' {
				t = t2
			}
			dirty = false
		default:
			return "harness-error step"
		}
	}
	return "ok"
}

// volumesUnder lists the volumes reached through the sections of f (not through further volumes), in order.
func volumesUnder(f uefi.Firmware) []*uefi.FirmwareVolume {
	var out []*uefi.FirmwareVolume
	var walk func(uefi.Firmware)
	walk = func(n uefi.Firmware) {
		switch x := n.(type) {
		case *uefi.File:
			for _, s := range x.Sections {
				walk(s)
			}
		case *uefi.Section:
			for _, e := range x.Encapsulated {
				walk(e.Value)
			}
		case *uefi.FirmwareVolume:
			out = append(out, x)
		}
	}
	walk(f)
	return out
}

// enclosingFile finds the file whose sections hold the volume v directly, and v's index among the
// volumes under that file.
func enclosingFile(t uefi.Firmware, v *uefi.FirmwareVolume) (*uefi.File, int) {
	var res *uefi.File
	idx := 0
	var walk func(uefi.Firmware)
	walk = func(n uefi.Firmware) {
		switch x := n.(type) {
		case *uefi.BIOSRegion:
			for _, e := range x.Elements {
				walk(e.Value)
			}
		case *uefi.FirmwareVolume:
			for _, f := range x.Files {
				for i, u := range volumesUnder(f) {
					if u == v {
						res, idx = f, i
					}
					walk(u)
				}
			}
		}
	}
	walk(t)
	return res, idx
}

// ---------- repack ----------

func isLZMAGUID(g guid.GUID) bool { return g == compression.LZMAGUID || g == compression.LZMAX86GUID }

// flatFile: the decompressed content a file must have after repack: its first-level LZMA / LZMAX86
// sections are replaced by the sections they hold (a section that holds nothing — it was not decoded —
// has nothing to hand up and stays).
func flatFile(n *uefi.File) string {
	if len(n.Sections) == 0 && n.NVarStore == nil {
		return deepOf(n)
	}
	var sb strings.Builder
	fmt.Fprintf(&sb, "F:%x:%x:%x:%x(", n.Header.GUID[:], uint8(n.Header.Type), uint8(n.Header.Attributes)&^1, uint8(n.Header.State))
	for _, s := range n.Sections {
		if gd := gdOf(s); gd != nil && isLZMAGUID(gd.GUID) && len(s.Encapsulated) > 0 {
			for _, e := range s.Encapsulated {
				deep(e.Value, &sb)
			}
			continue
		}
		deep(s, &sb)
	}
	sb.WriteString(")")
	return sb.String()
}

// p_repack <cfg> <img> <mode> <guid16>: "repack" of the volume that holds file GUID (mode f), or of the
// volume whose name (extended header) is GUID (mode v), then save and re-parse. The volume must then hold
// one volume-image file: LZMA section > FV-image section > new volume with the old files, per-file LZMA
// compression removed, nothing else lost or changed; whole blocks, consistent sizes and checksums, fixed point.
func pRepack(args []string) string {
	nestedVols = map[*uefi.FirmwareVolume]bool{}
	if !setCfg(args[0]) {
		return "skip"
	}
	t, err := parse(UnH(args[1]))
	if err != nil {
		return "skip"
	}
	allow := undecodedPayloads(t)
	var g guid.GUID
	copy(g[:], UnH(args[3]))
	var pv *uefi.FirmwareVolume
	switch args[2] {
	case "f":
		var ls []loc
		findFiles(t, nil, g, &ls)
		if len(ls) != 1 || ls[0].fv == nil {
			return "skip"
		}
		pv = ls[0].fv
	case "v":
		n := 0
		var walk func(f uefi.Firmware)
		walk = func(f uefi.Firmware) {
			switch x := f.(type) {
			case *uefi.BIOSRegion:
				for _, e := range x.Elements {
					walk(e.Value)
				}
			case *uefi.FirmwareVolume:
				if x.FVName == g {
					pv = x
					n++
				}
				for _, y := range x.Files {
					walk(y)
				}
			case *uefi.File:
				if x.Header.GUID == g {
					n++
				}
				for _, y := range x.Sections {
					walk(y)
				}
			case *uefi.Section:
				for _, e := range x.Encapsulated {
					walk(e.Value)
				}
			}
		}
		walk(t)
		if n != 1 || pv == nil {
			return "skip" // the name must select exactly one volume
		}
	default:
		return "harness-error mode"
	}
	if len(nonPadGUIDs(pv)) == 0 || len(pv.Blocks) == 0 || pv.Blocks[0].Size == 0 {
		return "skip"
	}
	var flat strings.Builder
	for _, f := range pv.Files {
		if f.Header.Type != uefi.FVFileTypePad {
			flat.WriteString(flatFile(f))
		}
	}
	head := volHead(pv)
	polarity := pv.Attributes & 0x800
	first := nonPadGUIDs(pv)[0]
	skeleton := deepWith(t, map[uefi.Firmware]string{pv: "@"})
	if undecodedLZMA(pv) && repackDropsUndecoded {
		return "skip"
	}
	if err := runCLI(t, "repack", g.String()); err != nil {
		if spaceRefusal(t, err) {
			return "skip"
		}
		return "FAIL repack-error " + err.Error()
	}
	y, err := save(t)
	if err != nil {
		if spaceRefusal(t, err) {
			return "skip" // per-file compression of tiny files can be smaller than one compressed volume
		}
		return "FAIL save-after-repack " + err.Error()
	}
	t2, err := parse(y)
	if err != nil {
		return "FAIL repacked-image-does-not-parse " + err.Error()
	}
	// locate the repacked volume again: through any of its files
	var al []loc
	findFiles(t2, nil, first, &al)
	if len(al) != 1 || al[0].fv == nil {
		return "FAIL repack-lost-files first-file-missing"
	}
	nv := al[0].fv
	// its holder: FV-image section < LZMA section < volume-image file < the volume that was repacked
	var holder *uefi.File
	var outer *uefi.FirmwareVolume
	var find func(f uefi.Firmware, fv *uefi.FirmwareVolume, file *uefi.File) bool
	find = func(f uefi.Firmware, fv *uefi.FirmwareVolume, file *uefi.File) bool {
		switch x := f.(type) {
		case *uefi.BIOSRegion:
			for _, e := range x.Elements {
				if find(e.Value, nil, nil) {
					return true
				}
			}
		case *uefi.FirmwareVolume:
			if x == nv {
				holder, outer = file, fv
				return true
			}
			for _, y := range x.Files {
				if find(y, x, y) {
					return true
				}
			}
		case *uefi.File:
			for _, y := range x.Sections {
				if find(y, fv, file) {
					return true
				}
			}
		case *uefi.Section:
			for _, e := range x.Encapsulated {
				if find(e.Value, fv, file) {
					return true
				}
			}
		}
		return false
	}
	find(t2, nil, nil)
	if holder == nil || outer == nil {
		return "FAIL repack-result-not-nested"
	}
	if holder.Header.Type != uefi.FVFileTypeVolumeImage || len(holder.Sections) != 1 {
		return fmt.Sprintf("FAIL repack-holder type %x sections %d", uint8(holder.Header.Type), len(holder.Sections))
	}
	// the file repack creates is a valid file (state bits as the volume's erase polarity stores them):
	// a reader that honours file states would otherwise not see the nested volume at all
	validState := uint8(0x07)
	if polarity != 0 {
		validState = 0xF8
	}
	if uint8(holder.Header.State) != validState {
		return fmt.Sprintf("FAIL repack-holder-state %x", uint8(holder.Header.State))
	}
	expect := fmt.Sprintf("%s(F:%x:%x:%x:%x(S:2:%x:1:LZMA(S:17(%s(%s)))))", head, holder.Header.GUID[:], uint8(holder.Header.Type),
		uint8(holder.Header.Attributes)&^1, uint8(holder.Header.State), compression.LZMAGUID[:], volHead(nv), flat.String())
	want := strings.Replace(skeleton, "@", expect, 1)
	if got := deepOf(t2); got != want {
		return "FAIL repacked-tree-differs " + firstDiff(want, got)
	}
	if nv.Attributes&0x800 != polarity {
		return "FAIL repack-erase-polarity-changed"
	}
	if !nv.Resizable || len(nv.Blocks) == 0 || nv.Blocks[0].Size == 0 || nv.Length%uint64(nv.Blocks[0].Size) != 0 ||
		uint64(len(nv.Buf())) != nv.Length {
		return fmt.Sprintf("FAIL repack-new-volume-length %x", nv.Length)
	}
	if r := validateTree(t2); r != "" {
		return r
	}
	if r := checkImageAllow(y, allow); r != "" {
		return "FAIL independent-check " + r
	}
	z, err := save(t2)
	if err != nil || !bytes.Equal(y, z) {
		return fmt.Sprintf("FAIL repacked-image-not-a-fixed-point err=%v", err)
	}
	return "ok"
}

// repackDropsUndecoded: /repo HEAD's removeFileCompression deletes a first-level section that carries the
// LZMA or LZMAX86 GUID but was not decoded by Parse (processing-required bit clear, payload that does not
// decode, uefi.DisableDecompression): it has no children to move up and is not kept either. Repair:
// fixes/C06-repack-undecoded-section.diff. While this is true such volumes are not judged (skip); set it
// to false once the repair is in /repo, the oracle then demands that the section survives.
const repackDropsUndecoded = false

func undecodedLZMA(pv *uefi.FirmwareVolume) bool {
	for _, f := range pv.Files {
		for _, s := range f.Sections {
			if gd := gdOf(s); gd != nil && isLZMAGUID(gd.GUID) && len(s.Encapsulated) == 0 {
				return true
			}
		}
	}
	return false
}
