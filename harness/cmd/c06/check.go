package main

// check.go — an independent reader of the saved bytes (no use of fiano's parser): walks volumes,
// files and sections, looks through compressed sections with the codec, and checks that every
// size field, checksum, alignment and block map is consistent with the bytes that are there.

import (
	"bytes"
	"crypto/sha1"
	"encoding/binary"
	"fmt"

	"github.com/linuxboot/fiano/pkg/compression"
	"github.com/linuxboot/fiano/pkg/guid"
	"github.com/linuxboot/fiano/pkg/uefi"
	"verifharness/uefigen"
)

func ckSum8(b []byte) byte {
	var s byte
	for _, x := range b {
		s += x
	}
	return s
}

func ckSum16(b []byte) uint16 {
	var s uint16
	for i := 0; i+1 < len(b); i += 2 {
		s += uint16(b[i]) | uint16(b[i+1])<<8
	}
	return s
}

func rd3(b []byte) int { return int(b[0]) | int(b[1])<<8 | int(b[2])<<16 }

func allFF(b []byte) bool {
	for _, x := range b {
		if x != 0xFF {
			return false
		}
	}
	return true
}

var sectioned = map[byte]bool{2: true, 3: true, 4: true, 5: true, 7: true, 8: true, 9: true, 10: true, 11: true,
	12: true, 13: true, 14: true, 15: true}

// allowUndecodable: payloads (sha1) of compressed sections that did not decode in the INPUT image: fiano
// keeps such a section as an opaque leaf, so the same payload may turn up undecodable in the output.
// Any other payload under a codec GUID with the processing-required bit must decode.
var allowUndecodable map[[20]byte]bool

// undecodedPayloads collects them from a parsed tree (before it is edited or saved).
func undecodedPayloads(t uefi.Firmware) map[[20]byte]bool {
	m := map[[20]byte]bool{}
	walkSections(t, func(s *uefi.Section) {
		if gd := gdOf(s); gd != nil && len(s.Encapsulated) == 0 && int(gd.DataOffset) <= len(s.Buf()) {
			m[sha1.Sum(s.Buf()[gd.DataOffset:])] = true
		}
	})
	return m
}

func checkImageAllow(img []byte, allow map[[20]byte]bool) string {
	allowUndecodable = allow
	defer func() { allowUndecodable = nil }()
	return checkImage(img)
}

func checkImage(img []byte) string {
	for off := 0; off+64 <= len(img); {
		if string(img[off+40:off+44]) == "_FVH" {
			l := int(binary.LittleEndian.Uint64(img[off+32:]))
			if l < 64 || off+l > len(img) {
				return fmt.Sprintf("volume at %x: length %x beyond image", off, l)
			}
			if r := checkVol(img[off:off+l], 0); r != "" {
				return fmt.Sprintf("volume at %x: %s", off, r)
			}
			off += l
		} else {
			off += 8
		}
	}
	return ""
}

func checkVol(b []byte, depth int) string {
	if len(b) < 64 {
		return "volume too short"
	}
	length := int(binary.LittleEndian.Uint64(b[32:]))
	if length != len(b) {
		return fmt.Sprintf("volume length field %x but %x bytes present", length, len(b))
	}
	hl := int(binary.LittleEndian.Uint16(b[48:]))
	if hl > len(b) || hl%2 != 0 || ckSum16(b[:hl]) != 0 {
		return "volume header checksum"
	}
	total := 0
	p := 56
	for ; ; p += 8 {
		if p+8 > hl {
			return "block map not terminated inside the header"
		}
		c, s := int(binary.LittleEndian.Uint32(b[p:])), int(binary.LittleEndian.Uint32(b[p+4:]))
		if c == 0 && s == 0 {
			break
		}
		total += c * s
	}
	if total != length {
		return fmt.Sprintf("block map covers %x, length is %x", total, length)
	}
	fs := b[16:32]
	isFFS3 := bytes.Equal(fs, uefigen.FFS3[:])
	if !bytes.Equal(fs, uefigen.FFS2[:]) && !isFFS3 {
		return ""
	}
	doff := hl
	if eo := int(binary.LittleEndian.Uint16(b[52:])); eo != 0 {
		if eo+20 > length {
			return "extended header beyond volume"
		}
		doff = eo + int(binary.LittleEndian.Uint32(b[eo+16:]))
	}
	off := (doff + 7) &^ 7
	for {
		off = (off + 7) &^ 7
		if off+24 > length {
			break
		}
		if allFF(b[off : off+24]) {
			if !allFF(b[off:]) {
				return fmt.Sprintf("free space at %x not erased", off)
			}
			break
		}
		attr := b[off+19]
		size := rd3(b[off+20:])
		fhl := 24
		if size == 0xFFFFFF {
			if attr&1 == 0 || off+32 > length {
				return fmt.Sprintf("file at %x: extended size without large attribute", off)
			}
			size = int(binary.LittleEndian.Uint64(b[off+24:]))
			fhl = 32
			if !isFFS3 {
				return fmt.Sprintf("file at %x: large file in an FFS2 volume", off)
			}
		} else if attr&1 != 0 {
			return fmt.Sprintf("file at %x: large attribute without extended size", off)
		}
		if size < fhl || off+size > length {
			return fmt.Sprintf("file at %x: size %x does not fit (volume %x)", off, size, length)
		}
		h := append([]byte{}, b[off:off+fhl]...)
		h[17], h[23] = 0, 0
		if ckSum8(h) != 0 {
			return fmt.Sprintf("file at %x: header checksum", off)
		}
		body := b[off+fhl : off+size]
		if attr&0x40 != 0 {
			if ckSum8(body)+b[off+17] != 0 {
				return fmt.Sprintf("file at %x: body checksum", off)
			}
		} else if b[off+17] != 0xAA {
			return fmt.Sprintf("file at %x: body checksum byte is not 0xAA", off)
		}
		if a := uefigen.AttrAlign(attr); (off+fhl)%a != 0 {
			return fmt.Sprintf("file at %x: data not aligned to %x", off, a)
		}
		if sectioned[b[off+18]] {
			if r := checkSections(body, depth); r != "" {
				return fmt.Sprintf("file at %x: %s", off, r)
			}
		}
		off += size
	}
	return ""
}

func checkSections(body []byte, depth int) string {
	if depth > 40 {
		return "nesting too deep"
	}
	for off := 0; off < len(body); {
		if off+4 > len(body) {
			return fmt.Sprintf("section at %x: header truncated", off)
		}
		size := rd3(body[off:])
		typ := body[off+3]
		hl := 4
		if size == 0xFFFFFF {
			if off+8 > len(body) {
				return fmt.Sprintf("section at %x: extended header truncated", off)
			}
			size = int(binary.LittleEndian.Uint32(body[off+4:]))
			hl = 8
		}
		if size < hl || off+size > len(body) {
			return fmt.Sprintf("section at %x: size %x does not fit (%x available)", off, size, len(body)-off)
		}
		sec := body[off : off+size]
		switch typ {
		case 0x02:
			if size < hl+20 {
				return fmt.Sprintf("section at %x: GUID-defined header truncated", off)
			}
			var g guid.GUID
			copy(g[:], sec[hl:hl+16])
			doff := int(binary.LittleEndian.Uint16(sec[hl+16:]))
			attrs := binary.LittleEndian.Uint16(sec[hl+18:])
			if doff > size || doff < hl+20 {
				return fmt.Sprintf("section at %x: data offset %x outside the section", off, doff)
			}
			if attrs&1 != 0 && kindOfGUID(g) != 0 {
				plain, err := compression.CompressorFromGUID(&g).Decode(append([]byte{}, sec[doff:]...))
				if err != nil {
					if !allowUndecodable[sha1.Sum(sec[doff:])] {
						return fmt.Sprintf("section at %x: payload does not decode: %v", off, err)
					}
				} else if r := checkSections(plain, depth+1); r != "" {
					return fmt.Sprintf("section at %x (decoded): %s", off, r)
				}
			}
		case 0x17:
			if r := checkVol(sec[hl:], depth+1); r != "" {
				return fmt.Sprintf("section at %x: nested %s", off, r)
			}
		}
		next := (off + size + 3) &^ 3
		for i := off + size; i < next && i < len(body); i++ {
			if body[i] != 0 {
				return fmt.Sprintf("section padding at %x not zero", i)
			}
		}
		off = next
	}
	return ""
}
