// c12: flash images of realistic size.  The model works on lists and the other generator keeps
// images below 20 blocks; here the region table holds block numbers that need both bytes of the
// 16-bit fields and the BIOS region is at, just below or above 16 MiB (the size tighten_me
// warns about - a warning, not a refusal).  Only the property oracle runs on them.
package main

import (
	"encoding/binary"

	"github.com/linuxboot/fiano/pkg/uefi"
	. "verifharness/common"
)

func genBig(r *Rng) (img []byte, pol byte) {
	pol = 0xFF
	const mib16 = 16 * 1024 * 1024 / blk // blocks
	pre := r.Pick(0, 0, 1, 0x120)
	meBlocks := r.Range(2, 6)
	var biosBlocks int
	switch r.Intn(5) {
	case 0: // exactly 16 MiB before: above after any freed block
		biosBlocks = mib16
	case 1: // already above
		biosBlocks = mib16 + r.Pick(1, 2, 0x80)
	case 2: // just below: reaches or passes 16 MiB depending on the freed blocks
		biosBlocks = mib16 - r.Range(1, meBlocks)
	case 3: // small BIOS region far up in a big flash (block numbers above 0xFF)
		pre = r.Pick(0x100, 0x1FE, 0x2A0)
		biosBlocks = r.Range(1, 4)
	default:
		biosBlocks = mib16 + 1
	}
	post := r.Pick(0, 0, 1)
	n := 1 + pre + meBlocks + biosBlocks + post
	img = make([]byte, n*blk)
	for i := range img {
		img[i] = 0xFF
	}
	sigAt := r.Pick(16, 16, 0)
	copy(img[sigAt:], uefi.FlashSignature)
	dms := sigAt + 4
	fill(r, img[dms:dms+16], 2, 0xFF)
	regBase := r.Pick(4, 4, 0x10, 0x40)
	masBase := regBase + 4 + r.Intn(3)
	img[dms+2], img[dms+3], img[dms+4] = byte(regBase), 0, byte(masBase)
	rs := regBase * 16
	for i := 0; i < 15; i++ {
		putSlot(img, rs, i, slotT{0x7FFF, 0})
	}
	img[rs], img[rs+1] = 0, 0
	binary.LittleEndian.PutUint16(img[rs+2:], uint16(r.U64()))
	fill(r, img[masBase*16:masBase*16+12], 2, 0xFF)
	cur := 1
	if pre > 0 {
		putSlot(img, rs, 2+r.Intn(13), slotT{uint16(cur), uint16(cur + pre - 1)})
		fill(r, img[cur*blk:(cur+pre)*blk], 1, pol)
		cur += pre
	}
	meB, meL := cur, cur+meBlocks-1
	cur += meBlocks
	biB, biL := cur, cur+biosBlocks-1
	cur += biosBlocks
	putSlot(img, rs, 0, slotT{uint16(biB), uint16(biL)})
	putSlot(img, rs, 1, slotT{uint16(meB), uint16(meL)})
	// ME region: a table with a few partitions; the last one ends in block 1 .. meBlocks
	me := img[meB*blk : (meL+1)*blk]
	var o meOpts
	o.tailDirtAt = -1
	o.fptAt = r.Pick(16, 16, 0)
	ne := r.Range(1, 4)
	tableEnd := o.fptAt + 32 + 32*ne
	endAt := blk*r.Range(0, meBlocks-1) + r.Pick(0x400, 0x800, 0xfff, 0x1000)
	if r.Chance(1, 6) {
		endAt = len(me) // nothing to free
	}
	for k := 0; k < ne; k++ {
		lo := tableEnd + r.Intn(endAt-tableEnd)
		o.entries = append(o.entries, part{uint32(lo), uint32(r.Intn(endAt - lo + 1))})
	}
	lo := tableEnd + r.Intn(endAt-tableEnd)
	o.entries[r.Intn(ne)] = part{uint32(lo), uint32(endAt - lo)}
	if r.Chance(1, 8) { // a non-erased byte in the space that would be freed
		if up := (endAt + blk - 1) / blk * blk; up < len(me) {
			o.tailDirtAt = r.Pick(up, len(me)-1, up+r.Intn(len(me)-up))
		}
	}
	buildME(r, me, pol, o)
	// BIOS region: erased padding and one opaque volume at the end or at the start
	b := img[biB*blk : (biL+1)*blk]
	sz := r.Pick(72, 128, 4096)
	if r.Chance(1, 3) {
		copy(b, mkFV(r, sz, pol))
	} else {
		copy(b[len(b)-sz:], mkFV(r, sz, pol))
	}
	return img, pol
}
