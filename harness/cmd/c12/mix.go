// c12: tighten_me inside a sequence of edits (quantifier: "sequences mixing tighten_me with
// other edits").  The only other edit that applies to the images of this generator (opaque
// volumes and paddings in the BIOS region) is create-fv, which is also what tighten_me exists
// for: the freed blocks are meant to receive a new volume.
package main

import (
	"bytes"
	"fmt"

	"github.com/linuxboot/fiano/pkg/uefi"
	"github.com/linuxboot/fiano/pkg/visitors"
	. "verifharness/common"
)

const mixGUID = "C1200000-0000-4000-8000-00000000C120"

// createFV runs the registered create-fv visitor the way utk does.
func createFV(f uefi.Firmware, abs, size uint64) (res string) {
	defer func() {
		if r := recover(); r != nil {
			res = "panic"
		}
	}()
	vs, e := visitors.ParseCLI([]string{"create-fv", fmt.Sprintf("%#x", abs), fmt.Sprintf("%#x", size), mixGUID})
	if e != nil {
		return "harness-error"
	}
	if e := visitors.ExecuteCLI(f, vs); e != nil {
		return ErrClass(e, errTable)
	}
	return "ok"
}

type padT struct{ abs, length uint64 }

// the paddings of the BIOS region of a freshly parsed image, as absolute ranges
func biosPads(t *uefi.FlashImage) (ps []padT) {
	for _, r := range t.Regions {
		if b, ok := r.Value.(*uefi.BIOSRegion); ok {
			for _, e := range b.Elements {
				if p, ok := e.Value.(*uefi.BIOSPadding); ok {
					ps = append(ps, padT{uint64(b.FRegion.BaseOffset()) + p.Offset, uint64(len(p.Buf()))})
				}
			}
		}
	}
	return ps
}

const minFV = 0x100 // create-fv needs room for the header, the block map and the name file

// p_mix pol sel img.  Hypotheses: those of p_tighten, tighten_me legal on the image (adjacent,
// partitions inside, tail erased), erase polarity 0xFF (create-fv writes volumes of that
// polarity).  tighten_me changes the two descriptor fields and nothing else, therefore
//   (a) for a create-fv E that is possible without tighten_me (target inside a padding of the
//       original BIOS region): E;tighten_me saves the bytes of E outside the descriptor and the
//       descriptor of tighten_me alone, tighten_me accepts, and tighten_me;E saves the same
//       file as E;tighten_me;
//   (b) the freed blocks are an erased padding at the start of the BIOS region: create-fv can
//       place a volume there, on the tree in memory and on the re-parsed file alike, and that
//       changes nothing but the bytes of the new volume.
// sel drives which padding / which blocks are used.
func pMix(args []string) string {
	polHint := byte(UnN(args[0]))
	sel := UnN(args[1])
	img := decImg(args[2])
	if polHint != 0xFF {
		return "skip"
	}
	d, ok := decodeDesc(img)
	if !ok || len(img)%blk != 0 {
		return "skip"
	}
	me, bios := d.slots[1], d.slots[0]
	in0, in1 := false, false
	for _, k := range declared(d, len(img)) {
		in0 = in0 || k == 0
		in1 = in1 || k == 1
	}
	if !in0 || !in1 || img[d.rs] != 0 || img[d.rs+1] != 0 || !(d.ms+12 <= d.rs || d.rs+64 <= d.ms) {
		return "skip"
	}
	fresh := func() (uefi.Firmware, *uefi.FlashImage) {
		g, e := parseImage(img)
		if e != nil {
			return nil, nil
		}
		t, ok := g.(*uefi.FlashImage)
		if !ok {
			return nil, nil
		}
		return g, t
	}
	fp, tp := fresh()
	if fp == nil || uefi.Attributes.ErasePolarity != 0xFF {
		return "skip"
	}
	if base0, r0 := save(fp); r0 != "ok" || !bytes.Equal(base0, img) {
		return "skip" // p_tighten reports it
	}
	if int(me.limit)+1 != int(bios.base) {
		return "skip"
	}
	meBytes := img[int(me.base)*blk : (int(me.limit)+1)*blk]
	var mx uint64
	if parts, _, has := decodeFPT(meBytes); has {
		mx = maxEnd(parts)
	}
	newEnd := (uint64(me.base)*blk + mx + blk - 1) / blk * blk
	if newEnd > uint64(me.limit+1)*blk || !allEq(img[newEnd:(int(me.limit)+1)*blk], 0xFF) {
		return "skip"
	}
	// tighten_me alone
	f0, _ := fresh()
	if f0 == nil {
		return "skip"
	}
	if r, _ := tighten(f0); r != "ok" {
		return "skip" // p_tighten reports it
	}
	out0, rs0 := save(f0)
	if rs0 != "ok" || len(out0) != len(img) {
		return "skip"
	}
	_, tp = fresh()
	pads := biosPads(tp)
	var big []padT
	for _, p := range pads {
		if p.length >= minFV+0x80 {
			big = append(big, p)
		}
	}
	did := false
	// (a) a volume created inside a padding of the original BIOS region
	if len(big) > 0 {
		p := big[int(sel%uint64(len(big)))]
		offIn := 8 * ((sel >> 8) % ((p.length-minFV)/8 + 1))
		size := minFV + 8*((sel>>20)%64)
		if r := (sel >> 28) % 4; r == 0 || offIn+size > p.length {
			size = p.length - offIn // up to the end of the padding
		}
		A := p.abs + offIn
		fr, _ := fresh()
		if fr != nil && createFV(fr, A, size) == "ok" {
			if ref, rr := save(fr); rr == "ok" && len(ref) == len(img) {
				did = true
				f1, _ := fresh()
				if r := createFV(f1, A, size); r != "ok" {
					return "FAIL create-fv-not-repeatable " + r
				}
				if r, _ := tighten(f1); r != "ok" {
					return "FAIL refused-after-create-fv " + r
				}
				o1, r1 := save(f1)
				if r1 != "ok" {
					return "FAIL save-after-create-fv-and-tighten-" + r1
				}
				if len(o1) != len(img) {
					return "FAIL size-changed-after-create-fv"
				}
				if !bytes.Equal(o1[4096:], ref[4096:]) {
					return "FAIL bytes-outside-descriptor-changed-after-create-fv"
				}
				if !bytes.Equal(o1[:4096], out0[:4096]) {
					return "FAIL descriptor-after-create-fv-differs-from-tighten-alone"
				}
				f2, _ := fresh()
				if r, _ := tighten(f2); r != "ok" {
					return "FAIL tighten-of-a-fresh-parse-" + r
				}
				if r := createFV(f2, A, size); r != "ok" {
					return "FAIL create-fv-in-an-old-padding-refused-after-tighten " + r
				}
				o2, r2 := save(f2)
				if r2 != "ok" {
					return "FAIL save-after-tighten-and-create-fv-" + r2
				}
				if !bytes.Equal(o2, o1) {
					return fmt.Sprintf("FAIL tighten-then-create-fv-differs-from-create-fv-then-tighten %s", firstDiff(o2, o1))
				}
			}
		}
	}
	// (b) a volume created in the freed blocks
	freedBlocks := (uint64(bios.base)*blk - newEnd) / blk
	if freedBlocks > 0 {
		j := (sel >> 32) % freedBlocks
		m := 1 + (sel>>40)%(freedBlocks-j)
		A, size := newEnd+j*blk, m*blk
		f3, _ := fresh()
		if r, _ := tighten(f3); r != "ok" {
			return "FAIL tighten-of-a-fresh-parse-" + r
		}
		if r := createFV(f3, A, size); r != "ok" {
			return "FAIL freed-blocks-not-usable-as-padding " + r
		}
		o3, r3 := save(f3)
		if r3 != "ok" {
			return "FAIL save-after-create-fv-in-freed-blocks-" + r3
		}
		if len(o3) != len(out0) || !bytes.Equal(o3[:A], out0[:A]) || !bytes.Equal(o3[A+size:], out0[A+size:]) {
			return "FAIL create-fv-in-freed-blocks-changed-other-bytes " + firstDiff(o3, out0)
		}
		if !bytes.Equal(o3[A+40:A+44], []byte("_FVH")) {
			return "FAIL no-volume-in-freed-blocks"
		}
		did = true
		// the same edit on the saved and re-parsed result of tighten_me
		if g, e := parseImage(out0); e == nil {
			if r := createFV(g, A, size); r != "ok" {
				return "FAIL freed-blocks-of-the-saved-image-not-usable-as-padding " + r
			}
			o4, r4 := save(g)
			if r4 != "ok" || !bytes.Equal(o4, o3) {
				return "FAIL create-fv-after-reparse-differs-from-create-fv-in-memory " + r4
			}
		}
	}
	if !did {
		return "skip"
	}
	return "ok"
}

func firstDiff(a, b []byte) string {
	if len(a) != len(b) {
		return fmt.Sprintf("len %x/%x", len(a), len(b))
	}
	for i := range a {
		if a[i] != b[i] {
			return fmt.Sprintf("at %x", i)
		}
	}
	return "-"
}
