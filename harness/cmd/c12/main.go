// c12: executor, property oracles and generator for property C12 (tighten_me).
package main

import (
	"bytes"
	"encoding/binary"
	"fmt"
	"os"
	"strconv"
	"strings"

	"github.com/linuxboot/fiano/pkg/uefi"
	"github.com/linuxboot/fiano/pkg/visitors"
	. "verifharness/common"
)

const blk = uefi.RegionBlockSize

// ---------- image argument encoding (run-length) ----------

// encImg: chunks separated by ','; plain hex or "BB*COUNT" (COUNT hex).
func encImg(b []byte) string {
	if len(b) == 0 {
		return "-"
	}
	var parts []string
	var lit []byte
	flush := func() {
		if len(lit) > 0 {
			parts = append(parts, H(lit))
			lit = nil
		}
	}
	for i := 0; i < len(b); {
		j := i
		for j < len(b) && b[j] == b[i] {
			j++
		}
		if j-i >= 12 {
			flush()
			parts = append(parts, fmt.Sprintf("%02x*%x", b[i], j-i))
		} else {
			lit = append(lit, b[i:j]...)
		}
		i = j
	}
	flush()
	return strings.Join(parts, ",")
}

func decImg(s string) []byte {
	if s == "-" || s == "" {
		return []byte{}
	}
	var out []byte
	for _, ch := range strings.Split(s, ",") {
		if k := strings.IndexByte(ch, '*'); k >= 0 {
			v, _ := strconv.ParseUint(ch[:k], 16, 8)
			n, _ := strconv.ParseUint(ch[k+1:], 16, 32)
			out = append(out, bytes.Repeat([]byte{byte(v)}, int(n))...)
		} else {
			out = append(out, UnH(ch)...)
		}
	}
	return out
}

// ---------- running the real code ----------

var quiet = false

// NewFlashImage prints "region ... out of bounds" on os.Stdout, which is the worker's
// protocol channel (the worker keeps its own handle on the real stdout).
func hush() {
	if !quiet {
		if f, err := os.OpenFile(os.DevNull, os.O_WRONLY, 0); err == nil {
			os.Stdout = f
		}
		quiet = true
	}
}

var errTable = [][2]string{
	{"too small to be firmware", "1"},
	{"flash signature not found", "2"},
	{"flash descriptor region out of bounds", "3"},
	{"no BIOS region: invalid region parameters", "4"},
	{"overlapping regions!", "5"},
	{"Firmware Volume size too small", "6"},
	{"conflicting erase polarities", "8"},
	{"invalid FV length", "9"},
	{"FV len 0", "a"},
	{"no IFD found", "b"},
	{"no ME region found", "c"},
	{"no BIOS region found", "d"},
	{"not contiguous", "e"},
	{"not erased", "f"},
	{"no firmware volumes in BIOS Region", "10"},
	{"gap between regions", "11"},
	{"gap between at end of flash", "12"},
	{"is not a multiple of the block size", "13"},
	{"EOF", "7"},
}

func parseImage(img []byte) (uefi.Firmware, error) {
	hush()
	uefi.Attributes.ErasePolarity = 0xF0 // poisoned, as uefi.Fuzz and a fresh process have it
	buf := append([]byte{}, img...)
	return uefi.Parse(buf)
}

// tighten runs the registered tighten_me visitor the way utk does.
func tighten(f uefi.Firmware) (res string, err error) {
	defer func() {
		if r := recover(); r != nil {
			res = "panic"
			err = fmt.Errorf("panic: %v", r)
		}
	}()
	vs, e := visitors.ParseCLI([]string{"tighten_me"})
	if e != nil {
		return "harness-error", e
	}
	if e := visitors.ExecuteCLI(f, vs); e != nil {
		return ErrClass(e, errTable), e
	}
	return "ok", nil
}

// save is visitors.Save without the file: Assemble, then the top-level buffer.
func save(f uefi.Firmware) (out []byte, res string) {
	defer func() {
		if r := recover(); r != nil {
			out, res = nil, "panic"
		}
	}()
	a := &visitors.Assemble{}
	if err := f.Apply(a); err != nil {
		return nil, ErrClass(err, errTable)
	}
	return append([]byte{}, f.Buf()...), "ok"
}

func showElems(els []*uefi.TypedFirmware) string {
	if len(els) == 0 {
		return "-"
	}
	var p []string
	for _, e := range els {
		switch v := e.Value.(type) {
		case *uefi.BIOSPadding:
			p = append(p, "P"+N(v.Offset)+"."+N(uint64(len(v.Buf()))))
		case *uefi.FirmwareVolume:
			p = append(p, "V"+N(v.FVOffset)+"."+N(uint64(len(v.Buf())))+"."+N(uint64(v.GetErasePolarity())))
		default:
			p = append(p, "?")
		}
	}
	return strings.Join(p, ",")
}

func showFR(fr *uefi.FlashRegion) string { return N(uint64(fr.Base)) + "." + N(uint64(fr.Limit)) }

func showRegion(t *uefi.TypedFirmware) string {
	switch r := t.Value.(type) {
	case *uefi.BIOSRegion:
		return "B:" + showFR(r.FRegion) + ":" + N(r.Length) + ":" + showElems(r.Elements)
	case *uefi.MERegion:
		fpt := "none"
		if r.FPT != nil {
			var es []string
			for _, e := range r.FPT.Entries {
				es = append(es, N(uint64(e.Offset))+"."+N(uint64(e.Length)))
			}
			fpt = "-"
			if len(es) > 0 {
				fpt = strings.Join(es, ",")
			}
		}
		return "M:" + showFR(r.FRegion) + ":" + N(uint64(len(r.Buf()))) + ":" + N(r.FreeSpaceOffset) + ":" + fpt
	case *uefi.RawRegion:
		if r.RegionType == uefi.RegionTypeUnknown {
			return "G:" + showFR(r.FRegion) + ":" + N(uint64(len(r.Buf())))
		}
		return "R" + N(uint64(r.RegionType)) + ":" + showFR(r.FRegion) + ":" + N(uint64(len(r.Buf())))
	}
	return "?"
}

func opParse(args []string) string {
	img := decImg(args[0])
	f, err := parseImage(img)
	if err != nil {
		return "p" + ErrClass(err, errTable)
	}
	pol := N(uint64(uefi.Attributes.ErasePolarity))
	switch t := f.(type) {
	case *uefi.BIOSRegion:
		return "bios pol=" + pol + " els=" + showElems(t.Elements)
	case *uefi.FlashImage:
		var slots, regs []string
		for i := range t.IFD.Region.FlashRegions {
			slots = append(slots, showFR(&t.IFD.Region.FlashRegions[i]))
		}
		for _, r := range t.Regions {
			regs = append(regs, showRegion(r))
		}
		rs := "-"
		if len(regs) > 0 {
			rs = strings.Join(regs, ";")
		}
		return fmt.Sprintf("flash dms=%x rs=%x ms=%x nr=%x erase=%x slots=%s regions=%s pol=%s",
			t.IFD.DescriptorMapStart, t.IFD.RegionStart, t.IFD.MasterStart, t.IFD.DescriptorMap.NumberOfRegions,
			t.IFD.Region.FlashBlockEraseSize, strings.Join(slots, ","), rs, pol)
	}
	return "harness-error unknown-root"
}

func diffObs(img, out []byte) string {
	if len(img) != len(out) {
		return "full " + H(out)
	}
	var d []string
	for i := range img {
		if img[i] != out[i] {
			d = append(d, fmt.Sprintf("%x:%02x", i, out[i]))
		}
	}
	if len(d) == 0 {
		return "-"
	}
	return strings.Join(d, ",")
}

func lastBiosElems(t *uefi.FlashImage) string {
	s := "none"
	for _, r := range t.Regions {
		if b, ok := r.Value.(*uefi.BIOSRegion); ok {
			s = showElems(b.Elements)
		}
	}
	return s
}

// tighten n img: parse, tighten_me n times (stop at the first failure), then save whatever
// tree is in memory (after a refusal that must be the unchanged tree).
func opTighten(args []string) string {
	n := int(UnN(args[0]))
	img := decImg(args[1])
	f, err := parseImage(img)
	if err != nil {
		return "p" + ErrClass(err, errTable)
	}
	t, ok := f.(*uefi.FlashImage)
	if !ok {
		if n >= 1 {
			r, _ := tighten(f)
			return "notflash tm=" + r
		}
		return "notflash"
	}
	var res []string
	for k := 0; k < n; k++ {
		r, _ := tighten(f)
		res = append(res, r)
		if r != "ok" {
			break
		}
	}
	tm := "-"
	if len(res) > 0 {
		tm = strings.Join(res, ",")
	}
	slots := showFR(&t.IFD.Region.FlashRegions[uefi.RegionTypeME]) + "." + showFR(&t.IFD.Region.FlashRegions[uefi.RegionTypeBIOS])
	els := lastBiosElems(t)
	out, sres := save(f)
	sv := sres
	if sres == "ok" {
		sv = "ok " + N(uint64(len(out))) + " " + diffObs(img, out)
	}
	return fmt.Sprintf("tm=%s slots=%s els=%s save=%s", tm, slots, els, sv)
}

// ---------- independent decoding for the oracles ----------

type slotT struct{ base, limit uint16 }

func (s slotT) valid() bool {
	return s.limit > 0 && s.limit >= s.base && s.limit != 0xFFFF && s.base != 0xFFFF
}

type desc struct {
	sigAt, dms, rs, ms, nr int
	slots                  [15]slotT
}

func decodeDesc(img []byte) (d desc, ok bool) {
	if len(img) < 4096 {
		return d, false
	}
	sig := []byte{0x5a, 0xa5, 0xf0, 0x0f}
	switch {
	case bytes.Equal(img[16:20], sig):
		d.sigAt = 16
	case bytes.Equal(img[0:4], sig):
		d.sigAt = 0
	default:
		return d, false
	}
	d.dms = d.sigAt + 4
	d.rs = int(img[d.dms+2]) * 16
	d.nr = int(img[d.dms+3])
	d.ms = int(img[d.dms+4]) * 16
	if d.rs+64 >= 4096 {
		return d, false
	}
	for i := 0; i < 15; i++ {
		d.slots[i].base = binary.LittleEndian.Uint16(img[d.rs+4+4*i:])
		d.slots[i].limit = binary.LittleEndian.Uint16(img[d.rs+6+4*i:])
	}
	return d, true
}

type part struct{ off, length uint32 }

// decodeFPT: the partition entries of the first "$FPT" table of an ME region (nil: no table)
func decodeFPT(me []byte) (ps []part, tableEnd int, ok bool) {
	i := bytes.Index(me, []byte("$FPT"))
	if i < 0 || len(me) < i+4+28 {
		return nil, 0, false
	}
	cnt := int(binary.LittleEndian.Uint32(me[i+4:]))
	start := i + 4 + 28
	if cnt < 0 || start+32*cnt > len(me) || start+32*cnt < 0 {
		return nil, 0, false
	}
	for k := 0; k < cnt; k++ {
		e := me[start+32*k:]
		ps = append(ps, part{binary.LittleEndian.Uint32(e[8:]), binary.LittleEndian.Uint32(e[12:])})
	}
	return ps, start + 32*cnt, true
}

func (p part) valid() bool { return p.off != 0 && p.off != 0xffffffff }

func maxEnd(ps []part) uint64 {
	var m uint64
	for _, p := range ps {
		if p.valid() {
			if e := uint64(p.off) + uint64(p.length); e > m {
				m = e
			}
		}
	}
	return m
}

// declared regions the tool looks at (slot index < nr when nr != 0), valid and inside the flash
func declared(d desc, size int) []int {
	var r []int
	for i := 0; i < 15; i++ {
		if d.nr != 0 && i >= d.nr {
			break
		}
		s := d.slots[i]
		if !s.valid() || int(s.base)*blk >= size || (int(s.limit)+1)*blk > size {
			continue
		}
		r = append(r, i)
	}
	return r
}

func coverage(d desc, size int) (cov []int) {
	cov = make([]int, (size+blk-1)/blk)
	for _, i := range declared(d, size) {
		for b := int(d.slots[i].base); b <= int(d.slots[i].limit) && b < len(cov); b++ {
			cov[b]++
		}
	}
	return cov
}

func allEq(b []byte, v byte) bool {
	for _, c := range b {
		if c != v {
			return false
		}
	}
	return true
}

// p_tighten pol img: every clause of the property, on the real code, judged with the
// independent decoders above.  Hypotheses not met -> "skip" (with a reason after a space is
// NOT allowed: the check counts exactly "skip").
func pTighten(args []string) string {
	polHint := byte(UnN(args[0]))
	img := decImg(args[1])
	d, ok := decodeDesc(img)
	if !ok || len(img)%blk != 0 {
		return "skip"
	}
	me, bios := d.slots[1], d.slots[0]
	inDecl := func(i int) bool {
		for _, k := range declared(d, len(img)) {
			if k == i {
				return true
			}
		}
		return false
	}
	if !inDecl(0) || !inDecl(1) {
		return "skip"
	}
	// descriptor well-formedness the theorems assume: blank field zero, sections disjoint
	if img[d.rs] != 0 || img[d.rs+1] != 0 {
		return "skip"
	}
	if !(d.ms+12 <= d.rs || d.rs+64 <= d.ms) {
		return "skip"
	}
	f, err := parseImage(img)
	if err != nil {
		return "skip"
	}
	t, isFlash := f.(*uefi.FlashImage)
	if !isFlash {
		return "skip"
	}
	pol := uefi.Attributes.ErasePolarity
	if pol != polHint {
		return "skip"
	}
	// the unedited image must save (needs a firmware volume in the BIOS region, tiling ...)
	base0, r0 := save(f)
	if r0 != "ok" {
		return "skip"
	}
	if !bytes.Equal(base0, img) {
		return "FAIL unedited-save-differs"
	}
	meBytes := img[int(me.base)*blk : (int(me.limit)+1)*blk]
	parts, tableEnd, hasFPT := decodeFPT(meBytes)
	var mx uint64
	if hasFPT {
		mx = maxEnd(parts)
	}
	newEnd := (uint64(me.base)*blk + mx + blk - 1) / blk * blk // first block boundary at or after the last partition end
	adjacent := int(me.limit)+1 == int(bios.base)

	fresh := func() (uefi.Firmware, *uefi.FlashImage) {
		g, e := parseImage(img)
		if e != nil {
			return nil, nil
		}
		return g, g.(*uefi.FlashImage)
	}
	f1, t1 := fresh()
	if f1 == nil {
		return "FAIL reparse-of-input-failed"
	}
	res, _ := tighten(f1)

	unchanged := func(tag string) string {
		out, r := save(f1)
		if r != "ok" {
			return "FAIL " + tag + "-then-save-" + r
		}
		if !bytes.Equal(out, img) {
			return "FAIL " + tag + "-but-image-changed"
		}
		return "ok"
	}
	if !adjacent {
		if !strings.HasPrefix(res, "err") {
			return "FAIL nonadjacent-not-refused " + res
		}
		return unchanged("refused-nonadjacent")
	}
	if newEnd > uint64(me.limit+1)*blk {
		// a valid partition ends beyond the ME region: outside the property's hypotheses
		// (the Go code panics in buf[bufOffset:]; recorded by the model as Panic).  The one thing
		// the statement still excludes: reporting success, i.e. a boundary that is not at or after
		// the end of the last partition (a partition that is not inside before cannot be inside
		// after, the ME region only shrinks).
		if res == "ok" {
			return "FAIL tightened-although-a-partition-ends-beyond-the-ME-region"
		}
		return "skip"
	}
	tail := img[newEnd : (int(me.limit)+1)*blk]
	if !allEq(tail, pol) {
		if !strings.HasPrefix(res, "err") {
			return "FAIL nonerased-not-refused " + res
		}
		return unchanged("refused-nonerased")
	}
	if res != "ok" {
		return "FAIL refused-a-legal-image " + res
	}
	out, r := save(f1)
	if r != "ok" {
		return "FAIL save-after-tighten-" + r
	}
	if len(out) != len(img) {
		return "FAIL size-changed"
	}
	if !bytes.Equal(out[4096:], img[4096:]) {
		return "FAIL bytes-outside-descriptor-changed"
	}
	for i := 0; i < 4096; i++ {
		if out[i] != img[i] && !(i == d.rs+4 || i == d.rs+5 || i == d.rs+10 || i == d.rs+11) {
			return fmt.Sprintf("FAIL descriptor-byte-changed %x", i)
		}
	}
	d2, ok2 := decodeDesc(out)
	if !ok2 {
		return "FAIL saved-descriptor-undecodable"
	}
	wantLimit := uint16(newEnd/blk - 1)
	if d2.slots[1].limit != wantLimit || d2.slots[0].base != wantLimit+1 {
		return fmt.Sprintf("FAIL boundary limit=%x base=%x want %x", d2.slots[1].limit, d2.slots[0].base, wantLimit)
	}
	if d2.slots[1].base != me.base || d2.slots[0].limit != bios.limit {
		return "FAIL other-boundary-moved"
	}
	// partitions inside the new ME region
	newSize := uint64(d2.slots[1].limit+1)*blk - uint64(me.base)*blk
	for _, p := range parts {
		if p.valid() && uint64(p.off)+uint64(p.length) > newSize {
			return "FAIL partition-outside"
		}
	}
	// in-memory: freed blocks are a padding at the start of the BIOS region
	freed := int(uint64(bios.base)*blk - newEnd)
	var br *uefi.BIOSRegion
	for _, r := range t1.Regions {
		if b, ok := r.Value.(*uefi.BIOSRegion); ok {
			br = b
		}
	}
	if br == nil || len(br.Elements) == 0 {
		return "FAIL no-bios-elements"
	}
	if p, ok := br.Elements[0].Value.(*uefi.BIOSPadding); !ok || p.Offset != 0 || len(p.Buf()) != freed || !allEq(p.Buf(), pol) {
		return "FAIL freed-blocks-not-a-leading-erased-padding"
	}
	// tiling: same blocks covered as before, none twice
	c1, c2 := coverage(d, len(img)), coverage(d2, len(out))
	for b := range c1 {
		if b < int(me.base) || b > int(bios.limit) {
			if c1[b] != c2[b] {
				return "FAIL coverage-changed"
			}
		} else if c2[b] != 1 && !(d2.slots[1].limit < d2.slots[1].base) {
			return fmt.Sprintf("FAIL tiling block %x covered %d times", b, c2[b])
		}
	}
	// freed blocks erased in the saved image, at the start of the new BIOS region
	if !allEq(out[int(d2.slots[0].base)*blk:int(bios.base)*blk], pol) {
		return "FAIL freed-blocks-not-erased"
	}
	// twice = once (same tree)
	r2, _ := tighten(f1)
	if r2 != "ok" {
		return "FAIL second-tighten-" + r2
	}
	out2, rs2 := save(f1)
	if rs2 != "ok" || !bytes.Equal(out2, out) {
		return "FAIL twice-differs-from-once"
	}
	// twice = once also without a save in between (Assemble refreshes the region buffers, a
	// second run right after the first sees the tree exactly as the first one left it)
	if f2, _ := fresh(); f2 != nil {
		if ra, _ := tighten(f2); ra != "ok" {
			return "FAIL tighten-of-a-fresh-parse-" + ra
		}
		if rb, _ := tighten(f2); rb != "ok" {
			return "FAIL second-tighten-without-save-" + rb
		}
		o2, rs := save(f2)
		if rs != "ok" || !bytes.Equal(o2, out) {
			return "FAIL twice-without-save-differs-from-once"
		}
	}
	// and on the saved file, when the partition table itself lies below the new boundary
	if hasFPT && uint64(tableEnd) <= newSize && d2.slots[1].valid() {
		g, e := parseImage(out)
		if e != nil {
			return "FAIL saved-image-does-not-parse"
		}
		// re-parsed: the BIOS region starts with a padding that covers the freed blocks
		if freed > 0 {
			gt := g.(*uefi.FlashImage)
			for _, r := range gt.Regions {
				if b, ok := r.Value.(*uefi.BIOSRegion); ok {
					p, ok := b.Elements[0].Value.(*uefi.BIOSPadding)
					if !ok || p.Offset != 0 || len(p.Buf()) < freed {
						return "FAIL reparsed-bios-does-not-start-with-the-freed-padding"
					}
				}
			}
		}
		if r3, _ := tighten(g); r3 != "ok" {
			return "FAIL tighten-of-saved-image-" + r3
		}
		out3, rs3 := save(g)
		if rs3 != "ok" || !bytes.Equal(out3, out) {
			return "FAIL tighten-of-saved-image-differs"
		}
	}
	_ = t
	return "ok"
}

// ---------- generator ----------

type layout struct {
	nblocks  int
	sigAt    int
	regBase  int // RegionBase byte
	masBase  int // MasterBase byte
	nr       int
	pol      byte
	slots    [15]slotT
	blank    [2]byte
	img      []byte
	meB, meL int
	biB, biL int
}

func putSlot(img []byte, rs, i int, s slotT) {
	binary.LittleEndian.PutUint16(img[rs+4+4*i:], s.base)
	binary.LittleEndian.PutUint16(img[rs+6+4*i:], s.limit)
}

// an opaque firmware volume (file system GUID that fiano does not parse)
func mkFV(r *Rng, n int, pol byte) []byte {
	b := bytes.Repeat([]byte{pol}, n)
	for i := 0; i < 16; i++ {
		b[i] = 0
	}
	g := r.Bytes(16)
	g[0] = 0x11 // never FFS2 (0x78...) nor FFS3 (0x7a...)
	copy(b[16:], g)
	binary.LittleEndian.PutUint64(b[32:], uint64(n))
	copy(b[40:], "_FVH")
	attr := uint32(r.U64()) &^ 0x800
	if pol == 0xFF {
		attr |= 0x800
	}
	binary.LittleEndian.PutUint32(b[44:], attr)
	nb := r.Pick(0, 1, 1, 2)
	if 56+8*(nb+1) > n {
		nb = 0
	}
	binary.LittleEndian.PutUint16(b[48:], uint16(56+8*(nb+1)))
	binary.LittleEndian.PutUint16(b[50:], uint16(r.U64()))
	binary.LittleEndian.PutUint16(b[52:], 0)
	b[54] = 0
	b[55] = 2
	o := 56
	for k := 0; k < nb; k++ {
		binary.LittleEndian.PutUint32(b[o:], uint32(1+r.Intn(4)))
		binary.LittleEndian.PutUint32(b[o+4:], uint32(n))
		o += 8
	}
	for k := 0; k < 8; k++ {
		b[o+k] = 0
	}
	// some opaque payload that cannot contain "_FVH" or "$FPT"
	for k := o + 8; k < n && k < o+8+r.Intn(64); k++ {
		b[k] = byte(r.Intn(0x20))
	}
	return b
}

// filler without '_' and '$' (no accidental "_FVH" / "$FPT"). Long buffers get a constant
// background with short random stretches at both ends and in the middle, so that case files
// stay small (run-length encoded) while the boundaries are still exercised.
func fill(r *Rng, b []byte, mode int, pol byte) {
	rnd := func(x []byte) {
		for i := range x {
			x[i] = byte(r.U64())
			if x[i] == '_' || x[i] == '$' {
				x[i] = 'a'
			}
		}
	}
	if mode == 0 {
		for i := range b {
			b[i] = pol
		}
		return
	}
	if len(b) <= 96 {
		rnd(b)
		return
	}
	bg := byte(0xA5)
	if mode == 2 && r.Bool() {
		bg = pol
	}
	for i := range b {
		b[i] = bg
	}
	k := 1 + r.Intn(24)
	rnd(b[:k])
	rnd(b[len(b)-k:])
	m := r.Intn(len(b) - 32)
	rnd(b[m : m+1+r.Intn(24)])
}

// spice gives a partition entry (32 bytes: Name, Owner, Offset, Length, Reserved[3], Flags) the
// field values real tables carry next to the random ones: flags with the 0xFF "not in use" top
// byte, all-zero and all-one flags, well-known and blank names.  fiano looks at Offset and
// Length only.
func spice(r *Rng, e []byte) {
	switch r.Intn(8) {
	case 0:
		e[31] = 0xFF
	case 1:
		binary.LittleEndian.PutUint32(e[28:], 0xFFFFFFFF)
	case 2:
		binary.LittleEndian.PutUint32(e[28:], 0)
	case 3:
		e[31] = 0x7F
	}
	switch r.Intn(8) {
	case 0:
		copy(e[0:4], "FTPR")
	case 1:
		copy(e[0:4], []byte{0, 0, 0, 0})
	case 2:
		copy(e[0:4], []byte{0xFF, 0xFF, 0xFF, 0xFF})
	}
}

type meOpts struct {
	fptAt      int // -1: no table
	entries    []part
	tailDirtAt int // >=0: offset (inside the ME region) of one non-erased byte
}

func buildME(r *Rng, me []byte, pol byte, o meOpts) {
	for i := range me {
		me[i] = pol
	}
	var mx uint64
	for _, p := range o.entries {
		if p.valid() {
			e := uint64(p.off) + uint64(p.length)
			if e > mx {
				mx = e
			}
			// partition content
			lo, hi := uint64(p.off), e
			if hi > uint64(len(me)) {
				hi = uint64(len(me))
			}
			if lo < hi {
				fill(r, me[lo:hi], 1+r.Intn(2), pol)
			}
		}
	}
	if o.fptAt >= 0 && o.fptAt+4+28+32*len(o.entries) <= len(me) {
		h := me[o.fptAt:]
		copy(h, "$FPT")
		binary.LittleEndian.PutUint32(h[4:], uint32(len(o.entries)))
		fill(r, h[8:32], 2, pol)
		for k, p := range o.entries {
			e := h[32+32*k:]
			if p.off == 0xffffffff && p.length == 0xffffffff {
				fill(r, e[:32], 0, pol) // an erased entry (Offset 0xffffffff or 0: not valid)
				continue
			}
			fill(r, e[:32], 2, pol)
			spice(r, e[:32])
			binary.LittleEndian.PutUint32(e[8:], p.off)
			binary.LittleEndian.PutUint32(e[12:], p.length)
		}
	}
	if o.tailDirtAt >= 0 && o.tailDirtAt < len(me) {
		me[o.tailDirtAt] = pol ^ byte(1<<uint(r.Intn(8)))
	}
}

// putTable writes a "$FPT" header and entries at off.
func putTable(r *Rng, me []byte, off int, entries []part, pol byte) {
	h := me[off:]
	copy(h, "$FPT")
	binary.LittleEndian.PutUint32(h[4:], uint32(len(entries)))
	fill(r, h[8:32], 2, pol)
	for k, p := range entries {
		e := h[32+32*k:]
		fill(r, e[:32], 2, pol)
		spice(r, e[:32])
		binary.LittleEndian.PutUint32(e[8:], p.off)
		binary.LittleEndian.PutUint32(e[12:], p.length)
	}
}

// buildTwoTables: a live partition table at the start of the ME region and a second "$FPT"
// inside the body of the first partition: an identical backup, a stale backup that lists only
// the first partitions, a table with other (smaller) extents, or a bare "$FPT" byte string.
// The partitions that only the live table lists are allocated but blank (erased), and end in
// a later block than the ones the stale table lists - the layout of a fresh MFS/FLOG behind
// an FPTB backup.  Everything after the last live partition's block is erased.
func buildTwoTables(r *Rng, me []byte, pol byte) {
	for i := range me {
		me[i] = pol
	}
	nblk := len(me) / blk
	k := r.Range(2, 4)      // live partitions
	j := r.Range(1, k-1)    // those the stale table knows
	m := r.Range(1, nblk-1) // partitions 1..j end at or before block m, the others after it
	// partition ends
	ends := make([]int, k)
	lo := 0x400 + 0x200
	for i := 0; i < j; i++ {
		hi := m*blk - (j-1-i)*0x40
		ends[i] = r.Range(lo+0x40, hi)
		if i == j-1 && r.Chance(1, 3) {
			ends[i] = m * blk
		}
		lo = ends[i]
	}
	lo = m * blk
	for i := j; i < k; i++ {
		hi := len(me) - (k-1-i)*0x40
		ends[i] = r.Range(lo+0x40, hi)
		if i == k-1 && r.Chance(1, 3) {
			if v := r.Pick(len(me), (m+1)*blk); v >= lo+0x40 {
				ends[i] = v
			}
		}
		lo = ends[i]
	}
	var live []part
	start := 0x400
	for i := 0; i < k; i++ {
		live = append(live, part{uint32(start), uint32(ends[i] - start)})
		if i < j {
			fill(r, me[start:ends[i]], 1+r.Intn(2), pol) // data; the later ones stay blank
		}
		start = ends[i]
	}
	tbl := append([]part{}, live...)
	if r.Chance(1, 3) { // unused entries in between
		tbl = append(tbl, part{0xffffffff, uint32(r.U64())}, part{0, 0x100})
	}
	fptAt := r.Pick(16, 16, 0)
	putTable(r, me, fptAt, tbl, pol)
	// the second signature, inside partition 1's body
	second := 0x400 + 8*r.Intn(8)
	room := ends[0] - second
	switch mode := r.Intn(5); {
	case mode == 0 && room >= 32+32*len(tbl): // identical backup
		copy(me[second:], me[fptAt:fptAt+32+32*len(tbl)])
	case mode == 1 && room >= 32+32*len(tbl): // other, smaller extents
		var other []part
		for i := 0; i < len(live); i++ {
			other = append(other, part{uint32(0x400 + 0x10*i), uint32(r.Range(1, 0x100))})
		}
		putTable(r, me, second, other, pol)
	case mode == 2: // a bare "$FPT" byte string (what follows is partition data)
		copy(me[second:], "$FPT")
	default: // stale backup: only the first j partitions
		if room >= 32+32*j {
			putTable(r, me, second, live[:j], pol)
		} else {
			copy(me[second:], "$FPT")
		}
	}
}

func buildBIOS(r *Rng, b []byte, pol byte, kind int) {
	for i := range b {
		b[i] = pol
	}
	n := len(b)
	switch kind {
	case 0: // padding then one volume at the end
		sz := r.Pick(64, 72, 128, 1024, 4096)
		if sz > n {
			sz = n
		}
		pad := n - sz
		pad -= pad % 8
		if r.Chance(1, 3) {
			fill(r, b[:pad], 2, pol)
		}
		copy(b[pad:], mkFV(r, sz, pol))
	case 1: // volume at offset 0, padding after
		sz := r.Pick(64, 256, 4096)
		if sz > n {
			sz = n
		}
		copy(b, mkFV(r, sz, pol))
		if r.Bool() {
			fill(r, b[sz:], 1, pol)
		}
	case 2: // two volumes with padding between
		if n >= 8192 {
			copy(b[8*r.Intn(16):], mkFV(r, 512, pol))
			copy(b[4096+8*r.Intn(16):], mkFV(r, 1024, pol))
		} else {
			copy(b, mkFV(r, n, pol))
		}
	case 3: // no volume at all: save must fail
		if r.Bool() {
			fill(r, b, 2, pol)
		}
	case 4: // conflicting polarities
		if n >= 2048 {
			copy(b, mkFV(r, 512, pol))
			copy(b[1024:], mkFV(r, 512, pol^0xFF))
		} else {
			copy(b, mkFV(r, n, pol))
		}
	case 5: // "_FVH" at byte 32 (offset -8 quirk), then a real volume later
		copy(b[32:], "_FVH")
		if n >= 4096 {
			copy(b[2048:], mkFV(r, 1024, pol))
		}
	case 6: // whole region is one volume
		copy(b, mkFV(r, n, pol))
	case 7: // volume whose length field exceeds the region / is zero / truncated block map
		v := mkFV(r, 128, pol)
		switch r.Intn(3) {
		case 0:
			binary.LittleEndian.PutUint64(v[32:], uint64(n+8))
		case 1:
			binary.LittleEndian.PutUint64(v[32:], 0)
		case 2:
			for k := 56; k < 128; k++ {
				v[k] = 1
			}
		}
		if r.Bool() && n >= 128 {
			copy(b[n-128:], v) // at the very end: block map may run off the buffer
		} else {
			copy(b, v)
		}
	}
}

// genImage builds one flash image. class selects what is unusual about it.
func genImage(r *Rng, class int) (img []byte, pol byte) {
	pol = 0xFF
	if r.Chance(1, 6) {
		pol = 0x00
	}
	// region sizes in blocks
	meBlocks := r.Pick(1, 2, 2, 3, 3, 4, 5)
	biosBlocks := r.Pick(1, 1, 2, 2, 3)
	pre := r.Pick(0, 0, 0, 1, 2)  // blocks between the descriptor and the ME region
	mid := 0                      // blocks between ME and BIOS
	post := r.Pick(0, 0, 0, 1, 2) // blocks after the BIOS region
	var preL, postL []int         // the same, as separate stretches (each may become a region)
	if pre > 0 {
		preL = []int{pre}
	}
	if post > 0 {
		postL = []int{post}
	}
	many := class == 8 // up to 15 regions: beyond the 12 elements for which sort.Slice is an insertion sort
	if many {
		class = r.Pick(0, 0, 3, 5)
		preL, postL = nil, nil
		pre, post = r.Range(4, 7), r.Range(4, 6)
		for k := 0; k < pre; k++ {
			preL = append(preL, 1)
		}
		for k := 0; k < post; k++ {
			postL = append(postL, 1)
		}
		meBlocks = r.Pick(2, 3)
	}
	// two "$FPT" signatures in the ME region: fiano must use the FIRST one (bytes.Index)
	twoTables := class == 9
	if twoTables {
		class = 0
		meBlocks = r.Pick(3, 3, 4, 5)
	}
	biosFirst := false
	switch class {
	case 1:
		mid = r.Pick(1, 2)
	case 2:
		biosFirst = true
	}
	n := 1 + pre + meBlocks + mid + biosBlocks + post
	img = make([]byte, n*blk)
	fill(r, img[:4096], 0, 0xFF)
	sigAt := 16
	if r.Chance(1, 4) {
		sigAt = 0
	}
	copy(img[sigAt:], uefi.FlashSignature)
	dms := sigAt + 4
	fill(r, img[dms:dms+16], 2, 0xFF)
	regBase := r.Pick(3, 4, 4, 4, 8, 0x10, 0x40, 0xFB)
	masBase := regBase + 4 + r.Intn(3)
	if r.Chance(1, 4) {
		masBase = r.Pick(2, 3)
		if masBase*16+12 > regBase*16 {
			masBase = regBase + 4
		}
	}
	if masBase > 0xFF {
		masBase = 2
	}
	nr := 0
	if r.Chance(1, 4) {
		nr = r.Pick(2, 3, 5, 15, 16, 200)
	}
	img[dms+2], img[dms+3], img[dms+4] = byte(regBase), byte(nr), byte(masBase)
	rs := regBase * 16
	// unused slots: the usual "invalid" encodings
	for i := 0; i < 15; i++ {
		switch r.Intn(3) {
		case 0:
			putSlot(img, rs, i, slotT{0x7FFF, 0})
		case 1:
			putSlot(img, rs, i, slotT{0xFFFF, 0xFFFF})
		default:
			putSlot(img, rs, i, slotT{0, 0})
		}
	}
	img[rs], img[rs+1] = 0, 0
	binary.LittleEndian.PutUint16(img[rs+2:], uint16(r.U64()))
	fill(r, img[masBase*16:masBase*16+12], 2, 0xFF)
	// block allocation
	cur := 1
	take := func(k int) (int, int) { b := cur; cur += k; return b, cur - 1 }
	var other [][2]int
	for _, k := range preL {
		b, l := take(k)
		other = append(other, [2]int{b, l})
	}
	var meB, meL, biB, biL int
	if biosFirst {
		biB, biL = take(biosBlocks)
		if mid > 0 {
			b, l := take(mid)
			other = append(other, [2]int{b, l})
		}
		meB, meL = take(meBlocks)
	} else {
		meB, meL = take(meBlocks)
		if mid > 0 {
			b, l := take(mid)
			other = append(other, [2]int{b, l})
		}
		biB, biL = take(biosBlocks)
	}
	for _, k := range postL {
		b, l := take(k)
		other = append(other, [2]int{b, l})
	}
	putSlot(img, rs, 0, slotT{uint16(biB), uint16(biL)})
	putSlot(img, rs, 1, slotT{uint16(meB), uint16(meL)})
	// the other stretches: declared raw regions (random slot >= 2) or left as gaps
	used := map[int]bool{}
	for _, o := range other {
		fill(r, img[o[0]*blk:(o[1]+1)*blk], r.Intn(3), pol)
		if many || r.Chance(2, 3) {
			s := 2 + r.Intn(13)
			for many && used[s] {
				s = 2 + (s-1)%13
			}
			if !used[s] {
				used[s] = true
				putSlot(img, rs, s, slotT{uint16(o[0]), uint16(o[1])})
			}
		}
	}
	// ME region content
	me := img[meB*blk : (meL+1)*blk]
	if twoTables {
		buildTwoTables(r, me, pol)
	} else {
		var o meOpts
		o.tailDirtAt = -1
		o.fptAt = r.Pick(16, 16, 16, 0, 0x100)
		ne := r.Pick(0, 1, 1, 2, 3, 5, 8)
		limitEnd := len(me)
		// "in some cases, it appears somewhere else in the ME region": a table anywhere, also
		// behind the first block and at odd offsets; partitions may then lie before it
		far := r.Chance(1, 5)
		if far {
			room := limitEnd - 32 - 32*ne
			switch r.Intn(4) {
			case 0: // in a later block
				if meBlocks >= 2 {
					o.fptAt = blk*r.Range(1, meBlocks-1) + r.Pick(0, 16, 0x10*r.Intn(64), r.Intn(0x800))
				}
			case 1: // across a block boundary
				if meBlocks >= 2 {
					o.fptAt = blk*r.Range(1, meBlocks-1) - r.Pick(1, 3, 4, 8, 31, 32+32*ne-1)
				}
			case 2: // the very end of the region
				o.fptAt = room - r.Pick(0, 0, 1, 16)
			default:
				o.fptAt = r.Range(0, room)
			}
			if o.fptAt > room {
				o.fptAt = room
			}
			if o.fptAt < 0 {
				o.fptAt = 16
			}
		}
		// choose where the last partition ends
		endAt := 0
		switch r.Intn(5) {
		case 0: // on a block boundary
			endAt = blk * r.Range(1, meBlocks)
		case 1: // just past a boundary
			endAt = blk*r.Range(0, meBlocks-1) + r.Pick(1, 2, 0x400, 0x401)
			if endAt < 0x400 {
				endAt = 0x400 + r.Intn(64)
			}
		case 2: // just before a boundary
			endAt = blk*r.Range(1, meBlocks) - r.Pick(1, 2, 16)
		case 3: // exactly the region
			endAt = limitEnd
		default:
			endAt = r.Range(0x400, limitEnd)
		}
		tableEnd := o.fptAt + 32 + 32*ne
		if endAt < tableEnd {
			endAt = tableEnd
		}
		if endAt > limitEnd {
			endAt = limitEnd
		}
		for k := 0; k < ne; k++ {
			var p part
			switch r.Intn(6) {
			case 0:
				p = part{0, uint32(r.Intn(0x10000))} // unused
			case 1:
				p = part{0xffffffff, uint32(r.U64())} // unused
			default:
				lo := tableEnd + r.Intn(endAt-tableEnd+1)
				if far && r.Bool() { // before the table
					lo = 1 + r.Intn(endAt)
				}
				if lo == 0 {
					lo = 1
				}
				hi := lo + r.Intn(endAt-lo+1)
				if r.Chance(1, 3) { // round sizes: 1 KiB / 4 KiB multiples
					a := r.Pick(0x400, 0x1000)
					if l2 := (lo + a - 1) / a * a; l2 <= endAt {
						lo = l2
						hi = lo + (endAt-lo)/a*a
						if r.Bool() && hi-lo >= 2*a {
							hi -= a
						}
					}
				}
				p = part{uint32(lo), uint32(hi - lo)}
			}
			o.entries = append(o.entries, p)
		}
		if ne > 0 && r.Chance(4, 5) {
			// make one entry end exactly at endAt
			k := r.Intn(ne)
			lo := tableEnd
			if lo == 0 {
				lo = 1
			}
			if endAt > lo {
				lo += r.Intn(endAt - lo)
			}
			o.entries[k] = part{uint32(lo), uint32(endAt - lo)}
			if r.Chance(1, 8) && endAt > 0 {
				// an empty partition is the last thing in the region: its end counts like any other
				o.entries[k] = part{uint32(endAt), 0}
			}
		}
		if (class == 0 || class == 3) && meBlocks >= 2 && r.Chance(1, 12) {
			// a long table whose unused entries are erased: the table itself reaches into the
			// space tighten_me frees (the saved file then has no parsable table any more)
			ne = r.Range(100, 220)
			if o.fptAt+32+32*100 > limitEnd { // a table far up in the region has no room for that
				o.fptAt = 16
			}
			if o.fptAt+32+32*ne > limitEnd {
				ne = (limitEnd - o.fptAt - 32) / 32
			}
			o.entries = make([]part, ne)
			for k := range o.entries {
				o.entries[k] = part{0xffffffff, 0xffffffff}
			}
			endAt = r.Pick(0x800, 0xfff, 0x1000, 0x1001)
			lo := r.Range(0x400, endAt-1)
			o.entries[r.Intn(3)] = part{uint32(lo), uint32(endAt - lo)}
		}
		switch class {
		case 3: // non-erased byte in the space that would be freed (or in the slack before it)
			up := (endAt + blk - 1) / blk * blk
			if r.Chance(3, 4) && up < limitEnd {
				o.tailDirtAt = up + r.Intn(limitEnd-up)
				if r.Chance(1, 3) {
					o.tailDirtAt = r.Pick(up, limitEnd-1)
				}
			} else if endAt < up {
				o.tailDirtAt = endAt + r.Intn(up-endAt) // slack inside the last kept block: must not matter
			}
		case 4: // a partition ends beyond the ME region
			if ne == 0 {
				o.entries = append(o.entries, part{})
				ne = 1
			}
			k := r.Intn(ne)
			o.entries[k] = part{uint32(r.Range(1, limitEnd)), uint32(limitEnd + r.Pick(1, 4096, 0x7fffffff, 0xffffffff))}
			switch r.Intn(5) {
			case 0: // Offset + Length is 2^32 or more: the sum must not be taken in 32 bits
				off := uint32(r.Range(1, limitEnd))
				o.entries[k] = part{off, uint32((1 << 32) - uint64(off) + uint64(r.Intn(int(off))))}
			case 1:
				o.entries[k] = part{uint32(r.Range(1, limitEnd)), 0xffffffff}
			case 2:
				off := 0xffffffff - uint32(r.Intn(0x1000)) - 1
				o.entries[k] = part{off, uint32(r.Pick(0, 1, 0x1000, 0x2000, limitEnd))}
			}
		case 5: // no table
			o.fptAt = -1
			if r.Bool() {
				o.entries = nil
			}
		case 6: // table present but count runs past the region
			// handled after buildME
		}
		buildME(r, me, pol, o)
		if class == 6 && o.fptAt >= 0 {
			binary.LittleEndian.PutUint32(me[o.fptAt+4:], uint32(r.Pick(0x1000, 0x7fffffff, 0xffffffff, len(me)/32)))
		}
		if class == 5 && len(o.entries) == 0 && r.Bool() {
			// entirely erased ME region without table: tighten empties it
			for i := range me {
				me[i] = pol
			}
		}
	}
	// BIOS region
	kind := r.Pick(0, 0, 0, 1, 2, 6)
	if class == 7 {
		kind = r.Pick(3, 4, 5, 7)
	}
	buildBIOS(r, img[biB*blk:(biL+1)*blk], pol, kind)
	return img, pol
}

func mutate(r *Rng, img []byte) []byte {
	b := append([]byte{}, img...)
	switch r.Intn(9) {
	case 0: // flip a byte in the descriptor's first 128 bytes
		b[r.Intn(128)] ^= byte(1 << uint(r.Intn(8)))
	case 1: // flip somewhere in the region section
		if d, ok := decodeDesc(b); ok {
			b[d.rs+r.Intn(64)] ^= byte(1 << uint(r.Intn(8)))
		}
	case 2: // size not a multiple of the block size
		b = b[:len(b)-r.Pick(1, 100, 2048, 4095)]
	case 3: // one block too many / too few
		if r.Bool() {
			b = append(b, bytes.Repeat([]byte{0xFF}, blk)...)
		} else {
			b = b[:len(b)-blk]
		}
	case 4: // tiny
		b = b[:r.Pick(0, 3, 19, 20, 21, 4095, 4096)]
	case 5: // no signature
		b[16], b[0] = 0, 0
	case 6: // blank field of the region section non-zero
		if d, ok := decodeDesc(b); ok {
			b[d.rs+r.Intn(2)] = byte(1 + r.Intn(255))
		}
	case 7: // master section on top of the region section
		if d, ok := decodeDesc(b); ok {
			b[d.dms+4] = b[d.dms+2] + byte(r.Pick(0, 0, 1, 2, 3))
		}
	case 8: // a slot made equal to / overlapping another
		if d, ok := decodeDesc(b); ok {
			i, j := r.Intn(15), r.Intn(2)
			copy(b[d.rs+4+4*i:d.rs+8+4*i], b[d.rs+4+4*j:d.rs+8+4*j])
			if r.Bool() {
				b[d.rs+4+4*i] ^= 1
			}
		}
	}
	return b
}

func gen(r *Rng, tier string, emit Emit) {
	n := 260
	if tier == "thorough" {
		n = 8000
	}
	for it := 0; it < n; it++ {
		rr := r.Fork(uint64(it))
		if it%52 == 7 { // a few images of realistic size (oracle only)
			img, pol := genBig(rr)
			emit("P", "p_tighten", N(uint64(pol)), encImg(img))
			continue
		}
		class := rr.Pick(0, 0, 0, 0, 0, 0, 1, 2, 3, 3, 4, 5, 6, 7, 8, 9, 9)
		img, pol := genImage(rr, class)
		e := encImg(img)
		emit("C", "parse", e)
		emit("C", "tighten", N(uint64(rr.Pick(1, 1, 2))), e)
		emit("C", "tighten", "0", e)
		emit("P", "p_tighten", N(uint64(pol)), e)
		emit("P", "p_mix", N(uint64(pol)), N(rr.U64()), e)
		if rr.Chance(1, 2) {
			m := encImg(mutate(rr, img))
			emit("C", "parse", m)
			emit("C", "tighten", N(uint64(rr.Pick(1, 2))), m)
			emit("P", "p_tighten", N(uint64(pol)), m)
		}
	}
}

func main() {
	Register("parse", opParse)
	Register("tighten", opTighten)
	Register("p_tighten", pTighten)
	Register("p_mix", pMix)
	Main(gen)
}
