// translate-kernels regenerates coq/Gen/GoKernels.v: one Gallina definition per whitelisted
// pure arithmetic kernel of linuxboot/fiano, transcribed from the Go SOURCE of the repository
// given on the command line with Go's integer semantics made explicit (see coq/Base/GoInt.v).
// The tie lemmas of coq/Proofs/KernelTie*.v state that each generated definition equals the
// corresponding function of the hand-written model; a source change in a kernel therefore
// changes the generated definition and breaks the lemma on the next run of bin/check.
//
// Only the standard library is used (go/parser, go/ast, go/types, go/constant, go/build for
// build constraints).  Imports of packages outside the repository are replaced by empty
// packages (their few uses inside the supported subset are recognised syntactically), imports
// of packages of the repository are type-checked from the source of the SAME repository.
// Any statement or expression shape outside the supported subset is a hard failure (exit 1):
// nothing is skipped silently.
//
// Supported subset: integer/bool/byte-slice/fixed-array values, struct receivers (the fields used
// become parameters), pointer-to-integer receivers and parameters, := / = / op= / ++ / x[i] = v,
// if/else, switch, return, for-range, counted for, general for on fuel, break/continue, calls of
// whitelisted functions, conversions, len, make([]byte, const), copy, bytes.Equal,
// binary.<order>.UintN/PutUintN, the bytes.NewReader/binary.Read idiom, panic, error returns by
// fmt.Errorf/errors.New/constant error variables.
//
// usage: translate-kernels <repo> <out.v>
package main

import (
	"bytes"
	"fmt"
	"go/ast"
	"go/build"
	"go/parser"
	"go/token"
	"go/types"
	"os"
	"path/filepath"
	"sort"
	"strings"
)

var fset = token.NewFileSet()

func fatal(pos token.Pos, format string, args ...interface{}) {
	where := ""
	if pos.IsValid() {
		where = fset.Position(pos).String() + ": "
	}
	fmt.Fprintf(os.Stderr, "translate-kernels: %s%s\n", where, fmt.Sprintf(format, args...))
	os.Exit(1)
}

// ---------------------------------------------------------------------------
// whitelist (callees before callers)
// ---------------------------------------------------------------------------

type target struct {
	dir  string // package directory relative to the repository root
	recv string // receiver type name ("" for a plain function)
	name string
}

var whitelist = []target{
	{"pkg/uefi", "", "Align"},
	{"pkg/uefi", "", "Align4"},
	{"pkg/uefi", "", "Align8"},
	{"pkg/uefi", "", "Read3Size"},
	{"pkg/uefi", "", "Write3Size"},
	{"pkg/uefi", "", "Checksum8"},
	{"pkg/uefi", "", "Checksum16"},
	{"pkg/uefi", "", "IsErased"},
	{"pkg/uefi", "fileAttr", "IsLarge"},
	{"pkg/uefi", "fileAttr", "GetAlignment"},
	{"pkg/uefi", "fileAttr", "HasChecksum"},
	{"pkg/uefi", "FirmwareVolume", "GetErasePolarity"},
	{"pkg/uefi", "NVarAttribute", "IsValid"},
	{"pkg/uefi", "NVar", "IsValid"},
	{"pkg/uefi", "FlashRegion", "Valid"},
	{"pkg/uefi", "FlashRegion", "BaseOffset"},
	{"pkg/uefi", "FlashRegion", "EndOffset"},
	{"pkg/uefi", "MEPartitionEntry", "OffsetIsValid"},
	{"pkg/uefi", "", "FindSignature"},
	{"pkg/intel/metadata/fit", "", "CalculatePhysAddrFromOffset"},
	{"pkg/intel/metadata/fit", "", "CalculateOffsetFromPhysAddr"},
	{"pkg/intel/metadata/fit", "", "CalculateTailOffsetFromPhysAddr"},
	{"pkg/intel/metadata/fit", "Address64", "Pointer"},
	{"pkg/intel/metadata/fit", "Address64", "Offset"},
	{"pkg/intel/metadata/fit", "Address64", "SetOffset"},
	{"pkg/intel/metadata/fit", "SizeM16", "Size"},
	{"pkg/intel/metadata/fit", "Uint24", "Uint32"},
	{"pkg/intel/metadata/fit", "Uint24", "SetUint32"},
	{"pkg/intel/metadata/fit", "TypeAndIsChecksumValid", "IsChecksumValid"},
	{"pkg/intel/metadata/fit", "TypeAndIsChecksumValid", "Type"},
	{"pkg/intel/metadata/fit", "TypeAndIsChecksumValid", "SetType"},
	{"pkg/intel/metadata/fit", "TypeAndIsChecksumValid", "SetIsChecksumValid"},
	{"pkg/intel/metadata/fit", "EntryHeaders", "mostCommonGetDataSegmentSize"},
	{"pkg/compression", "", "test86MSByte"},
	{"pkg/compression", "", "x86Convert"},
	{"pkg/amd/manifest", "FirmwareImage", "PhysAddrToOffset"},
	{"pkg/amd/manifest", "", "fletcherCRC32"},
	{"pkg/amd/manifest", "", "CalculateBiosDirectoryCheckSum"},
	{"pkg/amd/manifest", "", "CalculatePSPDirectoryCheckSum"},
}

// ---------------------------------------------------------------------------
// loading packages of the repository
// ---------------------------------------------------------------------------

type pkgInfo struct {
	dir   string
	files []*ast.File
	info  *types.Info
	tpkg  *types.Package
}

type loader struct {
	repo    string
	module  string
	pkgs    map[string]*pkgInfo
	loading map[string]bool
}

func (l *loader) Import(path string) (*types.Package, error) {
	if path == l.module || strings.HasPrefix(path, l.module+"/") {
		rel := strings.TrimPrefix(strings.TrimPrefix(path, l.module), "/")
		return l.load(rel).tpkg, nil
	}
	if path == "unsafe" {
		return types.Unsafe, nil
	}
	name := path
	if i := strings.LastIndex(name, "/"); i >= 0 {
		name = name[i+1:]
	}
	p := types.NewPackage(path, name)
	p.MarkComplete()
	return p, nil
}

func (l *loader) load(rel string) *pkgInfo {
	if p, ok := l.pkgs[rel]; ok {
		return p
	}
	if l.loading[rel] {
		fatal(token.NoPos, "import cycle through %s", rel)
	}
	l.loading[rel] = true
	dir := filepath.Join(l.repo, rel)
	ents, err := os.ReadDir(dir)
	if err != nil {
		fatal(token.NoPos, "cannot read package directory %s: %v", dir, err)
	}
	ctx := build.Default
	ctx.BuildTags = append([]string{"verif"}, ctx.BuildTags...)
	ctx.CgoEnabled = false
	var names []string
	for _, e := range ents {
		n := e.Name()
		if e.IsDir() || !strings.HasSuffix(n, ".go") || strings.HasSuffix(n, "_test.go") {
			continue
		}
		ok, err := ctx.MatchFile(dir, n)
		if err != nil {
			fatal(token.NoPos, "%s/%s: %v", dir, n, err)
		}
		if ok {
			names = append(names, n)
		}
	}
	sort.Strings(names)
	p := &pkgInfo{dir: rel}
	for _, n := range names {
		f, err := parser.ParseFile(fset, filepath.Join(dir, n), nil, parser.ParseComments)
		if err != nil {
			fatal(token.NoPos, "parse error: %v", err)
		}
		p.files = append(p.files, f)
	}
	if len(p.files) == 0 {
		fatal(token.NoPos, "no Go files in %s", dir)
	}
	p.info = &types.Info{
		Types:      map[ast.Expr]types.TypeAndValue{},
		Defs:       map[*ast.Ident]types.Object{},
		Uses:       map[*ast.Ident]types.Object{},
		Selections: map[*ast.SelectorExpr]*types.Selection{},
	}
	// type errors are expected (uses of the emptied external packages); every expression the
	// translator transcribes is checked to have a valid type where it is used
	conf := types.Config{Importer: l, Error: func(error) {}}
	path := l.module
	if rel != "" {
		path += "/" + rel
	}
	p.tpkg, _ = conf.Check(path, fset, p.files, p.info)
	if p.tpkg == nil {
		fatal(token.NoPos, "type-checking %s produced no package", dir)
	}
	l.pkgs[rel] = p
	delete(l.loading, rel)
	return p
}

func moduleOf(repo string) string {
	data, err := os.ReadFile(filepath.Join(repo, "go.mod"))
	if err != nil {
		fatal(token.NoPos, "cannot read go.mod of the repository: %v", err)
	}
	for _, line := range strings.Split(string(data), "\n") {
		f := strings.Fields(line)
		if len(f) == 2 && f[0] == "module" {
			return f[1]
		}
	}
	fatal(token.NoPos, "no module line in %s/go.mod", repo)
	return ""
}

func recvTypeName(d *ast.FuncDecl) string {
	if d.Recv == nil || len(d.Recv.List) != 1 {
		return ""
	}
	t := d.Recv.List[0].Type
	if s, ok := t.(*ast.StarExpr); ok {
		t = s.X
	}
	if id, ok := t.(*ast.Ident); ok {
		return id.Name
	}
	return "?"
}

func (p *pkgInfo) findFunc(recv, name string) *ast.FuncDecl {
	var found *ast.FuncDecl
	for _, f := range p.files {
		for _, d := range f.Decls {
			fd, ok := d.(*ast.FuncDecl)
			if !ok || fd.Name.Name != name || recvTypeName(fd) != recv {
				continue
			}
			if found != nil {
				fatal(fd.Pos(), "two declarations of %s.%s", recv, name)
			}
			found = fd
		}
	}
	return found
}

// ---------------------------------------------------------------------------
// output
// ---------------------------------------------------------------------------

type translated struct {
	coqName  string
	monadic  bool
	fuel     bool
	recvFlds bool        // struct receiver: its fields are parameters
	fields   []*fieldVar // those fields (paths relative to the receiver)
	nouts    int         // number of values written through receiver/parameters
}

var done = map[types.Object]*translated{} // *types.Func -> its translation
var tables = map[types.Object]string{}    // package-level table -> Coq name
var tableDefs []string                    // emitted table definitions, in order of first use
var coqNames = map[string]bool{}

func main() {
	if len(os.Args) != 3 {
		fmt.Fprintln(os.Stderr, "usage: translate-kernels <repo> <out.v>")
		os.Exit(2)
	}
	repo := os.Args[1]
	l := &loader{repo: repo, module: moduleOf(repo), pkgs: map[string]*pkgInfo{}, loading: map[string]bool{}}
	modulePath = l.module
	var out bytes.Buffer
	out.WriteString(header)
	lastDir := ""
	for _, t := range whitelist {
		p := l.load(t.dir)
		fd := p.findFunc(t.recv, t.name)
		if fd == nil {
			who := t.name
			if t.recv != "" {
				who = "(" + t.recv + ")." + t.name
			}
			fatal(token.NoPos, "whitelisted function %s not found in %s", who, t.dir)
		}
		if fd.Body == nil {
			fatal(fd.Pos(), "%s has no body", t.name)
		}
		if t.dir != lastDir {
			fmt.Fprintf(&out, "(* ================= %s ================= *)\n\n", t.dir)
			lastDir = t.dir
		}
		nt := len(tableDefs)
		code := translateFunc(p, fd, t)
		for _, d := range tableDefs[nt:] {
			out.WriteString(d)
			out.WriteString("\n")
		}
		out.WriteString(code)
		out.WriteString("\n")
	}
	if why := commentsBalanced(out.Bytes()); why != "" {
		fatal(token.NoPos, "internal: the generated file would not lex (%s); nothing written", why)
	}
	old, err := os.ReadFile(os.Args[2])
	if err == nil && bytes.Equal(old, out.Bytes()) {
		return
	}
	if err := os.WriteFile(os.Args[2], out.Bytes(), 0o644); err != nil {
		fatal(token.NoPos, "%v", err)
	}
}

// coqComment makes a text safe inside a Coq comment: Coq comments nest, so neither bracket may occur
func coqComment(s string) string {
	s = strings.ReplaceAll(s, "(*", "( *")
	s = strings.ReplaceAll(s, "*)", "* )")
	return strings.ReplaceAll(s, "\"", "'") // an unbalanced string quote inside a comment also breaks the lexer
}

// commentsBalanced checks that the Coq comments of the generated text nest correctly and are closed
// ("" = fine): a last line of defence against text leaking out of a comment
func commentsBalanced(b []byte) string {
	depth := 0
	for i := 0; i+1 < len(b); i++ {
		switch {
		case b[i] == '(' && b[i+1] == '*':
			depth++
			i++
		case b[i] == '*' && b[i+1] == ')':
			depth--
			i++
			if depth < 0 {
				return fmt.Sprintf("comment closed twice at byte %d", i)
			}
		case b[i] == '"' && depth > 0:
			return fmt.Sprintf("string quote inside a comment at byte %d", i)
		}
	}
	if depth != 0 {
		return fmt.Sprintf("%d unterminated comment(s)", depth)
	}
	return ""
}

const header = `(* Gen/GoKernels.v -- GENERATED by translator/Kernels.sh (harness/cmd/translate-kernels) from the Go
   source of the repository; do not edit.  One definition per whitelisted arithmetic kernel: the Go
   function body, statement by statement, with Go's integer semantics written out (Base/GoInt.v):
   wrap w / swrap w = the value of an unsigned / signed w-bit result, go_shl = left shift truncated
   to the width, go_not = bitwise complement at the width, go_index = indexing with the bounds
   check (Panic), loops as folds (go_iota = the values of the counter of a counted loop), a
   (T, error) result as an outcome (Err = a non-nil error), unbounded loops on fuel.
   A function that writes through its receiver ( *recv = .., recv.F = .., copy(recv.F[:], ..)), through
   a pointer parameter or into the elements of a slice parameter returns, after its declared results,
   the final values of what it wrote.  Err k = the k-th error return of the function in source order
   (binary.Read: 1 = io.EOF, 2 = io.ErrUnexpectedEOF); Panic k = the k-th run-time check.
   Assumptions of the transcription: int and uint are 64 bit wide; len(x) of a slice is an int that
   does not overflow (so the counter of a loop bounded by len(x) does not wrap); pointer receivers
   and pointer parameters are not nil (the fields a struct receiver's method uses become parameters);
   b[lo:hi] is checked against len(b) where Go checks against cap(b) (an Ok result is exact, a Panic
   may be spurious); functions of packages outside the repository that only build the value of an
   error or of a panic (fmt.Errorf, hex.Dump, ...) return normally; package-level byte tables and
   error variables are checked not to be assigned inside their package. *)
From Fiano Require Import Base.Bytes Base.GoInt.
Open Scope Z_scope.

`
