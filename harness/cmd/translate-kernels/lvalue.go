package main

import (
	"go/ast"
	"go/token"
	"go/types"
	"sort"
	"strings"
)

var modulePath string // module path of the repository being read

// fieldPath: e is the struct receiver itself ("") or a chain of field selections on it ("F.G")
func (c *fnCtx) fieldPath(e ast.Expr) (string, bool) {
	if e == nil || c.recvObj == nil {
		return "", false
	}
	switch x := unparen(e).(type) {
	case *ast.Ident:
		if c.p.info.Uses[x] == c.recvObj {
			return "", true
		}
	case *ast.StarExpr:
		return c.fieldPath(x.X)
	case *ast.SelectorExpr:
		sel := c.p.info.Selections[x]
		if sel == nil || sel.Kind() != types.FieldVal {
			return "", false
		}
		base, ok := c.fieldPath(x.X)
		if !ok {
			return "", false
		}
		if base == "" {
			return x.Sel.Name, true
		}
		return base + "." + x.Sel.Name, true
	}
	return "", false
}

func (c *fnCtx) fieldByPath(path string, g gtype) *fieldVar {
	if f, ok := c.fieldOf[path]; ok {
		return f
	}
	name := c.fresh(c.recvObj.Name() + "_" + strings.ReplaceAll(path, ".", "_"))
	f := &fieldVar{path: path, name: name, t: g, obj: types.NewVar(token.NoPos, c.p.tpkg, name, nil)}
	c.names[f.obj] = name
	c.fieldOf[path] = f
	c.fields = append(c.fields, f)
	return f
}

func (c *fnCtx) isField(obj types.Object) bool {
	for _, f := range c.fields {
		if f.obj == obj {
			return true
		}
	}
	return false
}

// variable resolves an expression that denotes a variable of the transcription: a local identifier,
// *p for a pointer-to-integer receiver/parameter p, or an integer/bool/array field (path) of the
// struct receiver.  nil if e is none of these.
func (c *fnCtx) variable(e ast.Expr) types.Object {
	switch x := unparen(e).(type) {
	case *ast.Ident:
		obj := c.p.info.Defs[x]
		if obj == nil {
			obj = c.p.info.Uses[x]
		}
		v, ok := obj.(*types.Var)
		if !ok || v.Pkg() == nil || v.Parent() == v.Pkg().Scope() || v.IsField() {
			return nil
		}
		if c.derefs[obj] || obj == c.recvObj || c.readers[obj] {
			return nil
		}
		return obj
	case *ast.StarExpr:
		if id, ok := unparen(x.X).(*ast.Ident); ok {
			if obj := c.p.info.Uses[id]; obj != nil && c.derefs[obj] {
				return obj
			}
		}
	case *ast.SelectorExpr:
		path, ok := c.fieldPath(x)
		if !ok || path == "" {
			return nil
		}
		g, ok := classify(c.p.info.TypeOf(x))
		if !ok || (g.kind != kInt && g.kind != kBool && g.kind != kArr) {
			return nil
		}
		return c.fieldByPath(path, g).obj
	}
	return nil
}

// stripFull: x[:] -> x
func stripFull(e ast.Expr) ast.Expr {
	if s, ok := unparen(e).(*ast.SliceExpr); ok && s.Low == nil && s.High == nil && !s.Slice3 {
		return s.X
	}
	return e
}

// byteOrderCall: e is binary.LittleEndian.<name>(...) / binary.BigEndian.<name>(...)
func (c *fnCtx) byteOrderCall(e *ast.CallExpr) (order, name string) {
	sel, ok := unparen(e.Fun).(*ast.SelectorExpr)
	if !ok {
		return "", ""
	}
	switch {
	case c.pkgSel(sel.X, "encoding/binary", "LittleEndian"):
		return "le", sel.Sel.Name
	case c.pkgSel(sel.X, "encoding/binary", "BigEndian"):
		return "be", sel.Sel.Name
	}
	return "", ""
}

func (c *fnCtx) isBuiltin(e ast.Expr, name string) bool {
	id, ok := unparen(e).(*ast.Ident)
	if !ok || id.Name != name {
		return false
	}
	b, ok := c.p.info.Uses[id].(*types.Builtin)
	return ok && b.Name() == name
}

// effects evaluates an expression whose value is not transcribed (an argument of fmt.Errorf, of
// panic): functions of packages outside the repository are taken to return normally, their
// arguments are evaluated; everything else must be in the subset and keeps its run-time checks.
func (c *fnCtx) effects(e ast.Expr, pr *pre) {
	e = unparen(e)
	if c.constOf(e) != nil {
		return
	}
	switch x := e.(type) {
	case *ast.BasicLit, *ast.Ident:
		return
	case *ast.SelectorExpr:
		if id, ok := x.X.(*ast.Ident); ok {
			if _, isPkg := c.p.info.Uses[id].(*types.PkgName); isPkg {
				return
			}
		}
	case *ast.CallExpr:
		if sel, ok := x.Fun.(*ast.SelectorExpr); ok {
			if id, ok := sel.X.(*ast.Ident); ok {
				if pn, isPkg := c.p.info.Uses[id].(*types.PkgName); isPkg {
					path := pn.Imported().Path()
					if path != modulePath && !strings.HasPrefix(path, modulePath+"/") {
						for _, a := range x.Args {
							c.effects(a, pr)
						}
						return
					}
				}
			}
		}
	}
	c.expr(e, pr)
}

// findOutputs registers the receiver fields in source order and collects what the body writes
// through the receiver and the parameters
func (c *fnCtx) findOutputs(paramPos map[types.Object]int) {
	seen := map[types.Object]bool{}
	note := func(e ast.Expr) {
		e = unparen(e)
		if ix, ok := e.(*ast.IndexExpr); ok {
			e = ix.X
		}
		obj := c.variable(stripFull(e))
		if obj == nil || seen[obj] {
			return
		}
		isOut := c.derefs[obj] || c.isField(obj)
		if c.params[obj] {
			if g, ok := classify(obj.Type()); ok && g.kind == kBytes {
				isOut = true // the caller sees writes to the elements of a slice parameter
			}
		}
		if isOut {
			seen[obj] = true
			c.outs = append(c.outs, obj)
		}
	}
	ast.Inspect(c.fd.Body, func(n ast.Node) bool {
		switch x := n.(type) {
		case *ast.SelectorExpr:
			c.variable(x)
		case *ast.AssignStmt:
			for _, l := range x.Lhs {
				note(l)
			}
		case *ast.IncDecStmt:
			note(x.X)
		case *ast.ExprStmt:
			if call, ok := x.X.(*ast.CallExpr); ok && len(call.Args) > 0 {
				if c.isBuiltin(call.Fun, "copy") {
					note(call.Args[0])
				} else if order, _ := c.byteOrderCall(call); order != "" {
					note(call.Args[0])
				}
			}
		}
		return true
	})
	rank := func(o types.Object) int {
		if p, ok := paramPos[o]; ok {
			return 1000 + p
		}
		for i, f := range c.fields {
			if f.obj == o {
				return i
			}
		}
		return 0
	}
	sort.SliceStable(c.outs, func(i, j int) bool { return rank(c.outs[i]) < rank(c.outs[j]) })
}
