package main

import (
	"fmt"
	"go/ast"
	"go/constant"
	"go/token"
	"go/types"
	"strings"
)

// ---------------------------------------------------------------------------
// types of the supported subset
// ---------------------------------------------------------------------------

type gkind int

const (
	kInt   gkind = iota // an integer type of known signedness and width -> Z
	kBool               // bool -> bool
	kBytes              // []uint8 (also under a name) -> list Z
	kArr                // [n]T, T an integer type -> list Z
	kErr                // error
)

type gtype struct {
	kind   gkind
	signed bool
	bits   int
	n      int64 // kArr: length
}

func (t gtype) coq() string {
	switch t.kind {
	case kInt:
		return "Z"
	case kBool:
		return "bool"
	case kBytes, kArr:
		return "list Z"
	}
	return "?"
}

func (t gtype) zero() string {
	switch t.kind {
	case kInt:
		return "0"
	case kBool:
		return "false"
	case kArr:
		z := make([]string, t.n)
		for i := range z {
			z[i] = "0"
		}
		return "[" + strings.Join(z, "; ") + "]"
	case kBytes:
		return "[]" // a nil slice
	}
	return "?"
}

var errorType = types.Universe.Lookup("error").Type()

func classify(t types.Type) (gtype, bool) {
	if t == nil {
		return gtype{}, false
	}
	if types.Identical(t, errorType) {
		return gtype{kind: kErr}, true
	}
	switch u := t.Underlying().(type) {
	case *types.Basic:
		switch u.Kind() {
		case types.Bool, types.UntypedBool:
			return gtype{kind: kBool}, true
		case types.Int, types.Int64:
			return gtype{kind: kInt, signed: true, bits: 64}, true
		case types.Int32:
			return gtype{kind: kInt, signed: true, bits: 32}, true
		case types.Int16:
			return gtype{kind: kInt, signed: true, bits: 16}, true
		case types.Int8:
			return gtype{kind: kInt, signed: true, bits: 8}, true
		case types.Uint, types.Uint64:
			return gtype{kind: kInt, bits: 64}, true
		case types.Uint32:
			return gtype{kind: kInt, bits: 32}, true
		case types.Uint16:
			return gtype{kind: kInt, bits: 16}, true
		case types.Uint8:
			return gtype{kind: kInt, bits: 8}, true
		}
	case *types.Slice:
		if e, ok := classify(u.Elem()); ok && e.kind == kInt && !e.signed && e.bits == 8 {
			return gtype{kind: kBytes}, true
		}
	case *types.Array:
		if e, ok := classify(u.Elem()); ok && e.kind == kInt {
			return gtype{kind: kArr, signed: e.signed, bits: e.bits, n: u.Len()}, true
		}
	}
	return gtype{}, false
}

func wrapT(t gtype, s string) string {
	if t.signed {
		return fmt.Sprintf("(swrap %d %s)", t.bits, s)
	}
	return fmt.Sprintf("(wrap %d %s)", t.bits, s)
}

// ---------------------------------------------------------------------------
// per-function context
// ---------------------------------------------------------------------------

type fnCtx struct {
	p       *pkgInfo
	fd      *ast.FuncDecl
	monadic bool
	fuel    bool
	names   map[types.Object]string
	used    map[string]bool
	recvObj types.Object // struct receiver: the fields the function uses become parameters
	fields  []*fieldVar  // those fields, in order of first use
	fieldOf map[string]*fieldVar
	derefs  map[types.Object]bool // pointer-to-integer receiver/parameters: the Coq variable holds the pointee
	params  map[types.Object]bool // the parameters (slices among them may be written: outputs)
	outs    []types.Object        // what the function writes through its receiver/parameters, returned after the results
	readers map[types.Object]bool
	tmp     int
	sites   map[ast.Node]int // run-time check sites, numbered in order of first transcription
	esites  map[ast.Node]int // error return sites, numbered in source order of first transcription
	results []gtype
	hasErr  bool
}

// a field (path) of the struct receiver
type fieldVar struct {
	path string // "F" or "F.G"
	name string // Coq variable
	t    gtype
	obj  types.Object // synthetic variable standing for the field
}

// identifiers the generated code itself uses, Coq keywords and notations
var reserved = map[string]bool{}

func init() {
	for _, w := range strings.Fields(`as at cofix else end exists exists2 fix for forall fun if IF in let match mod
		return Set Prop SProp Type then using where with do
		wrap swrap go_not go_shl go_shl_s go_index go_slice_from go_divu go_modu go_divs go_mods
		go_read_le go_read_be go_iota go_fold_c go_fold_m go_loop ctl Next Break Ret
		go_slice go_copy go_update go_le_uint go_be_uint go_le_put go_be_put bytes_eqb zrepeat
		outcome Ok Err Panic Fuel bind of_opt slice zlen nth fold_left combine fst snd inl inr negb andb orb
		true false tt unit list Z nat bool length fuel le_dec be_dec firstn skipn Empty_set`) {
		reserved[w] = true
	}
}

func (c *fnCtx) fresh(base string) string {
	n := base
	for i := 1; reserved[n] || c.used[n] || strings.HasPrefix(n, "go_"); i++ {
		n = fmt.Sprintf("%s_%d", base, i)
	}
	c.used[n] = true
	return n
}

func (c *fnCtx) name(obj types.Object) string {
	if n, ok := c.names[obj]; ok {
		return n
	}
	n := c.fresh(obj.Name())
	c.names[obj] = n
	return n
}

func (c *fnCtx) newTmp() string {
	c.tmp++
	return fmt.Sprintf("go_t%d", c.tmp)
}

func (c *fnCtx) newSite(n ast.Node) int {
	if s, ok := c.sites[n]; ok {
		return s
	}
	c.sites[n] = len(c.sites) + 1
	return c.sites[n]
}

func (c *fnCtx) errSite(n ast.Node) int {
	if s, ok := c.esites[n]; ok {
		return s
	}
	c.esites[n] = len(c.esites) + 1
	return c.esites[n]
}

func (c *fnCtx) typeOf(e ast.Expr) gtype {
	t := c.p.info.TypeOf(e)
	if t == nil {
		fatal(e.Pos(), "no type for expression (%T)", e)
	}
	if b, ok := t.(*types.Basic); ok && b.Kind() == types.Invalid {
		fatal(e.Pos(), "expression has no valid type (%T)", e)
	}
	g, ok := classify(t)
	if !ok {
		fatal(e.Pos(), "type %s is outside the supported subset", t)
	}
	return g
}

// pre collects the bindings an expression needs evaluated before it (run-time checks)
type pre struct{ lines []string }

func (c *fnCtx) bindM(pr *pre, code string) string {
	c.wantMonadic()
	t := c.newTmp()
	pr.lines = append(pr.lines, fmt.Sprintf("do %s <- %s;", t, code))
	return t
}

func constString(v constant.Value, pos token.Pos) string {
	switch v.Kind() {
	case constant.Bool:
		if constant.BoolVal(v) {
			return "true"
		}
		return "false"
	case constant.Int, constant.Float:
		iv := constant.ToInt(v)
		if iv.Kind() != constant.Int {
			fatal(pos, "non-integer constant %s", v)
		}
		s := iv.ExactString()
		if strings.HasPrefix(s, "-") {
			return "(" + s + ")"
		}
		return s
	}
	fatal(pos, "constant of unsupported kind: %s", v)
	return ""
}

func (c *fnCtx) constOf(e ast.Expr) constant.Value {
	if tv, ok := c.p.info.Types[e]; ok && tv.Value != nil {
		return tv.Value
	}
	return nil
}

func unparen(e ast.Expr) ast.Expr {
	for {
		p, ok := e.(*ast.ParenExpr)
		if !ok {
			return e
		}
		e = p.X
	}
}

// expr transcribes an expression; the result is Coq code of the value's type
func (c *fnCtx) expr(e ast.Expr, pr *pre) string {
	if v := c.constOf(e); v != nil {
		return constString(v, e.Pos()) // integer and boolean constants only
	}
	switch e := e.(type) {
	case *ast.ParenExpr:
		return c.expr(e.X, pr)
	case *ast.Ident:
		obj := c.p.info.Uses[e]
		if obj == nil {
			fatal(e.Pos(), "identifier %s does not resolve", e.Name)
		}
		v, ok := obj.(*types.Var)
		if !ok {
			fatal(e.Pos(), "identifier %s is not a variable (%T)", e.Name, obj)
		}
		if v.Pkg() != nil && v.Parent() == v.Pkg().Scope() {
			if g, ok := classify(v.Type()); ok && (g.kind == kBytes || g.kind == kArr) {
				return c.table(e, v) // a constant byte table used as a value (checked to be read-only)
			}
			fatal(e.Pos(), "package-level variable %s used as a value", e.Name)
		}
		if c.derefs[obj] {
			fatal(e.Pos(), "pointer %s used other than as *%s", e.Name, e.Name)
		}
		if c.readers[obj] {
			fatal(e.Pos(), "reader %s used outside binary.Read", e.Name)
		}
		if obj == c.recvObj {
			fatal(e.Pos(), "receiver %s used as a whole", e.Name)
		}
		c.typeOf(e)
		return c.name(obj)
	case *ast.SelectorExpr, *ast.StarExpr:
		obj := c.variable(e)
		if obj == nil {
			fatal(e.Pos(), "expression of shape %T that is neither <receiver>.<field> nor *<pointer parameter>", e)
		}
		c.typeOf(e)
		return c.name(obj)
	case *ast.UnaryExpr:
		t := c.typeOf(e)
		x := c.expr(e.X, pr)
		switch e.Op {
		case token.NOT:
			return "(negb " + x + ")"
		case token.ADD:
			return x
		case token.SUB:
			return wrapT(t, "(- "+x+")")
		case token.XOR:
			if t.kind != kInt {
				fatal(e.Pos(), "^ on a non-integer")
			}
			if t.signed {
				return "(Z.lnot " + x + ")"
			}
			return fmt.Sprintf("(go_not %d %s)", t.bits, x)
		}
		fatal(e.Pos(), "unary operator %s is outside the supported subset", e.Op)
	case *ast.BinaryExpr:
		return c.binary(e, pr)
	case *ast.CallExpr:
		return c.call(e, pr)
	case *ast.IndexExpr:
		return c.index(e, pr)
	case *ast.SliceExpr:
		bt := c.typeOf(e.X)
		if e.Slice3 || (bt.kind != kBytes && bt.kind != kArr) {
			fatal(e.Pos(), "slice expression other than b[lo:hi] on a byte slice or array")
		}
		b := c.expr(e.X, pr)
		if e.Low == nil && e.High == nil {
			return b // x[:] has the elements of x
		}
		lo := "0"
		if e.Low != nil {
			lo = c.expr(e.Low, pr)
		}
		if e.High == nil {
			return c.bindM(pr, fmt.Sprintf("go_slice_from %d %s %s", c.newSite(e), b, lo))
		}
		// Go checks hi against cap(b); the transcription checks it against len(b): an Ok result is
		// exact, a Panic may be spurious (cap(b) > len(b))
		hi := c.expr(e.High, pr)
		return c.bindM(pr, fmt.Sprintf("go_slice %d %s %s %s", c.newSite(e), b, lo, hi))
	case *ast.CompositeLit:
		t := c.typeOf(e)
		if t.kind != kArr {
			fatal(e.Pos(), "composite literal of a type other than a fixed-size integer array")
		}
		if int64(len(e.Elts)) != t.n {
			fatal(e.Pos(), "array literal with %d of %d elements", len(e.Elts), t.n)
		}
		var xs []string
		for _, el := range e.Elts {
			if _, ok := el.(*ast.KeyValueExpr); ok {
				fatal(el.Pos(), "keyed array literal")
			}
			xs = append(xs, c.expr(el, pr))
		}
		return "[" + strings.Join(xs, "; ") + "]"
	}
	fatal(e.Pos(), "expression of shape %T is outside the supported subset", e)
	return ""
}

func (c *fnCtx) binary(e *ast.BinaryExpr, pr *pre) string {
	switch e.Op {
	case token.LAND, token.LOR:
		a := c.expr(e.X, pr)
		var pb pre
		b := c.expr(e.Y, &pb)
		if len(pb.lines) > 0 {
			// the right operand has run-time checks: it is evaluated only when the left one does not decide
			rhs := "(\n" + indent(pb.String()+"Ok "+b) + ")"
			if e.Op == token.LAND {
				return c.bindM(pr, "(if "+a+" then "+rhs+" else Ok false)")
			}
			return c.bindM(pr, "(if "+a+" then Ok true else "+rhs+")")
		}
		if e.Op == token.LAND {
			return "(" + a + " && " + b + ")"
		}
		return "(" + a + " || " + b + ")"
	case token.EQL, token.NEQ, token.LSS, token.LEQ, token.GTR, token.GEQ:
		ta, tb := c.typeOf(e.X), c.typeOf(e.Y)
		a := c.expr(e.X, pr)
		b := c.expr(e.Y, pr)
		if ta.kind == kBool && tb.kind == kBool && (e.Op == token.EQL || e.Op == token.NEQ) {
			if e.Op == token.EQL {
				return "(Bool.eqb " + a + " " + b + ")"
			}
			return "(negb (Bool.eqb " + a + " " + b + "))"
		}
		if ta.kind != kInt || tb.kind != kInt {
			fatal(e.Pos(), "comparison of non-integers")
		}
		switch e.Op {
		case token.EQL:
			return "(" + a + " =? " + b + ")"
		case token.NEQ:
			return "(negb (" + a + " =? " + b + "))"
		case token.LSS:
			return "(" + a + " <? " + b + ")"
		case token.LEQ:
			return "(" + a + " <=? " + b + ")"
		case token.GTR:
			return "(" + b + " <? " + a + ")"
		default:
			return "(" + b + " <=? " + a + ")"
		}
	}
	t := c.typeOf(e)
	if t.kind != kInt {
		fatal(e.Pos(), "operator %s on a non-integer", e.Op)
	}
	a := c.expr(e.X, pr)
	b := c.expr(e.Y, pr)
	return c.arith(e.Op, a, b, t, e.Y, pr)
}

// arith: a op b at type t; y is the Go expression of the right operand
func (c *fnCtx) arith(op token.Token, a, b string, t gtype, y ast.Expr, pr *pre) string {
	switch op {
	case token.ADD:
		return wrapT(t, "("+a+" + "+b+")")
	case token.SUB:
		return wrapT(t, "("+a+" - "+b+")")
	case token.MUL:
		return wrapT(t, "("+a+" * "+b+")")
	case token.AND:
		return "(Z.land " + a + " " + b + ")"
	case token.OR:
		return "(Z.lor " + a + " " + b + ")"
	case token.XOR:
		return "(Z.lxor " + a + " " + b + ")"
	case token.AND_NOT:
		return "(Z.ldiff " + a + " " + b + ")"
	case token.SHL, token.SHR:
		if v := c.constOf(y); v != nil {
			if constant.Sign(constant.ToInt(v)) < 0 {
				fatal(y.Pos(), "negative shift count")
			}
		} else if ty := c.typeOf(y); ty.kind != kInt || ty.signed {
			fatal(y.Pos(), "shift count of a signed type that is not a constant (Go panics on a negative count)")
		}
		if op == token.SHR {
			return "(Z.shiftr " + a + " " + b + ")"
		}
		if t.signed {
			return fmt.Sprintf("(go_shl_s %d %s %s)", t.bits, a, b)
		}
		return fmt.Sprintf("(go_shl %d %s %s)", t.bits, a, b)
	case token.QUO, token.REM:
		if v := c.constOf(y); v != nil {
			iv := constant.ToInt(v)
			if constant.Sign(iv) == 0 {
				fatal(y.Pos(), "division by the constant zero")
			}
			if !t.signed {
				if op == token.QUO {
					return "(" + a + " / " + b + ")"
				}
				return "(" + a + " mod " + b + ")"
			}
			if op == token.REM {
				return "(Z.rem " + a + " " + b + ")"
			}
			if constant.Compare(iv, token.EQL, constant.MakeInt64(-1)) {
				return wrapT(t, "(Z.quot "+a+" "+b+")")
			}
			return "(Z.quot " + a + " " + b + ")"
		}
		s := c.newSite(y)
		switch {
		case !t.signed && op == token.QUO:
			return c.bindM(pr, fmt.Sprintf("go_divu %d %s %s", s, a, b))
		case !t.signed:
			return c.bindM(pr, fmt.Sprintf("go_modu %d %s %s", s, a, b))
		case op == token.QUO:
			return c.bindM(pr, fmt.Sprintf("go_divs %d %d %s %s", s, t.bits, a, b))
		default:
			return c.bindM(pr, fmt.Sprintf("go_mods %d %s %s", s, a, b))
		}
	}
	fatal(y.Pos(), "binary operator %s is outside the supported subset", op)
	return ""
}

func (c *fnCtx) call(e *ast.CallExpr, pr *pre) string {
	info := c.p.info
	if e.Ellipsis.IsValid() {
		fatal(e.Pos(), "variadic call")
	}
	// conversion T(x)
	if tv, ok := info.Types[e.Fun]; ok && tv.IsType() {
		if len(e.Args) != 1 {
			fatal(e.Pos(), "conversion with %d arguments", len(e.Args))
		}
		to := c.typeOf(e)
		from := c.typeOf(e.Args[0])
		x := c.expr(e.Args[0], pr)
		if to.kind == kInt && from.kind == kInt {
			if to.signed == from.signed && to.bits == from.bits {
				return x
			}
			return wrapT(to, x)
		}
		if to.kind == from.kind && to.kind != kInt && to.n == from.n && to.bits == from.bits {
			return x // e.g. a named byte-slice or array type and its underlying type
		}
		fatal(e.Pos(), "conversion outside the supported subset")
	}
	// library functions with a fixed rendering
	if c.pkgCall(e, "bytes", "Equal") != nil && len(e.Args) == 2 {
		for _, a := range e.Args {
			if k := c.typeOf(a).kind; k != kBytes {
				fatal(a.Pos(), "bytes.Equal on something that is not a byte slice")
			}
		}
		a := c.expr(e.Args[0], pr)
		b := c.expr(e.Args[1], pr)
		return "(bytes_eqb " + a + " " + b + ")"
	}
	if order, name := c.byteOrderCall(e); order != "" {
		n, ok := map[string]int{"Uint16": 2, "Uint32": 4, "Uint64": 8}[name]
		if !ok || len(e.Args) != 1 || c.typeOf(e.Args[0]).kind != kBytes {
			fatal(e.Pos(), "binary.%s.%s in an unsupported position", order, name)
		}
		b := c.expr(e.Args[0], pr)
		return c.bindM(pr, fmt.Sprintf("go_%s_uint %d %d %s", order, c.newSite(e), n, b))
	}
	var fobj types.Object
	var recvArg ast.Expr
	switch f := unparen(e.Fun).(type) {
	case *ast.Ident:
		fobj = info.Uses[f]
	case *ast.SelectorExpr:
		if sel := info.Selections[f]; sel != nil {
			if sel.Kind() != types.MethodVal {
				fatal(e.Pos(), "call of a function-valued field")
			}
			fobj = sel.Obj()
			recvArg = f.X
		} else {
			fobj = info.Uses[f.Sel]
		}
	}
	if b, ok := fobj.(*types.Builtin); ok {
		if b.Name() == "len" && len(e.Args) == 1 {
			at := c.typeOf(e.Args[0])
			if at.kind != kBytes && at.kind != kArr {
				fatal(e.Pos(), "len of something that is not a byte slice or array")
			}
			return "(zlen " + c.expr(e.Args[0], pr) + ")"
		}
		if b.Name() == "make" && len(e.Args) == 2 && c.typeOf(e).kind == kBytes {
			v := c.constOf(e.Args[1])
			if v == nil || constant.Sign(constant.ToInt(v)) < 0 {
				fatal(e.Pos(), "make([]byte, n) with a length that is not a non-negative constant")
			}
			return "(zrepeat 0 " + constString(v, e.Pos()) + ")"
		}
		fatal(e.Pos(), "builtin %s is outside the supported subset", b.Name())
	}
	fn, ok := fobj.(*types.Func)
	if !ok {
		fatal(e.Pos(), "call of something that is not a translated function")
	}
	tr := done[fn]
	if tr == nil {
		fatal(e.Pos(), "call of %s, which is not whitelisted (or is whitelisted after its caller)", fn.FullName())
	}
	if tr.nouts > 0 {
		fatal(e.Pos(), "call of %s, which writes through its receiver or parameters", fn.FullName())
	}
	var args []string
	if tr.fuel {
		c.fuel = true
		args = append(args, "fuel")
	}
	if tr.recvFlds {
		// the callee takes the fields of its struct receiver as parameters: here the receiver must be
		// (a field of) this function's own struct receiver
		base, ok := c.fieldPath(recvArg)
		if recvArg == nil || !ok {
			fatal(e.Pos(), "call of a method with a struct receiver on something that is not a field of the receiver")
		}
		for _, f := range tr.fields {
			path := f.path
			if base != "" {
				path = base + "." + f.path
			}
			args = append(args, c.fieldByPath(path, f.t).name)
		}
	} else if recvArg != nil {
		args = append(args, c.expr(recvArg, pr))
	}
	for _, a := range e.Args {
		args = append(args, c.expr(a, pr))
	}
	code := "(" + tr.coqName + " " + strings.Join(args, " ") + ")"
	if len(args) == 0 {
		code = tr.coqName
	}
	if tr.monadic {
		return c.bindM(pr, code)
	}
	return code
}

func (c *fnCtx) index(e *ast.IndexExpr, pr *pre) string {
	info := c.p.info
	var base string
	isArr := false
	if id, ok := unparen(e.X).(*ast.Ident); ok {
		if v, ok := info.Uses[id].(*types.Var); ok && v.Pkg() != nil && v.Parent() == v.Pkg().Scope() {
			var el types.Type
			switch u := v.Type().Underlying().(type) {
			case *types.Array:
				el, isArr = u.Elem(), true
			case *types.Slice:
				el = u.Elem()
			default:
				fatal(e.Pos(), "package-level variable %s is not an array or slice", v.Name())
			}
			if g, ok := classify(el); !ok || g.kind != kInt {
				fatal(e.Pos(), "table %s does not have integer elements", v.Name())
			}
			base = c.table(id, v)
		}
	}
	if base == "" {
		bt := c.typeOf(e.X)
		if bt.kind != kBytes && bt.kind != kArr {
			fatal(e.Pos(), "indexing something that is not a byte slice, an integer array or a constant table")
		}
		isArr = bt.kind == kArr
		base = c.expr(e.X, pr)
	}
	if et := c.typeOf(e); et.kind != kInt {
		fatal(e.Pos(), "indexed element of a non-integer type")
	}
	if v := c.constOf(e.Index); v != nil && isArr {
		// a constant index into an array is checked by the compiler
		return fmt.Sprintf("(nth %s%%nat %s 0)", constString(v, e.Index.Pos()), base)
	}
	if it := c.typeOf(e.Index); it.kind != kInt {
		fatal(e.Index.Pos(), "index of a non-integer type")
	}
	i := c.expr(e.Index, pr)
	return c.bindM(pr, fmt.Sprintf("go_index %d %s %s", c.newSite(e), base, i))
}

// table emits (once) the Coq list of a package-level array/slice literal of integer constants that
// is never written to in its package
func (c *fnCtx) table(id *ast.Ident, v *types.Var) string {
	if n, ok := tables[v]; ok {
		return n
	}
	if v.Pkg() != c.p.tpkg {
		fatal(id.Pos(), "table %s of another package", v.Name())
	}
	var lit *ast.CompositeLit
	for _, f := range c.p.files {
		for _, d := range f.Decls {
			gd, ok := d.(*ast.GenDecl)
			if !ok || gd.Tok != token.VAR {
				continue
			}
			for _, s := range gd.Specs {
				vs := s.(*ast.ValueSpec)
				for i, nm := range vs.Names {
					if c.p.info.Defs[nm] == types.Object(v) {
						if len(vs.Values) != len(vs.Names) {
							fatal(nm.Pos(), "table %s is not initialised by a literal", v.Name())
						}
						l, ok := vs.Values[i].(*ast.CompositeLit)
						if !ok {
							fatal(nm.Pos(), "table %s is not initialised by a composite literal", v.Name())
						}
						lit = l
					}
				}
			}
		}
	}
	if lit == nil {
		fatal(id.Pos(), "declaration of table %s not found", v.Name())
	}
	// the table must be constant: no assignment to it or to an element, no address taken, not passed on
	for _, f := range c.p.files {
		ast.Inspect(f, func(n ast.Node) bool {
			x, ok := n.(*ast.Ident)
			if !ok || c.p.info.Uses[x] != types.Object(v) {
				return true
			}
			if !tableUseIsRead(f, x) {
				fatal(x.Pos(), "table %s is used other than by indexing/len/range: it may not be constant", v.Name())
			}
			return true
		})
	}
	var xs []string
	for _, el := range lit.Elts {
		if _, ok := el.(*ast.KeyValueExpr); ok {
			fatal(el.Pos(), "keyed element in table %s", v.Name())
		}
		cv := c.constOf(el)
		if cv == nil {
			fatal(el.Pos(), "non-constant element in table %s", v.Name())
		}
		xs = append(xs, constString(cv, el.Pos()))
	}
	if t, ok := v.Type().Underlying().(*types.Array); ok && int64(len(xs)) != t.Len() {
		for int64(len(xs)) < t.Len() {
			xs = append(xs, "0")
		}
	}
	name := "go_tbl_" + v.Name()
	if coqNames[name] {
		fatal(id.Pos(), "two tables named %s", v.Name())
	}
	coqNames[name] = true
	tables[v] = name
	var b strings.Builder
	fmt.Fprintf(&b, "(* %s *)\n", coqComment(c.p.dir+"/"+shortFile(fset.Position(lit.Pos()).Filename)+": var "+v.Name()))
	fmt.Fprintf(&b, "Definition %s : list Z :=\n  [", name)
	for i, x := range xs {
		if i > 0 {
			b.WriteString("; ")
			if i%8 == 0 {
				b.WriteString("\n   ")
			}
		}
		b.WriteString(x)
	}
	b.WriteString("].\n")
	tableDefs = append(tableDefs, b.String())
	return name
}

// tableUseIsRead: the identifier occurs as t[i] read, len(t) or range t
func tableUseIsRead(f *ast.File, x *ast.Ident) bool {
	path := pathTo(f, x)
	if len(path) < 2 {
		return false
	}
	parent := path[len(path)-2]
	switch p := parent.(type) {
	case *ast.IndexExpr:
		if p.X != ast.Expr(x) {
			return true // used as an index value: a read
		}
		// t[i] must not be assigned to / have its address taken
		if len(path) >= 3 {
			switch g := path[len(path)-3].(type) {
			case *ast.AssignStmt:
				for _, l := range g.Lhs {
					if l == ast.Expr(p) {
						return false
					}
				}
			case *ast.IncDecStmt:
				return false
			case *ast.UnaryExpr:
				if g.Op == token.AND {
					return false
				}
			}
		}
		return true
	case *ast.CallExpr:
		if id, ok := p.Fun.(*ast.Ident); ok && id.Name == "len" {
			return true
		}
		// bytes.Equal / bytes.HasPrefix / bytes.Index only read their arguments
		if sel, ok := p.Fun.(*ast.SelectorExpr); ok {
			if id, ok := sel.X.(*ast.Ident); ok && id.Name == "bytes" &&
				(sel.Sel.Name == "Equal" || sel.Sel.Name == "HasPrefix" || sel.Sel.Name == "Index") {
				return true
			}
		}
		return false
	case *ast.RangeStmt:
		return p.X == ast.Expr(x)
	}
	return false
}

func pathTo(root ast.Node, target ast.Node) []ast.Node {
	var stack, found []ast.Node
	ast.Inspect(root, func(n ast.Node) bool {
		if found != nil {
			return false
		}
		if n == nil {
			stack = stack[:len(stack)-1]
			return true
		}
		stack = append(stack, n)
		if n == target {
			found = append([]ast.Node(nil), stack...)
			return false
		}
		return true
	})
	return found
}
