package main

import (
	"fmt"
	"go/ast"
	"go/constant"
	"go/token"
	"go/types"
	"sort"
	"strings"
)

// needMonadic is thrown when a function being transcribed as a total function turns out to contain
// a run-time check, an error result or an unbounded loop: it is then transcribed again in the
// outcome monad.
type needMonadic struct{}

func (c *fnCtx) wantMonadic() {
	if !c.monadic {
		panic(needMonadic{})
	}
}

// env says how control leaves the current position
type env struct {
	retK   func(tuple string, errSite int) string // return (errSite > 0: a non-nil error); nil: not representable here
	breakK func() string
	contK  func() string
}

func indent(s string) string {
	lines := strings.Split(s, "\n")
	for i, l := range lines {
		if l != "" {
			lines[i] = "  " + l
		}
	}
	return strings.Join(lines, "\n")
}

func tuple(xs []string) string {
	switch len(xs) {
	case 0:
		return "tt"
	case 1:
		return xs[0]
	}
	return "(" + strings.Join(xs, ", ") + ")"
}

func lamPat(xs []string) string {
	switch len(xs) {
	case 0:
		return "_"
	case 1:
		return xs[0]
	}
	return "'(" + strings.Join(xs, ", ") + ")"
}

func inlPat(xs []string) string {
	switch len(xs) {
	case 0:
		return "inl _"
	case 1:
		return "inl " + xs[0]
	}
	return "inl (" + strings.Join(xs, ", ") + ")"
}

func letPat(xs []string, val string) string {
	switch len(xs) {
	case 0:
		return "let _ := " + val + " in\n"
	case 1:
		return "let " + xs[0] + " := " + val + " in\n"
	}
	return "let '(" + strings.Join(xs, ", ") + ") := " + val + " in\n"
}

func (pr *pre) String() string {
	if len(pr.lines) == 0 {
		return ""
	}
	return strings.Join(pr.lines, "\n") + "\n"
}

// ---------------------------------------------------------------------------
// the function
// ---------------------------------------------------------------------------

func translateFunc(p *pkgInfo, fd *ast.FuncDecl, t target) string {
	coqName := "go_" + t.name
	if t.recv != "" {
		coqName = "go_" + t.recv + "_" + t.name
	}
	if coqNames[coqName] {
		fatal(fd.Pos(), "two whitelisted functions map to %s", coqName)
	}
	coqNames[coqName] = true
	fobj := p.info.Defs[fd.Name]
	if fobj == nil {
		fatal(fd.Pos(), "no object for %s", fd.Name.Name)
	}
	var code string
	var c *fnCtx
	for _, monadic := range []bool{false, true} {
		c = &fnCtx{p: p, fd: fd, monadic: monadic, names: map[types.Object]string{}, used: map[string]bool{},
			fieldOf: map[string]*fieldVar{}, readers: map[types.Object]bool{}, sites: map[ast.Node]int{},
			esites: map[ast.Node]int{}, derefs: map[types.Object]bool{}, params: map[types.Object]bool{}}
		ok := func() (ok bool) {
			defer func() {
				if r := recover(); r != nil {
					if _, is := r.(needMonadic); is && !monadic {
						ok = false
						return
					}
					panic(r)
				}
			}()
			code = c.function(coqName)
			return true
		}()
		if ok {
			break
		}
	}
	done[fobj] = &translated{coqName: coqName, monadic: c.monadic, fuel: c.fuel, recvFlds: c.recvObj != nil,
		fields: c.fields, nouts: len(c.outs)}
	return code
}

// pointee: t is a pointer to an integer type
func pointee(t types.Type) (gtype, bool) {
	pt, ok := t.Underlying().(*types.Pointer)
	if !ok {
		return gtype{}, false
	}
	g, ok := classify(pt.Elem())
	return g, ok && g.kind == kInt
}

func (c *fnCtx) function(coqName string) string {
	fd, info := c.fd, c.p.info
	if fd.Type.TypeParams != nil {
		fatal(fd.Pos(), "generic function")
	}
	var params []string // "(x : Z)"
	paramPos := map[types.Object]int{}
	outType := map[types.Object]gtype{}
	recvSlot := -1
	if fd.Recv != nil {
		f := fd.Recv.List[0]
		var robj types.Object
		if len(f.Names) == 1 && f.Names[0].Name != "_" {
			robj = info.Defs[f.Names[0]]
		}
		rt := info.TypeOf(f.Type)
		if g, ok := classify(rt); ok && g.kind != kErr {
			n := c.fresh("recv")
			if robj != nil {
				n = c.name(robj)
				c.params[robj] = true
				paramPos[robj] = -1
				outType[robj] = g
			}
			params = append(params, fmt.Sprintf("(%s : %s)", n, g.coq()))
		} else if g, ok := pointee(rt); ok {
			// a pointer to a named integer: the parameter is the value pointed to, *recv reads and writes it
			if robj == nil {
				fatal(f.Pos(), "unnamed pointer receiver")
			}
			c.derefs[robj] = true
			paramPos[robj] = -1
			outType[robj] = g
			params = append(params, fmt.Sprintf("(%s : %s)", c.name(robj), g.coq()))
		} else {
			// a struct (or pointer to struct) receiver: the fields the function uses become parameters
			u := rt
			if pt, ok := u.Underlying().(*types.Pointer); ok {
				u = pt.Elem()
			}
			if _, ok := u.Underlying().(*types.Struct); !ok {
				fatal(f.Pos(), "receiver of type %s is outside the supported subset", rt)
			}
			if robj == nil {
				fatal(f.Pos(), "unnamed struct receiver")
			}
			c.recvObj = robj
			recvSlot = len(params)
		}
	}
	pos := 0
	for _, f := range fd.Type.Params.List {
		pt := info.TypeOf(f.Type)
		if _, variadic := f.Type.(*ast.Ellipsis); variadic {
			fatal(f.Pos(), "variadic parameter")
		}
		g, ok := classify(pt)
		isPtr := false
		if !ok {
			g, isPtr = pointee(pt)
			ok = isPtr
		}
		if !ok || g.kind == kErr {
			fatal(f.Pos(), "parameter type %s is outside the supported subset", pt)
		}
		if len(f.Names) == 0 {
			params = append(params, fmt.Sprintf("(%s : %s)", c.fresh("arg"), g.coq()))
			pos++
		}
		for _, nm := range f.Names {
			n := c.fresh("arg")
			if nm.Name != "_" {
				obj := info.Defs[nm]
				n = c.name(obj)
				c.params[obj] = true
				paramPos[obj] = pos
				outType[obj] = g
				if isPtr {
					c.derefs[obj] = true
				}
			}
			pos++
			params = append(params, fmt.Sprintf("(%s : %s)", n, g.coq()))
		}
	}
	if fd.Type.Results != nil {
		for i, f := range fd.Type.Results.List {
			if len(f.Names) > 0 {
				fatal(f.Pos(), "named results")
			}
			g, ok := classify(info.TypeOf(f.Type))
			if !ok {
				fatal(f.Pos(), "result type %s is outside the supported subset", info.TypeOf(f.Type))
			}
			if g.kind == kErr {
				if i != len(fd.Type.Results.List)-1 {
					fatal(f.Pos(), "error result that is not the last one")
				}
				c.hasErr = true
				c.wantMonadic()
				continue
			}
			c.results = append(c.results, g)
		}
	}
	c.findOutputs(paramPos)
	if len(c.results) == 0 && !c.hasErr && len(c.outs) == 0 {
		fatal(fd.Pos(), "function without a result that writes nothing through its receiver or parameters")
	}
	ev := env{retK: func(tup string, errSite int) string {
		if errSite > 0 {
			return fmt.Sprintf("Err %d", errSite)
		}
		if c.monadic {
			return "Ok " + parenIfNeeded(tup)
		}
		return tup
	}}
	body := c.stmts(fd.Body.List, ev, func() string {
		if len(c.results) > 0 || c.hasErr {
			fatal(fd.Body.Rbrace, "control reaches the end of the function body")
		}
		return ev.retK(tuple(c.namesOf(c.outs)), 0) + "\n"
	})
	// receiver fields
	if c.recvObj != nil {
		var fp []string
		for _, f := range c.fields {
			fp = append(fp, fmt.Sprintf("(%s : %s)", f.name, f.t.coq()))
			outType[f.obj] = f.t
		}
		params = append(params[:recvSlot], append(fp, params[recvSlot:]...)...)
	}
	if c.fuel {
		params = append([]string{"(fuel : nat)"}, params...)
	}
	var rts []string
	for _, g := range c.results {
		rts = append(rts, g.coq())
	}
	for _, o := range c.outs {
		rts = append(rts, outType[o].coq())
	}
	rt := "unit"
	if len(rts) == 1 {
		rt = rts[0]
	} else if len(rts) > 1 {
		rt = "(" + strings.Join(rts, " * ") + ")"
	}
	if c.monadic {
		rt = "outcome " + parenIfNeeded(rt)
	}
	var b strings.Builder
	fpos := fset.Position(fd.Pos())
	fmt.Fprintf(&b, "(* %s: %s", coqComment(c.p.dir+"/"+shortFile(fpos.Filename)), signature(fd))
	if len(c.outs) > 0 {
		fmt.Fprintf(&b, "\n   result: the declared results, then the final value of %s", coqComment(strings.Join(c.namesOf(c.outs), ", ")))
	}
	b.WriteString(" *)\n")
	fmt.Fprintf(&b, "Definition %s", coqName)
	for _, p := range params {
		b.WriteString(" " + p)
	}
	fmt.Fprintf(&b, " : %s :=\n%s.\n", rt, indent(strings.TrimRight(body, "\n")))
	return b.String()
}

func shortFile(f string) string {
	if i := strings.LastIndex(f, "/"); i >= 0 {
		return f[i+1:]
	}
	return f
}

func signature(fd *ast.FuncDecl) string {
	var b strings.Builder
	b.WriteString("func ")
	if fd.Recv != nil {
		b.WriteString("(" + types.ExprString(fd.Recv.List[0].Type) + ") ")
	}
	b.WriteString(fd.Name.Name)
	b.WriteString(strings.TrimPrefix(types.ExprString(fd.Type), "func"))
	return coqComment(b.String())
}

// ---------------------------------------------------------------------------
// statements (continuation-passing: k() is the code of what follows)
// ---------------------------------------------------------------------------

func (c *fnCtx) stmts(list []ast.Stmt, ev env, k func() string) string {
	if len(list) == 0 {
		return k()
	}
	s, rest := list[0], list[1:]
	next := func() string { return c.stmts(rest, ev, k) }
	info := c.p.info
	switch s := s.(type) {
	case *ast.EmptyStmt:
		return next()
	case *ast.BlockStmt:
		return c.stmts(append(append([]ast.Stmt{}, s.List...), rest...), ev, k)
	case *ast.DeclStmt:
		gd, ok := s.Decl.(*ast.GenDecl)
		if !ok || gd.Tok != token.VAR {
			fatal(s.Pos(), "local declaration other than var")
		}
		var out strings.Builder
		for _, sp := range gd.Specs {
			vs := sp.(*ast.ValueSpec)
			if len(vs.Values) != 0 && len(vs.Values) != len(vs.Names) {
				fatal(vs.Pos(), "var declaration with a multi-valued initialiser")
			}
			var pr pre
			var vals []string
			for i, nm := range vs.Names {
				obj := info.Defs[nm]
				g, ok := classify(obj.Type())
				if !ok || g.kind == kErr {
					fatal(nm.Pos(), "local variable of type %s is outside the supported subset", obj.Type())
				}
				if len(vs.Values) == 0 {
					vals = append(vals, g.zero())
				} else {
					vals = append(vals, c.expr(vs.Values[i], &pr))
				}
			}
			out.WriteString(pr.String())
			for i, nm := range vs.Names {
				if nm.Name == "_" {
					continue
				}
				out.WriteString(letPat([]string{c.name(info.Defs[nm])}, vals[i]))
			}
		}
		return out.String() + next()
	case *ast.ExprStmt:
		code, term := c.exprStmt(s)
		if term {
			return code
		}
		return code + next()
	case *ast.AssignStmt:
		return c.assign(s) + next()
	case *ast.IncDecStmt:
		obj := c.lhsVar(s.X)
		t := c.typeOf(s.X)
		if t.kind != kInt {
			fatal(s.Pos(), "++/-- on a non-integer")
		}
		n := c.name(obj)
		op := " + 1"
		if s.Tok == token.DEC {
			op = " - 1"
		}
		return letPat([]string{n}, wrapT(t, "("+n+op+")")) + next()
	case *ast.ReturnStmt:
		return c.ret(s, ev)
	case *ast.BranchStmt:
		if s.Label != nil {
			fatal(s.Pos(), "labelled %s", s.Tok)
		}
		switch s.Tok {
		case token.BREAK:
			if ev.breakK == nil {
				fatal(s.Pos(), "break outside a transcribed loop")
			}
			return ev.breakK()
		case token.CONTINUE:
			if ev.contK == nil {
				fatal(s.Pos(), "continue outside a transcribed loop")
			}
			return ev.contK()
		}
		fatal(s.Pos(), "%s statement", s.Tok)
	case *ast.IfStmt:
		if code, ok := c.readIdiom(s); ok {
			return code + next()
		}
		if s.Init != nil {
			// the names declared by the init statement are unique per object: no scoping issue
			cp := *s
			cp.Init = nil
			return c.stmts(append([]ast.Stmt{s.Init, &cp}, rest...), ev, k)
		}
		var conds []string
		var bodies [][]ast.Stmt
		var pr pre
		cur := s
		for {
			if cur.Init != nil {
				fatal(cur.Pos(), "else-if with an init statement")
			}
			var p2 pre
			cc := c.expr(cur.Cond, &p2)
			if len(conds) > 0 && len(p2.lines) > 0 {
				fatal(cur.Cond.Pos(), "else-if condition with a run-time check")
			}
			pr.lines = append(pr.lines, p2.lines...)
			conds = append(conds, cc)
			bodies = append(bodies, cur.Body.List)
			switch e := cur.Else.(type) {
			case nil:
				bodies = append(bodies, nil)
			case *ast.BlockStmt:
				bodies = append(bodies, e.List)
			case *ast.IfStmt:
				cur = e
				continue
			default:
				fatal(cur.Else.Pos(), "else branch of shape %T", cur.Else)
			}
			break
		}
		return pr.String() + c.branch(conds, bodies, s, rest, ev, k)
	case *ast.SwitchStmt:
		return c.switchStmt(s, rest, ev, k)
	case *ast.RangeStmt:
		return c.rangeLoop(s, rest, ev, k)
	case *ast.ForStmt:
		return c.forLoop(s, rest, ev, k)
	}
	fatal(s.Pos(), "statement of shape %T is outside the supported subset", s)
	return ""
}

func (c *fnCtx) lhsVar(e ast.Expr) types.Object {
	obj := c.variable(e)
	if obj == nil {
		fatal(e.Pos(), "assignment to something that is not a local variable, *<pointer parameter> or <receiver>.<field> (%T)", e)
	}
	return obj
}

// exprStmt: copy(dst, src), binary.<order>.PutUintN(b, v), panic(x)
func (c *fnCtx) exprStmt(s *ast.ExprStmt) (code string, terminates bool) {
	call, ok := unparen(s.X).(*ast.CallExpr)
	if !ok {
		fatal(s.Pos(), "expression statement that is not a call")
	}
	var pr pre
	switch {
	case c.isBuiltin(call.Fun, "panic") && len(call.Args) == 1:
		c.wantMonadic()
		c.effects(call.Args[0], &pr)
		return pr.String() + fmt.Sprintf("Panic %d\n", c.newSite(call)), true
	case c.isBuiltin(call.Fun, "copy") && len(call.Args) == 2:
		dst := c.lhsVar(stripFull(call.Args[0]))
		if k := c.typeOf(stripFull(call.Args[0])).kind; k != kBytes && k != kArr {
			fatal(s.Pos(), "copy into something that is not a byte slice or array")
		}
		if k := c.typeOf(call.Args[1]).kind; k != kBytes && k != kArr {
			fatal(s.Pos(), "copy from something that is not a byte slice or array")
		}
		src := c.expr(call.Args[1], &pr)
		n := c.name(dst)
		return pr.String() + letPat([]string{n}, "(go_copy "+n+" "+src+")"), false
	}
	if order, name := c.byteOrderCall(call); order != "" {
		w, ok := map[string]int{"PutUint16": 2, "PutUint32": 4, "PutUint64": 8}[name]
		if !ok || len(call.Args) != 2 {
			fatal(s.Pos(), "binary.%s.%s as a statement", order, name)
		}
		dst := c.lhsVar(stripFull(call.Args[0]))
		if c.typeOf(stripFull(call.Args[0])).kind != kBytes {
			fatal(s.Pos(), "PutUint into something that is not a byte slice")
		}
		if t := c.typeOf(call.Args[1]); t.kind != kInt || t.signed || t.bits != 8*w {
			fatal(s.Pos(), "PutUint of a value of another type")
		}
		v := c.expr(call.Args[1], &pr)
		n := c.name(dst)
		tmp := c.bindM(&pr, fmt.Sprintf("go_%s_put %d %d %s %s", order, c.newSite(call), w, n, v))
		return pr.String() + letPat([]string{n}, tmp), false
	}
	fatal(s.Pos(), "call statement outside the supported subset (copy, binary.<order>.PutUintN, panic)")
	return "", false
}

// pkgCall: e is a call <pkg>.<name>(...) with <pkg> an import of path
func (c *fnCtx) pkgCall(e ast.Expr, path, name string) *ast.CallExpr {
	call, ok := unparen(e).(*ast.CallExpr)
	if !ok {
		return nil
	}
	sel, ok := call.Fun.(*ast.SelectorExpr)
	if !ok || sel.Sel.Name != name {
		return nil
	}
	id, ok := sel.X.(*ast.Ident)
	if !ok {
		return nil
	}
	pn, ok := c.p.info.Uses[id].(*types.PkgName)
	if !ok || pn.Imported().Path() != path {
		return nil
	}
	return call
}

func (c *fnCtx) pkgSel(e ast.Expr, path, name string) bool {
	sel, ok := unparen(e).(*ast.SelectorExpr)
	if !ok || sel.Sel.Name != name {
		return false
	}
	id, ok := sel.X.(*ast.Ident)
	if !ok {
		return false
	}
	pn, ok := c.p.info.Uses[id].(*types.PkgName)
	return ok && pn.Imported().Path() == path
}

var assignOps = map[token.Token]token.Token{
	token.ADD_ASSIGN: token.ADD, token.SUB_ASSIGN: token.SUB, token.MUL_ASSIGN: token.MUL,
	token.QUO_ASSIGN: token.QUO, token.REM_ASSIGN: token.REM, token.AND_ASSIGN: token.AND,
	token.OR_ASSIGN: token.OR, token.XOR_ASSIGN: token.XOR, token.SHL_ASSIGN: token.SHL,
	token.SHR_ASSIGN: token.SHR, token.AND_NOT_ASSIGN: token.AND_NOT,
}

func (c *fnCtx) assign(s *ast.AssignStmt) string {
	var pr pre
	if op, ok := assignOps[s.Tok]; ok {
		if len(s.Lhs) != 1 || len(s.Rhs) != 1 {
			fatal(s.Pos(), "operator assignment with several operands")
		}
		obj := c.lhsVar(s.Lhs[0])
		t := c.typeOf(s.Lhs[0])
		if t.kind != kInt {
			fatal(s.Pos(), "operator assignment to a non-integer")
		}
		n := c.name(obj)
		b := c.expr(s.Rhs[0], &pr)
		v := c.arith(op, n, b, t, s.Rhs[0], &pr)
		return pr.String() + letPat([]string{n}, v)
	}
	if s.Tok != token.ASSIGN && s.Tok != token.DEFINE {
		fatal(s.Pos(), "assignment operator %s", s.Tok)
	}
	// x[i] = v: the slice/array variable x is rebound to the updated list
	if ix, ok := unparen(s.Lhs[0]).(*ast.IndexExpr); ok && len(s.Lhs) == 1 && len(s.Rhs) == 1 && s.Tok == token.ASSIGN {
		base := c.lhsVar(ix.X)
		if k := c.typeOf(ix.X).kind; k != kBytes && k != kArr {
			fatal(s.Pos(), "element assignment to something that is not a byte slice or integer array")
		}
		if c.typeOf(ix.Index).kind != kInt || c.typeOf(s.Rhs[0]).kind != kInt {
			fatal(s.Pos(), "element assignment with a non-integer index or value")
		}
		n := c.name(base)
		i := c.expr(ix.Index, &pr)
		v := c.expr(s.Rhs[0], &pr)
		tmp := c.bindM(&pr, fmt.Sprintf("go_update %d %s %s %s", c.newSite(ix), n, i, v))
		return pr.String() + letPat([]string{n}, tmp)
	}
	if len(s.Lhs) != len(s.Rhs) {
		fatal(s.Pos(), "assignment of a multi-valued expression")
	}
	// r := bytes.NewReader(buf): the reader is the list of its unread bytes
	if len(s.Lhs) == 1 && s.Tok == token.DEFINE {
		if call := c.pkgCall(s.Rhs[0], "bytes", "NewReader"); call != nil {
			id, ok := s.Lhs[0].(*ast.Ident)
			if !ok || len(call.Args) != 1 || c.typeOf(call.Args[0]).kind != kBytes {
				fatal(s.Pos(), "bytes.NewReader in an unsupported position")
			}
			obj := c.p.info.Defs[id]
			if obj == nil {
				fatal(s.Pos(), "bytes.NewReader assigned to an existing variable")
			}
			v := c.expr(call.Args[0], &pr)
			n := c.name(obj)
			c.readers[obj] = true
			return pr.String() + letPat([]string{n}, v)
		}
	}
	var vals, names []string
	for _, r := range s.Rhs {
		g := c.typeOf(r)
		if g.kind == kErr {
			fatal(r.Pos(), "assignment of an error value")
		}
		vals = append(vals, c.expr(r, &pr))
	}
	var keepV []string
	for i, l := range s.Lhs {
		if id, ok := l.(*ast.Ident); ok && id.Name == "_" {
			continue
		}
		names = append(names, c.name(c.lhsVar(l)))
		keepV = append(keepV, vals[i])
	}
	if len(names) == 0 {
		return pr.String()
	}
	return pr.String() + letPat(names, tuple(keepV))
}

func (c *fnCtx) isNil(e ast.Expr) bool {
	id, ok := unparen(e).(*ast.Ident)
	if !ok {
		return false
	}
	_, isNil := c.p.info.Uses[id].(*types.Nil)
	return isNil
}

// errorValue: e is certainly a non-nil error: fmt.Errorf(...), errors.New(...) or a package-level
// variable initialised by one of them and never assigned
func (c *fnCtx) errorValue(e ast.Expr, pr *pre) bool {
	if call := c.pkgCall(e, "fmt", "Errorf"); call != nil {
		for _, a := range call.Args {
			c.effects(a, pr)
		}
		return true
	}
	if call := c.pkgCall(e, "errors", "New"); call != nil {
		for _, a := range call.Args {
			c.effects(a, pr)
		}
		return true
	}
	id, ok := unparen(e).(*ast.Ident)
	if !ok {
		return false
	}
	v, ok := c.p.info.Uses[id].(*types.Var)
	if !ok || v.Pkg() != c.p.tpkg || v.Parent() != v.Pkg().Scope() {
		return false
	}
	good := false
	for _, f := range c.p.files {
		ast.Inspect(f, func(n ast.Node) bool {
			switch x := n.(type) {
			case *ast.ValueSpec:
				for i, nm := range x.Names {
					if c.p.info.Defs[nm] == types.Object(v) && len(x.Values) == len(x.Names) {
						good = c.pkgCall(x.Values[i], "errors", "New") != nil || c.pkgCall(x.Values[i], "fmt", "Errorf") != nil
					}
				}
			case *ast.AssignStmt:
				for _, l := range x.Lhs {
					if lid, ok := unparen(l).(*ast.Ident); ok && c.p.info.Uses[lid] == types.Object(v) {
						fatal(l.Pos(), "error variable %s is assigned: it may be nil", v.Name())
					}
				}
			case *ast.UnaryExpr:
				if lid, ok := unparen(x.X).(*ast.Ident); ok && x.Op == token.AND && c.p.info.Uses[lid] == types.Object(v) {
					fatal(x.Pos(), "address of error variable %s taken: it may be changed", v.Name())
				}
			}
			return true
		})
	}
	return good
}

func (c *fnCtx) ret(s *ast.ReturnStmt, ev env) string {
	if ev.retK == nil {
		fatal(s.Pos(), "internal: return in a position where it cannot be represented")
	}
	want := len(c.results)
	if c.hasErr {
		want++
	}
	if len(s.Results) != want {
		fatal(s.Pos(), "return with %d of %d values", len(s.Results), want)
	}
	var pr pre
	var vals []string
	for i := 0; i < len(c.results); i++ {
		vals = append(vals, c.expr(s.Results[i], &pr))
	}
	if c.hasErr {
		last := s.Results[want-1]
		switch {
		case c.isNil(last):
		case c.errorValue(last, &pr):
			return pr.String() + ev.retK("", c.errSite(s)) + "\n"
		default:
			fatal(last.Pos(), "error result that is neither nil nor fmt.Errorf(...)/errors.New(...)/a constant error variable")
		}
	}
	vals = append(vals, c.namesOf(c.outs)...)
	return pr.String() + ev.retK(tuple(vals), 0) + "\n"
}

// if err := binary.Read(r, binary.LittleEndian, &x); err != nil { return ..., err }
func (c *fnCtx) readIdiom(s *ast.IfStmt) (string, bool) {
	as, ok := s.Init.(*ast.AssignStmt)
	if !ok || as.Tok != token.DEFINE || len(as.Lhs) != 1 || len(as.Rhs) != 1 {
		return "", false
	}
	call := c.pkgCall(as.Rhs[0], "encoding/binary", "Read")
	if call == nil {
		return "", false
	}
	bad := func(why string) { fatal(s.Pos(), "binary.Read in an unsupported shape: %s", why) }
	errId, ok := as.Lhs[0].(*ast.Ident)
	if !ok {
		bad("result not bound to an identifier")
	}
	errObj := c.p.info.Defs[errId]
	cond, ok := unparen(s.Cond).(*ast.BinaryExpr)
	if !ok || cond.Op != token.NEQ || !c.isNil(cond.Y) {
		bad("condition is not err != nil")
	}
	if id, ok := unparen(cond.X).(*ast.Ident); !ok || c.p.info.Uses[id] != errObj {
		bad("condition is not err != nil")
	}
	if s.Else != nil || len(s.Body.List) != 1 {
		bad("body is not a single return")
	}
	r, ok := s.Body.List[0].(*ast.ReturnStmt)
	if !ok || !c.hasErr || len(r.Results) != len(c.results)+1 {
		bad("body is not a return of the error")
	}
	if id, ok := unparen(r.Results[len(r.Results)-1]).(*ast.Ident); !ok || c.p.info.Uses[id] != errObj {
		bad("the error returned is not the one binary.Read gave")
	}
	for _, x := range r.Results[:len(r.Results)-1] {
		if c.constOf(x) == nil {
			bad("a non-constant value is returned next to the error")
		}
	}
	if len(call.Args) != 3 {
		bad("argument count")
	}
	rid, ok := unparen(call.Args[0]).(*ast.Ident)
	if !ok || !c.readers[c.p.info.Uses[rid]] {
		bad("the source is not a local bytes.NewReader")
	}
	fn := ""
	switch {
	case c.pkgSel(call.Args[1], "encoding/binary", "LittleEndian"):
		fn = "go_read_le"
	case c.pkgSel(call.Args[1], "encoding/binary", "BigEndian"):
		fn = "go_read_be"
	default:
		bad("byte order")
	}
	u, ok := unparen(call.Args[2]).(*ast.UnaryExpr)
	if !ok || u.Op != token.AND {
		bad("destination is not &x")
	}
	dst := c.lhsVar(u.X)
	t := c.typeOf(u.X)
	if t.kind != kInt || t.signed {
		bad("destination is not an unsigned integer variable")
	}
	c.wantMonadic()
	rn := c.name(c.p.info.Uses[rid])
	tmp := c.newTmp()
	return fmt.Sprintf("do %s <- %s %d %s;\nlet %s := fst %s in\nlet %s := snd %s in\n",
		tmp, fn, t.bits/8, rn, c.name(dst), tmp, rn, tmp), true
}

// ---------------------------------------------------------------------------
// branching
// ---------------------------------------------------------------------------

func termStmt(s ast.Stmt) bool {
	switch s := s.(type) {
	case *ast.ReturnStmt:
		return true
	case *ast.BranchStmt:
		return s.Tok == token.BREAK || s.Tok == token.CONTINUE
	case *ast.ExprStmt:
		// panic(...) (checked to be the builtin when it is transcribed)
		if call, ok := s.X.(*ast.CallExpr); ok {
			if id, ok := call.Fun.(*ast.Ident); ok && id.Name == "panic" {
				return true
			}
		}
		return false
	case *ast.BlockStmt:
		return terminates(s.List)
	case *ast.IfStmt:
		return s.Else != nil && terminates(s.Body.List) && termStmt(s.Else)
	case *ast.SwitchStmt:
		hasDefault := false
		for _, cl := range s.Body.List {
			cc := cl.(*ast.CaseClause)
			if cc.List == nil {
				hasDefault = true
			}
			if !terminates(cc.Body) {
				return false
			}
		}
		return hasDefault
	}
	return false
}

func terminates(list []ast.Stmt) bool {
	for _, s := range list {
		if termStmt(s) {
			return true
		}
	}
	return false
}

func hasEscape(list []ast.Stmt) bool {
	found := false
	for _, s := range list {
		ast.Inspect(s, func(n ast.Node) bool {
			switch x := n.(type) {
			case *ast.ReturnStmt, *ast.BranchStmt:
				found = true
			case *ast.ExprStmt:
				if termStmt(x) { // panic(...)
					found = true
				}
			}
			return !found
		})
	}
	return found
}

func hasReturn(list []ast.Stmt) bool {
	found := false
	for _, s := range list {
		ast.Inspect(s, func(n ast.Node) bool {
			if _, ok := n.(*ast.ReturnStmt); ok {
				found = true
			}
			return !found
		})
	}
	return found
}

// hasBreak: a break that belongs to this loop body (not to a nested loop)
func hasBreak(list []ast.Stmt) bool {
	found := false
	var walk func(n ast.Node) bool
	walk = func(n ast.Node) bool {
		switch x := n.(type) {
		case *ast.ForStmt, *ast.RangeStmt:
			return false
		case *ast.BranchStmt:
			if x.Tok == token.BREAK {
				found = true
			}
		}
		return !found
	}
	for _, s := range list {
		ast.Inspect(s, walk)
	}
	return found
}

// assignedOuter: the local variables assigned inside the nodes that are declared outside [lo, hi]
func (c *fnCtx) assignedOuter(nodes []ast.Node, lo, hi token.Pos) []types.Object {
	seen := map[types.Object]bool{}
	var objs []types.Object
	add := func(e ast.Expr) {
		e = unparen(e)
		if ix, ok := e.(*ast.IndexExpr); ok {
			e = unparen(ix.X) // x[i] = v rebinds x
		}
		e = unparen(stripFull(e))
		var obj types.Object
		if id, ok := e.(*ast.Ident); ok {
			if id.Name == "_" {
				return
			}
			obj = c.p.info.Uses[id]
			if obj == nil {
				obj = c.p.info.Defs[id]
			}
			v, ok := obj.(*types.Var)
			if !ok || v.Pkg() == nil || v.Parent() == v.Pkg().Scope() || c.derefs[obj] {
				return
			}
		} else {
			obj = c.variable(e)
		}
		if obj == nil {
			return
		}
		if obj.Pos() >= lo && obj.Pos() <= hi {
			return
		}
		if !seen[obj] {
			seen[obj] = true
			objs = append(objs, obj)
		}
	}
	for _, n := range nodes {
		if n == nil {
			continue
		}
		ast.Inspect(n, func(n ast.Node) bool {
			switch x := n.(type) {
			case *ast.AssignStmt:
				for _, l := range x.Lhs {
					add(l)
				}
			case *ast.IncDecStmt:
				add(x.X)
			case *ast.UnaryExpr:
				if x.Op == token.AND {
					add(x.X)
				}
			case *ast.RangeStmt:
				if x.Tok == token.ASSIGN {
					if x.Key != nil {
						add(x.Key)
					}
					if x.Value != nil {
						add(x.Value)
					}
				}
			case *ast.CallExpr:
				// binary.Read(r, ...) advances the reader r
				if call := c.pkgCall(x, "encoding/binary", "Read"); call != nil && len(call.Args) > 0 {
					add(call.Args[0])
				}
				// copy(dst, ..) and binary.<order>.PutUintN(dst, ..) write dst
				if len(x.Args) > 0 {
					if order, _ := c.byteOrderCall(x); order != "" || c.isBuiltin(x.Fun, "copy") {
						add(x.Args[0])
					}
				}
			}
			return true
		})
	}
	sort.SliceStable(objs, func(i, j int) bool { return objs[i].Pos() < objs[j].Pos() })
	return objs
}

func (c *fnCtx) namesOf(objs []types.Object) []string {
	var xs []string
	for _, o := range objs {
		xs = append(xs, c.name(o))
	}
	return xs
}

func stmtNodes(lists ...[]ast.Stmt) []ast.Node {
	var ns []ast.Node
	for _, l := range lists {
		for _, s := range l {
			ns = append(ns, s)
		}
	}
	return ns
}

// branch: if conds[0] then bodies[0] else if conds[1] ... else bodies[len(conds)], then rest
func (c *fnCtx) branch(conds []string, bodies [][]ast.Stmt, node ast.Node, rest []ast.Stmt, ev env, k func() string) string {
	chain := func(body func(i int) string) string {
		var b strings.Builder
		for i, cc := range conds {
			if i > 0 {
				b.WriteString("else ")
			}
			fmt.Fprintf(&b, "if %s then\n%s\n", cc, indent(strings.TrimRight(body(i), "\n")))
		}
		fmt.Fprintf(&b, "else\n%s\n", indent(strings.TrimRight(body(len(conds)), "\n")))
		return b.String()
	}
	allTerm, anyEscape := true, false
	for _, b := range bodies {
		if !terminates(b) {
			allTerm = false
		}
		if hasEscape(b) {
			anyEscape = true
		}
	}
	dead := func() string {
		fatal(node.Pos(), "internal: continuation of a terminating branch used")
		return ""
	}
	if allTerm {
		if len(rest) > 0 {
			fatal(rest[0].Pos(), "unreachable code after a branch whose arms all return")
		}
		return chain(func(i int) string { return c.stmts(bodies[i], ev, dead) })
	}
	if !anyEscape {
		// join: the arms only assign; their effect is the new value of the variables they assign
		vars := c.namesOf(c.assignedOuter(stmtNodes(bodies...), node.Pos(), node.End()))
		inner := env{}
		end := func() string {
			if c.monadic {
				return "Ok " + tuple(vars) + "\n"
			}
			return tuple(vars) + "\n"
		}
		code := chain(func(i int) string { return c.stmts(bodies[i], inner, end) })
		after := c.stmts(rest, ev, k)
		if c.monadic {
			tmp := c.newTmp()
			return fmt.Sprintf("do %s <- (\n%s);\n", tmp, indent(strings.TrimRight(code, "\n"))) + letPat(vars, tmp) + after
		}
		if len(vars) == 0 {
			return after
		}
		return letPat(vars, "(\n"+indent(strings.TrimRight(code, "\n"))+")") + after
	}
	// some arm returns/breaks and some arm falls through: the continuation follows every arm
	return chain(func(i int) string {
		return c.stmts(bodies[i], ev, func() string { return c.stmts(rest, ev, k) })
	})
}

func (c *fnCtx) switchStmt(s *ast.SwitchStmt, rest []ast.Stmt, ev env, k func() string) string {
	if s.Init != nil {
		cp := *s
		cp.Init = nil
		return c.stmts(append([]ast.Stmt{s.Init, &cp}, rest...), ev, k)
	}
	var head string
	tag := ""
	if s.Tag != nil {
		if c.typeOf(s.Tag).kind != kInt {
			fatal(s.Tag.Pos(), "switch on a non-integer")
		}
		var pr pre
		v := c.expr(s.Tag, &pr)
		c.tmp++
		tag = fmt.Sprintf("go_sw%d", c.tmp)
		head = pr.String() + letPat([]string{tag}, v)
	}
	var conds []string
	var bodies [][]ast.Stmt
	var deflt []ast.Stmt
	for _, cl := range s.Body.List {
		cc := cl.(*ast.CaseClause)
		for _, st := range cc.Body {
			ast.Inspect(st, func(n ast.Node) bool {
				switch x := n.(type) {
				case *ast.ForStmt, *ast.RangeStmt:
					return false
				case *ast.BranchStmt:
					if x.Tok == token.BREAK || x.Tok == token.FALLTHROUGH {
						fatal(x.Pos(), "%s inside a switch", x.Tok)
					}
				}
				return true
			})
		}
		if cc.List == nil {
			deflt = cc.Body
			if deflt == nil {
				deflt = []ast.Stmt{}
			}
			continue
		}
		var alts []string
		for _, e := range cc.List {
			if tag != "" {
				v := c.constOf(e)
				if v == nil {
					fatal(e.Pos(), "non-constant case")
				}
				alts = append(alts, "("+tag+" =? "+constString(v, e.Pos())+")")
			} else {
				var pr pre
				alts = append(alts, c.expr(e, &pr))
				if len(pr.lines) > 0 {
					fatal(e.Pos(), "case condition with a run-time check")
				}
			}
		}
		cond := alts[0]
		if len(alts) > 1 {
			cond = "(" + strings.Join(alts, " || ") + ")"
		}
		conds = append(conds, cond)
		bodies = append(bodies, cc.Body)
	}
	bodies = append(bodies, deflt)
	if len(conds) == 0 {
		return head + c.stmts(append(append([]ast.Stmt{}, deflt...), rest...), ev, k)
	}
	return head + c.branch(conds, bodies, s, rest, ev, k)
}

// ---------------------------------------------------------------------------
// loops
// ---------------------------------------------------------------------------

// loop emits a loop over items (a Coq list, item bound by itemPat) or, when items == "", a fuel
// loop whose body starts with the test cond
func (c *fnCtx) loop(node ast.Stmt, blk *ast.BlockStmt, items, itemPat string, cond ast.Expr, post ast.Stmt, rest []ast.Stmt, ev env, k func() string) string {
	body := blk.List
	nodes := stmtNodes(body)
	if post != nil {
		nodes = append(nodes, post)
	}
	// the state of the loop: what the body (and the post statement) assign among the variables declared
	// outside the body
	state := c.namesOf(c.assignedOuter(nodes, blk.Pos(), blk.End()))
	for _, n := range state {
		if n == itemPat {
			fatal(node.Pos(), "the loop variable %s is assigned in the body", n)
		}
	}
	withRet := hasReturn(body)
	simple := items != "" && !c.monadic && !withRet && !hasBreak(body)
	ctl := func(s string) string {
		if c.monadic {
			return "Ok (" + s + ")\n"
		}
		return s + "\n"
	}
	inner := env{
		retK: func(tup string, errSite int) string {
			if errSite > 0 {
				return fmt.Sprintf("Err %d", errSite)
			}
			return strings.TrimRight(ctl("Ret "+parenIfNeeded(tup)), "\n")
		},
		breakK: func() string { return ctl("Break " + parenIfNeeded(tuple(state))) },
		contK:  func() string { return ctl("Next " + parenIfNeeded(tuple(state))) },
	}
	if post != nil {
		// continue and the end of the body run the post statement first
		next := inner.contK
		inner.contK = func() string { return c.stmts([]ast.Stmt{post}, env{}, next) }
	}
	if simple {
		inner = env{contK: func() string { return tuple(state) + "\n" }}
	}
	if withRet && ev.retK == nil {
		fatal(node.Pos(), "internal: loop with a return in a joined branch")
	}
	bodyCode := c.stmts(body, inner, inner.contK)
	var after string
	if items == "" && cond == nil && !hasBreak(body) {
		// for { .. } without break is left only by return: nothing follows it
		if len(rest) > 0 {
			fatal(rest[0].Pos(), "unreachable code after a for{} without break")
		}
		c.wantMonadic()
		after = "Fuel (* not reached: the loop has no break *)\n"
	} else {
		after = c.stmts(rest, ev, k)
	}
	if simple {
		if len(state) == 0 {
			return after // a loop without effect
		}
		return letPat(state, fmt.Sprintf("fold_left (fun %s %s =>\n%s) %s %s",
			lamPat(state), itemPat, indent(indent(strings.TrimRight(bodyCode, "\n"))), items, tuple(state))) + after
	}
	retArm := "match go_r : Empty_set with end"
	if withRet {
		retArm = ev.retK("go_r", 0)
	}
	arms := fmt.Sprintf("| %s =>\n%s\n| inr go_r => %s\nend\n", inlPat(state), indent(strings.TrimRight(after, "\n")), retArm)
	if items == "" {
		c.wantMonadic()
		c.fuel = true
		var pr pre
		test := "true"
		if cond != nil {
			test = c.expr(cond, &pr)
		}
		f := fmt.Sprintf("(fun %s =>\n%s", lamPat(state), indent(pr.String()+fmt.Sprintf("if %s then\n%s\nelse %s", test,
			indent(strings.TrimRight(bodyCode, "\n")), strings.TrimRight(inner.breakK(), "\n")))+")")
		tmp := c.newTmp()
		return fmt.Sprintf("do %s <- go_loop fuel %s %s;\nmatch %s with\n", tmp, f, tuple(state), tmp) + arms
	}
	f := fmt.Sprintf("(fun %s %s =>\n%s)", lamPat(state), itemPat, indent(strings.TrimRight(bodyCode, "\n")))
	if c.monadic {
		tmp := c.newTmp()
		return fmt.Sprintf("do %s <- go_fold_m %s %s %s;\nmatch %s with\n", tmp, f, items, tuple(state), tmp) + arms
	}
	return fmt.Sprintf("match go_fold_c %s %s %s with\n", f, items, tuple(state)) + arms
}

func parenIfNeeded(s string) string {
	if strings.ContainsAny(s, " ") && !strings.HasPrefix(s, "(") && !strings.HasPrefix(s, "[") {
		return "(" + s + ")"
	}
	return s
}

func (c *fnCtx) rangeLoop(s *ast.RangeStmt, rest []ast.Stmt, ev env, k func() string) string {
	if s.Tok == token.ASSIGN {
		fatal(s.Pos(), "range assigning to existing variables")
	}
	xt := c.typeOf(s.X)
	if xt.kind != kBytes && xt.kind != kArr {
		fatal(s.X.Pos(), "range over something that is not a byte slice or an integer array")
	}
	var pr pre
	x := c.expr(s.X, &pr)
	ident := func(e ast.Expr) string {
		if e == nil {
			return ""
		}
		id, ok := e.(*ast.Ident)
		if !ok {
			fatal(e.Pos(), "range variable that is not an identifier")
		}
		if id.Name == "_" {
			return ""
		}
		return c.name(c.p.info.Defs[id])
	}
	key, val := ident(s.Key), ident(s.Value)
	idx := fmt.Sprintf("(go_iota 0 (zlen %s) 1)", x)
	var items, pat string
	switch {
	case key != "" && val != "":
		items, pat = fmt.Sprintf("(combine %s %s)", idx, x), "'("+key+", "+val+")"
	case key != "":
		items, pat = idx, key
	case val != "":
		items, pat = x, val
	default:
		items, pat = x, "_"
	}
	return pr.String() + c.loop(s, s.Body, items, pat, nil, nil, rest, ev, k)
}

func (c *fnCtx) forLoop(s *ast.ForStmt, rest []ast.Stmt, ev env, k func() string) string {
	if s.Init == nil && s.Post == nil {
		return c.loop(s, s.Body, "", "", s.Cond, nil, rest, ev, k)
	}
	if items, counter, ok := c.counted(s); ok {
		return c.loop(s, s.Body, items, counter, nil, nil, rest, ev, k)
	}
	// the general three-clause loop: init; for cond { body; post } on fuel (continue runs post)
	switch s.Post.(type) {
	case nil, *ast.IncDecStmt, *ast.AssignStmt:
	default:
		fatal(s.Post.Pos(), "post statement of shape %T", s.Post)
	}
	loop := func() string { return c.loop(s, s.Body, "", "", s.Cond, s.Post, rest, ev, k) }
	if s.Init == nil {
		return loop()
	}
	return c.stmts([]ast.Stmt{s.Init}, env{}, loop)
}

// counted: for i := a; i < n; i += k { body } with i not assigned in the body, k a positive constant
// and n a length (so that i cannot overflow): the loop is a fold over the values of i
func (c *fnCtx) counted(s *ast.ForStmt) (items, counter string, ok bool) {
	init, isAssign := s.Init.(*ast.AssignStmt)
	if !isAssign || init.Tok != token.DEFINE || len(init.Lhs) != 1 || len(init.Rhs) != 1 {
		return
	}
	iid, isId := init.Lhs[0].(*ast.Ident)
	if !isId {
		return
	}
	iobj := c.p.info.Defs[iid]
	if iobj == nil {
		return
	}
	if g, known := classify(iobj.Type()); !known || g.kind != kInt {
		return
	}
	cond, isBin := unparen(s.Cond).(*ast.BinaryExpr)
	if !isBin || cond.Op != token.LSS {
		return
	}
	if id, isId := unparen(cond.X).(*ast.Ident); !isId || c.p.info.Uses[id] != iobj {
		return
	}
	step := ""
	switch p := s.Post.(type) {
	case *ast.IncDecStmt:
		if id, isId := p.X.(*ast.Ident); isId && c.p.info.Uses[id] == iobj && p.Tok == token.INC {
			step = "1"
		}
	case *ast.AssignStmt:
		if p.Tok == token.ADD_ASSIGN && len(p.Lhs) == 1 && len(p.Rhs) == 1 {
			if id, isId := p.Lhs[0].(*ast.Ident); isId && c.p.info.Uses[id] == iobj {
				if v := c.constOf(p.Rhs[0]); v != nil && constant.Sign(constant.ToInt(v)) > 0 {
					step = constString(v, p.Pos())
				}
			}
		}
	}
	if step == "" {
		return
	}
	for _, o := range c.assignedOuter(stmtNodes(s.Body.List), s.Body.Pos(), s.Body.End()) {
		if o == iobj {
			return
		}
	}
	if !c.isLength(cond.Y, s) {
		return
	}
	var pr pre
	a := c.expr(init.Rhs[0], &pr)
	n := c.expr(cond.Y, &pr)
	if len(pr.lines) > 0 {
		return
	}
	return fmt.Sprintf("(go_iota %s %s %s)", a, n, step), c.name(iobj), true
}

// isLength: e is len(x), or a local variable whose only assignment in the function is := len(x)
func (c *fnCtx) isLength(e ast.Expr, loop ast.Node) bool {
	e = unparen(e)
	if call, ok := e.(*ast.CallExpr); ok {
		if id, ok := call.Fun.(*ast.Ident); ok {
			if b, ok := c.p.info.Uses[id].(*types.Builtin); ok && b.Name() == "len" {
				return true
			}
		}
		return false
	}
	id, ok := e.(*ast.Ident)
	if !ok {
		return false
	}
	obj := c.p.info.Uses[id]
	count, good := 0, false
	ast.Inspect(c.fd.Body, func(n ast.Node) bool {
		switch x := n.(type) {
		case *ast.AssignStmt:
			for i, l := range x.Lhs {
				lid, ok := l.(*ast.Ident)
				if !ok {
					continue
				}
				o := c.p.info.Defs[lid]
				if o == nil {
					o = c.p.info.Uses[lid]
				}
				if o == obj {
					count++
					if len(x.Lhs) == len(x.Rhs) && x.Tok == token.DEFINE {
						good = c.isLength(x.Rhs[i], loop) && !isIdent(x.Rhs[i])
					}
				}
			}
		case *ast.IncDecStmt:
			if lid, ok := x.X.(*ast.Ident); ok && c.p.info.Uses[lid] == obj {
				count++
			}
		case *ast.UnaryExpr:
			if lid, ok := x.X.(*ast.Ident); ok && x.Op == token.AND && c.p.info.Uses[lid] == obj {
				count++
			}
		}
		return true
	})
	return count == 1 && good
}

func isIdent(e ast.Expr) bool {
	_, ok := unparen(e).(*ast.Ident)
	return ok
}
