// c10: executor and generator for property C10 (AMI NVAR stores: parse,
// reassemble, nvram-compact, invalidate_nvar).
package main

import (
	"bytes"
	"encoding/binary"
	"fmt"
	"os"
	"regexp"
	"strings"
	"time"
	"unicode/utf8"

	"github.com/linuxboot/fiano/pkg/uefi"
	"github.com/linuxboot/fiano/pkg/unicode"
	"github.com/linuxboot/fiano/pkg/visitors"
	. "verifharness/common"
	"verifharness/uefigen"
	"verifharness/uefiops"
)

// ---------- observations (must match ocaml/c10/run.ml byte for byte) ----------

func optU8(p *uint8) string {
	if p == nil {
		return "-"
	}
	return N(uint64(*p))
}

func showExt(e *uefi.NVar) string {
	if e.Type == uefi.InvalidNVarEntry {
		return "x"
	}
	xa, ts, unk := "-", "-", "0"
	if e.ExtAttributes != nil {
		xa = N(uint64(*e.ExtAttributes))
	}
	if e.TimeStamp != nil {
		ts = N(*e.TimeStamp)
	}
	if e.UnknownExtendedHeaderFormat {
		unk = "1"
	}
	hash := "-"
	if e.Hash != nil {
		hash = H(e.Hash)
	}
	return strings.Join([]string{"x" + I(e.ExtOffset), xa, optU8(e.Checksum), optU8(e.ExpectedChecksum), ts, hash, unk}, ":")
}

func showEntry(e *uefi.NVar) string {
	name := e.Name
	if e.Type == uefi.InvalidNVarEntry && strings.HasPrefix(name, "Invalid ExtHeader") {
		name = "Invalid ExtHeader"
	}
	sub := "-"
	if e.NVarStore != nil {
		sub = "N " + showStore(e.NVarStore)
	}
	return strings.Join([]string{"E", N(uint64(e.Type)), N(uint64(e.Header.Size)), N(uefi.Read3Size(e.Header.Next)),
		N(uint64(e.Header.Attributes)), N(e.Offset), N(e.NextOffset), I(e.DataOffset), H(e.GUID[:]),
		optU8(e.GUIDIndex), H([]byte(name)), H(e.Buf()), showExt(e), sub}, " ")
}

func showStore(s *uefi.NVarStore) string {
	p := []string{"S", N(s.FreeSpaceOffset), N(s.GUIDStoreOffset), N(s.Length), N(uint64(len(s.GUIDStore)))}
	for _, g := range s.GUIDStore {
		p = append(p, H(g[:]))
	}
	p = append(p, N(uint64(len(s.Entries))))
	for _, e := range s.Entries {
		p = append(p, showEntry(e))
	}
	return strings.Join(p, " ")
}

func showFull(s *uefi.NVarStore) string { return "ok " + H(s.Buf()) + " " + showStore(s) }

var errTable = [][2]string{
	{"Signature not found", "2"},
	{"Size bigger than", "3"},
	{"Size smaller than", "4"},
	{"erase polarity", "5"},
	{"header size mismatch", "6"},
	{"NVAR size mismatch", "7"},
	{"unable to construct Invalid", "8"},
	{"unable to update data in link", "9"},
	{"NVAR store too small", "a"},
	{"EOF", "1"},
}

func errObs(err error) string {
	c := ErrClass(err, errTable)
	if !strings.HasPrefix(c, "err ") || c == "err ?" {
		return c + " " + err.Error()
	}
	cls := UnN(c[4:])
	off := uint64(0)
	msg := err.Error()
	if i := strings.Index(msg, "at offset 0x"); i >= 0 {
		fmt.Sscanf(msg[i+len("at offset 0x"):], "%x", &off)
	}
	return "err " + N(cls+8*off)
}

func parse(pol uint64, b []byte) (*uefi.NVarStore, error) {
	uefi.Attributes.ErasePolarity = byte(pol)
	return uefi.NewNVarStore(b)
}

func opParse(args []string) string {
	s, err := parse(UnN(args[0]), UnH(args[1]))
	if err != nil {
		return errObs(err)
	}
	return "ok " + showStore(s)
}

func opAssemble(args []string) string {
	s, err := parse(UnN(args[0]), UnH(args[1]))
	if err != nil {
		return errObs(err)
	}
	if err := (&visitors.Assemble{}).Run(s); err != nil {
		return errObs(err)
	}
	return showFull(s)
}

func opCompact(args []string) string {
	s, err := parse(UnN(args[0]), UnH(args[1]))
	if err != nil {
		return errObs(err)
	}
	if err := (&visitors.NVRamCompact{}).Run(s); err != nil {
		return errObs(err)
	}
	return showFull(s)
}

func namePred(name string) func(f uefi.Firmware) bool {
	return func(f uefi.Firmware) bool {
		if v, ok := f.(*uefi.NVar); ok {
			return v.Name == name
		}
		return false
	}
}

func opInvCompact(args []string) string {
	s, err := parse(UnN(args[0]), UnH(args[2]))
	if err != nil {
		return errObs(err)
	}
	if err := (&visitors.NVarInvalidate{Predicate: namePred(string(UnH(args[1])))}).Run(s); err != nil {
		return errObs(err)
	}
	if err := (&visitors.NVRamCompact{}).Run(s); err != nil {
		return errObs(err)
	}
	return showFull(s)
}

// ---------- several visitors on the same in-memory tree ----------

// ops: comma separated; "c" = nvram-compact, "a" = Assemble (what save does),
// "i<hex name>" = invalidate_nvar with that exact name; "-" = none
func runSeq(s *uefi.NVarStore, ops string) error {
	return runSeqOn(s, ops, func(name string) func(f uefi.Firmware) bool { return namePred(name) })
}

// the same on any node (the image root), with the predicate of an invalidate step made by mk
func runSeqOn(s uefi.Firmware, ops string, mk func(name string) func(f uefi.Firmware) bool) error {
	if ops == "-" || ops == "" {
		return nil
	}
	for _, t := range strings.Split(ops, ",") {
		var err error
		switch {
		case t == "c":
			err = (&visitors.NVRamCompact{}).Run(s)
		case t == "a":
			err = (&visitors.Assemble{}).Run(s)
		case strings.HasPrefix(t, "i"):
			err = (&visitors.NVarInvalidate{Predicate: mk(string(UnH(t[1:])))}).Run(s)
		default:
			panic("bad op " + t)
		}
		if err != nil {
			return err
		}
	}
	return nil
}

func opSeq(args []string) string {
	s, err := parse(UnN(args[0]), UnH(args[2]))
	if err != nil {
		return errObs(err)
	}
	if err := runSeq(s, args[1]); err != nil {
		return errObs(err)
	}
	return showFull(s)
}

func opUcs2Utf8(args []string) string { return "ok " + H([]byte(unicode.UCS2ToUTF8(UnH(args[0])))) }
func opUtf8Ucs2(args []string) string { return "ok " + H(unicode.UTF8ToUCS2(string(UnH(args[0])))) }

// ---------- property oracles ----------

type liveVar struct {
	guid, name, value []byte
}

func liveArgs(l []liveVar) []string {
	a := []string{N(uint64(len(l)))}
	for _, v := range l {
		a = append(a, H(v.guid), H(v.name), H(v.value))
	}
	return a
}

func argsLive(a []string) []liveVar {
	n := int(UnN(a[0]))
	var l []liveVar
	for i := 0; i < n; i++ {
		l = append(l, liveVar{UnH(a[1+3*i]), UnH(a[2+3*i]), UnH(a[3+3*i])})
	}
	return l
}

// round trip: a well-formed store parses and reassembles to the same bytes
func pRoundTrip(args []string) string {
	pol, b := UnN(args[0]), UnH(args[1])
	orig := append([]byte{}, b...)
	s, err := parse(pol, b)
	if err != nil {
		return "FAIL parse-error " + err.Error()
	}
	if err := (&visitors.Assemble{}).Run(s); err != nil {
		return "FAIL assemble-error " + err.Error()
	}
	if !bytes.Equal(s.Buf(), orig) {
		return "FAIL bytes-differ"
	}
	return "ok"
}

// checks the clauses of the compaction statement on an already compacted store
func checkCompacted(pol uint64, s *uefi.NVarStore, origLen int, want []liveVar) string {
	if len(s.Buf()) != origLen || s.Length != uint64(origLen) {
		return "FAIL length-changed"
	}
	return checkCompactedBytes(pol, append([]byte{}, s.Buf()...), origLen, want)
}

// ---- a value that is itself an NVAR store (AMI StdDefaults/MfgDefaults) ----
// nvram-compact compacts nested stores too, so such a value is not carried byte
// for byte: it must keep its length, hold only Full entries, and have the live
// set (recursively) of the most recent value.

type liveNode struct {
	guid, name, value []byte
	store             bool
	sub               []liveNode
}

func liveTreeOf(s *uefi.NVarStore) []liveNode {
	var l []liveNode
	for _, e := range s.Entries {
		if !e.IsValid() || e.NextOffset != 0 {
			continue
		}
		n := liveNode{guid: append([]byte{}, e.GUID[:]...), name: []byte(e.Name), value: e.Buf()[e.DataOffset:]}
		if e.NVarStore != nil {
			n.store, n.sub = true, liveTreeOf(e.NVarStore)
		}
		l = append(l, n)
	}
	return l
}

func sameLiveTree(pol uint64, a, b []liveNode, path string) string {
	if len(a) != len(b) {
		return fmt.Sprintf(" nested%s: %d live variables, want %d", path, len(a), len(b))
	}
	for i := range a {
		p := fmt.Sprintf("%s/%d", path, i)
		if !bytes.Equal(a[i].guid, b[i].guid) || !bytes.Equal(a[i].name, b[i].name) {
			return " nested" + p + ": guid or name"
		}
		if !a[i].store && b[i].store && len(b[i].sub) == 0 && len(a[i].value) == len(b[i].value) &&
			uefi.IsErased(a[i].value, byte(pol)) {
			continue // a store without live variables compacts to erased bytes
		}
		if a[i].store != b[i].store {
			return " nested" + p + ": store-ness"
		}
		if a[i].store {
			if len(a[i].value) != len(b[i].value) {
				return " nested" + p + ": length"
			}
			if m := sameLiveTree(pol, a[i].sub, b[i].sub, p); m != "" {
				return m
			}
		} else if !bytes.Equal(a[i].value, b[i].value) {
			return " nested" + p + ": value"
		}
	}
	return ""
}

func onlyFull(s *uefi.NVarStore) bool {
	for _, e := range s.Entries {
		if e.Type != uefi.FullNVarEntry || e.NextOffset != 0 || e.Header.Attributes&uefi.NVarEntryDataOnly != 0 {
			return false
		}
		if e.NVarStore != nil && !onlyFull(e.NVarStore) {
			return false
		}
	}
	return true
}

// does entry e (of a re-parsed compacted store) carry the value want?
func valueCarried(pol uint64, e *uefi.NVar, want []byte) string {
	got := e.Buf()[e.DataOffset:]
	var ws *uefi.NVarStore
	if len(want) >= 4 && string(want[:4]) == "NVAR" {
		ws, _ = parse(pol, append([]byte{}, want...))
	}
	if ws == nil {
		if !bytes.Equal(got, want) {
			return " bytes"
		}
		return ""
	}
	if len(got) != len(want) {
		return " nested: length"
	}
	if e.NVarStore == nil {
		// a store without live variables compacts to erased bytes, which no longer start an entry
		if len(liveTreeOf(ws)) == 0 && uefi.IsErased(got, byte(pol)) {
			return ""
		}
		return " nested: no longer a store"
	}
	if !onlyFull(e.NVarStore) {
		return " nested: not compacted"
	}
	return sameLiveTree(pol, liveTreeOf(e.NVarStore), liveTreeOf(ws), "")
}

// the same on the bytes of a compacted store (as found in a saved image)
func checkCompactedBytes(pol uint64, out []byte, origLen int, want []liveVar) string {
	if len(out) != origLen {
		return "FAIL length-changed"
	}
	r, err := parse(pol, out)
	if err != nil {
		return "FAIL reparse-error " + err.Error()
	}
	if len(r.Entries) != len(want) {
		return fmt.Sprintf("FAIL entry-count got %d want %d", len(r.Entries), len(want))
	}
	var table [][]byte
	for i, e := range r.Entries {
		if e.Type != uefi.FullNVarEntry {
			return fmt.Sprintf("FAIL entry %d is %v", i, e.Type)
		}
		if e.NextOffset != 0 || e.Header.Attributes&uefi.NVarEntryDataOnly != 0 {
			return fmt.Sprintf("FAIL entry %d still a link or data-only", i)
		}
		w := want[i]
		if !bytes.Equal(e.GUID[:], w.guid) {
			return fmt.Sprintf("FAIL entry %d guid", i)
		}
		if e.Name != string(w.name) {
			return fmt.Sprintf("FAIL entry %d name %q want %q", i, e.Name, string(w.name))
		}
		if msg := valueCarried(pol, e, w.value); msg != "" {
			return fmt.Sprintf("FAIL entry %d value%s", i, msg)
		}
		if e.GUIDIndex != nil {
			// rebuilt table: first-use order, no duplicates
			idx := int(*e.GUIDIndex)
			if idx > len(table) {
				return fmt.Sprintf("FAIL entry %d guid index %d skips", i, idx)
			}
			if idx == len(table) {
				for _, g := range table {
					if bytes.Equal(g, w.guid) {
						return fmt.Sprintf("FAIL entry %d duplicate table guid", i)
					}
				}
				table = append(table, w.guid)
			}
		}
	}
	if len(r.GUIDStore) != len(table) {
		return "FAIL guid-table-size"
	}
	// everything between the entries and the table is erased
	for _, c := range out[r.FreeSpaceOffset:r.GUIDStoreOffset] {
		if c != byte(pol) {
			return "FAIL free-space-not-erased"
		}
	}
	// idempotent
	if err := (&visitors.NVRamCompact{}).Run(r); err != nil {
		return "FAIL second-compact-error " + err.Error()
	}
	if !bytes.Equal(r.Buf(), out) {
		return "FAIL not-idempotent"
	}
	return "ok"
}

func pCompact(args []string) string {
	pol, b := UnN(args[0]), UnH(args[1])
	want := argsLive(args[2:])
	s, err := parse(pol, b)
	if err != nil {
		return "FAIL parse-error " + err.Error()
	}
	if err := (&visitors.NVRamCompact{}).Run(s); err != nil {
		return "FAIL compact-error " + err.Error()
	}
	return checkCompacted(pol, s, len(b), want)
}

func pInvCompact(args []string) string {
	pol, name, b := UnN(args[0]), string(UnH(args[1])), UnH(args[2])
	all := argsLive(args[3:])
	var want []liveVar
	for _, v := range all {
		if string(v.name) != name {
			want = append(want, v)
		}
	}
	s, err := parse(pol, b)
	if err != nil {
		return "FAIL parse-error " + err.Error()
	}
	if err := (&visitors.NVarInvalidate{Predicate: namePred(name)}).Run(s); err != nil {
		return "FAIL invalidate-error " + err.Error()
	}
	if err := (&visitors.NVRamCompact{}).Run(s); err != nil {
		return "FAIL compact-error " + err.Error()
	}
	return checkCompacted(pol, s, len(b), want)
}

// invalidate_nvar as the command line builds it: the predicate comes from
// visitors.FindNVarPredicate, given the name as a literal (metacharacters quoted).  It must select
// the entries carrying exactly that name (DESIGN 5.0), so the outcome is the one of p_invcompact.
func cliPred(name string) (func(f uefi.Firmware) bool, string) {
	if !utf8.ValidString(name) || strings.ContainsRune(name, utf8.RuneError) {
		return nil, "skip" // not expressible as a pattern: a pattern is UTF-8 text
	}
	pred, err := visitors.FindNVarPredicate(regexp.QuoteMeta(name))
	if err != nil {
		return nil, "FAIL predicate-error " + err.Error()
	}
	return pred, ""
}

func pInvCli(args []string) string {
	pol, name, b := UnN(args[0]), string(UnH(args[1])), UnH(args[2])
	all := argsLive(args[3:])
	pred, why := cliPred(name)
	if pred == nil {
		return why
	}
	var want []liveVar
	for _, v := range all {
		if string(v.name) != name {
			want = append(want, v)
		}
	}
	s, err := parse(pol, b)
	if err != nil {
		return "FAIL parse-error " + err.Error()
	}
	if err := (&visitors.NVarInvalidate{Predicate: pred}).Run(s); err != nil {
		return "FAIL invalidate-error " + err.Error()
	}
	if err := (&visitors.NVRamCompact{}).Run(s); err != nil {
		return "FAIL compact-error " + err.Error()
	}
	return checkCompacted(pol, s, len(b), want)
}

// ---------- the store where the tool finds it: a raw file with the NVAR GUID in a volume ----------

var fillerGUID = [16]byte{0x10, 0x32, 0x54, 0x76, 0x98, 0xBA, 0xDC, 0xFE, 1, 2, 3, 4, 5, 6, 7, 8}

// wrapStore builds a one-volume image around the store.  lay: bit 0 = an ordinary raw file before the
// store file, bit 1 = one after it, bits 2-3 = free space of the volume.
func wrapStore(pol uint64, lay uint64, store []byte) []byte {
	attrs, state := uint32(0x4FEFF), byte(0xF8)
	if pol == 0 {
		attrs, state = 0x4F6FF, 0x07
	}
	nf := &uefigen.File{Type: 1, State: state, Body: store}
	copy(nf.GUID[:], uefi.NVAR[:])
	filler := func(n int) *uefigen.File {
		body := make([]byte, n)
		for i := range body {
			body[i] = byte(0x40 + i%23)
		}
		copy(body, "NVAR") // a raw file that is not a store file, whatever it starts with
		return &uefigen.File{GUID: fillerGUID, Type: 1, State: state, Body: body}
	}
	v := &uefigen.Vol{FSGUID: uefigen.FFS2, Attrs: attrs, Revision: 2, BlockSize: 64,
		FreeSpace: []int{0, 8, 40, 100}[(lay>>2)&3]}
	if lay&1 != 0 {
		v.Files = append(v.Files, filler(13))
	}
	v.Files = append(v.Files, nf)
	if lay&2 != 0 {
		v.Files = append(v.Files, filler(30))
	}
	img, _ := uefigen.EmitRegion(&uefigen.Region{Elems: []uefigen.Elem{{Vol: v}}})
	return img
}

// the one file with the NVAR GUID below root
func storeFile(root uefi.Firmware) (*uefi.File, string) {
	find := visitors.Find{Predicate: visitors.FindFileGUIDPredicate(*uefi.NVAR)}
	if err := find.Run(root); err != nil {
		return nil, "FAIL find-error " + err.Error()
	}
	if len(find.Matches) != 1 {
		return nil, fmt.Sprintf("FAIL store-file-count %d", len(find.Matches))
	}
	f, ok := find.Matches[0].(*uefi.File)
	if !ok {
		return nil, "FAIL store-file-not-a-file"
	}
	return f, ""
}

// p_file pol lay ops store live...: the statement observed at "a RAW file with the NVAR GUID inside
// a volume": parsing the image yields the store; a command line of invalidate_nvar / nvram-compact /
// Assemble steps followed by save, all run on the image ROOT, leaves an image of the same size whose
// store file holds the store compacted at the last nvram-compact (the unchanged store when there was
// none).  ops as for seq; the predicate of an invalidate step is the command line's (cliPred).
func pFile(args []string) string {
	pol, lay, ops, b := UnN(args[0]), UnN(args[1]), args[2], UnH(args[3])
	if len(b) == 0 || pol != 0xFF {
		return "skip" // an empty file body holds no store; volumes: see the generator
	}
	if ops != "-" {
		for _, t := range strings.Split(ops, ",") {
			if strings.HasPrefix(t, "i") {
				if pred, why := cliPred(string(UnH(t[1:]))); pred == nil {
					return why
				}
			}
		}
	}
	want, compacted := seqExpect(ops, argsLive(args[4:]))
	img := wrapStore(pol, lay, b)
	orig := append([]byte{}, img...)
	uefiops.Reset()
	root, err := uefi.Parse(img)
	if err != nil {
		return "FAIL image-not-parsed " + err.Error()
	}
	f, why := storeFile(root)
	if f == nil {
		return why
	}
	if f.NVarStore == nil {
		return "FAIL store-not-parsed"
	}
	if !bytes.Equal(f.NVarStore.Buf(), b) {
		return "FAIL parsed-store-bytes-differ"
	}
	mk := func(name string) func(f uefi.Firmware) bool { pred, _ := cliPred(name); return pred }
	if err := runSeqOn(root, ops, mk); err != nil {
		return "FAIL step-error " + err.Error()
	}
	if err := (&visitors.Assemble{}).Run(root); err != nil { // save
		return "FAIL save-error " + err.Error()
	}
	saved := append([]byte{}, root.Buf()...)
	if len(saved) != len(orig) {
		return "FAIL image-length-changed"
	}
	uefiops.Reset()
	root2, err := uefi.Parse(saved)
	if err != nil {
		return "FAIL saved-image-not-parsed " + err.Error()
	}
	f2, why := storeFile(root2)
	if f2 == nil {
		return why
	}
	if f2.NVarStore == nil {
		return "FAIL saved-store-not-parsed"
	}
	out := append([]byte{}, f2.NVarStore.Buf()...)
	if !compacted {
		if !bytes.Equal(out, b) {
			return "FAIL store-bytes-differ-without-compaction"
		}
		return "ok"
	}
	return checkCompactedBytes(pol, out, len(b), want)
}

// A command line of invalidate/compact/assemble steps on one parsed tree, then
// save.  What the saved bytes must hold: invalidation marks variables, the next
// compaction sweeps them; steps after the last compaction do not reach the bytes.
// what a command line leaves in the saved bytes: the live set at the last compaction
func seqExpect(ops string, cur []liveVar) (saved []liveVar, compacted bool) {
	if ops == "-" || ops == "" {
		return nil, false
	}
	for _, t := range strings.Split(ops, ",") {
		switch {
		case t == "c":
			saved = append([]liveVar{}, cur...)
			compacted = true
		case strings.HasPrefix(t, "i"):
			name := string(UnH(t[1:]))
			var keep []liveVar
			for _, v := range cur {
				if string(v.name) != name {
					keep = append(keep, v)
				}
			}
			cur = keep
		}
	}
	return saved, compacted
}

func pSeq(args []string) string {
	pol, ops, b := UnN(args[0]), args[1], UnH(args[2])
	orig := append([]byte{}, b...)
	saved, compacted := seqExpect(ops, argsLive(args[3:]))
	s, err := parse(pol, b)
	if err != nil {
		return "FAIL parse-error " + err.Error()
	}
	if err := runSeq(s, ops); err != nil {
		return "FAIL step-error " + err.Error()
	}
	if err := (&visitors.Assemble{}).Run(s); err != nil { // save
		return "FAIL save-error " + err.Error()
	}
	if !compacted {
		if !bytes.Equal(s.Buf(), orig) {
			return "FAIL bytes-differ-without-compaction"
		}
		return "ok"
	}
	return checkCompacted(pol, s, len(orig), saved)
}

// ---------- generator ----------

// nearMiss derives a name that is NOT the given one but close to it: a proper prefix or suffix, an
// extension at either end, another letter case, one character replaced by '.'.  Invalidating it must
// leave the variable alone (names are compared as a whole and case matters).
func nearMiss(r *Rng, name []byte) []byte {
	n := append([]byte{}, name...)
	rs := []rune(string(n))
	valid := utf8.Valid(n)
	switch r.Intn(6) {
	case 0: // proper prefix
		if valid && len(rs) > 0 {
			return []byte(string(rs[:len(rs)-1]))
		}
	case 1: // proper suffix
		if valid && len(rs) > 0 {
			return []byte(string(rs[1:]))
		}
	case 2:
		return append(n, 'x')
	case 3:
		return append([]byte{'x'}, n...)
	case 4: // other letter case
		ch := false
		for i, c := range n {
			if c >= 'a' && c <= 'z' {
				n[i] = c - 32
				ch = true
			} else if c >= 'A' && c <= 'Z' {
				n[i] = c + 32
				ch = true
			}
		}
		if ch {
			return n
		}
	case 5:
		if valid && len(rs) > 0 {
			k := r.Intn(len(rs))
			if rs[k] != '.' {
				rs[k] = '.'
				return []byte(string(rs))
			}
		}
	}
	return append(n, 'y')
}

// invName picks the name an invalidate step is given: mostly the name of a live variable, sometimes
// a near miss of one, sometimes a name from the pool.
func invName(r *Rng, live []liveVar, pLive, qLive int) []byte {
	nm := []byte(namePool[r.Intn(len(namePool))])
	if len(live) > 0 && r.Chance(pLive, qLive) {
		nm = live[r.Intn(len(live))].name
		if r.Chance(1, 4) {
			nm = nearMiss(r, nm)
		}
	}
	return nm
}

func genOps(r *Rng, live []liveVar, maxLen int) string {
	n := r.Range(1, maxLen)
	var ts []string
	for i := 0; i < n; i++ {
		switch r.Intn(5) {
		case 0, 1:
			ts = append(ts, "c")
		case 2, 3:
			nm := invName(r, live, 3, 4)
			t := "i"
			if len(nm) > 0 {
				t += H(nm)
			}
			ts = append(ts, t)
		default:
			ts = append(ts, "a")
		}
	}
	return strings.Join(ts, ",")
}

type gEntry struct {
	attrs  byte
	guid   []byte // the variable's GUID (inline or via index)
	gidx   int    // -1 = inline
	raw    []byte // name as stored, with terminator (full entries)
	name   []byte // name as UTF-8 (what fiano reports)
	data   []byte // content, including any extended header
	vr     int    // variable id, -1 = not part of a live chain
	last   bool   // last entry of its chain
	nextTo int    // index (in layout order) of the next chain member, -1 = none
	fixed  []byte // if non-nil: the whole entry verbatim
}

func (e *gEntry) bytes(pol byte, next uint32) []byte {
	if e.fixed != nil {
		return e.fixed
	}
	var body []byte
	if e.attrs&0x08 == 0 {
		if e.attrs&0x04 != 0 {
			body = append(body, e.guid...)
		} else {
			body = append(body, byte(e.gidx))
		}
		body = append(body, e.raw...)
	}
	body = append(body, e.data...)
	sz := 10 + len(body)
	h := []byte{'N', 'V', 'A', 'R', byte(sz), byte(sz >> 8), byte(next), byte(next >> 8), byte(next >> 16), e.attrs}
	return append(h, body...)
}

func (e *gEntry) size() int {
	if e.fixed != nil {
		return len(e.fixed)
	}
	n := 10 + len(e.data)
	if e.attrs&0x08 == 0 {
		if e.attrs&0x04 != 0 {
			n += 16
		} else {
			n++
		}
		n += len(e.raw)
	}
	return n
}

var namePool = []string{"Setup", "Boot0000", "A", "PlatformLang", "db", "Ω", "Łódź", "名前", ""}

func genName(r *Rng, ascii bool) (raw, utf []byte) {
	if ascii {
		var s []byte
		if r.Chance(3, 4) {
			s = []byte(namePool[r.Intn(5)])
		} else {
			n := r.Pick(0, 1, 2, 7, 20)
			for i := 0; i < n; i++ {
				s = append(s, byte(1+r.Intn(255)))
			}
		}
		return append(append([]byte{}, s...), 0), s
	}
	var runes []rune
	if r.Chance(3, 4) {
		runes = []rune(namePool[r.Intn(len(namePool))])
	} else {
		n := r.Pick(0, 1, 2, 5, 12)
		for i := 0; i < n; i++ {
			var c rune
			switch r.Intn(4) {
			case 0:
				c = rune(1 + r.Intn(0x7F))
			case 1:
				c = rune(0x80 + r.Intn(0x780))
			case 2:
				c = rune(0x800 + r.Intn(0xD000))
			default:
				c = rune(0xE000 + r.Intn(0x2000))
			}
			runes = append(runes, c)
		}
	}
	for _, c := range runes {
		raw = append(raw, byte(c), byte(c>>8))
		utf = utf8.AppendRune(utf, c)
	}
	return append(raw, 0, 0), utf
}

func genData(r *Rng, attrs byte) []byte {
	d := r.Bytes(r.Pick(0, 1, 3, 8, 17, 40))
	if r.Chance(1, 40) { // the high byte of Size (and of the link distances behind it) in use
		d = r.Bytes(r.Pick(236, 246, 300, 520))
	}
	if attrs&0x10 != 0 {
		// extended header: attrs [timestamp [hash]] [checksum] size
		xa := byte(r.Pick(0, 1, 1, 0x10, 0x21, 0xCE))
		ext := []byte{xa}
		if attrs&0x40 == 0 {
			ext = append(ext, r.Bytes(8)...)
			if attrs&0x08 != 0 || r.Chance(1, 3) {
				ext = append(ext, r.Bytes(32)...)
			}
		} else if r.Chance(1, 2) {
			ext = append(ext, r.Bytes(r.Intn(12))...)
		}
		if xa&1 != 0 {
			ext = append(ext, byte(r.Intn(256)))
		}
		l := len(ext) + 2
		d = append(d, append(ext, byte(l), byte(l>>8))...)
	}
	if len(d) > 0 && d[0] == 'N' {
		d[0] = 'M' // never the start of a nested store
	}
	return d
}

type gStore struct {
	pol     byte
	entries []*gEntry
	free    int
	table   [][]byte
}

func (s *gStore) offsets() []int {
	offs := make([]int, len(s.entries)+1)
	for i, e := range s.entries {
		offs[i+1] = offs[i] + e.size()
	}
	return offs
}

func (s *gStore) bytes() []byte {
	offs := s.offsets()
	var b []byte
	for i, e := range s.entries {
		next := uint32(0xFFFFFF)
		if s.pol == 0 {
			next = 0
		}
		if e.nextTo >= 0 {
			next = uint32(offs[e.nextTo] - offs[i])
		}
		b = append(b, e.bytes(s.pol, next)...)
	}
	for i := 0; i < s.free; i++ {
		b = append(b, s.pol)
	}
	for i := len(s.table) - 1; i >= 0; i-- {
		b = append(b, s.table[i]...)
	}
	return b
}

func (s *gStore) live() []liveVar {
	var l []liveVar
	for _, e := range s.entries {
		if e.vr >= 0 && e.last {
			l = append(l, liveVar{e.guid, e.name, e.data})
		}
	}
	return l
}

// genStore builds a store that is well formed in the sense of wf_store:
// chains laid out front to back, every table GUID referenced, sizes < 2^16.
func genStore(r *Rng) *gStore { return genStoreD(r, true) }

// dead: also lay out deleted chains (see below)
func genStoreD(r *Rng, dead bool) *gStore {
	s := &gStore{pol: 0xFF}
	if r.Chance(1, 5) {
		s.pol = 0
	}
	nt := r.Pick(0, 0, 1, 2, 3, 5)
	if r.Chance(1, 40) {
		nt = r.Pick(17, 64, 255)
	}
	for i := 0; i < nt; i++ {
		g := r.Bytes(16)
		if r.Chance(1, 6) && i > 0 {
			g = s.table[r.Intn(i)] // duplicate table entries happen
		}
		s.table = append(s.table, g)
	}
	nv := r.Pick(0, 1, 1, 2, 3, 4, 6)
	type chain struct{ es []*gEntry }
	var chains []*chain
	usedIdx := -1
	for v := 0; v < nv; v++ {
		attrs := byte(0x80) | byte(r.Pick(0, 1, 0x20, 0x21, 0x40, 0x41, 0x10, 0x11, 0x50))
		ascii := r.Bool()
		if ascii {
			attrs |= 0x02
		}
		e := &gEntry{attrs: attrs, vr: v, gidx: -1, nextTo: -1}
		if nt > 0 && r.Chance(2, 3) {
			e.gidx = r.Intn(nt)
			if e.gidx > usedIdx {
				usedIdx = e.gidx
			}
			e.guid = s.table[e.gidx]
		} else {
			e.attrs |= 0x04
			e.guid = r.Bytes(16)
		}
		e.raw, e.name = genName(r, ascii)
		e.data = genData(r, e.attrs)
		c := &chain{es: []*gEntry{e}}
		k := r.Pick(0, 0, 1, 1, 2, 3)
		for j := 0; j < k; j++ {
			da := byte(0x88) | (e.attrs & 0x50) | byte(r.Pick(0, 1, 0x20))
			if r.Chance(1, 5) { // name/GUID bits on a data-only entry mean nothing
				da |= byte(r.Pick(0x02, 0x04, 0x06))
			}
			d := &gEntry{attrs: da, vr: v, gidx: -1, guid: e.guid, name: e.name, nextTo: -1}
			d.data = genData(r, da)
			c.es = append(c.es, d)
		}
		c.es[len(c.es)-1].last = true
		chains = append(chains, c)
	}
	// deleted variables whose later versions are still in the store: the head is not a valid entry
	// (valid bit clear / a data-only entry nobody links to / a broken extended header) but keeps its
	// next pointer, and the data-only entries behind it are intact.  None of them is live: a link only
	// counts when it comes from a valid entry.
	nd := r.Pick(0, 0, 0, 1, 1, 2)
	if !dead {
		nd = 0
	}
	for v := 0; v < nd; v++ {
		var h *gEntry
		switch r.Intn(3) {
		case 0: // valid bit clear
			h = &gEntry{attrs: byte(r.Pick(0x04, 0x06, 0x05, 0x14, 0x46)), vr: -1, gidx: -1, nextTo: -1, guid: r.Bytes(16)}
			h.raw, h.name = genName(r, h.attrs&2 != 0)
			h.data = r.Bytes(r.Intn(20))
		case 1: // data-only, nobody links to it
			h = &gEntry{attrs: 0x88 | byte(r.Pick(0, 1, 0x20)), vr: -1, gidx: -1, nextTo: -1}
			h.data = genData(r, h.attrs)
		default: // extended header larger than the body
			h = &gEntry{attrs: 0x96, vr: -1, gidx: -1, nextTo: -1, guid: r.Bytes(16)}
			h.raw, h.name = genName(r, true)
			h.data = []byte{1, 0xFF, 0x7F}
		}
		c := &chain{es: []*gEntry{h}}
		k := r.Pick(1, 1, 2)
		for j := 0; j < k; j++ {
			da := byte(0x88) | byte(r.Pick(0, 0, 1, 0x20, 0x10, 0x50))
			d := &gEntry{attrs: da, vr: -1, gidx: -1, nextTo: -1}
			d.data = genData(r, da)
			c.es = append(c.es, d)
		}
		chains = append(chains, c)
	}
	// the table must be discovered completely: the highest index is referenced
	if nt > 0 && usedIdx < nt-1 {
		if nv > 0 && usedIdx >= 0 {
			s.table = s.table[:usedIdx+1]
		} else {
			s.table = nil
			for _, c := range chains {
				if c.es[0].gidx >= 0 {
					c.es[0].gidx = -1
					c.es[0].attrs |= 0x04
				}
			}
		}
	}
	// interleave the chains, sprinkle entries that are not live
	pos := make([]int, len(chains))
	remaining := 0
	for _, c := range chains {
		remaining += len(c.es)
	}
	prev := make([]int, len(chains))
	for i := range prev {
		prev[i] = -1
	}
	junk := func() {
		switch r.Intn(4) {
		case 0: // valid bit clear
			e := &gEntry{attrs: byte(r.Intn(128)), vr: -1, gidx: -1, nextTo: -1, guid: r.Bytes(16)}
			e.attrs |= 0x04
			e.raw, e.name = genName(r, e.attrs&2 != 0)
			e.data = r.Bytes(r.Intn(20))
			s.entries = append(s.entries, e)
		case 1: // data-only nobody links to
			e := &gEntry{attrs: 0x88, vr: -1, gidx: -1, nextTo: -1}
			e.data = genData(r, e.attrs)
			s.entries = append(s.entries, e)
		case 2: // extended header larger than the body
			e := &gEntry{attrs: 0x96, vr: -1, gidx: -1, nextTo: -1, guid: r.Bytes(16)}
			if r.Chance(1, 2) {
				// ... with a GUID index: the entry is not valid, so the index counts for nothing
				// (it may lie beyond the table) and must not make the parser look for more GUIDs
				e.attrs = 0x92
				e.gidx = r.Pick(0, len(s.table), len(s.table)+1, len(s.table)+3, 200, 254, 255)
			}
			e.raw, e.name = genName(r, true)
			e.data = []byte{1, 0xFF, 0x7F}
			s.entries = append(s.entries, e)
		case 3: // a header and nothing else, valid bit clear
			e := &gEntry{attrs: 0x08, vr: -1, gidx: -1, nextTo: -1}
			s.entries = append(s.entries, e)
		}
	}
	for remaining > 0 {
		if r.Chance(1, 5) {
			junk()
		}
		ci := r.Intn(len(chains))
		for pos[ci] >= len(chains[ci].es) {
			ci = (ci + 1) % len(chains)
		}
		e := chains[ci].es[pos[ci]]
		idx := len(s.entries)
		s.entries = append(s.entries, e)
		if prev[ci] >= 0 {
			s.entries[prev[ci]].nextTo = idx
		}
		prev[ci] = idx
		pos[ci]++
		remaining--
	}
	if r.Chance(1, 4) {
		junk()
	}
	s.free = r.Pick(0, 0, 1, 9, 10, 33, 200)
	return s
}

func hexOrEmpty(b []byte) string {
	if len(b) == 0 {
		return ""
	}
	return H(b)
}

func le16(v int) []byte { return []byte{byte(v), byte(v >> 8)} }

// hostile variants of a store image
func mutate(r *Rng, s *gStore) (byte, []byte) {
	b := s.bytes()
	offs := s.offsets()
	pol := s.pol
	pick := func() int { // offset of some entry
		if len(s.entries) == 0 {
			return 0
		}
		return offs[r.Intn(len(s.entries))]
	}
	need := func(n int) bool { return len(b) >= n }
	switch r.Intn(18) {
	case 16, 17: // GUID index just beyond the table and little or no free space: the table
		// the parser discovers "grows" over the entries, Assemble must refuse ("store too small")
		s2 := *s
		s2.free = r.Pick(0, 0, 1, 15, 16, 17, 31, 32)
		b = s2.bytes()
		done := false
		for i := len(s.entries) - 1; i >= 0 && !done; i-- {
			e := s.entries[i]
			if e.fixed == nil && e.attrs&0x8C == 0x80 && len(b) >= offs[i]+11 && (r.Bool() || i == 0) {
				b[offs[i]+10] = byte(len(s.table) + r.Intn(3))
				done = true
			}
		}
		if !done && len(s.entries) > 0 { // no indexed entry: turn the first full one into an indexed one
			for i, e := range s.entries {
				if e.fixed == nil && e.attrs&0x8C == 0x84 && len(b) >= offs[i]+11 {
					b[offs[i]+9] &^= 0x04
					b[offs[i]+10] = byte(len(s.table) + r.Intn(2))
					break
				}
			}
		}
	case 0: // Size below the header size (1..9); 0 is emitted separately
		o := pick()
		if need(o + 10) {
			copy(b[o+4:], le16(r.Range(1, 9)))
		}
	case 1: // Size at the boundaries of the remaining space
		o := pick()
		if need(o + 10) {
			rem := len(b) - o
			copy(b[o+4:], le16(r.Pick(rem, rem+1, rem-1, rem-16*len(s.table), rem-16*len(s.table)+1, 0xFFFF, 10, 11)))
		}
	case 2: // attribute bits
		o := pick()
		if need(o + 10) {
			b[o+9] ^= byte(1 << uint(r.Intn(8)))
		}
	case 3: // next field: self, zero, erased, somewhere
		o := pick()
		if need(o + 10) {
			v := r.Pick(0, 0xFFFFFF, 1, 10, len(b), 0xFFFFFE)
			if len(s.entries) > 0 && r.Bool() {
				v = offs[r.Intn(len(s.entries))] - o // may be negative: wraps to 24 bits
			}
			b[o+6], b[o+7], b[o+8] = byte(v), byte(v>>8), byte(v>>16)
		}
	case 4: // truncate
		if len(b) > 0 {
			b = b[:r.Intn(len(b))]
		}
	case 5: // GUID index beyond the table
		for i, e := range s.entries {
			if e.fixed == nil && e.attrs&0x0C == 0 && need(offs[i]+11) {
				b[offs[i]+10] = byte(r.Pick(len(s.table), 254, 255, 200, len(s.table)+1))
				break
			}
		}
	case 6: // wrong polarity for this image
		pol = byte(r.Pick(0, 0xFF, 0xF0, 0x55))
	case 7: // name terminator removed (all zero bytes after the header of one entry set to 1)
		o := pick()
		for i := o + 10; i < len(b); i++ {
			if b[i] == 0 {
				b[i] = 1
			}
		}
	case 8: // garbage
		b = r.Bytes(r.Intn(80))
		if r.Bool() && len(b) >= 4 {
			copy(b, "NVAR")
		}
	case 9: // extended header size field
		for i, e := range s.entries {
			if e.fixed == nil && e.attrs&0x10 != 0 && r.Bool() {
				end := offs[i+1]
				copy(b[end-2:], le16(r.Pick(0, 1, 2, 3, 9, 10, 11, 41, 42, 43, e.size()-10, e.size()-9, 0xFFFF)))
				break
			}
		}
	case 10: // no free space and an entry running into the GUID table
		if len(s.table) > 0 && len(s.entries) > 0 {
			cut := r.Range(1, 16*len(s.table))
			fs := offs[len(s.entries)]
			if fs+s.free+cut <= len(b) {
				b = append(b[:fs:fs], b[fs+s.free+cut:]...)
			}
		}
	case 11: // surrogates / odd bytes in a UCS-2 name
		for i, e := range s.entries {
			if e.fixed == nil && e.attrs&0x0A == 0 && len(e.raw) >= 4 {
				p := offs[i] + 10 + 1
				if e.attrs&4 != 0 {
					p += 15
				}
				v := r.Pick(0xD800, 0xDC00, 0xDBFF, 0xDFFF, 0xFFFE, 0x0100)
				b[p], b[p+1] = byte(v), byte(v>>8)
				break
			}
		}
	case 12: // data starting with the NVAR signature but not a store
		for i, e := range s.entries {
			if e.fixed == nil && len(e.data) >= 4 {
				p := offs[i+1] - len(e.data)
				copy(b[p:], "NVAR")
				break
			}
		}
	case 13: // a second entry linking to the same target / a link to a full entry
		if len(s.entries) >= 2 {
			i := r.Intn(len(s.entries) - 1)
			j := i + 1 + r.Intn(len(s.entries)-i-1)
			v := offs[j] - offs[i]
			if need(offs[i] + 10) {
				b[offs[i]+6], b[offs[i]+7], b[offs[i]+8] = byte(v), byte(v>>8), byte(v>>16)
			}
		}
	case 14: // free space not erased
		fs := offs[len(s.entries)]
		if s.free > 0 {
			b[fs+r.Intn(s.free)] ^= byte(1 + r.Intn(255))
		}
	case 15: // table larger than what is referenced
		b = append(b, r.Bytes(16)...)
	}
	return pol, b
}

// a store whose variable contents are themselves stores
// a store with a variable that was updated through a link chain and whose old
// and/or new value is itself a store. combo: 0 = both, same length; 1 = both,
// different lengths; 2 = only the old value; 3 = only the new value
func genChainNested(r *Rng, combo int) *gStore {
	s := genStoreD(r, true)
	inner := func() *gStore {
		for {
			var in *gStore
			if r.Chance(1, 4) {
				in = genNested(r, 1, false, int(s.pol))
			} else {
				in = genStoreD(r, false)
				in.pol = s.pol
			}
			if len(in.entries) > 0 && in.entries[0].fixed == nil && len(in.bytes()) < 12000 {
				return in
			}
		}
	}
	plain := func() []byte {
		d := r.Bytes(r.Pick(0, 1, 7, 30))
		if len(d) > 0 && d[0] == 'N' {
			d[0] = 'M'
		}
		return d
	}
	var oldV, newV []byte
	switch combo {
	case 0, 1:
		a, b := inner(), inner()
		la, lb := len(a.bytes()), len(b.bytes())
		if combo == 0 {
			if la < lb {
				a.free += lb - la
			} else {
				b.free += la - lb
			}
		} else if la == lb {
			b.free += r.Range(1, 9)
		}
		oldV, newV = a.bytes(), b.bytes()
	case 2:
		oldV, newV = inner().bytes(), plain()
	default:
		oldV, newV = plain(), inner().bytes()
	}
	vr := 0
	for _, e := range s.entries {
		if e.vr >= vr {
			vr = e.vr + 1
		}
	}
	ascii := r.Bool()
	attrs := byte(0x84) | byte(r.Pick(0, 1, 0x20, 0x40))
	if ascii {
		attrs |= 0x02
	}
	head := &gEntry{attrs: attrs, vr: vr, gidx: -1, nextTo: -1, guid: r.Bytes(16), data: oldV}
	head.raw, head.name = genName(r, ascii)
	chain := []*gEntry{head}
	if r.Chance(1, 3) { // a version in between
		mid := &gEntry{attrs: 0x88 | (attrs & 0x40), vr: vr, gidx: -1, nextTo: -1, guid: head.guid, name: head.name}
		if r.Bool() {
			mid.data = plain()
		} else {
			mid.data = inner().bytes()
		}
		chain = append(chain, mid)
	}
	tail := &gEntry{attrs: 0x88 | (attrs & 0x40), vr: vr, gidx: -1, nextTo: -1, guid: head.guid, name: head.name, data: newV, last: true}
	chain = append(chain, tail)
	// the chain goes behind the other entries, sometimes with an unrelated entry in between
	for i, e := range chain {
		if i > 0 && r.Chance(1, 3) {
			s.entries = append(s.entries, &gEntry{attrs: 0x08, vr: -1, gidx: -1, nextTo: -1})
		}
		s.entries = append(s.entries, e)
		if i > 0 {
			prev := chain[i-1]
			for j, x := range s.entries {
				if x == prev {
					s.entries[j].nextTo = len(s.entries) - 1
				}
			}
		}
	}
	return s
}

func genNested(r *Rng, depth int, hostile bool, pol int) *gStore {
	s := genStoreD(r, depth == 2) // inner stores without deleted chains: keeps the nesting small
	if pol >= 0 {
		s.pol = byte(pol)
	}
	for _, e := range s.entries {
		if e.fixed == nil && e.attrs&0x10 == 0 && depth > 0 && r.Chance(1, 2) {
			in := genNested(r, depth-1, hostile, int(s.pol))
			ib := in.bytes()
			if hostile && r.Chance(1, 3) {
				_, ib = mutate(r, in)
			}
			if len(ib) < 60000 {
				e.data = ib
			}
		}
	}
	return s
}

func gen(r *Rng, tier string, emit Emit) {
	n := 260
	if tier == "thorough" {
		n = 8000
	}
	asis := os.Getenv("VERIF_C10_ASIS") != ""
	// the UTF-16 wrappers on their own
	for it := 0; it < n/2; it++ {
		rr := r.Fork(uint64(it) + 1000000)
		_, utf := genName(rr, false)
		raw, _ := genName(rr, false)
		raw = raw[:len(raw)-2]
		if rr.Chance(1, 3) {
			raw = rr.Bytes(rr.Intn(12))
		}
		if rr.Chance(1, 10) {
			raw = nil
		}
		emit("C", "ucs2utf8", H(raw))
		if rr.Chance(1, 4) {
			utf = rr.Bytes(rr.Intn(10))
		}
		emit("C", "utf8ucs2", H(utf))
	}
	zeroSize := 0
	for it := 0; it < n; it++ {
		rr := r.Fork(uint64(it))
		s := genStore(rr)
		b := s.bytes()
		pol := N(uint64(s.pol))
		live := s.live()
		emit("P", "p_roundtrip", pol, H(b))
		emit("P", "p_compact", append([]string{pol, H(b)}, liveArgs(live)...)...)
		nm := invName(rr, live, 2, 3)
		emit("P", "p_invcompact", append([]string{pol, H(nm), H(b)}, liveArgs(live)...)...)
		emit("P", "p_invcli", append([]string{pol, H(nm), H(b)}, liveArgs(live)...)...)
		// the same store inside a raw file with the NVAR GUID in a firmware volume, worked on through
		// the image root as the command line does: compact, and invalidate + compact
		// (erase polarity 0xFF only: the volume parser recognises free space by 0xFF bytes)
		if lay := N(uint64(rr.Intn(16))); s.pol == 0xFF {
			for _, ops := range []string{"c", "i" + hexOrEmpty(nm) + ",c", genOps(rr, live, 4)} {
				emit("P", "p_file", append([]string{pol, lay, ops, H(b)}, liveArgs(live)...)...)
			}
		}
		emit("C", "parse", pol, H(b))
		emit("C", "assemble", pol, H(b))
		emit("C", "compact", pol, H(b))
		emit("C", "invcompact", pol, H(nm), H(b))
		if asis {
			emit("C", "parse0", pol, H(b))
		}
		// command lines on one tree: compact twice, compact / invalidate / compact, random ones
		seqs := []string{"c,c", "c,i" + hexOrEmpty(nm) + ",c", genOps(rr, live, 4), genOps(rr, live, 4)}
		for _, ops := range seqs {
			emit("P", "p_seq", append([]string{pol, ops, H(b)}, liveArgs(live)...)...)
			emit("C", "seq", pol, ops, H(b))
		}
		// hostile variants
		for k := 0; k < 3; k++ {
			mp, mb := mutate(rr, s)
			if rr.Chance(1, 6) { // a second mutation on top
				_, mb = mutate(rr, &gStore{pol: s.pol, entries: []*gEntry{{fixed: mb, vr: -1, nextTo: -1}}})
			}
			mpol := N(uint64(mp))
			emit("C", "parse", mpol, H(mb))
			emit("C", "assemble", mpol, H(mb))
			emit("C", "compact", mpol, H(mb))
			emit("C", "invcompact", mpol, H(nm), H(mb))
			emit("C", "seq", mpol, genOps(rr, live, 4), H(mb))
			if asis {
				emit("C", "parse0", mpol, H(mb))
			}
		}
		// Size = 0 makes the unrepaired parser spin: only a few of those, parse only
		if zeroSize < 3 && len(s.entries) > 0 && rr.Chance(1, 20) {
			zeroSize++
			zb := append([]byte{}, b...)
			o := s.offsets()[rr.Intn(len(s.entries))]
			zb[o+4], zb[o+5] = 0, 0
			if zeroSize == 2 {
				zb[o+9] &= 0x7F
			}
			emit("C", "parse", pol, H(zb))
		}
		// nested stores
		if it%4 == 0 {
			hostile := it%8 == 0
			ns := genNested(rr, 2, hostile, -1)
			nb := ns.bytes()
			npol := N(uint64(ns.pol))
			emit("C", "parse", npol, H(nb))
			emit("C", "assemble", npol, H(nb))
			emit("C", "compact", npol, H(nb))
			emit("C", "invcompact", npol, H(nm), H(nb))
			emit("C", "seq", npol, genOps(rr, ns.live(), 4), H(nb))
			if !hostile {
				emit("P", "p_roundtrip", npol, H(nb))
				emit("P", "p_compact", append([]string{npol, H(nb)}, liveArgs(ns.live())...)...)
			}
		}
		// a variable updated through a link chain whose old and/or new value is a nested store
		if it%2 == 1 {
			rc := rr.Fork(7711)
			cs := genChainNested(rc, (it/2)%4)
			cb := cs.bytes()
			cpol := N(uint64(cs.pol))
			clive := cs.live()
			emit("P", "p_roundtrip", cpol, H(cb))
			emit("P", "p_compact", append([]string{cpol, H(cb)}, liveArgs(clive)...)...)
			cn := invName(rc, clive, 1, 2)
			emit("P", "p_invcompact", append([]string{cpol, H(cn), H(cb)}, liveArgs(clive)...)...)
			for _, ops := range []string{"c,c", genOps(rc, clive, 3)} {
				emit("P", "p_seq", append([]string{cpol, ops, H(cb)}, liveArgs(clive)...)...)
				emit("C", "seq", cpol, ops, H(cb))
			}
			emit("C", "parse", cpol, H(cb))
			emit("C", "compact", cpol, H(cb))
		}
	}
}

var _ = binary.LittleEndian

func main() {
	CaseTimeout = 3 * time.Second
	Register("parse", opParse)
	Register("parse0", opParse)
	Register("assemble", opAssemble)
	Register("compact", opCompact)
	Register("invcompact", opInvCompact)
	Register("seq", opSeq)
	Register("p_seq", pSeq)
	Register("ucs2utf8", opUcs2Utf8)
	Register("utf8ucs2", opUtf8Ucs2)
	Register("p_roundtrip", pRoundTrip)
	Register("p_compact", pCompact)
	Register("p_invcompact", pInvCompact)
	Register("p_invcli", pInvCli)
	Register("p_file", pFile)
	Main(gen)
}
