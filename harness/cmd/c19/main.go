// c19: executor and generator for property C19 (pkg/cbfs).
package main

import (
	"bytes"
	"context"
	"encoding/binary"
	"encoding/json"
	"fmt"
	"os"
	"os/exec"
	"path/filepath"
	"strconv"
	"strings"
	"time"
	"unicode/utf8"

	"github.com/linuxboot/fiano/pkg/cbfs"
	"github.com/linuxboot/fiano/pkg/compression"
	"github.com/linuxboot/fiano/pkg/fmap"
	. "verifharness/common"
)

var errTable = [][2]string{
	{"unexpected EOF while parsing fmap", "1"},
	{"cannot find FMAP signature", "2"},
	{"found multiple fmap", "3"},
	{"no CBFS in fmap", "a"},
	{"subheader", "e"},
	{"ReadName", "c"},
	{"ReadAttributes", "d"},
	{"ReadData", "f"},
	{"unexpected EOF", "b"},
	{"EOF", "1"},
}

// ---------- abstract archive (mirror of coq/Model/Cbfs.v arec) ----------

type attr struct {
	tag     uint32
	payload []byte
}

type arec struct {
	gap   []byte // multiple of 16
	name  []byte
	npad  int
	typ   uint32
	attrs []attr
	data  []byte
	pad   []byte
}

func be32(v uint32) []byte { b := make([]byte, 4); binary.BigEndian.PutUint32(b, v); return b }

func encAttrs(as []attr) []byte {
	var b []byte
	for _, a := range as {
		b = append(b, be32(a.tag)...)
		b = append(b, be32(uint32(8+len(a.payload)))...)
		b = append(b, a.payload...)
	}
	return b
}

func (r *arec) nameField() []byte { return append(append([]byte{}, r.name...), make([]byte, r.npad)...) }
func (r *arec) so() uint32        { return uint32(24 + len(r.name) + r.npad + len(encAttrs(r.attrs))) }
func (r *arec) ao() uint32 {
	if len(r.attrs) == 0 {
		return 0
	}
	return uint32(24 + len(r.name) + r.npad)
}

func (r *arec) encRec() []byte {
	b := []byte(cbfs.FileMagic)
	b = append(b, be32(uint32(len(r.data)))...)
	b = append(b, be32(r.typ)...)
	b = append(b, be32(r.ao())...)
	b = append(b, be32(r.so())...)
	b = append(b, r.nameField()...)
	b = append(b, encAttrs(r.attrs)...)
	b = append(b, r.data...)
	b = append(b, r.pad...)
	return b
}

func embed(a []arec) []byte {
	var b []byte
	for i := range a {
		b = append(b, a[i].gap...)
		b = append(b, a[i].encRec()...)
	}
	return b
}

func isEmptyType(t uint32) bool { return t == uint32(cbfs.TypeDeleted) || t == uint32(cbfs.TypeDeleted2) }

func specComp(r *arec) uint32 {
	if isEmptyType(r.typ) {
		return 0
	}
	for _, a := range r.attrs {
		if a.tag == uint32(cbfs.Compressed) {
			if len(a.payload) < 8 {
				return 0
			}
			return binary.BigEndian.Uint32(a.payload)
		}
	}
	return 0
}

type entry struct {
	name             []byte
	typ, off, sz, cp uint32
}

func records(a []arec) []entry {
	var es []entry
	off := 0
	for i := range a {
		r := &a[i]
		o := off + len(r.gap)
		t := r.typ
		if isEmptyType(t) {
			t = uint32(cbfs.TypeDeleted2)
		}
		es = append(es, entry{r.name, t, uint32(o), uint32(len(r.data)), specComp(r)})
		off = o + len(r.encRec())
	}
	return es
}

func showEntries(es []entry) string {
	parts := []string{N(uint64(len(es)))}
	for _, e := range es {
		parts = append(parts, H(e.name)+","+N(uint64(e.typ))+","+N(uint64(e.off))+","+N(uint64(e.sz))+","+N(uint64(e.cp)))
	}
	return strings.Join(parts, " ")
}

// archive <-> args: count {gap name npad type nattrs {tag payload} data pad}
func archArgs(a []arec) []string {
	s := []string{N(uint64(len(a)))}
	for i := range a {
		r := &a[i]
		s = append(s, H(r.gap), H(r.name), N(uint64(r.npad)), N(uint64(r.typ)), N(uint64(len(r.attrs))))
		for _, at := range r.attrs {
			s = append(s, N(uint64(at.tag)), H(at.payload))
		}
		s = append(s, H(r.data), H(r.pad))
	}
	return s
}

func argsArch(s []string) ([]arec, []string) {
	n := int(UnN(s[0]))
	s = s[1:]
	var a []arec
	for i := 0; i < n; i++ {
		var r arec
		r.gap, r.name, r.npad, r.typ = UnH(s[0]), UnH(s[1]), int(UnN(s[2])), uint32(UnN(s[3]))
		na := int(UnN(s[4]))
		s = s[5:]
		for k := 0; k < na; k++ {
			r.attrs = append(r.attrs, attr{uint32(UnN(s[0])), UnH(s[1])})
			s = s[2:]
		}
		r.data, r.pad = UnH(s[0]), UnH(s[1])
		s = s[2:]
		a = append(a, r)
	}
	return a, s
}

// ---------- C operations ----------

func segEntries(i *cbfs.Image) []entry {
	var es []entry
	for _, s := range i.Segs {
		f := s.GetFile()
		es = append(es, entry{[]byte(f.Name), uint32(f.Type), f.RecordStart, f.Size, uint32(f.Compression())})
	}
	return es
}

func opNewImage(args []string) string {
	i, err := cbfs.NewImage(bytes.NewReader(UnH(args[0])))
	if err != nil {
		return ErrClass(err, errTable)
	}
	return "ok " + showEntries(segEntries(i))
}

func opFileData(args []string) string {
	i, err := cbfs.NewImage(bytes.NewReader(UnH(args[0])))
	if err != nil {
		return ErrClass(err, errTable)
	}
	k := int(UnI(args[1]))
	if k < 0 || k >= len(i.Segs) {
		return "none"
	}
	f := i.Segs[k].GetFile()
	return "ok " + H(f.Attr) + " " + H(f.FData)
}

// writeBack calls Image.WriteFile on a path in a fresh directory under the worker's
// TMPDIR (removed before returning) and returns what the file on disk holds
// afterwards.  old == nil: the path does not exist before the call; otherwise it is
// an existing file with exactly that content (possibly empty).
func writeBack(i *cbfs.Image, old []byte) ([]byte, error) {
	dir, err := os.MkdirTemp("", "verif-c19-")
	if err != nil {
		return nil, err
	}
	defer os.RemoveAll(dir)
	p := filepath.Join(dir, "out.rom")
	if old != nil {
		if err := os.WriteFile(p, old, 0o644); err != nil {
			return nil, err
		}
	}
	if err := i.WriteFile(p, 0666); err != nil {
		return nil, fmt.Errorf("WriteFile: %w", err)
	}
	return os.ReadFile(p)
}

// the five situations of the destination path, by name; content derived from the image
var destKinds = []string{"fresh", "empty", "same-size", "larger", "shorter"}

func destContent(kind string, img []byte, r *Rng) []byte {
	other := func(n int) []byte {
		b := make([]byte, n)
		for k := range b {
			b[k] = byte(0xA5 ^ k)
			if k < len(img) {
				b[k] = ^img[k] // differs from the image at every position
			}
		}
		return b
	}
	switch kind {
	case "fresh":
		return nil
	case "empty":
		return []byte{}
	case "same-size":
		return other(len(img))
	case "larger":
		return other(len(img) + 1 + r.Pick(0, 1, 15, 4096, len(img)))
	case "shorter":
		if len(img) < 2 {
			return []byte{}
		}
		return other(1 + r.Intn(len(img)-1))
	}
	panic("bad destination kind")
}

func oldArg(old []byte) string {
	if old == nil {
		return "none"
	}
	return H(old)
}

// writeback <img> <old>: old = "none" (fresh path) or the previous content of the file
func opWriteBack(args []string) string {
	i, err := cbfs.NewImage(bytes.NewReader(UnH(args[0])))
	if err != nil {
		return ErrClass(err, errTable)
	}
	var old []byte
	if args[1] != "none" {
		old = UnH(args[1])
	}
	b, err := writeBack(i, old)
	if err != nil {
		return "harness-error " + err.Error()
	}
	return "ok " + H(b)
}

// the generator's own serialiser and expected listing, compared with the model's
// embed / records / wf_archive (ties the oracle inputs to the theorem hypotheses)
func opSpec(args []string) string {
	a, _ := argsArch(args)
	return "ok wf " + H(embed(a)) + " " + showEntries(records(a))
}

// ---------- P oracles ----------

// img, area offset, archive (well formed by construction; the model re-checks wf in "spec")
func pArchive(args []string) string {
	img := UnH(args[0])
	aoff := int(UnN(args[1]))
	a, _ := argsArch(args[2:])
	area := embed(a)
	want := records(a)
	i, err := cbfs.NewImage(bytes.NewReader(img))
	if err != nil {
		for k := range a {
			if a[k].typ == uint32(cbfs.TypeLegacyStage) && len(a[k].data) == 28 && strings.Contains(err.Error(), "subheader") {
				return "FAIL legacy-stage-header-only newimage-error " + err.Error()
			}
		}
		return "FAIL newimage-error " + err.Error()
	}
	got := segEntries(i)
	if len(got) != len(want) {
		if len(got) == len(want)-1 && len(a[len(a)-1].data) == 0 {
			return fmt.Sprintf("FAIL zero-size-last-record-dropped got %d want %d", len(got), len(want))
		}
		return fmt.Sprintf("FAIL listing-count got %d want %d", len(got), len(want))
	}
	prevEnd := uint64(0)
	for k := range want {
		g, w := got[k], want[k]
		tag := fmt.Sprintf("rec %d type %#x", k, a[k].typ)
		if !bytes.Equal(g.name, w.name) {
			return "FAIL listing-name " + tag
		}
		if g.typ != w.typ {
			return "FAIL listing-type " + tag
		}
		if g.off != w.off {
			return "FAIL listing-offset " + tag
		}
		if g.sz != w.sz {
			return "FAIL listing-size " + tag
		}
		if g.cp != w.cp {
			if _, reg := cbfs.SegReaders[cbfs.FileType(a[k].typ)]; !reg {
				return "FAIL unknown-type-compression " + tag
			}
			return "FAIL listing-compression " + tag
		}
		f := i.Segs[k].GetFile()
		// inside the area, after the previous record
		end := uint64(f.RecordStart) + uint64(f.SubHeaderOffset) + uint64(f.Size)
		if uint64(f.RecordStart) < prevEnd {
			return "FAIL overlap " + tag
		}
		if end > uint64(i.Area.Size) || end > uint64(len(area)) {
			return "FAIL outside-area " + tag
		}
		prevEnd = end
		// data = stored bytes at the data offset (empty-space records hold no data)
		if isEmptyType(a[k].typ) {
			continue
		}
		stored := img[aoff+int(f.RecordStart)+int(f.SubHeaderOffset) : aoff+int(end)]
		if !bytes.Equal(stored, a[k].data) {
			return "FAIL harness-stored-mismatch " + tag
		}
		if p, ok := i.Segs[k].(*cbfs.PayloadRecord); ok {
			var tb bytes.Buffer
			_ = binary.Write(&tb, binary.BigEndian, p.Segs)
			if tb.Len() < len(stored) {
				if !bytes.Equal(append(tb.Bytes(), f.FData...), stored) {
					return "FAIL payload-data " + tag
				}
			} else if !bytes.Equal(tb.Bytes(), stored) || !bytes.Equal(f.FData, stored) {
				return "FAIL payload-table " + tag
			}
			continue
		}
		if !bytes.Equal(f.FData, stored) {
			if _, reg := cbfs.SegReaders[cbfs.FileType(a[k].typ)]; !reg {
				return "FAIL unknown-type-data " + tag
			}
			return "FAIL data " + tag
		}
		if specComp(&a[k]) == 0 {
			d, err := f.Decompress()
			if err != nil || !bytes.Equal(d, stored) {
				return "FAIL decompress-none " + tag
			}
		}
	}
	// unmodified image is written back byte-identical, whatever the destination held
	wr := NewRng(uint64(len(img))*2654435761 + uint64(aoff))
	for _, kind := range destKinds {
		b, err := writeBack(i, destContent(kind, img, wr))
		if err != nil {
			return "FAIL writeback-error dest=" + kind + " " + err.Error()
		}
		if len(b) != len(img) {
			return fmt.Sprintf("FAIL writeback-length dest=%s disk=%d image=%d", kind, len(b), len(img))
		}
		if !bytes.Equal(b, img) {
			return "FAIL writeback-differs dest=" + kind
		}
	}
	return "ok"
}

// img, index, original: the record at index holds enc(original) with the matching attribute
func pDecompress(args []string) string {
	img := UnH(args[0])
	k := int(UnN(args[1]))
	orig := UnH(args[2])
	i, err := cbfs.NewImage(bytes.NewReader(img))
	if err != nil {
		return "FAIL newimage-error " + err.Error()
	}
	if k >= len(i.Segs) {
		return "FAIL listing-count"
	}
	f := i.Segs[k].GetFile()
	d, err := f.Decompress()
	if err != nil {
		if _, reg := cbfs.SegReaders[f.Type]; !reg {
			return "FAIL unknown-type-decompress-error " + err.Error()
		}
		return "FAIL decompress-error " + err.Error()
	}
	if !bytes.Equal(d, orig) {
		if _, reg := cbfs.SegReaders[f.Type]; !reg {
			return "FAIL unknown-type-decompress-differs"
		}
		return "FAIL decompress-differs"
	}
	return "ok"
}

// ---------- the listing as text and as JSON, cbfs.Open, the cbfs command ----------
//
// Image.String, Image.MarshalJSON, cbfs.Open and cmds/cbfs run(list|json|extract) are
// the entry points the property names besides Segs.  They are not modelled; the
// oracles below compare what they print / write with the archive the image was
// serialised from.

// independent table of the names the listing prints for the types (the reference for
// "type as stored" in the text and JSON forms); other values print as %#x
var typeNames = map[uint32]string{
	0x1: "BootBlock", 0x2: "cbfs header", 0x10: "LegacyStage", 0x11: "Stage", 0x20: "SELF",
	0x21: "FIT", 0x30: "OptionRom", 0x40: "BootSplash", 0x50: "Raw", 0x51: "VSA", 0x52: "MBI",
	0x53: "MicroCode", 0x60: "FSP", 0x61: "MRC", 0x62: "MMA", 0x63: "EFI", 0x70: "Struct",
	0xaa: "CMOS", 0xab: "SPD", 0xac: "MRCCache", 0x1aa: "CMOSLayout",
}

func typeName(t uint32) string {
	if isEmptyType(t) {
		return "Deleted2"
	}
	if n, ok := typeNames[t]; ok {
		return n
	}
	return fmt.Sprintf("%#x", t)
}

func compName(c uint32) string {
	switch c {
	case 0:
		return "none"
	case 1:
		return "lzma"
	case 2:
		return "lz4"
	}
	return "unknown"
}

// findings of /repo HEAD that have their own tag (known_findings.txt); every other
// failure of the same case is reported in preference to them
func knownTag(f string) bool {
	return strings.HasPrefix(f, "FAIL legacy-stage-listing-size") || strings.HasPrefix(f, "FAIL listing-text-compression-fixed-none")
}

func firstFail(fails []string) string {
	for _, f := range fails {
		if !knownTag(f) {
			return f
		}
	}
	if len(fails) > 0 {
		return fails[0]
	}
	return "ok"
}

func num(tok string) (uint64, bool) {
	v, err := strconv.ParseUint(tok, 0, 64)
	return v, err == nil
}

// checkText: after the two heading lines the text has one line per record, in archive
// order, each once: name, record offset, type, size, compression (numbers in any base
// strconv understands, columns separated by white space); a SELF record may be
// followed by its " Seg #n" lines.  Empty-space records may print "(empty)" for the name.
func checkText(text string, a []arec, want []entry) []string {
	lines := strings.Split(text, "\n")
	if len(lines) >= 2 && strings.HasPrefix(lines[0], "FMAP REGIO") {
		lines = lines[1:]
	}
	if len(lines) >= 1 {
		if f := strings.Fields(lines[0]); len(f) > 0 && f[0] == "Name" {
			lines = lines[1:]
		}
	}
	var fails []string
	pos := 0
	next := func(afterSELF bool) (string, bool) {
		for pos < len(lines) {
			l := lines[pos]
			if strings.TrimSpace(l) == "" || (afterSELF && strings.HasPrefix(l, " Seg #")) {
				pos++
				continue
			}
			pos++
			return l, true
		}
		return "", false
	}
	for k := range want {
		w := want[k]
		tag := fmt.Sprintf("rec %d type %#x", k, a[k].typ)
		line, ok := next(k > 0 && a[k-1].typ == uint32(cbfs.TypeSELF))
		if !ok {
			fails = append(fails, fmt.Sprintf("FAIL listing-text-count lines for %d records, want %d", k, len(want)))
			return fails
		}
		names := []string{string(w.name)}
		if isEmptyType(a[k].typ) {
			names = append(names, "(empty)")
		}
		tt := strings.Fields(typeName(a[k].typ))
		why := "name"
		for _, nm := range names {
			if !strings.HasPrefix(line, nm) {
				continue
			}
			rest := strings.Fields(line[len(nm):])
			if len(rest) != 3+len(tt) {
				continue
			}
			why = ""
			if v, ok := num(rest[0]); !ok || v != uint64(w.off) {
				why = "offset"
			} else if strings.Join(rest[1:1+len(tt)], " ") != strings.Join(tt, " ") {
				why = "type"
			} else if v, ok := num(rest[1+len(tt)]); !ok || v != uint64(w.sz) {
				why = "size"
				d := a[k].data
				if a[k].typ == uint32(cbfs.TypeLegacyStage) && len(d) >= 28 && ok && v == uint64(binary.LittleEndian.Uint32(d[20:])) {
					why = "legacy-size"
				}
			} else if rest[2+len(tt)] != compName(w.cp) {
				why = "compression"
				if (a[k].typ == uint32(cbfs.TypeMaster) || a[k].typ == uint32(cbfs.TypeSELF)) && rest[2+len(tt)] == "none" {
					why = "fixed-none"
				}
			}
			break
		}
		switch why {
		case "":
		case "legacy-size":
			// the line of a legacy stage shows the Size field of the stage header inside the data
			fails = append(fails, "FAIL legacy-stage-listing-size "+tag+" line "+strconv.Quote(line))
		case "fixed-none":
			fails = append(fails, "FAIL listing-text-compression-fixed-none "+tag+" stored "+compName(w.cp))
		default:
			fails = append(fails, "FAIL listing-text-"+why+" "+tag+" line "+strconv.Quote(line))
		}
	}
	if l, ok := next(len(want) > 0 && a[len(want)-1].typ == uint32(cbfs.TypeSELF)); ok {
		fails = append(fails, "FAIL listing-text-count extra line "+strconv.Quote(l))
	}
	return fails
}

// what a JSON string can carry of a name: bytes that are not UTF-8 become U+FFFD
func jsonName(b []byte) string {
	var sb strings.Builder
	for len(b) > 0 {
		r, n := utf8.DecodeRune(b)
		if r == utf8.RuneError && n == 1 {
			sb.WriteRune(utf8.RuneError)
		} else {
			sb.Write(b[:n])
		}
		b = b[n:]
	}
	return sb.String()
}

type jSeg struct {
	Name        string
	Start, Size uint32
	Type        string
	Compression string
}

func checkJSON(doc []byte, aoff int, a []arec, want []entry) []string {
	var j struct {
		Offset   uint32
		Segments []jSeg
	}
	if err := json.Unmarshal(doc, &j); err != nil {
		return []string{"FAIL listing-json-unreadable " + err.Error()}
	}
	var fails []string
	if int(j.Offset) != aoff {
		fails = append(fails, fmt.Sprintf("FAIL listing-json-area-offset got %#x want %#x", j.Offset, aoff))
	}
	if len(j.Segments) != len(want) {
		return append(fails, fmt.Sprintf("FAIL listing-json-count got %d want %d", len(j.Segments), len(want)))
	}
	for k := range want {
		g, w := j.Segments[k], want[k]
		tag := fmt.Sprintf("rec %d type %#x", k, a[k].typ)
		nameOK := g.Name == jsonName(w.name)
		if isEmptyType(a[k].typ) && (g.Name == "" || g.Name == "(empty)") {
			nameOK = true
		}
		switch {
		case !nameOK:
			fails = append(fails, "FAIL listing-json-name "+tag)
		case g.Start != w.off:
			fails = append(fails, "FAIL listing-json-offset "+tag)
		case g.Type != typeName(a[k].typ):
			fails = append(fails, "FAIL listing-json-type "+tag)
		case g.Size != w.sz:
			fails = append(fails, fmt.Sprintf("FAIL listing-json-size %s got %#x want %#x", tag, g.Size, w.sz))
		case g.Compression != compName(w.cp):
			fails = append(fails, "FAIL listing-json-compression "+tag)
		}
	}
	return fails
}

// img, area offset, archive: Image.String
func pListingText(args []string) string {
	a, _ := argsArch(args[2:])
	i, err := cbfs.NewImage(bytes.NewReader(UnH(args[0])))
	if err != nil {
		return "FAIL newimage-error " + err.Error()
	}
	return firstFail(checkText(i.String(), a, records(a)))
}

// img, area offset, archive: Image.MarshalJSON
func pListingJSON(args []string) string {
	a, _ := argsArch(args[2:])
	i, err := cbfs.NewImage(bytes.NewReader(UnH(args[0])))
	if err != nil {
		return "FAIL newimage-error " + err.Error()
	}
	doc, err := json.Marshal(i)
	if err != nil {
		return "FAIL listing-json-error " + err.Error()
	}
	return firstFail(checkJSON(doc, int(UnN(args[1])), a, records(a)))
}

// img: cbfs.Open on a file holding the image gives what NewImage gives on the bytes
// (listing, attributes and data of every record)
func pOpen(args []string) string {
	img := UnH(args[0])
	ref, err := cbfs.NewImage(bytes.NewReader(img))
	if err != nil {
		return "FAIL newimage-error " + err.Error()
	}
	dir, err := os.MkdirTemp("", "verif-c19-")
	if err != nil {
		return "skip"
	}
	defer os.RemoveAll(dir)
	p := filepath.Join(dir, "in.rom")
	if err := os.WriteFile(p, img, 0o644); err != nil {
		return "skip"
	}
	i, err := cbfs.Open(p)
	if err != nil {
		return "FAIL open-error " + err.Error()
	}
	if showEntries(segEntries(i)) != showEntries(segEntries(ref)) {
		return "FAIL open-listing-differs"
	}
	for k := range ref.Segs {
		f, g := ref.Segs[k].GetFile(), i.Segs[k].GetFile()
		if !bytes.Equal(f.FData, g.FData) || !bytes.Equal(f.Attr, g.Attr) {
			return fmt.Sprintf("FAIL open-data-differs rec %d", k)
		}
	}
	if !bytes.Equal(i.Data, img) {
		return "FAIL open-image-bytes-differ"
	}
	return "ok"
}

// ---- the cbfs command (package main of cmds/cbfs: built once per executor run) ----

const cmdEnv = "VERIF_C19_CBFS_CMD"

// buildCmd compiles cmds/cbfs of the checkout under test into a temporary directory
// (parent process only; the workers find the path in the environment).
func buildCmd() (cleanup func()) {
	cleanup = func() {}
	repo := os.Getenv("VERIF_REPO_PATH")
	if repo == "" {
		repo = "/repo"
	}
	dir, err := os.MkdirTemp("", "verif-c19-cmd-")
	if err != nil {
		return
	}
	cleanup = func() { os.RemoveAll(dir) }
	bin := filepath.Join(dir, "cbfs")
	ctx, cancel := context.WithTimeout(context.Background(), 5*time.Minute)
	defer cancel()
	c := exec.CommandContext(ctx, "go", "build", "-o", bin, "./cmds/cbfs")
	c.Dir = repo
	c.Env = append(os.Environ(), "GOFLAGS=-mod=mod", "GOPROXY=off", "GOSUMDB=off", "GOTOOLCHAIN=local", "CGO_ENABLED=0")
	if out, err := c.CombinedOutput(); err != nil {
		fmt.Fprintf(os.Stderr, "note: cmds/cbfs does not build, p_cmd cases are skipped: %v %s\n", err, out)
		return
	}
	os.Setenv(cmdEnv, bin)
	return
}

func runCmd(dir string, args ...string) ([]byte, error) {
	ctx, cancel := context.WithTimeout(context.Background(), 15*time.Second)
	defer cancel()
	c := exec.CommandContext(ctx, os.Getenv(cmdEnv), args...)
	c.Dir = dir
	return c.Output()
}

func mangled(name []byte) string { return strings.ReplaceAll(string(name), "/", "_") }

// a name the file system takes for a file in the output directory
func usableName(m string) bool {
	return m != "" && m != "." && m != ".." && len(m) <= 255 && !strings.ContainsRune(m, 0)
}

// SELF: the segment table up to the ENTRY segment is kept apart, the data of the file
// is what follows (all of it when nothing follows) - the split C19_data_exact states
func selfRemainder(stored []byte) []byte {
	for n := 28; n <= len(stored); n += 28 {
		if binary.BigEndian.Uint32(stored[n-28:]) == uint32(cbfs.SegEntry) {
			if len(stored)-n > 0 {
				return stored[n:]
			}
			return stored
		}
	}
	return stored
}

// img, area offset, stale, archive, count {index original}: the cbfs command on a file
// holding the image.  list and json print the listing; extract writes, for every record
// that is not empty space, a file named after the record ('/' -> '_') holding the
// stored bytes, resp. the original content for LZMA / LZ4.  Hypotheses (else skip):
// the names of the records to extract are distinct usable file names, and every
// record carrying a compression attribute other than none really holds enc(original).
// stale = 1: the output directory already holds larger files under the same names.
func pCmd(args []string) string {
	if os.Getenv(cmdEnv) == "" {
		return "skip"
	}
	img := UnH(args[0])
	aoff := int(UnN(args[1]))
	stale := UnN(args[2]) == 1
	a, rest := argsArch(args[3:])
	origs := map[int][]byte{}
	for n := int(UnN(rest[0])); n > 0; n-- {
		origs[int(UnN(rest[1]))] = UnH(rest[2])
		rest = rest[2:]
	}
	want := records(a)
	seen := map[string]bool{}
	for k := range a {
		if isEmptyType(a[k].typ) {
			continue
		}
		m := mangled(a[k].name)
		if !usableName(m) || seen[m] {
			return "skip"
		}
		seen[m] = true
		if cp := specComp(&a[k]); cp != 0 {
			if _, ok := origs[k]; !ok || (cp != 1 && cp != 2) || a[k].typ == uint32(cbfs.TypeSELF) {
				return "skip"
			}
		}
	}
	dir, err := os.MkdirTemp("", "verif-c19-")
	if err != nil {
		return "skip"
	}
	defer os.RemoveAll(dir)
	if err := os.WriteFile(filepath.Join(dir, "img.rom"), img, 0o644); err != nil {
		return "skip"
	}
	var fails []string
	out, err := runCmd(dir, "img.rom", "list")
	if err != nil {
		return "FAIL cmd-list-error " + err.Error()
	}
	for _, f := range checkText(string(out), a, want) {
		fails = append(fails, strings.Replace(f, "FAIL ", "FAIL cmd-", 1))
	}
	out, err = runCmd(dir, "img.rom", "json")
	if err != nil {
		return "FAIL cmd-json-error " + err.Error()
	}
	for _, f := range checkJSON(out, aoff, a, want) {
		fails = append(fails, strings.Replace(f, "FAIL ", "FAIL cmd-", 1))
	}
	if stale {
		_ = os.Mkdir(filepath.Join(dir, "out"), 0o755)
		for k := range a {
			if !isEmptyType(a[k].typ) {
				_ = os.WriteFile(filepath.Join(dir, "out", mangled(a[k].name)), bytes.Repeat([]byte{0xA5}, 2*len(a[k].data)+300), 0o644)
			}
		}
	}
	if _, err := runCmd(dir, "img.rom", "extract", "out"); err != nil {
		return "FAIL cmd-extract-error " + err.Error()
	}
	for k := range a {
		if isEmptyType(a[k].typ) {
			continue
		}
		tag := fmt.Sprintf("rec %d type %#x comp %s", k, a[k].typ, compName(want[k].cp))
		exp := a[k].data
		if a[k].typ == uint32(cbfs.TypeSELF) {
			exp = selfRemainder(exp)
		}
		if want[k].cp != 0 {
			exp = origs[k]
		}
		got, err := os.ReadFile(filepath.Join(dir, "out", mangled(a[k].name)))
		if err != nil {
			fails = append(fails, "FAIL cmd-extract-missing "+tag)
		} else if !bytes.Equal(got, exp) {
			fails = append(fails, fmt.Sprintf("FAIL cmd-extract-differs %s file %d bytes, want %d", tag, len(got), len(exp)))
		}
	}
	for i, f := range fails { // the tagged findings keep their tag under the command too
		fails[i] = strings.Replace(strings.Replace(f, "FAIL cmd-legacy-stage-listing-size", "FAIL legacy-stage-listing-size", 1),
			"FAIL cmd-listing-text-compression-fixed-none", "FAIL listing-text-compression-fixed-none", 1)
	}
	return firstFail(fails)
}

// ---------- generators ----------

var registered = []uint32{0, 1, 2, 0x10, 0x11, 0x20, 0x30, 0x40, 0x50, 0x53, 0x60, 0xaa, 0xab, 0x1aa, 0xffffffff}
var unknownTypes = []uint32{0x21, 0x51, 0x52, 0x61, 0x62, 0x63, 0x70, 0xac, 3, 0x777, 0x80000000, 0xfffffffe, 0x12345678}

func fillerNoSig(r *Rng, n int) []byte {
	b := r.Bytes(n)
	mode := r.Intn(3)
	for i := range b {
		switch mode {
		case 0:
			b[i] = 0xFF
		case 1:
			b[i] &= 0x0F
		}
		if b[i] == 0x5F { // no "__FMAP__" by accident
			b[i] = 0x60
		}
	}
	return b
}

func noSig(b []byte) []byte {
	for i := range b {
		if b[i] == 0x5F {
			b[i] = 0x60
		}
	}
	return b
}

func genName(r *Rng) []byte {
	n := r.Pick(0, 1, 3, 7, 8, 14, 15, 16, 17, 23, 24, 30, 31, 32, 33, 40, 47, 48, 49)
	if r.Chance(1, 16) { // long names: header + name beyond 64, 128, 256 bytes
		n = r.Pick(63, 64, 65, 100, 127, 128, 200, 231, 232, 233, 255, 256, 257, 300, 600)
	}
	b := make([]byte, n)
	for i := range b {
		b[i] = byte("abcdefghijklmnopqrstuvwxyz/_.-0123456789"[r.Intn(40)])
	}
	if n > 0 && r.Chance(1, 8) { // non-ASCII bytes are names too
		b[r.Intn(n)] = byte(0x80 + r.Intn(0x7f))
	}
	if n > 0 && r.Chance(1, 3) {
		// any printable ASCII is a name byte: '%' followed by format flags, digits and
		// verb letters (a listing must print the name, not interpret it), backslash
		// sequences, quotes, blanks and the rest of the punctuation.  Pieces overwrite
		// the name in place, so its length (the padding boundaries) stays as drawn.
		pieces := []string{"%d", "%s", "%v", "%x", "%q", "%%", "%", "%!", "%05d", "%-8x", "%+.3f", "%[1]d", "%*d",
			"%#v", "% x", "%c", "%U", "%t", "%p", "%n", "%08.3s", "%!d(MISSING)", "%!(EXTRA",
			"\\", "\\n", "\\t", "\\x41", "\\u0041", "\\", "\"", "'", "`", "\"\"", "$HOME", "${x}", "~", "#", "&", "*", "?",
			"[a]", "{b}", "(c)", "<d>", "a b", " ", "  ", ";", ":", ",", "=", "+", "!", "@", "^", "|"}
		for k := r.Range(1, 4); k > 0; k-- {
			pc := pieces[r.Intn(len(pieces))]
			at := r.Intn(n)
			if r.Chance(1, 4) && len(pc) <= n {
				at = n - len(pc) // at the very end of the name ('%' last, verb last)
			} else if r.Chance(1, 4) {
				at = 0
			}
			copy(b[at:], pc)
		}
		if r.Chance(1, 6) { // nothing but punctuation
			const cs = "%\\\"'`!#$&()*+,:;<=>?@[]^{|}~ %d%s%v"
			for i := range b {
				b[i] = cs[r.Intn(len(cs))]
			}
		}
	}
	return noSig(b)
}

func compAttr(alg, dsize uint32) attr {
	return attr{uint32(cbfs.Compressed), append(be32(alg), be32(dsize)...)}
}

// the decompressed-size field of a compression attribute: the honest value, or a boundary value
func genDsize(r *Rng, honest int) uint32 {
	switch r.Intn(8) {
	case 0:
		return 0
	case 1:
		return uint32(r.Pick(1, 0x7fffffff, 0x80000000, 0xffffffff))
	}
	return uint32(honest)
}

func genAttrs(r *Rng) []attr {
	var as []attr
	n := r.Pick(0, 0, 0, 1, 1, 2, 3)
	for i := 0; i < n; i++ {
		switch r.Intn(6) {
		case 0, 1:
			// the size field of the attribute is not used by the listing nor by Decompress: any value
			as = append(as, compAttr(uint32(r.Pick(0, 1, 2, 3, 0x7fffffff)), genDsize(r, r.Intn(1<<16))))
		case 2: // compression attribute too short to hold the algorithm + size
			as = append(as, attr{uint32(cbfs.Compressed), r.Bytes(r.Pick(0, 4, 7))})
		case 3:
			as = append(as, attr{uint32(cbfs.Hash), noSig(r.Bytes(4 + r.Pick(0, 20, 32)))})
		case 4:
			as = append(as, attr{uint32(r.Pick(int(cbfs.PSCB), int(cbfs.ALCB), int(cbfs.SHCB))), noSig(r.Bytes(r.Pick(4, 8, 16)))})
		case 5:
			pl := r.Intn(12)
			if r.Chance(1, 6) { // a large attribute: the attribute block (and the metadata) beyond 256 bytes
				pl = r.Pick(100, 200, 248, 256, 300, 1000)
			}
			as = append(as, attr{uint32(1 + r.Intn(0x7ffffffe)), noSig(r.Bytes(pl))})
		}
	}
	return as
}

func genData(r *Rng, typ uint32) []byte {
	n := r.Pick(0, 1, 2, 5, 15, 16, 17, 31, 32, 33, 64, 100, 200)
	if r.Chance(1, 40) { // sizes that need more than 8 bits
		n = r.Pick(255, 256, 257, 1000)
	}
	d := noSig(r.Bytes(n))
	switch typ {
	case uint32(cbfs.TypeLegacyStage):
		// 28-byte little-endian stage header (any Size field), then the data
		h := noSig(r.Bytes(28))
		if r.Bool() {
			binary.LittleEndian.PutUint32(h[20:], uint32(len(d)))
		}
		d = append(h, d...)
	case uint32(cbfs.TypeSELF):
		var t []byte
		for k := r.Intn(3); k > 0; k-- {
			h := noSig(r.Bytes(28))
			copy(h, be32(uint32(r.Pick(int(cbfs.SegCode), int(cbfs.SegData), int(cbfs.SegBSS), int(cbfs.SegParams), 0x11223344))))
			t = append(t, h...)
		}
		h := noSig(r.Bytes(28))
		copy(h, be32(uint32(cbfs.SegEntry)))
		t = append(t, h...)
		if r.Chance(1, 4) {
			d = nil // table only
		}
		d = append(t, d...)
	}
	return d
}

// a well-formed archive (wf_archive of the model holds by construction)
func genArchive(r *Rng) []arec {
	n := r.Pick(0, 1, 1, 2, 3, 4, 6, 9)
	if r.Chance(1, 30) {
		n = 20 + r.Intn(20)
	}
	var a []arec
	for i := 0; i < n; i++ {
		var rec arec
		if r.Chance(1, 5) { // filler slots before the record
			rec.gap = bytes.Repeat([]byte{0xff}, 16*r.Range(1, 3))
			if r.Bool() {
				rec.gap = noSig(r.Bytes(len(rec.gap)))
				for s := 0; s < len(rec.gap); s += 16 {
					if rec.gap[s] == 'L' {
						rec.gap[s] = 'M'
					}
				}
			}
			if r.Chance(1, 3) { // the magic, but not at a slot boundary
				copy(rec.gap[1+r.Intn(7):], cbfs.FileMagic[:8])
			}
		}
		rec.name = genName(r)
		// cbfstool style: NUL-terminate and pad the name field to 16; or any other padding
		switch r.Intn(4) {
		case 0, 1:
			rec.npad = 16 - (len(rec.name) % 16)
		case 2:
			rec.npad = r.Intn(20)
		case 3:
			rec.npad = 0
		}
		switch r.Intn(5) {
		case 0, 1, 2:
			rec.typ = registered[r.Intn(len(registered))]
		case 3:
			rec.typ = unknownTypes[r.Intn(len(unknownTypes))]
		case 4:
			rec.typ = uint32(r.U64())
			if rec.typ == uint32(cbfs.TypeLegacyStage) || rec.typ == uint32(cbfs.TypeSELF) {
				rec.typ = 0x50
			}
		}
		if i == 0 && r.Chance(1, 2) {
			rec.typ = 2
			rec.name = []byte("cbfs master header")
		}
		rec.attrs = genAttrs(r)
		rec.data = genData(r, rec.typ)
		if isEmptyType(rec.typ) && r.Bool() {
			rec.data = bytes.Repeat([]byte{0xff}, len(rec.data))
		}
		body := int(rec.so()) + len(rec.data)
		padTo := (16 - body%16) % 16
		if i == n-1 {
			padTo = r.Intn(padTo + 1) // the last record may stop anywhere up to the boundary
		}
		rec.pad = bytes.Repeat([]byte{0xff}, padTo)
		if r.Chance(1, 3) {
			rec.pad = noSig(r.Bytes(padTo))
		}
		a = append(a, rec)
	}
	return a
}

func repad(b []arec) {
	for j := range b {
		body := int(b[j].so()) + len(b[j].data)
		padTo := (16 - body%16) % 16
		if j < len(b)-1 || len(b[j].pad) > padTo {
			b[j].pad = bytes.Repeat([]byte{0xff}, padTo)
		}
	}
}

var (
	lzmaC = &compression.LZMA{}
	lz4C  = &compression.LZ4{}
)

// genOrig / encode: content and its LZMA (1) or LZ4 (2) encoding, checked to decode
// back with the real codec (the round-trip hypothesis of C19_decompress_original)
func genOrig(r *Rng) []byte {
	if r.Chance(1, 8) {
		return []byte{}
	}
	orig := bytes.Repeat([]byte("FIANO ROCKS!\n"), r.Range(0, 40))
	return append(orig, r.Bytes(r.Intn(40))...)
}

func encode(alg uint32, orig []byte) ([]byte, bool) {
	var c compression.Compressor = lzmaC
	if alg == 2 {
		c = lz4C
	}
	enc, err := c.Encode(orig)
	if err != nil {
		return nil, false
	}
	back, err := c.Decode(enc)
	if err != nil || !bytes.Equal(back, orig) || bytes.Contains(enc, fmap.Signature) {
		return nil, false
	}
	return enc, true
}

// consistent derives from a well-formed archive one on which the whole image can be
// extracted: every record that is not empty space has a usable file name of its own,
// and a record announces LZMA / LZ4 only when its data is the encoding of a known
// original (returned by index).  Compression attributes that announce anything else
// than none over random data are dropped; about every third record (any type but SELF,
// legacy stages when the encoding is long enough to hold the stage header) becomes a
// compressed one, with the compression attribute anywhere before the other compression
// attributes and any value in its size field.
func consistent(r *Rng, a []arec) ([]arec, map[int][]byte) {
	b := make([]arec, len(a))
	origs := map[int][]byte{}
	seen := map[string]bool{}
	for k := range a {
		rec := a[k]
		rec.attrs = append([]attr{}, a[k].attrs...)
		if isEmptyType(rec.typ) {
			b[k] = rec
			continue
		}
		for try := 0; ; try++ {
			m := mangled(rec.name)
			if usableName(m) && !seen[m] {
				seen[m] = true
				break
			}
			rec.name = genName(r)
			if try > 20 {
				rec.name = append(rec.name, []byte(fmt.Sprintf("-%d", k))...)
			}
		}
		var kept []attr
		for _, at := range rec.attrs {
			if at.tag == uint32(cbfs.Compressed) && len(at.payload) >= 8 && binary.BigEndian.Uint32(at.payload) != 0 {
				continue
			}
			kept = append(kept, at)
		}
		rec.attrs = kept
		if rec.typ != uint32(cbfs.TypeSELF) && r.Chance(1, 3) {
			alg := uint32(r.Pick(1, 2))
			orig := genOrig(r)
			if enc, ok := encode(alg, orig); ok && (rec.typ != uint32(cbfs.TypeLegacyStage) || len(enc) >= 28) {
				first := len(rec.attrs)
				for j, at := range rec.attrs {
					if at.tag == uint32(cbfs.Compressed) {
						first = j
						break
					}
				}
				at := r.Intn(first + 1)
				ca := compAttr(alg, genDsize(r, len(orig)))
				rec.attrs = append(rec.attrs[:at], append([]attr{ca}, rec.attrs[at:]...)...)
				rec.data = enc
				origs[k] = orig
			}
		}
		b[k] = rec
	}
	repad(b)
	return b, origs
}

func areaNamed(n string, off, size int, flags uint16) fmap.Area {
	var a fmap.Area
	a.Offset, a.Size, a.Flags = uint32(off), uint32(size), flags
	copy(a.Name.Value[:], n)
	return a
}

func encFmap(m *fmap.FMap) []byte {
	var b bytes.Buffer
	_ = binary.Write(&b, binary.LittleEndian, m.Header)
	_ = binary.Write(&b, binary.LittleEndian, m.Areas)
	return b.Bytes()
}

// image = [filler][fmap][filler][area][filler] or with the map after the area.
// Returns the image and the offset of the COREBOOT area. areaSize may differ from
// len(area) for the hostile stream.
func genImage(r *Rng, area []byte, areaSize int, decoys bool) ([]byte, int) {
	m := &fmap.FMap{}
	copy(m.Signature[:], fmap.Signature)
	m.VerMajor, m.VerMinor = 1, uint8(r.Intn(4))
	m.Base = uint64(0xff000000)
	copy(m.Name.Value[:], "FLASH")
	nOther := r.Pick(0, 1, 2, 4)
	mapLen := 56 + 42*(nOther+1+3)
	pre := 16 * r.Intn(8)
	mid := 16 * r.Intn(8)
	if r.Chance(1, 4) {
		pre, mid = r.Intn(100), r.Intn(100) // the area need not be aligned in the image
	}
	post := r.Intn(64)
	mapFirst := r.Bool()
	var aoff, moff int
	if mapFirst {
		moff = pre
		aoff = pre + mapLen + mid
	} else {
		aoff = pre
		moff = pre + len(area) + mid
	}
	total := pre + mapLen + mid + len(area) + post
	img := fillerNoSig(r, total)
	copy(img[aoff:], area)
	var areas []fmap.Area
	for k := 0; k < nOther; k++ {
		nm := []string{"BIOS", "FMAP", "RW_MRC_CACHE", "SI_ALL", "COREBOOT2", "coreboot", "COREBOO", " COREBOOT"}[r.Intn(8)]
		areas = append(areas, areaNamed(nm, r.Intn(total), r.Intn(total), uint16(r.Intn(8))))
	}
	if decoys && r.Chance(1, 3) { // "COREBOOT\0X" is a different name: only trailing NULs are trimmed
		d := areaNamed("COREBOOT", r.Intn(total), 16, 0)
		d.Name.Value[9] = 'X'
		areas = append(areas, d)
	}
	at := r.Intn(len(areas) + 1)
	cb := areaNamed("COREBOOT", aoff, areaSize, uint16(r.Intn(8)))
	areas = append(areas[:at], append([]fmap.Area{cb}, areas[at:]...)...)
	if decoys && r.Chance(1, 3) { // a second COREBOOT area: the first one wins
		areas = append(areas, areaNamed("COREBOOT", r.Intn(total), r.Intn(64), 0))
	}
	m.Areas = areas
	m.NAreas = uint16(len(areas))
	m.Size = uint32(total)
	enc := encFmap(m)
	copy(img[moff:], enc)
	return img, aoff
}

func gen(r *Rng, tier string, emit Emit) {
	n := 260
	if tier == "thorough" {
		n = 8000
	}
	lzma := &compression.LZMA{}
	lz4c := &compression.LZ4{}
	for it := 0; it < n; it++ {
		rr := r.Fork(uint64(it))
		a := genArchive(rr)
		area := embed(a)
		img, aoff := genImage(rr, area, len(area), true)
		emit("C", "spec", archArgs(a)...)
		emit("P", "p_archive", append([]string{H(img), N(uint64(aoff))}, archArgs(a)...)...)
		emit("C", "newimage", H(img))
		if len(a) > 0 {
			emit("C", "filedata", H(img), I(int64(rr.Range(-1, len(a)))))
		}
		// the listing as text and as JSON
		emit("P", "p_listing_text", append([]string{H(img), N(uint64(aoff))}, archArgs(a)...)...)
		emit("P", "p_listing_json", append([]string{H(img), N(uint64(aoff))}, archArgs(a)...)...)

		// a record whose size needs more than 12 / 16 bits (implementation-side oracles only:
		// the list-based model is slow on images of this size; "spec" still ties the archive
		// to the well-formedness hypothesis)
		if it%32 == 5 {
			lr := rr.Fork(0xB16)
			la := append([]arec{}, a...)
			var cand []int
			for k := range la {
				if !isEmptyType(la[k].typ) && la[k].typ != uint32(cbfs.TypeSELF) {
					cand = append(cand, k)
				}
			}
			if len(cand) > 0 {
				k := cand[lr.Intn(len(cand))]
				big := noSig(lr.Bytes(lr.Pick(4095, 4096, 4097, 65535, 65536, 65537, 70000)))
				if la[k].typ == uint32(cbfs.TypeLegacyStage) {
					binary.LittleEndian.PutUint32(big[20:], uint32(lr.Pick(0, len(big)-28, 0x7fffffff)))
				}
				la[k].data = big
				repad(la)
				img5, aoff5 := genImage(lr, embed(la), len(embed(la)), true)
				head := []string{H(img5), N(uint64(aoff5))}
				emit("C", "spec", archArgs(la)...)
				emit("P", "p_archive", append(head, archArgs(la)...)...)
				emit("P", "p_listing_text", append(head, archArgs(la)...)...)
				emit("P", "p_listing_json", append(head, archArgs(la)...)...)
				emit("P", "p_open", H(img5))
			}
		}

		// an archive that can be extracted as a whole (several compressed records, honest
		// and boundary size fields, distinct names): every oracle, cbfs.Open and the command
		if it%2 == 1 {
			cr := rr.Fork(0xC0DE)
			b, origs := consistent(cr, a)
			img4, aoff4 := genImage(cr, embed(b), len(embed(b)), true)
			head := []string{H(img4), N(uint64(aoff4))}
			emit("C", "spec", archArgs(b)...)
			emit("P", "p_archive", append(head, archArgs(b)...)...)
			emit("P", "p_listing_text", append(head, archArgs(b)...)...)
			emit("P", "p_listing_json", append(head, archArgs(b)...)...)
			if it%4 == 1 || tier == "thorough" {
				emit("P", "p_open", H(img4))
			}
			var oa []string
			for k := range b {
				if o, ok := origs[k]; ok {
					oa = append(oa, N(uint64(k)), H(o))
					if len(oa) <= 4 { // Decompress on the first two; the command extracts all of them
						emit("P", "p_decompress", H(img4), N(uint64(k)), H(o))
					}
				}
			}
			if it%8 == 1 || tier == "thorough" { // three process starts per case: fewer in the quick tier
				stale := uint64(0)
				if cr.Chance(1, 4) {
					stale = 1
				}
				cargs := append([]string{H(img4), N(uint64(aoff4)), N(stale)}, archArgs(b)...)
				cargs = append(cargs, N(uint64(len(oa)/2)))
				emit("P", "p_cmd", append(cargs, oa...)...)
			}
		}
		if it%4 == 0 {
			// every situation of the destination: fresh path, empty file, same size with
			// other content, larger file, shorter file
			for _, kind := range destKinds {
				emit("C", "writeback", H(img), oldArg(destContent(kind, img, rr)))
			}
		}

		// compressed content: LZMA / LZ4 with the matching attribute, any file type
		if it%3 == 0 {
			orig := bytes.Repeat([]byte("FIANO ROCKS!\n"), rr.Range(0, 40))
			orig = append(orig, rr.Bytes(rr.Intn(40))...)
			alg := uint32(rr.Pick(1, 2))
			var enc []byte
			var err error
			if alg == 1 {
				enc, err = lzma.Encode(orig)
			} else {
				enc, err = lz4c.Encode(orig)
			}
			var back []byte
			if err == nil {
				if alg == 1 {
					back, err = lzma.Decode(enc)
				} else {
					back, err = lz4c.Decode(enc)
				}
			}
			if err == nil && bytes.Equal(back, orig) && !bytes.Contains(enc, fmap.Signature) {
				var rec arec
				rec.name = genName(rr)
				rec.npad = 16 - len(rec.name)%16
				rec.typ = uint32(rr.Pick(0x50, 0x50, 0x11, 0x53, 0x60, 0x30, 0x40, 0xaa, 0xab, 0x1aa, 1, 2, 0x777, 0x52))
				if rr.Bool() {
					rec.attrs = append(rec.attrs, attr{uint32(cbfs.Hash), noSig(rr.Bytes(24))})
				}
				rec.attrs = append(rec.attrs, compAttr(alg, uint32(len(orig))))
				rec.data = enc
				k := rr.Intn(len(a) + 1)
				b := append(append(append([]arec{}, a[:k]...), rec), a[k:]...)
				// re-pad: the inserted record and a former last record
				for j := range b {
					body := int(b[j].so()) + len(b[j].data)
					padTo := (16 - body%16) % 16
					if j < len(b)-1 || len(b[j].pad) > padTo {
						b[j].pad = bytes.Repeat([]byte{0xff}, padTo)
					}
				}
				img2, aoff2 := genImage(rr, embed(b), len(embed(b)), false)
				emit("C", "spec", archArgs(b)...)
				emit("P", "p_archive", append([]string{H(img2), N(uint64(aoff2))}, archArgs(b)...)...)
				emit("P", "p_decompress", H(img2), N(uint64(k)), H(orig))
			}
		}

		// hostile / boundary stream: compared with the model only
		for v := 0; v < 3; v++ {
			bad := append([]byte{}, area...)
			size := len(bad)
			switch rr.Intn(12) {
			case 0: // flip a bit in a record header / name / attribute region
				if len(a) > 0 {
					es := records(a)
					e := es[rr.Intn(len(es))]
					span := 24 + rr.Intn(24)
					p := int(e.off) + rr.Intn(span)
					if p < len(bad) {
						bad[p] ^= byte(1 << uint(rr.Intn(8)))
					}
				}
			case 1: // header field boundary values
				if len(a) > 0 {
					es := records(a)
					e := es[rr.Intn(len(es))]
					fld := 8 + 4*rr.Intn(4)
					vals := []uint32{0, 1, 23, 24, 25, 0x28, 0xffffffff, 0xfffffff0, 0x80000000, uint32(len(bad)), uint32(len(bad)) - e.off, uint32(len(bad)) - e.off + 1, 0x40000000}
					if int(e.off)+fld+4 <= len(bad) {
						copy(bad[int(e.off)+fld:], be32(vals[rr.Intn(len(vals))]))
					}
				}
			case 2: // area shorter than the archive
				size = rr.Intn(len(bad) + 1)
			case 3: // trailing bytes after the last record
				bad = append(bad, bytes.Repeat([]byte{0xff}, rr.Range(1, 40))...)
				size = len(bad)
			case 4: // area size runs past the end of the image (image is cut below)
				size = len(bad) + rr.Range(1, 64)
			case 5: // magic in a filler slot / second header inside data
				if len(bad) >= 32 {
					p := 16 * rr.Intn(len(bad)/16)
					copy(bad[p:], cbfs.FileMagic)
				}
			case 6: // legacy stage with 28 bytes or fewer, payload without ENTRY
				rec := arec{name: []byte("x"), npad: 15, typ: uint32(rr.Pick(0x10, 0x20))}
				rec.data = noSig(rr.Bytes(rr.Pick(0, 1, 27, 28, 29, 56)))
				bad = append(bad, rec.encRec()...)
				size = len(bad)
			case 7: // malformed attribute block
				rec := arec{name: []byte("attr"), npad: 12, typ: 0x50, data: []byte{1, 2, 3}}
				blk := encAttrs(genAttrs(rr))
				blk = append(blk, be32(uint32(rr.Pick(0, 0xffffffff, int(cbfs.Compressed), int(cbfs.Hash))))...)
				blk = append(blk, be32(uint32(rr.Pick(0, 7, 8, 12, 16, 17, 0x100, 0xffffffff, 0xfffffffe, 0x7fffffff)))...)
				blk = append(blk, rr.Bytes(rr.Pick(0, 4, 8, 9))...)
				raw := rec.encRec()
				raw = append(append(append([]byte{}, raw[:40]...), blk...), raw[40:]...)
				copy(raw[16:], be32(40))
				copy(raw[20:], be32(uint32(40+len(blk))))
				bad = append(bad, noSig(raw)...)
				size = len(bad)
			case 8: // no COREBOOT area at all
				img3, _ := genImage(rr, bad, size, false)
				img3 = bytes.Replace(img3, []byte("COREBOOT\x00"), []byte("COREBOOQ\x00"), -1)
				emit("C", "newimage", H(img3))
				continue
			case 9: // random garbage area
				bad = noSig(rr.Bytes(rr.Intn(200)))
				size = len(bad)
			case 10: // attribute offset set with an empty / inconsistent attribute block
				if len(a) > 0 {
					es := records(a)
					e := es[rr.Intn(len(es))]
					if int(e.off)+24 <= len(bad) {
						so := binary.BigEndian.Uint32(bad[int(e.off)+20:])
						copy(bad[int(e.off)+16:], be32(uint32(int(so)+rr.Pick(0, 0, 1, -1, -16))))
					}
				}
			case 11: // zero-size record at the very end
				rec := arec{name: []byte("zero"), npad: 12, typ: uint32(rr.Pick(0x50, 0x777, 0, 0x11))}
				bad = append(bad, rec.encRec()...)
				size = len(bad)
			}
			img3, aoff3 := genImage(rr, bad, size, true)
			if size > len(bad) && rr.Bool() {
				// cut the image inside / right after the area
				cut := aoff3 + len(bad) - rr.Intn(8)
				if cut < len(img3) && cut > 0 {
					// only when the flash map lies before the cut
					if i := bytes.Index(img3, fmap.Signature); i >= 0 && i+56+42*12 < cut {
						img3 = img3[:cut]
					}
				}
			}
			emit("C", "newimage", H(img3))
			if rr.Chance(1, 3) {
				emit("C", "filedata", H(img3), I(int64(rr.Range(0, len(a)))))
			}
		}
	}
}

func main() {
	CaseTimeout = 20 * time.Second
	MemLimit = uint64(2) << 30
	Register("newimage", opNewImage)
	Register("filedata", opFileData)
	Register("writeback", opWriteBack)
	Register("spec", opSpec)
	Register("p_archive", pArchive)
	Register("p_decompress", pDecompress)
	Register("p_listing_text", pListingText)
	Register("p_listing_json", pListingJSON)
	Register("p_open", pOpen)
	Register("p_cmd", pCmd)
	if len(os.Args) > 1 && os.Args[1] != "worker" {
		defer buildCmd()()
	}
	Main(gen)
}
