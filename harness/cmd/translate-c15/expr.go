package main

// Translation of the small hand-written functions the tags refer to
// (countValue:"keyDataSize()", "KeySize.InBytes()", "hashSize()") into the
// count-expression language [cexpr] of Model/Manifest.v.  Supported Go subset:
// integer literals, package constants, receiver fields, + * >>, conversions,
// calls of niladic hand-written methods (inlined), switch/if with returns.
// Anything else is fatal.

import (
	"fmt"
	"go/ast"
	"go/token"
	"strconv"
)

type GoT struct {
	P    *Pkg
	Name string // "" = untyped constant; "bool"
}

type ectx struct {
	p      *Pkg
	file   *ast.File
	st     *Struct           // struct the receiver denotes (nil inside a basic-type method)
	recv   string            // receiver identifier
	rbound string            // cexpr bound to the receiver of a basic-type method
	rtype  GoT               // its type
	vars   map[string]string // local constants
	depth  int
	maxFld *int // highest field index referenced
}

func fieldGoT(f *Field) GoT {
	if f.T.Named {
		return GoT{f.T.Pkg, f.T.Name}
	}
	return GoT{nil, fmt.Sprintf("uint%d", 8*f.T.W)}
}

func widthOfGoT(t GoT, pos token.Pos) int {
	if t.P == nil {
		if w, ok := builtinInts[t.Name]; ok {
			return w
		}
		fatal(pos, "operand of unknown width (%q)", t.Name)
	}
	ti := resolveNamed(t.P, t.Name, pos)
	if ti.Kind != KInt {
		fatal(pos, "operand %s is not an integer type", t.Name)
	}
	return ti.W
}

func constInt(p *Pkg, e ast.Expr) int64 {
	switch e := e.(type) {
	case *ast.BasicLit:
		if e.Kind != token.INT {
			fatal(e.Pos(), "non-integer constant")
		}
		v, err := strconv.ParseInt(e.Value, 0, 64)
		if err != nil {
			fatal(e.Pos(), "bad integer literal %s", e.Value)
		}
		return v
	case *ast.ParenExpr:
		return constInt(p, e.X)
	case *ast.UnaryExpr:
		if e.Op == token.SUB {
			return -constInt(p, e.X)
		}
	case *ast.Ident:
		if v, ok := p.Consts[e.Name]; ok {
			return constInt(p, v)
		}
	case *ast.CallExpr: // T(lit)
		if len(e.Args) == 1 {
			return constInt(p, e.Args[0])
		}
	}
	fatal(e.Pos(), "not a constant the translator can evaluate")
	return 0
}

func (c *ectx) sub() *ectx {
	d := *c
	d.depth++
	if d.depth > 8 {
		fatal(token.NoPos, "count expression: call nesting too deep")
	}
	return &d
}

func zlit(v int64) string {
	if v < 0 {
		return fmt.Sprintf("(CConst (%d))", v)
	}
	return fmt.Sprintf("(CConst %d)", v)
}

// expr translates an integer expression.
func (c *ectx) expr(e ast.Expr) (string, GoT) {
	switch e := e.(type) {
	case *ast.BasicLit:
		return zlit(constInt(c.p, e)), GoT{}
	case *ast.ParenExpr:
		return c.expr(e.X)
	case *ast.UnaryExpr:
		if e.Op == token.SUB {
			return zlit(constInt(c.p, e)), GoT{}
		}
	case *ast.Ident:
		if e.Name == c.recv && c.rbound != "" {
			return c.rbound, c.rtype
		}
		if v, ok := c.vars[e.Name]; ok {
			return v, GoT{}
		}
		if _, ok := c.p.Consts[e.Name]; ok {
			t := GoT{}
			if te := c.p.ConstTypes[e.Name]; te != nil {
				if id, ok := te.(*ast.Ident); ok {
					if _, b := builtinInts[id.Name]; b {
						t = GoT{nil, id.Name}
					} else {
						t = GoT{c.p, id.Name}
					}
				}
			}
			return zlit(constInt(c.p, e)), t
		}
	case *ast.SelectorExpr:
		if x, ok := e.X.(*ast.Ident); ok && x.Name == c.recv && c.st != nil {
			i := c.st.fieldIndex(e.Sel.Name)
			if i < 0 {
				fatal(e.Pos(), "no field %s in %s", e.Sel.Name, c.st.Name)
			}
			f := c.st.Fields[i]
			if f.Class != FCEndValue {
				fatal(e.Pos(), "count expression reads non-integer field %s", f.Name)
			}
			if c.maxFld != nil && i > *c.maxFld {
				*c.maxFld = i
			}
			return fmt.Sprintf("(CField %d)", i), fieldGoT(f)
		}
	case *ast.BinaryExpr:
		switch e.Op {
		case token.ADD, token.MUL:
			a, ta := c.expr(e.X)
			b, tb := c.expr(e.Y)
			t := ta
			if t.Name == "" {
				t = tb
			}
			op := "CAdd"
			if e.Op == token.MUL {
				op = "CMul"
			}
			r := fmt.Sprintf("(%s %s %s)", op, a, b)
			// Go arithmetic wraps at the operand type
			if t.Name != "" && t.Name != "int64" && t.Name != "int" {
				r = fmt.Sprintf("(CWrap %d %s)", 8*widthOfGoT(t, e.Pos()), r)
			}
			return r, t
		case token.SHR:
			a, ta := c.expr(e.X)
			k := constInt(c.p, e.Y)
			return fmt.Sprintf("(CShr %s %d)", a, k), ta
		}
	case *ast.CallExpr:
		// conversion
		if id, ok := e.Fun.(*ast.Ident); ok && len(e.Args) == 1 {
			if w, ok := builtinInts[id.Name]; ok {
				a, _ := c.expr(e.Args[0])
				return fmt.Sprintf("(CWrap %d %s)", 8*w, a), GoT{nil, id.Name}
			}
			if id.Name == "int64" || id.Name == "int" {
				a, ta := c.expr(e.Args[0])
				if ta.Name != "" && ta.Name != "int64" && ta.Name != "int" {
					if widthOfGoT(ta, e.Pos()) > 4 {
						fatal(e.Pos(), "int64 conversion of a 64-bit unsigned operand")
					}
				}
				return a, GoT{nil, "int64"}
			}
			if _, isType := c.p.Types[id.Name]; isType {
				ti := resolveNamed(c.p, id.Name, e.Pos())
				if ti.Kind == KInt {
					a, _ := c.expr(e.Args[0])
					return fmt.Sprintf("(CWrap %d %s)", 8*ti.W, a), GoT{c.p, id.Name}
				}
			}
		}
		// niladic method call
		if sel, ok := e.Fun.(*ast.SelectorExpr); ok && len(e.Args) == 0 {
			return c.call(sel, e.Pos(), false, "", "")
		}
	}
	fatal(e.Pos(), "count expression: unsupported Go expression (%T)", e)
	return "", GoT{}
}

// call inlines X.M(); for a boolean method, thenC/elseC are the branches.
func (c *ectx) call(sel *ast.SelectorExpr, pos token.Pos, isCond bool, thenC, elseC string) (string, GoT) {
	m := sel.Sel.Name
	// method of the struct itself
	if x, ok := sel.X.(*ast.Ident); ok && x.Name == c.recv && c.st != nil && c.rbound == "" {
		fd, ok := c.st.P.HandFuncs[c.st.Name+"."+m]
		if !ok {
			fatal(pos, "method %s.%s is not a hand-written function of %s", c.st.Name, m, c.st.P.ImportPath)
		}
		_, _, rv := recvName(fd)
		d := c.sub()
		d.p, d.recv, d.vars = c.st.P, rv, map[string]string{}
		return d.inline(fd, isCond, thenC, elseC)
	}
	// method of a named basic type
	a, ta := c.expr(sel.X)
	if ta.P == nil {
		fatal(pos, "method call on a value of unknown named type")
	}
	fd, ok := ta.P.HandFuncs[ta.Name+"."+m]
	if !ok {
		fatal(pos, "method %s.%s is not a hand-written function of %s", ta.Name, m, ta.P.ImportPath)
	}
	_, ptr, rv := recvName(fd)
	if ptr {
		fatal(pos, "pointer-receiver method %s.%s in a count expression", ta.Name, m)
	}
	d := c.sub()
	d.p, d.st, d.recv, d.rbound, d.rtype, d.vars = ta.P, nil, rv, a, ta, map[string]string{}
	return d.inline(fd, isCond, thenC, elseC)
}

func resultType(fd *ast.FuncDecl) string {
	if len(fd.Type.Params.List) != 0 || fd.Type.Results == nil || len(fd.Type.Results.List) != 1 {
		fatal(fd.Pos(), "count expression calls %s which is not a niladic single-result function", fd.Name.Name)
	}
	id, ok := fd.Type.Results.List[0].Type.(*ast.Ident)
	if !ok {
		fatal(fd.Pos(), "unsupported result type of %s", fd.Name.Name)
	}
	return id.Name
}

func (c *ectx) inline(fd *ast.FuncDecl, isCond bool, thenC, elseC string) (string, GoT) {
	rt := resultType(fd)
	if isCond {
		if rt != "bool" {
			fatal(fd.Pos(), "%s used as a condition but does not return bool", fd.Name.Name)
		}
		if len(fd.Body.List) != 1 {
			fatal(fd.Pos(), "boolean helper %s is not a single return", fd.Name.Name)
		}
		r, ok := fd.Body.List[0].(*ast.ReturnStmt)
		if !ok || len(r.Results) != 1 {
			fatal(fd.Pos(), "boolean helper %s is not a single return", fd.Name.Name)
		}
		return c.cond(r.Results[0], thenC, elseC), GoT{nil, "bool"}
	}
	body := c.body(fd.Body.List, fd.Pos())
	switch rt {
	case "int64", "int":
		return body, GoT{nil, rt}
	default:
		if w, ok := builtinInts[rt]; ok {
			return fmt.Sprintf("(CWrap %d %s)", 8*w, body), GoT{nil, rt}
		}
	}
	fatal(fd.Pos(), "unsupported result type %s of %s", rt, fd.Name.Name)
	return "", GoT{}
}

func singleReturn(stmts []ast.Stmt, pos token.Pos) ast.Expr {
	if len(stmts) != 1 {
		fatal(pos, "count expression: branch is not a single return")
	}
	r, ok := stmts[0].(*ast.ReturnStmt)
	if !ok || len(r.Results) != 1 {
		fatal(pos, "count expression: branch is not a single return")
	}
	return r.Results[0]
}

// body translates a statement list that ends by returning on every path.
func (c *ectx) body(stmts []ast.Stmt, pos token.Pos) string {
	if len(stmts) == 0 {
		fatal(pos, "count expression: function can fall off its end")
	}
	switch s := stmts[0].(type) {
	case *ast.ReturnStmt:
		if len(s.Results) != 1 {
			fatal(s.Pos(), "count expression: return of several values")
		}
		r, _ := c.expr(s.Results[0])
		return r
	case *ast.DeclStmt:
		gd, ok := s.Decl.(*ast.GenDecl)
		if !ok || gd.Tok != token.CONST {
			fatal(s.Pos(), "count expression: unsupported declaration")
		}
		for _, sp := range gd.Specs {
			vs := sp.(*ast.ValueSpec)
			for i, n := range vs.Names {
				c.vars[n.Name] = zlit(constInt(c.p, vs.Values[i]))
			}
		}
		return c.body(stmts[1:], pos)
	case *ast.SwitchStmt:
		if s.Init != nil || s.Tag == nil {
			fatal(s.Pos(), "count expression: unsupported switch")
		}
		tag, _ := c.expr(s.Tag)
		var deflt ast.Expr
		type arm struct {
			k   int64
			ret ast.Expr
		}
		var arms []arm
		for _, cl := range s.Body.List {
			cc := cl.(*ast.CaseClause)
			ret := singleReturn(cc.Body, cc.Pos())
			if cc.List == nil {
				deflt = ret
				continue
			}
			for _, k := range cc.List {
				arms = append(arms, arm{constInt(c.p, k), ret})
			}
		}
		var els string
		if deflt != nil {
			els, _ = c.expr(deflt)
		} else {
			els = c.body(stmts[1:], pos)
		}
		for i := len(arms) - 1; i >= 0; i-- {
			r, _ := c.expr(arms[i].ret)
			els = fmt.Sprintf("(CIfEq %s %d %s %s)", tag, arms[i].k, r, els)
		}
		return els
	case *ast.IfStmt:
		if s.Init != nil {
			fatal(s.Pos(), "count expression: unsupported if")
		}
		th, _ := c.expr(singleReturn(s.Body.List, s.Pos()))
		var els string
		if s.Else != nil {
			eb, ok := s.Else.(*ast.BlockStmt)
			if !ok {
				fatal(s.Pos(), "count expression: unsupported else")
			}
			els = c.body(eb.List, s.Pos())
		} else {
			els = c.body(stmts[1:], pos)
		}
		return c.cond(s.Cond, th, els)
	}
	fatal(stmts[0].Pos(), "count expression: unsupported statement (%T)", stmts[0])
	return ""
}

func (c *ectx) cond(e ast.Expr, thenC, elseC string) string {
	switch e := e.(type) {
	case *ast.ParenExpr:
		return c.cond(e.X, thenC, elseC)
	case *ast.BinaryExpr:
		switch e.Op {
		case token.EQL:
			a, _ := c.expr(e.X)
			k := constInt(c.p, e.Y)
			return fmt.Sprintf("(CIfEq %s %d %s %s)", a, k, thenC, elseC)
		case token.LOR:
			return c.cond(e.X, thenC, c.cond(e.Y, thenC, elseC))
		}
	case *ast.CallExpr:
		if sel, ok := e.Fun.(*ast.SelectorExpr); ok && len(e.Args) == 0 {
			r, _ := c.call(sel, e.Pos(), true, thenC, elseC)
			return r
		}
	}
	fatal(e.Pos(), "count expression: unsupported condition (%T)", e)
	return ""
}

// countExpr translates "s.<expr>" in the context of struct st; fieldIdx is the
// index of the blob the count belongs to (all referenced fields must precede it).
func countExpr(st *Struct, file *ast.File, recv string, e ast.Expr, fieldIdx int) string {
	max := -1
	c := &ectx{p: st.P, file: file, st: st, recv: recv, vars: map[string]string{}, maxFld: &max}
	r, _ := c.expr(e)
	if max >= fieldIdx {
		fatal(e.Pos(), "count expression of field #%d of %s reads field #%d which is not decoded before it", fieldIdx, st.Name, max)
	}
	return r
}
