package main

// Containers (structures whose fields are elements): ReadFrom dispatches on the
// 8-byte structure ID of each StructInfo header.

import (
	"fmt"
	"go/ast"
	"go/token"
	"strings"
)

func idBytes(id string) string {
	parts := make([]string, len(id))
	for i := 0; i < len(id); i++ {
		parts[i] = fmt.Sprintf("%d", id[i])
	}
	return "[" + strings.Join(parts, "; ") + "]"
}

func ekind(f *Field) string {
	switch {
	case f.Class == FCElementList:
		return "ESlice"
	case f.Ptr:
		return "EPtr"
	}
	return "EOne"
}

func strictOrderIsTrue(p *Pkg, pos token.Pos) {
	for _, f := range p.Hand {
		for _, d := range f.Decls {
			gd, ok := d.(*ast.GenDecl)
			if !ok || gd.Tok != token.VAR {
				continue
			}
			for _, sp := range gd.Specs {
				vs := sp.(*ast.ValueSpec)
				for i, n := range vs.Names {
					if n.Name == "StrictOrderCheck" {
						if i < len(vs.Values) {
							if id, ok := vs.Values[i].(*ast.Ident); ok && id.Name == "true" {
								return
							}
						}
						fatal(vs.Pos(), "StrictOrderCheck is not initialised to true (the model assumes the order check is on)")
					}
				}
			}
		}
	}
	fatal(pos, "no StrictOrderCheck variable in %s", p.ImportPath)
}

func (s *Struct) translateContainer() *SIR {
	ir := &SIR{}
	flds := s.Fields
	n := len(flds)
	hdr := flds[0].Sub.Fields[0].Sub // the StructInfo struct of the first element
	for _, f := range flds {
		if f.Sub.Fields[0].Sub != hdr {
			fatal(f.Pos, "elements of %s use different StructInfo types", s.Name)
		}
	}
	layoutPlain(hdr, flds[0].Pos)
	if hdr.Fields[0].Name != "ID" || hdr.Fields[0].Class != FCArrayStatic {
		fatal(flds[0].Pos, "StructInfo does not start with the ID array")
	}

	// ---- fieldIndexByStructID ----
	var index []string
	{
		fd := s.method("fieldIndexByStructID")
		if _, ptr, _ := recvName(fd); ptr {
			fatal(fd.Pos(), "unexpected receiver")
		}
		checkSig(fd, "func(structID string) int")
		L := fd.Body.List
		if len(L) != 2 {
			fatal(fd.Pos(), "unrecognised body")
		}
		if _, ok := match(L[1:], "return -1"); !ok {
			fatal(fd.Pos(), "unrecognised body")
		}
		sw, ok := L[0].(*ast.SwitchStmt)
		if !ok || sw.Init != nil || render(sw.Tag) != "structID" {
			fatal(fd.Pos(), "unrecognised body")
		}
		for _, cl := range sw.Body.List {
			cc := cl.(*ast.CaseClause)
			if len(cc.List) != 1 {
				fatal(cc.Pos(), "unrecognised case")
			}
			m, ok := match(cc.Body, "return $N$")
			if !ok {
				fatal(cc.Pos(), "unrecognised case")
			}
			cn := render(cc.List[0])
			id, ok := s.P.GenConsts[cn]
			if !ok {
				fatal(cc.Pos(), "case label %s is not a generated StructureID constant", cn)
			}
			index = append(index, fmt.Sprintf("(%s, %d%%nat)", idBytes(id), atoi(m["N"], cc.Pos())))
		}
	}
	{ // fieldNameByIndex: only used for error texts, but it must be the template's shape
		fd := s.method("fieldNameByIndex")
		L := fd.Body.List
		if len(L) != 2 {
			fatal(fd.Pos(), "unrecognised body")
		}
		if _, ok := match(L[1:], `return fmt.Sprintf("invalidFieldIndex_%d", fieldIndex)`); !ok {
			fatal(fd.Pos(), "unrecognised body")
		}
		sw, ok := L[0].(*ast.SwitchStmt)
		if !ok || render(sw.Tag) != "fieldIndex" {
			fatal(fd.Pos(), "unrecognised body")
		}
		for _, cl := range sw.Body.List {
			cc := cl.(*ast.CaseClause)
			if len(cc.List) != 1 {
				fatal(cc.Pos(), "unrecognised case")
			}
			if _, ok := match(cc.Body, `return "$F$"`); !ok {
				fatal(cc.Pos(), "unrecognised case")
			}
		}
	}

	// ---- ReadFrom ----
	var missing []string
	var cases []string
	{
		fd := s.method("ReadFrom")
		checkPtrRecv(fd, "s")
		checkSig(fd, "func(r io.Reader) (returnN int64, returnErr error)")
		L := fd.Body.List
		if len(L) != 5 {
			fatal(fd.Pos(), "unrecognised body of container ReadFrom")
		}
		decl := render(L[0])
		m, ok := matchStr(decl, "var missingFieldsByIndices = [$N$]bool{$E$}")
		if !ok {
			m, ok = matchStr(decl, "var missingFieldsByIndices = [$N$]bool{}")
			if !ok {
				fatal(L[0].Pos(), "unrecognised declaration of missingFieldsByIndices")
			}
			m["E"] = ""
		}
		if atoi(m["N"], L[0].Pos()) != n {
			fatal(L[0].Pos(), "missingFieldsByIndices has %s entries, the declaration has %d fields", m["N"], n)
		}
		for _, part := range strings.Split(m["E"], ",") {
			part = strings.TrimSpace(part)
			if part == "" {
				continue
			}
			mm, ok := matchStr(part, "$N$: true")
			if !ok {
				fatal(L[0].Pos(), "unrecognised initialiser %q", part)
			}
			missing = append(missing, fmt.Sprintf("%d%%nat", atoi(mm["N"], L[0].Pos())))
		}
		if _, ok := match(L[1:4],
			`defer func() { if returnErr != nil { return } for fieldIndex, v := range missingFieldsByIndices { if v { returnErr = fmt.Errorf("field '%s' is missing", s.fieldNameByIndex(fieldIndex)) break } } }()`,
			"var totalN int64", "previousFieldIndex := int(-1)"); !ok {
			fatal(L[1].Pos(), "unrecognised prologue of container ReadFrom")
		}
		loop, ok := L[4].(*ast.ForStmt)
		if !ok || loop.Init != nil || loop.Cond != nil || loop.Post != nil {
			fatal(L[4].Pos(), "expected for { ... }")
		}
		B := loop.Body.List
		if len(B) != 14 {
			fatal(loop.Pos(), "unrecognised loop body (%d statements)", len(B))
		}
		m, ok = match(B[:11],
			"var structInfo $T$",
			"err := binary.Read(r, binary.LittleEndian, &structInfo)",
			"if err == io.EOF || err == io.ErrUnexpectedEOF { return totalN, nil }",
			`if err != nil { return totalN, fmt.Errorf("unable to read structure info at %d: %w", totalN, err) }`,
			"totalN += int64(binary.Size(structInfo))",
			"structID := structInfo.ID.String()",
			"fieldIndex := s.fieldIndexByStructID(structID)",
			"if fieldIndex < 0 { continue }",
			`if $T2$ && fieldIndex < previousFieldIndex { return totalN, fmt.Errorf("invalid order of fields (%d < %d): structure '%s' is out of order", fieldIndex, previousFieldIndex, structID) }`,
			"missingFieldsByIndices[fieldIndex] = false",
			"var n int64")
		if !ok {
			fatal(loop.Pos(), "unrecognised loop body of container ReadFrom")
		}
		file := fileOf(s.P, fd)
		ht := resolve(s.P, file, mustParseType(m["T"], loop.Pos()))
		if ht.Kind != KStruct || getStruct(ht.Pkg, ht.Name, loop.Pos()) != hdr {
			fatal(loop.Pos(), "loop reads a %s, the elements start with %s", m["T"], hdr.Name)
		}
		if baseName(m["T2"]) != "StrictOrderCheck" {
			fatal(loop.Pos(), "unrecognised order check %q", m["T2"])
		}
		strictOrderIsTrue(hdr.P, loop.Pos())
		// StructureID.String() must be string(s[:])
		if sf, ok := hdr.P.HandFuncs["StructureID.String"]; !ok {
			fatal(loop.Pos(), "no StructureID.String")
		} else if _, ok := match(sf.Body.List, "return string(s[:])"); !ok {
			fatal(sf.Pos(), "StructureID.String is not string(s[:])")
		}
		if _, ok := match(B[12:], "totalN += n", "previousFieldIndex = fieldIndex"); !ok {
			fatal(loop.Pos(), "unrecognised loop epilogue")
		}
		sw, ok := B[11].(*ast.SwitchStmt)
		if !ok || sw.Init != nil || render(sw.Tag) != "structID" {
			fatal(B[11].Pos(), "expected switch structID")
		}
		sawDefault := false
		for _, cl := range sw.Body.List {
			cc := cl.(*ast.CaseClause)
			if cc.List == nil {
				if _, ok := match(cc.Body, fmt.Sprintf(`return totalN, fmt.Errorf("there is no field with structure ID '%%s' in %s", structInfo.ID)`, s.Name)); !ok {
					fatal(cc.Pos(), "unrecognised default case")
				}
				sawDefault = true
				continue
			}
			if len(cc.List) != 1 {
				fatal(cc.Pos(), "unrecognised case")
			}
			cn := render(cc.List[0])
			id, ok := s.P.GenConsts[cn]
			if !ok {
				fatal(cc.Pos(), "case label %s is not a generated StructureID constant", cn)
			}
			var fname, kind string
			if mm, ok := match(cc.Body, "var el $T$", "el.SetStructInfo(structInfo)", "n, err = el.ReadDataFrom(r)",
				"s.$F$ = append(s.$F$, el)",
				`if err != nil { return totalN, fmt.Errorf("unable to read field $F$ at %d: %w", totalN, err) }`); ok {
				fname, kind = mm["F"], "ESlice"
				i := s.fieldIndex(fname)
				if i < 0 || flds[i].Sub.Name != baseName(mm["T"]) {
					fatal(cc.Pos(), "case %s: item type %s does not match field %s", cn, mm["T"], fname)
				}
			} else if mm, ok := match(cc.Body,
				`if fieldIndex == previousFieldIndex { return totalN, fmt.Errorf("field '$F$' is not a slice, but multiple elements found") }`,
				"s.$F$.SetStructInfo(structInfo)", "n, err = s.$F$.ReadDataFrom(r)",
				`if err != nil { return totalN, fmt.Errorf("unable to read field $F$ at %d: %w", totalN, err) }`); ok {
				fname, kind = mm["F"], "EOne"
			} else if mm, ok := match(cc.Body,
				`if fieldIndex == previousFieldIndex { return totalN, fmt.Errorf("field '$F$' is not a slice, but multiple elements found") }`,
				"s.$F$ = &$T${}",
				"s.$F$.SetStructInfo(structInfo)", "n, err = s.$F$.ReadDataFrom(r)",
				`if err != nil { return totalN, fmt.Errorf("unable to read field $F$ at %d: %w", totalN, err) }`); ok {
				fname, kind = mm["F"], "EPtr"
				i := s.fieldIndex(fname)
				if i < 0 || flds[i].Sub.Name != baseName(mm["T"]) {
					fatal(cc.Pos(), "case %s: allocated type %s does not match field %s", cn, mm["T"], fname)
				}
			} else {
				fatal(cc.Pos(), "unrecognised dispatch case %s", cn)
			}
			cases = append(cases, fmt.Sprintf("(%s, %s, %s)", idBytes(id), q(fname), kind))
		}
		if !sawDefault {
			fatal(sw.Pos(), "dispatch switch has no default case")
		}
	}

	// ---- WriteTo ----
	var writes []string
	{
		wt := s.method("WriteTo")
		checkPtrRecv(wt, "s")
		checkSig(wt, "func(w io.Writer) (int64, error)")
		L := wt.Body.List
		if len(L) != n+3 {
			fatal(wt.Pos(), "container WriteTo has %d statements for %d fields", len(L), n)
		}
		if _, ok := match(L[:2], "totalN := int64(0)", "s.Rehash()"); !ok {
			fatal(wt.Pos(), "WriteTo does not start with totalN := int64(0); s.Rehash()")
		}
		if _, ok := match(L[len(L)-1:], "return totalN, nil"); !ok {
			fatal(wt.Pos(), "expected return totalN, nil")
		}
		for i, bs := range L[2 : len(L)-1] {
			f := flds[i]
			errChk := fmt.Sprintf(`if err != nil { return totalN, fmt.Errorf("unable to write field '%s': %%w", err) }`, f.Name)
			one := []string{"n, err := s." + f.Name + ".WriteTo(w)", errChk, "totalN += int64(n)"}
			switch st := bs.(type) {
			case *ast.BlockStmt:
				if _, ok := match(st.List, one...); ok {
					writes = append(writes, fmt.Sprintf("(%s, EOne)", q(f.Name)))
				} else if _, ok := match(st.List, fmt.Sprintf(`for idx := range s.%s { n, err := s.%s[idx].WriteTo(w) if err != nil { return totalN, fmt.Errorf("unable to write field '%s[%%d]': %%w", idx, err) } totalN += int64(n) }`, f.Name, f.Name, f.Name)); ok {
					writes = append(writes, fmt.Sprintf("(%s, ESlice)", q(f.Name)))
				} else {
					fatal(bs.Pos(), "unrecognised write block of container field %s", f.Name)
				}
			case *ast.IfStmt:
				if st.Init != nil || st.Else != nil || render(st.Cond) != "s."+f.Name+" != nil" {
					fatal(bs.Pos(), "unrecognised write block of container field %s", f.Name)
				}
				if _, ok := match(st.Body.List, one...); !ok {
					fatal(bs.Pos(), "unrecognised write block of container field %s", f.Name)
				}
				writes = append(writes, fmt.Sprintf("(%s, EPtr)", q(f.Name)))
			default:
				fatal(bs.Pos(), "unrecognised write block of container field %s", f.Name)
			}
		}
	}
	s.sizesOffsets(ir)

	// ---- Rehash ----
	rhIR := "None"
	{
		rh := s.method("Rehash")
		checkPtrRecv(rh, "s")
		switch len(rh.Body.List) {
		case 0:
		case 1:
			m, ok := match(rh.Body.List, "s.$F$ = $T$(s.$F2$())")
			if !ok {
				fatal(rh.Pos(), "unrecognised container Rehash")
			}
			rhIR = s.containerRehash(m["F"], m["T"], m["F2"], rh.Pos())
		default:
			fatal(rh.Pos(), "unrecognised container Rehash")
		}
	}
	ir.ContRehash = rhIR
	ir.ContIR = fmt.Sprintf("mkCir [%s] [%s] %d%%nat [%s] [%s] %s [%s] [%s] %s",
		strings.Join(index, "; "), strings.Join(missing, "; "), n,
		strings.Join(cases, "; "), strings.Join(writes, "; "), s.Coq()+"_sizes",
		strings.Join(ir.Total, "; "), strings.Join(ir.Offsets, "; "), rhIR)
	s.checkOtherMethods()
	return ir
}

func mustParseType(t string, pos token.Pos) ast.Expr {
	parts := strings.Split(t, ".")
	if len(parts) == 1 {
		return &ast.Ident{Name: t, NamePos: pos}
	}
	return &ast.SelectorExpr{X: &ast.Ident{Name: parts[0], NamePos: pos}, Sel: &ast.Ident{Name: parts[1], NamePos: pos}}
}

// s.<field> = <T>(s.<fn>()) where fn is hand-written: either the identity or
// "copy the header, set one field to offset(elem)+offset(field in elem)".
func (s *Struct) containerRehash(field, typ, fn string, pos token.Pos) string {
	if s.fieldIndex(field) != 0 || ekind(s.Fields[0]) != "EOne" {
		fatal(pos, "container Rehash assigns %s, which is not the first (required) element", field)
	}
	h := s.Fields[0]
	if baseName(typ) != h.Sub.Name {
		fatal(pos, "container Rehash converts to %s, field %s is a %s", typ, field, h.Sub.Name)
	}
	fd, ok := s.P.HandFuncs[s.Name+"."+fn]
	if !ok {
		fatal(pos, "%s.%s is not a hand-written method", s.Name, fn)
	}
	_, _, rv := recvName(fd)
	if _, ok := match(fd.Body.List, "return "+rv+"."+field); ok {
		return "None"
	}
	m, ok := match(fd.Body.List, "$F9$ := "+rv+"."+field,
		"$F9$.$F$ = $T$("+rv+".$F2$Offset() + "+rv+".$F2$.$F3$Offset())", "return $F9$")
	if !ok {
		fatal(fd.Pos(), "unrecognised body of %s.%s", s.Name, fn)
	}
	fi := h.Sub.fieldIndex(m["F"])
	if fi < 0 || h.Sub.Fields[fi].Class != FCEndValue {
		fatal(fd.Pos(), "%s sets %s.%s which is not an integer field", fn, h.Sub.Name, m["F"])
	}
	w := h.Sub.Fields[fi].T.W
	if tw, ok := builtinInts[m["T"]]; !ok || tw != w {
		fatal(fd.Pos(), "%s converts to %s but the field has %d bytes", fn, m["T"], w)
	}
	ei := s.fieldIndex(m["F2"])
	if ei < 0 || ekind(s.Fields[ei]) != "EOne" {
		fatal(fd.Pos(), "%s refers to %s which is not a required element", fn, m["F2"])
	}
	si := s.Fields[ei].Sub.fieldIndex(m["F3"])
	if si < 0 {
		fatal(fd.Pos(), "%s refers to %s.%s which does not exist", fn, m["F2"], m["F3"])
	}
	return fmt.Sprintf("(Some (mkCrehash %d%%nat %d%%nat %d%%nat %d%%nat))", fi, w, ei, si)
}

// what the TAGS prescribe for the container's Rehash
func (s *Struct) containerSchemaRehash() string {
	res := "None"
	for i, f := range s.Fields {
		rv, ok := f.Tags["rehashValue"]
		if !ok {
			continue
		}
		if i != 0 {
			fatal(f.Pos, "rehashValue on container field %s which is not the first element", f.Name)
		}
		if !strings.HasSuffix(rv, "()") {
			fatal(f.Pos, "unsupported rehashValue %q on a container field", rv)
		}
		res = s.containerRehash(f.Name, f.Sub.Name, strings.TrimSuffix(rv, "()"), f.Pos)
	}
	return res
}
