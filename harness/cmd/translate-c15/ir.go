package main

// Recognition of the statement shapes of the generator template
// (common/manifestcodegen/cmd/manifestcodegen/template_methods.tpl.go) in the
// checked-in *_manifestcodegen.go files.  Every statement of every translated
// function must match one of the patterns below, otherwise the run is fatal.

import (
	"bytes"
	"fmt"
	"go/ast"
	"go/parser"
	"go/printer"
	"go/token"
	"regexp"
	"strconv"
	"strings"
)

var wsRe = regexp.MustCompile(`\s+`)

func render(n ast.Node) string {
	var b bytes.Buffer
	if err := printer.Fprint(&b, fset, n); err != nil {
		fatal(n.Pos(), "cannot print node: %v", err)
	}
	return strings.TrimSpace(wsRe.ReplaceAllString(b.String(), " "))
}

// A pattern is literal Go text with holes: $F$ identifier, $N$ integer literal,
// $T$ type name (possibly qualified), $E$ any expression text.  The same hole
// name (with a digit suffix allowed, e.g. $F2$) must bind the same text.
type pat struct {
	re    *regexp.Regexp
	holes []string
}

var patCache = map[string]*pat{}

func compilePat(p string) *pat {
	if c, ok := patCache[p]; ok {
		return c
	}
	orig := p
	var sb strings.Builder
	var holes []string
	sb.WriteString("^")
	for len(p) > 0 {
		i := strings.Index(p, "$")
		if i < 0 {
			sb.WriteString(regexp.QuoteMeta(p))
			break
		}
		sb.WriteString(regexp.QuoteMeta(p[:i]))
		j := strings.Index(p[i+1:], "$")
		name := p[i+1 : i+1+j]
		p = p[i+j+2:]
		holes = append(holes, name)
		switch name[0] {
		case 'F':
			sb.WriteString(`([A-Za-z_][A-Za-z0-9_]*)`)
		case 'N':
			sb.WriteString(`(0[xX][0-9a-fA-F]+|[0-9]+)`)
		case 'T':
			sb.WriteString(`([A-Za-z_][A-Za-z0-9_]*(?:\.[A-Za-z_][A-Za-z0-9_]*)?)`)
		case 'E':
			sb.WriteString(`(.+?)`)
		default:
			panic("bad hole " + name)
		}
	}
	sb.WriteString("$")
	c := &pat{regexp.MustCompile(sb.String()), holes}
	patCache[orig] = c
	return c
}

// match matches the statements against the line patterns; returns bindings.
func match(stmts []ast.Stmt, pats ...string) (map[string]string, bool) {
	if len(stmts) != len(pats) {
		return nil, false
	}
	b := map[string]string{}
	for i, st := range stmts {
		p := compilePat(pats[i])
		m := p.re.FindStringSubmatch(render(st))
		if m == nil {
			return nil, false
		}
		for k, h := range p.holes {
			if old, ok := b[h]; ok && old != m[k+1] {
				return nil, false
			}
			b[h] = m[k+1]
		}
	}
	return b, true
}

func matchStr(s string, p string) (map[string]string, bool) {
	cp := compilePat(p)
	m := cp.re.FindStringSubmatch(s)
	if m == nil {
		return nil, false
	}
	b := map[string]string{}
	for k, h := range cp.holes {
		if old, ok := b[h]; ok && old != m[k+1] {
			return nil, false
		}
		b[h] = m[k+1]
	}
	return b, true
}

func atoi(s string, pos token.Pos) int {
	v, err := strconv.ParseInt(s, 0, 32)
	if err != nil {
		fatal(pos, "bad integer %q", s)
	}
	return int(v)
}

func cwOf(name string, pos token.Pos) int {
	w, ok := builtinInts[name]
	if !ok {
		fatal(pos, "count type %q is not a basic unsigned integer", name)
	}
	return w
}

// a name as the list of its character codes, with the text in a comment
func q(s string) string {
	parts := make([]string, len(s))
	for i := 0; i < len(s); i++ {
		parts[i] = fmt.Sprintf("%d", s[i])
	}
	return "[" + strings.Join(parts, ";") + "](*" + s + "*)"
}

// ---------- per-structure IR ----------

type SIR struct {
	Read, Write, Sizes   []string // Coq step terms
	Total                []string
	Offsets              []string
	Rehash               []string // rhassign terms (plain structures)
	IsElem               bool
	HdrLayout            string // Coq schema name of the StructInfo type read by binary.Read
	ContRehash           string // container: "None" / "Some (mkCrehash ...)"
	ContIR               string // container: cir term
	ListIntBroken        bool
}

func (s *Struct) method(name string) *ast.FuncDecl {
	fd, ok := s.P.GenFuncs[s.Name+"."+name]
	if !ok {
		fatal(token.NoPos, "generated method %s.%s is missing in %s", s.Name, name, s.P.ImportPath)
	}
	return fd
}

func checkSig(fd *ast.FuncDecl, want string) {
	got := render(fd.Type)
	if got != want {
		fatal(fd.Pos(), "signature of %s is %q, expected %q", fd.Name.Name, got, want)
	}
	_, ptr, rv := recvName(fd)
	_ = ptr
	_ = rv
}

func checkPtrRecv(fd *ast.FuncDecl, v string) {
	_, ptr, rv := recvName(fd)
	if !ptr || rv != v {
		fatal(fd.Pos(), "%s: expected receiver (%s *T)", fd.Name.Name, v)
	}
}

// the comment "// <Field> (ManifestFieldType: <class>)" in front of a block
func blockComment(file *ast.File, st ast.Stmt) (string, string, bool) {
	line := fset.Position(st.Pos()).Line
	for _, cg := range file.Comments {
		if fset.Position(cg.End()).Line == line-1 {
			txt := strings.TrimSpace(cg.Text())
			if m, ok := matchStr(txt, "$F$ (ManifestFieldType: $F2$)"); ok {
				return m["F"], m["F2"], true
			}
		}
	}
	return "", "", false
}

func fileOf(p *Pkg, fd *ast.FuncDecl) *ast.File {
	for _, f := range p.Gen {
		if f.Pos() <= fd.Pos() && fd.Pos() < f.End() {
			return f
		}
	}
	fatal(fd.Pos(), "function is in no generated file")
	return nil
}

// basic named types: generated TotalSize / WriteTo / ReadFrom
type basicInfo struct {
	W       int
	ReadPtr bool // ReadFrom has a pointer receiver (a value receiver cannot be filled by binary.Read)
}

func basicMethods(t *TInfo, pos token.Pos) basicInfo {
	p := t.Pkg
	get := func(n string) *ast.FuncDecl {
		fd, ok := p.GenFuncs[t.Name+"."+n]
		if !ok {
			fatal(pos, "named basic type %s has no generated %s", t.Name, n)
		}
		return fd
	}
	ts := get("TotalSize")
	if _, ptr, rv := recvName(ts); ptr || rv != "v" {
		fatal(ts.Pos(), "unexpected receiver")
	}
	if _, ok := match(ts.Body.List, "return uint64(binary.Size(v))"); !ok || render(ts.Type) != "func() uint64" {
		fatal(ts.Pos(), "unrecognised body of %s.TotalSize", t.Name)
	}
	wr := get("WriteTo")
	if _, ptr, rv := recvName(wr); ptr || rv != "v" {
		fatal(wr.Pos(), "unexpected receiver")
	}
	if _, ok := match(wr.Body.List, "return int64(v.TotalSize()), binary.Write(w, binary.LittleEndian, v)"); !ok ||
		render(wr.Type) != "func(w io.Writer) (int64, error)" {
		fatal(wr.Pos(), "unrecognised body of %s.WriteTo", t.Name)
	}
	rd := get("ReadFrom")
	_, ptr, rv := recvName(rd)
	if rv != "v" {
		fatal(rd.Pos(), "unexpected receiver")
	}
	if _, ok := match(rd.Body.List, "return int64(v.TotalSize()), binary.Read(r, binary.LittleEndian, v)"); !ok ||
		render(rd.Type) != "func(r io.Reader) (int64, error)" {
		fatal(rd.Pos(), "unrecognised body of %s.ReadFrom", t.Name)
	}
	return basicInfo{W: t.W, ReadPtr: ptr}
}

func checkAllBasicTypes() {
	for _, p := range pkgOrder {
		for recv, fds := range p.GenFuncPos {
			if recv == "" {
				continue
			}
			sp, ok := p.Types[recv]
			if !ok {
				fatal(fds[0].Pos(), "generated methods for undeclared type %s", recv)
			}
			if _, isStruct := sp.Type.(*ast.StructType); isStruct {
				continue
			}
			t := resolveNamed(p, recv, sp.Pos())
			if t.Kind != KInt {
				fatal(sp.Pos(), "generated methods for %s which is neither a struct nor a basic type", recv)
			}
			basicMethods(t, sp.Pos())
			for _, fd := range fds {
				switch fd.Name.Name {
				case "TotalSize", "WriteTo", "ReadFrom", "PrettyString":
				default:
					fatal(fd.Pos(), "unexpected generated method %s.%s", recv, fd.Name.Name)
				}
			}
		}
	}
}

func (s *Struct) subRef(f *Field, what string) string {
	return f.Sub.Coq() + "_" + what
}

func layoutPlain(st *Struct, pos token.Pos) {
	for _, f := range st.Fields {
		if f.Class != FCEndValue && f.Class != FCArrayStatic {
			fatal(pos, "binary.Read into %s which has a field that is not a fixed-width value", st.Name)
		}
	}
}

// field blocks of ReadFrom/ReadDataFrom
func (s *Struct) readBlocks(fd *ast.FuncDecl, blocks []ast.Stmt, fields []*Field, skipFirst bool) []string {
	file := fileOf(s.P, fd)
	var steps []string
	if len(blocks) != len(fields) {
		fatal(fd.Pos(), "%s.%s has %d field blocks, the declaration has %d fields", s.Name, fd.Name.Name, len(blocks), len(fields))
	}
	for i, bs := range blocks {
		f := fields[i]
		blk, ok := bs.(*ast.BlockStmt)
		if !ok {
			fatal(bs.Pos(), "expected a per-field block")
		}
		cn, cc, ok := blockComment(file, bs)
		if !ok || cn != f.Name || cc != classNames[f.Class] {
			fatal(bs.Pos(), "block comment (%q, %q) does not announce field %s of class %s", cn, cc, f.Name, classNames[f.Class])
		}
		errChk := fmt.Sprintf(`if err != nil { return totalN, fmt.Errorf("unable to read field '%s': %%w", err) }`, f.Name)
		L := blk.List
		if skipFirst && i == 0 {
			if f.Class != FCStructInfo || len(L) != 0 {
				fatal(bs.Pos(), "ReadDataFrom: first block must be the empty StructInfo block")
			}
			continue
		}
		switch f.Class {
		case FCEndValue:
			m, ok := match(L, "n, err := $N$, binary.Read(r, binary.LittleEndian, &s."+f.Name+")", errChk, "totalN += int64(n)")
			if !ok {
				fatal(bs.Pos(), "unrecognised read block for endValue field %s", f.Name)
			}
			steps = append(steps, fmt.Sprintf("RFixed %d %d %s", atoi(m["N"], bs.Pos()), f.T.W, q(f.Name)))
		case FCArrayStatic:
			m, ok := match(L, "n, err := $N$, binary.Read(r, binary.LittleEndian, s."+f.Name+"[:])", errChk, "totalN += int64(n)")
			if !ok {
				fatal(bs.Pos(), "unrecognised read block for arrayStatic field %s", f.Name)
			}
			steps = append(steps, fmt.Sprintf("RArray %d %d %s", atoi(m["N"], bs.Pos()), f.T.W, q(f.Name)))
		case FCSubStruct:
			if _, ok := match(L, "n, err := s."+f.Name+".ReadFrom(r)", errChk, "totalN += int64(n)"); !ok {
				fatal(bs.Pos(), "unrecognised read block for subStruct field %s", f.Name)
			}
			steps = append(steps, fmt.Sprintf("RSub %s %s", q(f.Name), s.subRef(f, "read")))
		case FCArrayDynamic:
			readIt := "n, err := len(s." + f.Name + "), binary.Read(r, binary.LittleEndian, s." + f.Name + ")"
			if cv, has := f.Tags["countValue"]; has {
				m, ok := match(L, "size := $T$(s.$E$)", "s."+f.Name+" = make([]byte, size)", readIt, errChk, "totalN += int64(n)")
				if !ok {
					fatal(bs.Pos(), "unrecognised read block for counted arrayDynamic field %s", f.Name)
				}
				cw := cwOf(m["T"], bs.Pos())
				e, err := parser.ParseExpr("s." + m["E"])
				if err != nil {
					fatal(bs.Pos(), "cannot parse count expression %q", m["E"])
				}
				_ = cv
				ce := countExprAt(s, file, "s", e, s.fieldIndex(f.Name), bs.Pos())
				steps = append(steps, fmt.Sprintf("RBytesCounted %d %s %s", cw, ce, q(f.Name)))
			} else {
				m, ok := match(L, "var size $T$", "err := binary.Read(r, binary.LittleEndian, &size)",
					fmt.Sprintf(`if err != nil { return totalN, fmt.Errorf("unable to the read size of field '%s': %%w", err) }`, f.Name),
					"totalN += int64(binary.Size(size))", "s."+f.Name+" = make([]byte, size)", readIt, errChk, "totalN += int64(n)")
				if !ok {
					fatal(bs.Pos(), "unrecognised read block for prefixed arrayDynamic field %s", f.Name)
				}
				steps = append(steps, fmt.Sprintf("RBytesPrefixed %d %s", cwOf(m["T"], bs.Pos()), q(f.Name)))
			}
		case FCList:
			m, ok := match(L, "var count $T$", "err := binary.Read(r, binary.LittleEndian, &count)",
				fmt.Sprintf(`if err != nil { return totalN, fmt.Errorf("unable to read the count for field '%s': %%w", err) }`, f.Name),
				"totalN += int64(binary.Size(count))", "s."+f.Name+" = make([]$T2$, count)",
				fmt.Sprintf(`for idx := range s.%s { n, err := s.%s[idx].ReadFrom(r) if err != nil { return totalN, fmt.Errorf("unable to read field '%s[%%d]': %%w", idx, err) } totalN += int64(n) }`, f.Name, f.Name, f.Name))
			if !ok {
				fatal(bs.Pos(), "unrecognised read block for list field %s", f.Name)
			}
			cw := cwOf(m["T"], bs.Pos())
			el := f.T.Elem
			if el.Kind == KStruct {
				if baseName(m["T2"]) != el.Name {
					fatal(bs.Pos(), "list %s is made of %s, declared item type is %s", f.Name, m["T2"], el.Name)
				}
				steps = append(steps, fmt.Sprintf("RList %d %s %s", cw, q(f.Name), s.subRef(f, "read")))
			} else {
				if baseName(m["T2"]) != el.Name {
					fatal(bs.Pos(), "list %s is made of %s, declared item type is %s", f.Name, m["T2"], el.Name)
				}
				bi := basicMethods(el, bs.Pos())
				if bi.ReadPtr {
					steps = append(steps, fmt.Sprintf("RListInt %d %d %s", cw, bi.W, q(f.Name)))
				} else {
					// s.F[idx].ReadFrom(r) copies the item into a value receiver and hands the copy to
					// binary.Read, which rejects a non-pointer: every non-empty list fails to read.
					steps = append(steps, fmt.Sprintf("RListIntByValue %d %d %s", cw, bi.W, q(f.Name)))
				}
			}
		default:
			fatal(bs.Pos(), "field class %s cannot occur in a plain structure", classNames[f.Class])
		}
	}
	return steps
}

func baseName(t string) string {
	if i := strings.LastIndex(t, "."); i >= 0 {
		return t[i+1:]
	}
	return t
}

func countExprAt(s *Struct, file *ast.File, recv string, e ast.Expr, idx int, pos token.Pos) string {
	return countExpr(s, file, recv, e, idx)
}

func (s *Struct) translatePlain() *SIR {
	ir := &SIR{}
	flds := s.Fields
	ir.IsElem = s.ID != ""

	// ---- ReadFrom / ReadDataFrom ----
	rf := s.method("ReadFrom")
	checkPtrRecv(rf, "s")
	checkSig(rf, "func(r io.Reader) (int64, error)")
	bodyOf := func(fd *ast.FuncDecl) []ast.Stmt {
		L := fd.Body.List
		if len(L) < 2 {
			fatal(fd.Pos(), "unrecognised body")
		}
		if _, ok := match(L[:1], "totalN := int64(0)"); !ok {
			fatal(L[0].Pos(), "expected totalN := int64(0)")
		}
		if _, ok := match(L[len(L)-1:], "return totalN, nil"); !ok {
			fatal(L[len(L)-1].Pos(), "expected return totalN, nil")
		}
		return L[1 : len(L)-1]
	}
	if ir.IsElem {
		if _, ok := match(rf.Body.List,
			"var totalN int64",
			"err := binary.Read(r, binary.LittleEndian, &s.StructInfo)",
			`if err != nil { return totalN, fmt.Errorf("unable to read structure info at %d: %w", totalN, err) }`,
			"totalN += int64(binary.Size(s.StructInfo))",
			"n, err := s.ReadDataFrom(r)",
			`if err != nil { return totalN, fmt.Errorf("unable to read data: %w", err) }`,
			"totalN += n",
			"return totalN, nil"); !ok {
			fatal(rf.Pos(), "unrecognised body of element %s.ReadFrom", s.Name)
		}
		layoutPlain(flds[0].Sub, rf.Pos())
		ir.HdrLayout = flds[0].Sub.Coq() + "_schema"
		rd := s.method("ReadDataFrom")
		checkPtrRecv(rd, "s")
		checkSig(rd, "func(r io.Reader) (int64, error)")
		ir.Read = append([]string{fmt.Sprintf("RStructRaw %s %s", q("StructInfo"), ir.HdrLayout)},
			s.readBlocks(rd, bodyOf(rd), flds, true)...)
		for _, n := range []string{"GetStructInfo", "SetStructInfo"} {
			fd := s.method(n)
			checkPtrRecv(fd, "s")
			if n == "GetStructInfo" {
				if _, ok := match(fd.Body.List, "return s.StructInfo"); !ok {
					fatal(fd.Pos(), "unrecognised body")
				}
			} else if _, ok := match(fd.Body.List, "s.StructInfo = newStructInfo"); !ok {
				fatal(fd.Pos(), "unrecognised body")
			}
		}
		if id, ok := s.P.GenConsts["StructureID"+s.Name]; !ok || id != s.ID {
			fatal(rf.Pos(), "generated constant StructureID%s = %q, the id tag says %q", s.Name, id, s.ID)
		}
	} else {
		if _, has := s.P.GenFuncs[s.Name+".ReadDataFrom"]; has {
			fatal(rf.Pos(), "%s has ReadDataFrom but no StructInfo id", s.Name)
		}
		ir.Read = s.readBlocks(rf, bodyOf(rf), flds, false)
	}

	// ---- WriteTo ----
	wt := s.method("WriteTo")
	checkPtrRecv(wt, "s")
	checkSig(wt, "func(w io.Writer) (int64, error)")
	{
		L := wt.Body.List
		if len(L) < 3 {
			fatal(wt.Pos(), "unrecognised body")
		}
		if _, ok := match(L[:2], "totalN := int64(0)", "s.Rehash()"); !ok {
			fatal(wt.Pos(), "WriteTo does not start with totalN := int64(0); s.Rehash()")
		}
		if _, ok := match(L[len(L)-1:], "return totalN, nil"); !ok {
			fatal(wt.Pos(), "expected return totalN, nil")
		}
		blocks := L[2 : len(L)-1]
		if len(blocks) != len(flds) {
			fatal(wt.Pos(), "%s.WriteTo has %d field blocks, the declaration has %d fields", s.Name, len(blocks), len(flds))
		}
		file := fileOf(s.P, wt)
		for i, bs := range blocks {
			f := flds[i]
			blk, ok := bs.(*ast.BlockStmt)
			if !ok {
				fatal(bs.Pos(), "expected a per-field block")
			}
			cn, cc, ok := blockComment(file, bs)
			if !ok || cn != f.Name || cc != classNames[f.Class] {
				fatal(bs.Pos(), "block comment (%q, %q) does not announce field %s of class %s", cn, cc, f.Name, classNames[f.Class])
			}
			errChk := fmt.Sprintf(`if err != nil { return totalN, fmt.Errorf("unable to write field '%s': %%w", err) }`, f.Name)
			Lb := blk.List
			switch f.Class {
			case FCEndValue:
				m, ok := match(Lb, "n, err := $N$, binary.Write(w, binary.LittleEndian, &s."+f.Name+")", errChk, "totalN += int64(n)")
				if !ok {
					fatal(bs.Pos(), "unrecognised write block for endValue field %s", f.Name)
				}
				ir.Write = append(ir.Write, fmt.Sprintf("WFixed %d %d %s", atoi(m["N"], bs.Pos()), f.T.W, q(f.Name)))
			case FCArrayStatic:
				m, ok := match(Lb, "n, err := $N$, binary.Write(w, binary.LittleEndian, s."+f.Name+"[:])", errChk, "totalN += int64(n)")
				if !ok {
					fatal(bs.Pos(), "unrecognised write block for arrayStatic field %s", f.Name)
				}
				ir.Write = append(ir.Write, fmt.Sprintf("WArray %d %d %s", atoi(m["N"], bs.Pos()), f.T.W, q(f.Name)))
			case FCSubStruct, FCStructInfo:
				if _, ok := match(Lb, "n, err := s."+f.Name+".WriteTo(w)", errChk, "totalN += int64(n)"); !ok {
					fatal(bs.Pos(), "unrecognised write block for sub-structure field %s", f.Name)
				}
				ir.Write = append(ir.Write, fmt.Sprintf("WSub %s %s", q(f.Name), s.subRef(f, "write")))
			case FCArrayDynamic:
				writeIt := "n, err := len(s." + f.Name + "), binary.Write(w, binary.LittleEndian, s." + f.Name + ")"
				if _, has := f.Tags["countValue"]; has {
					if _, ok := match(Lb, writeIt, errChk, "totalN += int64(n)"); !ok {
						fatal(bs.Pos(), "unrecognised write block for counted arrayDynamic field %s", f.Name)
					}
					ir.Write = append(ir.Write, fmt.Sprintf("WBytesRaw %s", q(f.Name)))
				} else {
					m, ok := match(Lb, "size := $T$(len(s."+f.Name+"))", "err := binary.Write(w, binary.LittleEndian, size)",
						fmt.Sprintf(`if err != nil { return totalN, fmt.Errorf("unable to write the size of field '%s': %%w", err) }`, f.Name),
						"totalN += int64(binary.Size(size))", writeIt, errChk, "totalN += int64(n)")
					if !ok {
						fatal(bs.Pos(), "unrecognised write block for prefixed arrayDynamic field %s", f.Name)
					}
					ir.Write = append(ir.Write, fmt.Sprintf("WBytesPrefixed %d %s", cwOf(m["T"], bs.Pos()), q(f.Name)))
				}
			case FCList:
				m, ok := match(Lb, "count := $T$(len(s."+f.Name+"))", "err := binary.Write(w, binary.LittleEndian, &count)",
					fmt.Sprintf(`if err != nil { return totalN, fmt.Errorf("unable to write the count for field '%s': %%w", err) }`, f.Name),
					"totalN += int64(binary.Size(count))",
					fmt.Sprintf(`for idx := range s.%s { n, err := s.%s[idx].WriteTo(w) if err != nil { return totalN, fmt.Errorf("unable to write field '%s[%%d]': %%w", idx, err) } totalN += int64(n) }`, f.Name, f.Name, f.Name))
				if !ok {
					fatal(bs.Pos(), "unrecognised write block for list field %s", f.Name)
				}
				cw := cwOf(m["T"], bs.Pos())
				if f.T.Elem.Kind == KStruct {
					ir.Write = append(ir.Write, fmt.Sprintf("WList %d %s %s", cw, q(f.Name), s.subRef(f, "write")))
				} else {
					bi := basicMethods(f.T.Elem, bs.Pos())
					ir.Write = append(ir.Write, fmt.Sprintf("WListInt %d %d %s", cw, bi.W, q(f.Name)))
				}
			default:
				fatal(bs.Pos(), "field class %s cannot occur in a plain structure", classNames[f.Class])
			}
		}
	}

	// ---- <F>TotalSize, <F>Offset, TotalSize ----
	s.sizesOffsets(ir)

	// ---- Rehash ----
	rh := s.method("Rehash")
	checkPtrRecv(rh, "s")
	checkSig(rh, "func()")
	for _, st := range rh.Body.List {
		ir.Rehash = append(ir.Rehash, s.rehashAssign(render(st), st.Pos()))
	}
	s.checkOtherMethods()
	return ir
}

func (s *Struct) sizesOffsets(ir *SIR) {
	flds := s.Fields
	for i, f := range flds {
		fd := s.method(f.Name + "TotalSize")
		checkPtrRecv(fd, "s")
		checkSig(fd, "func() uint64")
		L := fd.Body.List
		var st string
		switch f.Class {
		case FCEndValue, FCArrayStatic:
			m, ok := match(L, "return $N$")
			if !ok {
				fatal(fd.Pos(), "unrecognised body of %s", fd.Name.Name)
			}
			st = fmt.Sprintf("ZConst %d", atoi(m["N"], fd.Pos()))
		case FCSubStruct, FCStructInfo, FCElement:
			if _, ok := match(L, "return s."+f.Name+".TotalSize()"); !ok {
				fatal(fd.Pos(), "unrecognised body of %s", fd.Name.Name)
			}
			st = fmt.Sprintf("ZSub %s", s.subRef(f, "sizes"))
		case FCList, FCElementList:
			loop := fmt.Sprintf("for idx := range s.%s { size += s.%s[idx].TotalSize() }", f.Name, f.Name)
			cw := "None"
			if m, ok := match(L, "var size uint64", "size += uint64(binary.Size($T$(0)))", loop, "return size"); ok {
				cw = fmt.Sprintf("(Some %d%%nat)", cwOf(m["T"], fd.Pos()))
			} else if _, ok := match(L, "var size uint64", loop, "return size"); !ok {
				fatal(fd.Pos(), "unrecognised body of %s", fd.Name.Name)
			}
			if f.T.Elem.Kind == KStruct {
				st = fmt.Sprintf("ZList %s %s", cw, s.subRef(f, "sizes"))
			} else {
				bi := basicMethods(f.T.Elem, fd.Pos())
				st = fmt.Sprintf("ZListInt %s %d", cw, bi.W)
			}
		case FCArrayDynamic:
			if m, ok := match(L, "size := uint64(binary.Size($T$(0)))", "size += uint64(len(s."+f.Name+"))", "return size"); ok {
				st = fmt.Sprintf("ZBytes (Some %d%%nat)", cwOf(m["T"], fd.Pos()))
			} else if _, ok := match(L, "return uint64(len(s."+f.Name+"))"); ok {
				st = "ZBytes None"
			} else {
				fatal(fd.Pos(), "unrecognised body of %s", fd.Name.Name)
			}
		}
		ir.Sizes = append(ir.Sizes, fmt.Sprintf("%s (%s)", q(f.Name), st))

		od := s.method(f.Name + "Offset")
		checkPtrRecv(od, "s")
		checkSig(od, "func() uint64")
		if _, ok := match(od.Body.List, "return 0"); ok {
			ir.Offsets = append(ir.Offsets, fmt.Sprintf("(%s, None)", q(f.Name)))
		} else if m, ok := match(od.Body.List, "return s.$F$Offset() + s.$F$TotalSize()"); ok {
			ir.Offsets = append(ir.Offsets, fmt.Sprintf("(%s, Some %s)", q(f.Name), q(m["F"])))
		} else {
			fatal(od.Pos(), "unrecognised body of %s", od.Name.Name)
		}
		_ = i
	}
	ts := s.method("TotalSize")
	checkPtrRecv(ts, "s")
	checkSig(ts, "func() uint64")
	L := ts.Body.List
	if len(L) < 3 {
		fatal(ts.Pos(), "unrecognised body of TotalSize")
	}
	if _, ok := match(L[:2], "if s == nil { return 0 }", "var size uint64"); !ok {
		fatal(ts.Pos(), "unrecognised body of TotalSize")
	}
	if _, ok := match(L[len(L)-1:], "return size"); !ok {
		fatal(ts.Pos(), "unrecognised body of TotalSize")
	}
	for _, st := range L[2 : len(L)-1] {
		m, ok := match([]ast.Stmt{st}, "size += s.$F$TotalSize()")
		if !ok {
			fatal(st.Pos(), "unrecognised statement in TotalSize")
		}
		ir.Total = append(ir.Total, q(m["F"]))
	}
}

// s.<lhs> = <rhs> of Rehash()  ->  mkRh path width expr
func (s *Struct) rehashAssign(txt string, pos token.Pos) string {
	m, ok := matchStr(txt, "s.$F$ = $E$")
	if !ok {
		fatal(pos, "unrecognised statement in Rehash: %s", txt)
	}
	path, w := s.lhsPath(m["F"], pos)
	return fmt.Sprintf("mkRh %s %d %s", path, w, s.rexpr(m["E"], w, pos))
}

func (s *Struct) lhsPath(name string, pos token.Pos) (string, int) {
	if i := s.fieldIndex(name); i >= 0 {
		f := s.Fields[i]
		if f.Class != FCEndValue {
			fatal(pos, "Rehash assigns non-integer field %s", name)
		}
		return fmt.Sprintf("[%d%%nat]", i), f.T.W
	}
	// promoted field of the embedded StructInfo
	if len(s.Fields) > 0 && s.Fields[0].Class == FCStructInfo {
		si := s.Fields[0].Sub
		if j := si.fieldIndex(name); j >= 0 {
			f := si.Fields[j]
			if f.Class != FCEndValue {
				fatal(pos, "Rehash assigns non-integer field StructInfo.%s", name)
			}
			return fmt.Sprintf("[0%%nat; %d%%nat]", j), f.T.W
		}
	}
	fatal(pos, "Rehash assigns unknown field %s", name)
	return "", 0
}

// right-hand sides: N | uintW(s.TotalSize()) | T(s.TotalSize()) | T(s.<F>Offset())
func (s *Struct) rexpr(e string, w int, pos token.Pos) string {
	if m, ok := matchStr(e, "$N$"); ok {
		return fmt.Sprintf("(XConst %d)", atoi(m["N"], pos))
	}
	conv := func(t string) {
		tw, ok := builtinInts[t]
		if !ok {
			ti := resolveNamed(s.P, t, pos)
			if ti.Kind != KInt {
				fatal(pos, "Rehash: conversion to non-integer %s", t)
			}
			tw = ti.W
		}
		if tw != w {
			fatal(pos, "Rehash: conversion to %s (%d bytes) assigned to a %d-byte field", t, tw, w)
		}
	}
	if m, ok := matchStr(e, "$T$(s.TotalSize())"); ok {
		conv(m["T"])
		return "XTotalSize"
	}
	if m, ok := matchStr(e, "$T$(s.$F$Offset())"); ok {
		conv(m["T"])
		i := s.fieldIndex(m["F"])
		if i < 0 {
			fatal(pos, "Rehash: offset of unknown field %s", m["F"])
		}
		return fmt.Sprintf("(XOffsetOf %d)", i)
	}
	fatal(pos, "Rehash: unrecognised right-hand side %q", e)
	return ""
}

// the rehash the TAGS prescribe (what the template makes of them)
func (s *Struct) schemaRehash() []string {
	var r []string
	pos := token.NoPos
	if len(s.Fields) > 0 {
		pos = s.Fields[0].Pos
	}
	if s.Var0 != "" {
		r = append(r, s.rehashAssign("s.Variable0 = "+s.Var0, pos))
	}
	if s.Var1 != "" {
		r = append(r, s.rehashAssign("s.ElementSize = "+s.Var1, pos))
	}
	for _, f := range s.Fields {
		if rv, ok := f.Tags["rehashValue"]; ok {
			if f.Class != FCEndValue {
				fatal(f.Pos, "rehashValue on non-integer field %s of a plain structure", f.Name)
			}
			tn := fmt.Sprintf("uint%d", 8*f.T.W)
			if f.T.Named {
				tn = f.T.Name
			}
			r = append(r, s.rehashAssign(fmt.Sprintf("s.%s = %s(s.%s)", f.Name, tn, rv), f.Pos))
		}
	}
	return r
}

// methods that are not translated (listed in the header of the Gen file)
var untranslated = map[string]bool{"Validate": true, "RehashRecursive": true, "PrettyString": true}

func (s *Struct) checkOtherMethods() {
	want := map[string]bool{"ReadFrom": true, "WriteTo": true, "TotalSize": true, "Rehash": true}
	for _, f := range s.Fields {
		want[f.Name+"TotalSize"] = true
		want[f.Name+"Offset"] = true
	}
	if s.ID != "" && !s.IsCont {
		want["ReadDataFrom"], want["GetStructInfo"], want["SetStructInfo"] = true, true, true
	}
	if s.ID != "" && s.IsCont {
		fatal(token.NoPos, "%s is both an element and a container", s.Name)
	}
	if s.IsCont {
		want["fieldIndexByStructID"], want["fieldNameByIndex"] = true, true
	}
	for _, fd := range s.P.GenFuncPos[s.Name] {
		n := fd.Name.Name
		if want[n] {
			continue
		}
		if untranslated[n] {
			continue
		}
		fatal(fd.Pos(), "unexpected generated method %s.%s", s.Name, n)
	}
	for n := range untranslated {
		if _, ok := s.P.GenFuncs[s.Name+"."+n]; !ok {
			fatal(token.NoPos, "generated method %s.%s is missing", s.Name, n)
		}
	}
	if _, ok := s.P.GenFuncs["New"+s.Name]; !ok {
		fatal(token.NoPos, "generated constructor New%s is missing", s.Name)
	}
}
