// translate-c15 regenerates coq/Gen/ManifestCodecs.v from the Go source of
// pkg/intel/metadata/{bg,cbnt}/**: for every structure with a generated codec
// (a) the schema of its hand-written declaration + tags and (b) the IR of what
// the bodies of the generated methods do.  Only go/parser, go/ast, go/token and
// go/printer are used (no type checker).  Any declaration, tag or statement
// shape that is not one of the shapes the generator template emits is a fatal
// error: nothing is ever skipped silently.
//
// usage: translate-c15 <repo> <out.v>
package main

import (
	"fmt"
	"go/ast"
	"go/parser"
	"go/token"
	"os"
	"path/filepath"
	"sort"
	"strconv"
	"strings"
)

const metaRel = "pkg/intel/metadata"
const modPath = "github.com/linuxboot/fiano"

var fset = token.NewFileSet()

func fatal(pos token.Pos, format string, args ...interface{}) {
	where := ""
	if pos.IsValid() {
		where = fset.Position(pos).String() + ": "
	}
	fmt.Fprintf(os.Stderr, "translate-c15: %s%s\n", where, fmt.Sprintf(format, args...))
	os.Exit(1)
}

// ---------- packages ----------

type Pkg struct {
	Dir        string // absolute
	ImportPath string
	Prefix     string // Coq identifier prefix
	Hand       []*ast.File
	Gen        []*ast.File
	Types      map[string]*ast.TypeSpec
	TypeFile   map[string]*ast.File
	Consts     map[string]ast.Expr        // package-level constants with a literal value
	ConstTypes map[string]ast.Expr        // their declared types
	ConstFile  map[string]*ast.File
	HandFuncs  map[string]*ast.FuncDecl   // "Recv.Name" / "Name"
	GenFuncs   map[string]*ast.FuncDecl   // generated
	GenConsts  map[string]string          // generated string constants (StructureIDxxx)
	GenFuncPos map[string][]*ast.FuncDecl // receiver type -> methods in file order
	Comments   map[*ast.File]ast.CommentMap
}

var pkgs = map[string]*Pkg{} // by import path
var pkgOrder []*Pkg

func recvName(fd *ast.FuncDecl) (typ string, ptr bool, varName string) {
	if fd.Recv == nil || len(fd.Recv.List) != 1 {
		return "", false, ""
	}
	f := fd.Recv.List[0]
	if len(f.Names) == 1 {
		varName = f.Names[0].Name
	}
	switch t := f.Type.(type) {
	case *ast.Ident:
		return t.Name, false, varName
	case *ast.StarExpr:
		if id, ok := t.X.(*ast.Ident); ok {
			return id.Name, true, varName
		}
	}
	fatal(fd.Pos(), "unsupported receiver")
	return
}

func funcKey(fd *ast.FuncDecl) string {
	t, _, _ := recvName(fd)
	if t == "" {
		return fd.Name.Name
	}
	return t + "." + fd.Name.Name
}

func loadPkg(repo, rel string) *Pkg {
	dir := filepath.Join(repo, rel)
	p := &Pkg{Dir: dir, ImportPath: modPath + "/" + rel,
		Types: map[string]*ast.TypeSpec{}, TypeFile: map[string]*ast.File{}, Consts: map[string]ast.Expr{},
		ConstTypes: map[string]ast.Expr{}, ConstFile: map[string]*ast.File{},
		HandFuncs: map[string]*ast.FuncDecl{}, GenFuncs: map[string]*ast.FuncDecl{}, GenConsts: map[string]string{},
		GenFuncPos: map[string][]*ast.FuncDecl{}, Comments: map[*ast.File]ast.CommentMap{}}
	sub := strings.TrimPrefix(rel, metaRel+"/")
	p.Prefix = strings.NewReplacer("/", "_", "-", "_").Replace(sub)
	ents, err := os.ReadDir(dir)
	if err != nil {
		fatal(token.NoPos, "%v", err)
	}
	for _, e := range ents {
		n := e.Name()
		if e.IsDir() || !strings.HasSuffix(n, ".go") || strings.HasSuffix(n, "_test.go") {
			continue
		}
		f, err := parser.ParseFile(fset, filepath.Join(dir, n), nil, parser.ParseComments)
		if err != nil {
			fatal(token.NoPos, "%v", err)
		}
		gen := strings.HasSuffix(n, "_manifestcodegen.go")
		if gen {
			p.Gen = append(p.Gen, f)
		} else {
			p.Hand = append(p.Hand, f)
		}
		for _, d := range f.Decls {
			switch d := d.(type) {
			case *ast.FuncDecl:
				k := funcKey(d)
				if gen {
					if _, dup := p.GenFuncs[k]; dup {
						fatal(d.Pos(), "duplicate generated function %s", k)
					}
					p.GenFuncs[k] = d
					t, _, _ := recvName(d)
					p.GenFuncPos[t] = append(p.GenFuncPos[t], d)
				} else {
					p.HandFuncs[k] = d
				}
			case *ast.GenDecl:
				for _, sp := range d.Specs {
					switch sp := sp.(type) {
					case *ast.TypeSpec:
						if gen {
							fatal(sp.Pos(), "generated file declares a type")
						}
						p.Types[sp.Name.Name] = sp
						p.TypeFile[sp.Name.Name] = f
					case *ast.ValueSpec:
						if d.Tok == token.CONST {
							for i, nm := range sp.Names {
								if i < len(sp.Values) {
									if gen {
										bl, ok := sp.Values[i].(*ast.BasicLit)
										if !ok || bl.Kind != token.STRING {
											fatal(sp.Pos(), "generated constant %s is not a string literal", nm.Name)
										}
										s, _ := strconv.Unquote(bl.Value)
										p.GenConsts[nm.Name] = s
									} else {
										p.Consts[nm.Name] = sp.Values[i]
										p.ConstTypes[nm.Name] = sp.Type
										p.ConstFile[nm.Name] = f
									}
								}
							}
						} else if gen {
							// the generated "var ( _ = binary.LittleEndian ... )" block only
							for _, nm := range sp.Names {
								if nm.Name != "_" {
									fatal(sp.Pos(), "generated file declares variable %s", nm.Name)
								}
							}
						}
					}
				}
			}
		}
	}
	return p
}

func discover(repo string) {
	var rels []string
	for _, top := range []string{"bg", "cbnt"} {
		root := filepath.Join(repo, metaRel, top)
		_ = filepath.Walk(root, func(path string, info os.FileInfo, err error) error {
			if err != nil {
				fatal(token.NoPos, "%v", err)
			}
			if !info.IsDir() && strings.HasSuffix(path, "_manifestcodegen.go") {
				rel, _ := filepath.Rel(repo, filepath.Dir(path))
				rels = append(rels, rel)
			}
			return nil
		})
	}
	sort.Strings(rels)
	last := ""
	for _, r := range rels {
		if r == last {
			continue
		}
		last = r
		p := loadPkg(repo, r)
		pkgs[p.ImportPath] = p
		pkgOrder = append(pkgOrder, p)
	}
	if len(pkgOrder) == 0 {
		fatal(token.NoPos, "no *_manifestcodegen.go found under %s", filepath.Join(repo, metaRel))
	}
}

// ---------- types ----------

type Kind int

const (
	KInt Kind = iota
	KArr
	KBytes
	KStruct
	KSlice
	KPtr
)

type TInfo struct {
	Kind  Kind
	W     int    // KInt: width in bytes; KArr: length
	Pkg   *Pkg   // KStruct, or named basic type
	Name  string // KStruct / named basic type / named array
	Elem  *TInfo
	Named bool
}

var builtinInts = map[string]int{"uint8": 1, "byte": 1, "uint16": 2, "uint32": 4, "uint64": 8}

func importedPkg(f *ast.File, name string, pos token.Pos) *Pkg {
	for _, im := range f.Imports {
		path, _ := strconv.Unquote(im.Path.Value)
		local := filepath.Base(path)
		if im.Name != nil {
			local = im.Name.Name
		}
		if local == name {
			p, ok := pkgs[path]
			if !ok {
				fatal(pos, "type from package %s which has no generated codecs", path)
			}
			return p
		}
	}
	fatal(pos, "unknown package qualifier %s", name)
	return nil
}

func resolveNamed(p *Pkg, name string, pos token.Pos) *TInfo {
	sp, ok := p.Types[name]
	if !ok {
		fatal(pos, "unknown type %s in %s", name, p.ImportPath)
	}
	f := p.TypeFile[name]
	if _, isStruct := sp.Type.(*ast.StructType); isStruct && !sp.Assign.IsValid() {
		return &TInfo{Kind: KStruct, Pkg: p, Name: name, Named: true}
	}
	t := resolve(p, f, sp.Type)
	if sp.Assign.IsValid() { // alias
		return t
	}
	c := *t
	c.Named = true
	if c.Kind != KStruct {
		c.Pkg, c.Name = p, name
	}
	return &c
}

func resolve(p *Pkg, f *ast.File, e ast.Expr) *TInfo {
	switch e := e.(type) {
	case *ast.Ident:
		if w, ok := builtinInts[e.Name]; ok {
			return &TInfo{Kind: KInt, W: w}
		}
		return resolveNamed(p, e.Name, e.Pos())
	case *ast.SelectorExpr:
		x, ok := e.X.(*ast.Ident)
		if !ok {
			fatal(e.Pos(), "unsupported type expression")
		}
		return resolveNamed(importedPkg(f, x.Name, e.Pos()), e.Sel.Name, e.Pos())
	case *ast.StarExpr:
		return &TInfo{Kind: KPtr, Elem: resolve(p, f, e.X)}
	case *ast.ArrayType:
		el := resolve(p, f, e.Elt)
		if e.Len == nil {
			if el.Kind == KInt && el.W == 1 && !el.Named {
				return &TInfo{Kind: KBytes}
			}
			return &TInfo{Kind: KSlice, Elem: el}
		}
		bl, ok := e.Len.(*ast.BasicLit)
		if !ok || bl.Kind != token.INT {
			fatal(e.Pos(), "array length is not a literal")
		}
		n, _ := strconv.ParseInt(bl.Value, 0, 32)
		if el.Kind != KInt || el.W != 1 {
			fatal(e.Pos(), "static array, but not of bytes")
		}
		return &TInfo{Kind: KArr, W: int(n)}
	}
	fatal(e.Pos(), "unsupported type expression %T", e)
	return nil
}

// ---------- struct declarations ----------

type FieldClass int

const (
	FCEndValue FieldClass = iota
	FCArrayStatic
	FCArrayDynamic
	FCList
	FCSubStruct
	FCStructInfo
	FCElement
	FCElementList
)

var classNames = map[FieldClass]string{FCEndValue: "endValue", FCArrayStatic: "arrayStatic", FCArrayDynamic: "arrayDynamic",
	FCList: "list", FCSubStruct: "subStruct", FCStructInfo: "structInfo", FCElement: "element", FCElementList: "elementList"}

type Field struct {
	Name  string
	T     *TInfo
	Tags  map[string]string
	Class FieldClass
	Ptr   bool
	Pos   token.Pos
	Sub   *Struct // struct / item struct
	CW    int     // count type width
}

type Struct struct {
	P        *Pkg
	Name     string
	Fields   []*Field
	ID       string // element structure ID ("" if not an element)
	Version  string
	Var0     string
	Var1     string
	IsCont   bool
	emitted  bool
	building bool
}

func (s *Struct) Coq() string { return s.P.Prefix + "_" + s.Name }

var structs = map[string]*Struct{} // key: importpath + "." + name

var knownTags = map[string]bool{"id": true, "version": true, "var0": true, "var1": true, "countType": true,
	"countValue": true, "require": true, "default": true, "rehashValue": true, "prettyValue": true, "json": true}

func parseTags(lit *ast.BasicLit) map[string]string {
	res := map[string]string{}
	if lit == nil {
		return res
	}
	raw, err := strconv.Unquote(lit.Value)
	if err != nil {
		fatal(lit.Pos(), "bad tag literal")
	}
	s := strings.TrimSpace(raw)
	for s != "" {
		i := strings.Index(s, ":\"")
		if i <= 0 {
			fatal(lit.Pos(), "malformed struct tag %q", raw)
		}
		key := strings.TrimSpace(s[:i])
		rest := s[i+1:]
		// find the closing quote of a Go-quoted string
		j := 1
		for j < len(rest) && rest[j] != '"' {
			if rest[j] == '\\' {
				j++
			}
			j++
		}
		if j >= len(rest) {
			fatal(lit.Pos(), "malformed struct tag %q", raw)
		}
		val, err := strconv.Unquote(rest[:j+1])
		if err != nil {
			fatal(lit.Pos(), "malformed struct tag %q", raw)
		}
		if !knownTags[key] {
			fatal(lit.Pos(), "unknown struct tag key %q (the translator does not know what the generator does with it)", key)
		}
		if _, dup := res[key]; dup {
			fatal(lit.Pos(), "duplicate tag key %q", key)
		}
		res[key] = val
		s = strings.TrimSpace(rest[j+1:])
	}
	return res
}

func typeBaseName(e ast.Expr) string {
	switch e := e.(type) {
	case *ast.Ident:
		return e.Name
	case *ast.SelectorExpr:
		return e.Sel.Name
	case *ast.StarExpr:
		return typeBaseName(e.X)
	}
	fatal(e.Pos(), "unsupported embedded field")
	return ""
}

func getStruct(p *Pkg, name string, pos token.Pos) *Struct {
	key := p.ImportPath + "." + name
	if s, ok := structs[key]; ok {
		if s.building {
			fatal(pos, "recursive structure %s", name)
		}
		return s
	}
	sp, ok := p.Types[name]
	if !ok {
		fatal(pos, "no declaration of structure %s in %s", name, p.ImportPath)
	}
	st, ok := sp.Type.(*ast.StructType)
	if !ok {
		fatal(sp.Pos(), "%s is not a struct", name)
	}
	s := &Struct{P: p, Name: name, building: true}
	structs[key] = s
	f := p.TypeFile[name]
	for _, fl := range st.Fields.List {
		tags := parseTags(fl.Tag)
		names := []string{}
		for _, n := range fl.Names {
			names = append(names, n.Name)
		}
		if len(names) == 0 {
			names = []string{typeBaseName(fl.Type)}
		}
		for _, n := range names {
			if n == "_" {
				fatal(fl.Pos(), "blank field")
			}
			fd := &Field{Name: n, T: resolve(p, f, fl.Type), Tags: tags, Pos: fl.Pos()}
			s.Fields = append(s.Fields, fd)
		}
	}
	// classify
	for _, fd := range s.Fields {
		t := fd.T
		if t.Kind == KPtr {
			fd.Ptr = true
			t = t.Elem
			if t.Kind != KStruct {
				fatal(fd.Pos, "pointer to a non-struct")
			}
		}
		fd.CW = 2
		if ct, ok := fd.Tags["countType"]; ok {
			w, ok := builtinInts[ct]
			if !ok {
				fatal(fd.Pos, "unsupported countType %q", ct)
			}
			fd.CW = w
		}
		switch t.Kind {
		case KInt:
			fd.Class = FCEndValue
		case KArr:
			fd.Class = FCArrayStatic
		case KBytes:
			fd.Class = FCArrayDynamic
		case KSlice:
			switch t.Elem.Kind {
			case KStruct:
				fd.Sub = getStruct(t.Elem.Pkg, t.Elem.Name, fd.Pos)
				if fd.Sub.ID != "" || fd.Sub.hasStructInfo() {
					fd.Class = FCElementList
				} else {
					fd.Class = FCList
				}
			case KInt:
				if !t.Elem.Named {
					fatal(fd.Pos, "list of an unnamed basic type (no ReadFrom/WriteTo methods)")
				}
				fd.Class = FCList
			default:
				fatal(fd.Pos, "unsupported list item type")
			}
		case KStruct:
			fd.Sub = getStruct(t.Pkg, t.Name, fd.Pos)
			if t.Name == "StructInfo" {
				fd.Class = FCStructInfo
			} else if fd.Sub.hasStructInfo() {
				fd.Class = FCElement
			} else {
				fd.Class = FCSubStruct
			}
		default:
			fatal(fd.Pos, "unsupported field type")
		}
		if fd.Ptr && fd.Class != FCElement {
			fatal(fd.Pos, "pointer field that is not an element of a container")
		}
		for _, k := range []string{"id", "version", "var0", "var1"} {
			if _, ok := fd.Tags[k]; ok && fd.Class != FCStructInfo {
				fatal(fd.Pos, "tag %q on a field that is not the StructInfo", k)
			}
		}
		if _, ok := fd.Tags["countValue"]; ok && fd.Class != FCArrayDynamic {
			fatal(fd.Pos, "countValue on a field that is not a dynamic byte array")
		}
		if _, ok := fd.Tags["countType"]; ok && fd.Class != FCArrayDynamic && fd.Class != FCList {
			fatal(fd.Pos, "countType on a field that has no count")
		}
		if fd.Class == FCStructInfo {
			s.ID, s.Version, s.Var0, s.Var1 = fd.Tags["id"], fd.Tags["version"], fd.Tags["var0"], fd.Tags["var1"]
			if fd != s.Fields[0] {
				fatal(fd.Pos, "StructInfo is not the first field")
			}
		}
		if fd.Class == FCElement || fd.Class == FCElementList {
			s.IsCont = true
		}
	}
	if s.IsCont {
		for _, fd := range s.Fields {
			if fd.Class != FCElement && fd.Class != FCElementList {
				fatal(fd.Pos, "container %s mixes elements and plain fields", name)
			}
			if fd.Sub.ID == "" {
				fatal(fd.Pos, "element %s has no id tag", fd.Sub.Name)
			}
		}
	}
	s.building = false
	return s
}

func (s *Struct) hasStructInfo() bool {
	for _, f := range s.Fields {
		if f.Class == FCStructInfo || (f.T.Kind == KStruct && f.T.Name == "StructInfo") {
			return true
		}
	}
	return false
}

func (s *Struct) fieldIndex(name string) int {
	for i, f := range s.Fields {
		if f.Name == name {
			return i
		}
	}
	return -1
}

// ---------- main ----------

func main() {
	if len(os.Args) != 3 {
		fmt.Fprintln(os.Stderr, "usage: translate-c15 <repo> <out.v>")
		os.Exit(2)
	}
	discover(os.Args[1])
	out := translateAll()
	old, _ := os.ReadFile(os.Args[2])
	if string(old) != out {
		if err := os.WriteFile(os.Args[2], []byte(out), 0o644); err != nil {
			fatal(token.NoPos, "%v", err)
		}
	}
}
