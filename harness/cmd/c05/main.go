// c05: UEFI parsing is total. Generators: boundary-value substitution of every header field of
// generated valid images, random mutations, and the repository's historical fuzz corpus.
package main

import (
	"os"
	"time"

	. "verifharness/common"
	"verifharness/uefigen"
	"verifharness/uefiops"
)

func gen(r *Rng, tier string, emit Emit) {
	n := 7
	maxCorpus := 2048
	modelMax := 6000
	if tier == "thorough" {
		n = 1500
		maxCorpus = 1 << 20
	}
	repo := os.Getenv("VERIF_REPO_PATH")
	if repo == "" {
		repo = "/repo"
	}
	// historical inputs first
	sel := r.U64() % 4
	for i, b := range uefigen.HistoricalCorpus(repo, maxCorpus) {
		if tier != "thorough" && (uint64(i)+sel)%4 != 0 {
			continue // quick: a seed-dependent quarter of the historical inputs
		}
		x := "-"
		if i%4 == 0 {
			x = "x" // also run the extract visitor (file-system heavy)
		}
		emit("P", "p_total", H(b), x)
		if len(b) <= modelMax && len(b) > 0 {
			emit("C", "saveclass", H(b))
		}
	}
	// ME flash partition tables: valid seeds and boundary values of every header field
	for it := 0; it < 6; it++ {
		rr := r.Fork(uint64(1000 + it))
		me, fields := uefigen.GenMEFPT(rr, rr.Pick(0, 1, 3, 12))
		emit("P", "p_total", H(me), "-")
		for _, f := range fields {
			for _, v := range uefigen.BoundaryValues(f) {
				emit("P", "p_total", H(uefigen.Mutate(me, f, v)), "-")
			}
		}
	}
	for it := 0; it < n; it++ {
		rr := r.Fork(uint64(it))
		o := uefigen.Opts{MaxDepth: rr.Pick(0, 1, 2), Strings: true, Alignments: rr.Bool(), BigBodies: false}
		reg := uefigen.GenRegion(rr, o)
		img, fields := uefigen.EmitRegion(reg)
		if len(img) > modelMax {
			continue
		}
		emit("P", "p_total", H(img))
		for _, f := range fields {
			for _, v := range uefigen.BoundaryValues(f) {
				m := uefigen.Mutate(img, f, v)
				emit("P", "p_total", H(m), "x")
				emit("C", "saveclass", H(m))
			}
		}
		// random byte flips and truncations
		for k := 0; k < 10; k++ {
			m := append([]byte{}, img...)
			for j := rr.Range(1, 4); j > 0; j-- {
				m[rr.Intn(len(m))] = byte(rr.Pick(0, 0xFF, rr.Intn(256)))
			}
			if rr.Chance(1, 3) {
				m = m[:rr.Intn(len(m)+1)]
			}
			emit("P", "p_total", H(m))
			emit("C", "saveclass", H(m))
		}
	}
}

func main() {
	CaseTimeout = 5 * time.Second
	MemLimit = 2 << 30
	uefiops.RegisterAll()
	Main(gen)
}
