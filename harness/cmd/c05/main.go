// c05: UEFI parsing is total. Generators: boundary-value substitution of every header field of
// generated valid images, random mutations, and the repository's historical fuzz corpus.
package main

import (
	"bytes"
	"encoding/binary"
	"fmt"
	"os"
	"time"

	"github.com/linuxboot/fiano/pkg/compression"
	"github.com/linuxboot/fiano/pkg/guid"
	"github.com/linuxboot/fiano/pkg/uefi"
	. "verifharness/common"
	"verifharness/nvargen"
	"verifharness/uefigen"
	"verifharness/uefiops"
)

// ---- p_bounded: the "time and memory bounded by the input size plus the data it actually
// decompresses" clause of C05, independent of the wall clock.
//
// Every node of a tree that parsing returns owns bytes of its own: a section at least its 4-byte
// header, a file 24, a volume 64, an NVAR entry 10, an ME partition entry 32, a padding at least
// one byte between two volumes of 64; and by C04 the children of a node tile (a part of) their
// parent without overlap, the children of a compressed section tiling its decoded payload.  Hence
//
//	nodes <= (len(input) + decoded bytes) / 4 + 2        (+2: the root and rounding)
//
// for every accepted input.  A parser that hands a child more bytes than its parent owns (so that
// siblings are parsed twice) breaks this bound exponentially long before the watchdog notices.

type nodeCounter struct {
	n, limit int
	decoded  int
}

func (c *nodeCounter) Run(f uefi.Firmware) error { return f.Apply(c) }
func (c *nodeCounter) Visit(f uefi.Firmware) error {
	c.n++
	if c.n > c.limit {
		return fmt.Errorf("too many nodes")
	}
	if s, ok := f.(*uefi.Section); ok && s.TypeSpecific != nil {
		if gd, ok := s.TypeSpecific.Header.(*uefi.SectionGUIDDefined); ok && gd.Compression != "" && gd.Compression != "UNKNOWN" {
			for _, e := range s.Encapsulated {
				c.decoded += (len(e.Value.Buf()) + 3) &^ 3
			}
		}
	}
	return f.ApplyChildren(c)
}

func PBounded(args []string) string {
	img := UnH(args[0])
	uefiops.Reset()
	root, err := uefi.Parse(img)
	if err != nil {
		return "ok" // an error is a bounded answer
	}
	// first pass: decoded bytes (bounded walk: stop as soon as even a generous bound is exceeded)
	c := &nodeCounter{limit: 4*len(img) + 1024}
	if err := c.Run(root); err != nil && c.n <= c.limit {
		return "skip"
	}
	bound := (len(img)+c.decoded)/4 + 2
	if c.n > bound {
		more := ""
		if c.n > c.limit {
			more = "+"
		}
		return fmt.Sprintf("FAIL tree-not-bounded-by-input nodes=%d%s bound=%d len=%d decoded=%d", c.n, more, bound, len(img), c.decoded)
	}
	return "ok"
}

// ---- overlap shapes ("zip bomb by overlap"): structures whose size fields reach beyond their
// parent, into the siblings that follow.  The pristine parser rejects them (or clamps them);
// a parser that accepts them parses the overlapped siblings once per overlapping ancestor.

const (
	gadget = 100 // section header 4 + volume header 72 + file header 24
	fvHdr  = 72
)

func putFV(b []byte, length uint64) {
	copy(b[16:32], uefi.FFS2[:])
	binary.LittleEndian.PutUint64(b[32:], length)
	copy(b[40:44], "_FVH")
	binary.LittleEndian.PutUint32(b[44:], 0x0004FEFF) // erase polarity 1
	binary.LittleEndian.PutUint16(b[48:], fvHdr)
	b[55] = 2
	binary.LittleEndian.PutUint32(b[56:], 1)
	binary.LittleEndian.PutUint32(b[60:], uint32(length))
	var sum uint16
	for i := 0; i < fvHdr; i += 2 {
		if i != 50 {
			sum += binary.LittleEndian.Uint16(b[i:])
		}
	}
	binary.LittleEndian.PutUint16(b[50:], -sum)
}

func putFile(b []byte, size uint64, id byte, ftype byte) {
	for i := 0; i < 16; i++ {
		b[i] = id
	}
	b[17] = 0xAA
	b[18] = ftype
	b[20], b[21], b[22] = byte(size), byte(size>>8), byte(size>>16)
	b[23] = 0xF8
}

func put3(b []byte, v int) { b[0], b[1], b[2] = byte(v), byte(v>>8), byte(v>>16) }

// overlapImage builds one volume with one freeform file holding a chain of [levels] FV-image
// sections of 100 bytes, then a raw section.  shape selects which size field overreaches:
//
//	0  nothing (well-formed: every nested volume exactly fills its section)
//	1  nested volume Length reaches the end of the image
//	2  nested volume Length reaches the end of the enclosing file's next sibling section
//	3  nested volume exact, but its file's size reaches the end of the image
//	4  FV-image section size field reaches the end of the file (sections overlap their successors)
//	5  as 1, and the last section's size field reaches beyond the file
func overlapImage(levels, shape int) []byte {
	total := fvHdr + 24 + levels*gadget + 8
	img := make([]byte, total)
	for i := range img {
		img[i] = 0
	}
	putFV(img, uint64(total))
	putFile(img[fvHdr:], uint64(total-fvHdr), 0x11, 0x02)
	p := fvHdr + 24
	for l := 0; l < levels; l++ {
		g := img[p:]
		secSize := gadget
		fvLen := uint64(gadget - 4)
		fileSize := uint64(24)
		switch shape {
		case 1, 5:
			fvLen = uint64(total - (p + 4))
			fileSize = uint64(total - (p + 4 + fvHdr))
		case 2:
			fvLen = uint64(gadget - 4 + gadget)
			if p+4+int(fvLen) > total {
				fvLen = uint64(total - (p + 4))
			}
			fileSize = fvLen - fvHdr
		case 3:
			fileSize = uint64(total - (p + 4 + fvHdr))
		case 4:
			secSize = total - p
			fvLen = uint64(secSize - 4)
			fileSize = fvLen - fvHdr
		}
		put3(g, secSize)
		g[3] = byte(uefi.SectionTypeFirmwareVolumeImage)
		putFV(g[4:], fvLen)
		putFile(g[4+fvHdr:], fileSize, byte(0x20+l), 0x02)
		p += gadget
	}
	put3(img[p:], 8)
	if shape == 5 {
		put3(img[p:], 0x1000)
	}
	img[p+3] = byte(uefi.SectionTypeRaw)
	return img
}

// nestedImage: [levels] volumes properly nested (volume > file > FV-image section > volume ...);
// over > 0 makes every inner volume claim [over] bytes more than its section holds.
func nestedImage(levels int, over int) []byte {
	inner := []byte{8, 0, 0, byte(uefi.SectionTypeRaw), 1, 2, 3, 4}
	for l := 0; l < levels; l++ {
		// file around the sections so far, volume around the file, FV-image section around the volume
		vol := make([]byte, fvHdr+24+len(inner))
		copy(vol[fvHdr+24:], inner)
		putFile(vol[fvHdr:], uint64(24+len(inner)), byte(0x40+l), 0x02)
		claim := len(vol)
		if l < levels-1 {
			claim += over
		}
		putFV(vol, uint64(claim))
		if l == levels-1 {
			return vol
		}
		sec := make([]byte, 4+len(vol))
		put3(sec, len(sec))
		sec[3] = byte(uefi.SectionTypeFirmwareVolumeImage)
		copy(sec[4:], vol)
		// a sibling after the section, for an overreaching volume to swallow
		inner = append(sec, []byte{8, 0, 0, byte(uefi.SectionTypeRaw), 9, 9, 9, 9}...)
	}
	return inner
}

// ---- NVAR stores: a raw file with the NVAR GUID makes NewFile call NewNVarStore.  The field map of
// the store (walked from its bytes, nested stores included) lets the boundary-value substitution
// reach the entry fields: size, next link, attribute byte, GUID index byte, name terminator,
// extended-header size.  The model treats the store as an oracle (Model/Ffs.v [nvar], instantiated
// with "no store" in the runner), so these cases are P-only.

type nvField struct {
	f    uefigen.Field
	vals []uint64 // extra values besides BoundaryValues
}

func nvarFields(store []byte, base int, tableLen int, out []nvField) []nvField {
	o := 0
	for o+10 <= len(store) && string(store[o:o+4]) == "NVAR" {
		size := int(store[o+4]) | int(store[o+5])<<8
		if size < 10 || o+size > len(store) {
			break
		}
		rem := len(store) - o
		attrs := store[o+9]
		out = append(out,
			nvField{uefigen.Field{Name: "nvar.size", Off: base + o + 4, Width: 2, Remaining: rem, HdrSize: 10}, []uint64{uint64(size) - 1, uint64(size) + 1, 9, 11}},
			nvField{uefigen.Field{Name: "nvar.next", Off: base + o + 6, Width: 3, Remaining: rem, HdrSize: 10}, []uint64{uint64(size), uint64(size) - 1, 0xFFFFFE}},
			nvField{uefigen.Field{Name: "nvar.attrs", Off: base + o + 9, Width: 1, Remaining: rem, HdrSize: 10},
				[]uint64{0x80, 0x81, 0x82, 0x84, 0x88, 0x90, 0xA0, 0xC0, 0x83, 0x8A, 0x98, 0x9C, 0x7F, uint64(attrs ^ 0x04), uint64(attrs ^ 0x08), uint64(attrs ^ 0x10), uint64(attrs ^ 0x02)}})
		if attrs&0x08 == 0 {
			p := o + 10
			if attrs&0x04 != 0 {
				p += 16
			} else {
				out = append(out, nvField{uefigen.Field{Name: "nvar.guidindex", Off: base + p, Width: 1, Remaining: rem, HdrSize: 10},
					[]uint64{0xFF, 0xFE, 0x80, 0x7F, 2, uint64(tableLen), uint64(tableLen) + 1, uint64(tableLen) - 1}})
				p++
			}
			// name terminator
			q := p
			w := 1
			if attrs&0x02 != 0 {
				for q < o+size && store[q] != 0 {
					q++
				}
			} else {
				w = 2
				for q+1 < o+size && (store[q] != 0 || store[q+1] != 0) {
					q += 2
				}
			}
			if q+w <= o+size {
				out = append(out, nvField{uefigen.Field{Name: "nvar.nameterm", Off: base + q, Width: w, Remaining: o + size - q, HdrSize: 0}, []uint64{0x41, 0xFFFF, 0xD800, 0x0100}})
				data := q + w
				if data+14 <= o+size && string(store[data:data+4]) == "NVAR" {
					out = nvarFields(store[data:o+size], base+data, 0, out)
				}
			}
		}
		if attrs&0x10 != 0 && size >= 12 {
			out = append(out, nvField{uefigen.Field{Name: "nvar.extsize", Off: base + o + size - 2, Width: 2, Remaining: size, HdrSize: 3},
				[]uint64{uint64(size) - 10, uint64(size) - 9, uint64(size) - 11, 2, 3, 4}})
		}
		o += size
	}
	return out
}

func genNvar(r *Rng, tier string, emit Emit) {
	n := 3
	if tier == "thorough" {
		n = 200
	}
	for it := 0; it < n; it++ {
		rr := r.Fork(uint64(2000 + it))
		st := nvargen.Gen(rr, 0xFF, rr.Pick(0, 1))
		sb := st.Bytes()
		nf := &uefigen.File{Type: 1, State: 0xF8, Body: sb}
		copy(nf.GUID[:], uefi.NVAR[:])
		v := &uefigen.Vol{FSGUID: uefigen.FFS2, Attrs: 0x4FEFF, Revision: 2, BlockSize: 64, Files: []*uefigen.File{nf}, FreeSpace: rr.Pick(0, 8, 100)}
		if rr.Bool() {
			v.Files = append([]*uefigen.File{uefigen.GenFile(rr, uefigen.Opts{Strings: true}, 0)}, v.Files...)
		}
		img, _ := uefigen.EmitRegion(&uefigen.Region{Elems: []uefigen.Elem{{Vol: v}}})
		base := bytes.Index(img, sb)
		if base < 0 || len(sb) == 0 {
			continue
		}
		emit("P", "p_total", H(img), "x")
		emit("P", "p_bounded", H(img))
		// the GUID table is what follows the free space at the end of the store: count its entries
		tl := 0
		for k := len(sb); k >= 16 && !allByte(sb[k-16:k], 0xFF); k -= 16 {
			tl++
			if tl > 8 {
				break
			}
		}
		for _, nf := range nvarFields(sb, base, tl, nil) {
			seen := map[uint64]bool{}
			for _, val := range append(uefigen.BoundaryValues(nf.f), nf.vals...) {
				val &= uint64(1)<<(8*uint(nf.f.Width)) - 1
				if seen[val] {
					continue
				}
				seen[val] = true
				m := uefigen.Mutate(img, nf.f, val)
				emit("P", "p_total", H(m), "-")
				emit("P", "p_bounded", H(m))
			}
		}
	}
}

// NVAR entries whose name is at a boundary: UCS-2 names of length 0 (terminator only), one
// character, an odd byte count, no terminator, the terminator in the last two bytes of the entry;
// ASCII names empty, one character, unterminated.  Each store goes in bare (p_total hands the bytes
// to NewNVarStore directly) and inside a raw file with the NVAR GUID in a volume.
func genNvarNames(r *Rng, tier string, emit Emit) {
	type nm struct {
		ascii bool
		raw   []byte
		data  []byte
	}
	var names []nm
	for _, d := range [][]byte{nil, {7}, {1, 2, 3, 4, 5}} {
		names = append(names,
			nm{false, []byte{0, 0}, d},                 // empty UCS-2 name
			nm{false, []byte{'A', 0, 0, 0}, d},         // one character
			nm{false, []byte{'A', 0, 'B', 0, 0, 0}, d}, //
			nm{false, []byte{'A', 0, 'B'}, d},          // odd byte count, no terminator
			nm{false, []byte{'A', 0, 'B', 0, 'C'}, d},  //
			nm{false, []byte{'A'}, d},                  // a single byte
			nm{false, []byte{'A', 0, 'B', 0}, d},       // no terminator (unless the data supplies one)
			nm{false, []byte{0}, d},                    // half a terminator
			nm{false, []byte{0, 0, 0}, d},              // terminator, then an odd rest
			nm{false, []byte{0xFF, 0xFF, 0, 0}, d},     //
			nm{false, []byte{0, 0xD8, 0, 0}, d},        // lone surrogate
			nm{true, []byte{0}, d},                     // empty ASCII name
			nm{true, []byte{'A', 0}, d},                //
			nm{true, []byte{'A', 'B'}, d},              // unterminated ASCII
			nm{true, nil, d},                           // no name bytes at all
			nm{false, nil, d})                          //
	}
	one := func(store []byte) {
		emit("P", "p_total", H(store), "-")
		emit("P", "p_bounded", H(store))
		nf := &uefigen.File{Type: 1, State: 0xF8, Body: store}
		copy(nf.GUID[:], uefi.NVAR[:])
		v := &uefigen.Vol{FSGUID: uefigen.FFS2, Attrs: 0x4FEFF, Revision: 2, BlockSize: 64, Files: []*uefigen.File{nf}, FreeSpace: r.Pick(0, 8, 100)}
		img, _ := uefigen.EmitRegion(&uefigen.Region{Elems: []uefigen.Elem{{Vol: v}}})
		emit("P", "p_total", H(img), "x")
		emit("P", "p_bounded", H(img))
	}
	for _, n := range names {
		for _, indexed := range []bool{false, true} {
			for _, tail := range []int{0, 1, 16} {
				if tier != "thorough" && indexed && tail == 1 {
					continue
				}
				attrs := byte(0x80)
				if n.ascii {
					attrs |= 0x02
				}
				var body []byte
				var table []byte
				if indexed {
					body = append(body, 0)
					table = r.Bytes(16)
				} else {
					attrs |= 0x04
					body = append(body, r.Bytes(16)...)
				}
				body = append(body, n.raw...)
				body = append(body, n.data...)
				sz := 10 + len(body)
				e := []byte{'N', 'V', 'A', 'R', byte(sz), byte(sz >> 8), 0xFF, 0xFF, 0xFF, attrs}
				e = append(e, body...)
				// a second, ordinary entry after it, free space, GUID table
				if r.Bool() {
					g := r.Bytes(16)
					e2 := []byte{'N', 'V', 'A', 'R', 10 + 16 + 3 + 2, 0, 0xFF, 0xFF, 0xFF, 0x86}
					e2 = append(append(e2, g...), 'o', 'k', 0, 1, 2)
					e = append(e, e2...)
				}
				for i := 0; i < tail; i++ {
					e = append(e, 0xFF)
				}
				one(append(e, table...))
			}
		}
	}
}

func allByte(b []byte, x byte) bool {
	for _, c := range b {
		if c != x {
			return false
		}
	}
	return true
}

// ---- short / self-consistently wrapped codec payloads: a GUID-defined section with
// processing-required set, each codec GUID, a payload shorter than (or just reaching) the codec's own
// frame header, with the frame's size fields set to the values that make a naive length check pass
// after wrap-around: ZLIB (256-byte frame, uint32 size at 20) gets uint32(len-256); LZMA / LZMAX86
// (1 + 4 + 8 header) get a small dictionary and uncompressed sizes len-13, 2^64-1, 0, ...; BROTLI
// (two uint64) gets len-16, 2^64-1, 0.  The codec table for the model is what the real decoder
// answers (a decoder that panics here is recorded as "err": the P cases then show the panic).

var brotliGUID = [16]byte{0x50, 0x20, 0x53, 0x3d, 0xda, 0x5c, 0xd0, 0x4f, 0x87, 0x9e, 0x0f, 0x7f, 0x63, 0x0d, 0x5a, 0xfb}

func safeDecode(g [16]byte, payload []byte) (out string) {
	defer func() {
		if recover() != nil {
			out = "err"
		}
	}()
	gg, err := guid.Parse(guidString(g))
	if err != nil {
		return "err"
	}
	c := compression.CompressorFromGUID(gg)
	if c == nil {
		return "err"
	}
	plain, err := c.Decode(append([]byte{}, payload...))
	if err != nil {
		return "err"
	}
	return H(plain)
}

// mixed-endian text form of a GUID given as its 16 bytes on disk
func guidString(g [16]byte) string {
	return fmt.Sprintf("%02X%02X%02X%02X-%02X%02X-%02X%02X-%02X%02X-%02X%02X%02X%02X%02X%02X",
		g[3], g[2], g[1], g[0], g[5], g[4], g[7], g[6], g[8], g[9], g[10], g[11], g[12], g[13], g[14], g[15])
}

func putLE(b []byte, off, w int, v uint64) {
	for i := 0; i < w && off+i < len(b); i++ {
		b[off+i] = byte(v >> (8 * uint(i)))
	}
}

func shortPayloads(r *Rng, kind int, l int) [][]byte {
	base := func() []byte {
		b := r.Bytes(l)
		switch r.Intn(3) {
		case 0:
			for i := range b {
				b[i] = 0
			}
		case 1:
			for i := range b {
				b[i] = 0xFF
			}
		}
		return b
	}
	var out [][]byte
	switch kind {
	case 3: // ZLIB
		for _, v := range []uint64{uint64(uint32(l - 256)), uint64(l), 0, uint64(uint32(l - 24)), 0xFFFFFFFF} {
			b := base()
			putLE(b, 20, 4, v)
			if l > 258 { // a plausible zlib stream start after the frame
				b[256], b[257] = 0x78, 0x9C
			}
			out = append(out, b)
		}
	case 1, 2: // LZMA, LZMAX86: props, dictionary size, uncompressed size
		for _, v := range []uint64{uint64(l - 13), ^uint64(0), 0, uint64(l), uint64(uint32(l - 13)), 1} {
			b := base()
			if l > 0 {
				b[0] = 0x5D
			}
			putLE(b, 1, 4, uint64(r.Pick(0, 1, 4096, 0x10000)))
			putLE(b, 5, 8, v)
			out = append(out, b)
		}
	default: // BROTLI: decoded size, scratch size
		for _, v := range []uint64{uint64(l - 16), ^uint64(0), 0, uint64(l)} {
			b := base()
			putLE(b, 0, 8, v)
			putLE(b, 8, 8, v)
			out = append(out, b)
		}
	}
	return out
}

func genShortCodec(r *Rng, tier string, modelMax int, emit Emit) {
	lens := []int{0, 1, 4, 12, 13, 14, 16, 17, 20, 23, 24, 25, 40, 100, 255, 256, 257, 300}
	guids := map[int][16]byte{1: uefigen.LZMAGUID, 2: uefigen.LZMAX86GUID, 3: uefigen.ZLIBGUID, 4: brotliGUID}
	for _, kind := range []int{3, 1, 2, 4} {
		for _, l := range lens {
			if tier != "thorough" && kind != 3 && l > 40 && l != 256 {
				continue // quick: the long forms only for ZLIB, whose frame is 256 bytes
			}
			for _, payload := range shortPayloads(r, kind, l) {
				sec := &uefigen.Sec{Type: 0x02, GUID: guids[kind], GDAttrs: 1, Body: payload}
				if r.Chance(1, 4) {
					sec.GDExtra = r.Bytes(r.Pick(4, 8))
				}
				f := &uefigen.File{GUID: uefigen.GenGUID(r), Type: byte(r.Pick(2, 7)), State: 0xF8,
					Secs: []*uefigen.Sec{sec, {Type: 0x19, Body: []byte{1, 2, 3, 4}}}}
				v := &uefigen.Vol{FSGUID: uefigen.FFS2, Attrs: 0x4FEFF, Revision: 2, BlockSize: 64, Files: []*uefigen.File{f}, FreeSpace: r.Pick(0, 8, 100)}
				img, _ := uefigen.EmitRegion(&uefigen.Region{Elems: []uefigen.Elem{{Vol: v}}})
				if len(img) == 0 || len(img) > modelMax {
					continue
				}
				emit("T", "codec", "dec", N(uint64(kind)), H(payload), safeDecode(guids[kind], payload))
				emit("P", "p_total", H(img), "-")
				emit("P", "p_bounded", H(img))
				emit("C", "saveclass", H(img))
			}
		}
	}
}

func genOverlap(tier string, modelMax int, emit Emit) {
	one := func(img []byte) {
		emit("P", "p_total", H(img), "-")
		emit("P", "p_bounded", H(img))
		if len(img) <= modelMax {
			emit("C", "saveclass", H(img))
		}
	}
	for levels := 1; levels <= 12; levels++ {
		for shape := 0; shape <= 5; shape++ {
			one(overlapImage(levels, shape))
		}
		one(nestedImage(levels, 0))
		one(nestedImage(levels, 8))
		one(nestedImage(levels, 16))
	}
	// long chains: only the watchdog and the memory ceiling can answer these if they are accepted
	for _, levels := range []int{24, 40} {
		one(overlapImage(levels, 1))
	}
}

func gen(r *Rng, tier string, emit Emit) {
	n := 7
	maxCorpus := 2048
	modelMax := 6000
	if tier == "thorough" {
		n = 300 // 1500 gave 2.7 million cases, a 12 GB case file and a 90 minute run
		maxCorpus = 1 << 20
	}
	repo := os.Getenv("VERIF_REPO_PATH")
	if repo == "" {
		repo = "/repo"
	}
	// historical inputs first
	sel := r.U64() % 4
	for i, b := range uefigen.HistoricalCorpus(repo, maxCorpus) {
		if tier != "thorough" && (uint64(i)+sel)%4 != 0 {
			continue // quick: a seed-dependent quarter of the historical inputs
		}
		x := "-"
		if i%4 == 0 {
			x = "x" // also run the extract visitor (file-system heavy)
		}
		emit("P", "p_total", H(b), x)
		emit("P", "p_bounded", H(b))
		if len(b) <= modelMax && len(b) > 0 {
			emit("C", "saveclass", H(b))
		}
	}
	genOverlap(tier, modelMax, emit)
	genNvar(r, tier, emit)
	// ME flash partition tables: valid seeds and boundary values of every header field
	for it := 0; it < 6; it++ {
		rr := r.Fork(uint64(1000 + it))
		me, fields := uefigen.GenMEFPT(rr, rr.Pick(0, 1, 3, 12))
		emit("P", "p_total", H(me), "-")
		for _, f := range fields {
			for _, v := range uefigen.BoundaryValues(f) {
				emit("P", "p_total", H(uefigen.Mutate(me, f, v)), "-")
			}
		}
	}
	for it := 0; it < n; it++ {
		rr := r.Fork(uint64(it))
		o := uefigen.Opts{MaxDepth: rr.Pick(0, 1, 2), Strings: true, Alignments: rr.Bool(), BigBodies: false}
		reg := uefigen.GenRegion(rr, o)
		img, fields := uefigen.EmitRegion(reg)
		if len(img) > modelMax {
			continue
		}
		emit("P", "p_total", H(img))
		emit("P", "p_bounded", H(img))
		for _, f := range fields {
			for _, v := range uefigen.BoundaryValues(f) {
				m := uefigen.Mutate(img, f, v)
				emit("P", "p_total", H(m), "x")
				emit("P", "p_bounded", H(m))
				emit("C", "saveclass", H(m))
			}
		}
		// random byte flips and truncations
		for k := 0; k < 10; k++ {
			m := append([]byte{}, img...)
			for j := rr.Range(1, 4); j > 0; j-- {
				m[rr.Intn(len(m))] = byte(rr.Pick(0, 0xFF, rr.Intn(256)))
			}
			if rr.Chance(1, 3) {
				m = m[:rr.Intn(len(m)+1)]
			}
			emit("P", "p_total", H(m))
			emit("P", "p_bounded", H(m))
			emit("C", "saveclass", H(m))
		}
	}
	genAudit(r.Fork(0xA0D17), tier, modelMax, emit)
	genShortCodec(r.Fork(0x5C0DEC), tier, modelMax, emit)
	genNvarNames(r.Fork(0x4E56A), tier, emit)
}

func main() {
	CaseTimeout = 5 * time.Second
	MemLimit = 2 << 30
	uefiops.RegisterAll()
	Register("p_bounded", PBounded)
	Main(gen)
}
