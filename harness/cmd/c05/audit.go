// c05/audit.go — additions of the coverage audit: input classes the C05 generator never produced.
//
//   - every section kind x header form x small body length (the type-specific decode of each kind
//     right at its bounds: a VERSION section without room for its build number, a UI section without
//     a name, a GUID-defined section shorter than its header, ...), through every entry point: as part
//     of an image, and as the bare file / bare section handed to NewFile / NewSection directly
//   - Intel flash images with every descriptor-map byte and every region slot replaced by each
//     boundary value, and truncated at the block boundaries (the quick tier's historical inputs are
//     at most 2 KiB, a flash descriptor alone is 4 KiB)
//   - compressed sections (well-formed and with a damaged plain text): "time and memory bounded by the
//     input size plus the data it actually decompresses"
//   - the extended common header on sections of every kind, reserved bits, other known volume GUIDs,
//     with every header field replaced by each boundary value
package main

import (
	"bytes"
	"encoding/binary"
	"strings"

	"github.com/linuxboot/fiano/pkg/compression"
	"github.com/linuxboot/fiano/pkg/guid"
	. "verifharness/common"
	"verifharness/flashops"
	"verifharness/uefigen"
)

func codecGUID(kind int) *guid.GUID {
	switch kind {
	case 1:
		return &compression.LZMAGUID
	case 2:
		return &compression.LZMAX86GUID
	}
	return &compression.ZLIBGUID
}

func realEnc(kind int, plain []byte) ([]byte, error) {
	return compression.CompressorFromGUID(codecGUID(kind)).Encode(plain)
}

// sweepBody: l body bytes that look like what the section kind holds (so that the type-specific
// decoders get past their first check when there is room)
func sweepBody(r *Rng, typ byte, l int) []byte {
	var src []byte
	switch typ {
	case 0x15:
		src = []byte{'N', 0, 'a', 0, 'm', 0, 'e', 0, 0, 0, 'x', 0}
	case 0x14:
		src = []byte{0x34, 0x12, '1', 0, '.', 0, '0', 0, 0, 0, 'y', 0}
	case 0x13, 0x1b, 0x1c:
		src = append([]byte{0x02}, make([]byte, 16)...) // PUSH guid
		src = append(src, 0x06, 0x03, 0x08, 0x08)
		if r.Bool() {
			src = []byte{0x06, 0x08, 0x09, 0x0a, 0x08, 0x02, 1, 2, 3, 4, 5, 6, 7}
		}
	case 0x02:
		g := uefigen.GenGUID(r) // never a codec GUID: the model has no codec table for these bodies
		src = append(g[:], byte(r.Pick(24, 20, 0, 28, 0xFF)), 0, byte(r.Pick(0, 1, 1)), 0)
		src = append(src, r.Bytes(12)...)
	case 0x17:
		src = make([]byte, 80)
		copy(src[16:], uefigen.FFS2[:])
		binary.LittleEndian.PutUint64(src[32:], uint64(l))
		copy(src[40:], "_FVH")
		binary.LittleEndian.PutUint32(src[44:], 0x4FEFF)
		binary.LittleEndian.PutUint16(src[48:], 72)
		src[55] = 2
		binary.LittleEndian.PutUint32(src[56:], 1)
		binary.LittleEndian.PutUint32(src[60:], uint32(l))
	default:
		src = r.Bytes(40)
	}
	for len(src) < l {
		src = append(src, byte(r.Pick(0, 0xFF, r.Intn(256))))
	}
	return src[:l]
}

var sweepTypes = []byte{0x00, 0x01, 0x02, 0x03, 0x10, 0x11, 0x12, 0x13, 0x14, 0x15, 0x16, 0x17, 0x18, 0x19, 0x1b, 0x1c, 0x1a, 0xff}

// genTypeSweep: one file with the section under test followed by a RAW section, in a volume.
func genTypeSweep(r *Rng, tier string, modelMax int, emit Emit) {
	lens := []int{0, 1, 2, 3, 4, 5, 6, 7, 19, 20, 21, 23, 24, 25, 64, 72, 73}
	for _, typ := range sweepTypes {
		for _, ext := range []bool{false, true} {
			for _, l := range lens {
				if tier != "thorough" && l >= 19 && typ != 0x02 && typ != 0x17 && typ != 0x13 {
					continue // the longer bodies only matter for the kinds with a long fixed part
				}
				body := sweepBody(r, typ, l)
				hl := 4
				if ext {
					hl = 8
				}
				sec := make([]byte, hl)
				n := hl + l
				sec[0], sec[1], sec[2] = byte(n), byte(n>>8), byte(n>>16)
				sec[3] = typ
				if ext {
					sec[0], sec[1], sec[2] = 0xFF, 0xFF, 0xFF
					binary.LittleEndian.PutUint32(sec[4:], uint32(n))
				}
				sec = append(sec, body...)
				stream := append([]byte{}, sec...)
				for len(stream)%4 != 0 {
					stream = append(stream, 0)
				}
				stream = append(stream, 8, 0, 0, 0x19, 1, 2, 3, 4)
				f := &uefigen.File{GUID: uefigen.GenGUID(r), Type: byte(r.Pick(2, 7, 11)), State: 0xF8, Body: stream}
				v := &uefigen.Vol{FSGUID: uefigen.FFS2, Attrs: 0x4FEFF, Revision: 2, BlockSize: 8, Files: []*uefigen.File{f}, FreeSpace: r.Pick(0, 8)}
				img, fields := uefigen.EmitVol(v)
				emit("P", "p_total", H(img), "-")
				emit("P", "p_bounded", H(img))
				if len(img) <= modelMax {
					emit("C", "saveclass", H(img))
				}
				// the same bytes through NewSection / NewFile directly (PTotal tries every entry point on its input)
				emit("P", "p_total", H(sec), "-")
				for _, fd := range fields {
					if fd.Name == "file.guid0" {
						emit("P", "p_total", H(img[fd.Off:fd.Off+fd.Remaining]), "-")
						// ... and with the last bytes missing: the file claims more than there is
						if fd.Remaining > 25 {
							emit("P", "p_total", H(img[fd.Off:fd.Off+fd.Remaining-r.Range(1, 9)]), "-")
						}
					}
				}
			}
		}
	}
}

func genFlashTotal(r *Rng, tier string, emit Emit) {
	n := 2
	if tier == "thorough" {
		n = 12 // ~450 cases of 12..20 KiB each per image
	}
	for it := 0; it < n; it++ {
		rr := r.Fork(uint64(0xF1A50000 + it))
		fi := flashops.GenImageInfo(rr, 1)
		if fi == nil {
			continue
		}
		emit("P", "p_total", H(fi.Img), "x")
		emit("P", "p_bounded", H(fi.Img))
		for _, f := range fi.DescFields {
			seen := map[uint64]bool{}
			vals := append(uefigen.BoundaryValues(f), uint64(fi.Blocks), uint64(fi.Blocks)-1, uint64(fi.Blocks)+1, 0xFE, 0xFF0>>4, 0x7FFF, 0xFFFE)
			for _, v := range vals {
				v &= uint64(1)<<(8*uint(f.Width)) - 1
				if seen[v] {
					continue
				}
				seen[v] = true
				emit("P", "p_total", H(uefigen.Mutate(fi.Img, f, v)), "-")
			}
		}
		// truncations: inside the descriptor, at and around every block boundary
		for _, cut := range []int{19, 20, 21, 2048, 4095, 4096, 4097} {
			if cut < len(fi.Img) {
				emit("P", "p_total", H(fi.Img[:cut]), "-")
			}
		}
		for b := 2; b <= fi.Blocks; b++ {
			for _, d := range []int{-1, 0, 1} {
				if cut := b*4096 + d; cut > 0 && cut < len(fi.Img) {
					emit("P", "p_total", H(fi.Img[:cut]), "-")
				}
			}
		}
	}
}

func genCompTotal(r *Rng, tier string, modelMax int, emit Emit) {
	n := 5
	if tier == "thorough" {
		n = 40
	}
	for it := 0; it < n; it++ {
		rr := r.Fork(uint64(0xC0DEC000 + it))
		img, fields, lines := uefigen.GenCompImage(rr, realEnc, rr.Pick(0, 0, 1, 2, 3))
		if len(img) == 0 || len(img) > modelMax {
			continue
		}
		for _, l := range lines {
			emit("T", "codec", "dec", N(uint64(l.Kind)), H(l.Payload), H(l.Plain))
		}
		emit("P", "p_total", H(img), "x")
		emit("P", "p_bounded", H(img))
		emit("C", "parse", H(img))
		// "decoder errors downgraded to an opaque section": a top-level ZLIB payload with one damaged byte of
		// its stream; the codec table gets what the real decoder answers for it
		for _, l := range lines {
			at := bytes.Index(img, l.Payload)
			if l.Kind != 3 || at < 0 || len(l.Payload) < 260 {
				continue
			}
			m := append([]byte{}, img...)
			k := at + 256 + rr.Intn(len(l.Payload)-256)
			m[k] ^= byte(1 << uint(rr.Intn(8)))
			dmg := m[at : at+len(l.Payload)]
			out := "err"
			if plain, err := (&compression.ZLIB{}).Decode(append([]byte{}, dmg...)); err == nil {
				out = H(plain)
			}
			emit("T", "codec", "dec", N(3), H(dmg), out)
			emit("P", "p_total", H(m), "x")
			emit("P", "p_bounded", H(m))
			emit("C", "parse", H(m))
			break
		}
		// every header field x boundary value (not the data offset of a compressed section: a payload that
		// starts in mid-stream is a random LZMA header and the third-party decoder allocates the dictionary
		// size it announces - known finding 'third-party-lzma-dict-alloc', registered under C20)
		for _, f := range fields {
			if f.Name == "sec.gd.dataoff" && !(f.Off >= 16 && bytes.Equal(img[f.Off-16:f.Off], uefigen.ZLIBGUID[:])) {
				continue // (ZLIB sections are fine: that decoder checks its own frame before anything else)
			}
			if tier != "thorough" && !strings.HasPrefix(f.Name, "sec.") {
				continue // quick: the section fields only (file and volume fields: main loop and genDiverse)
			}
			for _, v := range uefigen.BoundaryValues(f) {
				m := uefigen.Mutate(img, f, v)
				emit("P", "p_total", H(m), "-")
				emit("P", "p_bounded", H(m))
			}
		}
	}
}

func genDiverse(r *Rng, tier string, modelMax int, emit Emit) {
	n := 2
	if tier == "thorough" {
		n = 30
	}
	for it := 0; it < n; it++ {
		rr := r.Fork(uint64(0xE17A0000 + it))
		o := uefigen.Opts{MaxDepth: rr.Pick(0, 1, 2), Strings: true, Alignments: rr.Bool(), LargeSecs: true}
		reg := uefigen.GenRegion(rr, o)
		uefigen.Diversify(reg, rr, uefigen.DivOpts{Reserved: true, AttrHigh: true, EmptyStrings: true, ExtAny: true, KnownFS: true})
		img, fields := uefigen.EmitRegion(reg)
		if len(img) == 0 || len(img) > modelMax {
			continue
		}
		emit("P", "p_total", H(img), "x")
		emit("P", "p_bounded", H(img))
		emit("C", "saveclass", H(img))
		for _, f := range fields {
			for _, v := range uefigen.BoundaryValues(f) {
				m := uefigen.Mutate(img, f, v)
				emit("P", "p_total", H(m), "x")
				emit("P", "p_bounded", H(m))
				emit("C", "saveclass", H(m))
			}
		}
	}
}

func genAudit(r *Rng, tier string, modelMax int, emit Emit) {
	genTypeSweep(r.Fork(0xA0D17001), tier, modelMax, emit)
	genFlashTotal(r.Fork(0xA0D17002), tier, emit)
	genCompTotal(r.Fork(0xA0D17003), tier, modelMax, emit)
	genDiverse(r.Fork(0xA0D17004), tier, modelMax, emit)
}
